/-
Every action of the collapsed-forwarding model preserves the byte-level invariant `Inv`.
-/
import SquidModel.Cache.CollapseInv

namespace SquidModel.Cache.Collapse

theorem take_length_take {α : Type} (l : List α) (k : Nat) : l.take (l.take k).length = l.take k := by
  rw [List.length_take]
  rcases Nat.le_total k l.length with h | h
  · rw [Nat.min_eq_left h]
  · rw [Nat.min_eq_right h, List.take_of_length_le (Nat.le_refl _), List.take_of_length_le h]

/-- appending the next bytes of `l` to a prefix of `l` gives a prefix of `l` -/
theorem prefix_extend {α : Type} (l p : List α) (r : Nat) (hp : p = l.take p.length) :
    p ++ (l.drop p.length).take r = l.take (p ++ (l.drop p.length).take r).length := by
  have h1 : p ++ (l.drop p.length).take r = l.take (p.length + r) := by
    rw [List.take_add]
    rw [← hp]
  rw [h1]
  exact (take_length_take l _).symm

theorem inv_setE_fields {O : Nat → Resp} {s : State} (h : Inv O s) (e : Nat) (ent ent' : Entry) (he : s.entries e = some ent)
    (h1 : ent'.hdr = ent.hdr) (h2 : ent'.body = ent.body) (h3 : ent'.pending = ent.pending) (h4 : ent'.aborted = ent.aborted)
    (h5 : ent'.badLen = ent.badLen) (h6 : ent'.isErr = ent.isErr) : Inv O (setE s e ent') :=
  inv_setE h e ent ent' he (entryOk_fields h1 h2 h3 h4 h5 h6 (h.ent e ent he)) (fun x hx => by rw [h1]; exact hx)
    ⟨[], by rw [h2]; simp⟩ (fun hi => by rw [h6]; exact hi)

theorem inv_allowCollapsing {O : Nat → Resp} {s : State} (h : Inv O s) (e : Nat) : Inv O (allowCollapsing s e) := by
  unfold allowCollapsing
  split
  · exact h
  · rename_i ent he
    dsimp only
    have h1 : Inv O (setE s e { ent with reqColl := true }) := inv_setE_fields h e ent _ he rfl rfl rfl rfl rfl rfl
    have h2 : Inv O (makePublic (setE s e { ent with reqColl := true }) e).1 := inv_frame (frame_makePublic _ e) h1
    split
    · exact h2
    · split
      · exact h2
      · rename_i ent2 he2
        exact inv_setE_fields h2 e ent2 _ he2 rfl rfl rfl rfl rfl rfl

theorem inv_startFetch {O : Nat → Resp} {s : State} (h : Inv O s) (c : Nat) (cl : Client) (hg : cl.gotHdr = none) (ho : cl.out = [])
    (hv : cl.verdict ≠ some .complete) : Inv O (startFetch s c cl) := by
  unfold startFetch
  dsimp only
  have h1 := inv_newEntry h
  have h2 : Inv O (if s.cf = true then allowCollapsing { setE s s.nextE {} with nextE := s.nextE + 1 } s.nextE
      else { setE s s.nextE {} with nextE := s.nextE + 1 }) := by
    split
    · exact inv_allowCollapsing h1 _
    · exact h1
  apply inv_setC h2
  constructor
  · intro _; exact ho
  · intro x hx; rw [hg] at hx; cases hx
  · intro hp; cases hp
  · intro _; exact hg
  · intro hx; exact absurd hx hv
  · intro hx; exact absurd hx hv

theorem inv_request {O : Nat → Resp} {s : State} (h : Inv O s) (nc : Bool) : Inv O (request s nc) := by
  unfold request
  dsimp only
  have h0 : Inv O { s with nextC := s.nextC + 1 } := inv_nextC h _
  split
  · exact inv_startFetch h0 _ _ rfl rfl (by simp)
  · have h1 : Inv O (find { s with nextC := s.nextC + 1 }).1 := inv_frame (frame_find _) h0
    split
    · exact inv_startFetch h1 _ _ rfl rfl (by simp)
    · split
      · exact inv_startFetch h1 _ _ rfl rfl (by simp)
      · split
        · exact inv_startFetch h1 _ _ rfl rfl (by simp)
        · split
          · exact inv_startFetch h1 _ _ rfl rfl (by simp)
          · apply inv_setC h1
            constructor <;> simp

theorem inv_replyHeaders {O : Nat → Resp} {s : State} (h : Inv O s) (e : Nat) : Inv O (replyHeaders O s e) := by
  unfold replyHeaders
  split
  · exact h
  · rename_i ent he
    split
    · exact h
    · rename_i hguard
      dsimp only
      have f1 : Frame s (removeOldPublic s e ent.keyPrivate (O e).hdr.removes) := frame_removeOldPublic s e _ _
      generalize removeOldPublic s e ent.keyPrivate (O e).hdr.removes = s1 at f1 ⊢
      split
      · exact inv_frame f1 h
      · rename_i ent1 he1
        have f2 : Frame s1 (applyReuse s1 e (reuseAnswer s.relFirst ent1.relReq (O e).hdr.reuse)) :=
          frame_applyReuse s1 e _
        generalize applyReuse s1 e (reuseAnswer s.relFirst ent1.relReq (O e).hdr.reuse) = s2 at f2 ⊢
        have hI2 : Inv O s2 := inv_frame (f1.trans f2) h
        split
        · exact hI2
        · rename_i ent2 he2
          obtain ⟨ent0, he0, hc0⟩ := (f1.trans f2).entry_some he2
          rw [he] at he0
          cases he0
          have hh : ent2.hdr = ent.hdr := congrArg Core.hdr hc0
          have hb : ent2.body = ent.body := congrArg Core.body hc0
          have hp : ent2.pending = ent.pending := congrArg Core.pending hc0
          have hi : ent2.isErr = ent.isErr := congrArg Core.isErr hc0
          have hnone : ent.hdr = none := by
            cases hx : ent.hdr with
            | none => rfl
            | some x => simp [hx] at hguard
          have hpend : ent.pending = true := by
            cases hx : ent.pending with
            | true => rfl
            | false => simp [hx] at hguard
          have ok := h.ent e ent he
          have hbody : ent.body = [] := ok.nohdr hnone
          have hnerr : ent.isErr = false := by
            cases hx : ent.isErr with
            | false => rfl
            | true => have := (ok.err hx).1; rw [hnone] at this; cases this
          apply inv_setE hI2 e ent2 _ he2
          · constructor
            · intro hx; simp [hi, hnerr] at hx
            · intro _ x hx; simp at hx; exact hx.symm
            · simp [hb, hbody]
            · intro hx; simp at hx
            · intro _ n _; simp [hb, hbody]
            · intro _ hx; simp [hp, hpend] at hx
          · intro x hx; rw [hh, hnone] at hx; cases hx
          · exact ⟨[], by simp⟩
          · intro hx; exact hx

theorem inv_replyData {O : Nat → Resp} {s : State} (h : Inv O s) (e k : Nat) : Inv O (replyData O s e k) := by
  unfold replyData
  split
  · exact h
  · rename_i ent he
    split
    · exact h
    · rename_i hd hhd
      split
      · exact h
      · rename_i hguard
        have ok := h.ent e ent he
        have hnerr : ent.isErr = false := by
          cases hx : ent.isErr with
          | false => rfl
          | true => simp [hx] at hguard
        have hpend : ent.pending = true := by
          cases hx : ent.pending with
          | true => rfl
          | false => simp [hx] at hguard
        have hO : hd = (O e).hdr := ok.hdrO hnerr hd hhd
        apply inv_setE h e ent _ he
        · constructor
          · intro hx; simp [hnerr] at hx
          · intro _ x hx; exact ok.hdrO hnerr x hx
          · exact prefix_extend (O e).sent ent.body _ ok.pre
          · intro hx; simp [hhd] at hx
          · intro _ n hn
            simp only [List.length_append, List.length_take, List.length_drop]
            rw [← hO] at hn
            simp only [hn]
            have := ok.cap hnerr n (by rw [← hO]; exact hn)
            omega
          · intro _ hx; simp [hpend] at hx
        · intro x hx; exact hx
        · exact ⟨_, rfl⟩
        · intro hx; exact hx

theorem inv_replyEnd {O : Nat → Resp} {s : State} (h : Inv O s) (e : Nat) : Inv O (replyEnd O s e) := by
  unfold replyEnd
  split
  · exact h
  · rename_i ent he
    split
    · exact h
    · rename_i hd hhd
      split
      · exact h
      · rename_i hguard
        have ok := h.ent e ent he
        have hnerr : ent.isErr = false := by
          cases hx : ent.isErr with
          | false => rfl
          | true => simp [hx] at hguard
        have hO : hd = (O e).hdr := ok.hdrO hnerr hd hhd
        split
        · rename_i hwhole
          apply inv_setE h e ent _ he
          · constructor
            · intro hx; simp [hnerr] at hx
            · intro _ x hx; exact ok.hdrO hnerr x hx
            · exact ok.pre
            · intro hx; simp [hhd] at hx
            · intro _ n hn; exact ok.cap hnerr n hn
            · intro _ _ _ _ _
              unfold Whole
              rw [← hO]
              unfold endsWhole at hwhole
              cases hc : hd.clen with
              | some n =>
                simp [hc] at hwhole
                simpa using hwhole
              | none =>
                simp [hc] at hwhole
                refine ⟨?_, hwhole.2⟩
                have := ok.pre
                rw [hwhole.1, List.take_of_length_le (Nat.le_refl _)] at this
                simpa using this
          · intro x hx; exact hx
          · exact ⟨[], by simp⟩
          · intro hx; exact hx
        · have hI1 : Inv O (releaseRequest s e false) := inv_frame (frame_releaseRequest s e false) h
          dsimp only
          split
          · exact hI1
          · rename_i ent1 he1
            have ok1 := hI1.ent e ent1 he1
            apply inv_setE hI1 e ent1 _ he1
            · constructor
              · intro hx; have := ok1.err hx; exact ⟨this.1, this.2.1, rfl⟩
              · exact ok1.hdrO
              · exact ok1.pre
              · exact ok1.nohdr
              · exact ok1.cap
              · intro _ _ _ hx; simp at hx
            · intro x hx; exact hx
            · exact ⟨[], by simp⟩
            · intro hx; exact hx

theorem inv_replyError {O : Nat → Resp} {s : State} (h : Inv O s) (e : Nat) : Inv O (replyError s e) := by
  unfold replyError
  split
  · exact h
  · rename_i ent he
    split
    · exact h
    · rename_i hguard
      dsimp only
      apply inv_frame (frame_releaseRequest _ e false)
      have ok := h.ent e ent he
      have hnone : ent.hdr = none := by
        cases hx : ent.hdr with
        | none => rfl
        | some x => simp [hx] at hguard
      have hbody : ent.body = [] := ok.nohdr hnone
      apply inv_setE h e ent _ he
      · constructor
        · intro _; exact ⟨rfl, hbody, rfl⟩
        · intro hx; simp at hx
        · simp [hbody]
        · intro hx; simp at hx
        · intro hx; simp at hx
        · intro hx; simp at hx
      · intro x hx; rw [hnone] at hx; cases hx
      · exact ⟨[], by simp⟩
      · intro _; rfl

theorem inv_abort {O : Nat → Resp} {s : State} (h : Inv O s) (e : Nat) : Inv O (abort s e) := by
  unfold abort
  split
  · exact h
  · split
    · exact h
    · have hI1 : Inv O (releaseRequest s e false) := inv_frame (frame_releaseRequest s e false) h
      dsimp only
      split
      · exact hI1
      · rename_i ent1 he1
        have ok1 := hI1.ent e ent1 he1
        apply inv_setE hI1 e ent1 _ he1
        · constructor
          · intro hx; have := ok1.err hx; exact ⟨this.1, this.2.1, rfl⟩
          · exact ok1.hdrO
          · exact ok1.pre
          · exact ok1.nohdr
          · exact ok1.cap
          · intro _ _ hx; simp at hx
        · intro x hx; exact hx
        · exact ⟨[], by simp⟩
        · intro hx; exact hx

theorem clientOk_finish {O : Nat → Resp} {s : State} {cl : Client} (v : Verdict) (ok : ClientOk O s cl)
    (hv : v = .complete → ∃ ent, s.entries cl.entry = some ent ∧ (ent.isErr = true ∨ (cl.out = (O cl.entry).wholeBody ∧ (O cl.entry).proper = true))) :
    ClientOk O s { cl with phase := .done, verdict := some v, attached := false } := by
  constructor
  · exact ok.g0
  · exact ok.g1
  · intro hx; cases hx
  · intro hx; cases hx
  · intro _; rfl
  · intro hx
    simp at hx
    exact hv hx

theorem inv_finish {O : Nat → Resp} {s : State} (h : Inv O s) (c : Nat) (cl : Client) (v : Verdict) (ok : ClientOk O s cl)
    (hv : v = .complete → ∃ ent, s.entries cl.entry = some ent ∧ (ent.isErr = true ∨ (cl.out = (O cl.entry).wholeBody ∧ (O cl.entry).proper = true))) :
    Inv O (finish s c cl v) :=
  inv_setC h c _ (clientOk_finish v ok hv)

/-- the branches of `replyStatus` that end in `complete` -/
theorem replyStatus_complete_iff {ent : Entry} {h : Hdr} {out : Nat} (hr : replyStatus ent h out = some .complete) :
    ent.aborted = false ∧ transferDone ent h out = true ∧ ent.badLen = false ∧ ∀ n, h.clen = some n → ¬ out < n := by
  unfold replyStatus at hr
  split at hr
  · cases hr
  · rename_i hab
    split at hr
    · cases hr
    · rename_i hdone
      split at hr
      · cases hr
      · rename_i hbl
        refine ⟨by simpa using hab, by simpa using hdone, by simpa using hbl, ?_⟩
        intro n hn
        rw [hn] at hr
        dsimp only at hr
        split at hr
        · cases hr
        · assumption

/-- what `replyStatus` = complete means for bytes that are a prefix of the entry's body -/
theorem replyStatus_complete {O : Nat → Resp} {e : Nat} {ent : Entry} {h : Hdr} {o : List Nat} (ok : EntryOk O e ent)
    (hh : ent.hdr = some h) (hp : o = ent.body.take o.length) (hr : replyStatus ent h o.length = some .complete) :
    ent.isErr = true ∨ (o = (O e).wholeBody ∧ (O e).proper = true) := by
  cases hie : ent.isErr with
  | true => exact Or.inl rfl
  | false =>
    right
    have hO : h = (O e).hdr := ok.hdrO hie h hh
    have hle : o.length ≤ ent.body.length := by
      have := congrArg List.length hp
      simp at this
      omega
    obtain ⟨hab, hdone, hbl, hge⟩ := replyStatus_complete_iff hr
    cases hc : h.clen with
    | some n =>
      have hlt := hge n hc
      have hcap := ok.cap hie n (by rw [← hO]; exact hc)
      have hlen : o.length = n := by omega
      have hbl' : ent.body.length = n := by omega
      have ho : o = ent.body := by
        rw [hp, hlen, ← hbl', List.take_of_length_le (Nat.le_refl _)]
      unfold Resp.wholeBody Resp.proper
      rw [← hO, hc]
      dsimp only
      constructor
      · rw [ho]
        have := ok.pre
        rw [hbl'] at this
        exact this
      · have := congrArg List.length ok.pre
        rw [hbl'] at this
        simp at this
        simp
        omega
    | none =>
      -- without Content-Length the transfer is done only when the entry is no longer pending
      unfold transferDone at hdone
      rw [hc] at hdone
      cases hpd : ent.pending with
      | true => simp [hpd] at hdone
      | false =>
        simp [hpd] at hdone
        have hw := ok.whole hie hpd hab hbl (by rw [hh]; simp)
        unfold Whole at hw
        rw [← hO, hc] at hw
        dsimp only at hw
        have ho : o = ent.body := by
          have : o.length = ent.body.length := by omega
          rw [hp, this, List.take_of_length_le (Nat.le_refl _)]
        unfold Resp.wholeBody Resp.proper
        rw [← hO, hc]
        dsimp only
        exact ⟨by rw [ho]; exact hw.1, hw.2⟩

theorem inv_wake {O : Nat → Resp} {s : State} (h : Inv O s) (c k : Nat) : Inv O (wake s c k) := by
  unfold wake
  split
  · exact h
  · rename_i cl hcl
    have ok := h.cli c cl hcl
    split
    · exact h
    · split
      · exact h
      · rename_i ent he
        split
        · -- waiting for the header
          rename_i hph
          have hg : cl.gotHdr = none := ok.g3 hph
          have ho : cl.out = [] := ok.g0 hg
          have hv : cl.verdict ≠ some .complete := by
            intro hx
            have := ok.g4 hx
            rw [hph] at this
            cases this
          have hdet : Inv O (setC s c { cl with attached := false }) := by
            apply inv_setC h
            exact ⟨ok.g0, ok.g1, ok.g2, ok.g3, ok.g4, ok.cp⟩
          split
          · exact h
          · split
            · split
              · exact inv_startFetch hdet c cl hg ho hv
              · split
                · exact inv_startFetch hdet c cl hg ho hv
                · split
                  · exact h
                  · rename_i hd hhd
                    split
                    · exact inv_finish h c cl .reval ok (by intro hx; cases hx)
                    · apply inv_setC h
                      constructor
                      · intro hx; cases hx
                      · intro x hx
                        simp at hx
                        subst hx
                        exact ⟨ent, he, hhd, by rw [ho]; simp⟩
                      · intro _ hx; cases hx
                      · intro hx; cases hx
                      · intro hx; exact absurd hx hv
                      · intro hx; exact absurd hx hv
            · split
              · exact inv_finish h c cl .failed ok (by intro hx; cases hx)
              · split
                · exact h
                · rename_i hd hhd
                  apply inv_setC h
                  constructor
                  · intro hx; cases hx
                  · intro x hx
                    simp at hx
                    subst hx
                    exact ⟨ent, he, hhd, by rw [ho]; simp⟩
                  · intro _ hx; cases hx
                  · intro hx; cases hx
                  · intro hx; exact absurd hx hv
                  · intro hx; exact absurd hx hv
        · -- copying the body
          rename_i hph
          split
          · exact inv_finish h c cl .failed ok (by intro hx; cases hx)
          · split
            · exact h
            · rename_i hd hhd
              have hgs : ∃ g, cl.gotHdr = some g := by
                cases hx : cl.gotHdr with
                | none => exact absurd hx (ok.g2 hph)
                | some g => exact ⟨g, rfl⟩
              obtain ⟨g, hg⟩ := hgs
              obtain ⟨ent', he', hh', hp'⟩ := ok.g1 g hg
              rw [he] at he'
              cases he'
              have hgd : g = hd := by rw [hhd] at hh'; cases hh'; rfl
              subst hgd
              dsimp only
              have hpre : cl.out ++ (ent.body.drop cl.out.length).take k = ent.body.take (cl.out ++ (ent.body.drop cl.out.length).take k).length :=
                prefix_extend ent.body cl.out k hp'
              have okn : ClientOk O s { cl with out := cl.out ++ (ent.body.drop cl.out.length).take k } := by
                constructor
                · intro hx; rw [hg] at hx; cases hx
                · intro x hx
                  rw [hg] at hx
                  cases hx
                  exact ⟨ent, he, hhd, hpre⟩
                · exact ok.g2
                · exact ok.g3
                · exact ok.g4
                · intro hx
                  have := ok.g4 hx
                  rw [hph] at this
                  cases this
              split
              · rename_i v hv
                apply inv_finish h c _ v okn
                intro hvc
                subst hvc
                exact ⟨ent, he, replyStatus_complete (h.ent _ ent he) hhd hpre hv⟩
              · exact inv_setC h c _ okn
        · exact h

theorem inv_clientGone {O : Nat → Resp} {s : State} (h : Inv O s) (c : Nat) (q : Bool) : Inv O (clientGone s c q) := by
  unfold clientGone
  split
  · exact h
  · rename_i cl hcl
    split
    · exact h
    · have h1 : Inv O (finish s c cl .gone) := inv_finish h c cl .gone (h.cli c cl hcl) (by intro hx; cases hx)
      dsimp only
      split
      · exact inv_abort h1 _
      · exact h1

theorem inv_evict {O : Nat → Resp} {s : State} (h : Inv O s) : Inv O (evict s) := by
  unfold evict
  split
  · exact h
  · split
    · exact h
    · exact inv_frame (frame_release s _ false) h

theorem inv_purge {O : Nat → Resp} {s : State} (h : Inv O s) : Inv O (purge s) := by
  unfold purge
  split
  · exact h
  · exact inv_frame (frame_release s _ true) h

-- the source-variant flag is configuration: no action changes it -------------------------------------------------------------
@[simp] theorem setPrivateKey_relFirst (s : State) (e : Nat) (a b : Bool) : (setPrivateKey s e a b).relFirst = s.relFirst :=
  (frame_setPrivateKey s e a b).relFirst
@[simp] theorem releaseRequest_relFirst (s : State) (e : Nat) (a : Bool) : (releaseRequest s e a).relFirst = s.relFirst :=
  (frame_releaseRequest s e a).relFirst
@[simp] theorem release_relFirst (s : State) (e : Nat) (a : Bool) : (release s e a).relFirst = s.relFirst :=
  (frame_release s e a).relFirst
@[simp] theorem find_relFirst (s : State) : (find s).1.relFirst = s.relFirst := (frame_find s).relFirst
@[simp] theorem makePublic_relFirst (s : State) (e : Nat) : (makePublic s e).1.relFirst = s.relFirst := (frame_makePublic s e).relFirst
@[simp] theorem removeOldPublic_relFirst (s : State) (e : Nat) (a b : Bool) : (removeOldPublic s e a b).relFirst = s.relFirst :=
  (frame_removeOldPublic s e a b).relFirst
@[simp] theorem applyReuse_relFirst (s : State) (e : Nat) (d : Reuse) : (applyReuse s e d).relFirst = s.relFirst :=
  (frame_applyReuse s e d).relFirst

@[simp] theorem allowCollapsing_relFirst (s : State) (e : Nat) : (allowCollapsing s e).relFirst = s.relFirst := by
  unfold allowCollapsing
  split
  · rfl
  · dsimp only
    split
    · simp
    · split <;> simp

@[simp] theorem startFetch_relFirst (s : State) (c : Nat) (cl : Client) : (startFetch s c cl).relFirst = s.relFirst := by
  unfold startFetch
  dsimp only
  split <;> simp

@[simp] theorem abort_relFirst (s : State) (e : Nat) : (abort s e).relFirst = s.relFirst := by
  unfold abort
  split
  · rfl
  · split
    · rfl
    · dsimp only
      split <;> simp

@[simp] theorem finish_relFirst (s : State) (c : Nat) (cl : Client) (v : Verdict) : (finish s c cl v).relFirst = s.relFirst := rfl

theorem step_relFirst (O : Nat → Resp) (s : State) (a : Action) : (step O s a).relFirst = s.relFirst := by
  cases a with
  | request nc =>
    show (request s nc).relFirst = s.relFirst
    unfold request
    dsimp only
    split
    · simp
    · split
      · simp
      · split
        · simp
        · split
          · simp
          · split <;> simp
  | replyHeaders e =>
    show (replyHeaders O s e).relFirst = s.relFirst
    unfold replyHeaders
    split
    · rfl
    · split
      · rfl
      · dsimp only
        split
        · simp
        · split <;> simp
  | replyData e k =>
    show (replyData O s e k).relFirst = s.relFirst
    unfold replyData
    split
    · rfl
    · split
      · rfl
      · split <;> simp
  | replyEnd e =>
    show (replyEnd O s e).relFirst = s.relFirst
    unfold replyEnd
    split
    · rfl
    · split
      · rfl
      · split
        · rfl
        · split
          · simp
          · dsimp only
            split <;> simp
  | replyError e =>
    show (replyError s e).relFirst = s.relFirst
    unfold replyError
    split
    · rfl
    · split <;> simp
  | abort e => exact abort_relFirst s e
  | wake c k =>
    show (wake s c k).relFirst = s.relFirst
    unfold wake
    split
    · rfl
    · split
      · rfl
      · split
        · rfl
        · split
          · split
            · rfl
            · split
              · split
                · simp
                · split
                  · simp
                  · split
                    · rfl
                    · split <;> simp
              · split
                · simp
                · split <;> simp
          · split
            · simp
            · split
              · rfl
              · dsimp only
                split <;> simp
          · rfl
  | clientGone c q =>
    show (clientGone s c q).relFirst = s.relFirst
    unfold clientGone
    split
    · rfl
    · split
      · rfl
      · dsimp only
        split <;> simp
  | evict =>
    show (evict s).relFirst = s.relFirst
    unfold evict
    split
    · rfl
    · split <;> simp
  | purge =>
    show (purge s).relFirst = s.relFirst
    unfold purge
    split <;> simp

theorem run_relFirst (O : Nat → Resp) (s : State) (as : List Action) : (run O s as).relFirst = s.relFirst := by
  induction as generalizing s with
  | nil => rfl
  | cons a as ih =>
    show (run O (step O s a) as).relFirst = s.relFirst
    rw [ih, step_relFirst]

theorem inv_init (O : Nat → Resp) (cf rf : Bool) : Inv O (State.init cf rf) := by
  constructor
  · intro e _; rfl
  · intro e ent he; cases he
  · intro c cl hc; cases hc

theorem inv_step {O : Nat → Resp} {s : State} (h : Inv O s) (a : Action) : Inv O (step O s a) := by
  cases a with
  | request nc => exact inv_request h nc
  | replyHeaders e => exact inv_replyHeaders h e
  | replyData e k => exact inv_replyData h e k
  | replyEnd e => exact inv_replyEnd h e
  | replyError e => exact inv_replyError h e
  | abort e => exact inv_abort h e
  | wake c k => exact inv_wake h c k
  | clientGone c q => exact inv_clientGone h c q
  | evict => exact inv_evict h
  | purge => exact inv_purge h

theorem inv_run {O : Nat → Resp} {s : State} (h : Inv O s) (as : List Action) : Inv O (run O s as) := by
  induction as generalizing s with
  | nil => exact h
  | cons a as ih => exact ih (inv_step h a)

end SquidModel.Cache.Collapse
