/-
C14 lemmas, part 5: whole header fields. For well-formed If-(None-)Match fields and a well-formed (or absent) stored
ETag, `hasOneOfEtags` over `getList` equals the RFC 9110 comparison, and `processConditional` equals RFC 9110 13.2.2.
-/
import SquidModel.Cache.CondWfRef
import SquidModel.Cache.CondDecide

namespace SquidModel.Cache.Cond
open Ref

theorem Renders.all_ok {s : Bytes} {es : List El} (h : Renders s es) : ∀ e ∈ es, e.ok := by
  induction h with
  | one e he => intro x hx; simp at hx; subst hx; exact he
  | cons e l r s es he _ _ _ ih =>
    intro x hx
    simp only [List.mem_cons] at hx
    rcases hx with hx | hx
    · subst hx; exact he
    · exact ih x hx

theorem Renders.first {s : Bytes} {es : List El} (h : Renders s es) : ∃ c m, s = c :: m ∧ isSpace c = false := by
  cases h with
  | one e he => obtain ⟨c, m, h1, _, _, h2⟩ := render_first e; exact ⟨c, m, h1, h2⟩
  | cons e l r s es he _ _ _ =>
    obtain ⟨c, m, h1, _, _, h2⟩ := render_first e
    exact ⟨c, m ++ (l ++ comma :: (r ++ s)), by rw [h1]; rfl, h2⟩

theorem Renders.last {s : Bytes} {es : List El} (h : Renders s es) : ∃ m c, s = m ++ [c] ∧ isSpace c = false := by
  induction h with
  | one e he => obtain ⟨m, c, h1, h2, _⟩ := render_last e; exact ⟨m, c, h1, h2⟩
  | cons e l r s es he _ _ _ ih =>
    obtain ⟨m, c, h1, h2⟩ := ih
    exact ⟨e.render ++ (l ++ comma :: (r ++ m)), c, by rw [h1]; simp, h2⟩

/-- a well-formed field has no surrounding whitespace to trim -/
theorem trimValue_renders {s : Bytes} {es : List El} (h : Renders s es) : trimValue s = s := by
  obtain ⟨c, m, h1, hc⟩ := h.first
  obtain ⟨m', c', h2, hc'⟩ := h.last
  unfold trimValue
  have : s.dropWhile isSpace = s := by rw [h1]; exact dropWhile_cons_of_not _ _ _ hc
  rw [this]
  unfold rtrim
  have := rdrop_of_all isSpace m' [] c' rfl hc'
  rw [h2]
  simpa using this

theorem Renders.append {a b l r : Bytes} {es fs : List El} (ha : Renders a es) (hb : Renders b fs)
    (hl : l.all isOws = true) (hr : r.all isOws = true) :
    Renders (a ++ (l ++ comma :: (r ++ b))) (es ++ fs) := by
  induction ha with
  | one e he => exact Renders.cons e l r b fs he hl hr hb
  | cons e l' r' s es he hl' hr' _ ih =>
    have : e.render ++ (l' ++ comma :: (r' ++ s)) ++ (l ++ comma :: (r ++ b))
        = e.render ++ (l' ++ comma :: (r' ++ (s ++ (l ++ comma :: (r ++ b))))) := by simp
    rw [this]
    exact Renders.cons e l' r' _ _ he hl' hr' ih

/-- every field is a well-formed list -/
inductive FieldsRender : List Bytes → List (List El) → Prop
  | nil : FieldsRender [] []
  | cons {f : Bytes} {es : List El} {fs : List Bytes} {ess : List (List El)} :
      Renders f es → FieldsRender fs ess → FieldsRender (f :: fs) (es :: ess)

theorem joinList_renders {fs : List Bytes} {ess : List (List El)} (h : FieldsRender fs ess) (hne : fs ≠ []) :
    Renders (joinList fs) ess.flatten := by
  induction h with
  | nil => exact absurd rfl hne
  | @cons f es fs' ess' hf hrest ih =>
    cases hrest with
    | nil => simpa [joinList] using hf
    | @cons g gs fs'' ess'' hg hrest' =>
      have := ih (by simp)
      have h2 := Renders.append (l := []) (r := [32]) hf this rfl (by decide)
      simpa [joinList] using h2

theorem joinComma_renders {fs : List Bytes} {ess : List (List El)} (h : FieldsRender fs ess) (hne : fs ≠ []) :
    Renders (joinComma fs) ess.flatten := by
  induction h with
  | nil => exact absurd rfl hne
  | @cons f es fs' ess' hf hrest ih =>
    cases hrest with
    | nil => simpa [joinComma] using hf
    | @cons g gs fs'' ess'' hg hrest' =>
      have := ih (by simp)
      have h2 := Renders.append (l := []) (r := []) hf this rfl rfl
      simpa [joinComma] using h2

theorem map_trimValue_renders {fs : List Bytes} {ess : List (List El)} (h : FieldsRender fs ess) :
    fs.map trimValue = fs := by
  induction h with
  | nil => rfl
  | cons hf _ ih => simp [trimValue_renders hf, ih]

theorem flatten_ok {fs : List Bytes} {ess : List (List El)} (h : FieldsRender fs ess) : ∀ e ∈ ess.flatten, e.ok := by
  induction h with
  | nil => intro e he; simp at he
  | cons hf _ ih =>
    intro e he
    simp only [List.flatten_cons, List.mem_append] at he
    rcases he with he | he
    · exact hf.all_ok e he
    · exact ih e he

/-- a stored ETag that is absent or a well-formed entity-tag -/
inductive EtagOk : Option Bytes → Prop
  | none : EtagOk none
  | tag (w : Bool) (o : Bytes) : o.all okc = true → EtagOk (some (renderTag w o))

theorem any_congr_mem {α} (l : List α) (p q : α → Bool) (h : ∀ x ∈ l, p x = q x) : l.any p = l.any q := by
  induction l with
  | nil => rfl
  | cons a l ih =>
    simp only [List.any_cons]
    rw [h a (by simp), ih (fun x hx => h x (by simp [hx]))]

/-- `hasOneOfEtags(getList(fields))` is the RFC 9110 comparison on well-formed input -/
theorem hasOneOfEtags_eq_reference (fs : List Bytes) (ess : List (List El)) (etag : Option Bytes) (w : Bool)
    (hf : FieldsRender fs ess) (he : EtagOk etag) :
    hasOneOfEtags etag (listOf fs) w = fieldMatches fs etag w := by
  by_cases hne : fs = []
  · subst hne
    cases he with
    | none => cases w <;> decide
    | tag rw ro hro =>
      simp [hasOneOfEtags, listOf, joinList, items, itemsFuel, nextItem, scanItem, rtrim, fieldMatches, elements,
        joinComma, split, trimOws, etagParseInit_render]
  · have h1 : items (listOf fs) = ess.flatten.map El.render := by
      unfold listOf
      rw [map_trimValue_renders hf]
      exact items_renders (joinList_renders hf hne)
    have h2 : elements fs = ess.flatten.map El.render := by
      unfold elements
      have := split_renders (joinComma_renders hf hne) [] rfl
      simpa using this
    have hok := flatten_ok hf
    unfold fieldMatches
    rw [h2]
    cases he with
    | none =>
      simp only [hasOneOfEtags, Option.bind_none, hasStarMember, h1, repTag, List.any_map]
      apply any_congr_mem
      intro e hmem
      exact star_eq_ref w e (hok e hmem)
    | tag rw ro hro =>
      have hrep : repTag (some (renderTag rw ro)) = some (rw, ro) := by
        have ht : trimValue (renderTag rw ro) = renderTag rw ro :=
          trimValue_renders (Renders.one (.tag rw ro) hro)
        simp [repTag, ht, parseTag_render rw ro hro]
      simp only [hasOneOfEtags, Option.bind_some, etagParseInit_render, h1, hrep, List.any_map]
      apply any_congr_mem
      intro e hmem
      exact itemMatches_eq_ref rw ro w e (hok e hmem)

/-- well-formed request: every If-None-Match / If-Match field is a well-formed list -/
structure ReqOk (r : Req) : Prop where
  inm : ∀ fs, r.inm = some fs → ∃ ess, FieldsRender fs ess
  im : ∀ fs, r.im = some fs → ∃ ess, FieldsRender fs ess
  method : r.method = .get ∨ r.method = .head
  notRanged : r.ranged = false

def verdictAnswer : Verdict → Answer
  | .preconditionFailed => .preconditionFailed
  | .notModified => .notModified
  | .perform => .hit

theorem gets304_of_get_or_head {m : Method} (h : m = .get ∨ m = .head) : m.gets304 = true := by
  rcases h with h | h <;> subst h <;> decide

/-- On well-formed requests the answer to a hit is exactly RFC 9110 13.2.2 evaluated against the cached response
(its ETag, and its Last-Modified or else the time it was received). -/
theorem hitAnswer_eq_reference (e : EntryView) (r : Req) (hs : e.status = 200) (het : EtagOk e.etag)
    (hr : ReqOk r) (hmod : 0 ≤ e.modTime) :
    hitAnswer e r = verdictAnswer (eval r.inm r.im r.ims e.etag (some e.modTime)) := by
  have hweak : (!r.ranged && (r.method == .get || r.method == .head)) = true := by
    rw [hr.notRanged]
    rcases hr.method with h | h <;> rw [h] <;> rfl
  have hg := gets304_of_get_or_head hr.method
  have hims : ∀ t, modifiedSince e t = !decide (e.modTime ≤ t) := by
    intro t
    unfold modifiedSince
    have : decide (e.modTime < 0) = false := by simpa using hmod
    rw [this, Bool.false_or]
    by_cases h : e.modTime ≤ t
    · have : ¬ e.modTime > t := by omega
      simp [h, this]
    · have : e.modTime > t := by omega
      simp [h, this]
  -- the part after If-Match
  have key : processConditional.afterIfMatch e r = verdictAnswer (evalRest r.inm r.ims e.etag (some e.modTime)) := by
    unfold processConditional.afterIfMatch evalRest
    cases hinm : r.inm with
    | some f =>
      obtain ⟨ess, hf⟩ := hr.inm f hinm
      simp only [hasIfNoneMatchEtag, hweak, hasOneOfEtags_eq_reference f ess e.etag true hf het, hg]
      by_cases hfm : fieldMatches f e.etag true = true <;> simp [hfm, verdictAnswer]
    | none =>
      cases hi : r.ims with
      | some t =>
        simp only [hims t]
        by_cases h : e.modTime ≤ t <;> simp [h, verdictAnswer]
      | none => rfl
  unfold hitAnswer
  by_cases hc : r.conditional = true
  · simp only [hc, if_true]
    unfold processConditional eval
    simp only [hs, ne_eq, not_true_eq_false, if_false]
    cases him : r.im with
    | some f =>
      obtain ⟨ess, hf⟩ := hr.im f him
      simp only [hasIfMatchEtag, hasOneOfEtags_eq_reference f ess e.etag false hf het]
      by_cases hfm : fieldMatches f e.etag false = true
      · simp [hfm, key]
      · simp [hfm, verdictAnswer]
    | none => simp [key]
  · have hc' : r.conditional = false := by simpa using hc
    simp only [Req.conditional, Bool.or_eq_false_iff, Option.isSome_eq_false_iff, Option.isNone_iff_eq_none] at hc'
    simp [hc, eval, evalRest, hc'.1.1, hc'.1.2, hc'.2, verdictAnswer]

end SquidModel.Cache.Cond
