/-
C14 lemmas, part 3: on well-formed lists of entity-tags Squid's splitter (`strListGetItem`) and the RFC 9110 list
syntax produce the same elements, and `hasOneOfEtags` decides exactly the RFC comparison.

Well-formed: elements `*`, `"opaque"`, `W/"opaque"` with opaque bytes from etagc minus the backslash (which
`strListGetItem` treats as an escape inside quotes, RFC 9110 does not), separated by OWS "," OWS.
-/
import SquidModel.Base.Finite
import SquidModel.Cache.CondLemmas
import SquidModel.Cache.CondRef

namespace SquidModel.Cache.Cond

/-- etagc without the backslash -/
def okc (b : UInt8) : Bool := Ref.isEtagc b && b != bsl

/-- a list element -/
inductive El
  | star
  | tag (weak : Bool) (opq : Bytes)
  deriving DecidableEq, Repr

def renderTag (w : Bool) (o : Bytes) : Bytes := (if w then [87, 47] else []) ++ dq :: (o ++ [dq])

def El.render : El → Bytes
  | .star => [Cond.star]
  | .tag w o => renderTag w o

def El.ok : El → Prop
  | .star => True
  | .tag _ o => o.all okc = true

/-- `s` is a well-formed list with elements `es` -/
inductive Renders : Bytes → List El → Prop
  | one (e : El) : e.ok → Renders e.render [e]
  | cons (e : El) (l r s : Bytes) (es : List El) : e.ok → l.all Ref.isOws = true → r.all Ref.isOws = true →
      Renders s es → Renders (e.render ++ (l ++ comma :: (r ++ s))) (e :: es)

/-! ### byte-class facts (decided over all 256 octets; the delimiter tables come from Gen/CondConsts) -/

theorem okc_facts : ∀ c : UInt8, (!okc c || (!stopsQuoted c && !(c == dq))) = true :=
  forall_octet _ (by decide +kernel)

theorem ows_facts : ∀ c : UInt8,
    (!Ref.isOws c || (!stopsUnquoted c && isSkip c && isSpace c && !(c == dq) && !(c == comma))) = true :=
  forall_octet _ (by decide +kernel)

theorem okc_not_stop {c : UInt8} (h : okc c = true) : stopsQuoted c = false := by
  have := okc_facts c; simp [h] at this; exact this.1
theorem okc_ne_dq {c : UInt8} (h : okc c = true) : (c == dq) = false := by
  have := okc_facts c; simp [h] at this; simpa using this.2
theorem okc_etagc {c : UInt8} (h : okc c = true) : Ref.isEtagc c = true := by
  simp [okc] at h; exact h.1
theorem ows_not_stop {c : UInt8} (h : Ref.isOws c = true) : stopsUnquoted c = false := by
  have := ows_facts c; simp [h] at this; exact this.1.1.1.1
theorem ows_skip {c : UInt8} (h : Ref.isOws c = true) : isSkip c = true := by
  have := ows_facts c; simp [h] at this; exact this.1.1.1.2
theorem ows_space {c : UInt8} (h : Ref.isOws c = true) : isSpace c = true := by
  have := ows_facts c; simp [h] at this; exact this.1.1.2
theorem ows_ne_dq {c : UInt8} (h : Ref.isOws c = true) : (c == dq) = false := by
  have := ows_facts c; simp [h] at this; simpa using this.1.2
theorem ows_ne_comma {c : UInt8} (h : Ref.isOws c = true) : (c == comma) = false := by
  have := ows_facts c; simp [h] at this; simpa using this.2

/-! ### generic list facts -/

theorem dropWhile_append_of_all (p : UInt8 → Bool) (a b : Bytes) (h : a.all p = true) :
    (a ++ b).dropWhile p = b.dropWhile p := by
  induction a with
  | nil => rfl
  | cons c a ih =>
    simp only [List.all_cons, Bool.and_eq_true] at h
    simp [h.1, ih h.2]

theorem dropWhile_cons_of_not (p : UInt8 → Bool) (c : UInt8) (s : Bytes) (h : p c = false) :
    (c :: s).dropWhile p = c :: s := by
  simp [List.dropWhile, h]

/-- trimming `p`-bytes at the end of `a ++ [c] ++ l` when `l` is all `p` and `c` is not -/
theorem rdrop_of_all (p : UInt8 → Bool) (a l : Bytes) (c : UInt8) (hl : l.all p = true) (hc : p c = false) :
    ((a ++ c :: l).reverse.dropWhile p).reverse = a ++ [c] := by
  have : (a ++ c :: l).reverse = l.reverse ++ (c :: a.reverse) := by simp
  rw [this, dropWhile_append_of_all p _ _ (by simpa using hl), dropWhile_cons_of_not p _ _ hc]
  simp

/-! ### shape of a rendered element -/

theorem render_first (e : El) : ∃ c m, e.render = c :: m ∧ isSkip c = false ∧ Ref.isOws c = false ∧ isSpace c = false := by
  cases e with
  | star => exact ⟨star, [], rfl, by decide, by decide, by decide⟩
  | tag w o =>
    cases w
    · exact ⟨dq, o ++ [dq], rfl, by decide, by decide, by decide⟩
    · exact ⟨87, 47 :: dq :: (o ++ [dq]), rfl, by decide, by decide, by decide⟩

theorem render_last (e : El) : ∃ m c, e.render = m ++ [c] ∧ isSpace c = false ∧ Ref.isOws c = false := by
  cases e with
  | star => exact ⟨[], star, rfl, by decide, by decide⟩
  | tag w o =>
    cases w
    · exact ⟨dq :: o, dq, by simp [El.render, renderTag], by decide, by decide⟩
    · exact ⟨87 :: 47 :: dq :: o, dq, by simp [El.render, renderTag], by decide, by decide⟩

/-! ### Squid's splitter on well-formed lists -/

/-- inside quotes: an opaque run followed by the closing quote -/
theorem scan_quoted (o t : Bytes) (ho : o.all okc = true) :
    scanItem true (o ++ dq :: t) = (o ++ dq :: (scanItem false t).1, (scanItem false t).2) := by
  induction o with
  | nil =>
    cases t with
    | nil => simp [scanItem]
    | cons d s =>
      have h1 : stopsQuoted dq = true := by decide
      simp [scanItem, h1]
  | cons c o ih =>
    simp only [List.all_cons, Bool.and_eq_true] at ho
    have hne : ∃ d s, o ++ dq :: t = d :: s := by
      cases o with
      | nil => exact ⟨dq, t, rfl⟩
      | cons x xs => exact ⟨x, xs ++ dq :: t, rfl⟩
    obtain ⟨d, s, hds⟩ := hne
    have := ih ho.2
    rw [hds] at this
    simp only [List.cons_append, hds]
    rw [scanItem]
    simp [okc_not_stop ho.1, this]

theorem scan_unquoted_plain (c : UInt8) (t : Bytes) (h : stopsUnquoted c = false) :
    scanItem false (c :: t) = (c :: (scanItem false t).1, (scanItem false t).2) := by
  rw [scanItem]; simp [h]

/-- a rendered element is scanned as a whole -/
theorem scan_render (e : El) (he : e.ok) (t : Bytes) :
    scanItem false (e.render ++ t) = (e.render ++ (scanItem false t).1, (scanItem false t).2) := by
  have hq : stopsUnquoted dq = true := by decide
  have opening : ∀ o, o.all okc = true →
      scanItem false (dq :: (o ++ [dq]) ++ t) = (dq :: (o ++ [dq]) ++ (scanItem false t).1, (scanItem false t).2) := by
    intro o ho
    have := scan_quoted o t ho
    simp only [List.cons_append, List.append_assoc, List.singleton_append]
    rw [scanItem]
    simp [hq, this]
  cases e with
  | star =>
    simp only [El.render, List.singleton_append]
    exact scan_unquoted_plain _ _ (by decide)
  | tag w o =>
    have ho : o.all okc = true := he
    cases w
    · simpa [El.render, renderTag] using opening o ho
    · simp only [El.render, renderTag, if_true, List.cons_append, List.nil_append]
      rw [scan_unquoted_plain 87 _ (by decide), scan_unquoted_plain 47 _ (by decide)]
      have := opening o ho
      simp only [List.cons_append, List.append_assoc] at this ⊢
      rw [this]

theorem scan_ows_comma (l t : Bytes) (hl : l.all Ref.isOws = true) :
    scanItem false (l ++ comma :: t) = (l, comma :: t) := by
  induction l with
  | nil =>
    have h1 : stopsUnquoted comma = true := by decide
    simp [scanItem, h1]; decide
  | cons c l ih =>
    simp only [List.all_cons, Bool.and_eq_true] at hl
    simp only [List.cons_append]
    rw [scan_unquoted_plain c _ (ows_not_stop hl.1), ih hl.2]

theorem rtrim_render_ows (e : El) (l : Bytes) (hl : l.all Ref.isOws = true) : rtrim (e.render ++ l) = e.render := by
  obtain ⟨m, c, hm, hc, _⟩ := render_last e
  have hl' : l.all isSpace = true := by
    simp only [List.all_eq_true] at hl ⊢
    intro x hx; exact ows_space (hl x hx)
  unfold rtrim
  rw [hm, List.append_assoc, List.singleton_append, rdrop_of_all isSpace m l c hl' hc]

theorem all_skip_of_ows {r : Bytes} (h : r.all Ref.isOws = true) : r.all isSkip = true := by
  simp only [List.all_eq_true] at h ⊢
  intro x hx; exact ows_skip (h x hx)

/-- `nextItem` on (skippable prefix) ++ element ++ rest-of-list -/
theorem nextItem_render_cons (pre : Bytes) (e : El) (he : e.ok) (l t : Bytes)
    (hpre : pre.all isSkip = true) (hl : l.all Ref.isOws = true) :
    nextItem (pre ++ (e.render ++ (l ++ comma :: t))) = some (e.render, comma :: t) := by
  obtain ⟨c, m, hcm, hc, _, _⟩ := render_first e
  unfold nextItem
  have hdrop : (pre ++ (e.render ++ (l ++ comma :: t))).dropWhile isSkip = e.render ++ (l ++ comma :: t) := by
    rw [dropWhile_append_of_all _ _ _ hpre, hcm]
    exact dropWhile_cons_of_not _ _ _ hc
  simp only [hdrop]
  rw [scan_render e he, scan_ows_comma l t hl]
  simp only [rtrim_render_ows e l hl]
  have hne : e.render.isEmpty = false := by rw [hcm]; rfl
  simp [hne]

theorem nextItem_render_last (pre : Bytes) (e : El) (he : e.ok) (hpre : pre.all isSkip = true) :
    nextItem (pre ++ e.render) = some (e.render, []) := by
  obtain ⟨c, m, hcm, hc, _, _⟩ := render_first e
  unfold nextItem
  have hdrop : (pre ++ e.render).dropWhile isSkip = e.render := by
    rw [dropWhile_append_of_all _ _ _ hpre, hcm]
    exact dropWhile_cons_of_not _ _ _ hc
  simp only [hdrop]
  have := scan_render e he []
  simp only [List.append_nil] at this
  rw [this]
  simp only [scanItem, List.append_nil]
  have := rtrim_render_ows e [] (by rfl)
  simp only [List.append_nil] at this
  rw [this]
  have hne : e.render.isEmpty = false := by rw [hcm]; rfl
  simp [hne]

theorem itemsFuel_renders {s : Bytes} {es : List El} (h : Renders s es) :
    ∀ (pre : Bytes), pre.all isSkip = true → ∀ n, (pre ++ s).length < n →
      itemsFuel n (pre ++ s) = es.map El.render := by
  induction h with
  | one e he =>
    intro pre hpre n hn
    cases n with
    | zero => omega
    | succ n =>
      rw [itemsFuel, nextItem_render_last pre e he hpre]
      cases n with
      | zero => rfl
      | succ n => simp [itemsFuel, nextItem, scanItem, rtrim]
  | cons e l r s es he hl hr _ ih =>
    intro pre hpre n hn
    cases n with
    | zero => omega
    | succ n =>
      rw [itemsFuel, nextItem_render_cons pre e he l (r ++ s) hpre hl]
      simp only [List.map_cons, List.cons.injEq, true_and]
      have hpos : 0 < e.render.length := by
        obtain ⟨c, m, hcm, _⟩ := render_first e
        rw [hcm]; simp
      have := ih (comma :: r) (by simp [all_skip_of_ows hr]; decide) n (by
        simp only [List.length_append, List.length_cons] at hn ⊢; omega)
      simpa using this

/-- Squid's items of a well-formed list are its elements -/
theorem items_renders {s : Bytes} {es : List El} (h : Renders s es) : items s = es.map El.render := by
  have := itemsFuel_renders h [] rfl (s.length + 1) (by simp)
  simpa [items] using this

end SquidModel.Cache.Cond
