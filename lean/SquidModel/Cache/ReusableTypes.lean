/-
Types shared by the generated tables (Gen/Reusable.lean) and the C11 model (Cache/Reusable*.lean).
-/
namespace SquidModel.Cache

/-- The groups of the `switch (rep->sline.status())` in `HttpStateData::reusableReply` (src/http.cc), named by what the
    group's statements do. -/
inductive StatusGroup
  | refresh      -- "Responses that are cacheable": refreshIsCachable(entry) || REFRESH_OVERRIDE(store_stale)
  | expiresDate  -- "only cacheable if the server says so": Date / Expires comparison
  | negShare     -- negatively cacheable, otherwise "do not cache but share" (falls through into negNoShare's statements)
  | negNoShare   -- negatively cacheable, otherwise "do not cache and do not share" (scBadRequest)
  | shareOnly    -- never cached, shareable
  | never        -- never cached, not shareable
  | unknown      -- `default:`
  deriving DecidableEq, Repr

/-- `HttpHdrCcType` (src/HttpHdrCc.h) without CC_ENUM_END. -/
inductive CcType
  | pub | priv | noCache | noStore | noTransform | mustRevalidate | proxyRevalidate | maxAge | sMaxage
  | maxStale | minFresh | onlyIfCached | staleIfError | immutable | other
  deriving DecidableEq, Repr

end SquidModel.Cache
