/-
C14 lemmas, part 1: the list splitter `strListGetItem` cuts contiguous pieces out of the string, so anything
`hasOneOfEtags` matches is literally present in the header value.
-/
import SquidModel.Cache.CondETag

namespace SquidModel.Cache.Cond

/-- the scan splits its input: item bytes followed by the unread rest -/
theorem scanItem_append (q : Bool) (s : Bytes) : (scanItem q s).1 ++ (scanItem q s).2 = s := by
  fun_induction scanItem q s <;> simp_all

/-- `l` occurs contiguously in `s` -/
def IsInfix (l s : Bytes) : Prop := ∃ a b, s = a ++ l ++ b

theorem IsInfix.refl (s : Bytes) : IsInfix s s := ⟨[], [], by simp⟩

theorem IsInfix.trans {a b c : Bytes} (h1 : IsInfix a b) (h2 : IsInfix b c) : IsInfix a c := by
  obtain ⟨x, y, rfl⟩ := h1
  obtain ⟨u, v, rfl⟩ := h2
  exact ⟨u ++ x, y ++ v, by simp [List.append_assoc]⟩

theorem dropWhile_infix (p : UInt8 → Bool) (s : Bytes) : IsInfix (s.dropWhile p) s := by
  induction s with
  | nil => exact ⟨[], [], rfl⟩
  | cons c s ih =>
    simp only [List.dropWhile]
    split
    · obtain ⟨a, b, h⟩ := ih
      exact ⟨c :: a, b, congrArg (c :: ·) h⟩
    · exact IsInfix.refl _

theorem rtrim_infix (s : Bytes) : IsInfix (rtrim s) s := by
  unfold rtrim
  obtain ⟨a, b, h⟩ := dropWhile_infix isSpace s.reverse
  refine ⟨b.reverse, a.reverse, ?_⟩
  have := congrArg List.reverse h
  simp only [List.reverse_reverse, List.reverse_append] at this
  rw [List.append_assoc]; exact this

theorem trimValue_infix (s : Bytes) : IsInfix (trimValue s) s :=
  IsInfix.trans (rtrim_infix _) (dropWhile_infix _ _)

theorem nextItem_infix {s item rest : Bytes} (h : nextItem s = some (item, rest)) :
    IsInfix item s ∧ IsInfix rest s ∧ rest.length < s.length := by
  unfold nextItem at h
  simp only at h
  split at h
  · cases h
  · rename_i hne
    injection h with h
    injection h with h1 h2
    have happ := scanItem_append false (s.dropWhile isSkip)
    have hd := dropWhile_infix isSkip s
    have hfst : IsInfix (scanItem false (s.dropWhile isSkip)).1 s :=
      IsInfix.trans ⟨[], (scanItem false (s.dropWhile isSkip)).2, by simpa using happ.symm⟩ hd
    have hsnd : IsInfix (scanItem false (s.dropWhile isSkip)).2 s :=
      IsInfix.trans ⟨(scanItem false (s.dropWhile isSkip)).1, [], by simpa using happ.symm⟩ hd
    refine ⟨h1 ▸ IsInfix.trans (rtrim_infix _) hfst, h2 ▸ hsnd, ?_⟩
    subst h2
    -- the item is not empty, so the scan consumed at least one byte
    have hne1 : (scanItem false (s.dropWhile isSkip)).1 ≠ [] := by
      intro h0
      apply hne
      rw [h0]; rfl
    have hlen := congrArg List.length happ
    simp only [List.length_append] at hlen
    have hpos : 0 < (scanItem false (s.dropWhile isSkip)).1.length := List.length_pos_iff.mpr hne1
    obtain ⟨a, b, hab⟩ := hd
    have hl2 := congrArg List.length hab
    simp only [List.length_append] at hl2
    omega

theorem itemsFuel_infix (n : Nat) (s : Bytes) : ∀ item ∈ itemsFuel n s, IsInfix item s := by
  induction n generalizing s with
  | zero => intro item h; simp [itemsFuel] at h
  | succ n ih =>
    intro item h
    unfold itemsFuel at h
    split at h
    · simp at h
    · rename_i it rest hn
      obtain ⟨h1, h2, _⟩ := nextItem_infix hn
      simp only [List.mem_cons] at h
      rcases h with h | h
      · subst h; exact h1
      · exact IsInfix.trans (ih rest item h) h2

theorem items_infix (s : Bytes) : ∀ item ∈ items s, IsInfix item s := itemsFuel_infix _ s

/-- what a successful `etagParseInit` returns -/
theorem etagParseInit_some {s : Bytes} {t : ETag} (h : etagParseInit s = some t) :
    t.weak = [87, 47].isPrefixOf s ∧ t.str = (if t.weak then s.drop 2 else s) ∧
      2 ≤ t.str.length ∧ t.str.head? = some dq ∧ t.str.getLast? = some dq := by
  unfold etagParseInit at h
  by_cases hw : [87, 47].isPrefixOf s = true
  · simp only [hw, if_true] at h
    by_cases hc : (List.drop 2 s).length ≥ 2 ∧ (List.drop 2 s).head? = some dq ∧ (List.drop 2 s).getLast? = some dq
    · rw [if_pos hc] at h
      injection h with h
      subst h
      exact ⟨hw.symm, by simp, hc.1, hc.2.1, hc.2.2⟩
    · rw [if_neg hc] at h; cases h
  · have hw' : [87, 47].isPrefixOf s = false := Bool.eq_false_iff.mpr hw
    simp only [hw', Bool.false_eq_true, if_false] at h
    by_cases hc : s.length ≥ 2 ∧ s.head? = some dq ∧ s.getLast? = some dq
    · rw [if_pos hc] at h
      injection h with h
      subst h
      exact ⟨hw'.symm, by simp, hc.1, hc.2.1, hc.2.2⟩
    · rw [if_neg hc] at h; cases h

/-- a successfully parsed entity-tag's `str` is the tail of the parsed text -/
theorem etagParseInit_str_infix {s : Bytes} {t : ETag} (h : etagParseInit s = some t) : IsInfix t.str s := by
  obtain ⟨_, hs, _⟩ := etagParseInit_some h
  rw [hs]
  split
  · exact ⟨s.take 2, [], by simp⟩
  · exact IsInfix.refl _

theorem etagParseInit_str_length {s : Bytes} {t : ETag} (h : etagParseInit s = some t) : 2 ≤ t.str.length :=
  (etagParseInit_some h).2.2.1

/-- `hasOneOfEtags` in terms of the items of the list -/
theorem hasOneOfEtags_iff (etag : Option Bytes) (list : Bytes) (w : Bool) :
    hasOneOfEtags etag list w = true ↔
      ∃ item ∈ items list, item = [star] ∨
        ∃ rep t, etag.bind etagParseInit = some rep ∧ etagParseInit item = some t ∧
          (if w then weakEq rep t else strongEq rep t) = true := by
  unfold hasOneOfEtags
  split
  · rename_i hnone
    simp only [hasStarMember, List.any_eq_true, beq_iff_eq, hnone]
    constructor
    · rintro ⟨x, hx, rfl⟩; exact ⟨_, hx, Or.inl rfl⟩
    · rintro ⟨x, hx, h | ⟨rep, t, h, _⟩⟩
      · exact ⟨x, hx, h⟩
      · cases h
  · rename_i rep hrep
    simp only [List.any_eq_true, hrep]
    constructor
    · rintro ⟨x, hx, hm⟩
      refine ⟨x, hx, ?_⟩
      unfold itemMatches at hm
      split at hm
      · rename_i h; exact Or.inl (by simpa using h)
      · split at hm
        · rename_i t ht
          exact Or.inr ⟨rep, t, rfl, ht, hm⟩
        · cases hm
    · rintro ⟨x, hx, h | ⟨rep', t, h1, h2, h3⟩⟩
      · exact ⟨x, hx, by simp [itemMatches, h]⟩
      · injection h1 with h1
        subst h1
        refine ⟨x, hx, ?_⟩
        unfold itemMatches
        split
        · rfl
        · simp [h2, h3]

/-- Whatever `hasOneOfEtags` accepts is literally in the list: a lone `*`, or the quoted string of the stored entity-tag. -/
theorem hasOneOfEtags_literal (etag : Option Bytes) (list : Bytes) (w : Bool)
    (h : hasOneOfEtags etag list w = true) :
    IsInfix [star] list ∨ ∃ rep, etag.bind etagParseInit = some rep ∧ IsInfix rep.str list := by
  obtain ⟨item, hi, hm⟩ := (hasOneOfEtags_iff etag list w).mp h
  have hinf := items_infix list item hi
  rcases hm with hm | ⟨rep, t, hrep, ht, heq⟩
  · subst hm; exact Or.inl hinf
  · refine Or.inr ⟨rep, hrep, ?_⟩
    have hstr : rep.str = t.str := by
      split at heq
      · simpa [weakEq] using heq
      · simp only [strongEq, Bool.and_eq_true] at heq
        simpa using heq.2
    rw [hstr]
    exact IsInfix.trans (etagParseInit_str_infix ht) hinf

end SquidModel.Cache.Cond
