/-
C14 lemmas, part 6: over histories. As long as the cache entry is a coherent copy of one version (its ETag is that
version's ETag, its Content-Length is the body's), every answer is justified against the response that would otherwise be
sent; and the entry stays coherent unless one of three things happens (each a confirmed defect of the real code):
a 304 carrying another version's ETag, a failed revalidation of a request with If-Match. (A third one, a 304 carrying
Content-Length, was repaired in /repo commit c3c036b: `skipUpdateHeader` now exempts Content-Length, the generated table
says so, and the exclusion is gone.)
-/
import SquidModel.Cache.CondWfField
import SquidModel.Cache.CondHistory

namespace SquidModel.Cache.Cond
open Ref

/-- RFC 9110 13.2.2 applied to the client's request of this step against a response with these validators -/
def clientVerdict (st : Step) (etag : Option Bytes) (modTime : Option Int) : Verdict :=
  eval st.inm st.im (Req.ofStep st).ims etag modTime

/-- the request's If-Match (if any) names this entity-tag -/
def ifMatchHolds (st : Step) (etag : Option Bytes) : Prop :=
  ∀ f, st.im = some f → fieldMatches f etag false = true

/-- the versions the origin can serve: well-formed ETags (or none), dates after the epoch -/
def VersOk (vers : List Ver) : Prop :=
  ∀ k, EtagOk (verOf vers k).etag ∧ ∀ t, (verOf vers k).lm = some t → 0 ≤ t

/-- a well-formed request (RFC 9110 grammar, no backslash in entity-tags, dates after the epoch) -/
structure StepOk (st : Step) : Prop where
  req : ReqOk (Req.ofStep st)
  ims : ∀ t, st.ims = .time t → 0 < t
  notNow : st.ims ≠ .now

/-- the cached entry is a coherent copy of the version whose body it stores -/
structure Entry.Faithful (vers : List Ver) (e : Entry) : Prop where
  etag : e.etag = (verOf vers e.body).etag
  cl : e.cl = none
  lm : ∀ t, e.lm = some t → 0 ≤ t

def StateOk (vers : List Ver) (s : Option Entry) : Prop := ∀ e, s = some e → e.Faithful vers

/-- the two excluded regions, relative to the current cache state -/
structure StepClean (vers : List Ver) (st : Step) (s : Option Entry) : Prop where
  /-- a 304 that revalidates the stale entry carries the stored entity-tag -/
  sameTag : ∀ e k cl, s = some e → e.fresh = false → originReply vers st (revalFwd e st) = .notMod k cl →
    (verOf vers k).etag = (verOf vers e.body).etag
  /-- a request with If-Match is not answered from a stale entry after a failed revalidation -/
  noStaleIfError : ∀ e, s = some e → e.fresh = false → st.omode = .err → st.im = none

/-- what the property allows as the answer of this step -/
def Justified (vers : List Ver) (st : Step) (s : Option Entry) : Out → Prop
  | .full e _ => e.Faithful vers ∧ ifMatchHolds st e.etag
  | .made304 _ _ => ∃ e : Entry, s = some e ∧ clientVerdict st e.etag (some e.view.modTime) = .notModified
  | .relayed304 _ _ _ =>
    clientVerdict st (verOf vers st.k).etag (verOf vers st.k).lm = .notModified ∨
    ∃ e : Entry, e.Faithful vers ∧ e.etag = (verOf vers st.k).etag ∧ clientVerdict st e.etag (some e.view.modTime) = .notModified
  | .err412 =>
    (∃ e : Entry, s = some e ∧ clientVerdict st e.etag (some e.view.modTime) = .preconditionFailed) ∨
    ¬ ifMatchHolds st (verOf vers st.k).etag
  | .err500 => s = none ∧ st.omode = .err
  | .err504 => st.method ≠ .get

/-! ### small facts -/

theorem skips_etag : skipsUpdate "ETAG" = false := by decide
theorem skips_lm : skipsUpdate "LAST_MODIFIED" = false := by decide
/-- since /repo c3c036b: a 304 does not update the stored Content-Length (regenerated from src/HttpHeader.cc every run) -/
theorem skips_cl : skipsUpdate "CONTENT_LENGTH" = true := by decide

theorem trimValue_etagOk {v : Option Bytes} (h : EtagOk v) : v.map trimValue = v := by
  cases h with
  | none => rfl
  | tag w o ho =>
    have := trimValue_renders (Renders.one (.tag w o) ho)
    simpa [El.render] using this

theorem trimFields_of_ok {f : Option (List Bytes)} (h : ∀ fs, f = some fs → ∃ ess, FieldsRender fs ess) :
    trimFields f = f := by
  cases f with
  | none => rfl
  | some fs =>
    obtain ⟨ess, hf⟩ := h fs rfl
    simp [trimFields, map_trimValue_renders hf]

theorem eval_pf_iff (inm im : Option (List Bytes)) (ims : Option Int) (etag : Option Bytes) (m : Option Int) :
    eval inm im ims etag m = .preconditionFailed ↔ ∃ f, im = some f ∧ fieldMatches f etag false = false := by
  unfold eval
  cases im with
  | none =>
    simp only [Bool.false_eq_true, if_false]
    constructor
    · intro h
      unfold evalRest at h
      split at h
      · split at h <;> cases h
      · split at h
        · split at h <;> cases h
        · cases h
    · rintro ⟨f, hf, _⟩; cases hf
  | some f =>
    by_cases h : fieldMatches f etag false = true
    · simp only [h, Bool.not_true, Bool.false_eq_true, if_false]
      constructor
      · intro h'
        unfold evalRest at h'
        split at h'
        · split at h' <;> cases h'
        · split at h'
          · split at h' <;> cases h'
          · cases h'
      · rintro ⟨f', hf', hfm⟩
        injection hf' with hf'; subst hf'; rw [h] at hfm; cases hfm
    · have h' : fieldMatches f etag false = false := by simpa using h
      simp only [h', Bool.not_false, if_true, true_iff]
      exact ⟨f, rfl, h'⟩

theorem ifMatchHolds_iff (st : Step) (etag : Option Bytes) (m : Option Int) :
    ifMatchHolds st etag ↔ clientVerdict st etag m ≠ .preconditionFailed := by
  unfold clientVerdict
  rw [Ne, eval_pf_iff]
  unfold ifMatchHolds
  constructor
  · rintro h ⟨f, hf, hfm⟩; rw [h f hf] at hfm; cases hfm
  · intro h f hf
    by_cases hfm : fieldMatches f etag false = true
    · exact hfm
    · exact absurd ⟨f, hf, by simpa using hfm⟩ h

/-- the verdict about If-Match only depends on If-Match and the entity-tag -/
theorem eval_pf_congr {inm inm' im : Option (List Bytes)} {ims ims' : Option Int} {etag : Option Bytes} {m m' : Option Int} :
    eval inm im ims etag m = .preconditionFailed ↔ eval inm' im ims' etag m' = .preconditionFailed := by
  rw [eval_pf_iff, eval_pf_iff]

theorem eval_inm_notModified {f : List Bytes} {im : Option (List Bytes)} {ims ims' : Option Int} {etag : Option Bytes}
    {m m' : Option Int} (h : eval (some f) im ims etag m = .notModified) : eval (some f) im ims' etag m' = .notModified := by
  cases im with
  | none =>
    simp only [eval, Bool.false_eq_true, if_false] at h ⊢
    unfold evalRest at h ⊢; exact h
  | some g =>
    by_cases hg : fieldMatches g etag false = true
    · simp only [eval, hg, Bool.not_true, Bool.false_eq_true, if_false] at h ⊢
      unfold evalRest at h ⊢; exact h
    · have hg' : fieldMatches g etag false = false := by simpa using hg
      simp [eval, hg'] at h

theorem eval_none_ims {im : Option (List Bytes)} {etag : Option Bytes} {t m : Int}
    (hnot : eval none im (some t) etag (some m) ≠ .preconditionFailed) (hle : m ≤ t) :
    eval none im (some t) etag (some m) = .notModified := by
  cases im with
  | none => simp [eval, evalRest, hle]
  | some g =>
    by_cases hg : fieldMatches g etag false = true
    · simp [eval, evalRest, hg, hle]
    · have hg' : fieldMatches g etag false = false := by simpa using hg
      simp [eval, hg'] at hnot

theorem storeNew_faithful {vers : List Ver} (hv : VersOk vers) (k i : Nat) (fr : Bool) :
    (storeNew vers k i fr).Faithful vers := by
  refine ⟨?_, rfl, ?_⟩
  · simp [storeNew, trimValue_etagOk (hv k).1]
  · intro t ht; exact (hv k).2 t ht

theorem modTime_nonneg {vers : List Ver} {e : Entry} (h : e.Faithful vers) : 0 ≤ e.view.modTime := by
  unfold EntryView.modTime Entry.view
  cases hl : e.lm with
  | none => simp [nowT]
  | some t => simpa using h.lm t hl

/-- what the origin computes on a miss is the client's own verdict against the origin's current version -/
theorem origin_eval_miss {vers : List Ver} {st : Step} (hok : StepOk st) :
    eval (missFwd st).inm (missFwd st).im (missFwd st).ims.toTime (verOf vers st.k).etag (verOf vers st.k).lm
      = clientVerdict st (verOf vers st.k).etag (verOf vers st.k).lm := by
  have h1 : trimFields st.inm = st.inm := trimFields_of_ok hok.req.inm
  have h2 : trimFields st.im = st.im := trimFields_of_ok hok.req.im
  have h3 : st.ims.toTime = (Req.ofStep st).ims := by
    cases h : st.ims with
    | time t => have := hok.ims t h; simp [Req.ofStep, h, ImsTok.toTime, this]
    | none => simp [Req.ofStep, h, ImsTok.toTime]
    | junk => simp [Req.ofStep, h, ImsTok.toTime]
    | now => exact absurd h hok.notNow
  simp only [missFwd, h1, h2, h3, clientVerdict]

/-- the scripted origin, case by case -/
theorem originReply_cases (vers : List Ver) (st : Step) (f : Fwd) :
    (st.omode = .err ∧ originReply vers st f = .error) ∨
    (st.omode ≠ .err ∧
      ((eval f.inm f.im f.ims.toTime (verOf vers st.k).etag (verOf vers st.k).lm = .preconditionFailed ∧
          originReply vers st f = .precond) ∨
       (eval f.inm f.im f.ims.toTime (verOf vers st.k).etag (verOf vers st.k).lm = .notModified ∧
          ∃ cl, originReply vers st f = .notMod st.k cl ∧ (∀ n, cl = some n → st.omode = .cl n)) ∨
       (eval f.inm f.im f.ims.toTime (verOf vers st.k).etag (verOf vers st.k).lm = .perform ∧
          originReply vers st f = .ok st.k))) := by
  unfold originReply
  cases hm : st.omode with
  | err => exact Or.inl ⟨rfl, rfl⟩
  | ref =>
    refine Or.inr ⟨by simp, ?_⟩
    show _ ∨ _ ∨ _
    cases hv : eval f.inm f.im f.ims.toTime (verOf vers st.k).etag (verOf vers st.k).lm with
    | preconditionFailed => exact Or.inl ⟨rfl, by simp [originVerdict, hv, replyOf]⟩
    | notModified => exact Or.inr (Or.inl ⟨rfl, none, by simp [originVerdict, hv, replyOf], by intro n h; cases h⟩)
    | perform => exact Or.inr (Or.inr ⟨rfl, by simp [originVerdict, hv, replyOf]⟩)
  | cl n =>
    refine Or.inr ⟨by simp, ?_⟩
    cases hv : eval f.inm f.im f.ims.toTime (verOf vers st.k).etag (verOf vers st.k).lm with
    | preconditionFailed => exact Or.inl ⟨rfl, by simp [originVerdict, hv, replyOf]⟩
    | notModified =>
      exact Or.inr (Or.inl ⟨rfl, some n, by simp [originVerdict, hv, replyOf], by intro m h; injection h with h; subst h; rfl⟩)
    | perform => exact Or.inr (Or.inr ⟨rfl, by simp [originVerdict, hv, replyOf]⟩)

theorem stateOk_none (vers : List Ver) : StateOk vers none := by intro e h; cases h
theorem stateOk_some {vers : List Ver} {e : Entry} (h : e.Faithful vers) : StateOk vers (some e) := by
  intro e' h'; injection h' with h'; subst h'; exact h

/-- a miss: the origin's verdict on the client's own conditional headers is relayed -/
theorem stepMiss_ok {vers : List Ver} (hv : VersOk vers) (i : Nat) {st : Step} (hok : StepOk st) :
    Justified vers st none (stepMiss vers i st).2.1 ∧ StateOk vers (stepMiss vers i st).1 := by
  have hev := origin_eval_miss (vers := vers) hok
  unfold stepMiss
  rcases originReply_cases vers st (missFwd st) with ⟨hm, hr⟩ | ⟨_, ⟨hV, hr⟩ | ⟨hV, cl, hr, _⟩ | ⟨hV, hr⟩⟩
  · simp only [hr]
    exact ⟨⟨rfl, hm⟩, stateOk_none vers⟩
  · simp only [hr]
    refine ⟨Or.inr ?_, stateOk_none vers⟩
    rw [ifMatchHolds_iff st _ (verOf vers st.k).lm, ← hev, hV]
    simp
  · simp only [hr]
    refine ⟨Or.inl ?_, stateOk_none vers⟩
    rw [← hev, hV]
  · simp only [hr]
    have hf := storeNew_faithful hv st.k i st.fresh
    refine ⟨⟨hf, ?_⟩, stateOk_some hf⟩
    rw [hf.etag]
    show ifMatchHolds st (verOf vers st.k).etag
    rw [ifMatchHolds_iff st _ (verOf vers st.k).lm, ← hev, hV]
    simp

/-- a fresh hit: `processConditional` is RFC 9110 13.2.2 against the cached response -/
theorem stepHit_ok {vers : List Ver} (hv : VersOk vers) {st : Step} (hok : StepOk st) {e : Entry}
    (hf : e.Faithful vers) (h : Bool) :
    Justified vers st (some e) (stepHit e st h).2.1 ∧ StateOk vers (stepHit e st h).1 := by
  have het : EtagOk e.view.etag := by
    show EtagOk e.etag
    rw [hf.etag]; exact (hv e.body).1
  have href := hitAnswer_eq_reference e.view (Req.ofStep st) rfl het hok.req (modTime_nonneg hf)
  have hcv : eval (Req.ofStep st).inm (Req.ofStep st).im (Req.ofStep st).ims e.view.etag (some e.view.modTime)
      = clientVerdict st e.etag (some e.view.modTime) := rfl
  rw [hcv] at href
  unfold stepHit
  rw [href]
  cases hV : clientVerdict st e.etag (some e.view.modTime) with
  | preconditionFailed => exact ⟨Or.inl ⟨e, rfl, hV⟩, stateOk_some hf⟩
  | notModified => exact ⟨⟨e, rfl, hV⟩, stateOk_some hf⟩
  | perform =>
    refine ⟨⟨hf, ?_⟩, stateOk_some hf⟩
    rw [ifMatchHolds_iff st _ (some e.view.modTime), hV]
    simp

theorem update304_faithful {vers : List Ver} (hv : VersOk vers) {e : Entry} (hf : e.Faithful vers) (k i : Nat) (fr : Bool)
    (cl : Option Nat) (htag : (verOf vers k).etag = (verOf vers e.body).etag) :
    (update304 vers e k i fr cl).Faithful vers ∧ (update304 vers e k i fr cl).etag = (verOf vers k).etag := by
  have hbody : (update304 vers e k i fr cl).body = e.body := rfl
  have hetag : (update304 vers e k i fr cl).etag = (verOf vers k).etag := by
    unfold update304
    simp only [skips_etag, Bool.false_eq_true, if_false]
    cases hk : (verOf vers k).etag with
    | none => simp only; rw [hf.etag, ← htag, hk]
    | some x =>
      simp only
      have := trimValue_etagOk (hv k).1
      rw [hk] at this
      simpa using this
  refine ⟨⟨?_, ?_, ?_⟩, hetag⟩
  · rw [hetag, hbody, htag]
  · have : (update304 vers e k i fr cl).cl = e.cl := by
      unfold update304
      cases cl with
      | none => rfl
      | some n => simp only [skips_cl, if_true]
    rw [this]; exact hf.cl
  · intro t ht
    unfold update304 at ht
    simp only [skips_lm, Bool.false_eq_true, if_false] at ht
    cases hk : (verOf vers k).lm with
    | none => rw [hk] at ht; exact hf.lm t ht
    | some t' =>
      rw [hk] at ht
      injection ht with ht
      subst ht
      exact (hv k).2 _ hk

/-- a stale entry: revalidation, under the three exclusions -/
theorem stepReval_ok {vers : List Ver} (hv : VersOk vers) (i : Nat) {st : Step} (hok : StepOk st) {e : Entry}
    (hf : e.Faithful vers) (hstale : e.fresh = false) (hc : StepClean vers st (some e)) :
    Justified vers st (some e) (stepReval vers i st e).2.1 ∧ StateOk vers (stepReval vers i st e).1 := by
  have him : (revalFwd e st).im = st.im := trimFields_of_ok hok.req.im
  have hpf : ∀ (m : Option Int),
      eval (revalFwd e st).inm (revalFwd e st).im (revalFwd e st).ims.toTime (verOf vers st.k).etag (verOf vers st.k).lm
        ≠ .preconditionFailed → ifMatchHolds st (verOf vers st.k).etag := by
    intro m hne
    rw [ifMatchHolds_iff st _ m]
    intro hcl
    apply hne
    unfold clientVerdict at hcl
    rw [him]
    exact (eval_pf_congr).mp hcl
  unfold stepReval
  rcases originReply_cases vers st (revalFwd e st) with ⟨hm, hr⟩ | ⟨_, ⟨hV, hr⟩ | ⟨hV, cl, hr, hcl⟩ | ⟨hV, hr⟩⟩
  · -- failed revalidation: the old entry is sent
    simp only [hr]
    refine ⟨⟨hf, ?_⟩, stateOk_some hf⟩
    intro f hfm
    rw [hc.noStaleIfError e rfl hstale hm] at hfm
    cases hfm
  · -- the origin's 412 is passed on
    simp only [hr]
    refine ⟨Or.inr ?_, stateOk_some hf⟩
    intro hholds
    rw [eval_pf_iff, him] at hV
    obtain ⟨f, hf1, hf2⟩ := hV
    rw [hholds f hf1] at hf2
    cases hf2
  · -- 304: the entry is updated
    have htag := hc.sameTag e st.k cl rfl hstale hr
    obtain ⟨hf', hetag'⟩ := update304_faithful hv hf st.k i st.fresh cl htag
    have hholds : ifMatchHolds st (verOf vers st.k).etag := hpf none (by rw [hV]; simp)
    simp only [hr]
    by_cases hfw : forwards304 (update304 vers e st.k i st.fresh cl) st = true
    · simp only [hfw, if_true]
      refine ⟨Or.inr ⟨_, hf', hetag', ?_⟩, stateOk_some hf'⟩
      rw [hetag']
      unfold clientVerdict
      cases hinm : st.inm with
      | some f =>
        have h1 : (revalFwd e st).inm = some f := by
          obtain ⟨ess, hfr⟩ := hok.req.inm f hinm
          simp [revalFwd, hinm, map_trimValue_renders hfr]
        rw [h1, him] at hV
        exact eval_inm_notModified hV
      | none =>
        -- decided by If-Modified-Since against the updated entry
        unfold forwards304 at hfw
        cases hims : (Req.ofStep st).ims with
        | none => rw [hims] at hfw; cases hfw
        | some t =>
          rw [hims] at hfw
          have hnm : modifiedSince (update304 vers e st.k i st.fresh cl).view t = false := by simpa using hfw
          have hm0 := modTime_nonneg hf'
          unfold modifiedSince at hnm
          simp only [Bool.or_eq_false_iff, decide_eq_false_iff_not, Int.not_lt] at hnm
          have hnotpf : eval none st.im (some t) (verOf vers st.k).etag
              (some (update304 vers e st.k i st.fresh cl).view.modTime) ≠ .preconditionFailed := by
            rw [Ne, eval_pf_iff]
            rintro ⟨f, hf1, hf2⟩
            rw [hholds f hf1] at hf2
            cases hf2
          exact eval_none_ims hnotpf hnm.2
    · have hfw' : forwards304 (update304 vers e st.k i st.fresh cl) st = false := by simpa using hfw
      simp only [hfw', Bool.false_eq_true, if_false]
      refine ⟨⟨hf', ?_⟩, stateOk_some hf'⟩
      rw [hetag']; exact hholds
  · -- 200: the new version replaces the entry
    simp only [hr]
    have hf' := storeNew_faithful hv st.k i st.fresh
    refine ⟨⟨hf', ?_⟩, stateOk_some hf'⟩
    rw [hf'.etag]
    exact hpf none (by rw [hV]; simp)

/-- one step, whatever the cache state -/
theorem step_ok {vers : List Ver} (hv : VersOk vers) (i : Nat) {st : Step} (hok : StepOk st) {s : Option Entry}
    (hs : StateOk vers s) (hc : StepClean vers st s) :
    Justified vers st s (step vers i st s).2.1 ∧ StateOk vers (step vers i st s).1 := by
  unfold step
  by_cases hm : st.method = .get
  · simp only [hm, ne_eq, not_true_eq_false, if_false]
    cases s with
    | none => exact stepMiss_ok hv i hok
    | some e =>
      have hf := hs e rfl
      by_cases hfr : e.fresh = true
      · simp only [hfr, if_true]; exact stepHit_ok hv hok hf false
      · have hfr' : e.fresh = false := by simpa using hfr
        simp only [hfr', Bool.false_eq_true, if_false]
        exact stepReval_ok hv i hok hf hfr' hc
  · simp only [ne_eq, hm, not_false_eq_true, if_true]
    cases s with
    | none => exact ⟨hm, hs⟩
    | some e =>
      have hf := hs e rfl
      by_cases hfr : e.fresh = true
      · simp only [hfr, if_true]; exact stepHit_ok hv hok hf true
      · have hfr' : e.fresh = false := by simpa using hfr
        simp only [hfr', Bool.false_eq_true, if_false]
        exact ⟨hm, hs⟩

/-- the exclusions hold at every step of a history -/
def CleanRun (vers : List Ver) : Nat → List Step → Option Entry → Prop
  | _, [], _ => True
  | i, st :: rest, s => StepClean vers st s ∧ CleanRun vers (i + 1) rest (step vers i st s).1

/-- every answer of a history is justified -/
def JustifiedRun (vers : List Ver) : Nat → List Step → Option Entry → Prop
  | _, [], _ => True
  | i, st :: rest, s => Justified vers st s (step vers i st s).2.1 ∧ JustifiedRun vers (i + 1) rest (step vers i st s).1

theorem run_ok {vers : List Ver} (hv : VersOk vers) (steps : List Step) :
    ∀ (i : Nat) (s : Option Entry), (∀ st ∈ steps, StepOk st) → StateOk vers s → CleanRun vers i steps s →
      JustifiedRun vers i steps s ∧ StateOk vers (finalState vers i steps s) := by
  induction steps with
  | nil => intro i s _ hs _; exact ⟨trivial, hs⟩
  | cons st rest ih =>
    intro i s hok hs hc
    obtain ⟨h1, h2⟩ := step_ok hv i (hok st (by simp)) hs hc.1
    obtain ⟨h3, h4⟩ := ih (i + 1) _ (fun x hx => hok x (by simp [hx])) h2 hc.2
    exact ⟨⟨h1, h3⟩, h4⟩

end SquidModel.Cache.Cond
