/-
C14 lemmas, part 6: over histories. As long as the cache entry is a coherent copy of one version (its ETag is that
version's ETag, its Content-Length is the body's), every answer is justified against the response that would otherwise be
sent; and the entry stays coherent unless one of three things happens (each a confirmed defect of the real code):
a 304 carrying Content-Length, a 304 carrying another version's ETag, a failed revalidation of a request with If-Match.
-/
import SquidModel.Cache.CondWfField
import SquidModel.Cache.CondHistory

namespace SquidModel.Cache.Cond
open Ref

/-- RFC 9110 13.2.2 applied to the client's request of this step against a response with these validators -/
def clientVerdict (st : Step) (etag : Option Bytes) (modTime : Option Int) : Verdict :=
  eval st.inm st.im (Req.ofStep st).ims etag modTime

/-- the request's If-Match (if any) names this entity-tag -/
def ifMatchHolds (st : Step) (etag : Option Bytes) : Prop :=
  ∀ f, st.im = some f → fieldMatches f etag false = true

/-- the versions the origin can serve: well-formed ETags (or none), dates after the epoch -/
def VersOk (vers : List Ver) : Prop :=
  ∀ k, EtagOk (verOf vers k).etag ∧ ∀ t, (verOf vers k).lm = some t → 0 ≤ t

/-- a well-formed request (RFC 9110 grammar, no backslash in entity-tags, dates after the epoch) -/
structure StepOk (st : Step) : Prop where
  req : ReqOk (Req.ofStep st)
  ims : ∀ t, st.ims = .time t → 0 < t
  notNow : st.ims ≠ .now

/-- the cached entry is a coherent copy of the version whose body it stores -/
structure Entry.Faithful (vers : List Ver) (e : Entry) : Prop where
  etag : e.etag = (verOf vers e.body).etag
  cl : e.cl = none
  lm : ∀ t, e.lm = some t → 0 ≤ t

def StateOk (vers : List Ver) (s : Option Entry) : Prop := ∀ e, s = some e → e.Faithful vers

/-- the three excluded regions, relative to the current cache state -/
structure StepClean (vers : List Ver) (st : Step) (s : Option Entry) : Prop where
  /-- the origin's 304 carries no Content-Length -/
  noCl : ∀ n, st.omode ≠ .cl n
  /-- a 304 that revalidates the stale entry carries the stored entity-tag -/
  sameTag : ∀ e k cl, s = some e → e.fresh = false → originReply vers st (revalFwd e st) = .notMod k cl →
    (verOf vers k).etag = (verOf vers e.body).etag
  /-- a request with If-Match is not answered from a stale entry after a failed revalidation -/
  noStaleIfError : ∀ e, s = some e → e.fresh = false → st.omode = .err → st.im = none

/-- what the property allows as the answer of this step -/
def Justified (vers : List Ver) (st : Step) (s : Option Entry) : Out → Prop
  | .full e _ => e.Faithful vers ∧ ifMatchHolds st e.etag
  | .made304 _ _ => ∃ e : Entry, s = some e ∧ clientVerdict st e.etag (some e.view.modTime) = .notModified
  | .relayed304 _ _ _ =>
    clientVerdict st (verOf vers st.k).etag (verOf vers st.k).lm = .notModified ∨
    ∃ e : Entry, e.Faithful vers ∧ e.etag = (verOf vers st.k).etag ∧ clientVerdict st e.etag (some e.view.modTime) = .notModified
  | .err412 =>
    (∃ e : Entry, s = some e ∧ clientVerdict st e.etag (some e.view.modTime) = .preconditionFailed) ∨
    ¬ ifMatchHolds st (verOf vers st.k).etag
  | .err500 => s = none ∧ st.omode = .err
  | .err504 => st.method ≠ .get

/-! ### small facts -/

theorem skips_etag : skipsUpdate "ETAG" = false := by decide
theorem skips_lm : skipsUpdate "LAST_MODIFIED" = false := by decide
theorem skips_cc : skipsUpdate "CACHE_CONTROL" = false := by decide
theorem skips_cl : skipsUpdate "CONTENT_LENGTH" = false := by decide

theorem trimValue_etagOk {v : Option Bytes} (h : EtagOk v) : v.map trimValue = v := by
  cases h with
  | none => rfl
  | tag w o ho =>
    have := trimValue_renders (Renders.one (.tag w o) ho)
    simpa [El.render] using this

theorem trimFields_of_ok {f : Option (List Bytes)} (h : ∀ fs, f = some fs → ∃ ess, FieldsRender fs ess) :
    trimFields f = f := by
  cases f with
  | none => rfl
  | some fs =>
    obtain ⟨ess, hf⟩ := h fs rfl
    simp [trimFields, map_trimValue_renders hf]

theorem eval_pf_iff (inm im : Option (List Bytes)) (ims : Option Int) (etag : Option Bytes) (m : Option Int) :
    eval inm im ims etag m = .preconditionFailed ↔ ∃ f, im = some f ∧ fieldMatches f etag false = false := by
  unfold eval
  cases im with
  | none =>
    simp only [Bool.false_eq_true, if_false]
    constructor
    · intro h
      unfold evalRest at h
      split at h
      · split at h <;> cases h
      · split at h
        · split at h <;> cases h
        · cases h
    · rintro ⟨f, hf, _⟩; cases hf
  | some f =>
    by_cases h : fieldMatches f etag false = true
    · simp only [h, Bool.not_true, Bool.false_eq_true, if_false]
      constructor
      · intro h'
        unfold evalRest at h'
        split at h'
        · split at h' <;> cases h'
        · split at h'
          · split at h' <;> cases h'
          · cases h'
      · rintro ⟨f', hf', hfm⟩
        injection hf' with hf'; subst hf'; rw [h] at hfm; cases hfm
    · have h' : fieldMatches f etag false = false := by simpa using h
      simp only [h', Bool.not_false, if_true, true_iff]
      exact ⟨f, rfl, h'⟩

theorem ifMatchHolds_iff (st : Step) (etag : Option Bytes) (m : Option Int) :
    ifMatchHolds st etag ↔ clientVerdict st etag m ≠ .preconditionFailed := by
  unfold clientVerdict
  rw [Ne, eval_pf_iff]
  unfold ifMatchHolds
  constructor
  · rintro h ⟨f, hf, hfm⟩; rw [h f hf] at hfm; cases hfm
  · intro h f hf
    by_cases hfm : fieldMatches f etag false = true
    · exact hfm
    · exact absurd ⟨f, hf, by simpa using hfm⟩ h

/-- the verdict about If-Match only depends on If-Match and the entity-tag -/
theorem eval_pf_congr {inm inm' im : Option (List Bytes)} {ims ims' : Option Int} {etag : Option Bytes} {m m' : Option Int} :
    eval inm im ims etag m = .preconditionFailed ↔ eval inm' im ims' etag m' = .preconditionFailed := by
  rw [eval_pf_iff, eval_pf_iff]

theorem eval_inm_notModified {f : List Bytes} {im : Option (List Bytes)} {ims ims' : Option Int} {etag : Option Bytes}
    {m m' : Option Int} (h : eval (some f) im ims etag m = .notModified) : eval (some f) im ims' etag m' = .notModified := by
  cases im with
  | none =>
    simp only [eval, Bool.false_eq_true, if_false] at h ⊢
    unfold evalRest at h ⊢; exact h
  | some g =>
    by_cases hg : fieldMatches g etag false = true
    · simp only [eval, hg, Bool.not_true, Bool.false_eq_true, if_false] at h ⊢
      unfold evalRest at h ⊢; exact h
    · have hg' : fieldMatches g etag false = false := by simpa using hg
      simp [eval, hg'] at h

theorem storeNew_faithful {vers : List Ver} (hv : VersOk vers) (k i : Nat) (fr : Bool) :
    (storeNew vers k i fr).Faithful vers := by
  refine ⟨?_, rfl, ?_⟩
  · simp [storeNew, trimValue_etagOk (hv k).1]
  · intro t ht; exact (hv k).2 t ht

theorem modTime_nonneg {vers : List Ver} {e : Entry} (h : e.Faithful vers) : 0 ≤ e.view.modTime := by
  unfold EntryView.modTime Entry.view
  cases hl : e.lm with
  | none => simp [nowT]
  | some t => simpa using h.lm t hl

/-- what the origin computes on a miss is the client's own verdict against the origin's current version -/
theorem origin_eval_miss {vers : List Ver} {st : Step} (hok : StepOk st) :
    eval (missFwd st).inm (missFwd st).im (missFwd st).ims.toTime (verOf vers st.k).etag (verOf vers st.k).lm
      = clientVerdict st (verOf vers st.k).etag (verOf vers st.k).lm := by
  have h1 : trimFields st.inm = st.inm := trimFields_of_ok hok.req.inm
  have h2 : trimFields st.im = st.im := trimFields_of_ok hok.req.im
  have h3 : st.ims.toTime = (Req.ofStep st).ims := by
    cases h : st.ims with
    | time t => have := hok.ims t h; simp [Req.ofStep, h, ImsTok.toTime, this]
    | none => simp [Req.ofStep, h, ImsTok.toTime]
    | junk => simp [Req.ofStep, h, ImsTok.toTime]
    | now => exact absurd h hok.notNow
  simp only [missFwd, h1, h2, h3, clientVerdict]

end SquidModel.Cache.Cond
