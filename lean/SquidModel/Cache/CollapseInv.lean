/-
The byte-level invariant of the collapsed-forwarding model: every entry holds a prefix of what the origin sent for its own fetch,
every client was sent the header of its entry and a prefix of that entry's body, and "complete" is only ever signalled for the
whole response (or a locally generated error page).
-/
import SquidModel.Cache.CollapseFrame

namespace SquidModel.Cache.Collapse

/-- the entry holds the complete body of the origin's response to its fetch -/
def Whole (O : Nat → Resp) (e : Nat) (ent : Entry) : Prop :=
  match (O e).hdr.clen with
  | some n => ent.body.length = n
  | none => ent.body = (O e).sent ∧ (O e).properEnd = true

structure EntryOk (O : Nat → Resp) (e : Nat) (ent : Entry) : Prop where
  err : ent.isErr = true → ent.hdr = some errHdr ∧ ent.body = [] ∧ ent.pending = false
  hdrO : ent.isErr = false → ∀ h, ent.hdr = some h → h = (O e).hdr
  pre : ent.body = (O e).sent.take ent.body.length
  nohdr : ent.hdr = none → ent.body = []
  cap : ent.isErr = false → ∀ n, (O e).hdr.clen = some n → ent.body.length ≤ n
  whole : ent.isErr = false → ent.pending = false → ent.aborted = false → ent.badLen = false → ent.hdr ≠ none → Whole O e ent

structure ClientOk (O : Nat → Resp) (s : State) (cl : Client) : Prop where
  g0 : cl.gotHdr = none → cl.out = []
  g1 : ∀ h, cl.gotHdr = some h → ∃ ent, s.entries cl.entry = some ent ∧ ent.hdr = some h ∧ cl.out = ent.body.take cl.out.length
  g2 : cl.phase = .body → cl.gotHdr ≠ none
  g3 : cl.phase = .waitHdr → cl.gotHdr = none
  g4 : cl.verdict = some .complete → cl.phase = .done
  cp : cl.verdict = some .complete →
    ∃ ent, s.entries cl.entry = some ent ∧ (ent.isErr = true ∨ (cl.out = (O cl.entry).wholeBody ∧ (O cl.entry).proper = true))

structure Inv (O : Nat → Resp) (s : State) : Prop where
  fresh : ∀ e, s.nextE ≤ e → s.entries e = none
  ent : ∀ e ent, s.entries e = some ent → EntryOk O e ent
  cli : ∀ c cl, s.clients c = some cl → ClientOk O s cl

theorem entryOk_fields {O : Nat → Resp} {e : Nat} {a b : Entry} (h1 : b.hdr = a.hdr) (h2 : b.body = a.body)
    (h3 : b.pending = a.pending) (h4 : b.aborted = a.aborted) (h5 : b.badLen = a.badLen) (h6 : b.isErr = a.isErr)
    (h : EntryOk O e a) : EntryOk O e b := by
  constructor
  · rw [h1, h2, h3, h6]; exact h.err
  · rw [h1, h6]; exact h.hdrO
  · rw [h2]; exact h.pre
  · rw [h1, h2]; exact h.nohdr
  · rw [h2, h6]; exact h.cap
  · rw [h1, h3, h4, h5, h6]; unfold Whole; rw [h2]; exact h.whole

theorem entryOk_core {O : Nat → Resp} {e : Nat} {a b : Entry} (hc : b.core = a.core) (h : EntryOk O e a) : EntryOk O e b :=
  entryOk_fields (congrArg Core.hdr hc) (congrArg Core.body hc) (congrArg Core.pending hc) (congrArg Core.aborted hc)
    (congrArg Core.badLen hc) (congrArg Core.isErr hc) h

theorem inv_frame {O : Nat → Resp} {s s' : State} (hf : Frame s s') (h : Inv O s) : Inv O s' := by
  constructor
  · intro e he
    rw [hf.nextE] at he
    exact hf.entry_none (h.fresh e he)
  · intro e ent' he
    obtain ⟨ent, hs, hc⟩ := hf.entry_some he
    exact entryOk_core hc (h.ent e ent hs)
  · intro c cl hc
    rw [hf.clients] at hc
    have ok := h.cli c cl hc
    constructor
    · exact ok.g0
    · intro hh hg
      obtain ⟨ent, hs, hh1, hp⟩ := ok.g1 hh hg
      obtain ⟨ent', hs', hc'⟩ := hf.entry_some' hs
      refine ⟨ent', hs', ?_, ?_⟩
      · rw [show ent'.hdr = ent.hdr from congrArg Core.hdr hc']; exact hh1
      · rw [show ent'.body = ent.body from congrArg Core.body hc']; exact hp
    · exact ok.g2
    · exact ok.g3
    · exact ok.g4
    · intro hv
      obtain ⟨ent, hs, hp⟩ := ok.cp hv
      obtain ⟨ent', hs', hc'⟩ := hf.entry_some' hs
      refine ⟨ent', hs', ?_⟩
      rw [show ent'.isErr = ent.isErr from congrArg Core.isErr hc']; exact hp

/-- replacing one entry by a record that keeps its header (if any), extends its body and stays an error page if it was one -/
theorem inv_setE {O : Nat → Resp} {s : State} (h : Inv O s) (e : Nat) (ent ent' : Entry) (he : s.entries e = some ent)
    (hok : EntryOk O e ent') (hh : ∀ x, ent.hdr = some x → ent'.hdr = some x) (hb : ∃ t, ent'.body = ent.body ++ t)
    (hi : ent.isErr = true → ent'.isErr = true) : Inv O (setE s e ent') := by
  constructor
  · intro x hx
    simp only [setE_nextE] at hx
    have := h.fresh x hx
    by_cases hxe : x = e
    · subst hxe; rw [he] at this; cases this
    · simp [hxe, this]
  · intro x a ha
    by_cases hxe : x = e
    · subst hxe
      simp at ha
      subst ha
      exact hok
    · simp [hxe] at ha
      exact h.ent x a ha
  · intro c cl hc
    simp only [setE_clients] at hc
    have ok := h.cli c cl hc
    constructor
    · exact ok.g0
    · intro x hg
      obtain ⟨a, hs, hh1, hp⟩ := ok.g1 x hg
      by_cases hxe : cl.entry = e
      · rw [hxe] at hs
        rw [he] at hs
        cases hs
        refine ⟨ent', by simp [hxe], hh x hh1, ?_⟩
        obtain ⟨t, ht⟩ := hb
        rw [ht]
        have hl : cl.out.length ≤ ent.body.length := by
          have := congrArg List.length hp
          simp at this
          omega
        rw [List.take_append_of_le_length hl]
        exact hp
      · exact ⟨a, by simp [hxe, hs], hh1, hp⟩
    · exact ok.g2
    · exact ok.g3
    · exact ok.g4
    · intro hv
      obtain ⟨a, hs, hp⟩ := ok.cp hv
      by_cases hxe : cl.entry = e
      · rw [hxe] at hs
        rw [he] at hs
        cases hs
        refine ⟨ent', by simp [hxe], ?_⟩
        rcases hp with hp | hp
        · exact Or.inl (hi hp)
        · exact Or.inr hp
      · exact ⟨a, by simp [hxe, hs], hp⟩

theorem clientOk_setC {O : Nat → Resp} {s : State} {c : Nat} {x cl : Client} (h : ClientOk O s cl) : ClientOk O (setC s c x) cl :=
  ⟨h.g0, h.g1, h.g2, h.g3, h.g4, h.cp⟩

theorem inv_setC {O : Nat → Resp} {s : State} (h : Inv O s) (c : Nat) (cl : Client) (hok : ClientOk O s cl) : Inv O (setC s c cl) := by
  constructor
  · exact h.fresh
  · exact h.ent
  · intro x a ha
    by_cases hxc : x = c
    · subst hxc
      simp at ha
      subst ha
      exact clientOk_setC hok
    · simp [hxc] at ha
      exact clientOk_setC (h.cli x a ha)

theorem inv_nextC {O : Nat → Resp} {s : State} (h : Inv O s) (n : Nat) : Inv O { s with nextC := n } :=
  ⟨h.fresh, h.ent, fun c cl hc => let ok := h.cli c cl hc; ⟨ok.g0, ok.g1, ok.g2, ok.g3, ok.g4, ok.cp⟩⟩

theorem entryOk_fresh (O : Nat → Resp) (e : Nat) : EntryOk O e {} := by
  constructor <;> simp

/-- `createStoreEntry`: a new, empty entry record -/
theorem inv_newEntry {O : Nat → Resp} {s : State} (h : Inv O s) : Inv O { setE s s.nextE {} with nextE := s.nextE + 1 } := by
  constructor
  · intro x hx
    have hx' : s.nextE + 1 ≤ x := hx
    have : x ≠ s.nextE := by omega
    simp [this]
    exact h.fresh x (by omega)
  · intro x a ha
    by_cases hxe : x = s.nextE
    · subst hxe
      simp at ha
      subst ha
      exact entryOk_fresh O _
    · simp [hxe] at ha
      exact h.ent x a ha
  · intro c cl hc
    have hc' : s.clients c = some cl := hc
    have ok := h.cli c cl hc'
    constructor
    · exact ok.g0
    · intro x hg
      obtain ⟨a, hs, hh1, hp⟩ := ok.g1 x hg
      have hne : cl.entry ≠ s.nextE := by
        intro heq
        have := h.fresh cl.entry (by omega)
        rw [this] at hs
        cases hs
      exact ⟨a, by simp [hne, hs], hh1, hp⟩
    · exact ok.g2
    · exact ok.g3
    · exact ok.g4
    · intro hv
      obtain ⟨a, hs, hp⟩ := ok.cp hv
      have hne : cl.entry ≠ s.nextE := by
        intro heq
        have := h.fresh cl.entry (by omega)
        rw [this] at hs
        cases hs
      exact ⟨a, by simp [hne, hs], hp⟩

end SquidModel.Cache.Collapse
