/-
Lemmas about the Cache-Control parser model (Cache/ReusableCc.lean): which items set which bits, for every list of items.
-/
import SquidModel.Cache.ReusableCc

namespace SquidModel.Cache
open SquidModel

/-- the directive type `HttpHdrCc::parse` assigns to an item: lookup of the text before the first '=' -/
def itemType (item : Bytes) : CcType := ccTypeByName (splitEq item).1

theorem step_noStore_iff (cc : Cc) (item : Bytes) :
    (cc.step item).noStore = true ↔ cc.noStore = true ∨ itemType item = .noStore := by
  unfold Cc.step itemType
  cases hty : ccTypeByName (splitEq item).1 <;> simp only [hty] <;> (split <;> try simp_all [Cc.isSet]) <;>
    (repeat' split) <;> simp_all

theorem step_priv_iff (cc : Cc) (item : Bytes) :
    (cc.step item).priv = true ↔ cc.priv = true ∨ itemType item = .priv := by
  unfold Cc.step itemType
  cases hty : ccTypeByName (splitEq item).1 <;> simp only [hty] <;> (split <;> try simp_all [Cc.isSet]) <;>
    (repeat' split) <;> simp_all

theorem foldl_noStore_iff (its : List Bytes) (cc : Cc) :
    (its.foldl Cc.step cc).noStore = true ↔ cc.noStore = true ∨ ∃ it ∈ its, itemType it = .noStore := by
  induction its generalizing cc with
  | nil => simp
  | cons a t ih =>
    simp only [List.foldl_cons, ih, step_noStore_iff, List.mem_cons, exists_eq_or_imp]
    constructor
    · rintro ((h | h) | h) <;> simp_all
    · rintro (h | h | h) <;> simp_all

theorem foldl_priv_iff (its : List Bytes) (cc : Cc) :
    (its.foldl Cc.step cc).priv = true ↔ cc.priv = true ∨ ∃ it ∈ its, itemType it = .priv := by
  induction its generalizing cc with
  | nil => simp
  | cons a t ih =>
    simp only [List.foldl_cons, ih, step_priv_iff, List.mem_cons, exists_eq_or_imp]
    constructor
    · rintro ((h | h) | h) <;> simp_all
    · rintro (h | h | h) <;> simp_all

theorem any_of_noStore (cc : Cc) (h : cc.noStore = true) : cc.any = true := by simp [Cc.any, h]
theorem any_of_priv (cc : Cc) (h : cc.priv = true) : cc.any = true := by simp [Cc.any, h]

/-- `HttpHdrCc::parse` on a string: no-store is set exactly when some item is a no-store directive -/
theorem parseCc_noStore_iff (s : Bytes) :
    (∃ cc, parseCc s = some cc ∧ cc.noStore = true) ↔ ∃ it ∈ items s, itemType it = .noStore := by
  unfold parseCc parseItems
  constructor
  · rintro ⟨cc, h, hn⟩
    dsimp only at h
    split at h
    · cases h; simpa using (foldl_noStore_iff (items s) {}).1 hn
    · cases h
  · intro h
    have hn : ((items s).foldl Cc.step {}).noStore = true := (foldl_noStore_iff _ _).2 (Or.inr h)
    exact ⟨_, by simp [any_of_noStore _ hn], hn⟩

theorem parseCc_priv_iff (s : Bytes) :
    (∃ cc, parseCc s = some cc ∧ cc.priv = true) ↔ ∃ it ∈ items s, itemType it = .priv := by
  unfold parseCc parseItems
  constructor
  · rintro ⟨cc, h, hn⟩
    dsimp only at h
    split at h
    · cases h; simpa using (foldl_priv_iff (items s) {}).1 hn
    · cases h
  · intro h
    have hn : ((items s).foldl Cc.step {}).priv = true := (foldl_priv_iff _ _).2 (Or.inr h)
    exact ⟨_, by simp [any_of_priv _ hn], hn⟩

end SquidModel.Cache
