/-
Lemmas about the store decision model (Cache/Reusable.lean): key invariants and the shape of `reusableReply`'s answer.
-/
import SquidModel.Cache.ReusableScenario

namespace SquidModel.Cache
open SquidModel

/-- RELEASE_REQUEST is only ever set together with a private key -/
def Entry.wf (e : Entry) : Prop := e.releaseRequest = true → e.keyPrivate = true

theorem createEntry_wf (r : Request) : (createEntry r).wf := by
  unfold createEntry Entry.wf
  split <;> simp

theorem setPrivateKey_keyPrivate (e : Entry) (s p : Bool) : (e.setPrivateKey s p).keyPrivate = true := by
  rcases e with ⟨a, b, c, d⟩
  cases a <;> cases b <;> cases c <;> cases d <;> cases s <;> cases p <;> rfl

theorem makePrivate_keyPrivate (e : Entry) (s : Bool) (h : e.wf) : (e.makePrivate s).keyPrivate = true := by
  unfold Entry.makePrivate Entry.doReleaseRequest
  cases s <;> simp only [Bool.false_eq_true, if_false, if_true]
  · split
    · rename_i hr; exact h hr
    · exact setPrivateKey_keyPrivate _ _ _
  · split
    · rename_i hr; exact h hr
    · exact setPrivateKey_keyPrivate _ _ _

theorem makePublic_fail_same (e : Entry) (k : Bool) (h : (e.makePublic k).2 = false) : (e.makePublic k).1 = e := by
  rcases e with ⟨a, b, c, d⟩
  cases a <;> cases b <;> cases c <;> cases d <;> cases k <;> first | rfl | (exfalso; revert h; decide)

/-- a decision other than "cache" leaves the entry under a private key -/
theorem applyDecision_private (e : Entry) (a : Answer) (k : Bool) (h : e.wf)
    (ha : a = .reuseNot ∨ a = .doNotCacheButShare) : (applyDecision e a k).isPublic = false := by
  unfold Entry.isPublic
  rcases ha with ha | ha <;> subst ha <;> simp [applyDecision, makePrivate_keyPrivate e _ h]

/-- a released entry is never made public, whatever the decision -/
theorem applyDecision_released (e : Entry) (a : Answer) (k : Bool) (h : e.wf) (hr : e.releaseRequest = true) :
    (applyDecision e a k).isPublic = false := by
  have hk := h hr
  unfold Entry.isPublic
  cases a <;> simp [applyDecision, Entry.makePrivate, Entry.doReleaseRequest, Entry.makePublic, Entry.cacheNegatively, hr, hk]
  all_goals (try (cases e; simp_all))

/-- the entry of a request that is not cachable is released from the start -/
theorem createEntry_released (r : Request) (h : flagsCachable r = false) : (createEntry r).releaseRequest = true := by
  unfold createEntry
  simp [h]

/-- the Cache-Control block only ever refuses -/
theorem ccDecision_some (cfg : Config) (job : Job) (req : Request) (rep : Reply) (d : Decision)
    (h : ccDecision cfg job req rep = some d) : d.answer = .reuseNot := by
  unfold ccDecision at h
  repeat' split at h
  all_goals (cases h; try rfl)

/-- the "authenticated" block only ever refuses -/
theorem authDecision_some (job : Job) (req : Request) (rep : Reply) (d : Decision)
    (h : authDecision job req rep = some d) : d.answer = .reuseNot := by
  unfold authDecision at h
  repeat' split at h
  all_goals (cases h; try rfl)

/-- either the released-entry answer, or what the reply itself allows (both source variants) -/
theorem reusableReply_cases (cfg : Config) (job : Job) (e : Entry) (req : Request) (rep : Reply) :
    (reusableReply cfg job e req rep).answer = .doNotCacheButShare ∨
    reusableReply cfg job e req rep = replyDecision cfg job req rep := by
  unfold reusableReply
  split <;> split <;> first | (left; rfl) | (right; rfl)

theorem replyDecision_of_ccDecision (cfg : Config) (job : Job) (req : Request) (rep : Reply)
    (h : (ccDecision cfg job req rep).isSome = true) : (replyDecision cfg job req rep).answer = .reuseNot := by
  unfold replyDecision
  split
  · rfl
  · split
    · rfl
    · split
      · rename_i d hd; exact ccDecision_some _ _ _ _ _ hd
      · rename_i hn; rw [hn] at h; cases h

theorem replyDecision_of_authDecision (cfg : Config) (job : Job) (req : Request) (rep : Reply)
    (h : (authDecision job req rep).isSome = true) : (replyDecision cfg job req rep).answer = .reuseNot := by
  unfold replyDecision
  split
  · rfl
  · split
    · rfl
    · split
      · rename_i d hd; exact ccDecision_some _ _ _ _ _ hd
      · split
        · rename_i d hd; exact authDecision_some _ _ _ _ hd
        · rename_i hn; rw [hn] at h; cases h

/-- when a block refuses, that is the answer (unless the pinned variant already answered "released: do not cache") -/
theorem reusableReply_of_ccDecision (cfg : Config) (job : Job) (e : Entry) (req : Request) (rep : Reply)
    (h : (ccDecision cfg job req rep).isSome = true) :
    (reusableReply cfg job e req rep).answer = .reuseNot ∨ (reusableReply cfg job e req rep).answer = .doNotCacheButShare := by
  rcases reusableReply_cases cfg job e req rep with hc | hc
  · right; exact hc
  · left; rw [hc]; exact replyDecision_of_ccDecision cfg job req rep h

theorem reusableReply_of_authDecision (cfg : Config) (job : Job) (e : Entry) (req : Request) (rep : Reply)
    (h : (authDecision job req rep).isSome = true) :
    (reusableReply cfg job e req rep).answer = .reuseNot ∨ (reusableReply cfg job e req rep).answer = .doNotCacheButShare := by
  rcases reusableReply_cases cfg job e req rep with hc | hc
  · right; exact hc
  · left; rw [hc]; exact replyDecision_of_authDecision cfg job req rep h

/-- ENTRY_NEGCACHED appears only through the "cache negatively" answer -/
theorem applyDecision_negCached (e : Entry) (a : Answer) (k : Bool) (h : (applyDecision e a k).negCached = true) :
    a = .cacheNegatively ∨ e.negCached = true := by
  rcases e with ⟨b1, b2, b3, b4⟩
  cases a <;> cases b1 <;> cases b2 <;> cases b3 <;> cases b4 <;> cases k <;> first | (left; rfl) | (right; rfl) | (exfalso; revert h; decide)

theorem statusDecision_cacheNegatively (cfg : Config) (rep : Reply) (h : (statusDecision cfg rep).answer = .cacheNegatively) :
    cfg.negativeTtl > 0 := by
  unfold statusDecision at h
  repeat' split at h
  all_goals first | (cases h; done) | simp_all

/-- "cache negatively" needs negative_ttl > 0 -/
theorem reusableReply_cacheNegatively (cfg : Config) (job : Job) (e : Entry) (req : Request) (rep : Reply)
    (h : (reusableReply cfg job e req rep).answer = .cacheNegatively) : cfg.negativeTtl > 0 := by
  rcases reusableReply_cases cfg job e req rep with hc | hc
  · rw [hc] at h; cases h
  · rw [hc] at h
    unfold replyDecision at h
    split at h
    · cases h
    · split at h
      · cases h
      · split at h
        · rename_i d hd; rw [ccDecision_some _ _ _ _ _ hd] at h; cases h
        · split at h
          · rename_i d hd; rw [authDecision_some _ _ _ _ hd] at h; cases h
          · repeat' split at h
            all_goals first | (cases h; done) | exact statusDecision_cacheNegatively cfg rep h

end SquidModel.Cache
