/-
C14 lemmas, part 2: `HttpHeader::update` replaces exactly the fields the 304 names and nothing else.
-/
import SquidModel.Cache.CondUpdate

namespace SquidModel.Cache.Cond

theorem valuesOf_append (a b : List Field) (id : String) : valuesOf (a ++ b) id = valuesOf a id ++ valuesOf b id := by
  simp [valuesOf, List.filter_append]

theorem valuesOf_filter_of_hasId {old upd : List Field} {id : String} (h : hasId upd id = true) :
    valuesOf (old.filter (fun f => !hasId upd f.id)) id = [] := by
  simp only [valuesOf, List.map_eq_nil_iff, List.filter_filter, List.filter_eq_nil_iff]
  intro f _
  by_cases hf : f.id = id
  · subst hf; simp [h]
  · simp [hf]

theorem valuesOf_filter_of_not_hasId {old upd : List Field} {id : String} (h : hasId upd id = false) :
    valuesOf (old.filter (fun f => !hasId upd f.id)) id = valuesOf old id := by
  simp only [valuesOf, List.filter_filter]
  congr 1
  apply List.filter_congr
  intro f _
  by_cases hf : f.id = id
  · subst hf; simp [h]
  · simp [hf]

theorem valuesOf_eq_nil_of_not_hasId {l : List Field} {id : String} (h : hasId l id = false) : valuesOf l id = [] := by
  simp only [valuesOf, List.map_eq_nil_iff, List.filter_eq_nil_iff]
  intro f hf
  simp only [hasId, List.any_eq_false] at h
  exact h f hf

theorem valuesOf_updating {fresh : List Field} {id : String} (h : skipUpdate id = false) :
    valuesOf (updating fresh) id = valuesOf fresh id := by
  simp only [valuesOf, updating, List.filter_filter]
  congr 1
  apply List.filter_congr
  intro f _
  by_cases hf : f.id = id
  · subst hf; simp [h]
  · simp [hf]

theorem hasId_updating {fresh : List Field} {id : String} (h : skipUpdate id = false) :
    hasId (updating fresh) id = hasId fresh id := by
  simp only [hasId, updating, List.any_filter]
  congr 1
  funext f
  by_cases hf : f.id = id
  · subst hf; simp [h]
  · simp [hf]

theorem hasId_updating_of_skip {fresh : List Field} {id : String} (h : skipUpdate id = true) :
    hasId (updating fresh) id = false := by
  simp only [hasId, updating, List.any_filter, List.any_eq_false]
  intro f _
  by_cases hf : f.id = id
  · subst hf; simp [h]
  · simp [hf]

end SquidModel.Cache.Cond
