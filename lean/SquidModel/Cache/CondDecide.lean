/-
C14 model, part 2: the decision taken for a conditional request that hit a usable cached entry.

* `clientInterpretRequestHeaders` (src/client_side_request.cc): `request->ims = getTime(IF_MODIFIED_SINCE)`,
  `flags.ims` iff that is > 0 (an unparsable date gives -1)
* `HttpRequest::conditional` (src/HttpRequest.cc)
* `clientReplyContext::processConditional`, `sendNotModifiedOrPreconditionFailedError` (src/client_side_reply.cc)
* `StoreEntry::modifiedSince`, `lastModified()`, `hasIfMatchEtag`, `hasIfNoneMatchEtag` (src/store.cc, src/Store.h)
-/
import SquidModel.Cache.CondETag

namespace SquidModel.Cache.Cond

inductive Method | get | head | other
  deriving DecidableEq, Repr

def Method.name : Method → String
  | .get => "GET" | .head => "HEAD" | .other => "OTHER"

/-- `sendNotModifiedOrPreconditionFailedError`: GET and HEAD get 304, other methods 412 -/
def Method.gets304 (m : Method) : Bool := Gen.CondConsts.notModifiedMethods.contains m.name

/-- the parts of the client request the conditional logic looks at; field values as received (untrimmed) -/
structure Req where
  method : Method
  inm : Option (List Bytes)      -- If-None-Match fields, `none` = header absent
  im : Option (List Bytes)       -- If-Match fields
  ims : Option Int               -- parsed If-Modified-Since when it is a date after the epoch (`flags.ims`)
  ranged : Bool := false         -- `flags.isRanged`
  deriving Repr

/-- what the conditional logic looks at in the cached entry -/
structure EntryView where
  status : Nat                   -- `baseReply().sline.status()`
  etag : Option Bytes            -- value of the first ETag field of `freshestReply()`
  lastModified : Option Int      -- `lastModified_` (Last-Modified of the reply), `none` = -1
  timestamp : Int                -- `timestamp` (the Date the reply was served at)
  deriving Repr

inductive Answer
  | miss                         -- `processMiss()`: the cached reply is not a 200
  | preconditionFailed           -- 412
  | notModified                  -- 304 built from the cached reply (`make304`)
  | hit                          -- `return false`: treat as an unconditional hit
  deriving DecidableEq, Repr

/-- `HttpHeader::getList(id)` over trimmed field values -/
def listOf (fields : List Bytes) : Bytes := joinList (fields.map trimValue)

/-- `StoreEntry::lastModified()`: Last-Modified, else the timestamp -/
def EntryView.modTime (e : EntryView) : Int := e.lastModified.getD e.timestamp

/-- `StoreEntry::modifiedSince(ims)`: true iff `mod_time < 0` or `mod_time > ims` -/
def modifiedSince (e : EntryView) (ims : Int) : Bool :=
  e.modTime < 0 || e.modTime > ims

/-- `StoreEntry::hasIfMatchEtag` -/
def hasIfMatchEtag (e : EntryView) (fields : List Bytes) : Bool :=
  hasOneOfEtags e.etag (listOf fields) false

/-- `StoreEntry::hasIfNoneMatchEtag`: weak comparison only for HEAD or full-body GET -/
def hasIfNoneMatchEtag (e : EntryView) (r : Req) (fields : List Bytes) : Bool :=
  hasOneOfEtags e.etag (listOf fields) (!r.ranged && (r.method == .get || r.method == .head))

/-- `HttpRequest::conditional()` -/
def Req.conditional (r : Req) : Bool := r.ims.isSome || r.im.isSome || r.inm.isSome

/-- `clientReplyContext::processConditional()` (the caller checked `r.conditional()`) -/
def processConditional (e : EntryView) (r : Req) : Answer :=
  if e.status ≠ 200 then .miss
  else
    match r.im with
    | some f => if !hasIfMatchEtag e f then .preconditionFailed else afterIfMatch
    | none => afterIfMatch
where
  afterIfMatch : Answer :=
    match r.inm with
    | some f =>
      -- "If-None-Match recipient MUST ignore IMS"
      if hasIfNoneMatchEtag e r f then
        (if r.method.gets304 then .notModified else .preconditionFailed)
      else .hit
    | none =>
      match r.ims with
      | some t => if modifiedSince e t then .hit else .notModified
      | none => .hit

/-- the `else if (r->conditional())` arm of `cacheHit` followed by "plain ol' cache hit" -/
def hitAnswer (e : EntryView) (r : Req) : Answer :=
  if r.conditional then processConditional e r else .hit

end SquidModel.Cache.Cond
