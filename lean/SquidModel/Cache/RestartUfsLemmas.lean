/-
Lemmas about the ufs-family restart model: the invariant that every history maintains and its consequences.
-/
import SquidModel.Cache.RestartUfs

namespace SquidModel.Cache.Restart
open SquidModel.Gen.RestartConsts

/-- the time stamps `StoreSwapLogData::sane` accepts -/
def Times.Sane (t : Times) : Prop :=
  minTime ≤ t.timestamp ∧ minTime ≤ t.lastref ∧ minTime ≤ t.expires ∧ minTime ≤ t.lastmod

/-- what the run time guarantees about the operations of a history: a stored object has a non-empty swap header, its time stamps
and the clock of a hit are not below `minTime` (they are the current time, a parsed date clamped by `timestampsSet`, or -1) -/
def Op.Wf {β : Type} : Op β → Prop
  | .store _ _ hdrSz _ t => 0 < hdrSz ∧ t.Sane
  | .touch _ now => minTime ≤ now
  | _ => True

end SquidModel.Cache.Restart
