/-
Lemmas about the ufs-family restart model: the invariant that every history maintains and its consequences.
-/
import SquidModel.Cache.RestartUfs

namespace SquidModel.Cache.Restart
open SquidModel.Gen.RestartConsts

/-- the time stamps `StoreSwapLogData::sane` accepts -/
def Times.Sane (t : Times) : Prop :=
  minTime ≤ t.timestamp ∧ minTime ≤ t.lastref ∧ minTime ≤ t.expires ∧ minTime ≤ t.lastmod

/-- what the run time guarantees about the operations of a history: a stored object has a non-empty swap header, its time stamps
and the clock of a hit are not below `minTime` (they are the current time, a parsed date clamped by `timestampsSet`, or -1) -/
def Op.Wf {β : Type} : Op β → Prop
  | .store _ _ hdrSz _ t => 0 < hdrSz ∧ t.Sane
  | .touch _ now => minTime ≤ now
  | _ => True

/-! ### lists with unique keys -/

def lookup (idx : List Entry) (k : Key) : Option Entry := idx.find? (fun e => e.key == k)

theorem lookup_mem {idx : List Entry} {k : Key} {e : Entry} (h : lookup idx k = some e) : e ∈ idx ∧ e.key = k := by
  unfold lookup at h
  exact ⟨List.mem_of_find?_eq_some h, by have := List.find?_some h; simpa using this⟩

theorem lookup_none {idx : List Entry} {k : Key} (h : lookup idx k = none) : ∀ e ∈ idx, e.key ≠ k := by
  unfold lookup at h
  intro e he hk
  have := List.find?_eq_none.mp h e he
  simp [hk] at this

theorem lookup_filter (idx : List Entry) (k k' : Key) :
    lookup (idx.filter (fun x => !(x.key == k))) k' = if k' = k then none else lookup idx k' := by
  induction idx with
  | nil => simp [lookup]
  | cons a rest ih =>
    unfold lookup at ih ⊢
    rw [List.filter_cons]
    by_cases hak : a.key = k
    · have h1 : (!(a.key == k)) = false := by simp [hak]
      rw [h1]
      simp only [Bool.false_eq_true, if_false]
      rw [ih]
      by_cases hk' : k' = k
      · simp [hk']
      · have h2 : (a.key == k') = false := by
          simp only [beq_eq_false_iff_ne, ne_eq]; rw [hak]; exact fun h => hk' h.symm
        simp [hk', h2]
    · have h1 : (!(a.key == k)) = true := by simp [hak]
      rw [h1]
      simp only [if_true]
      rw [List.find?_cons, List.find?_cons]
      by_cases hak' : a.key = k'
      · have h3 : k' ≠ k := fun h => hak (hak'.trans h)
        simp [hak', h3]
      · have h2 : (a.key == k') = false := by simp [hak']
        rw [h2]; exact ih

theorem lookup_append_singleton (idx : List Entry) (e : Entry) (k' : Key) :
    lookup (idx ++ [e]) k' = match lookup idx k' with | some x => some x | none => if e.key = k' then some e else none := by
  unfold lookup
  rw [List.find?_append]
  cases h : List.find? (fun e => e.key == k') idx with
  | some x => simp
  | none =>
    by_cases hk : e.key = k'
    · simp [List.find?, hk]
    · have h2 : (e.key == k') = false := by simp [hk]
      simp [List.find?, h2, hk]

/-- two entries of a list with pairwise different keys that have the same key are the same entry -/
theorem eq_of_key_eq {idx : List Entry} (hn : (idx.map (·.key)).Nodup) {a b : Entry} (ha : a ∈ idx) (hb : b ∈ idx)
    (hk : a.key = b.key) : a = b := by
  induction idx with
  | nil => cases ha
  | cons x rest ih =>
    simp only [List.map_cons, List.nodup_cons, List.mem_map, not_exists, not_and] at hn
    rcases List.mem_cons.mp ha with ha1 | ha1
    · rcases List.mem_cons.mp hb with hb1 | hb1
      · rw [ha1, hb1]
      · exact absurd (show b.key = x.key by rw [← ha1]; exact hk.symm) (hn.1 b hb1)
    · rcases List.mem_cons.mp hb with hb1 | hb1
      · exact absurd (show a.key = x.key by rw [← hb1]; exact hk) (hn.1 a ha1)
      · exact ih hn.2 ha1 hb1

theorem eq_of_filn_eq {idx : List Entry} (hn : (idx.map (·.filn)).Nodup) {a b : Entry} (ha : a ∈ idx) (hb : b ∈ idx)
    (hk : a.filn = b.filn) : a = b := by
  induction idx with
  | nil => cases ha
  | cons x rest ih =>
    simp only [List.map_cons, List.nodup_cons, List.mem_map, not_exists, not_and] at hn
    rcases List.mem_cons.mp ha with ha1 | ha1
    · rcases List.mem_cons.mp hb with hb1 | hb1
      · rw [ha1, hb1]
      · exact absurd (show b.filn = x.filn by rw [← ha1]; exact hk.symm) (hn.1 b hb1)
    · rcases List.mem_cons.mp hb with hb1 | hb1
      · exact absurd (show a.filn = x.filn by rw [← hb1]; exact hk) (hn.1 a ha1)
      · exact ih hn.2 ha1 hb1

theorem nodup_map_filter {α : Type} (f : Entry → α) (p : Entry → Bool) {idx : List Entry} (h : (idx.map f).Nodup) :
    ((idx.filter p).map f).Nodup :=
  List.Nodup.sublist (List.Sublist.map f List.filter_sublist) h

/-! ### the invariant -/

structure Good {β : Type} (files : Nat → Option (File β)) (e : Entry) : Prop where
  so : e.swappedOut = true
  szpos : 0 < e.sz
  fl : e.flags = {}
  sane : e.t.Sane
  small : (e.filn : Int) < filenMask
  file : ∃ f, files e.filn = some f ∧ f.metaKey = e.key ∧ f.hdrSz ≤ e.sz ∧ f.objLen = e.sz - f.hdrSz

structure UInv {β : Type} (s : Ufs β) (m : Key → Option β) : Prop where
  keys : (s.index.map (·.key)).Nodup
  filns : (s.index.map (·.filn)).Nodup
  mapEq : ∀ n, n ∈ s.map ↔ ∃ e ∈ s.index, e.filn = n
  good : ∀ e ∈ s.index, Good s.files e
  pend : ∀ n ∈ s.pending, n ∉ s.map
  spec : ∀ k, m k = match lookup s.index k with | none => none | some e => (s.files e.filn).map (·.payload)
  sync : s.unlinkd = false → s.pending = []
  ok : s.raced = false ∧ s.overflow = false

theorem serve_eq {β : Type} {s : Ufs β} {m : Key → Option β} (h : UInv s m) (k : Key) : serve s k = m k := by
  unfold serve
  have hs := h.spec k
  unfold lookup at hs
  cases hl : List.find? (fun e => e.key == k) s.index with
  | none => rw [hl] at hs; simp [hs]
  | some e =>
    rw [hl] at hs
    have he := (lookup_mem (idx := s.index) (k := k) hl).1
    obtain ⟨f, hf, hk, hle, hob⟩ := (h.good e he).file
    simp only [hf, Option.map] at hs ⊢
    rw [hs]
    simp [hk, hle, hob]

theorem mem_le_sum (l : List Nat) (x : Nat) (h : x ∈ l) : x ≤ l.sum := by
  induction l with
  | nil => cases h
  | cons a rest ih =>
    rcases List.mem_cons.mp h with h1 | h1
    · subst h1; simp
    · have := ih h1; simp; omega

theorem allocate_fresh (map : List Nat) (suggest : Nat) : allocate map suggest ∉ map := by
  unfold allocate
  split
  · simp only
    split
    · intro hm; have := mem_le_sum _ _ hm; omega
    · assumption
  · assumption

/-- the effect of `release` when the key is indexed, in a form that covers both ways of unlinking -/
theorem uinv_released {β : Type} {s s' : Ufs β} {m : Key → Option β} (h : UInv s m) {k : Key} {e : Entry}
    (hl : lookup s.index k = some e)
    (hidx : s'.index = s.index.filter (fun x => !(x.key == k)))
    (hmap : s'.map = s.map.filter (fun n => !(n == e.filn)))
    (hfiles : ∀ n, n ≠ e.filn → s'.files n = s.files n)
    (hpend : ∀ n ∈ s'.pending, n ∈ s.pending ∨ n = e.filn)
    (hsync : s'.unlinkd = false → s'.pending = [])
    (hok : s'.raced = s.raced ∧ s'.overflow = s.overflow) :
    UInv s' (fun x => if x = k then none else m x) := by
  obtain ⟨hein, hek⟩ := lookup_mem hl
  have hother : ∀ x ∈ s.index, x.key ≠ k → x.filn ≠ e.filn := by
    intro x hx hxk hf
    have := eq_of_filn_eq h.filns hx hein hf
    rw [this] at hxk; exact hxk hek
  constructor
  · rw [hidx]; exact nodup_map_filter _ _ h.keys
  · rw [hidx]; exact nodup_map_filter _ _ h.filns
  · intro n
    rw [hmap, hidx]
    simp only [List.mem_filter, Bool.not_eq_true', beq_eq_false_iff_ne, ne_eq]
    constructor
    · rintro ⟨hn, hne⟩
      obtain ⟨x, hx, hxn⟩ := (h.mapEq n).mp hn
      refine ⟨x, ⟨hx, ?_⟩, hxn⟩
      intro hxk
      have := eq_of_key_eq h.keys hx hein (hxk.trans hek.symm)
      rw [this] at hxn; exact hne hxn.symm
    · rintro ⟨x, ⟨hx, hxk⟩, hxn⟩
      exact ⟨(h.mapEq n).mpr ⟨x, hx, hxn⟩, by rw [← hxn]; exact hother x hx hxk⟩
  · intro x hx
    rw [hidx] at hx
    simp only [List.mem_filter, Bool.not_eq_true', beq_eq_false_iff_ne, ne_eq] at hx
    have g := h.good x hx.1
    have hne := hother x hx.1 hx.2
    exact ⟨g.so, g.szpos, g.fl, g.sane, g.small, by rw [hfiles _ hne]; exact g.file⟩
  · intro n hn
    rw [hmap]
    simp only [List.mem_filter, Bool.not_eq_true', beq_eq_false_iff_ne, ne_eq, not_and, Decidable.not_not]
    rcases hpend n hn with h1 | h1
    · intro hm; exact absurd hm (h.pend n h1)
    · intro _; exact h1
  · intro k'
    rw [hidx, lookup_filter]
    by_cases hk' : k' = k
    · simp [hk']
    · simp only [hk', if_false]
      have hs := h.spec k'
      cases hl' : lookup s.index k' with
      | none => rw [hl'] at hs; simpa using hs
      | some x =>
        rw [hl'] at hs
        obtain ⟨hx, hxk⟩ := lookup_mem hl'
        have hne := hother x hx (by rw [hxk]; exact hk')
        simp only [hfiles _ hne]
        exact hs
  · exact hsync
  · rw [hok.1, hok.2]; exact h.ok

theorem uinv_release {β : Type} {s : Ufs β} {m : Key → Option β} (h : UInv s m) (k : Key) :
    UInv (release s k) (fun x => if x = k then none else m x) ∧ lookup (release s k).index k = none
      ∧ (release s k).suggest = s.suggest := by
  unfold release
  have hfind : s.index.find? (fun e => e.key == k) = lookup s.index k := rfl
  rw [hfind]
  cases hl : lookup s.index k with
  | none =>
    refine ⟨?_, hl, rfl⟩
    have hm : m k = none := by have := h.spec k; rw [hl] at this; exact this
    refine ⟨h.keys, h.filns, h.mapEq, h.good, h.pend, ?_, h.sync, h.ok⟩
    intro k'
    by_cases hk' : k' = k
    · subst hk'; simp [hl]
    · simp only [hk', if_false]; exact h.spec k'
  | some e =>
    simp only
    unfold unlinkFile
    by_cases hu : s.unlinkd = true
    · simp only [hu, if_true]
      refine ⟨uinv_released h hl rfl rfl (fun _ _ => rfl) ?_ ?_ ⟨rfl, rfl⟩, ?_, trivial⟩
      · intro n hn
        simp only [List.mem_append, List.mem_singleton] at hn
        exact hn
      · intro hf; simp at hf
      · simp only [lookup_filter, if_true]
    · have hu' : s.unlinkd = false := by simpa using hu
      simp only [hu', Bool.false_eq_true, if_false]
      refine ⟨uinv_released h hl rfl rfl ?_ ?_ ?_ ⟨rfl, rfl⟩, ?_, trivial⟩
      · intro n hn; simp [hn]
      · intro n hn; exact Or.inl hn
      · intro _; exact h.sync hu'
      · simp only [lookup_filter, if_true]

theorem uinv_store {β : Type} {s : Ufs β} {m : Key → Option β} (h : UInv s m) (k : Key) (b : β) (hdrSz objLen : Nat) (t : Times)
    (hwf : 0 < hdrSz ∧ t.Sane)
    (hr : (storeObj s k b hdrSz objLen t).raced = false) (ho : (storeObj s k b hdrSz objLen t).overflow = false) :
    UInv (storeObj s k b hdrSz objLen t) (fun x => if x = k then some b else m x) := by
  obtain ⟨h1, hnone, _⟩ := uinv_release h k
  unfold storeObj at hr ho ⊢
  generalize release s k = s1 at h1 hnone hr ho ⊢
  simp only at hr ho ⊢
  have hfresh := allocate_fresh s1.map s1.suggest
  generalize allocate s1.map s1.suggest = fn at hfresh hr ho ⊢
  simp only [Bool.or_eq_false_iff, decide_eq_false_iff_not] at hr ho
  have hnokey : ∀ x ∈ s1.index, x.key ≠ k := lookup_none hnone
  have hnofn : ∀ x ∈ s1.index, x.filn ≠ fn := by
    intro x hx hf
    exact hfresh ((h1.mapEq fn).mpr ⟨x, hx, hf⟩)
  constructor
  · simp only [List.map_append, List.map_cons, List.map_nil]
    rw [List.nodup_append]
    refine ⟨h1.keys, by simp, ?_⟩
    intro a ha c hc
    simp only [List.mem_singleton] at hc
    obtain ⟨x, hx, hxa⟩ := List.mem_map.mp ha
    rw [hc, ← hxa]; exact hnokey x hx
  · simp only [List.map_append, List.map_cons, List.map_nil]
    rw [List.nodup_append]
    refine ⟨h1.filns, by simp, ?_⟩
    intro a ha c hc
    simp only [List.mem_singleton] at hc
    obtain ⟨x, hx, hxa⟩ := List.mem_map.mp ha
    rw [hc, ← hxa]; exact hnofn x hx
  · intro n
    simp only [List.mem_append, List.mem_singleton]
    constructor
    · rintro (hn | hn)
      · obtain ⟨x, hx, hxn⟩ := (h1.mapEq n).mp hn
        exact ⟨x, Or.inl hx, hxn⟩
      · exact ⟨_, Or.inr rfl, hn.symm⟩
    · rintro ⟨x, (hx | hx), hxn⟩
      · exact Or.inl ((h1.mapEq n).mpr ⟨x, hx, hxn⟩)
      · subst hx; exact Or.inr hxn.symm
  · intro x hx
    simp only [List.mem_append, List.mem_singleton] at hx
    rcases hx with hx | hx
    · have g := h1.good x hx
      have hne := hnofn x hx
      exact ⟨g.so, g.szpos, g.fl, g.sane, g.small, by simp only [hne, if_false]; exact g.file⟩
    · subst hx
      refine ⟨rfl, by simp only; omega, rfl, hwf.2, ?_, ?_⟩
      · simp only; omega
      · refine ⟨{ metaKey := k, hdrSz := hdrSz, objLen := objLen, metaTimes := t, metaSz := 0, metaFlags := {}, metaRefcount := 1, payload := b }, by simp, rfl, ?_, ?_⟩
        · simp only; omega
        · simp only; omega
  · intro n hn
    simp only [List.mem_append, List.mem_singleton, not_or]
    exact ⟨h1.pend n hn, fun hf => hr.2 (hf ▸ hn)⟩
  · intro k'
    rw [lookup_append_singleton]
    by_cases hk' : k' = k
    · subst hk'
      simp [hnone]
    · have hs := h1.spec k'
      simp only [hk', if_false] at hs ⊢
      cases hl' : lookup s1.index k' with
      | none =>
        rw [hl'] at hs
        have : ¬ k = k' := fun hh => hk' hh.symm
        simp [this, hs]
      | some x =>
        rw [hl'] at hs
        obtain ⟨hx, _⟩ := lookup_mem hl'
        have hne := hnofn x hx
        simp only [hne, if_false]
        exact hs
  · exact h1.sync
  · simp only [Bool.or_eq_false_iff, decide_eq_false_iff_not]
    exact ⟨⟨hr.1, hr.2⟩, ⟨ho.1, ho.2⟩⟩

theorem uinv_touch {β : Type} {s : Ufs β} {m : Key → Option β} (h : UInv s m) (k : Key) (now : Int) (hnow : minTime ≤ now) :
    UInv (touch s k now) m := by
  unfold touch
  have hfind : s.index.find? (fun e => e.key == k) = lookup s.index k := rfl
  rw [hfind]
  cases hl : lookup s.index k with
  | none => exact h
  | some e =>
    simp only
    obtain ⟨hein, hek⟩ := lookup_mem hl
    have hother : ∀ x ∈ s.index, x.key ≠ k → x.filn ≠ e.filn := by
      intro x hx hxk hf
      have := eq_of_filn_eq h.filns hx hein hf
      rw [this] at hxk; exact hxk hek
    constructor
    · simp only [List.map_append, List.map_cons, List.map_nil]
      rw [List.nodup_append]
      refine ⟨nodup_map_filter _ _ h.keys, by simp, ?_⟩
      intro a ha c hc
      simp only [List.mem_singleton] at hc
      obtain ⟨x, hx, hxa⟩ := List.mem_map.mp ha
      simp only [List.mem_filter, Bool.not_eq_true', beq_eq_false_iff_ne, ne_eq] at hx
      rw [hc, ← hxa, hek]; exact hx.2
    · simp only [List.map_append, List.map_cons, List.map_nil]
      rw [List.nodup_append]
      refine ⟨nodup_map_filter _ _ h.filns, by simp, ?_⟩
      intro a ha c hc
      simp only [List.mem_singleton] at hc
      obtain ⟨x, hx, hxa⟩ := List.mem_map.mp ha
      simp only [List.mem_filter, Bool.not_eq_true', beq_eq_false_iff_ne, ne_eq] at hx
      rw [hc, ← hxa]; exact hother x hx.1 hx.2
    · intro n
      rw [h.mapEq n]
      simp only [List.mem_append, List.mem_filter, Bool.not_eq_true', beq_eq_false_iff_ne, ne_eq, List.mem_singleton]
      constructor
      · rintro ⟨x, hx, hxn⟩
        by_cases hxk : x.key = k
        · have := eq_of_key_eq h.keys hx hein (hxk.trans hek.symm)
          subst this
          exact ⟨_, Or.inr rfl, hxn⟩
        · exact ⟨x, Or.inl ⟨hx, hxk⟩, hxn⟩
      · rintro ⟨x, (hx | hx), hxn⟩
        · exact ⟨x, hx.1, hxn⟩
        · subst hx; exact ⟨e, hein, hxn⟩
    · intro x hx
      simp only [List.mem_append, List.mem_filter, List.mem_singleton] at hx
      rcases hx with hx | hx
      · exact h.good x hx.1
      · subst hx
        have g := h.good e hein
        exact ⟨g.so, g.szpos, g.fl, ⟨g.sane.1, hnow, g.sane.2.2.1, g.sane.2.2.2⟩, g.small, g.file⟩
    · exact h.pend
    · intro k'
      rw [lookup_append_singleton, lookup_filter]
      have hs := h.spec k'
      by_cases hk' : k' = k
      · subst hk'
        rw [hl] at hs
        simp [hek, hs]
      · simp only [hk', if_false]
        cases hl' : lookup s.index k' with
        | none =>
          rw [hl'] at hs
          have : ¬ e.key = k' := by rw [hek]; exact fun hh => hk' hh.symm
          simp [this, hs]
        | some x => rw [hl'] at hs; exact hs
    · exact h.sync
    · exact h.ok

theorem uinv_unlinkdStep {β : Type} {s : Ufs β} {m : Key → Option β} (h : UInv s m) : UInv (unlinkdStep s) m := by
  unfold unlinkdStep
  split
  · exact h
  · rename_i fn rest hp
    have hfn : fn ∉ s.map := h.pend fn (by rw [hp]; simp)
    have hne : ∀ x ∈ s.index, x.filn ≠ fn := fun x hx hf => hfn ((h.mapEq fn).mpr ⟨x, hx, hf⟩)
    constructor
    · exact h.keys
    · exact h.filns
    · exact h.mapEq
    · intro x hx
      have g := h.good x hx
      exact ⟨g.so, g.szpos, g.fl, g.sane, g.small, by simp only [hne x hx, if_false]; exact g.file⟩
    · intro n hn; exact h.pend n (by rw [hp]; exact List.mem_cons_of_mem _ hn)
    · intro k'
      have hs := h.spec k'
      cases hl' : lookup s.index k' with
      | none => rw [hl'] at hs; exact hs
      | some x =>
        rw [hl'] at hs
        simp only [hne x (lookup_mem hl').1, if_false]; exact hs
    · intro hu; have := h.sync hu; rw [hp] at this; cases this
    · exact h.ok

theorem uinv_flush {β : Type} (n : Nat) {s : Ufs β} {m : Key → Option β} (h : UInv s m) :
    UInv (unlinkdFlush s n) m ∧ ((unlinkdFlush s n).pending.length = s.pending.length - n) := by
  induction n generalizing s with
  | zero => exact ⟨h, by simp [unlinkdFlush]⟩
  | succ n ih =>
    unfold unlinkdFlush
    have h2 := ih (uinv_unlinkdStep h)
    refine ⟨h2.1, ?_⟩
    rw [h2.2]
    unfold unlinkdStep
    split
    · rename_i hp; simp [hp]
    · rename_i fn rest hp; simp [hp]

/-! ### clean shutdown and rebuild -/

theorem canLog_of_good {β : Type} {files : Nat → Option (File β)} {e : Entry} (g : Good files e) : canLog e = true := by
  simp [canLog, g.so, g.szpos, g.fl]

theorem sane_of_good {β : Type} {files : Nat → Option (File β)} {e : Entry} (g : Good files e) :
    (toRec SWAP_LOG_ADD e).sane = true := by
  obtain ⟨h1, h2, h3, h4⟩ := g.sane
  have hz : (0 : Int) ≤ (e.filn : Int) := Int.natCast_nonneg _
  simp [Rec.sane, toRec, SWAP_LOG_NOP, SWAP_LOG_ADD, SWAP_LOG_MAX, h1, h2, h3, h4, g.szpos, hz]

theorem rebuild_one {β : Type} (files : Nat → Option (File β)) (done : List Entry) (L : List Rec) (e : Entry)
    (g : Good files e) (hk : ∀ x ∈ done, x.key ≠ e.key) (hf : ∀ x ∈ done, x.filn ≠ e.filn) :
    rebuildFromSwapLog { index := done, map := done.map (·.filn), files := files, newLog := L } (toRec SWAP_LOG_ADD e)
      = { index := done ++ [e], map := (done ++ [e]).map (·.filn), files := files, newLog := L ++ [toRec SWAP_LOG_ADD e] } := by
  have hs := sane_of_good g
  have hmod : ((e.filn : Int) % filenMask) = (e.filn : Int) := Int.emod_eq_of_lt (Int.natCast_nonneg _) g.small
  have hnotmem : e.filn ∉ done.map (·.filn) := by
    intro hm
    obtain ⟨x, hx, hxe⟩ := List.mem_map.mp hm
    exact hf x hx hxe
  have hfind : done.find? (fun x => x.key == e.key) = none := by
    apply List.find?_eq_none.mpr
    intro x hx
    simp [hk x hx]
  have hnn : ¬ ((e.filn : Int) < 0) := by omega
  cases e with
  | mk key filn sz t refcount flags swappedOut =>
    have hso : swappedOut = true := g.so
    have hfl : flags = {} := g.fl
    subst hso hfl
    unfold rebuildFromSwapLog
    simp only [hs, Bool.not_true, Bool.false_eq_true, if_false]
    simp only [toRec] at hmod hnn ⊢
    simp only [hmod, if_true, hnn, if_false, Int.toNat_natCast, hnotmem]
    simp [addIfFresh, evictStaleAndContinue, hfind, toRec]

theorem rebuild_fold {β : Type} (files : Nat → Option (File β)) (rest : List Entry) :
    ∀ (done : List Entry) (L : List Rec),
    ((done ++ rest).map (·.key)).Nodup → ((done ++ rest).map (·.filn)).Nodup → (∀ e ∈ rest, Good files e) →
    (rest.map (toRec SWAP_LOG_ADD)).foldl rebuildFromSwapLog { index := done, map := done.map (·.filn), files := files, newLog := L }
      = { index := done ++ rest, map := (done ++ rest).map (·.filn), files := files, newLog := L ++ rest.map (toRec SWAP_LOG_ADD) } := by
  induction rest with
  | nil => intro done L _ _ _; simp
  | cons e rest ih =>
    intro done L hk hf hg
    simp only [List.map_cons, List.foldl_cons]
    have hk' : ∀ x ∈ done, x.key ≠ e.key := by
      intro x hx hxe
      simp only [List.map_append, List.map_cons] at hk
      have := (List.nodup_append.mp hk).2.2 x.key (List.mem_map.mpr ⟨x, hx, rfl⟩) e.key (by simp)
      exact this hxe
    have hf' : ∀ x ∈ done, x.filn ≠ e.filn := by
      intro x hx hxe
      simp only [List.map_append, List.map_cons] at hf
      have := (List.nodup_append.mp hf).2.2 x.filn (List.mem_map.mpr ⟨x, hx, rfl⟩) e.filn (by simp)
      exact this hxe
    rw [rebuild_one files done L e (hg e (by simp)) hk' hf']
    have e1 : done ++ e :: rest = (done ++ [e]) ++ rest := by simp
    rw [ih (done ++ [e]) (L ++ [toRec SWAP_LOG_ADD e]) (by rw [← e1]; exact hk) (by rw [← e1]; exact hf)
      (fun x hx => hg x (List.mem_cons_of_mem _ hx))]
    simp

theorem uinv_restart {β : Type} {s : Ufs β} {m : Key → Option β} (h : UInv s m) (dl : List Nat) :
    UInv (rebuild (cleanShutdown s) dl) m := by
  obtain ⟨h1, hlen⟩ := uinv_flush s.pending.length h
  unfold cleanShutdown
  generalize unlinkdFlush s s.pending.length = s1 at h1 hlen ⊢
  have hall : s1.index.filter canLog = s1.index := by
    apply List.filter_eq_self.mpr
    intro e he; exact canLog_of_good (h1.good e he)
  unfold rebuild
  simp only [hall]
  have hfold := rebuild_fold s1.files s1.index [] [] (by simpa using h1.keys) (by simpa using h1.filns) h1.good
  simp only [List.map_nil, List.nil_append] at hfold
  rw [hfold]
  constructor
  · exact h1.keys
  · exact h1.filns
  · intro n; simp [List.mem_map]
  · exact h1.good
  · intro n hn; simp at hn
  · exact h1.spec
  · intro _; rfl
  · exact h1.ok

/-! ### the first start of a freshly created cache_dir -/

theorem scan_empty {β : Type} (dl : List Nat) (r : Rb β) (hf : ∀ n, r.files n = none) :
    dl.foldl rebuildFromDirectory r = r := by
  induction dl generalizing r with
  | nil => rfl
  | cons n rest ih =>
    simp only [List.foldl_cons]
    have : rebuildFromDirectory r n = r := by
      unfold rebuildFromDirectory
      split
      · rfl
      · simp [hf n]
    rw [this]; exact ih r hf

theorem uinv_first_start {β : Type} (unlinkd : Bool) (dl : List Nat) :
    UInv (rebuild (Ufs.empty unlinkd : Ufs β) dl) (fun _ => none) := by
  unfold rebuild
  simp only [Ufs.empty]
  rw [scan_empty dl _ (fun _ => rfl)]
  constructor
  · simp
  · simp
  · intro n; simp
  · intro e he; simp at he
  · intro n hn; simp at hn
  · intro k; simp [lookup]
  · intro _; rfl
  · exact ⟨rfl, rfl⟩

/-! ### histories -/

theorem unlinkFile_flags {β : Type} (s : Ufs β) (fn : Nat) :
    (unlinkFile s fn).raced = s.raced ∧ (unlinkFile s fn).overflow = s.overflow := by
  unfold unlinkFile; split <;> exact ⟨rfl, rfl⟩

theorem release_flags {β : Type} (s : Ufs β) (k : Key) :
    (release s k).raced = s.raced ∧ (release s k).overflow = s.overflow := by
  unfold release
  split
  · exact ⟨rfl, rfl⟩
  · exact unlinkFile_flags _ _

theorem unlinkdStep_flags {β : Type} (s : Ufs β) :
    (unlinkdStep s).raced = s.raced ∧ (unlinkdStep s).overflow = s.overflow := by
  unfold unlinkdStep; split <;> exact ⟨rfl, rfl⟩

theorem flush_flags {β : Type} (n : Nat) (s : Ufs β) :
    (unlinkdFlush s n).raced = s.raced ∧ (unlinkdFlush s n).overflow = s.overflow := by
  induction n generalizing s with
  | zero => exact ⟨rfl, rfl⟩
  | succ n ih =>
    unfold unlinkdFlush
    have a := ih (unlinkdStep s)
    have b := unlinkdStep_flags s
    exact ⟨a.1.trans b.1, a.2.trans b.2⟩

theorem restart_flags {β : Type} (s : Ufs β) (dl : List Nat) :
    (rebuild (cleanShutdown s) dl).raced = s.raced ∧ (rebuild (cleanShutdown s) dl).overflow = s.overflow := by
  have a := flush_flags s.pending.length s
  exact ⟨a.1, a.2⟩

theorem step_flags_mono {β : Type} (s : Ufs β) (op : Op β) :
    (s.raced = true → (step s op).raced = true) ∧ (s.overflow = true → (step s op).overflow = true) := by
  cases op with
  | store k b hs n t =>
    have a := release_flags s k
    constructor
    · intro h
      show ((release s k).raced || _) = true
      rw [a.1, h]; rfl
    · intro h
      show ((release s k).overflow || _) = true
      rw [a.2, h]; rfl
  | purge k => have a := release_flags s k; exact ⟨fun h => a.1.trans h, fun h => a.2.trans h⟩
  | touch k now =>
    constructor <;> intro h <;> simp only [step, touch] <;> split <;> exact h
  | unlinkd => have a := unlinkdStep_flags s; exact ⟨fun h => a.1.trans h, fun h => a.2.trans h⟩
  | restart dl => have a := restart_flags s dl; exact ⟨fun h => a.1.trans h, fun h => a.2.trans h⟩

theorem run_flags_mono {β : Type} (ops : List (Op β)) (s : Ufs β) :
    (s.raced = true → (run s ops).raced = true) ∧ (s.overflow = true → (run s ops).overflow = true) := by
  induction ops generalizing s with
  | nil => exact ⟨id, id⟩
  | cons op rest ih =>
    have a := step_flags_mono s op
    have b := ih (step s op)
    exact ⟨fun h => b.1 (a.1 h), fun h => b.2 (a.2 h)⟩

theorem uinv_step {β : Type} {s : Ufs β} {m : Key → Option β} (h : UInv s m) (op : Op β) (hwf : op.Wf)
    (hr : (step s op).raced = false) (ho : (step s op).overflow = false) : UInv (step s op) (specStep m op) := by
  cases op with
  | store k b hs n t => exact uinv_store h k b hs n t hwf hr ho
  | purge k => exact (uinv_release h k).1
  | touch k now => exact uinv_touch h k now hwf
  | unlinkd => exact uinv_unlinkdStep h
  | restart dl => exact uinv_restart h dl

theorem uinv_run {β : Type} (ops : List (Op β)) {s : Ufs β} {m : Key → Option β} (h : UInv s m) (hwf : ∀ op ∈ ops, op.Wf)
    (hr : (run s ops).raced = false) (ho : (run s ops).overflow = false) : UInv (run s ops) (ops.foldl specStep m) := by
  induction ops generalizing s m with
  | nil => exact h
  | cons op rest ih =>
    have hmono := run_flags_mono rest (step s op)
    have hr1 : (step s op).raced = false := by
      cases hx : (step s op).raced with
      | false => rfl
      | true => have := hmono.1 hx; simp only [run, List.foldl_cons] at hr; rw [show List.foldl step (step s op) rest = run (step s op) rest from rfl] at hr; rw [this] at hr; cases hr
    have ho1 : (step s op).overflow = false := by
      cases hx : (step s op).overflow with
      | false => rfl
      | true => have := hmono.2 hx; simp only [run, List.foldl_cons] at ho; rw [show List.foldl step (step s op) rest = run (step s op) rest from rfl] at ho; rw [this] at ho; cases ho
    exact ih (uinv_step h op (hwf op (by simp)) hr1 ho1) (fun o ho' => hwf o (List.mem_cons_of_mem _ ho')) hr ho

/-- every history keeps every URL at exactly what the history requires -/
theorem history_preserved {β : Type} (unlinkd : Bool) (ops : List (Op β)) (dl : List Nat)
    (hwf : ∀ op ∈ ops, op.Wf)
    (hrace : (run (rebuild (Ufs.empty unlinkd) dl) ops).raced = false)
    (hsmall : (run (rebuild (Ufs.empty unlinkd) dl) ops).overflow = false) (k : Key) :
    serve (run (rebuild (Ufs.empty unlinkd) dl) ops) k = spec ops k :=
  serve_eq (uinv_run ops (uinv_first_start unlinkd dl) hwf hrace hsmall) k

/-! ### synchronous unlinks never race -/

structure SyncInv {β : Type} (s : Ufs β) : Prop where
  u : s.unlinkd = false
  p : s.pending = []
  r : s.raced = false

theorem sync_release {β : Type} {s : Ufs β} (h : SyncInv s) (k : Key) : SyncInv (release s k) := by
  unfold release
  split
  · exact h
  · unfold unlinkFile
    simp only [h.u, Bool.false_eq_true, if_false]
    exact ⟨rfl, h.p, h.r⟩

theorem sync_flush {β : Type} (n : Nat) {s : Ufs β} (h : SyncInv s) : unlinkdFlush s n = s := by
  induction n with
  | zero => rfl
  | succ n ih =>
    unfold unlinkdFlush
    have : unlinkdStep s = s := by unfold unlinkdStep; simp [h.p]
    rw [this]; exact ih

theorem sync_step {β : Type} {s : Ufs β} (h : SyncInv s) (op : Op β) : SyncInv (step s op) := by
  cases op with
  | store k b hs n t =>
    have h1 := sync_release h k
    simp only [step, storeObj]
    exact ⟨h1.u, h1.p, by simp [h1.r, h1.p]⟩
  | purge k => exact sync_release h k
  | touch k now => simp only [step, touch]; split <;> first | exact h | exact ⟨h.u, h.p, h.r⟩
  | unlinkd => simp only [step, unlinkdStep]; split <;> first | exact h | (rename_i hp; rw [h.p] at hp; cases hp)
  | restart dl =>
    simp only [step, cleanShutdown, sync_flush _ h]
    exact ⟨h.u, rfl, h.r⟩

theorem never_raced_sync {β : Type} (ops : List (Op β)) (dl : List Nat) :
    (run (rebuild (Ufs.empty false : Ufs β) dl) ops).raced = false := by
  have h0 : SyncInv (rebuild (Ufs.empty false : Ufs β) dl) := ⟨rfl, rfl, rfl⟩
  suffices ∀ (s : Ufs β), SyncInv s → SyncInv (run s ops) from (this _ h0).r
  induction ops with
  | nil => intro s h; exact h
  | cons op rest ih => intro s h; exact ih _ (sync_step h op)

theorem spec_append_restart {β : Type} (ops : List (Op β)) (rs : List (Op β)) (hrs : ∀ o ∈ rs, ∃ dl, o = .restart dl) (k : Key) :
    spec (ops ++ rs) k = spec ops k := by
  unfold spec
  rw [List.foldl_append]
  generalize List.foldl specStep (fun _ => none) ops = m
  induction rs generalizing m with
  | nil => rfl
  | cons o rest ih =>
    obtain ⟨dl, hdl⟩ := hrs o (by simp)
    subst hdl
    simp only [List.foldl_cons, specStep]
    exact ih (fun x hx => hrs x (List.mem_cons_of_mem _ hx)) m

theorem run_append {β : Type} (s : Ufs β) (a b : List (Op β)) : run s (a ++ b) = run (run s a) b := by
  unfold run; rw [List.foldl_append]

theorem restart_identity {β : Type} (unlinkd : Bool) (ops : List (Op β)) (dl dl1 dl2 : List Nat)
    (hwf : ∀ op ∈ ops, op.Wf)
    (hrace : (run (rebuild (Ufs.empty unlinkd) dl) ops).raced = false)
    (hsmall : (run (rebuild (Ufs.empty unlinkd) dl) ops).overflow = false) (k : Key) :
    serve (run (rebuild (Ufs.empty unlinkd) dl) (ops ++ [.restart dl1])) k = serve (run (rebuild (Ufs.empty unlinkd) dl) ops) k ∧
    serve (run (rebuild (Ufs.empty unlinkd) dl) (ops ++ [.restart dl1, .restart dl2])) k = serve (run (rebuild (Ufs.empty unlinkd) dl) ops) k := by
  have base := history_preserved unlinkd ops dl hwf hrace hsmall k
  have wf1 : ∀ rs : List (Op β), (∀ o ∈ rs, ∃ d, o = .restart d) → ∀ op ∈ ops ++ rs, op.Wf := by
    intro rs hrs op hop
    rcases List.mem_append.mp hop with h1 | h1
    · exact hwf op h1
    · obtain ⟨d, hd⟩ := hrs op h1; subst hd; trivial
  have r1 : ∀ o ∈ [Op.restart (β := β) dl1], ∃ d, o = .restart d := by intro o ho; simp at ho; exact ⟨dl1, ho⟩
  have r2 : ∀ o ∈ [Op.restart (β := β) dl1, .restart dl2], ∃ d, o = .restart d := by
    intro o ho; simp at ho; rcases ho with h1 | h1
    · exact ⟨dl1, h1⟩
    · exact ⟨dl2, h1⟩
  have f1 : (run (rebuild (Ufs.empty unlinkd) dl) (ops ++ [.restart dl1])).raced = false ∧
            (run (rebuild (Ufs.empty unlinkd) dl) (ops ++ [.restart dl1])).overflow = false := by
    rw [run_append]
    have a := restart_flags (run (rebuild (Ufs.empty unlinkd) dl) ops) dl1
    exact ⟨a.1.trans hrace, a.2.trans hsmall⟩
  have f2 : (run (rebuild (Ufs.empty unlinkd) dl) (ops ++ [.restart dl1, .restart dl2])).raced = false ∧
            (run (rebuild (Ufs.empty unlinkd) dl) (ops ++ [.restart dl1, .restart dl2])).overflow = false := by
    have e : ops ++ [Op.restart dl1, .restart dl2] = (ops ++ [.restart dl1]) ++ [.restart dl2] := by simp
    rw [e, run_append]
    have a := restart_flags (run (rebuild (Ufs.empty unlinkd) dl) (ops ++ [.restart dl1])) dl2
    exact ⟨a.1.trans f1.1, a.2.trans f1.2⟩
  constructor
  · rw [history_preserved unlinkd _ dl (wf1 _ r1) f1.1 f1.2 k, spec_append_restart ops _ r1 k, base]
  · rw [history_preserved unlinkd _ dl (wf1 _ r2) f2.1 f2.2 k, spec_append_restart ops _ r2 k, base]

end SquidModel.Cache.Restart
