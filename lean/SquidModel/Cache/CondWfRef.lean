/-
C14 lemmas, part 4: the RFC 9110 list syntax (CondRef) on well-formed lists, element comparison, and the equality of
`hasOneOfEtags` with the reference on well-formed input.
-/
import SquidModel.Cache.CondWf

namespace SquidModel.Cache.Cond
open Ref

theorem split_ne_nil (q : Bool) (s : Bytes) : split q s ≠ [] := by
  induction s generalizing q with
  | nil => simp [split]
  | cons c s ih =>
    unfold split
    split
    · have := ih (!q)
      cases h : split (!q) s with
      | nil => exact absurd h this
      | cons a b => simp [consHead]
    · split
      · simp
      · have := ih q
        cases h : split q s with
        | nil => exact absurd h this
        | cons a b => simp [consHead]

/-- head/tail view of `split` -/
def hd (L : List Bytes) : Bytes := L.headD []

theorem consHead_eq (c : UInt8) (L : List Bytes) (h : L ≠ []) : consHead c L = (c :: hd L) :: L.tail := by
  cases L with
  | nil => exact absurd rfl h
  | cons a b => rfl

theorem split_plain (q : Bool) (c : UInt8) (t : Bytes) (h1 : (c == dq) = false) (h2 : (c == comma && !q) = false) :
    split q (c :: t) = (c :: hd (split q t)) :: (split q t).tail := by
  rw [split]; simp only [h1, h2]; exact consHead_eq _ _ (split_ne_nil _ _)

theorem split_dq (q : Bool) (t : Bytes) :
    split q (dq :: t) = (dq :: hd (split (!q) t)) :: (split (!q) t).tail := by
  rw [split]; simp only [beq_self_eq_true, if_true]; exact consHead_eq _ _ (split_ne_nil _ _)

theorem split_quoted (o t : Bytes) (ho : o.all okc = true) :
    split true (o ++ dq :: t) = (o ++ dq :: hd (split false t)) :: (split false t).tail := by
  induction o with
  | nil => simpa using split_dq true t
  | cons c o ih =>
    simp only [List.all_cons, Bool.and_eq_true] at ho
    simp only [List.cons_append]
    rw [split_plain true c _ (okc_ne_dq ho.1) (by simp), ih ho.2]
    simp [hd]

def plainc (c : UInt8) : Bool := !(c == dq) && !(c == comma)

theorem split_run (a t : Bytes) (ha : a.all plainc = true) :
    split false (a ++ t) = (a ++ hd (split false t)) :: (split false t).tail := by
  induction a with
  | nil =>
    cases h : split false t with
    | nil => exact absurd h (split_ne_nil _ _)
    | cons x y => simp [hd, h]
  | cons c a ih =>
    simp only [List.all_cons, Bool.and_eq_true, plainc, Bool.not_eq_true'] at ha
    simp only [List.cons_append]
    rw [split_plain false c _ ha.1.1 (by simp [ha.1.2]), ih (by simpa [plainc] using ha.2)]
    simp [hd]

theorem split_ows (l t : Bytes) (hl : l.all isOws = true) :
    split false (l ++ t) = (l ++ hd (split false t)) :: (split false t).tail := by
  apply split_run
  simp only [List.all_eq_true] at hl ⊢
  intro x hx
  simp [plainc, ows_ne_dq (hl x hx), ows_ne_comma (hl x hx)]

theorem split_render (e : El) (he : e.ok) (t : Bytes) :
    split false (e.render ++ t) = (e.render ++ hd (split false t)) :: (split false t).tail := by
  have opening : ∀ o, o.all okc = true →
      split false (dq :: (o ++ dq :: t)) = (dq :: (o ++ dq :: hd (split false t))) :: (split false t).tail := by
    intro o ho
    rw [split_dq false, Bool.not_false, split_quoted o t ho]
    simp [hd]
  cases e with
  | star =>
    simp only [El.render, List.singleton_append]
    exact split_plain false _ _ (by decide) (by decide)
  | tag w o =>
    have ho : o.all okc = true := he
    cases w
    · simpa [El.render, renderTag] using opening o ho
    · have h1 : (El.tag true o).render ++ t = [87, 47] ++ (dq :: (o ++ dq :: t)) := by simp [El.render, renderTag]
      rw [h1, split_run [87, 47] _ (by decide), opening o ho]
      simp [hd, El.render, renderTag]

theorem split_comma (t : Bytes) : split false (comma :: t) = [] :: split false t := by
  rw [split]
  have : (comma == dq) = false := by decide
  simp [this]

theorem trimOws_render (pre l : Bytes) (e : El) (hpre : pre.all isOws = true) (hl : l.all isOws = true) :
    trimOws (pre ++ (e.render ++ l)) = e.render := by
  obtain ⟨c, m, hcm, _, hc, _⟩ := render_first e
  obtain ⟨m', c', hm', _, hc'⟩ := render_last e
  unfold trimOws
  rw [dropWhile_append_of_all _ _ _ hpre]
  have : (e.render ++ l).dropWhile isOws = e.render ++ l := by
    rw [hcm]; exact dropWhile_cons_of_not _ _ _ hc
  rw [this, hm', List.append_assoc, List.singleton_append, rdrop_of_all isOws m' l c' hl hc']

/-- the RFC elements of a well-formed list (after any OWS prefix) are its elements -/
theorem split_renders {s : Bytes} {es : List El} (h : Renders s es) :
    ∀ pre : Bytes, pre.all isOws = true →
      ((split false (pre ++ s)).map trimOws).filter (fun e => !e.isEmpty) = es.map El.render := by
  induction h with
  | one e he =>
    intro pre hpre
    rw [split_ows pre _ hpre]
    have := split_render e he []
    simp only [List.append_nil] at this
    rw [this]
    simp only [split, hd, List.headD_cons, List.append_nil, List.tail_cons, List.map_cons, List.map_nil]
    have ht := trimOws_render pre [] e hpre rfl
    simp only [List.append_nil] at ht
    rw [ht]
    obtain ⟨c, m, hcm, _⟩ := render_first e
    simp [hcm]
  | cons e l r s es he hl hr _ ih =>
    intro pre hpre
    rw [split_ows pre _ hpre, split_render e he, split_ows l _ hl, split_comma]
    simp only [hd, List.headD_cons, List.append_nil, List.tail_cons, List.map_cons]
    rw [trimOws_render pre l e hpre hl]
    obtain ⟨c, m, hcm, _⟩ := render_first e
    have hne : e.render.isEmpty = false := by rw [hcm]; rfl
    simp only [List.filter_cons, hne, Bool.not_false, if_true]
    rw [ih r hr]

/-! ### one element -/

theorem renderTag_ne_star (w : Bool) (o : Bytes) : (renderTag w o == [star]) = false := by
  cases w <;> cases o <;> simp [renderTag] <;> decide

theorem prefix_false (o : Bytes) : ([87, 47] : Bytes).isPrefixOf (renderTag false o) = false := by
  have h : ((87 : UInt8) == dq) = false := by decide
  simp [renderTag, List.isPrefixOf, h]

theorem prefix_true (o : Bytes) : ([87, 47] : Bytes).isPrefixOf (renderTag true o) = true := by
  simp [renderTag, List.isPrefixOf]

theorem getLast_quoted (o : Bytes) : (dq :: (o ++ [dq])).getLast? = some dq := by
  rw [show dq :: (o ++ [dq]) = (dq :: o) ++ [dq] by simp]
  exact List.getLast?_concat ..

theorem etagParseInit_render (w : Bool) (o : Bytes) :
    etagParseInit (renderTag w o) = some ⟨dq :: (o ++ [dq]), w⟩ := by
  cases w
  · have hp := prefix_false o
    unfold etagParseInit
    simp only [hp, Bool.false_eq_true, if_false]
    have : (renderTag false o) = dq :: (o ++ [dq]) := by simp [renderTag]
    rw [this]
    simp [getLast_quoted]
  · have hp := prefix_true o
    unfold etagParseInit
    simp only [hp, if_true]
    have : (renderTag true o).drop 2 = dq :: (o ++ [dq]) := by simp [renderTag]
    rw [this]
    simp [getLast_quoted]

theorem parseTag_render (w : Bool) (o : Bytes) (ho : o.all okc = true) :
    parseTag (renderTag w o) = some (.tag w o) := by
  have hall : o.all isEtagc = true := by
    simp only [List.all_eq_true] at ho ⊢
    intro x hx; exact okc_etagc (ho x hx)
  unfold parseTag
  rw [if_neg (by simpa using renderTag_ne_star w o)]
  cases w
  · have hp := prefix_false o
    simp only [hp, Bool.false_eq_true, if_false]
    have : (renderTag false o) = 34 :: (o ++ [dq]) := by simp [renderTag, dq]
    rw [this]
    simp [hall]
  · have hp := prefix_true o
    simp only [hp, if_true]
    have : (renderTag true o).drop 2 = 34 :: (o ++ [dq]) := by simp [renderTag, dq]
    rw [this]
    simp [hall]

theorem parseTag_star : parseTag [star] = some .star := by decide

theorem quoted_beq (a b : Bytes) : ((dq :: (a ++ [dq]) : Bytes) == dq :: (b ++ [dq])) = (a == b) := by
  by_cases h : a = b
  · subst h; simp
  · have : (a == b) = false := by simpa using h
    rw [this]
    simp only [beq_eq_false_iff_ne, ne_eq, List.cons.injEq, true_and]
    intro hab
    exact h (List.append_cancel_right hab)

/-- the stored entity-tag is `rw`/`ro`; an element of a well-formed list is matched by Squid iff the RFC says so -/
theorem itemMatches_eq_ref (rw : Bool) (ro : Bytes) (allowWeak : Bool) (e : El) (he : e.ok) :
    itemMatches ⟨dq :: (ro ++ [dq]), rw⟩ allowWeak e.render = elemMatches (some (rw, ro)) allowWeak e.render := by
  cases e with
  | star => simp [El.render, itemMatches, elemMatches, parseTag_star]
  | tag w o =>
    have ho : o.all okc = true := he
    simp only [El.render, itemMatches, elemMatches, renderTag_ne_star, Bool.false_eq_true, if_false,
      etagParseInit_render, parseTag_render w o ho]
    have hb : (o == ro) = (ro == o) := by
      by_cases h : ro = o
      · subst h; rfl
      · have h' : ¬ o = ro := fun x => h x.symm
        rw [beq_eq_false_iff_ne.mpr h', beq_eq_false_iff_ne.mpr h]
    cases allowWeak
    · simp only [strongEq, Bool.false_eq_true, if_false, quoted_beq, Bool.false_or, hb]
      generalize (ro == o) = b
      cases rw <;> cases w <;> cases b <;> rfl
    · simp only [weakEq, if_true, quoted_beq, Bool.true_or, Bool.and_true, hb]

/-- without a (parsable) stored entity-tag only `*` matches, on both sides -/
theorem star_eq_ref (allowWeak : Bool) (e : El) (he : e.ok) :
    (e.render == [star]) = elemMatches none allowWeak e.render := by
  cases e with
  | star => simp [El.render, elemMatches, parseTag_star]
  | tag w o =>
    have ho : o.all okc = true := he
    simp [El.render, elemMatches, renderTag_ne_star, parseTag_render w o ho]

end SquidModel.Cache.Cond
