/-
"It starts successfully", for the per-position model of `Rock::Rebuild`: the only way the rebuild of one position dies is
one of the two `assert`s about all-ones sizes; cells written by squid (sizes far below 2^64-1) never trip them.
-/
import SquidModel.Rock.CrashLemmas

namespace SquidModel.Rock.Crash
open SquidModel.Rock

variable {τ : Type}

/-- no size field of the cell is all-ones -/
def Cell.Tame (c : Cell τ) : Prop :=
  c.hdr.entrySize ≠ allOnes ∧ c.hdr.payloadSize < allOnes ∧
  match c.md with
  | .ok _ sfs _ _ => sfs ≠ allOnes
  | _ => True

def Alive (st : PSt τ) : Prop := ∀ w, st.state ≠ .crashed w

theorem corrupt_alive (st : PSt τ) : Alive (corrupt st) := by intro w h; simp [corrupt] at h

theorem finalize_alive (cfg : Cfg) (slots : Nat) (foreign : Int → Option (Nat × Int)) (st : PSt τ) :
    Alive (finalize cfg slots foreign st) := by
  intro w h
  rcases finalize_state cfg slots foreign st with hc | ⟨hl, _⟩
  · rw [hc] at h; cases h
  · rw [hl] at h; cases h

/-- `finalize` sets an unknown swap_file_sz to the loaded size and leaves a known one alone -/
theorem finalize_sfs (cfg : Cfg) (slots : Nat) (foreign : Int → Option (Nat × Int)) (st : PSt τ) :
    (finalize cfg slots foreign st).sfs = st.sfs ∨ (finalize cfg slots foreign st).sfs = st.size := by
  unfold finalize
  repeat' split
  all_goals first
    | exact Or.inl rfl
    | exact Or.inr rfl
    | (simp only; split <;> simp_all)

theorem addTail_alive (cfg : Cfg) (slots : Nat) (foreign : Int → Option (Nat × Int)) (st : PSt τ) (c : Cell τ) (h : Alive st) :
    Alive (addTail cfg slots foreign st c) := by
  unfold addTail
  split
  · exact corrupt_alive st
  · simp only
    split
    · exact finalize_alive cfg slots foreign _
    · intro w hw; exact h w hw

theorem addTail_sfs (cfg : Cfg) (slots : Nat) (foreign : Int → Option (Nat × Int)) (st : PSt τ) (c : Cell τ) :
    (addTail cfg slots foreign st c).sfs = st.sfs ∨ (addTail cfg slots foreign st c).sfs = st.size := by
  unfold addTail
  split
  · exact Or.inl rfl
  · simp only
    split
    · exact finalize_sfs cfg slots foreign _
    · exact Or.inl rfl

theorem addSlot_alive (cfg : Cfg) (slots : Nat) (foreign : Int → Option (Nat × Int)) (st : PSt τ) (c : Cell τ)
    (h : Alive st) (hc : c.hdr.entrySize ≠ allOnes) : Alive (addSlot cfg slots foreign st c) := by
  unfold addSlot
  simp only
  repeat' split
  all_goals first
    | exact corrupt_alive _
    | (exact addTail_alive _ _ _ _ _ (by intro w hw; exact h w hw))
    | contradiction

theorem step_alive (cfg : Cfg) (slots : Nat) (foreign : Int → Option (Nat × Int)) (st : PSt τ) (c : Cell τ)
    (h : Alive st) (hst : st.state ≠ .empty) (hc : c.hdr.entrySize ≠ allOnes) : Alive (step cfg slots foreign st c) := by
  unfold step
  split
  · rename_i he; exact absurd he hst
  · split
    · exact addSlot_alive cfg slots foreign st c h hc
    · exact corrupt_alive st
  · exact corrupt_alive st
  · exact h
  · exact h


/-- the size `importEntry` settles on is the inode's entrySize or the swap_file_sz of the metadata -/
theorem importEntry_sz (cfg : Cfg) (h : Header) (m : Meta) (mk : Key) (sz : Nat) (b : Bool)
    (hi : importEntry cfg { sfs := 0 } h m = (some (mk, sz), b)) :
    sz = h.entrySize ∨ ∃ k s f hl, m = .ok k s f hl ∧ sz = s := by
  unfold importEntry at hi
  cases m with
  | zeroed => simp at hi
  | unparsable => simp at hi
  | ok k s f hl =>
    cases k with
    | none => simp at hi
    | some mk' =>
      simp only at hi
      split at hi
      · simp at hi
      · rename_i sz' hsized
        split at hi
        · simp at hi
        · simp only [Prod.mk.injEq, Option.some.injEq] at hi
          obtain ⟨⟨_, rfl⟩, _⟩ := hi
          -- sz' is knownSize or s
          split at hsized
          · rename_i hk
            split at hsized
            · cases hsized
              exact Or.inl rfl
            · split at hsized
              · cases hsized
                exact Or.inl rfl
              · split at hsized
                · cases hsized
                · cases hsized
                  exact Or.inr ⟨_, _, _, _, rfl, rfl⟩
          · cases hsized
            exact Or.inr ⟨_, _, _, _, rfl, rfl⟩

theorem startNew_alive (cfg : Cfg) (slots : Nat) (foreign : Int → Option (Nat × Int)) (c : Cell τ) (hc : c.Tame) :
    Alive (startNew cfg slots foreign c) := by
  obtain ⟨hes, hps, hmd⟩ := hc
  unfold startNew
  simp only
  have halive : Alive (addSlot cfg slots foreign ({ state := .loading, key := c.hdr.key, start := -1, size := 0, sfs := 0, anchored := false } : PSt τ) c) :=
    addSlot_alive cfg slots foreign _ c (by intro w hw; cases hw) hes
  split
  · rename_i w hw; exact absurd hw (halive w)
  · split
    · rename_i hsfs
      -- impossible: the swap_file_sz of the new entry is 0, the entrySize, the metadata value or the payload size
      exfalso
      revert hsfs
      unfold addSlot
      simp only [Nat.zero_add, Bool.false_eq_true, if_false]
      split
      · split
        · intro h
          have h0 : (0 : Nat) = allOnes := h
          exact absurd h0 (by decide)
        · rename_i mk sz b himp
          have hsz := importEntry_sz cfg c.hdr c.md mk sz _ himp
          have hszne : sz ≠ allOnes := by
            rcases hsz with rfl | ⟨k, s, f, hl, hm, rfl⟩
            · exact hes
            · rw [hm] at hmd; exact hmd
          repeat' split
          all_goals first
            | (simp only [corrupt]; intro h; first | exact hszne h | exact hes h | (simp [allOnes] at h))
            | (intro h
               rcases addTail_sfs cfg slots foreign _ c with h2 | h2 <;> rw [h2] at h <;> simp only at h <;>
                 first | exact hszne h | exact hes h | omega | (simp [allOnes] at h))
      · intro h
        rcases addTail_sfs cfg slots foreign _ c with h2 | h2 <;> rw [h2] at h <;> simp only at h
        · simp [allOnes] at h
        · omega
    · exact halive

/-- **"it starts successfully"** (per position): on cells whose size fields are not all-ones the rebuild never dies -/
theorem posRebuild_alive (cfg : Cfg) (slots : Nat) (foreign : Int → Option (Nat × Int)) (cells : List (Cell τ))
    (h : ∀ c ∈ cells, c.Tame) : Alive (posRebuild cfg slots foreign cells) := by
  have hfold : ∀ (cs : List (Cell τ)) (st : PSt τ), (∀ c ∈ cs, c.Tame) → Alive st →
      Alive (cs.foldl (step cfg slots foreign) st) := by
    intro cs
    induction cs with
    | nil => intro st _ ha; exact ha
    | cons c rest ih =>
      intro st hcs ha
      simp only [List.foldl_cons]
      refine ih _ (fun x hx => hcs x (List.mem_cons_of_mem _ hx)) ?_
      have hc := hcs c (List.mem_cons_self ..)
      by_cases he : st.state = .empty
      · unfold step; rw [he]; exact startNew_alive cfg slots foreign c hc
      · exact step_alive cfg slots foreign st c ha he hc.1
  have := hfold cells {} h (by intro w hw; cases hw)
  unfold posRebuild validate
  split
  · exact finalize_alive cfg slots foreign _
  · exact this

end SquidModel.Rock.Crash
