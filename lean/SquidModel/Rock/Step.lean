/-
One slot of the loading loop preserves the invariant, or the rebuild dies in one of the four `allowed` ways.
-/
import SquidModel.Rock.Proc

namespace SquidModel.Rock

variable {A : Allow}

theorem InvCore.congr {cfg : Cfg} {pL pC : Int} {ex : Option Nat} {st st' : St} (h : InvCore cfg img pL pC ex st)
    (hle : st'.le = st.le) (hls : st'.ls = st.ls) (han : st'.an = st.an) (hsl : st'.sl = st.sl) (hfree : st'.free = st.free) :
    InvCore cfg img pL pC ex st' :=
  ⟨by rw [hls, hsl]; exact h.fresh, by rw [hle]; exact h.noIgn, by rw [hle, han]; exact h.idle,
   by
     intro f hf
     rw [hle] at hf
     obtain ⟨hw, ⟨L, hL⟩, hs⟩ := h.loading f hf
     exact ⟨by rw [han]; exact hw, ⟨L, hL.transfer (by rw [han]) (Int.le_refl _) (fun x _ => by rw [hls]; exact ⟨rfl, rfl, rfl⟩)⟩,
       by rw [han, hle]; exact hs⟩,
   by
     intro f hf
     rw [hle] at hf
     obtain ⟨hw, C, hC⟩ := h.loaded f hf
     exact ⟨by rw [han]; exact hw, C, hC.transfer (by rw [han]) (by rw [hle]) (Int.le_refl _)
       (fun x hx => ⟨by rw [hsl], by rw [hls]; exact hC.fin x hx⟩) (fun x hx => by rw [hls]; exact (hC.cells x hx).1)
       (fun _ x _ a b c => ⟨by rw [hls]; exact a, by rw [hls]; exact b, by rw [hfree]; exact c⟩)⟩,
   by
     have hnext : st'.next = st.next := by funext x; simp [St.next, hsl]
     rw [hle, han, hnext]; exact h.disj,
   by rw [hfree, hls]; exact h.fz, by rw [hls, hsl]; exact h.disk⟩

theorem InvCore.mono {cfg : Cfg} {pL pC pC' : Int} {ex : Option Nat} {st : St} (h : InvCore cfg img pL pC ex st) (hp : pC ≤ pC') :
    InvCore cfg img pL pC' ex st :=
  ⟨h.fresh, h.noIgn, h.idle, h.loading,
   fun f hf => ⟨(h.loaded f hf).1, (h.loaded f hf).2.choose,
     (h.loaded f hf).2.choose_spec.transfer rfl rfl hp (fun x hx => ⟨rfl, (h.loaded f hf).2.choose_spec.fin x hx⟩)
       (fun x hx => ((h.loaded f hf).2.choose_spec.cells x hx).1) (fun _ x _ a b c => ⟨a, b, c⟩)⟩,
   h.disj, h.fz, h.disk⟩

/-- entering the exempt mode is a weakening -/
theorem InvCore.exempt {cfg : Cfg} {pL pC : Int} {ex : Option Nat} {st : St} (h : InvCore cfg img pL pC none st) :
    InvCore cfg img pL pC ex st :=
  ⟨h.fresh, h.noIgn, h.idle, fun f hf => ⟨(h.loading f hf).1, (h.loading f hf).2.1, fun _ => (h.loading f hf).2.2 (by simp)⟩,
   h.loaded, h.disj, h.fz, h.disk⟩

/-- leaving it needs the size clause of the exempt entry (if that is still Loading) -/
theorem InvCore.close {cfg : Cfg} {pL pC : Int} {f : Nat} {st : St} (h : InvCore cfg img pL pC (some f) st)
    (hs : (st.le f).state = .loading → (st.an f).sfs = 0 ∨ (st.le f).size < (st.an f).sfs) : InvCore cfg img pL pC none st := by
  refine ⟨h.fresh, h.noIgn, h.idle, fun k hk => ⟨(h.loading k hk).1, (h.loading k hk).2.1, fun _ => ?_⟩, h.loaded, h.disj,
    h.fz, h.disk⟩
  by_cases hkf : k = f
  · subst hkf; exact hs hk
  · exact (h.loading k hk).2.2 (by simpa using fun e => hkf e.symm)

theorem loadingWith_length {pL : Int} {st : St} {f : Nat} {L : List Int} {n : Nat} (h : LoadingWith pL st f L) (hp : pL ≤ n) :
    L.length ≤ n :=
  nodup_inRange_length h.nodup (h.range.mono hp)

/-! ### freeBadEntry / finalizeOrFree on an entry in the middle of addSlotToEntry (or during validation) -/

/-- the slots of a Loading list pass `loadingSlot()` -/
theorem loadingWith_slotOk {g : Geo} {pos pL : Int} {st : St} {f : Nat} {L : List Int} (hL : LoadingWith pL st f L)
    (hpL : pL ≤ g.slots) (hpp : pL ≤ pos + 1) : ∀ x ∈ L, slotOk g pos x = true ∧ (st.ls x).freed = false := by
  intro x hx
  have hr := hL.range x hx
  refine ⟨?_, (hL.slots x hx).1⟩
  simp only [slotOk, Bool.and_eq_true, decide_eq_true_eq]
  omega

/-- under `Own` every slot a walk of entry `f` marks was added to `f` -/
theorem walked_owner {cfg : Cfg} {g : Geo} {pos pL pC : Int} {ex : Option Nat} {st : St} {f : Nat} {L C : List Int} {e : Int}
    (h : InvCore cfg img pL pC ex st) (hL : LoadingWith pL st f L) (ho : Own cfg img)
    (hseg : Seg st.next (st.an f).start C e) (hsl : ∀ x ∈ C, WalkedSlot cfg g pos f st x) :
    ∀ x ∈ C, (st.ls x).owner = (f : Int) := by
  intro x hx
  cases ho with
  | inl hflag => exact (hsl x hx).owner hflag
  | inr hlinks =>
    have hstart : (st.ls (st.an f).start).owner = (f : Int) := by
      cases C with
      | nil => cases hx
      | cons c cs =>
        obtain ⟨hc, hc0, _⟩ := hseg
        exact (hL.slots _ (hL.chain.start_mem (by rw [hc]; exact hc0))).2
    exact seg_owner_of_links hlinks h.disk C _ e _ hseg (fun y hy => ⟨(hsl y hy).mapped, (hsl y hy).fresh⟩) hstart x hx

theorem ProcCore.extend {cfg : Cfg} {img : List RawSlot} {p : Int} {ex : Option Nat} {st : St} (h : ProcCore cfg img p ex st)
    (hp : (st.ls p).freed = true ∨ ((st.ls p).mapped = true ∧ (st.ls p).finalized = true)) : ProcCore cfg img (p + 1) ex st := by
  refine ⟨?_, h.clean, h.members, h.sizes⟩
  intro x h0 h1
  by_cases hxp : x = p
  · subst hxp
    rcases hp with a | a
    · exact Or.inl a
    · exact Or.inr (Or.inl a)
  · exact h.done x h0 (by omega)

theorem markFreed_flags (ls : Int → LSlot) (L : List Int) (x : Int) :
    (markFreed ls L x).owner = (ls x).owner ∧ (markFreed ls L x).more = (ls x).more ∧
    (markFreed ls L x).mapped = (ls x).mapped ∧ (markFreed ls L x).finalized = (ls x).finalized ∧
    ((ls x).freed = true → (markFreed ls L x).freed = true) ∧ (x ∉ L → (markFreed ls L x).freed = (ls x).freed) ∧
    (x ∈ L → (markFreed ls L x).freed = true) := by
  by_cases hx : x ∈ L <;> simp [markFreed, hx]

theorem markFinal_flags (ls : Int → LSlot) (C : List Int) (x : Int) :
    (markFinal ls C x).owner = (ls x).owner ∧ (markFinal ls C x).more = (ls x).more ∧
    (markFinal ls C x).mapped = (ls x).mapped ∧ (markFinal ls C x).freed = (ls x).freed ∧
    ((ls x).finalized = true → (markFinal ls C x).finalized = true) ∧ (x ∉ C → (markFinal ls C x).finalized = (ls x).finalized) ∧
    (x ∈ C → (markFinal ls C x).finalized = true) := by
  by_cases hx : x ∈ C <;> simp [markFinal, hx]

theorem freeBad_inv {cfg : Cfg} {g : Geo} {pos pL pC : Int} {ex : Option Nat} {st : St} {f : Nat}
    (h : InvCore cfg img pL pC ex st) (ht : Tight ex g.entries st) (hf : (st.le f).state = .loading) (hpL : pL ≤ g.slots)
    (hpp : pL ≤ pos + 1) (hsd : (st.an f).start < 0 ∨ 0 < (st.le f).size)
    (hfo : FreeOK cfg img pL st) (hA : A.pushed = true ∨ Own cfg img)
    {pP : Int} (hpr : Own cfg img → ProcCore cfg img pP ex st) :
    Sat A (freeBadEntry g pos st f)
      (fun st' => InvCore cfg img pL pC ex st' ∧ Tight ex g.entries st' ∧ FreeOK cfg img pL st' ∧
        (st'.le f).state = .corrupted ∧ (st'.an f).sfs = 0 ∧ (Own cfg img → ProcCore cfg img pP ex st') ∧
        (Own cfg img → ∀ x, (st.ls x).owner = (f : Int) → (st'.ls x).freed = true) ∧ (∀ k, k ≠ f → st'.le k = st.le k)) := by
  obtain ⟨hw, ⟨L, hL⟩, _⟩ := h.loading f hf
  have hne : (st.le f).state ≠ .empty := by rw [hf]; decide
  have hpush : A.pushed = true ∨ ∀ x ∈ L, x ∉ st.free :=
    hA.imp id (fun ho x hx => hfo.lfree ho x f (hL.slots x hx).2 hf (hL.slots x hx).1)
  refine Sat.mono (freeBadEntry_sat g pos st f L hL.chain (loadingWith_length hL hpL) (ht.bound f hne) hw hsd hL.nodup
    (loadingWith_slotOk hL hpL hpp) hpush) ?_
  intro st' hp
  have hstate : ∀ k, k ≠ f → st'.le k = st.le k := fun k hk => by rw [hp.le, upd_other _ _ _ _ hk]
  have hfreedAll : Own cfg img → ∀ x, (st.ls x).owner = (f : Int) → (st'.ls x).freed = true := by
    intro ho x hx
    have hxL := (hpr ho).members f hf pL L hL x hx
    rw [hp.ls]; exact (markFreed_flags st.ls L x).2.2.2.2.2.2 hxL
  refine ⟨h.freeBad hf hL hp.le hp.an hp.sl hp.ls hp.free, ht.settle hne (Or.inl rfl) hp.le hp.an,
    hfo.freeBad hp hL.range hne, by rw [hp.le]; simp, by rw [hp.an]; simp [rewound], ?_, hfreedAll, hstate⟩
  intro ho
  refine (hpr ho).step (f0 := f) hstate (fun k hk => by rw [hp.an, upd_other _ _ _ _ hk]) (by rw [hp.le]; simp) ?_ ?_ ?_
  · intro x
    rw [hp.ls]
    have := markFreed_flags st.ls L x
    exact ⟨this.1, this.2.1, fun e => by rw [this.2.2.1]; exact e, fun e => by rw [this.2.2.2.1]; exact e, this.2.2.2.2.1⟩
  · intro x hx
    have hxL : x ∉ L := fun e => hx (hL.slots x e).2
    rw [hp.ls]
    have := markFreed_flags st.ls L x
    exact ⟨this.2.2.2.1, this.2.2.2.2.2.1 hxL⟩
  · intro x _ _ hx _
    exact Or.inl (hfreedAll ho x hx)

theorem finalizeOrFree_inv {cfg : Cfg} {g : Geo} {pos pL pC pC' : Int} {ex : Option Nat} {st : St} {f : Nat}
    (h : InvCore cfg img pL pC ex st) (ht : Tight ex g.entries st) (hf : (st.le f).state = .loading) (hpL : pL ≤ g.slots)
    (hb : ∀ x, slotOk g pos x = true → x < pL ∧ x < pC') (hpc : pC ≤ pC') (hcl : pC ≤ pL)
    (hsz : (st.an f).sfs = 0 ∨ (st.le f).size ≤ (st.an f).sfs)
    (hpp : pL ≤ pos + 1) (hsd : (st.an f).start < 0 ∨ 0 < (st.le f).size)
    (hfo : FreeOK cfg img pL st) (hA : A.pushed = true ∨ Own cfg img)
    (hpr : Own cfg img → ProcCore cfg img pL ex st)
    (hsizeF : Own cfg img → ∀ pL' L, LoadingWith pL' st f L → (st.le f).size = sumOn (payAt cfg img) L) :
    Sat A (finalizeOrFree cfg g pos st f)
      (fun st' => InvCore cfg img pL pC' ex st' ∧ Tight ex g.entries st' ∧ FreeOK cfg img pL st' ∧
        (st'.le f).state ≠ .loading ∧
        ((st'.an f).sfs = 0 ∨ (st.an f).sfs = 0 ∨ (st'.an f).sfs = (st.an f).sfs) ∧
        (Own cfg img → ProcCore cfg img pL ex st') ∧ (∀ k, k ≠ f → st'.le k = st.le k)) := by
  obtain ⟨hw, ⟨L, hL⟩, _⟩ := h.loading f hf
  have hne : (st.le f).state ≠ .empty := by rw [hf]; decide
  have hpush : A.pushed = true ∨ ∀ x ∈ L, x ∉ st.free :=
    hA.imp id (fun ho x hx => hfo.lfree ho x f (hL.slots x hx).2 hf (hL.slots x hx).1)
  have hmf : ∀ (C : List Int) (x : Int), ((SquidModel.Rock.markFinal st.ls C) x).owner = (st.ls x).owner ∧
      ((SquidModel.Rock.markFinal st.ls C) x).freed = (st.ls x).freed := by
    intro C x
    exact ⟨(markFinal_flags st.ls C x).1, (markFinal_flags st.ls C x).2.2.2.1⟩
  refine Sat.mono (finalizeOrFree_sat cfg g pos st f L hL.chain (loadingWith_length hL hpL) (ht.bound f hne) hw hsd hL.nodup
    (loadingWith_slotOk hL hpL hpp) hpush) ?_
  rintro st' ⟨C, hok | hfr⟩
  · have hstate : ∀ k, k ≠ f → st'.le k = st.le k := fun k hk => by rw [hok.le, upd_other _ _ _ _ hk]
    refine ⟨h.finalized hf hok hb hpc hsz, ht.settle hne (Or.inr rfl) hok.le hok.an, ?_, by rw [hok.le]; simp, ?_, ?_, hstate⟩
    · refine hfo.relabel (e := { st.le f with state := .loaded }) hne (by simp) (fun e => by cases e) hok.le ?_ hok.free
      intro x; rw [hok.ls]; exact hmf C x
    · rw [hok.an]
      simp only [upd_same, finalAnchor]
      by_cases h0 : (st.an f).sfs = 0
      · exact Or.inr (Or.inl h0)
      · simp [h0]
    · -- every slot the entry owns is in the chain: the chain is inside the list and weighs as much
      intro ho
      have hpc0 := hpr ho
      obtain ⟨e, hseg, _⟩ := hok.chain
      have hownC := walked_owner h hL ho hseg hok.slots
      have hCL : ∀ x ∈ C, x ∈ L := fun x hx => hpc0.members f hf pL L hL x (hownC x hx)
      -- slots of the list are mapped usable cells that no walk has marked
      have hLfacts : ∀ x ∈ L, (st.ls x).mapped = true ∧ (st.ls x).finalized = false := by
        intro x hx
        have hfin := hpc0.clean f x hf (hL.slots x hx).2
        refine ⟨?_, hfin⟩
        rcases hpc0.done x (hL.range x hx).1 (hL.range x hx).2 with a | ⟨_, b⟩ | ⟨_, _, _, c⟩
        · rw [(hL.slots x hx).1] at a; cases a
        · rw [hfin] at b; cases b
        · exact c
      have hpay : ∀ x ∈ L, (st.sl x).size = payAt cfg img x ∧ 0 < payAt cfg img x := by
        intro x hx
        obtain ⟨hm, hfn⟩ := hLfacts x hx
        obtain ⟨hd', hu, _, hs⟩ := h.disk x hm
        have : payAt cfg img x = hd'.payloadSize := by simp only [payAt, hu]
        rw [this, hs hfn]
        exact ⟨rfl, usableAt_payload_pos hu⟩
      have hsum : sumOn (payAt cfg img) C = sumOn (payAt cfg img) L := by
        rw [← hsizeF ho pL L hL, ← hok.sum]
        exact sumOn_frame (fun x hx => by simp only [St.ssize]; exact ((hpay x (hCL x hx)).1).symm)
      have hLC : ∀ x ∈ L, x ∈ C := subset_of_sum_eq C L hok.nodup hL.nodup hCL (fun x hx => (hpay x hx).2) hsum
      refine hpc0.step (f0 := f) hstate (fun k hk => by rw [hok.an, upd_other _ _ _ _ hk]) (by rw [hok.le]; simp) ?_ ?_ ?_
      · intro x
        rw [hok.ls]
        have := markFinal_flags st.ls C x
        exact ⟨this.1, this.2.1, fun e' => by rw [this.2.2.1]; exact e', this.2.2.2.2.1, fun e' => by rw [this.2.2.2.1]; exact e'⟩
      · intro x hx
        have hxC : x ∉ C := fun e' => hx (hownC x e')
        rw [hok.ls]
        have := markFinal_flags st.ls C x
        exact ⟨this.2.2.2.2.2.1 hxC, this.2.2.2.1⟩
      · intro x _ _ hx _
        have hxL := hpc0.members f hf pL L hL x hx
        have hxC := hLC x hxL
        right
        rw [hok.ls]
        have := markFinal_flags st.ls C x
        exact ⟨by rw [this.2.2.1]; exact (hLfacts x hxL).1, this.2.2.2.2.2.2 hxC⟩
  · -- the walk marked C, then the entry was freed
    have hstate : ∀ k, k ≠ f → st'.le k = st.le k := fun k hk => by rw [hfr.le, upd_other _ _ _ _ hk]
    let stM : St := { st with ls := SquidModel.Rock.markFinal st.ls C }
    have hCp : ∀ x ∈ C, x < pL := by
      intro x hx
      exact (hb x (hfr.marked x hx)).1
    have hM : InvCore cfg img pL pC ex stM := h.markFinal (st' := stM) rfl rfl rfl rfl rfl hCp hcl
    have hLM : LoadingWith pL stM f L := hL.transfer rfl (Int.le_refl _) (by
      intro x _
      show ((SquidModel.Rock.markFinal st.ls C) x).more = _ ∧ ((SquidModel.Rock.markFinal st.ls C) x).freed = _ ∧
        ((SquidModel.Rock.markFinal st.ls C) x).owner = _
      by_cases hx : x ∈ C <;> simp [SquidModel.Rock.markFinal, hx])
    have := hM.freeBad (st' := st') hf hLM hfr.le hfr.an hfr.sl hfr.ls hfr.free
    have hfoM : FreeOK cfg img pL stM := hfo.same (fun _ => rfl) (fun x => hmf C x) rfl
    have hpost : FreeBadPost g pos stM f L st' := ⟨hfr.le, hfr.an, hfr.sl, hfr.ls, hfr.free, hfr.ok⟩
    refine ⟨this.mono hpc, ht.settle hne (Or.inl rfl) hfr.le hfr.an, hfoM.freeBad hpost hL.range hne, by rw [hfr.le]; simp,
      Or.inl (by rw [hfr.an]; simp [rewound]), ?_, hstate⟩
    intro ho
    have hpc0 := hpr ho
    obtain ⟨e, hseg⟩ := hfr.seg
    have hownC := walked_owner h hL ho hseg hfr.slots
    refine hpc0.step (f0 := f) hstate (fun k hk => by rw [hfr.an, upd_other _ _ _ _ hk]) (by rw [hfr.le]; simp) ?_ ?_ ?_
    · intro x
      rw [hfr.ls]
      have a := markFreed_flags (SquidModel.Rock.markFinal st.ls C) L x
      have b := markFinal_flags st.ls C x
      exact ⟨by rw [a.1, b.1], by rw [a.2.1, b.2.1], fun e' => by rw [a.2.2.1, b.2.2.1]; exact e',
        fun e' => by rw [a.2.2.2.1]; exact b.2.2.2.2.1 e', fun e' => a.2.2.2.2.1 (by rw [b.2.2.2.1]; exact e')⟩
    · intro x hx
      have hxC : x ∉ C := fun e' => hx (hownC x e')
      have hxL : x ∉ L := fun e' => hx (hL.slots x e').2
      rw [hfr.ls]
      have a := markFreed_flags (SquidModel.Rock.markFinal st.ls C) L x
      have b := markFinal_flags st.ls C x
      exact ⟨by rw [a.2.2.2.1]; exact b.2.2.2.2.2.1 hxC, by rw [a.2.2.2.2.2.1 hxL]; exact b.2.2.2.1⟩
    · intro x _ _ hx _
      have hxL := hpc0.members f hf pL L hL x hx
      left
      rw [hfr.ls]
      exact (markFreed_flags (SquidModel.Rock.markFinal st.ls C) L x).2.2.2.2.2.2 hxL

end SquidModel.Rock

namespace SquidModel.Rock

variable {A : Allow}

/-! ### chainSlots -/

theorem chainSlot_sat {cfg : Cfg} {g : Geo} {p : Int} {st : St} {f : Nat}
    (h : InvCore cfg img p p none st) (ht : Tight none g.entries st) (hf : (st.le f).state = .loading)
    (hp0 : 0 ≤ p) (hroom : p + 1 ≤ g.slots) (hfo : FreeOK cfg img p st)
    (hpr : Own cfg img → ProcCore cfg img p none st) :
    Sat A (chainSlot g p st f p)
      (fun st1 => InvCore cfg img (p + 1) p (some f) st1 ∧ Tight (some f) g.entries st1 ∧ FreeOK cfg img (p + 1) st1 ∧
        (Own cfg img → ProcCore cfg img p (some f) st1) ∧
        (∀ L, LoadingWith p st f L → ∀ pL' L', LoadingWith pL' st1 f L' →
          ∀ w : Int → Nat, sumOn w L' = w p + sumOn w L) ∧
        st1.le = st.le ∧
        (st1.an f).sfs = (st.an f).sfs ∧
        (st1.ls p).owner = (f : Int) ∧ (st1.ls p).mapped = false ∧ (st1.ls p).freed = false ∧ 0 ≤ (st1.an f).start) := by
  obtain ⟨hw, ⟨L, hL⟩, _⟩ := h.loading f hf
  have hfreshp := h.fresh p (Int.le_refl _)
  have hne : (st.le f).state ≠ .empty := by rw [hf]; decide
  unfold chainSlot
  refine Sat.check (by simp only [slotOk, Bool.and_eq_true, decide_eq_true_eq]; omega) ?_
  refine Sat.check (by rw [hfreshp.1]; decide) ?_
  -- facts shared by both branches
  have hLp : ∀ x ∈ L, x ≠ p := fun x hx => by have := (hL.range x hx).2; omega
  by_cases hanch : (st.le f).anchored = true
  · simp only [hanch, if_true]
    have hi0 : 0 ≤ (st.an f).start := ht.inode f hf hanch
    have hir := hL.range _ (hL.chain.start_mem hi0)
    refine Sat.check (by simp only [slotOk, Bool.and_eq_true, decide_eq_true_eq]; omega) ?_
    -- the list starts with the inode
    cases L with
    | nil => have := Chain.nil_iff.1 hL.chain; omega
    | cons ino tail =>
      obtain ⟨hst, _, htail⟩ := Chain.cons_iff.1 hL.chain
      obtain ⟨hino_tail, hnd_tail⟩ := List.nodup_cons.1 hL.nodup
      have hinop : ino ≠ p := hLp ino (List.mem_cons_self ..)
      rw [hst]
      let ls1 := upd st.ls p { st.ls p with more := (st.ls ino).more, owner := (f : Int) }
      let ls2 := upd ls1 ino { ls1 ino with more := p }
      have hls2_other : ∀ x, x ≠ p → x ≠ ino → ls2 x = st.ls x := by
        intro x h1 h2
        simp only [ls2, ls1, upd_other _ _ _ _ h2, upd_other _ _ _ _ h1]
      have hls2_p : ls2 p = { st.ls p with more := (st.ls ino).more, owner := (f : Int) } := by
        simp only [ls2, ls1, upd_other _ _ _ _ (Ne.symm hinop), upd_same]
      have hls2_ino : ls2 ino = { st.ls ino with more := p } := by
        simp only [ls2, ls1, upd_same, upd_other _ _ _ _ hinop]
      have hfin : ∀ x, (ls2 x).finalized = (st.ls x).finalized ∧ (ls2 x).mapped = (st.ls x).mapped ∧
          (ls2 x).freed = (st.ls x).freed ∧ (x ≠ p → (ls2 x).owner = (st.ls x).owner) := by
        intro x
        by_cases h1 : x = ino
        · subst h1; rw [hls2_ino]; exact ⟨rfl, rfl, rfl, fun _ => rfl⟩
        · by_cases h2 : x = p
          · subst h2; rw [hls2_p]; exact ⟨rfl, rfl, rfl, fun e => absurd rfl e⟩
          · rw [hls2_other x h2 h1]; exact ⟨rfl, rfl, rfl, fun _ => rfl⟩
      have hfo2 : FreeOK cfg img (p + 1) { st with ls := ls2 } := by
        refine hfo.chain (st' := { st with ls := ls2 }) hf rfl rfl (by show (ls2 p).owner = _; rw [hls2_p]) ?_ ?_
        · intro x hx; exact (hfin x).2.2.2 hx
        · intro x; exact (hfin x).2.2.1
      -- the new list, once and for all
      have hnewL : LoadingWith (p + 1) ({ st with ls := ls2 } : St) f (ino :: p :: tail) := by
        refine ⟨?_, ?_, ?_, ?_⟩
        · show Chain (fun x => (ls2 x).more) (st.an f).start (ino :: p :: tail)
          rw [hst]
          refine Chain.cons_iff.2 ⟨rfl, by omega, ?_⟩
          rw [hls2_ino]
          refine Chain.cons_iff.2 ⟨rfl, hp0, ?_⟩
          rw [hls2_p]
          refine Chain.frame (fun x hx => ?_) htail
          have h1 : x ≠ p := hLp x (List.mem_cons_of_mem _ hx)
          have h2 : x ≠ ino := fun e => hino_tail (e ▸ hx)
          show (ls2 x).more = (st.ls x).more
          rw [hls2_other x h1 h2]
        · refine List.nodup_cons.2 ⟨?_, List.nodup_cons.2 ⟨?_, hnd_tail⟩⟩
          · intro hm
            cases hm with
            | head => exact hinop rfl
            | tail _ hm => exact hino_tail hm
          · intro hm; exact hLp p (List.mem_cons_of_mem _ hm) rfl
        · intro x hx
          cases hx with
          | head => have := hL.range ino (List.mem_cons_self ..); omega
          | tail _ hx =>
            cases hx with
            | head => omega
            | tail _ hx => have := hL.range x (List.mem_cons_of_mem _ hx); omega
        · intro x hx
          show (ls2 x).freed = false ∧ (ls2 x).owner = (f : Int)
          cases hx with
          | head => rw [hls2_ino]; exact hL.slots ino (List.mem_cons_self ..)
          | tail _ hx =>
            cases hx with
            | head => rw [hls2_p, hfreshp.1]; exact ⟨rfl, rfl⟩
            | tail _ hx =>
              have h1 : x ≠ p := hLp x (List.mem_cons_of_mem _ hx)
              have h2 : x ≠ ino := fun e => hino_tail (e ▸ hx)
              rw [hls2_other x h1 h2]
              exact hL.slots x (List.mem_cons_of_mem _ hx)
      have hsums : ∀ L0, LoadingWith p st f L0 → ∀ pL' L', LoadingWith pL' ({ st with ls := ls2 } : St) f L' →
          ∀ w : Int → Nat, sumOn w L' = w p + sumOn w L0 := by
        intro L0 hL0 pL' L' hL' w
        have e0 : L0 = ino :: tail := hL0.unique hL
        have e1 : L' = ino :: p :: tail := hL'.unique hnewL
        subst e0; subst e1
        simp only [sumOn]; omega
      have hpr2 : Own cfg img → ProcCore cfg img p (some f) ({ st with ls := ls2 } : St) := by
        intro ho
        refine (hpr ho).chain (st1 := { st with ls := ls2 }) (L' := ino :: p :: tail) hf rfl (fun _ _ => rfl) ?_ ?_ ?_ ?_ hfreshp.1 hnewL
          (List.mem_cons_of_mem _ (List.mem_cons_self ..)) ?_
        · intro x; exact ⟨(hfin x).1, (hfin x).2.2.1, (hfin x).2.1⟩
        · intro x hx; exact (hfin x).2.2.2 hx
        · show (ls2 p).owner = _; rw [hls2_p]
        · intro x hxp hox
          have hxi : x ≠ ino := by
            intro e; subst e
            exact hox (hL.slots x (List.mem_cons_self ..)).2
          show (ls2 x).more = _
          rw [hls2_other x hxp hxi]
        · intro x hx
          have := (hpr ho).members f hf p _ hL x hx
          cases this with
          | head => exact List.mem_cons_self ..
          | tail _ hm => exact List.mem_cons_of_mem _ (List.mem_cons_of_mem _ hm)
      refine Sat.pure ⟨?_, (ht.same (st' := { st with ls := ls2 }) rfl rfl).exempt, hfo2, hpr2, hsums, rfl, rfl, by show (ls2 p).owner = _; rw [hls2_p],
        by show (ls2 p).mapped = _; rw [hls2_p, hfreshp.1], by show (ls2 p).freed = _; rw [hls2_p, hfreshp.1],
        by show 0 ≤ (st.an f).start; omega⟩
      show InvCore cfg img (p + 1) p (some f) { st with ls := ls2 }
      refine ⟨?_, h.noIgn, h.idle, ?_, ?_, ?_, ?_, ?_⟩
      · intro x hx
        have h1 : x ≠ p := by omega
        have h2 : x ≠ ino := by have := (hL.range ino (List.mem_cons_self ..)).2; omega
        show ls2 x = {} ∧ st.sl x = {}
        rw [hls2_other x h1 h2]
        exact h.fresh x (by omega)
      · intro k hk
        by_cases hkf : k = f
        · subst hkf
          refine ⟨hw, ⟨ino :: p :: tail, ?_, ?_, ?_, ?_⟩, fun hne => absurd rfl hne⟩
          · -- the new chain
            show Chain (fun x => (ls2 x).more) (st.an k).start (ino :: p :: tail)
            rw [hst]
            refine Chain.cons_iff.2 ⟨rfl, by omega, ?_⟩
            rw [hls2_ino]
            refine Chain.cons_iff.2 ⟨rfl, hp0, ?_⟩
            rw [hls2_p]
            refine Chain.frame (fun x hx => ?_) htail
            have h1 : x ≠ p := hLp x (List.mem_cons_of_mem _ hx)
            have h2 : x ≠ ino := fun e => hino_tail (e ▸ hx)
            show (ls2 x).more = (st.ls x).more
            rw [hls2_other x h1 h2]
          · refine List.nodup_cons.2 ⟨?_, List.nodup_cons.2 ⟨?_, hnd_tail⟩⟩
            · intro hm
              cases hm with
              | head => exact hinop rfl
              | tail _ hm => exact hino_tail hm
            · intro hm; exact hLp p (List.mem_cons_of_mem _ hm) rfl
          · intro x hx
            cases hx with
            | head => have := hL.range ino (List.mem_cons_self ..); omega
            | tail _ hx =>
              cases hx with
              | head => omega
              | tail _ hx => have := hL.range x (List.mem_cons_of_mem _ hx); omega
          · intro x hx
            show (ls2 x).freed = false ∧ (ls2 x).owner = (k : Int)
            cases hx with
            | head => rw [hls2_ino]; exact hL.slots ino (List.mem_cons_self ..)
            | tail _ hx =>
              cases hx with
              | head => rw [hls2_p, hfreshp.1]; exact ⟨rfl, rfl⟩
              | tail _ hx =>
                have h1 : x ≠ p := hLp x (List.mem_cons_of_mem _ hx)
                have h2 : x ≠ ino := fun e => hino_tail (e ▸ hx)
                rw [hls2_other x h1 h2]
                exact hL.slots x (List.mem_cons_of_mem _ hx)
        · obtain ⟨hwk, ⟨Lk, hLk⟩, hsk⟩ := h.loading k hk
          refine ⟨hwk, ⟨Lk, hLk.transfer rfl (by omega) ?_⟩, fun _ => hsk (by simp)⟩
          intro x hx
          have h1 : x ≠ p := by have := (hLk.range x hx).2; omega
          have h2 : x ≠ ino := by
            intro e
            have a := (hLk.slots x hx).2
            have b := (hL.slots ino (List.mem_cons_self ..)).2
            rw [e, b] at a
            exact ofNat_inj_of_ne hkf a.symm
          show (ls2 x).more = _ ∧ (ls2 x).freed = _ ∧ (ls2 x).owner = _
          rw [hls2_other x h1 h2]
          exact ⟨rfl, rfl, rfl⟩
      · intro k hk
        obtain ⟨hwk, C, hC⟩ := h.loaded k hk
        have hCp : ∀ x ∈ C, x ≠ p := fun x hx => by have := (hC.range x hx).2; omega
        refine ⟨hwk, C, hC.transfer rfl rfl (Int.le_refl _) ?_ ?_ ?_⟩
        · intro x hx
          exact ⟨rfl, by show (ls2 x).finalized = true; rw [(hfin x).1]; exact hC.fin x hx⟩
        · intro x hx; show (ls2 x).mapped = true; rw [(hfin x).2.1]; exact (hC.cells x hx).1
        · intro _ x hx a b c
          exact ⟨by show (ls2 x).owner = _; rw [(hfin x).2.2.2 (hCp x hx)]; exact a,
            by show (ls2 x).freed = _; rw [(hfin x).2.2.1]; exact b, c⟩
      · exact h.disj
      · intro x hx
        show (ls2 x).freed = true ∨ (ls2 x).finalized = true
        rw [(hfin x).1, (hfin x).2.2.1]; exact h.fz x hx
      · intro x hx
        have hx' : (ls2 x).mapped = true := hx
        rw [(hfin x).2.1] at hx'
        have hxp : x ≠ p := by
          intro e; subst e; rw [hfreshp.1] at hx'; cases hx'
        obtain ⟨hd, hu, ho, hs⟩ := h.disk x hx'
        refine ⟨hd, hu, by show (ls2 x).owner = _; rw [(hfin x).2.2.2 hxp]; exact ho, ?_⟩
        intro hf'
        have hf'' : (ls2 x).finalized = false := hf'
        rw [(hfin x).1] at hf''
        exact hs hf''
  · simp only [hanch, if_false, Bool.false_eq_true]
    let ls1 := upd st.ls p { st.ls p with more := (st.an f).start, owner := (f : Int) }
    let an1 := upd st.an f { st.an f with start := p }
    have hls1_other : ∀ x, x ≠ p → ls1 x = st.ls x := fun x hx => by simp only [ls1, upd_other _ _ _ _ hx]
    have hls1_p : ls1 p = { st.ls p with more := (st.an f).start, owner := (f : Int) } := by simp only [ls1, upd_same]
    have han1_other : ∀ k, k ≠ f → an1 k = st.an k := fun k hk => by simp only [an1, upd_other _ _ _ _ hk]
    have hfin : ∀ x, (ls1 x).finalized = (st.ls x).finalized ∧ (ls1 x).mapped = (st.ls x).mapped ∧
        (ls1 x).freed = (st.ls x).freed ∧ (x ≠ p → (ls1 x).owner = (st.ls x).owner) := by
      intro x
      by_cases h2 : x = p
      · subst h2; rw [hls1_p]; exact ⟨rfl, rfl, rfl, fun e => absurd rfl e⟩
      · rw [hls1_other x h2]; exact ⟨rfl, rfl, rfl, fun _ => rfl⟩
    have htight : Tight (some f) g.entries { st with ls := ls1, an := an1 } := by
      refine ht.exempt.tweak (e := st.le f) (a := { st.an f with start := p }) hne hf (fun _ => hp0)
        (fun hne' => absurd rfl hne') ?_ rfl
      show st.le = upd st.le f (st.le f)
      funext k
      by_cases hk : k = f
      · subst hk; simp
      · simp [upd_other _ _ _ _ hk]
    have hfo1 : FreeOK cfg img (p + 1) { st with ls := ls1, an := an1 } := by
      refine hfo.chain (st' := { st with ls := ls1, an := an1 }) hf rfl rfl (by show (ls1 p).owner = _; rw [hls1_p]) ?_ ?_
      · intro x hx; exact (hfin x).2.2.2 hx
      · intro x; exact (hfin x).2.2.1
    have hnewL : LoadingWith (p + 1) ({ st with ls := ls1, an := an1 } : St) f (p :: L) := by
      refine ⟨?_, ?_, ?_, ?_⟩
      · show Chain (fun x => (ls1 x).more) (an1 f).start (p :: L)
        have : (an1 f).start = p := by simp [an1]
        rw [this]
        refine Chain.cons_iff.2 ⟨rfl, hp0, ?_⟩
        rw [hls1_p]
        refine Chain.frame (fun x hx => ?_) hL.chain
        show (ls1 x).more = (st.ls x).more
        rw [hls1_other x (hLp x hx)]
      · exact List.nodup_cons.2 ⟨fun hm => hLp p hm rfl, hL.nodup⟩
      · intro x hx
        cases hx with
        | head => omega
        | tail _ hx => have := hL.range x hx; omega
      · intro x hx
        show (ls1 x).freed = false ∧ (ls1 x).owner = (f : Int)
        cases hx with
        | head => rw [hls1_p, hfreshp.1]; exact ⟨rfl, rfl⟩
        | tail _ hx => rw [hls1_other x (hLp x hx)]; exact hL.slots x hx
    have hsums : ∀ L0, LoadingWith p st f L0 → ∀ pL' L', LoadingWith pL' ({ st with ls := ls1, an := an1 } : St) f L' →
        ∀ w : Int → Nat, sumOn w L' = w p + sumOn w L0 := by
      intro L0 hL0 pL' L' hL' w
      have e0 : L0 = L := hL0.unique hL
      have e1 : L' = p :: L := hL'.unique hnewL
      subst e0; subst e1
      simp only [sumOn]
    have hpr1 : Own cfg img → ProcCore cfg img p (some f) ({ st with ls := ls1, an := an1 } : St) := by
      intro ho
      refine (hpr ho).chain (st1 := { st with ls := ls1, an := an1 }) (L' := p :: L) hf rfl (fun k hk => han1_other k hk) ?_ ?_ ?_ ?_
        hfreshp.1 hnewL (List.mem_cons_self ..) ?_
      · intro x; exact ⟨(hfin x).1, (hfin x).2.2.1, (hfin x).2.1⟩
      · intro x hx; exact (hfin x).2.2.2 hx
      · show (ls1 p).owner = _; rw [hls1_p]
      · intro x hxp _
        show (ls1 x).more = _
        rw [hls1_other x hxp]
      · intro x hx
        exact List.mem_cons_of_mem _ ((hpr ho).members f hf p _ hL x hx)
    refine Sat.pure ⟨?_, htight, hfo1, hpr1, hsums, rfl, by simp, by show (ls1 p).owner = _; rw [hls1_p],
      by show (ls1 p).mapped = _; rw [hls1_p, hfreshp.1], by show (ls1 p).freed = _; rw [hls1_p, hfreshp.1],
      by show 0 ≤ (an1 f).start; simp [an1, hp0]⟩
    show InvCore cfg img (p + 1) p (some f) { st with ls := ls1, an := an1 }
    refine ⟨?_, h.noIgn, ?_, ?_, ?_, ?_, ?_, ?_⟩
    · intro x hx
      show ls1 x = {} ∧ st.sl x = {}
      rw [hls1_other x (by omega)]
      exact h.fresh x (by omega)
    · intro k hk
      have hkf : k ≠ f := by
        intro e; subst e
        rw [hf] at hk
        cases hk with
        | inl x => cases x
        | inr x => cases x
      show an1 k = {}
      rw [han1_other k hkf]; exact h.idle k hk
    · intro k hk
      by_cases hkf : k = f
      · subst hkf
        refine ⟨by show (an1 k).writing = true; simp [an1, hw], ⟨p :: L, ?_, ?_, ?_, ?_⟩, fun hne => absurd rfl hne⟩
        · show Chain (fun x => (ls1 x).more) (an1 k).start (p :: L)
          have : (an1 k).start = p := by simp [an1]
          rw [this]
          refine Chain.cons_iff.2 ⟨rfl, hp0, ?_⟩
          rw [hls1_p]
          refine Chain.frame (fun x hx => ?_) hL.chain
          show (ls1 x).more = (st.ls x).more
          rw [hls1_other x (hLp x hx)]
        · exact List.nodup_cons.2 ⟨fun hm => hLp p hm rfl, hL.nodup⟩
        · intro x hx
          cases hx with
          | head => omega
          | tail _ hx => have := hL.range x hx; omega
        · intro x hx
          show (ls1 x).freed = false ∧ (ls1 x).owner = (k : Int)
          cases hx with
          | head => rw [hls1_p, hfreshp.1]; exact ⟨rfl, rfl⟩
          | tail _ hx => rw [hls1_other x (hLp x hx)]; exact hL.slots x hx
      · obtain ⟨hwk, ⟨Lk, hLk⟩, hsk⟩ := h.loading k hk
        refine ⟨by show (an1 k).writing = true; rw [han1_other k hkf]; exact hwk,
          ⟨Lk, hLk.transfer (by show (an1 k).start = _; rw [han1_other k hkf]) (by omega) ?_⟩,
          fun _ => by show (an1 k).sfs = 0 ∨ _ < (an1 k).sfs; rw [han1_other k hkf]; exact hsk (by simp)⟩
        intro x hx
        have h1 : x ≠ p := by have := (hLk.range x hx).2; omega
        show (ls1 x).more = _ ∧ (ls1 x).freed = _ ∧ (ls1 x).owner = _
        rw [hls1_other x h1]
        exact ⟨rfl, rfl, rfl⟩
    · intro k hk
      have hkf : k ≠ f := by
        intro e; subst e
        rw [hf] at hk; cases hk
      obtain ⟨hwk, C, hC⟩ := h.loaded k hk
      have hCp : ∀ x ∈ C, x ≠ p := fun x hx => by have := (hC.range x hx).2; omega
      refine ⟨by show (an1 k).writing = false; rw [han1_other k hkf]; exact hwk, C,
        hC.transfer (han1_other k hkf) rfl (Int.le_refl _) ?_ ?_ ?_⟩
      · intro x hx
        exact ⟨rfl, by show (ls1 x).finalized = true; rw [(hfin x).1]; exact hC.fin x hx⟩
      · intro x hx; show (ls1 x).mapped = true; rw [(hfin x).2.1]; exact (hC.cells x hx).1
      · intro _ x hx a b c
        exact ⟨by show (ls1 x).owner = _; rw [(hfin x).2.2.2 (hCp x hx)]; exact a,
          by show (ls1 x).freed = _; rw [(hfin x).2.2.1]; exact b, c⟩
    · refine disj_transfer h.disj ?_
      intro k hk
      have hkf : k ≠ f := by
        intro e; subst e
        have hk' : (st.le k).state = .loaded := hk
        rw [hf] at hk'; cases hk'
      obtain ⟨_, C, hC⟩ := h.loaded k hk
      exact ⟨hk, by show (an1 k).start = _; rw [han1_other k hkf], C, hC.chain, hC.chain⟩
    · intro x hx
      show (ls1 x).freed = true ∨ (ls1 x).finalized = true
      rw [(hfin x).1, (hfin x).2.2.1]; exact h.fz x hx
    · intro x hx
      have hx' : (ls1 x).mapped = true := hx
      rw [(hfin x).2.1] at hx'
      have hxp : x ≠ p := by
        intro e; subst e; rw [hfreshp.1] at hx'; cases hx'
      obtain ⟨hd, hu, ho, hs⟩ := h.disk x hx'
      refine ⟨hd, hu, by show (ls1 x).owner = _; rw [(hfin x).2.2.2 hxp]; exact ho, ?_⟩
      intro hf'
      have hf'' : (ls1 x).finalized = false := hf'
      rw [(hfin x).1] at hf''
      exact hs hf''

end SquidModel.Rock

namespace SquidModel.Rock

variable {A : Allow}

/-! ### addSlotToEntry -/

/-- the state in the middle of addSlotToEntry: slot `p` is chained into the Loading entry `f` and counted in its size -/
structure Mid (cfg : Cfg) (img : List RawSlot) (g : Geo) (p : Int) (f : Nat) (hd : Header) (st : St) : Prop where
  core : InvCore cfg img (p + 1) p (some f) st
  tight : Tight (some f) g.entries st
  loading : (st.le f).state = .loading
  room : p + 1 ≤ g.slots
  p0 : 0 ≤ p
  cell : usableAt cfg img p = some hd
  owner : (st.ls p).owner = (fileOf cfg img hd : Int)
  pown : (st.ls p).owner = (f : Int)
  start0 : 0 ≤ (st.an f).start
  sized : 0 < (st.le f).size
  unmapped : (st.ls p).mapped = false
  unfreed : (st.ls p).freed = false
  fr : FreeOK cfg img (p + 1) st
  pr : Own cfg img → ProcCore cfg img p (some f) st
  psize : Own cfg img → ∀ pL L, LoadingWith pL st f L → (st.le f).size = sumOn (payAt cfg img) L

/-- the invariant between two slots -/
structure InvT (cfg : Cfg) (img : List RawSlot) (g : Geo) (pos : Int) (st : St) : Prop where
  core : Inv cfg img pos st
  tight : Tight none g.entries st
  fr : FreeOK cfg img pos st
  pr : Own cfg img → ProcCore cfg img pos none st

theorem Mid.freeBad {cfg : Cfg} {g : Geo} {p : Int} {f : Nat} {st : St} (h : Mid cfg img g p f hd st)
    (hA : A.pushed = true ∨ Own cfg img) :
    Sat A (freeBadEntry g p st f) (fun st' => InvT cfg img g (p + 1) st' ∧ (st'.an f).sfs = 0) := by
  refine Sat.mono (freeBad_inv h.core h.tight h.loading h.room (Int.le_refl _) (Or.inr h.sized) h.fr hA h.pr) ?_
  rintro st' ⟨hc, ht, hfo, hs, hz, hpr', hfreed, _⟩
  have hnl : (st'.le f).state = .loading → False := by intro hl; rw [hs] at hl; cases hl
  refine ⟨⟨(hc.mono (by omega)).close (fun hl => (hnl hl).elim), ht.close (fun hl => (hnl hl).elim), hfo, ?_⟩, hz⟩
  intro ho
  exact ((hpr' ho).extend (Or.inl (hfreed ho p h.pown))).close (fun hl => (hnl hl).elim)

theorem upd_self {α β : Type} [DecidableEq α] (f : α → β) (k : α) : f = upd f k (f k) := by
  funext x
  by_cases hx : x = k
  · subst hx; simp
  · simp [upd_other _ _ _ _ hx]

/-- a LoadingWith list can be read before or after changes to LoadingEntry/anchor fields other than the chain start -/
theorem LoadingWith.congr {pL : Int} {st st' : St} {f : Nat} {L : List Int} (h : LoadingWith pL st' f L)
    (hls : st'.ls = st.ls) (hstart : (st'.an f).start = (st.an f).start) : LoadingWith pL st f L :=
  h.transfer hstart.symm (Int.le_refl _) (fun x _ => by rw [hls]; exact ⟨rfl, rfl, rfl⟩)

theorem Mid.setLe {cfg : Cfg} {g : Geo} {p : Int} {f : Nat} {st : St} (h : Mid cfg img g p f hd st) (e : LEntry)
    (he : e.state = .loading) (hes : e.size = (st.le f).size) : Mid cfg img g p f hd { st with le := upd st.le f e } := by
  obtain ⟨hw, _, _⟩ := h.core.loading f h.loading
  have hne : (st.le f).state ≠ .empty := by rw [h.loading]; decide
  have hst : ∀ k, ((upd st.le f e) k).state = (st.le k).state := by
    intro k
    by_cases hk : k = f
    · subst hk; rw [upd_same, he, h.loading]
    · rw [upd_other _ _ _ _ hk]
  refine ⟨h.core.tweak (e := e) (a := st.an f) h.loading he hw rfl (fun hne => absurd rfl hne) rfl (upd_self _ _) rfl rfl rfl,
    h.tight.tweak (e := e) (a := st.an f) hne he (fun _ => h.start0) (fun hne' => absurd rfl hne') rfl (upd_self _ _),
    ?_, h.room, h.p0, h.cell, h.owner, h.pown, h.start0, ?_, h.unmapped, h.unfreed,
    h.fr.relabel (e := e) hne (by rw [he]; decide) (fun _ => h.loading) rfl (fun _ => ⟨rfl, rfl⟩) rfl, ?_, ?_⟩
  · show (upd st.le f e f).state = .loading
    simpa using he
  · show 0 < (upd st.le f e f).size
    rw [upd_same, hes]; exact h.sized
  · intro ho
    refine (h.pr ho).same hst ?_ (fun _ => rfl) (fun _ => ⟨rfl, rfl, rfl, rfl, id⟩)
    intro k hk
    have hkf : k ≠ f := fun e' => hk (by rw [e'])
    show ((upd st.le f e) k).size = _
    rw [upd_other _ _ _ _ hkf]
  · intro ho pL L hL
    show ((upd st.le f e) f).size = _
    rw [upd_same, hes]
    exact h.psize ho pL L (hL.congr rfl rfl)

theorem Mid.setAn {cfg : Cfg} {g : Geo} {p : Int} {f : Nat} {st : St} (h : Mid cfg img g p f hd st) (a : Anchor)
    (ha : a.writing = true) (has : a.start = (st.an f).start) : Mid cfg img g p f hd { st with an := upd st.an f a } := by
  have hne : (st.le f).state ≠ .empty := by rw [h.loading]; decide
  have hstart : ∀ k, ((upd st.an f a) k).start = (st.an k).start := by
    intro k
    by_cases hk : k = f
    · subst hk; rw [upd_same, has]
    · rw [upd_other _ _ _ _ hk]
  refine ⟨h.core.tweak (e := st.le f) (a := a) h.loading h.loading ha has (fun hne => absurd rfl hne) (upd_self _ _) rfl rfl rfl rfl,
    h.tight.tweak (e := st.le f) (a := a) hne h.loading (fun _ => by rw [has]; exact h.start0) (fun hne' => absurd rfl hne')
      (upd_self _ _) rfl,
    h.loading, h.room, h.p0, h.cell, h.owner, h.pown, ?_, h.sized, h.unmapped, h.unfreed,
    h.fr.same (fun _ => rfl) (fun _ => ⟨rfl, rfl⟩) rfl, ?_, ?_⟩
  · show 0 ≤ (upd st.an f a f).start
    rw [upd_same, has]; exact h.start0
  · intro ho
    exact (h.pr ho).same (fun _ => rfl) (fun _ _ => rfl) hstart (fun _ => ⟨rfl, rfl, rfl, rfl, id⟩)
  · intro ho pL L hL
    exact h.psize ho pL L (hL.congr rfl (hstart f))

theorem Mid.setCnt {cfg : Cfg} {g : Geo} {p : Int} {f : Nat} {st : St} (h : Mid cfg img g p f hd st) (c : Counts) :
    Mid cfg img g p f hd { st with cnt := c } :=
  ⟨h.core.congr rfl rfl rfl rfl rfl, h.tight.same rfl rfl, h.loading, h.room, h.p0, h.cell, h.owner, h.pown, h.start0, h.sized,
   h.unmapped, h.unfreed, h.fr.same (fun _ => rfl) (fun _ => ⟨rfl, rfl⟩) rfl,
   fun ho => (h.pr ho).same (fun _ => rfl) (fun _ _ => rfl) (fun _ => rfl) (fun _ => ⟨rfl, rfl, rfl, rfl, id⟩),
   fun ho pL L hL => h.psize ho pL L (hL.congr rfl rfl)⟩

theorem InvT.setCnt {cfg : Cfg} {g : Geo} {p : Int} {st : St} (h : InvT cfg img g p st) (c : Counts) :
    InvT cfg img g p { st with cnt := c } :=
  ⟨InvCore.congr h.core rfl rfl rfl rfl rfl, h.tight.same rfl rfl, h.fr.same (fun _ => rfl) (fun _ => ⟨rfl, rfl⟩) rfl,
   fun ho => (h.pr ho).same (fun _ => rfl) (fun _ _ => rfl) (fun _ => rfl) (fun _ => ⟨rfl, rfl, rfl, rfl, id⟩)⟩

theorem slotOk_self {g : Geo} {p : Int} (hp0 : 0 ≤ p) (hroom : p + 1 ≤ g.slots) : slotOk g p p = true := by
  simp only [slotOk, Bool.and_eq_true, decide_eq_true_eq]; omega

theorem addTail_sat {cfg : Cfg} {g : Geo} {p : Int} {f : Nat} {st : St} {hd : Header} (h : Mid cfg img g p f hd st)
    (hA : A.pushed = true ∨ Own cfg img) :
    Sat A (addSlotToEntry.addTail cfg g p st f p hd)
      (fun st' => InvT cfg img g (p + 1) st' ∧ ((st'.an f).sfs = 0 ∨ (st'.an f).sfs = (st.an f).sfs)) := by
  unfold addSlotToEntry.addTail
  by_cases hover : (st.an f).sfs > 0 ∧ (st.le f).size > (st.an f).sfs
  · simp only [hover, and_self, if_true]
    exact Sat.mono (h.freeBad hA) (fun st' hp => ⟨hp.1, Or.inl hp.2⟩)
  · simp only [hover, if_false]
    refine Sat.bind (mapSlot_sat g p st p hd (slotOk_self h.p0 h.room) h.unmapped h.unfreed) ?_
    intro st1 hm
    have hc1 : InvCore cfg img (p + 1) p (some f) st1 := h.core.mapSlot hm h.cell h.owner
    have ht1 : Tight (some f) g.entries st1 := h.tight.same hm.le hm.an
    have hfo1 : FreeOK cfg img (p + 1) st1 := by
      refine h.fr.same (fun k => by rw [hm.le]) ?_ hm.free
      intro x
      rw [hm.ls]
      by_cases hx : x = p
      · subst hx; simp
      · simp [upd_other _ _ _ _ hx]
    have hpr1 : Own cfg img → ProcCore cfg img (p + 1) (some f) st1 :=
      fun ho => (h.pr ho).mapped hm h.loading h.pown h.p0
    have hmore1 : ∀ x, (st1.ls x).more = (st.ls x).more ∧ (st1.ls x).freed = (st.ls x).freed ∧ (st1.ls x).owner = (st.ls x).owner := by
      intro x
      rw [hm.ls]
      by_cases hx : x = p
      · subst hx; simp
      · simp [upd_other _ _ _ _ hx]
    have hps1 : Own cfg img → ∀ pL L, LoadingWith pL st1 f L → (st1.le f).size = sumOn (payAt cfg img) L := by
      intro ho pL L hL
      rw [hm.le]
      refine h.psize ho pL L (hL.transfer (by rw [hm.an]) (Int.le_refl _) (fun x _ => ?_))
      exact ⟨(hmore1 x).1.symm, (hmore1 x).2.1.symm, (hmore1 x).2.2.symm⟩
    have hl1 : (st1.le f).state = .loading := by rw [hm.le]; exact h.loading
    have hle : st1.le f = st.le f := by rw [hm.le]
    have han : st1.an f = st.an f := by rw [hm.an]
    by_cases hfull : (st.an f).sfs > 0 ∧ (st1.le f).size = (st.an f).sfs
    · simp only [hfull, and_self, if_true]
      refine Sat.mono (finalizeOrFree_inv (pC' := p + 1) hc1 ht1 hl1 h.room ?_ (by omega) (by omega) ?_ (Int.le_refl _)
        (Or.inr (by rw [hle]; exact h.sized)) hfo1 hA hpr1 hps1) ?_
      · intro x hx
        simp only [slotOk, Bool.and_eq_true, decide_eq_true_eq] at hx
        omega
      · right; rw [han, hfull.2]; exact Nat.le_refl _
      · rintro st' ⟨hc, ht, hfo, hs, hz, hpr', _⟩
        refine ⟨⟨hc.close (fun hl => absurd hl hs), ht.close (fun hl => absurd hl hs), hfo,
          fun ho => (hpr' ho).close (fun hl => absurd hl hs)⟩, ?_⟩
        rw [han] at hz
        rcases hz with hz | hz | hz
        · exact Or.inl hz
        · have := hfull.1; omega
        · exact Or.inr hz
    · simp only [hfull, if_false]
      refine Sat.pure ⟨⟨(hc1.mono (by omega)).close ?_, ht1.close (fun _ => Or.inr (by rw [hle]; exact h.sized)), hfo1,
        fun ho => (hpr1 ho).close (fun _ => hps1 ho)⟩, Or.inr (by rw [han])⟩
      intro _
      rw [han, hle]
      rw [hle] at hfull
      omega

theorem addSlotToEntry_sat {cfg : Cfg} {g : Geo} {p : Int} {f : Nat} {st : St} {hd : Header} {m : Meta}
    (h : InvT cfg img g p st) (hf : (st.le f).state = .loading) (hroom : p + 1 ≤ g.slots) (hp0 : 0 ≤ p)
    (hu : usableAt cfg img p = some hd) (hfile : f = fileOf cfg img hd)
    (hA : A.pushed = true ∨ Own cfg img) (hAll : A.allOnes = true ∨ cfg.v.rejectsAllOnesSizes = true) :
    Sat A (addSlotToEntry cfg g p st f p hd m)
      (fun st' => InvT cfg img g (p + 1) st' ∧
        (cfg.v.rejectsAllOnesSizes = true → (st.an f).sfs ≠ allOnes → (st'.an f).sfs ≠ allOnes)) := by
  have hne : (st.le f).state ≠ .empty := by rw [hf]; decide
  have hz1 : (0 : Nat) ≠ allOnes := by decide
  unfold addSlotToEntry
  refine Sat.check (by simpa using h.tight.bound f hne) ?_
  refine Sat.check (h.core.loading f hf).1 ?_
  refine Sat.bind (chainSlot_sat h.core h.tight hf hp0 hroom h.fr h.pr) ?_
  rintro st1 ⟨hc1, ht1, hfo1, hpr1, hsum1, hle1, hsfs1, hown1, hum1, huf1, hst1⟩
  have hpay := usableAt_payload_pos hu
  -- results of the two ways the function ends
  have bad : ∀ {stx : St} (_ : Mid cfg img g p f hd stx),
      Sat A (freeBadEntry g p stx f) (fun st' => InvT cfg img g (p + 1) st' ∧
        (cfg.v.rejectsAllOnesSizes = true → (st.an f).sfs ≠ allOnes → (st'.an f).sfs ≠ allOnes)) := by
    intro stx hm
    refine Sat.mono (hm.freeBad hA) ?_
    rintro st' ⟨hi, hz⟩
    exact ⟨hi, fun _ _ => by rw [hz]; exact hz1⟩
  have tail : ∀ {stx : St} (_ : Mid cfg img g p f hd stx),
      (cfg.v.rejectsAllOnesSizes = true → (st.an f).sfs ≠ allOnes → (stx.an f).sfs ≠ allOnes) →
      Sat A (addSlotToEntry.addTail cfg g p stx f p hd) (fun st' => InvT cfg img g (p + 1) st' ∧
        (cfg.v.rejectsAllOnesSizes = true → (st.an f).sfs ≠ allOnes → (st'.an f).sfs ≠ allOnes)) := by
    intro stx hm hsx
    refine Sat.mono (addTail_sat hm hA) ?_
    rintro st' ⟨hi, hz⟩
    refine ⟨hi, fun hr hs => ?_⟩
    cases hz with
    | inl e => rw [e]; exact hz1
    | inr e => rw [e]; exact hsx hr hs
  have hl1 : (st1.le f).state = .loading := by rw [hle1]; exact hf
  have hw1 := (hc1.loading f hl1).1
  -- the size update establishes the middle state
  have hmid2 : Mid cfg img g p f hd
      { st1 with le := upd st1.le f { st1.le f with size := (st1.le f).size + hd.payloadSize } } := by
    have hne1 : (st1.le f).state ≠ .empty := by rw [hl1]; decide
    refine ⟨hc1.tweak (e := { st1.le f with size := (st1.le f).size + hd.payloadSize }) (a := st1.an f) hl1 hl1 hw1 rfl
        (fun hne' => absurd rfl hne') rfl (upd_self _ _) rfl rfl rfl,
      ht1.tweak (e := { st1.le f with size := (st1.le f).size + hd.payloadSize }) (a := st1.an f) hne1 hl1 (fun _ => hst1)
        (fun hne' => absurd rfl hne') rfl (upd_self _ _),
      ?_, hroom, hp0, hu, by rw [hfile] at hown1; exact hown1, hown1, hst1, ?_, hum1, huf1,
      hfo1.relabel (e := { st1.le f with size := (st1.le f).size + hd.payloadSize }) hne1 (by rw [hl1]; decide)
        (fun _ => hl1) rfl (fun _ => ⟨rfl, rfl⟩) rfl, ?_, ?_⟩
    · show (upd st1.le f _ f).state = .loading
      simpa using hl1
    · show 0 < (upd st1.le f _ f).size
      simp only [upd_same]; omega
    · intro ho
      refine (hpr1 ho).same ?_ ?_ (fun _ => rfl) (fun _ => ⟨rfl, rfl, rfl, rfl, id⟩)
      · intro k
        by_cases hk : k = f
        · subst hk; show ((upd st1.le k _) k).state = _; rw [upd_same]
        · show ((upd st1.le f _) k).state = _; rw [upd_other _ _ _ _ hk]
      · intro k hk
        have hkf : k ≠ f := fun e' => hk (by rw [e'])
        show ((upd st1.le f _) k).size = _
        rw [upd_other _ _ _ _ hkf]
    · -- the size update re-establishes "size = sum of the payload sizes of the list"
      intro ho pL L' hL'
      obtain ⟨_, ⟨L0, hL0⟩, _⟩ := h.core.loading f hf
      have hL1 : LoadingWith pL st1 f L' := hL'.congr rfl rfl
      show ((upd st1.le f _) f).size = _
      rw [upd_same, hsum1 L0 hL0 pL L' hL1 (payAt cfg img)]
      have hold := (h.pr ho).sizes f hf (by simp) p L0 hL0
      have hpay : payAt cfg img p = hd.payloadSize := by simp only [payAt, hu]
      show (st1.le f).size + hd.payloadSize = _
      rw [hle1, hold, hpay]; omega
  simp only
  by_cases hino : hd.firstSlot = p
  · simp only [hino, if_true]
    by_cases hanch : ((upd st1.le f { st1.le f with size := (st1.le f).size + hd.payloadSize }) f).anchored = true
    · simp only [hanch, if_true]
      refine Sat.bind (bad hmid2) ?_
      intro st3 h3
      exact Sat.pure ⟨h3.1.setCnt _, h3.2⟩
    · simp only [hanch, if_false, Bool.false_eq_true]
      have hmid3 := hmid2.setLe
        { (upd st1.le f { st1.le f with size := (st1.le f).size + hd.payloadSize }) f with anchored := true }
        (by simpa using hl1) rfl
      split
      · -- importEntry failed
        exact bad (hmid3.setCnt _)
      · rename_i mk sz _ _
        have hw := (hmid3.core.loading f hmid3.loading).1
        have hmid4 := hmid3.setAn { (st1.an f) with key := mk, sfs := sz, validated := false } (by simpa using hw) rfl
        by_cases hrj : (cfg.v.rejectsAllOnesSizes && (hd.entrySize == allOnes || sz == allOnes)) = true
        · rw [if_pos hrj]; exact bad hmid4
        · rw [if_neg hrj]
          -- with the variant's check neither size is all-ones here
          have hclean : cfg.v.rejectsAllOnesSizes = true → hd.entrySize ≠ allOnes ∧ sz ≠ allOnes := by
            intro hr
            simp only [hr, Bool.true_and, Bool.or_eq_true, beq_iff_eq, not_or] at hrj
            exact hrj
          by_cases he0 : hd.entrySize ≠ 0
          · rw [if_pos he0]
            by_cases heA : hd.entrySize = allOnes
            · rw [if_pos heA]
              cases hAll with
              | inl ha => exact Sat.throw ha
              | inr hr => exact absurd heA (hclean hr).1
            · rw [if_neg heA]
              split
              · have hw4 := (hmid4.core.loading f hmid4.loading).1
                refine tail (hmid4.setAn _ (by simpa using hw4) (by simp)) ?_
                intro hr _
                show Anchor.sfs (upd _ f _ f) ≠ allOnes
                simp only [upd_same]
                exact (hclean hr).1
              · split
                · exact bad hmid4
                · refine tail hmid4 ?_
                  intro hr _
                  show Anchor.sfs (upd _ f _ f) ≠ allOnes
                  simp only [upd_same]
                  exact (hclean hr).2
          · rw [if_neg he0]
            refine tail hmid4 ?_
            intro hr _
            show Anchor.sfs (upd _ f _ f) ≠ allOnes
            simp only [upd_same]
            exact (hclean hr).2
  · simp only [hino, if_false]
    refine tail hmid2 ?_
    intro _ hs
    show (st1.an f).sfs ≠ allOnes
    rw [hsfs1]; exact hs

end SquidModel.Rock

namespace SquidModel.Rock

variable {A : Allow}

/-! ### startNewEntry / useNewSlot / loadOneSlot -/

/-- `openForWritingAt` + `primeNewEntry` on an Empty position -/
theorem InvCore.begin {cfg : Cfg} {p : Int} {st st' : St} {f : Nat} {e : LEntry} {a : Anchor} (h : InvCore cfg img p p none st)
    (hf : (st.le f).state = .empty) (he : e.state = .loading) (ha : a.writing = true) (has : a.start = -1) (hsz : a.sfs = 0)
    (hle : st'.le = upd st.le f e) (han : st'.an = upd st.an f a) (hls : st'.ls = st.ls) (hsl : st'.sl = st.sl)
    (hfree : st'.free = st.free) :
    InvCore cfg img p p none st' := by
  have hnext : st'.next = st.next := by funext x; simp [St.next, hsl]
  have hstate : ∀ k, k ≠ f → st'.le k = st.le k := fun k hk => by rw [hle, upd_other _ _ _ _ hk]
  have hanch : ∀ k, k ≠ f → st'.an k = st.an k := fun k hk => by rw [han, upd_other _ _ _ _ hk]
  have hstf : (st'.le f).state = .loading := by rw [hle]; simpa using he
  refine ⟨?_, ?_, ?_, ?_, ?_, ?_, by rw [hfree, hls]; exact h.fz, by rw [hls, hsl]; exact h.disk⟩
  · intro x hx; rw [hls, hsl]; exact h.fresh x hx
  · intro k
    by_cases hk : k = f
    · subst hk; rw [hstf]; decide
    · rw [hstate k hk]; exact h.noIgn k
  · intro k hk
    have hkf : k ≠ f := by
      intro e'; subst e'; rw [hstf] at hk
      cases hk with
      | inl x => cases x
      | inr x => cases x
    rw [hstate k hkf] at hk; rw [hanch k hkf]; exact h.idle k hk
  · intro k hk
    by_cases hkf : k = f
    · subst hkf
      refine ⟨by rw [han]; simpa using ha, ⟨[], ⟨?_, List.nodup_nil, fun x hx => (by cases hx), fun x hx => (by cases hx)⟩⟩,
        fun _ => Or.inl (by rw [han]; simpa using hsz)⟩
      refine Chain.nil_iff.2 ?_
      rw [han]; simp only [upd_same]; omega
    · rw [hstate k hkf] at hk
      obtain ⟨hw, ⟨L, hL⟩, hs⟩ := h.loading k hk
      refine ⟨by rw [hanch k hkf]; exact hw, ⟨L, hL.transfer (by rw [hanch k hkf]) (Int.le_refl _) ?_⟩,
        by rw [hanch k hkf, hstate k hkf]; exact hs⟩
      intro x _; rw [hls]; exact ⟨rfl, rfl, rfl⟩
  · intro k hk
    have hkf : k ≠ f := by
      intro e'; subst e'; rw [hstf] at hk; cases hk
    rw [hstate k hkf] at hk
    obtain ⟨hw, C, hC⟩ := h.loaded k hk
    refine ⟨by rw [hanch k hkf]; exact hw, C, hC.transfer (hanch k hkf) (by rw [hstate k hkf]) (Int.le_refl _) ?_ ?_ ?_⟩
    · intro x hx
      exact ⟨by rw [hsl], by rw [hls]; exact hC.fin x hx⟩
    · intro x hx; rw [hls]; exact (hC.cells x hx).1
    · intro _ x _ a b c
      exact ⟨by rw [hls]; exact a, by rw [hls]; exact b, by rw [hfree]; exact c⟩
  · refine disj_transfer h.disj ?_
    intro k hk
    have hkf : k ≠ f := by
      intro e'; subst e'; rw [hstf] at hk; cases hk
    rw [hstate k hkf] at hk
    obtain ⟨_, C, hC⟩ := h.loaded k hk
    refine ⟨hk, by rw [hanch k hkf], C, hC.chain, ?_⟩
    rw [hnext]; exact hC.chain

theorem startNewEntry_sat {cfg : Cfg} {g : Geo} {p : Int} {f : Nat} {st : St} {hd : Header} {m : Meta}
    (h : InvT cfg img g p st) (hf : (st.le f).state = .empty) (hroom : p + 1 ≤ g.slots) (hp0 : 0 ≤ p)
    (hu : usableAt cfg img p = some hd) (hfile : f = fileOf cfg img hd) (hfe : f < g.entries)
    (hA : A.pushed = true ∨ Own cfg img) (hAll : A.allOnes = true ∨ cfg.v.rejectsAllOnesSizes = true) :
    Sat A (startNewEntry cfg g p st f p hd m) (InvT cfg img g (p + 1)) := by
  have ha : st.an f = {} := h.core.idle f (Or.inl hf)
  unfold startNewEntry
  simp only [ha, Bool.false_eq_true, if_false, keyEmpty, BEq.rfl, Bool.and_self, Bool.not_true, Bool.or_self, Bool.and_false]
  refine Sat.check (by simp) ?_
  simp only [upd_same]
  refine Sat.bind (m := addSlotToEntry cfg g p _ f p hd m)
    (P := fun st' => InvT cfg img g (p + 1) st' ∧ (cfg.v.rejectsAllOnesSizes = true → (st'.an f).sfs ≠ allOnes)) ?_ ?_
  · refine Sat.mono (addSlotToEntry_sat ⟨?_, ?_, ?_, ?_⟩ ?_ hroom hp0 hu hfile hA hAll)
      (fun st' hp => ⟨hp.1, fun hr => hp.2 hr (by simp only [upd_same]; decide)⟩)
    · refine h.core.begin (f := f) (e := { st.le f with state := .loading, version := hd.version, size := 0 })
        (a := { writing := true, key := hd.key, start := -1 }) hf rfl rfl rfl rfl ?_ ?_ rfl rfl rfl
      · rfl
      · show _ = upd st.an f _
        funext k
        by_cases hk : k = f
        · subst hk; simp
        · simp [upd_other _ _ _ _ hk]
    · refine h.tight.begin (f := f) (e := { st.le f with state := .loading, version := hd.version, size := 0 })
        (a := { writing := true, key := hd.key, start := -1 }) hf hfe rfl rfl rfl ?_ ?_
      · rfl
      · show _ = upd st.an f _
        funext k
        by_cases hk : k = f
        · subst hk; simp
        · simp [upd_other _ _ _ _ hk]
    · exact h.fr.begin (f := f) (e := { st.le f with state := .loading, version := hd.version, size := 0 }) hf (by simp) rfl rfl rfl
    · intro ho
      refine (h.pr ho).begin (f := f) (e := { st.le f with state := .loading, version := hd.version, size := 0 })
        (a := { writing := true, key := hd.key, start := -1 }) hf (fun x hx => absurd hf (h.fr.owned x f hx)) rfl rfl ?_ ?_ rfl
      · rfl
      · show _ = upd st.an f _
        funext k
        by_cases hk : k = f
        · subst hk; simp
        · simp [upd_other _ _ _ _ hk]
    · simp
  · rintro st4 ⟨h4, hs4⟩
    cases hAll with
    | inl ha =>
      refine Sat.checkA (by simpa [allowed] using ha) fun _ => ?_
      exact Sat.pure h4
    | inr hr =>
      refine Sat.check (by simpa using hs4 hr) ?_
      exact Sat.pure h4

theorem fresh_flags {cfg : Cfg} {img : List RawSlot} {pL pC : Int} {ex : Option Nat} {st : St} (h : InvCore cfg img pL pC ex st)
    {x : Int} (hx : pL ≤ x) : (st.ls x).mapped = false ∧ (st.ls x).freed = false := by
  rw [(h.fresh x hx).1]; exact ⟨rfl, rfl⟩

/-- `freeUnusedSlot` of the slot being loaded -/
theorem freeUnused_inv {cfg : Cfg} {g : Geo} {pos : Nat} {st : St} {inv : Bool} (h : InvT cfg img g pos st)
    (hroom : pos + 1 ≤ g.slots) :
    Sat A (freeUnusedSlot g pos st pos inv) (InvT cfg img g ((pos : Int) + 1)) := by
  have hf := fresh_flags h.core (x := (pos : Int)) (Int.le_refl _)
  have hnot : (pos : Int) ∉ st.free := fun hm => by have := (h.fr.frange _ hm).2; omega
  refine Sat.mono (freeUnusedSlot_sat g pos st pos inv (slotOk_self (by omega) (by omega)) hf.1 hf.2 (Or.inr hnot)) ?_
  intro st' hp
  exact ⟨InvCore.freeUnused h.core hp, h.tight.same hp.le hp.an, h.fr.freeSlot hp ⟨by omega, by omega⟩ (by omega),
    fun ho => (h.pr ho).freeFresh hp (h.core.fresh _ (Int.le_refl _)).1 (by omega)⟩

theorem useNewSlot_sat {cfg : Cfg} {g : Geo} {pos : Nat} {st : St} {hd : Header} {m : Meta}
    (h : InvT cfg img g pos st) (hroom : pos + 1 ≤ g.slots) (hg : g = cfg.geo img.length)
    (hu : usableAt cfg img (pos : Int) = some hd) (hent : 0 < g.entries)
    (hA : A.pushed = true ∨ Own cfg img) (hAll : A.allOnes = true ∨ cfg.v.rejectsAllOnesSizes = true) :
    Sat A (useNewSlot cfg g pos st pos hd m) (InvT cfg img g ((pos : Int) + 1)) := by
  have hroom' : (pos : Int) + 1 ≤ g.slots := by omega
  have hp0 : (0 : Int) ≤ (pos : Int) := by omega
  have hfile : fileNo g hd.key = fileOf cfg img hd := by rw [hg]; rfl
  have hfe : fileNo g hd.key < g.entries := Nat.mod_lt _ hent
  unfold useNewSlot
  refine Sat.check (by simpa using hfe) ?_
  split
  · rename_i hs; exact startNewEntry_sat h hs hroom' hp0 hu hfile hfe hA hAll
  · rename_i hs
    refine Sat.check (h.core.loading _ hs).1 ?_
    split
    · exact Sat.mono (addSlotToEntry_sat h hs hroom' hp0 hu hfile hA hAll) (fun st' hp => hp.1)
    · refine Sat.bind (freeBad_inv (pos := (pos : Int)) h.core h.tight hs (by omega) (by omega) (h.tight.sized _ hs (by simp)) h.fr hA h.pr) ?_
      rintro st1 ⟨h1, ht1, hfo1, _, _, hpr1, _, _⟩
      refine Sat.bind (freeUnused_inv (inv := true) ⟨h1, ht1, hfo1, hpr1⟩ hroom) ?_
      intro st2 h2
      exact Sat.pure (h2.setCnt _)
  · rename_i hs
    obtain ⟨hw, C, hC⟩ := h.core.loaded _ hs
    have hlen : C.length ≤ g.slots := nodup_inRange_length hC.nodup (hC.range.mono (by omega))
    have hne : (st.le (fileNo g hd.key)).state ≠ .empty := by rw [hs]; decide
    have hpush : A.pushed = true ∨ ∀ x ∈ C, x ∉ st.free := hA.imp id (fun ho x hx => (hC.own ho x hx).2.2)
    refine Sat.bind (mapFreeEntry_sat g _ _ C (by simpa using hw) hC.chain hC.nodup hlen
      (fun x hx => by have := (hC.range x hx).2; omega) (by exact hpush)) ?_
    intro st2 h2
    have hinv2 : InvCore cfg img pos pos none st2 := h.core.mapFree hs hC h2.le h2.an h2.ls h2.sl h2.free
    have ht2 : Tight none g.entries st2 := h.tight.settle hne (Or.inl rfl) h2.le h2.an
    have hfo2 : FreeOK cfg img pos st2 :=
      h.fr.mapFree h2.le h2.ls h2.free hC.range (fun ho x hx => (hC.own ho x hx).1) hne
    have hpr2 : Own cfg img → ProcCore cfg img pos none st2 := by
      intro ho
      refine (h.pr ho).step (f0 := fileNo g hd.key) (fun k hk => by rw [h2.le]; exact upd_other _ _ _ _ hk)
        (fun k hk => by rw [h2.an]; exact upd_other _ _ _ _ hk) (by rw [h2.le]; simp) ?_ ?_ ?_
      · intro x; rw [h2.ls]; exact ⟨rfl, rfl, id, id, id⟩
      · intro x _; rw [h2.ls]; exact ⟨rfl, rfl⟩
      · intro x _ _ _ hl; rw [hs] at hl; cases hl
    refine Sat.bind (freeUnused_inv (inv := true) ⟨hinv2, ht2, hfo2, hpr2⟩ hroom) ?_
    intro st3 h3
    exact Sat.pure (h3.setCnt _)
  · exact freeUnused_inv h hroom
  · exact freeUnused_inv h hroom

theorem loadOneSlot_sat {cfg : Cfg} {g : Geo} {pos : Nat} {st : St} {raw : RawSlot}
    (h : InvT cfg img g pos st) (hroom : pos + 1 ≤ g.slots) (hg : g = cfg.geo img.length) (hget : img[pos]? = some raw)
    (hent : 0 < g.entries) (hA : A.pushed = true ∨ Own cfg img) (hAll : A.allOnes = true ∨ cfg.v.rejectsAllOnesSizes = true) :
    Sat A (loadOneSlot cfg g st pos raw) (InvT cfg img g ((pos : Int) + 1)) := by
  unfold loadOneSlot
  have h0 := h.setCnt { st.cnt with scan := st.cnt.scan + 1 }
  cases raw with
  | truncated => exact freeUnused_inv h0 hroom
  | cell hd m =>
    simp only
    split
    · exact freeUnused_inv h0 hroom
    · rename_i hne
      split
      · exact freeUnused_inv h0 hroom
      · rename_i hsane
        refine useNewSlot_sat h0 hroom hg (usableAt_of_get hget (by simpa using hne) ?_) hent hA hAll
        have : g.slots = img.length := by rw [hg]; rfl
        rw [← this]
        simpa using hsane

theorem loadAll_sat {cfg : Cfg} {img : List RawSlot} {g : Geo} (hg : g = cfg.geo img.length)
    (hent : 0 < g.slots → 0 < g.entries) (hA : A.pushed = true ∨ Own cfg img)
    (hAll : A.allOnes = true ∨ cfg.v.rejectsAllOnesSizes = true) :
    ∀ (rest : List RawSlot) (pos : Nat) (st : St),
    InvT cfg img g pos st → pos + rest.length = g.slots → img.drop pos = rest →
    Sat A (loadAll cfg g rest pos st) (InvT cfg img g g.slots) := by
  intro rest
  induction rest with
  | nil =>
    intro pos st h hl _
    simp only [List.length_nil, Nat.add_zero] at hl
    subst hl
    exact Sat.pure h
  | cons raw rest ih =>
    intro pos st h hl hdrop
    simp only [List.length_cons] at hl
    unfold loadAll
    have hget : img[pos]? = some raw := by
      have : (img.drop pos)[0]? = some raw := by rw [hdrop]; rfl
      simpa using this
    have hdrop' : img.drop (pos + 1) = rest := by
      have : (img.drop pos).drop 1 = rest := by rw [hdrop]; rfl
      simpa [List.drop_drop, Nat.add_comm] using this
    refine Sat.bind (loadOneSlot_sat h (by omega) hg hget (hent (by omega)) hA hAll) ?_
    intro st1 h1
    have h1' : InvT cfg img g ((pos + 1 : Nat) : Int) st1 := by
      have : ((pos + 1 : Nat) : Int) = (pos : Int) + 1 := by omega
      rw [this]; exact h1
    exact ih (pos + 1) st1 h1' (by omega) hdrop'

/-! ### validation -/

theorem validateOneEntry_sat {cfg : Cfg} {g : Geo} {st : St} {f : Nat} (h : InvT cfg img g g.slots st)
    (hA : A.pushed = true ∨ Own cfg img) :
    Sat A (validateOneEntry cfg g st f)
      (fun st' => InvT cfg img g g.slots st' ∧ (st'.le f).state ≠ .loading ∧
        ∀ k, (st.le k).state ≠ .loading → (st'.le k).state ≠ .loading) := by
  unfold validateOneEntry
  have h0 := h.setCnt { st.cnt with validations := st.cnt.validations + 1 }
  simp only
  split
  · rename_i hs
    have hsz := (h0.core.loading f hs).2.2 (by simp)
    refine Sat.mono (finalizeOrFree_inv (pos := (g.slots : Int)) (pC' := g.slots) h0.core h0.tight hs (Int.le_refl _) ?_
      (Int.le_refl _) (Int.le_refl _) ?_ (by omega) (h0.tight.sized f hs (by simp)) h0.fr hA h0.pr
      (fun ho pL L hL => (h0.pr ho).sizes f hs (by simp) pL L hL)) ?_
    · intro x hx
      simp only [slotOk, Bool.and_eq_true, decide_eq_true_eq] at hx
      omega
    · cases hsz with
      | inl e => exact Or.inl e
      | inr e => exact Or.inr (Nat.le_of_lt e)
    · rintro st' ⟨hc, ht, hfo, hnl, _, hpr, hother⟩
      refine ⟨⟨hc, ht, hfo, hpr⟩, hnl, ?_⟩
      intro k hk
      by_cases hkf : k = f
      · subst hkf; exact hnl
      · rw [hother k hkf]; exact hk
  · rename_i hs
    refine Sat.pure ⟨h0, ?_, fun k hk => hk⟩
    intro hl
    exact hs hl

theorem validateEntries_sat {cfg : Cfg} {g : Geo} (hA : A.pushed = true ∨ Own cfg img) :
    ∀ (n f : Nat) (st : St), InvT cfg img g g.slots st → (∀ k, k < f → (st.le k).state ≠ .loading) →
    Sat A (validateEntries cfg g n f st)
      (fun st' => InvT cfg img g g.slots st' ∧ ∀ k, k < f + n → (st'.le k).state ≠ .loading) := by
  intro n
  induction n with
  | zero => intro f st h hdone; exact Sat.pure ⟨h, by simpa using hdone⟩
  | succ n ih =>
    intro f st h hdone
    unfold validateEntries
    refine Sat.bind (validateOneEntry_sat h hA) ?_
    rintro st1 ⟨h1, hf1, hkeep⟩
    refine Sat.mono (ih (f + 1) st1 h1 ?_) ?_
    · intro k hk
      by_cases hkf : k = f
      · subst hkf; exact hf1
      · exact hkeep k (hdone k (by omega))
    · rintro st' ⟨h', hd'⟩
      exact ⟨h', fun k hk => hd' k (by omega)⟩

theorem validateSlots_sat {cfg : Cfg} {g : Geo} (hU : A.unprocessed = true ∨ Own cfg img) :
    ∀ (n s : Nat) (st : St), InvT cfg img g g.slots st → s + n = g.slots → (∀ k, (st.le k).state ≠ .loading) →
    Sat A (validateSlots g n s st) (InvT cfg img g g.slots) := by
  intro n
  induction n with
  | zero => intro s st h _ _; exact Sat.pure h
  | succ n ih =>
    intro s st h hs hnl
    unfold validateSlots
    refine Sat.bind (m := validateOneSlot g st s)
      (P := fun st1 => InvT cfg img g g.slots st1 ∧ ∀ k, (st1.le k).state ≠ .loading) ?_
      (fun st1 h1 => ih (s + 1) st1 h1.1 (by omega) h1.2)
    unfold validateOneSlot
    refine Sat.check (by simp only [slotOk, Bool.and_eq_true, decide_eq_true_eq]; omega) ?_
    cases hU with
    | inl hu =>
      refine Sat.checkA (by simpa [allowed] using hu) fun _ => ?_
      exact Sat.pure ⟨h.setCnt _, hnl⟩
    | inr ho =>
      refine Sat.check ?_ (Sat.pure ⟨h.setCnt _, hnl⟩)
      rcases (h.pr ho).done (s : Int) (by omega) (by omega) with a | ⟨a, b⟩ | ⟨k, _, b, _⟩
      · simp [a]
      · simp [a, b]
      · exact absurd b (hnl k)

/-- the whole rebuild: it either dies in one of the ways `A` tolerates or ends in a state satisfying the invariant -/
theorem rebuild_sat (cfg : Cfg) (habs : 0 < cfg.k.entryLimitAbsolute) (img : List RawSlot)
    (hA : A.pushed = true ∨ Own cfg img) (hAll : A.allOnes = true ∨ cfg.v.rejectsAllOnesSizes = true)
    (hU : A.unprocessed = true ∨ cfg.doubleCheck = false ∨ Own cfg img) :
    Sat A (rebuild cfg img) (InvT cfg img (cfg.geo img.length) (cfg.geo img.length).slots) := by
  unfold rebuild
  simp only
  have hent : 0 < (cfg.geo img.length).slots → 0 < (cfg.geo img.length).entries := by
    intro h
    simp only [Cfg.geo] at h ⊢
    omega
  refine Sat.bind (loadAll_sat rfl hent hA hAll img 0 St.init
    ⟨inv_init cfg img, tight_init _, freeOK_init cfg img, fun _ => procCore_init cfg img⟩ (by simp [Cfg.geo]) (by simp)) ?_
  intro st1 h1
  refine Sat.bind (validateEntries_sat hA _ 0 st1 h1 (fun k hk => by omega)) ?_
  rintro st2 ⟨h2, hdone⟩
  -- no entry is Loading any more: positions below the entry limit were validated, the others were never touched
  have hnl : ∀ k, (st2.le k).state ≠ .loading := by
    intro k hl
    have hne : (st2.le k).state ≠ .empty := by rw [hl]; decide
    have hk := h2.tight.bound k hne
    exact hdone k (by omega) hl
  split
  · rename_i hdc
    rcases hU with hu | hu | hu
    · exact validateSlots_sat (Or.inl hu) _ 0 st2 h2 (by simp) hnl
    · rw [hu] at hdc; cases hdc
    · exact validateSlots_sat (Or.inr hu) _ 0 st2 h2 (by simp) hnl
  · exact Sat.pure h2

end SquidModel.Rock
