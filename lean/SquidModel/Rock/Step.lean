/-
One slot of the loading loop preserves the invariant (or crashes, never by running out of fuel).
-/
import SquidModel.Rock.Invariant

namespace SquidModel.Rock

theorem InvCore.congr {cfg : Cfg} {pL pC : Int} {ex : Option Nat} {st st' : St} (h : InvCore cfg img pL pC ex st)
    (hle : st'.le = st.le) (hls : st'.ls = st.ls) (han : st'.an = st.an) (hsl : st'.sl = st.sl) (hfree : st'.free = st.free) :
    InvCore cfg img pL pC ex st' :=
  ⟨by rw [hls, hsl]; exact h.fresh, by rw [hle]; exact h.noIgn, by rw [hle, han]; exact h.idle,
   by
     intro f hf
     rw [hle] at hf
     obtain ⟨hw, ⟨L, hL⟩, hs⟩ := h.loading f hf
     exact ⟨by rw [han]; exact hw, ⟨L, hL.transfer (by rw [han]) (Int.le_refl _) (fun x _ => by rw [hls]; exact ⟨rfl, rfl, rfl⟩)⟩,
       by rw [han, hle]; exact hs⟩,
   by
     intro f hf
     rw [hle] at hf
     obtain ⟨hw, C, hC⟩ := h.loaded f hf
     exact ⟨by rw [han]; exact hw, C, hC.transfer (by rw [han]) (by rw [hle]) (Int.le_refl _)
       (fun x hx => ⟨by rw [hsl], by rw [hls]; exact hC.fin x hx⟩) (fun x hx => by rw [hls]; exact (hC.cells x hx).1)
       (fun _ x _ a b c => ⟨by rw [hls]; exact a, by rw [hls]; exact b, by rw [hfree]; exact c⟩)⟩,
   by
     have hnext : st'.next = st.next := by funext x; simp [St.next, hsl]
     rw [hle, han, hnext]; exact h.disj,
   by rw [hfree, hls]; exact h.fz, by rw [hls, hsl]; exact h.disk⟩

theorem InvCore.mono {cfg : Cfg} {pL pC pC' : Int} {ex : Option Nat} {st : St} (h : InvCore cfg img pL pC ex st) (hp : pC ≤ pC') :
    InvCore cfg img pL pC' ex st :=
  ⟨h.fresh, h.noIgn, h.idle, h.loading,
   fun f hf => ⟨(h.loaded f hf).1, (h.loaded f hf).2.choose,
     (h.loaded f hf).2.choose_spec.transfer rfl rfl hp (fun x hx => ⟨rfl, (h.loaded f hf).2.choose_spec.fin x hx⟩)
       (fun x hx => ((h.loaded f hf).2.choose_spec.cells x hx).1) (fun _ x _ a b c => ⟨a, b, c⟩)⟩,
   h.disj, h.fz, h.disk⟩

/-- entering the exempt mode is a weakening -/
theorem InvCore.exempt {cfg : Cfg} {pL pC : Int} {ex : Option Nat} {st : St} (h : InvCore cfg img pL pC none st) :
    InvCore cfg img pL pC ex st :=
  ⟨h.fresh, h.noIgn, h.idle, fun f hf => ⟨(h.loading f hf).1, (h.loading f hf).2.1, fun _ => (h.loading f hf).2.2 (by simp)⟩,
   h.loaded, h.disj, h.fz, h.disk⟩

/-- leaving it needs the size clause of the exempt entry (if that is still Loading) -/
theorem InvCore.close {cfg : Cfg} {pL pC : Int} {f : Nat} {st : St} (h : InvCore cfg img pL pC (some f) st)
    (hs : (st.le f).state = .loading → (st.an f).sfs = 0 ∨ (st.le f).size < (st.an f).sfs) : InvCore cfg img pL pC none st := by
  refine ⟨h.fresh, h.noIgn, h.idle, fun k hk => ⟨(h.loading k hk).1, (h.loading k hk).2.1, fun _ => ?_⟩, h.loaded, h.disj,
    h.fz, h.disk⟩
  by_cases hkf : k = f
  · subst hkf; exact hs hk
  · exact (h.loading k hk).2.2 (by simpa using fun e => hkf e.symm)

theorem loadingWith_length {pL : Int} {st : St} {f : Nat} {L : List Int} {n : Nat} (h : LoadingWith pL st f L) (hp : pL ≤ n) :
    L.length ≤ n :=
  nodup_inRange_length h.nodup (h.range.mono hp)

/-! ### freeBadEntry / finalizeOrFree on an entry in the middle of addSlotToEntry (or during validation) -/

theorem freeBad_inv {cfg : Cfg} {g : Geo} {pos pL pC : Int} {ex : Option Nat} {st : St} {f : Nat}
    (h : InvCore cfg img pL pC ex st) (hf : (st.le f).state = .loading) (hpL : pL ≤ g.slots) :
    Sat (freeBadEntry g pos st f) (fun st' => InvCore cfg img pL pC ex st' ∧ (st'.le f).state = .corrupted) := by
  obtain ⟨_, ⟨L, hL⟩, _⟩ := h.loading f hf
  refine Sat.mono (freeBadEntry_sat g pos st f L hL.chain (loadingWith_length hL hpL)) ?_
  intro st' hp
  exact ⟨h.freeBad hf hL hp.le hp.an hp.sl hp.ls hp.free, by rw [hp.le]; simp⟩

theorem finalizeOrFree_inv {cfg : Cfg} {g : Geo} {pos pL pC pC' : Int} {ex : Option Nat} {st : St} {f : Nat}
    (h : InvCore cfg img pL pC ex st) (hf : (st.le f).state = .loading) (hpL : pL ≤ g.slots)
    (hb : ∀ x, slotOk g pos x = true → x < pL ∧ x < pC') (hpc : pC ≤ pC') (hcl : pC ≤ pL)
    (hsz : (st.an f).sfs = 0 ∨ (st.le f).size ≤ (st.an f).sfs) :
    Sat (finalizeOrFree cfg g pos st f) (fun st' => InvCore cfg img pL pC' ex st' ∧ (st'.le f).state ≠ .loading) := by
  obtain ⟨_, ⟨L, hL⟩, _⟩ := h.loading f hf
  refine Sat.mono (finalizeOrFree_sat cfg g pos st f L hL.chain (loadingWith_length hL hpL)) ?_
  rintro st' ⟨C, hok | hfr⟩
  · exact ⟨h.finalized hf hok hb hpc hsz, by rw [hok.le]; simp⟩
  · -- the walk marked C, then the entry was freed
    let stM : St := { st with ls := SquidModel.Rock.markFinal st.ls C }
    have hCp : ∀ x ∈ C, x < pL := by
      intro x hx
      exact (hb x (hfr.marked x hx)).1
    have hM : InvCore cfg img pL pC ex stM := h.markFinal (st' := stM) rfl rfl rfl rfl rfl hCp hcl
    have hLM : LoadingWith pL stM f L := hL.transfer rfl (Int.le_refl _) (by
      intro x _
      show ((SquidModel.Rock.markFinal st.ls C) x).more = _ ∧ ((SquidModel.Rock.markFinal st.ls C) x).freed = _ ∧
        ((SquidModel.Rock.markFinal st.ls C) x).owner = _
      by_cases hx : x ∈ C <;> simp [SquidModel.Rock.markFinal, hx])
    have := hM.freeBad (st' := st') hf hLM hfr.le hfr.an hfr.sl hfr.ls hfr.free
    exact ⟨this.mono hpc, by rw [hfr.le]; simp⟩

end SquidModel.Rock

namespace SquidModel.Rock

/-! ### chainSlots -/

theorem chainSlot_sat {cfg : Cfg} {g : Geo} {p : Int} {st : St} {f : Nat}
    (h : InvCore cfg img p p none st) (hf : (st.le f).state = .loading) :
    Sat (chainSlot g p st f p)
      (fun st1 => InvCore cfg img (p + 1) p (some f) st1 ∧ st1.le = st.le ∧ (st1.an f).sfs = (st.an f).sfs ∧
        (st1.ls p).owner = (f : Int) ∧ (st1.ls p).mapped = false ∧ (st1.ls p).freed = false) := by
  obtain ⟨hw, ⟨L, hL⟩, _⟩ := h.loading f hf
  have hfreshp := h.fresh p (Int.le_refl _)
  unfold chainSlot
  refine Sat.check (by decide) fun hokp => ?_
  refine Sat.check (by decide) fun _ => ?_
  have hp0 : 0 ≤ p := by
    simp only [slotOk, Bool.and_eq_true, decide_eq_true_eq] at hokp
    omega
  -- facts shared by both branches
  have hLp : ∀ x ∈ L, x ≠ p := fun x hx => by have := (hL.range x hx).2; omega
  by_cases hanch : (st.le f).anchored = true
  · simp only [hanch, if_true]
    refine Sat.check (by decide) fun hoki => ?_
    have hi0 : 0 ≤ (st.an f).start := by
      simp only [slotOk, Bool.and_eq_true, decide_eq_true_eq] at hoki
      omega
    -- the list starts with the inode
    cases L with
    | nil => have := Chain.nil_iff.1 hL.chain; omega
    | cons ino tail =>
      obtain ⟨hst, _, htail⟩ := Chain.cons_iff.1 hL.chain
      obtain ⟨hino_tail, hnd_tail⟩ := List.nodup_cons.1 hL.nodup
      have hinop : ino ≠ p := hLp ino (List.mem_cons_self ..)
      rw [hst]
      let ls1 := upd st.ls p { st.ls p with more := (st.ls ino).more, owner := (f : Int) }
      let ls2 := upd ls1 ino { ls1 ino with more := p }
      have hls2_other : ∀ x, x ≠ p → x ≠ ino → ls2 x = st.ls x := by
        intro x h1 h2
        simp only [ls2, ls1, upd_other _ _ _ _ h2, upd_other _ _ _ _ h1]
      have hls2_p : ls2 p = { st.ls p with more := (st.ls ino).more, owner := (f : Int) } := by
        simp only [ls2, ls1, upd_other _ _ _ _ (Ne.symm hinop), upd_same]
      have hls2_ino : ls2 ino = { st.ls ino with more := p } := by
        simp only [ls2, ls1, upd_same, upd_other _ _ _ _ hinop]
      have hfin : ∀ x, (ls2 x).finalized = (st.ls x).finalized ∧ (ls2 x).mapped = (st.ls x).mapped ∧
          (ls2 x).freed = (st.ls x).freed ∧ (x ≠ p → (ls2 x).owner = (st.ls x).owner) := by
        intro x
        by_cases h1 : x = ino
        · subst h1; rw [hls2_ino]; exact ⟨rfl, rfl, rfl, fun _ => rfl⟩
        · by_cases h2 : x = p
          · subst h2; rw [hls2_p]; exact ⟨rfl, rfl, rfl, fun e => absurd rfl e⟩
          · rw [hls2_other x h2 h1]; exact ⟨rfl, rfl, rfl, fun _ => rfl⟩
      refine Sat.pure ⟨?_, rfl, rfl, by show (ls2 p).owner = _; rw [hls2_p],
        by show (ls2 p).mapped = _; rw [hls2_p, hfreshp.1], by show (ls2 p).freed = _; rw [hls2_p, hfreshp.1]⟩
      show InvCore cfg img (p + 1) p (some f) { st with ls := ls2 }
      refine ⟨?_, h.noIgn, h.idle, ?_, ?_, ?_, ?_, ?_⟩
      · intro x hx
        have h1 : x ≠ p := by omega
        have h2 : x ≠ ino := by have := (hL.range ino (List.mem_cons_self ..)).2; omega
        show ls2 x = {} ∧ st.sl x = {}
        rw [hls2_other x h1 h2]
        exact h.fresh x (by omega)
      · intro k hk
        by_cases hkf : k = f
        · subst hkf
          refine ⟨hw, ⟨ino :: p :: tail, ?_, ?_, ?_, ?_⟩, fun hne => absurd rfl hne⟩
          · -- the new chain
            show Chain (fun x => (ls2 x).more) (st.an k).start (ino :: p :: tail)
            rw [hst]
            refine Chain.cons_iff.2 ⟨rfl, by omega, ?_⟩
            rw [hls2_ino]
            refine Chain.cons_iff.2 ⟨rfl, hp0, ?_⟩
            rw [hls2_p]
            refine Chain.frame (fun x hx => ?_) htail
            have h1 : x ≠ p := hLp x (List.mem_cons_of_mem _ hx)
            have h2 : x ≠ ino := fun e => hino_tail (e ▸ hx)
            show (ls2 x).more = (st.ls x).more
            rw [hls2_other x h1 h2]
          · refine List.nodup_cons.2 ⟨?_, List.nodup_cons.2 ⟨?_, hnd_tail⟩⟩
            · intro hm
              cases hm with
              | head => exact hinop rfl
              | tail _ hm => exact hino_tail hm
            · intro hm; exact hLp p (List.mem_cons_of_mem _ hm) rfl
          · intro x hx
            cases hx with
            | head => have := hL.range ino (List.mem_cons_self ..); omega
            | tail _ hx =>
              cases hx with
              | head => omega
              | tail _ hx => have := hL.range x (List.mem_cons_of_mem _ hx); omega
          · intro x hx
            show (ls2 x).freed = false ∧ (ls2 x).owner = (k : Int)
            cases hx with
            | head => rw [hls2_ino]; exact hL.slots ino (List.mem_cons_self ..)
            | tail _ hx =>
              cases hx with
              | head => rw [hls2_p, hfreshp.1]; exact ⟨rfl, rfl⟩
              | tail _ hx =>
                have h1 : x ≠ p := hLp x (List.mem_cons_of_mem _ hx)
                have h2 : x ≠ ino := fun e => hino_tail (e ▸ hx)
                rw [hls2_other x h1 h2]
                exact hL.slots x (List.mem_cons_of_mem _ hx)
        · obtain ⟨hwk, ⟨Lk, hLk⟩, hsk⟩ := h.loading k hk
          refine ⟨hwk, ⟨Lk, hLk.transfer rfl (by omega) ?_⟩, fun _ => hsk (by simp)⟩
          intro x hx
          have h1 : x ≠ p := by have := (hLk.range x hx).2; omega
          have h2 : x ≠ ino := by
            intro e
            have a := (hLk.slots x hx).2
            have b := (hL.slots ino (List.mem_cons_self ..)).2
            rw [e, b] at a
            exact ofNat_inj_of_ne hkf a.symm
          show (ls2 x).more = _ ∧ (ls2 x).freed = _ ∧ (ls2 x).owner = _
          rw [hls2_other x h1 h2]
          exact ⟨rfl, rfl, rfl⟩
      · intro k hk
        obtain ⟨hwk, C, hC⟩ := h.loaded k hk
        have hCp : ∀ x ∈ C, x ≠ p := fun x hx => by have := (hC.range x hx).2; omega
        refine ⟨hwk, C, hC.transfer rfl rfl (Int.le_refl _) ?_ ?_ ?_⟩
        · intro x hx
          exact ⟨rfl, by show (ls2 x).finalized = true; rw [(hfin x).1]; exact hC.fin x hx⟩
        · intro x hx; show (ls2 x).mapped = true; rw [(hfin x).2.1]; exact (hC.cells x hx).1
        · intro _ x hx a b c
          exact ⟨by show (ls2 x).owner = _; rw [(hfin x).2.2.2 (hCp x hx)]; exact a,
            by show (ls2 x).freed = _; rw [(hfin x).2.2.1]; exact b, c⟩
      · exact h.disj
      · intro x hx
        show (ls2 x).freed = true ∨ (ls2 x).finalized = true
        rw [(hfin x).1, (hfin x).2.2.1]; exact h.fz x hx
      · intro x hx
        have hx' : (ls2 x).mapped = true := hx
        rw [(hfin x).2.1] at hx'
        have hxp : x ≠ p := by
          intro e; subst e; rw [hfreshp.1] at hx'; cases hx'
        obtain ⟨hd, hu, ho, hs⟩ := h.disk x hx'
        refine ⟨hd, hu, by show (ls2 x).owner = _; rw [(hfin x).2.2.2 hxp]; exact ho, ?_⟩
        intro hf'
        have hf'' : (ls2 x).finalized = false := hf'
        rw [(hfin x).1] at hf''
        exact hs hf''
  · simp only [hanch, if_false, Bool.false_eq_true]
    let ls1 := upd st.ls p { st.ls p with more := (st.an f).start, owner := (f : Int) }
    let an1 := upd st.an f { st.an f with start := p }
    have hls1_other : ∀ x, x ≠ p → ls1 x = st.ls x := fun x hx => by simp only [ls1, upd_other _ _ _ _ hx]
    have hls1_p : ls1 p = { st.ls p with more := (st.an f).start, owner := (f : Int) } := by simp only [ls1, upd_same]
    have han1_other : ∀ k, k ≠ f → an1 k = st.an k := fun k hk => by simp only [an1, upd_other _ _ _ _ hk]
    have hfin : ∀ x, (ls1 x).finalized = (st.ls x).finalized ∧ (ls1 x).mapped = (st.ls x).mapped ∧
        (ls1 x).freed = (st.ls x).freed ∧ (x ≠ p → (ls1 x).owner = (st.ls x).owner) := by
      intro x
      by_cases h2 : x = p
      · subst h2; rw [hls1_p]; exact ⟨rfl, rfl, rfl, fun e => absurd rfl e⟩
      · rw [hls1_other x h2]; exact ⟨rfl, rfl, rfl, fun _ => rfl⟩
    refine Sat.pure ⟨?_, rfl, by simp, by show (ls1 p).owner = _; rw [hls1_p],
      by show (ls1 p).mapped = _; rw [hls1_p, hfreshp.1], by show (ls1 p).freed = _; rw [hls1_p, hfreshp.1]⟩
    show InvCore cfg img (p + 1) p (some f) { st with ls := ls1, an := an1 }
    refine ⟨?_, h.noIgn, ?_, ?_, ?_, ?_, ?_, ?_⟩
    · intro x hx
      show ls1 x = {} ∧ st.sl x = {}
      rw [hls1_other x (by omega)]
      exact h.fresh x (by omega)
    · intro k hk
      have hkf : k ≠ f := by
        intro e; subst e
        rw [hf] at hk
        cases hk with
        | inl x => cases x
        | inr x => cases x
      show an1 k = {}
      rw [han1_other k hkf]; exact h.idle k hk
    · intro k hk
      by_cases hkf : k = f
      · subst hkf
        refine ⟨by show (an1 k).writing = true; simp [an1, hw], ⟨p :: L, ?_, ?_, ?_, ?_⟩, fun hne => absurd rfl hne⟩
        · show Chain (fun x => (ls1 x).more) (an1 k).start (p :: L)
          have : (an1 k).start = p := by simp [an1]
          rw [this]
          refine Chain.cons_iff.2 ⟨rfl, hp0, ?_⟩
          rw [hls1_p]
          refine Chain.frame (fun x hx => ?_) hL.chain
          show (ls1 x).more = (st.ls x).more
          rw [hls1_other x (hLp x hx)]
        · exact List.nodup_cons.2 ⟨fun hm => hLp p hm rfl, hL.nodup⟩
        · intro x hx
          cases hx with
          | head => omega
          | tail _ hx => have := hL.range x hx; omega
        · intro x hx
          show (ls1 x).freed = false ∧ (ls1 x).owner = (k : Int)
          cases hx with
          | head => rw [hls1_p, hfreshp.1]; exact ⟨rfl, rfl⟩
          | tail _ hx => rw [hls1_other x (hLp x hx)]; exact hL.slots x hx
      · obtain ⟨hwk, ⟨Lk, hLk⟩, hsk⟩ := h.loading k hk
        refine ⟨by show (an1 k).writing = true; rw [han1_other k hkf]; exact hwk,
          ⟨Lk, hLk.transfer (by show (an1 k).start = _; rw [han1_other k hkf]) (by omega) ?_⟩,
          fun _ => by show (an1 k).sfs = 0 ∨ _ < (an1 k).sfs; rw [han1_other k hkf]; exact hsk (by simp)⟩
        intro x hx
        have h1 : x ≠ p := by have := (hLk.range x hx).2; omega
        show (ls1 x).more = _ ∧ (ls1 x).freed = _ ∧ (ls1 x).owner = _
        rw [hls1_other x h1]
        exact ⟨rfl, rfl, rfl⟩
    · intro k hk
      have hkf : k ≠ f := by
        intro e; subst e
        rw [hf] at hk; cases hk
      obtain ⟨hwk, C, hC⟩ := h.loaded k hk
      have hCp : ∀ x ∈ C, x ≠ p := fun x hx => by have := (hC.range x hx).2; omega
      refine ⟨by show (an1 k).writing = false; rw [han1_other k hkf]; exact hwk, C,
        hC.transfer (han1_other k hkf) rfl (Int.le_refl _) ?_ ?_ ?_⟩
      · intro x hx
        exact ⟨rfl, by show (ls1 x).finalized = true; rw [(hfin x).1]; exact hC.fin x hx⟩
      · intro x hx; show (ls1 x).mapped = true; rw [(hfin x).2.1]; exact (hC.cells x hx).1
      · intro _ x hx a b c
        exact ⟨by show (ls1 x).owner = _; rw [(hfin x).2.2.2 (hCp x hx)]; exact a,
          by show (ls1 x).freed = _; rw [(hfin x).2.2.1]; exact b, c⟩
    · refine disj_transfer h.disj ?_
      intro k hk
      have hkf : k ≠ f := by
        intro e; subst e
        have hk' : (st.le k).state = .loaded := hk
        rw [hf] at hk'; cases hk'
      obtain ⟨_, C, hC⟩ := h.loaded k hk
      exact ⟨hk, by show (an1 k).start = _; rw [han1_other k hkf], C, hC.chain, hC.chain⟩
    · intro x hx
      show (ls1 x).freed = true ∨ (ls1 x).finalized = true
      rw [(hfin x).1, (hfin x).2.2.1]; exact h.fz x hx
    · intro x hx
      have hx' : (ls1 x).mapped = true := hx
      rw [(hfin x).2.1] at hx'
      have hxp : x ≠ p := by
        intro e; subst e; rw [hfreshp.1] at hx'; cases hx'
      obtain ⟨hd, hu, ho, hs⟩ := h.disk x hx'
      refine ⟨hd, hu, by show (ls1 x).owner = _; rw [(hfin x).2.2.2 hxp]; exact ho, ?_⟩
      intro hf'
      have hf'' : (ls1 x).finalized = false := hf'
      rw [(hfin x).1] at hf''
      exact hs hf''

end SquidModel.Rock

namespace SquidModel.Rock

/-! ### addSlotToEntry -/

/-- the state in the middle of addSlotToEntry: slot `p` is chained into the Loading entry `f` -/
structure Mid (cfg : Cfg) (img : List RawSlot) (g : Geo) (p : Int) (f : Nat) (hd : Header) (st : St) : Prop where
  core : InvCore cfg img (p + 1) p (some f) st
  loading : (st.le f).state = .loading
  room : p + 1 ≤ g.slots
  cell : usableAt cfg img p = some hd
  owner : (st.ls p).owner = (fileOf cfg img hd : Int)

theorem Mid.freeBad {cfg : Cfg} {g : Geo} {p : Int} {f : Nat} {st : St} (h : Mid cfg img g p f hd st) :
    Sat (freeBadEntry g p st f) (Inv cfg img (p + 1)) := by
  refine Sat.mono (freeBad_inv h.core h.loading h.room) ?_
  rintro st' ⟨hc, hs⟩
  refine (hc.mono (by omega)).close ?_
  intro hl; rw [hs] at hl; cases hl

theorem Mid.setLe {cfg : Cfg} {g : Geo} {p : Int} {f : Nat} {st : St} (h : Mid cfg img g p f hd st) (e : LEntry)
    (he : e.state = .loading) : Mid cfg img g p f hd { st with le := upd st.le f e } := by
  obtain ⟨hw, _, _⟩ := h.core.loading f h.loading
  refine ⟨h.core.tweak (e := e) (a := st.an f) h.loading he hw rfl (fun hne => absurd rfl hne) rfl ?_ rfl rfl rfl, ?_, h.room, h.cell, h.owner⟩
  · show st.an = upd st.an f (st.an f)
    funext k
    by_cases hk : k = f
    · subst hk; simp
    · simp [upd_other _ _ _ _ hk]
  · show (upd st.le f e f).state = .loading
    simpa using he

theorem Mid.setAn {cfg : Cfg} {g : Geo} {p : Int} {f : Nat} {st : St} (h : Mid cfg img g p f hd st) (a : Anchor)
    (ha : a.writing = true) (has : a.start = (st.an f).start) : Mid cfg img g p f hd { st with an := upd st.an f a } := by
  refine ⟨h.core.tweak (e := st.le f) (a := a) h.loading h.loading ha has (fun hne => absurd rfl hne) ?_ rfl rfl rfl rfl, h.loading, h.room, h.cell, h.owner⟩
  show st.le = upd st.le f (st.le f)
  funext k
  by_cases hk : k = f
  · subst hk; simp
  · simp [upd_other _ _ _ _ hk]

theorem Mid.setCnt {cfg : Cfg} {g : Geo} {p : Int} {f : Nat} {st : St} (h : Mid cfg img g p f hd st) (c : Counts) :
    Mid cfg img g p f hd { st with cnt := c } :=
  ⟨h.core.congr rfl rfl rfl rfl rfl, h.loading, h.room, h.cell, h.owner⟩

theorem Inv.setCnt {cfg : Cfg} {p : Int} {st : St} (h : Inv cfg img p st) (c : Counts) : Inv cfg img p { st with cnt := c } :=
  InvCore.congr h rfl rfl rfl rfl rfl

theorem addTail_sat {cfg : Cfg} {g : Geo} {p : Int} {f : Nat} {st : St} {hd : Header} (h : Mid cfg img g p f hd st) :
    Sat (addSlotToEntry.addTail cfg g p st f p hd) (Inv cfg img (p + 1)) := by
  unfold addSlotToEntry.addTail
  by_cases hover : (st.an f).sfs > 0 ∧ (st.le f).size > (st.an f).sfs
  · simp only [hover, and_self, if_true]
    exact h.freeBad
  · simp only [hover, if_false]
    refine Sat.bind (mapSlot_sat g p st p hd) ?_
    intro st1 hm
    have hc1 : InvCore cfg img (p + 1) p (some f) st1 := h.core.mapSlot hm h.cell h.owner
    have hl1 : (st1.le f).state = .loading := by rw [hm.le]; exact h.loading
    have hle : st1.le f = st.le f := by rw [hm.le]
    have han : st1.an f = st.an f := by rw [hm.an]
    by_cases hfull : (st.an f).sfs > 0 ∧ (st1.le f).size = (st.an f).sfs
    · simp only [hfull, and_self, if_true]
      refine Sat.mono (finalizeOrFree_inv (pC' := p + 1) hc1 hl1 h.room ?_ (by omega) (by omega) ?_) ?_
      · intro x hx
        simp only [slotOk, Bool.and_eq_true, decide_eq_true_eq] at hx
        omega
      · right; rw [han, hfull.2]; exact Nat.le_refl _
      · rintro st' ⟨hc, hs⟩
        exact hc.close (fun hl => absurd hl hs)
    · simp only [hfull, if_false]
      refine Sat.pure ((hc1.mono (by omega)).close ?_)
      intro _
      rw [han, hle]
      rw [hle] at hfull
      omega

theorem addSlotToEntry_sat {cfg : Cfg} {g : Geo} {p : Int} {f : Nat} {st : St} {hd : Header} {m : Meta}
    (h : Inv cfg img p st) (hf : (st.le f).state = .loading) (hroom : p + 1 ≤ g.slots)
    (hu : usableAt cfg img p = some hd) (hfile : f = fileOf cfg img hd) :
    Sat (addSlotToEntry cfg g p st f p hd m) (Inv cfg img (p + 1)) := by
  unfold addSlotToEntry
  refine Sat.check (by decide) fun _ => ?_
  refine Sat.check (by decide) fun _ => ?_
  refine Sat.bind (chainSlot_sat h hf) ?_
  rintro st1 ⟨hc1, hle1, _, hown1, _, _⟩
  have hmid1 : Mid cfg img g p f hd st1 := ⟨hc1, by rw [hle1]; exact hf, hroom, hu, by rw [hown1, hfile]⟩
  have hmid2 := hmid1.setLe { st1.le f with size := (st1.le f).size + hd.payloadSize } hmid1.loading
  simp only
  by_cases hino : hd.firstSlot = p
  · simp only [hino, if_true]
    by_cases hanch : ((upd st1.le f { st1.le f with size := (st1.le f).size + hd.payloadSize }) f).anchored = true
    · simp only [hanch, if_true]
      refine Sat.bind hmid2.freeBad ?_
      intro st3 h3
      exact Sat.pure (h3.setCnt _)
    · simp only [hanch, if_false, Bool.false_eq_true]
      have hmid3 := hmid2.setLe
        { (upd st1.le f { st1.le f with size := (st1.le f).size + hd.payloadSize }) f with anchored := true }
        (by simpa using hmid1.loading)
      split
      · -- importEntry failed
        exact (hmid3.setCnt _).freeBad
      · rename_i mk sz _ _
        have hw := (hmid3.core.loading f hmid3.loading).1
        have hmid4 := hmid3.setAn { (st1.an f) with key := mk, sfs := sz, validated := false } (by simpa using hw) rfl
        split
        · exact hmid4.freeBad
        · split
          · split
            · exact Sat.throw (by decide)
            · split
              · have hw4 := (hmid4.core.loading f hmid4.loading).1
                refine addTail_sat (hmid4.setAn _ (by simpa using hw4) (by simp))
              · split
                · exact hmid4.freeBad
                · exact addTail_sat hmid4
          · exact addTail_sat hmid4
  · simp only [hino, if_false]
    exact addTail_sat hmid2

end SquidModel.Rock

namespace SquidModel.Rock

/-! ### startNewEntry / useNewSlot / loadOneSlot -/

/-- `openForWritingAt` + `primeNewEntry` on an Empty position -/
theorem InvCore.begin {cfg : Cfg} {p : Int} {st st' : St} {f : Nat} {e : LEntry} {a : Anchor} (h : InvCore cfg img p p none st)
    (hf : (st.le f).state = .empty) (he : e.state = .loading) (ha : a.writing = true) (has : a.start = -1) (hsz : a.sfs = 0)
    (hle : st'.le = upd st.le f e) (han : st'.an = upd st.an f a) (hls : st'.ls = st.ls) (hsl : st'.sl = st.sl)
    (hfree : st'.free = st.free) :
    InvCore cfg img p p none st' := by
  have hnext : st'.next = st.next := by funext x; simp [St.next, hsl]
  have hstate : ∀ k, k ≠ f → st'.le k = st.le k := fun k hk => by rw [hle, upd_other _ _ _ _ hk]
  have hanch : ∀ k, k ≠ f → st'.an k = st.an k := fun k hk => by rw [han, upd_other _ _ _ _ hk]
  have hstf : (st'.le f).state = .loading := by rw [hle]; simpa using he
  refine ⟨?_, ?_, ?_, ?_, ?_, ?_, by rw [hfree, hls]; exact h.fz, by rw [hls, hsl]; exact h.disk⟩
  · intro x hx; rw [hls, hsl]; exact h.fresh x hx
  · intro k
    by_cases hk : k = f
    · subst hk; rw [hstf]; decide
    · rw [hstate k hk]; exact h.noIgn k
  · intro k hk
    have hkf : k ≠ f := by
      intro e'; subst e'; rw [hstf] at hk
      cases hk with
      | inl x => cases x
      | inr x => cases x
    rw [hstate k hkf] at hk; rw [hanch k hkf]; exact h.idle k hk
  · intro k hk
    by_cases hkf : k = f
    · subst hkf
      refine ⟨by rw [han]; simpa using ha, ⟨[], ⟨?_, List.nodup_nil, fun x hx => (by cases hx), fun x hx => (by cases hx)⟩⟩,
        fun _ => Or.inl (by rw [han]; simpa using hsz)⟩
      refine Chain.nil_iff.2 ?_
      rw [han]; simp only [upd_same]; omega
    · rw [hstate k hkf] at hk
      obtain ⟨hw, ⟨L, hL⟩, hs⟩ := h.loading k hk
      refine ⟨by rw [hanch k hkf]; exact hw, ⟨L, hL.transfer (by rw [hanch k hkf]) (Int.le_refl _) ?_⟩,
        by rw [hanch k hkf, hstate k hkf]; exact hs⟩
      intro x _; rw [hls]; exact ⟨rfl, rfl, rfl⟩
  · intro k hk
    have hkf : k ≠ f := by
      intro e'; subst e'; rw [hstf] at hk; cases hk
    rw [hstate k hkf] at hk
    obtain ⟨hw, C, hC⟩ := h.loaded k hk
    refine ⟨by rw [hanch k hkf]; exact hw, C, hC.transfer (hanch k hkf) (by rw [hstate k hkf]) (Int.le_refl _) ?_ ?_ ?_⟩
    · intro x hx
      exact ⟨by rw [hsl], by rw [hls]; exact hC.fin x hx⟩
    · intro x hx; rw [hls]; exact (hC.cells x hx).1
    · intro _ x _ a b c
      exact ⟨by rw [hls]; exact a, by rw [hls]; exact b, by rw [hfree]; exact c⟩
  · refine disj_transfer h.disj ?_
    intro k hk
    have hkf : k ≠ f := by
      intro e'; subst e'; rw [hstf] at hk; cases hk
    rw [hstate k hkf] at hk
    obtain ⟨_, C, hC⟩ := h.loaded k hk
    refine ⟨hk, by rw [hanch k hkf], C, hC.chain, ?_⟩
    rw [hnext]; exact hC.chain

theorem startNewEntry_sat {cfg : Cfg} {g : Geo} {p : Int} {f : Nat} {st : St} {hd : Header} {m : Meta}
    (h : Inv cfg img p st) (hf : (st.le f).state = .empty) (hroom : p + 1 ≤ g.slots)
    (hu : usableAt cfg img p = some hd) (hfile : f = fileOf cfg img hd) :
    Sat (startNewEntry cfg g p st f p hd m) (Inv cfg img (p + 1)) := by
  have ha : st.an f = {} := h.idle f (Or.inl hf)
  unfold startNewEntry
  simp only [ha, Bool.false_eq_true, if_false, keyEmpty, BEq.rfl, Bool.and_self, Bool.not_true, Bool.or_self, Bool.and_false]
  refine Sat.check (by decide) fun _ => ?_
  simp only [upd_same]
  refine Sat.bind (m := addSlotToEntry cfg g p _ f p hd m) (P := Inv cfg img (p + 1)) ?_ ?_
  · refine addSlotToEntry_sat ?_ ?_ hroom hu hfile
    · refine h.begin (f := f) (e := { st.le f with state := .loading, version := hd.version, size := 0 })
        (a := { writing := true, key := hd.key, start := -1 }) hf rfl rfl rfl rfl ?_ ?_ rfl rfl rfl
      · rfl
      · show _ = upd st.an f _
        funext k
        by_cases hk : k = f
        · subst hk; simp
        · simp [upd_other _ _ _ _ hk]
    · simp
  · intro st4 h4
    refine Sat.check (by decide) fun _ => ?_
    exact Sat.pure h4

theorem useNewSlot_sat {cfg : Cfg} {g : Geo} {pos : Nat} {st : St} {hd : Header} {m : Meta}
    (h : Inv cfg img pos st) (hroom : pos + 1 ≤ g.slots) (hg : g = cfg.geo img.length)
    (hu : usableAt cfg img (pos : Int) = some hd) :
    Sat (useNewSlot cfg g pos st pos hd m) (Inv cfg img ((pos : Int) + 1)) := by
  have hroom' : (pos : Int) + 1 ≤ g.slots := by omega
  have hfile : fileNo g hd.key = fileOf cfg img hd := by rw [hg]; rfl
  unfold useNewSlot
  refine Sat.check (by decide) fun _ => ?_
  split
  · rename_i hs; exact startNewEntry_sat h hs hroom' hu hfile
  · rename_i hs
    refine Sat.check (by decide) fun _ => ?_
    split
    · exact addSlotToEntry_sat h hs hroom' hu hfile
    · refine Sat.bind (freeBad_inv h hs (by omega)) ?_
      rintro st1 ⟨h1, _⟩
      refine Sat.bind (freeUnusedSlot_sat g pos st1 pos true) ?_
      intro st2 h2
      exact Sat.pure (Inv.setCnt (h1.freeUnused h2) _)
  · rename_i hs
    obtain ⟨hw, C, hC⟩ := h.loaded _ hs
    have hlen : C.length ≤ g.slots := nodup_inRange_length hC.nodup (hC.range.mono (by omega))
    refine Sat.bind (mapFreeEntry_sat g _ _ C (by simpa using hw) hC.chain hC.nodup hlen) ?_
    intro st2 h2
    have hinv2 : InvCore cfg img pos pos none st2 := h.mapFree hs hC h2.le h2.an h2.ls h2.sl h2.free
    refine Sat.bind (freeUnusedSlot_sat g pos st2 pos true) ?_
    intro st3 h3
    exact Sat.pure (Inv.setCnt (hinv2.freeUnused h3) _)
  · exact Sat.mono (freeUnusedSlot_sat g pos st pos true) (fun st' hp => h.freeUnused hp)
  · exact Sat.mono (freeUnusedSlot_sat g pos st pos false) (fun st' hp => h.freeUnused hp)

theorem loadOneSlot_sat {cfg : Cfg} {g : Geo} {pos : Nat} {st : St} {raw : RawSlot}
    (h : Inv cfg img pos st) (hroom : pos + 1 ≤ g.slots) (hg : g = cfg.geo img.length) (hget : img[pos]? = some raw) :
    Sat (loadOneSlot cfg g st pos raw) (Inv cfg img ((pos : Int) + 1)) := by
  unfold loadOneSlot
  have h0 := h.setCnt { st.cnt with scan := st.cnt.scan + 1 }
  cases raw with
  | truncated => exact Sat.mono (freeUnusedSlot_sat g pos _ pos true) (fun st' hp => h0.freeUnused hp)
  | cell hd m =>
    simp only
    split
    · exact Sat.mono (freeUnusedSlot_sat g pos _ pos false) (fun st' hp => h0.freeUnused hp)
    · rename_i hne
      split
      · exact Sat.mono (freeUnusedSlot_sat g pos _ pos true) (fun st' hp => h0.freeUnused hp)
      · rename_i hsane
        refine useNewSlot_sat h0 hroom hg (usableAt_of_get hget (by simpa using hne) ?_)
        have : g.slots = img.length := by rw [hg]; rfl
        rw [← this]
        simpa using hsane

theorem loadAll_sat {cfg : Cfg} {img : List RawSlot} {g : Geo} (hg : g = cfg.geo img.length) :
    ∀ (rest : List RawSlot) (pos : Nat) (st : St),
    Inv cfg img pos st → pos + rest.length = g.slots → img.drop pos = rest →
    Sat (loadAll cfg g rest pos st) (Inv cfg img g.slots) := by
  intro rest
  induction rest with
  | nil =>
    intro pos st h hl _
    simp only [List.length_nil, Nat.add_zero] at hl
    subst hl
    exact Sat.pure h
  | cons raw rest ih =>
    intro pos st h hl hdrop
    simp only [List.length_cons] at hl
    unfold loadAll
    have hget : img[pos]? = some raw := by
      have : (img.drop pos)[0]? = some raw := by rw [hdrop]; rfl
      simpa using this
    have hdrop' : img.drop (pos + 1) = rest := by
      have : (img.drop pos).drop 1 = rest := by rw [hdrop]; rfl
      simpa [List.drop_drop, Nat.add_comm] using this
    refine Sat.bind (loadOneSlot_sat h (by omega) hg hget) ?_
    intro st1 h1
    have h1' : Inv cfg img ((pos + 1 : Nat) : Int) st1 := by
      have : ((pos + 1 : Nat) : Int) = (pos : Int) + 1 := by omega
      rw [this]; exact h1
    exact ih (pos + 1) st1 h1' (by omega) hdrop'

/-! ### validation -/

theorem validateOneEntry_sat {cfg : Cfg} {g : Geo} {st : St} {f : Nat} (h : Inv cfg img g.slots st) :
    Sat (validateOneEntry cfg g st f) (Inv cfg img g.slots) := by
  unfold validateOneEntry
  have h0 := h.setCnt { st.cnt with validations := st.cnt.validations + 1 }
  simp only
  split
  · rename_i hs
    have hsz := (h0.loading f hs).2.2 (by simp)
    refine Sat.mono (finalizeOrFree_inv (pC' := g.slots) h0 hs (Int.le_refl _) ?_ (Int.le_refl _) (Int.le_refl _) ?_) (fun st' hp => hp.1)
    · intro x hx
      simp only [slotOk, Bool.and_eq_true, decide_eq_true_eq] at hx
      omega
    · cases hsz with
      | inl e => exact Or.inl e
      | inr e => exact Or.inr (Nat.le_of_lt e)
  · exact Sat.pure h0

theorem validateEntries_sat {cfg : Cfg} {g : Geo} : ∀ (n f : Nat) (st : St), Inv cfg img g.slots st →
    Sat (validateEntries cfg g n f st) (Inv cfg img g.slots) := by
  intro n
  induction n with
  | zero => intro f st h; exact Sat.pure h
  | succ n ih =>
    intro f st h
    unfold validateEntries
    exact Sat.bind (validateOneEntry_sat h) (fun st1 h1 => ih (f + 1) st1 h1)

theorem validateSlots_sat {cfg : Cfg} {g : Geo} : ∀ (n s : Nat) (st : St), Inv cfg img g.slots st →
    Sat (validateSlots g n s st) (Inv cfg img g.slots) := by
  intro n
  induction n with
  | zero => intro s st h; exact Sat.pure h
  | succ n ih =>
    intro s st h
    unfold validateSlots
    refine Sat.bind (m := validateOneSlot g st s) (P := Inv cfg img g.slots) ?_ (fun st1 h1 => ih (s + 1) st1 h1)
    unfold validateOneSlot
    refine Sat.check (by decide) fun _ => ?_
    refine Sat.check (by decide) fun _ => ?_
    exact Sat.pure (h.setCnt _)

/-- the whole rebuild: never out of fuel, and the invariant holds at the end -/
theorem rebuild_sat (cfg : Cfg) (img : List RawSlot) :
    Sat (rebuild cfg img) (Inv cfg img (cfg.geo img.length).slots) := by
  unfold rebuild
  simp only
  refine Sat.bind (loadAll_sat rfl img 0 St.init (inv_init cfg img) (by simp [Cfg.geo]) (by simp)) ?_
  intro st1 h1
  refine Sat.bind (validateEntries_sat _ 0 st1 h1) ?_
  intro st2 h2
  split
  · exact validateSlots_sat _ 0 st2 h2
  · exact Sat.pure h2

end SquidModel.Rock
