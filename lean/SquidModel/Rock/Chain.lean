/-
Linked chains inside total tables: the shape both the `LoadingSlot::more` lists and the map's slice lists have.
-/
import SquidModel.Rock.Model

namespace SquidModel.Rock

/-- `Seg nxt s L e`: following `nxt` from `s` visits exactly the ids of `L` (all non-negative) and then arrives at `e` -/
def Seg (nxt : Int → Int) : Int → List Int → Int → Prop
  | s, [], e => s = e
  | s, x :: xs, e => s = x ∧ 0 ≤ x ∧ Seg nxt (nxt x) xs e

/-- a complete chain: ends at a negative id -/
def Chain (nxt : Int → Int) (s : Int) (L : List Int) : Prop := ∃ e, Seg nxt s L e ∧ e < 0

theorem Seg.frame {nxt nxt' : Int → Int} {L : List Int} : ∀ {s e}, (∀ x ∈ L, nxt' x = nxt x) → Seg nxt s L e → Seg nxt' s L e := by
  induction L with
  | nil => intro s e _ h; exact h
  | cons x xs ih =>
    intro s e hf h
    obtain ⟨h1, h2, h3⟩ := h
    refine ⟨h1, h2, ?_⟩
    rw [hf x (List.mem_cons_self ..)]
    exact ih (fun y hy => hf y (List.mem_cons_of_mem _ hy)) h3

theorem Chain.frame {nxt nxt' : Int → Int} {L : List Int} {s : Int} (hf : ∀ x ∈ L, nxt' x = nxt x) (h : Chain nxt s L) :
    Chain nxt' s L := by
  obtain ⟨e, h1, h2⟩ := h
  exact ⟨e, Seg.frame hf h1, h2⟩

theorem Seg.nonneg {nxt : Int → Int} {L : List Int} : ∀ {s e}, Seg nxt s L e → ∀ x ∈ L, 0 ≤ x := by
  induction L with
  | nil => intro s e _ x hx; cases hx
  | cons y ys ih =>
    intro s e h x hx
    obtain ⟨_, h2, h3⟩ := h
    cases hx with
    | head => exact h2
    | tail _ hx => exact ih h3 x hx

/-- a complete chain is determined by its start -/
theorem Chain.unique {nxt : Int → Int} : ∀ {L1 L2 : List Int} {s : Int}, Chain nxt s L1 → Chain nxt s L2 → L1 = L2 := by
  intro L1
  induction L1 with
  | nil =>
    intro L2 s h1 h2
    obtain ⟨e1, h1, he1⟩ := h1
    cases L2 with
    | nil => rfl
    | cons y ys =>
      obtain ⟨e2, ⟨hy, hy0, _⟩, _⟩ := h2
      simp only [Seg] at h1
      omega
  | cons x xs ih =>
    intro L2 s h1 h2
    obtain ⟨e1, ⟨hx, hx0, hr1⟩, he1⟩ := h1
    cases L2 with
    | nil =>
      obtain ⟨e2, h2, he2⟩ := h2
      simp only [Seg] at h2
      omega
    | cons y ys =>
      obtain ⟨e2, ⟨hy, hy0, hr2⟩, he2⟩ := h2
      have hxy : x = y := by omega
      subst hxy
      rw [ih ⟨e1, hr1, he1⟩ ⟨e2, hr2, he2⟩]

theorem Chain.nil_iff {nxt : Int → Int} {s : Int} : Chain nxt s [] ↔ s < 0 := by
  constructor
  · rintro ⟨e, h, he⟩; simp only [Seg] at h; omega
  · intro h; exact ⟨s, rfl, h⟩

theorem Chain.cons_iff {nxt : Int → Int} {s x : Int} {xs : List Int} :
    Chain nxt s (x :: xs) ↔ s = x ∧ 0 ≤ x ∧ Chain nxt (nxt x) xs := by
  constructor
  · rintro ⟨e, ⟨h1, h2, h3⟩, he⟩; exact ⟨h1, h2, e, h3, he⟩
  · rintro ⟨h1, h2, e, h3, he⟩; exact ⟨e, ⟨h1, h2, h3⟩, he⟩

/-- the start of a non-empty chain is a member -/
theorem Chain.start_mem {nxt : Int → Int} {s : Int} {L : List Int} (h : Chain nxt s L) (hs : 0 ≤ s) : s ∈ L := by
  cases L with
  | nil => have := Chain.nil_iff.1 h; omega
  | cons x xs => have := (Chain.cons_iff.1 h).1; subst this; exact List.mem_cons_self ..

theorem Seg.append {nxt : Int → Int} {L1 : List Int} : ∀ {L2 : List Int} {s m e : Int},
    Seg nxt s L1 m → Seg nxt m L2 e → Seg nxt s (L1 ++ L2) e := by
  induction L1 with
  | nil => intro L2 s m e h1 h2; simp only [Seg] at h1; subst h1; simpa using h2
  | cons x xs ih =>
    intro L2 s m e h1 h2
    obtain ⟨a, b, c⟩ := h1
    exact ⟨a, b, ih c h2⟩

/-! ### ids in a range: pigeonhole -/

def InRange (L : List Int) (n : Int) : Prop := ∀ x ∈ L, 0 ≤ x ∧ x < n

theorem InRange.mono {L : List Int} {n m : Int} (h : InRange L n) (hnm : n ≤ m) : InRange L m :=
  fun x hx => ⟨(h x hx).1, by have := (h x hx).2; omega⟩

/-- a duplicate-free list of ids below `n` has at most `n` members -/
theorem nodup_inRange_length {L : List Int} {n : Nat} (hd : L.Nodup) (hr : InRange L n) : L.length ≤ n := by
  have hsub : L ⊆ (List.range n).map (fun k : Nat => (k : Int)) := by
    intro x hx
    obtain ⟨h0, h1⟩ := hr x hx
    refine List.mem_map.2 ⟨x.toNat, List.mem_range.2 (by omega), by omega⟩
  have := List.Nodup.length_le_of_subset hd hsub
  simpa using this

/-! ### sums of slice sizes along a chain -/

def sumOn (w : Int → Nat) : List Int → Nat
  | [] => 0
  | x :: xs => w x + sumOn w xs

theorem sumOn_frame {w w' : Int → Nat} {L : List Int} (h : ∀ x ∈ L, w' x = w x) : sumOn w' L = sumOn w L := by
  induction L with
  | nil => rfl
  | cons x xs ih =>
    simp only [sumOn]
    rw [h x (List.mem_cons_self ..), ih (fun y hy => h y (List.mem_cons_of_mem _ hy))]

theorem sumOn_append {w : Int → Nat} {L1 L2 : List Int} : sumOn w (L1 ++ L2) = sumOn w L1 + sumOn w L2 := by
  induction L1 with
  | nil => simp [sumOn]
  | cons x xs ih => simp only [List.cons_append, sumOn, ih]; omega

end SquidModel.Rock

namespace SquidModel.Rock

theorem sumOn_erase {w : Int → Nat} : ∀ {L : List Int} {x : Int}, x ∈ L → sumOn w L = w x + sumOn w (L.erase x) := by
  intro L
  induction L with
  | nil => intro x hx; cases hx
  | cons y ys ih =>
    intro x hx
    by_cases hyx : y = x
    · subst hyx; simp [sumOn]
    · have hx' : x ∈ ys := by
        cases hx with
        | head => exact absurd rfl hyx
        | tail _ h => exact h
      have he : (y :: ys).erase x = y :: ys.erase x := by
        rw [List.erase_cons]
        simp [hyx]
      rw [he]
      simp only [sumOn]
      rw [ih hx']
      omega

/-- two duplicate-free lists with positive weights, one contained in the other, with equal total weight have the same members -/
theorem subset_of_sum_eq {w : Int → Nat} : ∀ (C L : List Int), C.Nodup → L.Nodup → (∀ x ∈ C, x ∈ L) → (∀ x ∈ L, 0 < w x) →
    sumOn w C = sumOn w L → ∀ x ∈ L, x ∈ C := by
  intro C
  induction C with
  | nil =>
    intro L _ _ _ hpos hsum x hx
    cases L with
    | nil => cases hx
    | cons y ys =>
      have := hpos y (List.mem_cons_self ..)
      simp only [sumOn] at hsum
      omega
  | cons c cs ih =>
    intro L hndC hndL hsub hpos hsum x hx
    obtain ⟨hc, hndcs⟩ := List.nodup_cons.1 hndC
    have hcL : c ∈ L := hsub c (List.mem_cons_self ..)
    have hsum' : sumOn w cs = sumOn w (L.erase c) := by
      have := sumOn_erase (w := w) hcL
      simp only [sumOn] at hsum
      omega
    have hsub' : ∀ y ∈ cs, y ∈ L.erase c := by
      intro y hy
      have hyc : y ≠ c := fun e => hc (e ▸ hy)
      exact (List.mem_erase_of_ne hyc).2 (hsub y (List.mem_cons_of_mem _ hy))
    have hpos' : ∀ y ∈ L.erase c, 0 < w y := fun y hy => hpos y (List.mem_of_mem_erase hy)
    by_cases hxc : x = c
    · subst hxc; exact List.mem_cons_self ..
    · have : x ∈ L.erase c := (List.mem_erase_of_ne hxc).2 hx
      exact List.mem_cons_of_mem _ (ih (L.erase c) hndcs (hndL.erase c) hsub' hpos' hsum' x this)

end SquidModel.Rock
