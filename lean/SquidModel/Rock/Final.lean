/-
What the invariant says about the map a completed rebuild leaves behind.
-/
import SquidModel.Rock.Step

namespace SquidModel.Rock

/-- a reader can open the entry at position `f`: not locked for writing, non-empty key, not marked for deletion
    (`StoreMap::openForReadingAt`) -/
def Readable (st : St) (f : Nat) : Prop :=
  (st.an f).writing = false ∧ keyEmpty (st.an f).key = false ∧ (st.an f).waiting = false

instance (st : St) (f : Nat) : Decidable (Readable st f) := by unfold Readable; infer_instance

theorem Readable.loaded {cfg : Cfg} {p : Int} {st : St} {f : Nat} (h : Inv cfg img p st) (hr : Readable st f) :
    (st.le f).state = .loaded := by
  obtain ⟨hw, hk, _⟩ := hr
  cases hs : (st.le f).state with
  | loaded => rfl
  | empty => have := h.idle f (Or.inl hs); rw [this] at hk; simp [keyEmpty] at hk
  | corrupted => have := h.idle f (Or.inr hs); rw [this] at hk; simp [keyEmpty] at hk
  | ignored => exact absurd hs (h.noIgn f)
  | loading => have := (h.loading f hs).1; rw [hw] at this; cases this

theorem sumOn_pos_ne_nil {w : Int → Nat} {C : List Int} (h : 0 < sumOn w C) : C ≠ [] := by
  intro e; subst e; simp [sumOn] at h

/-- the chain of a readable entry -/
structure Intact (cfg : Cfg) (n : Nat) (st : St) (f : Nat) (C : List Int) : Prop where
  chain : Chain st.next (st.an f).start C
  nonempty : C ≠ []
  nodup : C.Nodup
  range : ∀ x ∈ C, 0 ≤ x ∧ x < (n : Int)
  size : sumOn st.ssize C = (st.an f).sfs ∨ (cfg.v.finalizeChecksKnownSize = false ∧ sumOn st.ssize C < (st.an f).sfs)

theorem Inv.intact {cfg : Cfg} {n : Nat} {st : St} {f : Nat} (h : Inv cfg img n st) (hr : Readable st f) :
    ∃ C, Intact cfg n st f C := by
  obtain ⟨_, C, hC⟩ := h.loaded f (hr.loaded h)
  refine ⟨C, hC.chain, sumOn_pos_ne_nil (by rw [hC.sum]; exact hC.pos), hC.nodup, hC.range, ?_⟩
  rw [hC.sum]
  cases hC.size with
  | inl e => exact Or.inl e.symm
  | inr e => exact Or.inr e

/-- the slices of a readable chain are exactly what the db cells at those positions say -/
theorem Inv.matches_disk {cfg : Cfg} {n : Nat} {st : St} {f : Nat} (h : Inv cfg img n st) (hr : Readable st f)
    {C : List Int} (hc : Chain st.next (st.an f).start C) :
    ∀ x ∈ C, ∃ hd, usableAt cfg img x = some hd ∧ (st.sl x).size = hd.payloadSize ∧ (st.sl x).next = hd.nextSlot := by
  obtain ⟨_, C', hC⟩ := h.loaded f (hr.loaded h)
  have e : C = C' := Chain.unique hc hC.chain
  subst e
  intro x hx
  obtain ⟨_, hd, hu, hs⟩ := hC.cells x hx
  exact ⟨hd, hu, by rw [hs]; rfl, by rw [hs]; rfl⟩

/-- when chains cannot leave their entry, every slot of a readable chain is a cell of that entry (its key hashes to the
    entry's position), has not been freed and is not on the free-slot stack -/
theorem Inv.own_slots {cfg : Cfg} {n : Nat} {st : St} {f : Nat} (h : Inv cfg img n st) (ho : Own cfg img) (hr : Readable st f)
    {C : List Int} (hc : Chain st.next (st.an f).start C) :
    ∀ x ∈ C, x ∉ st.free ∧ (st.ls x).freed = false ∧ ∃ hd, usableAt cfg img x = some hd ∧ fileOf cfg img hd = f := by
  obtain ⟨_, C', hC⟩ := h.loaded f (hr.loaded h)
  have e : C = C' := Chain.unique hc hC.chain
  subst e
  intro x hx
  obtain ⟨a, b, c⟩ := hC.own ho x hx
  obtain ⟨hm, _⟩ := hC.cells x hx
  obtain ⟨hd, hu, hown, _⟩ := h.disk x hm
  refine ⟨c, b, hd, hu, ?_⟩
  rw [a] at hown
  omega

theorem Inv.disjoint {cfg : Cfg} {n : Nat} {st : St} {f g : Nat} (h : Inv cfg img n st) (hf : Readable st f) (hg : Readable st g)
    (hfg : f ≠ g) {Cf Cg : List Int} (hcf : Chain st.next (st.an f).start Cf) (hcg : Chain st.next (st.an g).start Cg) :
    ∀ x ∈ Cf, x ∉ Cg :=
  h.disj f g hfg (hf.loaded h) (hg.loaded h) Cf Cg hcf hcg

/-! ### helpers for the counterexample theorems (decidable observations of a run) -/

def okAnd (r : M St) (p : St → Bool) : Bool :=
  match r with
  | .ok st => p st
  | .error _ => false

theorem okAnd_spec {r : M St} {p : St → Bool} (h : okAnd r p = true) : ∃ st, r = .ok st ∧ p st = true := by
  cases r with
  | ok st => exact ⟨st, rfl, h⟩
  | error e => simp [okAnd] at h

def crashesWith (r : M St) (e : Crash) : Bool :=
  match r with
  | .ok _ => false
  | .error e' => e' == e

theorem crashesWith_spec {r : M St} {e : Crash} (h : crashesWith r e = true) : r = .error e := by
  cases r with
  | ok st => simp [crashesWith] at h
  | error e' => simp only [crashesWith, beq_iff_eq] at h; rw [h]

/-- the slots of the chain that starts at `s`, as far as `fuel` reaches (for stating observations) -/
def chainList (st : St) : Nat → Int → List Int
  | 0, _ => []
  | fuel + 1, s => if s < 0 then [] else s :: chainList st fuel (st.sl s).next

end SquidModel.Rock
