/-
Model of `Rock::Rebuild` (src/fs/rock/RockRebuild.cc) together with the pieces of `Ipc::StoreMap` (src/ipc/StoreMap.cc),
`Ipc::Mem::PageStack` and `storeRebuildParseEntry` (src/store_rebuild.cc) it drives, function by function.

A db image is a list of raw slots (what `loadOneSlot` finds at each slot position); the result of the swap metadata
parser (`Store::UnpackIndexSwapMeta`) on the inode payload is part of the input.  Slot ids are `Int` exactly as in the
C++ (`-1` = none); entry positions (`sfileno`) are `Nat` because they are only ever produced by `% entryLimit`.
All tables are total functions with pointwise update, which keeps the proofs free of length bookkeeping.

Every `assert`/uncaught `Must` of the C++ that the rebuild can reach is an explicit `Crash` outcome; the three C++
`while`/`for` loops that follow links stored in memory (`freeBadEntry`, `finalizeOrThrow`, `StoreMap::freeChainAt`)
run on fuel = number of slots + 1, and running out of fuel is the outcome `Crash.outOfFuel` (proved unreachable).
-/
namespace SquidModel.Rock

/-- pointwise update of a total table -/
def upd {α β : Type} [DecidableEq α] (f : α → β) (k : α) (v : β) : α → β :=
  fun x => if x = k then v else f x

@[simp] theorem upd_same {α β : Type} [DecidableEq α] (f : α → β) (k : α) (v : β) : upd f k v k = v := by
  simp [upd]

theorem upd_other {α β : Type} [DecidableEq α] (f : α → β) (k x : α) (v : β) (h : x ≠ k) : upd f k v x = f x := by
  simp [upd, h]

/-- `cache_key` as the two `uint64_t` words `StoreMapAnchor` stores -/
abbrev Key := Nat × Nat

/-- 2^64 -/
def two64 : Nat := 18446744073709551616
/-- `static_cast<uint64_t>(-1)` -/
def allOnes : Nat := 18446744073709551615

/-- `Rock::DbCellHeader` as read from disk -/
structure Header where
  key : Key
  entrySize : Nat
  payloadSize : Nat
  version : Nat
  firstSlot : Int
  nextSlot : Int
deriving DecidableEq, Repr

/-- what `importEntry` learns from the bytes after the cell header -/
inductive Meta
  /-- `ZeroedSlot(buf)` -/
  | zeroed
  /-- `Store::UnpackIndexSwapMeta` throws -/
  | unparsable
  /-- parsed: STORE_META_KEY_MD5 value (if the field is there), swap_file_sz and flags of STORE_META_STD_LFS, swap_hdr_sz -/
  | ok (key : Option Key) (sfs : Nat) (flags : Nat) (hdrLen : Nat)
deriving DecidableEq, Repr

/-- what `loadOneSlot` reads at one slot position -/
inductive RawSlot
  /-- fewer than `sizeof(DbCellHeader)` bytes could be read -/
  | truncated
  | cell (h : Header) (m : Meta)
deriving DecidableEq, Repr

/-- the shapes of the source the model is parametrised by (read from the staged RockRebuild.cc by the translator) -/
structure Variant where
  /-- `finalizeOrThrow` compares a known `swap_file_sz` with the loaded size (absent in the pinned snapshot) -/
  finalizeChecksKnownSize : Bool
  /-- `addSlotToEntry` refuses all-ones sizes instead of asserting (absent in the pinned snapshot) -/
  rejectsAllOnesSizes : Bool
  /-- `finalizeOrThrow` only accepts slots that were added to the entry being finalised (absent in the pinned snapshot) -/
  finalizeChecksOwner : Bool
deriving DecidableEq, Repr

/-- compile-time constants dumped from the staged build -/
structure Consts where
  /-- `sizeof(DbCellHeader)` -/
  cellHeaderSize : Nat
  /-- `SwapFilenMax + 1` -/
  entryLimitAbsolute : Nat
  /-- bit number of `KEY_PRIVATE` in `StoreEntry::flags` -/
  keyPrivateBit : Nat
deriving DecidableEq, Repr

structure Cfg where
  v : Variant
  k : Consts
  /-- `Rock::SwapDir::slotSize` -/
  slotSize : Nat
  /-- `opt_store_doublecheck` (squid -S) -/
  doubleCheck : Bool
deriving DecidableEq, Repr

inductive LState | empty | loading | loaded | corrupted | ignored
deriving DecidableEq, Repr

/-- `LoadingEntry` (sizes/versions/flags of `LoadingParts`, indexed by sfileno) -/
structure LEntry where
  state : LState := .empty
  anchored : Bool := false
  size : Nat := 0
  version : Nat := 0
deriving DecidableEq, Repr

/-- `LoadingSlot` (mores/flags of `LoadingParts`, indexed by slot id) -/
structure LSlot where
  more : Int := -1
  mapped : Bool := false
  finalized : Bool := false
  freed : Bool := false
  /-- sfileno the slot was added to (only maintained/consulted by the `finalizeChecksOwner` variant) -/
  owner : Int := -1
deriving DecidableEq, Repr

/-- the fields of `Ipc::StoreMapAnchor` the rebuild reads or writes (`lock.writing`, key, start, basics.swap_file_sz,
    waitingToBeFreed, ENTRY_VALIDATED) -/
structure Anchor where
  writing : Bool := false
  key : Key := (0, 0)
  start : Int := 0
  sfs : Nat := 0
  waiting : Bool := false
  validated : Bool := false
deriving DecidableEq, Repr

/-- `Ipc::StoreMapSlice` -/
structure Slice where
  size : Nat := 0
  next : Int := -1
deriving DecidableEq, Repr

/-- the `StoreRebuildData` counters the rebuild touches -/
structure Counts where
  scan : Nat := 0
  invalid : Nat := 0
  dup : Nat := 0
  clash : Nat := 0
  obj : Nat := 0
  badflags : Nat := 0
  validations : Nat := 0
deriving DecidableEq, Repr

structure St where
  le : Nat → LEntry
  ls : Int → LSlot
  an : Nat → Anchor
  sl : Int → Slice
  /-- `sd->freeSlots` (most recent push first) -/
  free : List Int
  cnt : Counts
  /-- `anchors->count` -/
  entryCount : Int

def St.init : St :=
  { le := fun _ => {}, ls := fun _ => {}, an := fun _ => {}, sl := fun _ => {}, free := [], cnt := {}, entryCount := 0 }

/-- everything that kills the squid process during the rebuild (assert / exception escaping the job) -/
inductive Crash
  /-- `assert(totalSize != static_cast<uint64_t>(-1))` in addSlotToEntry -/
  | entrySizeAllOnes
  /-- `assert(anchor->basics.swap_file_sz != static_cast<uint64_t>(-1))` in startNewEntry -/
  | sfsAllOnes
  /-- `assert((oldValue & mask) == 0)` in IdSet::leafPush: a slot is pushed on the free stack twice -/
  | pushedTwice
  /-- `assert(!slot.freed())` in freeSlot / mapSlot -/
  | slotFreed
  /-- `assert(!slot.mapped())` in freeUnusedSlot / mapSlot -/
  | slotMapped
  /-- `assert(slot.more < 0)` in chainSlots -/
  | slotChained
  /-- `assert(anchor.start < 0 || le.size > 0)` in freeBadEntry -/
  | sizelessChain
  /-- `assert(anchorAt(anchorId).writing())` in writeableEntry / forgetWritingEntry / closeForWriting -/
  | notWriting
  /-- `Must(slot.freed() || (slot.mapped() && slot.finalized()))` in validateOneSlot -/
  | unprocessedSlot
  /-- `Must(0 <= slotId && slotId < dbSlotLimit)` / `Must(slotId <= loadingPos)` outside finalizeOrThrow, or
      `assert(validSlice(sliceId))` -/
  | badSlotId
  /-- `assert(0 <= fileno && fileno < dbEntryLimit)` -/
  | badFileNo
  /-- `assert(s.empty())` in openForWritingAt -/
  | anchorNotEmpty
  /-- a link-following loop did not stop within (number of slots + 1) iterations -/
  | outOfFuel
deriving DecidableEq, Repr

abbrev M := Except Crash

def check (c : Bool) (e : Crash) : M Unit := if c then pure () else throw e

/-- geometry shared by all steps -/
structure Geo where
  /-- `dbSlotLimit` -/
  slots : Nat
  /-- `dbEntryLimit` -/
  entries : Nat

def Cfg.geo (c : Cfg) (n : Nat) : Geo := { slots := n, entries := min n c.k.entryLimitAbsolute }

/-! ### DbCellHeader -/

def Header.empty (h : Header) : Bool := h.firstSlot == 0 && h.nextSlot == 0 && h.payloadSize == 0

def Header.sane (h : Header) (slotSize hdrSize : Nat) (slotLimit : Nat) : Bool :=
  decide (0 ≤ h.firstSlot) && decide (h.firstSlot < (slotLimit : Int)) &&
  decide (-1 ≤ h.nextSlot) && decide (h.nextSlot < (slotLimit : Int)) &&
  decide (0 < h.version) &&
  decide (0 < h.payloadSize) && decide (h.payloadSize ≤ slotSize - hdrSize)

/-- `StoreMap::fileNoByKey`: `(k[0] + k[1]) % entryLimit()` in uint64_t arithmetic (no anchor has been relocated) -/
def fileNo (g : Geo) (k : Key) : Nat := ((k.1 + k.2) % two64) % g.entries

def keyEmpty (k : Key) : Bool := k.1 == 0 && k.2 == 0

/-! ### low-level slot bookkeeping -/

/-- `loadingSlot(slotId)`: `Must(0 <= slotId && slotId < dbSlotLimit); Must(slotId <= loadingPos)` -/
def slotOk (g : Geo) (pos : Int) (s : Int) : Bool := decide (0 ≤ s) && decide (s < (g.slots : Int)) && decide (s ≤ pos)

/-- `PageStack::push` -/
def push (st : St) (s : Int) : M St :=
  if s ∈ st.free then throw .pushedTwice else pure { st with free := s :: st.free }

/-- `Rebuild::freeSlot` -/
def freeSlot (g : Geo) (pos : Int) (st : St) (s : Int) (invalid : Bool) : M St := do
  check (slotOk g pos s) .badSlotId
  check (!(st.ls s).freed) .slotFreed
  let st1 : St := { st with ls := upd st.ls s { st.ls s with freed := true } }
  let st2 : St := if invalid then { st1 with cnt := { st1.cnt with invalid := st1.cnt.invalid + 1 } } else st1
  push st2 s

/-- `Rebuild::freeUnusedSlot` -/
def freeUnusedSlot (g : Geo) (pos : Int) (st : St) (s : Int) (invalid : Bool) : M St := do
  check (slotOk g pos s) .badSlotId
  check (!(st.ls s).mapped) .slotMapped
  freeSlot g pos st s invalid

/-- `StoreMapAnchor::rewind` + `lock.unlockExclusive` -/
def rewound : Anchor := {}

/-- the `for` loop of `Rebuild::freeBadEntry` -/
def freeBadLoop (g : Geo) (pos : Int) : Nat → Int → St → M St
  | 0, _, _ => throw .outOfFuel
  | fuel + 1, s, st =>
    if s < 0 then pure st else do
      check (slotOk g pos s) .badSlotId
      let next := (st.ls s).more
      let st1 ← freeSlot g pos st s true
      freeBadLoop g pos fuel next st1

/-- `Rebuild::freeBadEntry` (+ `StoreMap::forgetWritingEntry`) -/
def freeBadEntry (g : Geo) (pos : Int) (st : St) (f : Nat) : M St := do
  check (decide (f < g.entries)) .badFileNo
  let st1 : St := { st with le := upd st.le f { st.le f with state := .corrupted } }
  check (st1.an f).writing .notWriting
  check (decide ((st1.an f).start < 0) || decide ((st1.le f).size > 0)) .sizelessChain
  let st2 ← freeBadLoop g pos (g.slots + 1) (st1.an f).start st1
  -- forgetWritingEntry
  check (st2.an f).writing .notWriting
  pure { st2 with an := upd st2.an f rewound, entryCount := st2.entryCount - 1 }

/-- `StoreMap::freeChainAt` (splicingPoint = -1) with `Rock::SwapDir::noteFreeMapSlice` as the cleaner -/
def freeChainAt (g : Geo) : Nat → Int → St → M St
  | 0, _, _ => throw .outOfFuel
  | fuel + 1, s, st =>
    if s < 0 then pure st else do
      check (decide (s < (g.slots : Int))) .badSlotId
      let next := (st.sl s).next
      let st1 : St := { st with sl := upd st.sl s {} }
      let st2 ← push st1 s
      freeChainAt g fuel next st2

/-- `StoreMap::freeChain` -/
def freeChain (g : Geo) (st : St) (f : Nat) (keepLocked : Bool) : M St := do
  let st1 ← if !keyEmpty (st.an f).key then freeChainAt g (g.slots + 1) (st.an f).start st else pure st
  let a : Anchor := { rewound with writing := keepLocked }
  pure { st1 with an := upd st1.an f a, entryCount := st1.entryCount - 1 }

/-- `StoreMap::freeEntry` -/
def mapFreeEntry (g : Geo) (st : St) (f : Nat) : M St :=
  if !(st.an f).writing then
    -- lockExclusive() succeeded (there are no readers during the rebuild)
    freeChain g { st with an := upd st.an f { st.an f with writing := true } } f false
  else
    pure { st with an := upd st.an f { st.an f with waiting := true } }

/-- `Rebuild::mapSlot` (+ `StoreMap::importSlice`) -/
def mapSlot (g : Geo) (pos : Int) (st : St) (s : Int) (h : Header) : M St := do
  check (slotOk g pos s) .badSlotId
  check (!(st.ls s).mapped) .slotMapped
  check (!(st.ls s).freed) .slotFreed
  pure { st with ls := upd st.ls s { st.ls s with mapped := true },
                 sl := upd st.sl s { size := h.payloadSize, next := h.nextSlot } }

/-! ### finalizeOrThrow -/

/-- one of the `Must`s at the top of the loop body of finalizeOrThrow fails for slot `s`:
    `loadingSlot(slotId)` (range / "cannot look ahead"), `Must(!slot.finalized())`, `Must(slot.mapped())`,
    `Must(!slot.freed())` and, in the `finalizeChecksOwner` variant, `Must(slot.owner == fileNo)` -/
def walkBlocked (cfg : Cfg) (g : Geo) (pos : Int) (f : Nat) (st : St) (s : Int) : Bool :=
  !slotOk g pos s || (st.ls s).finalized || !(st.ls s).mapped || (st.ls s).freed ||
  (cfg.v.finalizeChecksOwner && (st.ls s).owner != (f : Int))

/-- `slot.finalized(true)` -/
def setFinalized (st : St) (s : Int) : St :=
  { st with ls := upd st.ls s { st.ls s with finalized := true } }

/-- the `while` loop of finalizeOrThrow; `none` = a `Must` failed (the exception is caught by finalizeOrFree) -/
def walk (cfg : Cfg) (g : Geo) (pos : Int) (f : Nat) (target : Nat) : Nat → Int → Nat → St → M (St × Option (Int × Nat))
  | 0, _, _, _ => throw .outOfFuel
  | fuel + 1, s, mappedSize, st =>
    if 0 ≤ s ∧ mappedSize < target then
      if walkBlocked cfg g pos f st s then pure (st, none)
      else
        let st1 := setFinalized st s
        if (st1.sl s).size = 0 then pure (st1, none)                 -- Must(mapSlice.size > 0)
        else walk cfg g pos f target fuel (st1.sl s).next (mappedSize + (st1.sl s).size) st1
    else pure (st, some (s, mappedSize))

/-- `Rebuild::finalizeOrThrow`; `false` = threw -/
def finalizeOrThrow (cfg : Cfg) (g : Geo) (pos : Int) (st : St) (f : Nat) : M (St × Bool) := do
  check (st.an f).writing .notWriting
  if (st.le f).size = 0 then pure (st, false) else
  let (st1, r) ← walk cfg g pos f (st.le f).size (g.slots + 1) (st.an f).start 0 st
  match r with
  | none => pure (st1, false)
  | some (s, mappedSize) =>
    if 0 ≤ s then pure (st1, false)                                  -- Must(slotId < 0)
    else if mappedSize ≠ (st1.le f).size then pure (st1, false)      -- Must(mappedSize == le.size)
    else if cfg.v.finalizeChecksKnownSize && (st1.an f).sfs != 0 && (st1.an f).sfs != (st1.le f).size then pure (st1, false)
    else
      let a := st1.an f
      let a1 : Anchor := { a with sfs := if a.sfs = 0 then (st1.le f).size else a.sfs, validated := true, writing := false }
      pure ({ st1 with an := upd st1.an f a1,
                       le := upd st1.le f { st1.le f with state := .loaded },
                       cnt := { st1.cnt with obj := st1.cnt.obj + 1 } }, true)

/-- `Rebuild::finalizeOrFree` -/
def finalizeOrFree (cfg : Cfg) (g : Geo) (pos : Int) (st : St) (f : Nat) : M St := do
  let (st1, ok) ← finalizeOrThrow cfg g pos st f
  if ok then pure st1 else freeBadEntry g pos st1 f

/-! ### importEntry / storeRebuildParseEntry -/

def testBit (n bit : Nat) : Bool := (n / 2 ^ bit) % 2 == 1

/-- `Rebuild::importEntry`: `none` = false; otherwise the new key and swap_file_sz of the anchor.
    The second component says whether `++stats.badflags` happened. -/
def importEntry (cfg : Cfg) (a : Anchor) (h : Header) (m : Meta) : Option (Key × Nat) × Bool :=
  let knownSize := if h.entrySize > 0 then h.entrySize else a.sfs
  match m with
  | .zeroed => (none, false)
  | .unparsable => (none, false)
  | .ok none _ _ _ => (none, false)                                 -- "Ignoring keyless cache entry"
  | .ok (some mk) sfs flags hdrLen =>
    let sized : Option Nat :=
      if knownSize > 0 then
        if sfs = 0 then some knownSize
        else if sfs = (knownSize + two64 - hdrLen % two64) % two64 then some knownSize
        else if sfs ≠ knownSize then none
        else some sfs
      else some sfs
    match sized with
    | none => (none, false)
    | some sz =>
      if testBit flags cfg.k.keyPrivateBit then (none, true)
      else (some (mk, sz), false)

/-! ### addSlotToEntry and its callers -/

/-- `chainSlots(inode.more, slotId)` resp. `chainSlots(anchor.start, slotId)` at the top of addSlotToEntry
    (`owner` is written by the `finalizeChecksOwner` variant only; no other variant reads it) -/
def chainSlot (g : Geo) (pos : Int) (st : St) (f : Nat) (s : Int) : M St := do
  check (slotOk g pos s) .badSlotId
  check (decide ((st.ls s).more < 0)) .slotChained
  if (st.le f).anchored then do
    let ino := (st.an f).start
    check (slotOk g pos ino) .badSlotId
    let ls1 := upd st.ls s { st.ls s with more := (st.ls ino).more, owner := (f : Int) }
    let ls2 := upd ls1 ino { ls1 ino with more := s }
    pure ({ st with ls := ls2 } : St)
  else
    pure ({ st with ls := upd st.ls s { st.ls s with more := (st.an f).start, owner := (f : Int) },
                    an := upd st.an f { st.an f with start := s } } : St)

/-- `Rebuild::addSlotToEntry` -/
def addSlotToEntry (cfg : Cfg) (g : Geo) (pos : Int) (st : St) (f : Nat) (s : Int) (h : Header) (m : Meta) : M St := do
  check (decide (f < g.entries)) .badFileNo
  check (st.an f).writing .notWriting
  let st1 ← chainSlot g pos st f s
  let st2 : St := { st1 with le := upd st1.le f { st1.le f with size := (st1.le f).size + h.payloadSize } }
  if h.firstSlot = s then
    if (st2.le f).anchored then do
      let st3 ← freeBadEntry g pos st2 f                              -- "inode conflict"
      pure { st3 with cnt := { st3.cnt with clash := st3.cnt.clash + 1 } }
    else
      let st3 : St := { st2 with le := upd st2.le f { st2.le f with anchored := true } }
      match importEntry cfg (st3.an f) h m with
      | (none, bad) =>
        freeBadEntry g pos { st3 with cnt := { st3.cnt with badflags := st3.cnt.badflags + (if bad then 1 else 0) } } f
      | (some (mk, sz), _) =>
        let st4 : St := { st3 with an := upd st3.an f { st3.an f with key := mk, sfs := sz, validated := false } }
        if cfg.v.rejectsAllOnesSizes && (h.entrySize == allOnes || sz == allOnes) then
          freeBadEntry g pos st4 f                                    -- "invalid size" (variant only)
        else if h.entrySize ≠ 0 then
          if h.entrySize = allOnes then throw .entrySizeAllOnes
          else if (st4.an f).sfs = 0 then
            addTail cfg g pos { st4 with an := upd st4.an f { st4.an f with sfs := h.entrySize } } f s h
          else if h.entrySize ≠ (st4.an f).sfs then freeBadEntry g pos st4 f   -- "size mismatch"
          else addTail cfg g pos st4 f s h
        else addTail cfg g pos st4 f s h
  else addTail cfg g pos st2 f s h
where
  /-- the part of addSlotToEntry after the inode handling -/
  addTail (cfg : Cfg) (g : Geo) (pos : Int) (st : St) (f : Nat) (s : Int) (h : Header) : M St := do
    let total := (st.an f).sfs
    if total > 0 ∧ (st.le f).size > total then freeBadEntry g pos st f    -- "overflowing"
    else do
      let st1 ← mapSlot g pos st s h
      if total > 0 ∧ (st1.le f).size = total then finalizeOrFree cfg g pos st1 f else pure st1

/-- `Rebuild::startNewEntry` (+ `StoreMap::openForWritingAt(fileno, false)` + `primeNewEntry`) -/
def startNewEntry (cfg : Cfg) (g : Geo) (pos : Int) (st : St) (f : Nat) (s : Int) (h : Header) (m : Meta) : M St :=
  let a := st.an f
  let ignore : M St := freeUnusedSlot g pos { st with le := upd st.le f { st.le f with state := .ignored } } s false
  if a.writing then ignore                                            -- lockExclusive() failed
  else if !a.waiting && !keyEmpty a.key then ignore                   -- "cannot open existing entry"
  else do
    -- the entry is locked now
    let st1 ← if a.waiting || !keyEmpty a.key then freeChain g { st with an := upd st.an f { a with writing := true } } f true
              else pure { st with an := upd st.an f { a with writing := true } }
    check (keyEmpty (st1.an f).key) .anchorNotEmpty
    let st2 : St := { st1 with an := upd st1.an f { st1.an f with start := -1 }, entryCount := st1.entryCount + 1 }
    -- primeNewEntry
    let st3 : St := { st2 with an := upd st2.an f { st2.an f with key := h.key, start := -1 },
                               le := upd st2.le f { st2.le f with state := .loading, version := h.version, size := 0 } }
    let st4 ← addSlotToEntry cfg g pos st3 f s h m
    check (decide ((st4.an f).sfs ≠ allOnes)) .sfsAllOnes
    pure st4

/-- `Rebuild::useNewSlot` -/
def useNewSlot (cfg : Cfg) (g : Geo) (pos : Int) (st : St) (s : Int) (h : Header) (m : Meta) : M St := do
  let f := fileNo g h.key
  check (decide (f < g.entries)) .badFileNo
  match (st.le f).state with
  | .empty => startNewEntry cfg g pos st f s h m
  | .loading => do
    check (st.an f).writing .notWriting                                -- sameEntry(): writeableEntry()
    if (st.an f).key = h.key then addSlotToEntry cfg g pos st f s h m
    else do
      let st1 ← freeBadEntry g pos st f                                -- "duplicated"
      let st2 ← freeUnusedSlot g pos st1 s true
      pure { st2 with cnt := { st2.cnt with dup := st2.cnt.dup + 1 } }
  | .loaded => do
    let st1 : St := { st with le := upd st.le f { st.le f with state := .corrupted } }
    let st2 ← mapFreeEntry g st1 f
    let st3 ← freeUnusedSlot g pos st2 s true
    pure { st3 with cnt := { st3.cnt with dup := st3.cnt.dup + 1 } }
  | .corrupted => freeUnusedSlot g pos st s true
  | .ignored => freeUnusedSlot g pos st s false

/-- `Rebuild::loadOneSlot` for the slot at position `pos` -/
def loadOneSlot (cfg : Cfg) (g : Geo) (st : St) (pos : Nat) (raw : RawSlot) : M St :=
  let st0 : St := { st with cnt := { st.cnt with scan := st.cnt.scan + 1 } }
  match raw with
  | .truncated => freeUnusedSlot g pos st0 pos true
  | .cell h m =>
    if h.empty then freeUnusedSlot g pos st0 pos false
    else if !h.sane cfg.slotSize cfg.k.cellHeaderSize g.slots then freeUnusedSlot g pos st0 pos true
    else useNewSlot cfg g pos st0 pos h m

/-- `Rebuild::loadingSteps` over the rest of the image -/
def loadAll (cfg : Cfg) (g : Geo) : List RawSlot → Nat → St → M St
  | [], _, st => pure st
  | raw :: rest, pos, st => do
    let st1 ← loadOneSlot cfg g st pos raw
    loadAll cfg g rest (pos + 1) st1

/-- `Rebuild::validateOneEntry` -/
def validateOneEntry (cfg : Cfg) (g : Geo) (st : St) (f : Nat) : M St :=
  let st0 : St := { st with cnt := { st.cnt with validations := st.cnt.validations + 1 } }
  match (st0.le f).state with
  | .loading => finalizeOrFree cfg g g.slots st0 f
  | _ => pure st0

/-- entries `f, f+1, ..., f+n-1` -/
def validateEntries (cfg : Cfg) (g : Geo) : Nat → Nat → St → M St
  | 0, _, st => pure st
  | n + 1, f, st => do
    let st1 ← validateOneEntry cfg g st f
    validateEntries cfg g n (f + 1) st1

/-- `Rebuild::validateOneSlot` -/
def validateOneSlot (g : Geo) (st : St) (s : Nat) : M St := do
  check (slotOk g g.slots s) .badSlotId
  let x := st.ls s
  check (x.freed || (x.mapped && x.finalized)) .unprocessedSlot
  pure { st with cnt := { st.cnt with validations := st.cnt.validations + 1 } }

def validateSlots (g : Geo) : Nat → Nat → St → M St
  | 0, _, st => pure st
  | n + 1, s, st => do
    let st1 ← validateOneSlot g st s
    validateSlots g n (s + 1) st1

/-- the whole job: loadingSteps until doneLoading, then validationSteps until doneValidating -/
def rebuild (cfg : Cfg) (img : List RawSlot) : M St := do
  let g := cfg.geo img.length
  let st1 ← loadAll cfg g img 0 St.init
  let st2 ← validateEntries cfg g g.entries 0 st1
  if cfg.doubleCheck then validateSlots g g.slots 0 st2 else pure st2

end SquidModel.Rock
