/-
C16 (rock half): what a rock cache_dir looks like after squid was killed while writing, and what the restarted squid
serves from it.

Three pieces, each read out of the C++:

* the writer -- `Rock::IoState::tryWrite / writeToBuffer / writeToDisk` (src/fs/rock/RockIoState.cc): an entry is cut
  into slot-size pieces; piece i goes to slot s_i with a `DbCellHeader` {key, firstSlot = s_0, nextSlot = s_(i+1) -- a
  slot that was *reserved* but is not written yet -- or -1 for the last piece, payloadSize, entrySize = total size on
  the last piece only, version = timestamp}.  `txnCells` is that sequence of disk writes.
* the disk -- a crash keeps a prefix of the global write sequence; the write that was in progress may be torn.  An
  image is the list of non-empty sane cells in slot order (`DbCellHeader::empty()/sane()` decide in `loadOneSlot`).
* the rebuild and the hit -- `Rock::Rebuild::useNewSlot / startNewEntry / primeNewEntry / addSlotToEntry / chainSlots /
  importEntry / mapSlot / finalizeOrThrow / finalizeOrFree / freeBadEntry / validateOneEntry` (src/fs/rock/RockRebuild.cc)
  projected on ONE entry position (all cells whose key hashes to that `sfileno`), `Ipc::StoreMap::openForReading`
  (key comparison) and `Store::UnpackHitSwapMeta` (src/store/SwapMetaIn.cc: the key and the URL stored in the swap metadata
  of the first slot of the chain must be the requested ones).

Other entry positions can influence this one only through `finalizeOrThrow`, which accepts any slot that some entry has
mapped and nobody has finalised or freed: that is the parameter `foreign` (slot -> size and next of such a slot).  With
`finalizeChecksOwner` (a candidate repair of C57) foreign slots are never accepted.

`SquidModel.Rock.rebuild` (C57) is the whole-image version of the same code; the driver runs both on every real crash
image and the check compares them with what the restarted squid really served.
-/
import SquidModel.Rock.Model
import SquidModel.Rock.Config

namespace SquidModel.Rock.Crash
open SquidModel.Rock

/-- one non-empty db cell: header, what `Store::UnpackIndexSwapMeta` makes of the bytes after it, and the identity of
    the payload bytes -/
structure Cell (τ : Type) where
  slot : Int
  hdr : Header
  md : Meta
  /-- the key whose URL the STORE_META_URL field of those bytes names (`none`: no such field) -/
  url : Option Key
  data : τ

/-- a slot of the finalised chain: one of this entry's cells or somebody else's slot -/
inductive Link (τ : Type) where
  | own (c : Cell τ)
  | foreign (slot : Int)

inductive PState where
  | empty | loading | loaded | corrupted
  /-- an `assert` killed the process -/
  | crashed (why : Crash)
deriving DecidableEq, Repr

/-- `LoadingEntry` + the `StoreMapAnchor` fields of one entry position -/
structure PSt (τ : Type) where
  state : PState := .empty
  /-- `le.anchored()` -/
  anchored : Bool := false
  /-- `le.size` -/
  size : Nat := 0
  /-- anchor key -/
  key : Key := (0, 0)
  /-- `anchor.basics.swap_file_sz` -/
  sfs : Nat := 0
  /-- `anchor.start` -/
  start : Int := -1
  /-- cells added to the map for this entry (`mapSlot`), most recent first -/
  mapped : List (Cell τ) := []
  /-- the chain `finalizeOrThrow` walked when it made the entry readable -/
  chain : List (Link τ) := []

/-- `freeBadEntry`: the entry is gone for good -/
def corrupt {τ : Type} (st : PSt τ) : PSt τ := { st with state := .corrupted, chain := [] }

def crash {τ : Type} (st : PSt τ) (why : Crash) : PSt τ := { st with state := .crashed why, chain := [] }

def findOwn {τ : Type} (own : List (Cell τ)) (s : Int) : Option (Cell τ) := own.find? (fun c => c.slot == s)

/-- what `finalizeOrThrow` finds at slot `s`: payload size, next, and the link to record -/
def lookup {τ : Type} (cfg : Cfg) (foreign : Int → Option (Nat × Int)) (own : List (Cell τ)) (s : Int) :
    Option (Nat × Int × Link τ) :=
  match findOwn own s with
  | some c => some (c.hdr.payloadSize, c.hdr.nextSlot, .own c)
  | none =>
    if cfg.v.finalizeChecksOwner then none
    else match foreign s with
      | some (sz, nx) => some (sz, nx, .foreign s)
      | none => none

/-- the `while` loop of `finalizeOrThrow`.  `visited` = slots marked `finalized` by this walk.
    `none` = a `Must` failed; otherwise (slot id the loop stopped at, bytes seen, links in walking order). -/
def walk {τ : Type} (cfg : Cfg) (foreign : Int → Option (Nat × Int)) (own : List (Cell τ)) (target : Nat) :
    Nat → Int → Nat → List Int → Option (Int × Nat × List (Link τ))
  | 0, _, _, _ => none
  | fuel + 1, s, seen, visited =>
    if 0 ≤ s ∧ seen < target then
      if s ∈ visited then none                                   -- Must(!slot.finalized())
      else match lookup cfg foreign own s with
        | none => none                                           -- Must(slot.mapped()), loadingSlot() range checks
        | some (sz, nx, l) =>
          if sz = 0 then none                                    -- Must(mapSlice.size > 0)
          else match walk cfg foreign own target fuel nx (seen + sz) (s :: visited) with
            | none => none
            | some (e, total, ls) => some (e, total, l :: ls)
    else some (s, seen, [])

/-- `finalizeOrFree` (`finalizeOrThrow` + `freeBadEntry` on any exception) -/
def finalize {τ : Type} (cfg : Cfg) (slots : Nat) (foreign : Int → Option (Nat × Int)) (st : PSt τ) : PSt τ :=
  if st.size = 0 then corrupt st                                  -- Must(le.size > 0)
  else match walk cfg foreign st.mapped st.size (slots + 1) st.start 0 [] with
    | none => corrupt st
    | some (e, total, ls) =>
      if 0 ≤ e then corrupt st                                    -- Must(slotId < 0)
      else if total ≠ st.size then corrupt st                     -- Must(mappedSize == le.size)
      else if cfg.v.finalizeChecksKnownSize && st.sfs != 0 && st.sfs != st.size then corrupt st
      else { st with state := .loaded, sfs := if st.sfs = 0 then st.size else st.sfs, chain := ls }

/-- the part of `addSlotToEntry` after the inode handling: overflow check, `mapSlot`, early finalisation -/
def addTail {τ : Type} (cfg : Cfg) (slots : Nat) (foreign : Int → Option (Nat × Int)) (st : PSt τ) (c : Cell τ) : PSt τ :=
  if 0 < st.sfs ∧ st.sfs < st.size then corrupt st               -- "overflowing"
  else
    let st1 : PSt τ := { st with mapped := c :: st.mapped }
    if 0 < st1.sfs ∧ st1.size = st1.sfs then finalize cfg slots foreign st1 else st1

/-- `addSlotToEntry` -/
def addSlot {τ : Type} (cfg : Cfg) (slots : Nat) (foreign : Int → Option (Nat × Int)) (st : PSt τ) (c : Cell τ) : PSt τ :=
  -- chainSlots(): the inode becomes anchor.start; later slots are linked behind it
  let st1 : PSt τ := { st with start := if st.anchored then st.start else c.slot, size := st.size + c.hdr.payloadSize }
  if c.hdr.firstSlot = c.slot then
    if st1.anchored then corrupt st1                             -- "inode conflict"
    else
      let st2 : PSt τ := { st1 with anchored := true }
      match importEntry cfg { sfs := st2.sfs } c.hdr c.md with
      | (none, _) => corrupt st2                                 -- "corrupted metainfo"
      | (some (mk, sz), _) =>
        let st3 : PSt τ := { st2 with key := mk, sfs := sz }
        if cfg.v.rejectsAllOnesSizes && (c.hdr.entrySize == allOnes || sz == allOnes) then corrupt st3
        else if c.hdr.entrySize ≠ 0 then
          if c.hdr.entrySize = allOnes then crash st3 .entrySizeAllOnes
          else if st3.sfs = 0 then addTail cfg slots foreign { st3 with sfs := c.hdr.entrySize } c
          else if c.hdr.entrySize ≠ st3.sfs then corrupt st3      -- "size mismatch"
          else addTail cfg slots foreign st3 c
        else addTail cfg slots foreign st3 c
  else addTail cfg slots foreign st1 c

/-- `startNewEntry` + `primeNewEntry` (the map position is free: the rebuild runs before any traffic) -/
def startNew {τ : Type} (cfg : Cfg) (slots : Nat) (foreign : Int → Option (Nat × Int)) (c : Cell τ) : PSt τ :=
  let st0 : PSt τ := { state := .loading, key := c.hdr.key, start := -1, size := 0, sfs := 0, anchored := false }
  let st1 := addSlot cfg slots foreign st0 c
  match st1.state with
  | .crashed _ => st1
  | _ => if st1.sfs = allOnes then crash st1 .sfsAllOnes else st1

/-- `useNewSlot` for a cell that hashes to this position -/
def step {τ : Type} (cfg : Cfg) (slots : Nat) (foreign : Int → Option (Nat × Int)) (st : PSt τ) (c : Cell τ) : PSt τ :=
  match st.state with
  | .empty => startNew cfg slots foreign c
  | .loading => if st.key = c.hdr.key then addSlot cfg slots foreign st c else corrupt st   -- "duplicated"
  | .loaded => corrupt st                                        -- a slot for an already loaded entry
  | .corrupted => st
  | .crashed _ => st

/-- `validateOneEntry` -/
def validate {τ : Type} (cfg : Cfg) (slots : Nat) (foreign : Int → Option (Nat × Int)) (st : PSt τ) : PSt τ :=
  match st.state with
  | .loading => finalize cfg slots foreign st
  | _ => st

/-- all loading steps for the cells of one position, then the validation pass -/
def posRebuild {τ : Type} (cfg : Cfg) (slots : Nat) (foreign : Int → Option (Nat × Int)) (cells : List (Cell τ)) : PSt τ :=
  validate cfg slots foreign (cells.foldl (step cfg slots foreign) {})

/-- the cells `loadOneSlot` hands to `useNewSlot` for position `f` -/
def cellsAt {τ : Type} (cfg : Cfg) (slots : Nat) (f : Nat) (img : List (Cell τ)) : List (Cell τ) :=
  img.filter (fun c => !c.hdr.empty && c.hdr.sane cfg.slotSize cfg.k.cellHeaderSize slots && fileNo (cfg.geo slots) c.hdr.key == f)

/-- what a request for key `k` is served after the rebuild: the chain of the entry at `fileNoByKey(k)` if
    `openForReading` finds that key there and `UnpackHitSwapMeta` accepts the first slot -/
def serve {τ : Type} (cfg : Cfg) (slots : Nat) (foreign : Int → Option (Nat × Int)) (img : List (Cell τ)) (k : Key) :
    Option (List (Link τ)) :=
  let st := posRebuild cfg slots foreign (cellsAt cfg slots (fileNo (cfg.geo slots) k) img)
  if st.state = .loaded ∧ st.key = k then
    match st.chain with
    | .own c :: _ =>
      match c.md with
      | .ok (some mk) _ _ _ => if mk = k ∧ c.url = some k then some st.chain else none     -- CheckSwapMetaKey, CheckSwapMetaUrl
      | _ => none                                                          -- the first slot does not start with swap metadata
    | _ => none
  else none

/-! ### the writer -/

/-- one swap-out: the slots it reserved (in writing order) with the payload bytes each one got -/
structure Txn where
  id : Nat
  key : Key
  version : Nat
  /-- (slot, payloadSize) in the order of the `writeToDisk` calls; the first one is the inode -/
  parts : List (Int × Nat)
  /-- what the swap metadata in the first piece says: swap_file_sz, flags, swap_hdr_sz -/
  metaSfs : Nat := 0
  metaFlags : Nat := 0
  metaHdr : Nat := 75
deriving Repr

def Txn.total (t : Txn) : Nat := (t.parts.map (·.2)).sum

def Txn.first (t : Txn) : Int := match t.parts with | [] => -1 | p :: _ => p.1

/-- payload identity: piece `idx` of transaction `txn` -/
structure Piece where
  txn : Nat
  idx : Nat
deriving DecidableEq, Repr

/-- the `idx`-th and following disk writes of a transaction (`writeToDisk`): every header names the slot reserved for
    the next piece, the last one carries -1 and the entry size -/
def txnCellsFrom (t : Txn) : Nat → List (Int × Nat) → List (Cell Piece)
  | _, [] => []
  | i, [(s, p)] =>
    [{ slot := s, data := ⟨t.id, i⟩, url := if i = 0 then some t.key else none, md := if i = 0 then .ok (some t.key) t.metaSfs t.metaFlags t.metaHdr else .unparsable,
       hdr := { key := t.key, entrySize := t.total, payloadSize := p, version := t.version, firstSlot := t.first, nextSlot := -1 } }]
  | i, (s, p) :: (s', p') :: rest =>
    { slot := s, data := ⟨t.id, i⟩, url := if i = 0 then some t.key else none, md := if i = 0 then .ok (some t.key) t.metaSfs t.metaFlags t.metaHdr else .unparsable,
      hdr := { key := t.key, entrySize := 0, payloadSize := p, version := t.version, firstSlot := t.first, nextSlot := s' } }
    :: txnCellsFrom t (i + 1) ((s', p') :: rest)

def txnCells (t : Txn) : List (Cell Piece) := txnCellsFrom t 0 t.parts

/-- a disk write lands on its slot (cells are kept in slot order) -/
def writeCell {τ : Type} (img : List (Cell τ)) (c : Cell τ) : List (Cell τ) :=
  match img with
  | [] => [c]
  | d :: rest => if c.slot < d.slot then c :: d :: rest else if c.slot = d.slot then c :: rest else d :: writeCell rest c

/-- the disk after a sequence of completed writes -/
def applyWrites {τ : Type} (img : List (Cell τ)) (ws : List (Cell τ)) : List (Cell τ) := ws.foldl writeCell img

end SquidModel.Rock.Crash
