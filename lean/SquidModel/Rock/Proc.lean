/-
The bookkeeping behind `validateOneSlot` (squid -S): when slot chains cannot leave their entry (`Own`), every processed
slot is freed, or mapped and finalized, or mapped and owned by an entry that is still Loading; the slots a Loading entry
owns are exactly its `more` list, none of them is finalized, and their payload sizes add up to the entry's loaded size.
-/
import SquidModel.Rock.FreeOK

namespace SquidModel.Rock

/-- payload size of the usable db cell at `x` (0 elsewhere) -/
def payAt (cfg : Cfg) (img : List RawSlot) (x : Int) : Nat :=
  match usableAt cfg img x with
  | some h => h.payloadSize
  | none => 0

structure ProcCore (cfg : Cfg) (img : List RawSlot) (pP : Int) (ex : Option Nat) (st : St) : Prop where
  done : ∀ x, 0 ≤ x → x < pP → (st.ls x).freed = true ∨ ((st.ls x).mapped = true ∧ (st.ls x).finalized = true) ∨
    ∃ f : Nat, (st.ls x).owner = (f : Int) ∧ (st.le f).state = .loading ∧ (st.ls x).mapped = true
  clean : ∀ (f : Nat) (x : Int), (st.le f).state = .loading → (st.ls x).owner = (f : Int) → (st.ls x).finalized = false
  members : ∀ (f : Nat), (st.le f).state = .loading → ∀ pL L, LoadingWith pL st f L → ∀ x, (st.ls x).owner = (f : Int) → x ∈ L
  sizes : ∀ (f : Nat), (st.le f).state = .loading → ex ≠ some f → ∀ pL L, LoadingWith pL st f L →
    (st.le f).size = sumOn (payAt cfg img) L

theorem procCore_init (cfg : Cfg) (img : List RawSlot) : ProcCore cfg img 0 none St.init :=
  ⟨fun x h0 h1 => by omega, fun f x h => by simp [St.init] at h, fun f h => by simp [St.init] at h,
   fun f h => by simp [St.init] at h⟩

theorem LoadingWith.unique {pL pL' : Int} {st : St} {f : Nat} {L L' : List Int} (h : LoadingWith pL st f L)
    (h' : LoadingWith pL' st f L') : L = L' :=
  Chain.unique h.chain h'.chain

theorem ProcCore.exempt {cfg : Cfg} {img : List RawSlot} {pP : Int} {ex : Option Nat} {st : St} (h : ProcCore cfg img pP none st) :
    ProcCore cfg img pP ex st :=
  ⟨h.done, h.clean, h.members, fun f hf _ => h.sizes f hf (by simp)⟩

theorem ProcCore.close {cfg : Cfg} {img : List RawSlot} {pP : Int} {f : Nat} {st : St} (h : ProcCore cfg img pP (some f) st)
    (hs : (st.le f).state = .loading → ∀ pL L, LoadingWith pL st f L → (st.le f).size = sumOn (payAt cfg img) L) :
    ProcCore cfg img pP none st := by
  refine ⟨h.done, h.clean, h.members, fun k hk _ => ?_⟩
  by_cases hkf : k = f
  · subst hkf; exact hs hk
  · exact h.sizes k hk (by simpa using fun e => hkf e.symm)

/-- an operation that leaves every Loading entry other than `f0` alone, after which `f0` is not Loading, and that
    only sets flags -- finalized/freed only on slots owned by `f0` -/
theorem ProcCore.step {cfg : Cfg} {img : List RawSlot} {pP : Int} {ex : Option Nat} {st st' : St} {f0 : Nat}
    (h : ProcCore cfg img pP ex st)
    (hle : ∀ k, k ≠ f0 → st'.le k = st.le k) (han : ∀ k, k ≠ f0 → st'.an k = st.an k)
    (hf0 : (st'.le f0).state ≠ .loading)
    (hflags : ∀ x, (st'.ls x).owner = (st.ls x).owner ∧ (st'.ls x).more = (st.ls x).more ∧
      ((st.ls x).mapped = true → (st'.ls x).mapped = true) ∧ ((st.ls x).finalized = true → (st'.ls x).finalized = true) ∧
      ((st.ls x).freed = true → (st'.ls x).freed = true))
    (hother : ∀ x, (st.ls x).owner ≠ (f0 : Int) → (st'.ls x).finalized = (st.ls x).finalized ∧ (st'.ls x).freed = (st.ls x).freed)
    (hdone0 : ∀ x, 0 ≤ x → x < pP → (st.ls x).owner = (f0 : Int) → (st.le f0).state = .loading →
      (st'.ls x).freed = true ∨ ((st'.ls x).mapped = true ∧ (st'.ls x).finalized = true)) :
    ProcCore cfg img pP ex st' := by
  -- Loading lists of the other entries can be read in the old state
  have hback : ∀ k, (st'.le k).state = .loading → ∀ pL L, LoadingWith pL st' k L → k ≠ f0 ∧ (st.le k).state = .loading ∧ LoadingWith pL st k L := by
    intro k hk pL L hL
    have hkf : k ≠ f0 := by intro e; subst e; exact hf0 hk
    refine ⟨hkf, by rw [← hle k hkf]; exact hk, hL.transfer (by rw [han k hkf]) (Int.le_refl _) ?_⟩
    intro x hx
    have hox : (st.ls x).owner ≠ (f0 : Int) := by
      rw [← (hflags x).1, (hL.slots x hx).2]
      exact ofNat_inj_of_ne hkf
    exact ⟨(hflags x).2.1.symm, (hother x hox).2.symm, (hflags x).1.symm⟩
  refine ⟨?_, ?_, ?_, ?_⟩
  · intro x h0 h1
    rcases h.done x h0 h1 with a | ⟨a, b⟩ | ⟨k, a, b, c⟩
    · exact Or.inl ((hflags x).2.2.2.2 a)
    · exact Or.inr (Or.inl ⟨(hflags x).2.2.1 a, (hflags x).2.2.2.1 b⟩)
    · by_cases hkf : k = f0
      · subst hkf
        rcases hdone0 x h0 h1 a b with d | d
        · exact Or.inl d
        · exact Or.inr (Or.inl d)
      · exact Or.inr (Or.inr ⟨k, by rw [(hflags x).1]; exact a, by rw [hle k hkf]; exact b, (hflags x).2.2.1 c⟩)
  · intro k x hk hx
    have hkf : k ≠ f0 := by intro e; subst e; exact hf0 hk
    rw [hle k hkf] at hk
    rw [(hflags x).1] at hx
    have hox : (st.ls x).owner ≠ (f0 : Int) := by rw [hx]; exact ofNat_inj_of_ne hkf
    rw [(hother x hox).1]
    exact h.clean k x hk hx
  · intro k hk pL L hL x hx
    obtain ⟨_, hk0, hL0⟩ := hback k hk pL L hL
    rw [(hflags x).1] at hx
    exact h.members k hk0 pL L hL0 x hx
  · intro k hk hne pL L hL
    obtain ⟨hkf, hk0, hL0⟩ := hback k hk pL L hL
    rw [hle k hkf]
    exact h.sizes k hk0 hne pL L hL0

/-- `freeUnusedSlot` of the fresh slot `p` -/
theorem ProcCore.freeFresh {cfg : Cfg} {img : List RawSlot} {g : Geo} {pos p : Int} {ex : Option Nat} {st st' : St}
    (h : ProcCore cfg img p ex st) (hp : FreeSlotPost g pos st p st') (hfresh : st.ls p = {}) (hp0 : 0 ≤ p) :
    ProcCore cfg img (p + 1) ex st' := by
  have hother : ∀ x, x ≠ p → st'.ls x = st.ls x := fun x hx => by rw [hp.ls, upd_other _ _ _ _ hx]
  have hpown : ∀ f : Nat, (st'.ls p).owner ≠ (f : Int) := by
    intro f; rw [hp.ls]; simp only [upd_same]; rw [hfresh]; show (-1 : Int) ≠ (f : Int); omega
  have hback : ∀ k pL L, LoadingWith pL st' k L → LoadingWith pL st k L := by
    intro k pL L hL
    refine hL.transfer (by rw [hp.an]) (Int.le_refl _) ?_
    intro x hx
    have hxp : x ≠ p := by intro e; subst e; exact hpown k (hL.slots x hx).2
    rw [hother x hxp]; exact ⟨rfl, rfl, rfl⟩
  refine ⟨?_, ?_, ?_, ?_⟩
  · intro x h0 h1
    by_cases hxp : x = p
    · subst hxp; left; rw [hp.ls]; simp
    · rw [hother x hxp, hp.le]; exact h.done x h0 (by omega)
  · intro k x hk hx
    have hxp : x ≠ p := by intro e; subst e; exact hpown k hx
    rw [hother x hxp] at hx ⊢; rw [hp.le] at hk
    exact h.clean k x hk hx
  · intro k hk pL L hL x hx
    have hxp : x ≠ p := by intro e; subst e; exact hpown k hx
    rw [hother x hxp] at hx; rw [hp.le] at hk
    exact h.members k hk pL L (hback k pL L hL) x hx
  · intro k hk hne pL L hL
    rw [hp.le] at hk ⊢
    exact h.sizes k hk hne pL L (hback k pL L hL)

/-- changes that no clause can see: same entry states and sizes (except possibly the size of the exempt entry), same
    anchor starts, same slot flags except `mapped` of slots at or above `pP` -/
theorem ProcCore.same {cfg : Cfg} {img : List RawSlot} {pP : Int} {ex : Option Nat} {st st' : St} (h : ProcCore cfg img pP ex st)
    (hst : ∀ k, (st'.le k).state = (st.le k).state) (hsz : ∀ k, ex ≠ some k → (st'.le k).size = (st.le k).size)
    (hstart : ∀ k, (st'.an k).start = (st.an k).start)
    (hflags : ∀ x, (st'.ls x).owner = (st.ls x).owner ∧ (st'.ls x).more = (st.ls x).more ∧
      (st'.ls x).finalized = (st.ls x).finalized ∧ (st'.ls x).freed = (st.ls x).freed ∧
      ((st.ls x).mapped = true → (st'.ls x).mapped = true)) : ProcCore cfg img pP ex st' := by
  have hback : ∀ k pL L, LoadingWith pL st' k L → LoadingWith pL st k L := by
    intro k pL L hL
    refine hL.transfer (hstart k).symm (Int.le_refl _) ?_
    intro x _
    exact ⟨(hflags x).2.1.symm, (hflags x).2.2.2.1.symm, (hflags x).1.symm⟩
  refine ⟨?_, ?_, ?_, ?_⟩
  · intro x h0 h1
    rcases h.done x h0 h1 with a | ⟨a, b⟩ | ⟨k, a, b, c⟩
    · left; rw [(hflags x).2.2.2.1]; exact a
    · right; left; exact ⟨(hflags x).2.2.2.2 a, by rw [(hflags x).2.2.1]; exact b⟩
    · right; right; exact ⟨k, by rw [(hflags x).1]; exact a, by rw [hst k]; exact b, (hflags x).2.2.2.2 c⟩
  · intro k x hk hx
    rw [hst k] at hk; rw [(hflags x).1] at hx; rw [(hflags x).2.2.1]
    exact h.clean k x hk hx
  · intro k hk pL L hL x hx
    rw [hst k] at hk; rw [(hflags x).1] at hx
    exact h.members k hk pL L (hback k pL L hL) x hx
  · intro k hk hne pL L hL
    rw [hst k] at hk; rw [hsz k hne]
    exact h.sizes k hk hne pL L (hback k pL L hL)

/-- `mapSlot` of slot `p`, already owned by the Loading entry `f` -/
theorem ProcCore.mapped {cfg : Cfg} {img : List RawSlot} {p : Int} {ex : Option Nat} {st st' : St} {f : Nat} {hd : Header}
    (h : ProcCore cfg img p ex st) (hp : MapSlotPost st p hd st') (hf : (st.le f).state = .loading)
    (hown : (st.ls p).owner = (f : Int)) (hp0 : 0 ≤ p) : ProcCore cfg img (p + 1) ex st' := by
  have hflags : ∀ x, (st'.ls x).owner = (st.ls x).owner ∧ (st'.ls x).more = (st.ls x).more ∧
      (st'.ls x).finalized = (st.ls x).finalized ∧ (st'.ls x).freed = (st.ls x).freed ∧
      ((st.ls x).mapped = true → (st'.ls x).mapped = true) := by
    intro x
    rw [hp.ls]
    by_cases hx : x = p
    · subst hx; simp
    · simp [upd_other _ _ _ _ hx]
  have h1 : ProcCore cfg img p ex st' :=
    h.same (fun k => by rw [hp.le]) (fun k _ => by rw [hp.le]) (fun k => by rw [hp.an]) hflags
  refine ⟨?_, h1.clean, h1.members, h1.sizes⟩
  intro x h0 hx1
  by_cases hxp : x = p
  · subst hxp
    right; right
    exact ⟨f, by rw [(hflags x).1]; exact hown, by rw [hp.le]; exact hf, by rw [hp.ls]; simp⟩
  · exact h1.done x h0 (by omega)

/-- an Empty position starts Loading: it owns nothing yet -/
theorem ProcCore.begin {cfg : Cfg} {img : List RawSlot} {pP : Int} {st st' : St} {f : Nat} {e : LEntry} {a : Anchor}
    (h : ProcCore cfg img pP none st) (hf : (st.le f).state = .empty) (howned : ∀ (x : Int), (st.ls x).owner ≠ (f : Int))
    (hes : e.size = 0) (has : a.start = -1)
    (hle : st'.le = upd st.le f e) (han : st'.an = upd st.an f a) (hls : st'.ls = st.ls) : ProcCore cfg img pP none st' := by
  have hstate : ∀ k, k ≠ f → st'.le k = st.le k := fun k hk => by rw [hle, upd_other _ _ _ _ hk]
  have hanch : ∀ k, k ≠ f → st'.an k = st.an k := fun k hk => by rw [han, upd_other _ _ _ _ hk]
  have hback : ∀ k, k ≠ f → ∀ pL L, LoadingWith pL st' k L → LoadingWith pL st k L := by
    intro k hk pL L hL
    exact hL.transfer (by rw [hanch k hk]) (Int.le_refl _) (fun x _ => by rw [hls]; exact ⟨rfl, rfl, rfl⟩)
  refine ⟨?_, ?_, ?_, ?_⟩
  · intro x h0 h1
    rw [hls]
    rcases h.done x h0 h1 with a' | a' | ⟨k, a', b, c⟩
    · exact Or.inl a'
    · exact Or.inr (Or.inl a')
    · have hkf : k ≠ f := by intro e'; subst e'; rw [hf] at b; cases b
      exact Or.inr (Or.inr ⟨k, a', by rw [hstate k hkf]; exact b, c⟩)
  · intro k x hk hx
    rw [hls] at hx ⊢
    by_cases hkf : k = f
    · subst hkf; exact absurd hx (howned x)
    · rw [hstate k hkf] at hk; exact h.clean k x hk hx
  · intro k hk pL L hL x hx
    rw [hls] at hx
    by_cases hkf : k = f
    · subst hkf; exact absurd hx (howned x)
    · rw [hstate k hkf] at hk; exact h.members k hk pL L (hback k hkf pL L hL) x hx
  · intro k hk hne pL L hL
    by_cases hkf : k = f
    · subst hkf
      have hc := hL.chain
      rw [han] at hc
      simp only [upd_same, has] at hc
      cases L with
      | nil => rw [hle]; simp [hes, sumOn]
      | cons y ys => have := (Chain.cons_iff.1 hc); omega
    · rw [hstate k hkf] at hk ⊢; exact h.sizes k hk hne pL L (hback k hkf pL L hL)

end SquidModel.Rock

namespace SquidModel.Rock

/-- `chainSlots`: the fresh slot `p` joins the list of the Loading entry `f` (whose size clause is suspended until the
    size update that follows) -/
theorem ProcCore.chain {cfg : Cfg} {img : List RawSlot} {p : Int} {st st1 : St} {f : Nat} {L' : List Int}
    (h : ProcCore cfg img p none st) (hf : (st.le f).state = .loading)
    (hle : st1.le = st.le) (han : ∀ k, k ≠ f → st1.an k = st.an k)
    (hflag : ∀ x, (st1.ls x).finalized = (st.ls x).finalized ∧ (st1.ls x).freed = (st.ls x).freed ∧
      (st1.ls x).mapped = (st.ls x).mapped)
    (hown : ∀ x, x ≠ p → (st1.ls x).owner = (st.ls x).owner) (hownp : (st1.ls p).owner = (f : Int))
    (hmore : ∀ x, x ≠ p → (st.ls x).owner ≠ (f : Int) → (st1.ls x).more = (st.ls x).more)
    (hfreshp : st.ls p = {})
    (hL' : LoadingWith (p + 1) st1 f L') (hpL : p ∈ L') (hmem : ∀ x, (st.ls x).owner = (f : Int) → x ∈ L') :
    ProcCore cfg img p (some f) st1 := by
  have hpk : ∀ k : Nat, (st.ls p).owner ≠ (k : Int) := by
    intro k; rw [hfreshp]; show (-1 : Int) ≠ (k : Int); omega
  have hback : ∀ k, k ≠ f → ∀ pL L, LoadingWith pL st1 k L → LoadingWith pL st k L := by
    intro k hk pL L hL
    refine hL.transfer (by rw [han k hk]) (Int.le_refl _) ?_
    intro x hx
    have hxp : x ≠ p := by
      intro e; subst e
      have := (hL.slots x hx).2
      rw [hownp] at this
      exact ofNat_inj_of_ne hk this.symm
    have hox : (st.ls x).owner ≠ (f : Int) := by
      rw [← hown x hxp, (hL.slots x hx).2]; exact ofNat_inj_of_ne hk
    exact ⟨(hmore x hxp hox).symm, (hflag x).2.1.symm, (hown x hxp).symm⟩
  refine ⟨?_, ?_, ?_, ?_⟩
  · intro x h0 h1
    have hxp : x ≠ p := by omega
    rw [(hflag x).1, (hflag x).2.1, (hflag x).2.2, hown x hxp, hle]
    exact h.done x h0 h1
  · intro k x hk hx
    rw [hle] at hk
    by_cases hxp : x = p
    · subst hxp; rw [(hflag x).1, hfreshp]
    · rw [hown x hxp] at hx; rw [(hflag x).1]; exact h.clean k x hk hx
  · intro k hk pL L hL x hx
    rw [hle] at hk
    by_cases hkf : k = f
    · subst hkf
      have e : L = L' := hL.unique hL'
      subst e
      by_cases hxp : x = p
      · subst hxp; exact hpL
      · rw [hown x hxp] at hx; exact hmem x hx
    · have hxp : x ≠ p := by
        intro e; subst e; rw [hownp] at hx; exact ofNat_inj_of_ne hkf hx.symm
      rw [hown x hxp] at hx
      exact h.members k hk pL L (hback k hkf pL L hL) x hx
  · intro k hk hne pL L hL
    have hkf : k ≠ f := fun e => hne (by rw [e])
    rw [hle] at hk ⊢
    exact h.sizes k hk (by simp) pL L (hback k hkf pL L hL)

end SquidModel.Rock
