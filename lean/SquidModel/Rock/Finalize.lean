/-
`finalizeOrThrow` / `finalizeOrFree`: the walk over the map's slice links terminates within its fuel because every step
marks a slot that was not marked before (pigeonhole), and what a successful walk establishes.
-/
import SquidModel.Rock.Effects

namespace SquidModel.Rock

variable {A : Allow}

/-- facts about every slot the walk marked -/
structure WalkedSlot (cfg : Cfg) (g : Geo) (pos : Int) (f : Nat) (st : St) (x : Int) : Prop where
  ok : slotOk g pos x = true
  fresh : (st.ls x).finalized = false
  mapped : (st.ls x).mapped = true
  unfreed : (st.ls x).freed = false
  owner : cfg.v.finalizeChecksOwner = true → (st.ls x).owner = (f : Int)

structure WalkPost (cfg : Cfg) (g : Geo) (pos : Int) (f : Nat) (target : Nat) (s : Int) (m : Nat) (st : St) (V : List Int)
    (C : List Int) (res : St × Option (Int × Nat)) : Prop where
  le : res.1.le = st.le
  an : res.1.an = st.an
  sl : res.1.sl = st.sl
  free : res.1.free = st.free
  ls : res.1.ls = markFinal st.ls C
  nodup : C.Nodup
  slots : ∀ x ∈ C, WalkedSlot cfg g pos f st x
  notV : ∀ x ∈ C, x ∉ V
  seg : ∃ e, Seg st.next s C e
  done : ∀ e m', res.2 = some (e, m') → Seg st.next s C e ∧ m' = m + sumOn st.ssize C ∧ ¬(0 ≤ e ∧ m' < target)

theorem walk_sat (cfg : Cfg) (g : Geo) (pos : Int) (f : Nat) (target : Nat) :
    ∀ (fuel : Nat) (s : Int) (m : Nat) (st : St) (V : List Int),
      (∀ x ∈ V, (st.ls x).finalized = true) → V.Nodup → InRange V g.slots → g.slots + 1 ≤ fuel + V.length →
      Sat A (walk cfg g pos f target fuel s m st) (fun res => ∃ C, WalkPost cfg g pos f target s m st V C res) := by
  intro fuel
  induction fuel with
  | zero =>
    intro s m st V _ hnd hr hf
    have := nodup_inRange_length hnd hr
    omega
  | succ n ih =>
    intro s m st V hV hnd hr hf
    have base : ∀ r : Option (Int × Nat), (∀ e m', r = some (e, m') → e = s ∧ m' = m ∧ ¬(0 ≤ e ∧ m' < target)) →
        Sat A (pure (st, r) : M (St × Option (Int × Nat))) (fun res => ∃ C, WalkPost cfg g pos f target s m st V C res) := by
      intro r hr'
      refine Sat.pure ⟨[], rfl, rfl, rfl, rfl, (markFinal_nil _).symm, List.nodup_nil, by simp, by simp, ⟨s, rfl⟩, ?_⟩
      intro e m' h
      obtain ⟨h1, h2, h3⟩ := hr' e m' h
      subst h1; subst h2
      exact ⟨rfl, by simp [sumOn], h3⟩
    unfold walk
    by_cases hgo : 0 ≤ s ∧ m < target
    · rw [if_pos hgo]
      by_cases hb : walkBlocked cfg g pos f st s = true
      · rw [if_pos hb]; exact base none (by simp)
      · rw [if_neg hb]
        have hb' : walkBlocked cfg g pos f st s = false := by simpa using hb
        simp only [walkBlocked, Bool.or_eq_false_iff, Bool.not_eq_false', Bool.and_eq_false_imp] at hb'
        obtain ⟨⟨⟨⟨h1, h2'⟩, h3⟩, h4'⟩, h5⟩ := hb'
        have h3' : (st.ls s).mapped = true := by simpa using h3
        have hown : cfg.v.finalizeChecksOwner = true → (st.ls s).owner = (f : Int) := by
          intro hc
          have := h5 hc
          simpa using this
        have hws : WalkedSlot cfg g pos f st s := ⟨h1, h2', h3', h4', hown⟩
        have hsV : s ∉ V := by
          intro hs
          have := hV s hs
          rw [h2'] at this
          exact Bool.false_ne_true this
        have hs_rng : 0 ≤ s ∧ s < (g.slots : Int) := by
          simp only [slotOk, Bool.and_eq_true, decide_eq_true_eq] at h1
          omega
        have hsl1 : (setFinalized st s).sl = st.sl := rfl
        have hls1 : (setFinalized st s).ls = upd st.ls s { st.ls s with finalized := true } := rfl
        simp only [hsl1]
        by_cases h6 : (st.sl s).size = 0
        · rw [if_pos h6]
          refine Sat.pure ⟨[s], rfl, rfl, rfl, rfl, ?_, by simp, ?_, ?_, ⟨st.next s, rfl, hgo.1, rfl⟩, by simp⟩
          · show (setFinalized st s).ls = _
            rw [hls1, ← markFinal_cons, markFinal_nil]
          · intro x hx; simp only [List.mem_singleton] at hx; subst hx; exact hws
          · intro x hx; simp only [List.mem_singleton] at hx; subst hx; exact hsV
        · rw [if_neg h6]
          have hV1 : ∀ x ∈ s :: V, ((setFinalized st s).ls x).finalized = true := by
            intro x hx
            by_cases hxs : x = s
            · subst hxs; simp [hls1]
            · have hxV : x ∈ V := by
                cases hx with
                | head => exact absurd rfl hxs
                | tail _ h => exact h
              simp [hls1, upd_other _ _ _ _ hxs, hV x hxV]
          have hnd1 : (s :: V).Nodup := List.nodup_cons.2 ⟨hsV, hnd⟩
          have hr1 : InRange (s :: V) g.slots := by
            intro x hx
            cases hx with
            | head => exact hs_rng
            | tail _ h => exact hr x h
          have hf1 : g.slots + 1 ≤ n + (s :: V).length := by simp only [List.length_cons]; omega
          refine Sat.mono (ih (st.sl s).next (m + (st.sl s).size) (setFinalized st s) (s :: V) hV1 hnd1 hr1 hf1) ?_
          rintro res ⟨C', hp⟩
          have hsC : s ∉ C' := fun h => hp.notV s h (List.mem_cons_self ..)
          refine ⟨s :: C', hp.le, hp.an, hp.sl, hp.free, ?_, List.nodup_cons.2 ⟨hsC, hp.nodup⟩, ?_, ?_,
            (by obtain ⟨e', he'⟩ := hp.seg; exact ⟨e', rfl, hgo.1, he'⟩), ?_⟩
          · rw [hp.ls, hls1]; exact markFinal_cons _ _ _
          · intro x hx
            cases hx with
            | head => exact hws
            | tail _ hx =>
              have hxs : x ≠ s := fun h => hsC (h ▸ hx)
              have w := hp.slots x hx
              have e1 : (setFinalized st s).ls x = st.ls x := by simp [hls1, upd_other _ _ _ _ hxs]
              exact ⟨w.ok, e1 ▸ w.fresh, e1 ▸ w.mapped, e1 ▸ w.unfreed, fun hc => e1 ▸ w.owner hc⟩
          · intro x hx
            cases hx with
            | head => exact hsV
            | tail _ hx => exact fun h => hp.notV x hx (List.mem_cons_of_mem _ h)
          · intro e m' hres
            obtain ⟨a, b, c⟩ := hp.done e m' hres
            refine ⟨⟨rfl, hgo.1, a⟩, ?_, c⟩
            have hss : (setFinalized st s).ssize = st.ssize := rfl
            rw [b, hss]
            simp only [sumOn, St.ssize]
            omega
    · rw [if_neg hgo]
      refine base (some (s, m)) ?_
      intro e m' h
      simp only [Option.some.injEq, Prod.mk.injEq] at h
      obtain ⟨h1, h2⟩ := h
      subst h1; subst h2
      exact ⟨rfl, rfl, hgo⟩

/-- the anchor `closeForWriting` leaves behind after a successful finalisation -/
def finalAnchor (a : Anchor) (size : Nat) : Anchor :=
  { a with sfs := if a.sfs = 0 then size else a.sfs, validated := true, writing := false }

structure FinalizeOk (cfg : Cfg) (g : Geo) (pos : Int) (st : St) (f : Nat) (C : List Int) (st' : St) : Prop where
  chain : Chain st.next (st.an f).start C
  nodup : C.Nodup
  slots : ∀ x ∈ C, WalkedSlot cfg g pos f st x
  sum : sumOn st.ssize C = (st.le f).size
  pos : 0 < (st.le f).size
  known : cfg.v.finalizeChecksKnownSize = true → (st.an f).sfs = 0 ∨ (st.an f).sfs = (st.le f).size
  ls : st'.ls = markFinal st.ls C
  sl : st'.sl = st.sl
  free : st'.free = st.free
  le : st'.le = upd st.le f { st.le f with state := .loaded }
  an : st'.an = upd st.an f (finalAnchor (st.an f) (st.le f).size)

structure FinalizeThrown (cfg : Cfg) (g : Geo) (pos : Int) (st : St) (f : Nat) (C : List Int) (st' : St) : Prop where
  marked : ∀ x ∈ C, slotOk g pos x = true
  slots : ∀ x ∈ C, WalkedSlot cfg g pos f st x
  seg : ∃ e, Seg st.next (st.an f).start C e
  ls : st'.ls = markFinal st.ls C
  sl : st'.sl = st.sl
  free : st'.free = st.free
  le : st'.le = st.le
  an : st'.an = st.an

theorem finalizeOrThrow_sat (cfg : Cfg) (g : Geo) (pos : Int) (st : St) (f : Nat) (hw : (st.an f).writing = true) :
    Sat A (finalizeOrThrow cfg g pos st f)
      (fun res => ∃ C, (res.2 = true → FinalizeOk cfg g pos st f C res.1) ∧ (res.2 = false → FinalizeThrown cfg g pos st f C res.1)) := by
  unfold finalizeOrThrow
  refine Sat.check hw ?_
  by_cases hz : (st.le f).size = 0
  · simp only [hz, if_true]
    exact Sat.pure ⟨[], by simp, fun _ => ⟨by simp, by simp, ⟨_, rfl⟩, (markFinal_nil _).symm, rfl, rfl, rfl, rfl⟩⟩
  · simp only [hz, if_false]
    refine Sat.bind (walk_sat cfg g pos f (st.le f).size (g.slots + 1) (st.an f).start 0 st [] (by simp) List.nodup_nil
      (by intro x hx; cases hx) (by simp)) ?_
    rintro ⟨st1, r⟩ ⟨C, hp⟩
    have thrown : FinalizeThrown cfg g pos st f C st1 := ⟨fun x hx => (hp.slots x hx).ok, hp.slots, hp.seg, hp.ls, hp.sl, hp.free, hp.le, hp.an⟩
    cases r with
    | none => exact Sat.pure ⟨C, by simp, fun _ => thrown⟩
    | some em =>
      obtain ⟨e, m'⟩ := em
      obtain ⟨hseg, hm, hstop⟩ := hp.done e m' rfl
      simp only
      by_cases he : 0 ≤ e
      · simp only [he, if_true]; exact Sat.pure ⟨C, by simp, fun _ => thrown⟩
      · simp only [he, if_false]
        have hle : st1.le f = st.le f := by rw [hp.le]
        have han : st1.an f = st.an f := by rw [hp.an]
        by_cases hsz : m' ≠ (st1.le f).size
        · simp only [hsz, ne_eq, not_false_eq_true, if_true]; exact Sat.pure ⟨C, by simp, fun _ => thrown⟩
        · simp only [hsz, if_false]
          have hsz' : m' = (st.le f).size := by
            have : m' = (st1.le f).size := by simpa using hsz
            rw [this, hle]
          by_cases hk : (cfg.v.finalizeChecksKnownSize && (st1.an f).sfs != 0 && (st1.an f).sfs != (st1.le f).size) = true
          · simp only [hk, if_true]; exact Sat.pure ⟨C, by simp, fun _ => thrown⟩
          · simp only [hk, if_false, Bool.false_eq_true]
            refine Sat.pure ⟨C, fun _ => ?_, fun h => by simp at h⟩
            refine ⟨⟨e, hseg, by omega⟩, hp.nodup, hp.slots, by omega, by omega, ?_, hp.ls, hp.sl, hp.free, ?_, ?_⟩
            · intro hflag
              rw [han, hle] at hk
              simp only [hflag, Bool.true_and, Bool.and_eq_true, bne_iff_ne, ne_eq, not_and, Decidable.not_not] at hk
              by_cases h0 : (st.an f).sfs = 0
              · exact Or.inl h0
              · exact Or.inr (hk h0)
            · have e1 : st1.le = st.le := hp.le
              simp only [e1]
            · have e1 : st1.le = st.le := hp.le
              have e2 : st1.an = st.an := hp.an
              simp only [e1, e2, finalAnchor]

/-- `finalizeOrFree`: either the entry became readable or it was freed -/
structure FreedAfterWalk (cfg : Cfg) (g : Geo) (pos : Int) (st : St) (f : Nat) (C L : List Int) (st' : St) : Prop where
  le : st'.le = upd st.le f { st.le f with state := .corrupted }
  an : st'.an = upd st.an f rewound
  sl : st'.sl = st.sl
  ls : st'.ls = markFreed (markFinal st.ls C) L
  free : ∀ x, x ∈ st'.free ↔ x ∈ L ∨ x ∈ st.free
  ok : ∀ x ∈ L, slotOk g pos x = true
  marked : ∀ x ∈ C, slotOk g pos x = true
  slots : ∀ x ∈ C, WalkedSlot cfg g pos f st x
  seg : ∃ e, Seg st.next (st.an f).start C e

theorem more_markFinal (st : St) (C : List Int) (ls' : Int → LSlot) (h : ls' = markFinal st.ls C) :
    (fun x => (ls' x).more) = st.more := by
  funext x
  subst h
  by_cases hx : x ∈ C <;> simp [markFinal, hx, St.more]

theorem finalizeOrFree_sat (cfg : Cfg) (g : Geo) (pos : Int) (st : St) (f : Nat) (L : List Int)
    (hc : Chain st.more (st.an f).start L) (hlen : L.length ≤ g.slots)
    (hf : f < g.entries) (hw : (st.an f).writing = true) (hsz : (st.an f).start < 0 ∨ 0 < (st.le f).size)
    (hnd : L.Nodup) (hall : ∀ x ∈ L, slotOk g pos x = true ∧ (st.ls x).freed = false)
    (hp : A.pushed = true ∨ ∀ x ∈ L, x ∉ st.free) :
    Sat A (finalizeOrFree cfg g pos st f)
      (fun st' => ∃ C, FinalizeOk cfg g pos st f C st' ∨ FreedAfterWalk cfg g pos st f C L st') := by
  unfold finalizeOrFree
  refine Sat.bind (finalizeOrThrow_sat cfg g pos st f hw) ?_
  rintro ⟨st1, ok⟩ ⟨C, hok, hthrown⟩
  cases ok with
  | true => exact Sat.pure ⟨C, Or.inl (hok rfl)⟩
  | false =>
    have ht := hthrown rfl
    simp only [Bool.false_eq_true, if_false]
    have hc1 : Chain st1.more (st1.an f).start L := by
      have : st1.more = st.more := more_markFinal st C st1.ls ht.ls
      rw [this, ht.an]; exact hc
    have hall1 : ∀ x ∈ L, slotOk g pos x = true ∧ (st1.ls x).freed = false := by
      intro x hx
      refine ⟨(hall x hx).1, ?_⟩
      rw [ht.ls]
      by_cases hxC : x ∈ C <;> simp [markFinal, hxC, (hall x hx).2]
    refine Sat.mono (freeBadEntry_sat g pos st1 f L hc1 hlen hf (by rw [ht.an]; exact hw)
      (by rw [ht.an, ht.le]; exact hsz) hnd hall1 (by rw [ht.free]; exact hp)) ?_
    intro st' h'
    refine ⟨C, Or.inr ⟨?_, ?_, ?_, ?_, ?_, h'.ok, ?_, ht.slots, ht.seg⟩⟩
    · rw [h'.le, ht.le]
    · rw [h'.an, ht.an]
    · rw [h'.sl, ht.sl]
    · rw [h'.ls, ht.ls]
    · intro x; rw [h'.free x, ht.free]
    · exact ht.marked

end SquidModel.Rock
