/-
What each primitive of the Rock::Rebuild model does to the state when it does not crash, and that it never runs out of fuel.
-/
import SquidModel.Rock.Chain

namespace SquidModel.Rock

/-- which of the four crash classes a db image can drive the real rebuild into (each with a witness in
    Properties/C57.lean) a statement tolerates: the two all-ones size assertions, a slot pushed on the free stack twice,
    an unprocessed slot under squid -S -/
structure Allow where
  allOnes : Bool
  pushed : Bool
  unprocessed : Bool

/-- all four -/
def Allow.all : Allow := { allOnes := true, pushed := true, unprocessed := true }

def allowed (A : Allow) : Crash → Bool
  | .entrySizeAllOnes => A.allOnes
  | .sfsAllOnes => A.allOnes
  | .pushedTwice => A.pushed
  | .unprocessedSlot => A.unprocessed
  | _ => false

/-- the outcome is a value satisfying `P`, or one of the crashes `A` tolerates (in particular never `outOfFuel`, a failed
    slot/anchor assertion or a bad id) -/
def Sat {α : Type} (A : Allow) (m : M α) (P : α → Prop) : Prop :=
  match m with
  | .ok a => P a
  | .error e => allowed A e = true

variable {A : Allow}

theorem Sat.pure {α : Type} {a : α} {P : α → Prop} (h : P a) : Sat A (pure a : M α) P := h

theorem Sat.throw {α : Type} {e : Crash} {P : α → Prop} (h : allowed A e = true) : Sat A (throw e : M α) P := h

theorem Sat.bind {α β : Type} {m : M α} {k : α → M β} {P : α → Prop} {Q : β → Prop}
    (h : Sat A m P) (hk : ∀ a, P a → Sat A (k a) Q) : Sat A (m >>= k) Q := by
  cases m with
  | ok a => exact hk a h
  | error e => exact h

theorem Sat.mono {α : Type} {m : M α} {P Q : α → Prop} (h : Sat A m P) (hpq : ∀ a, P a → Q a) : Sat A m Q := by
  cases m with
  | ok a => exact hpq a h
  | error e => exact h

theorem Sat.of_ok {α : Type} {m : M α} {P : α → Prop} {a : α} (h : Sat A m P) (hm : m = .ok a) : P a := by
  subst hm; exact h

theorem Sat.ne_fuel {α : Type} {m : M α} {P : α → Prop} (h : Sat A m P) : m ≠ .error .outOfFuel := by
  intro hm; subst hm; have h' : allowed A Crash.outOfFuel = true := h; cases h'

theorem Sat.of_error {α : Type} {m : M α} {P : α → Prop} {e : Crash} (h : Sat A m P) (hm : m = .error e) : allowed A e = true := by
  subst hm; exact h

/-- a check that cannot fail -/
theorem Sat.check {β : Type} {c : Bool} {e : Crash} {k : Unit → M β} {Q : β → Prop}
    (hc : c = true) (hk : Sat A (k ()) Q) : Sat A (SquidModel.Rock.check c e >>= k) Q := by
  subst hc; exact hk

/-- a check whose failure is one of the allowed crashes -/
theorem Sat.checkA {β : Type} {c : Bool} {e : Crash} {k : Unit → M β} {Q : β → Prop}
    (he : allowed A e = true) (hk : c = true → Sat A (k ()) Q) : Sat A (SquidModel.Rock.check c e >>= k) Q := by
  cases c with
  | true => exact hk rfl
  | false => exact he

theorem Sat.ite {α : Type} {c : Prop} [Decidable c] {a b : M α} {P : α → Prop}
    (ha : c → Sat A a P) (hb : ¬c → Sat A b P) : Sat A (if c then a else b) P := by
  by_cases h : c
  · simpa [h] using ha h
  · simpa [h] using hb h

/-! ### table views -/

def St.more (st : St) : Int → Int := fun x => (st.ls x).more
def St.next (st : St) : Int → Int := fun x => (st.sl x).next
def St.ssize (st : St) : Int → Nat := fun x => (st.sl x).size

def markFreed (ls : Int → LSlot) (L : List Int) : Int → LSlot :=
  fun x => if x ∈ L then { ls x with freed := true } else ls x

def markFinal (ls : Int → LSlot) (L : List Int) : Int → LSlot :=
  fun x => if x ∈ L then { ls x with finalized := true } else ls x

def clearOn (sl : Int → Slice) (L : List Int) : Int → Slice :=
  fun x => if x ∈ L then {} else sl x

theorem markFreed_nil (ls : Int → LSlot) : markFreed ls [] = ls := by
  funext x; simp [markFreed]

theorem markFinal_nil (ls : Int → LSlot) : markFinal ls [] = ls := by
  funext x; simp [markFinal]

theorem clearOn_nil (sl : Int → Slice) : clearOn sl [] = sl := by
  funext x; simp [clearOn]

theorem markFreed_cons (ls : Int → LSlot) (x : Int) (xs : List Int) :
    markFreed (upd ls x { ls x with freed := true }) xs = markFreed ls (x :: xs) := by
  funext y
  by_cases hyx : y = x
  · subst hyx; by_cases hy : y ∈ xs <;> simp [markFreed, hy]
  · by_cases hy : y ∈ xs <;> simp [markFreed, hy, hyx, upd_other]

theorem markFinal_cons (ls : Int → LSlot) (x : Int) (xs : List Int) :
    markFinal (upd ls x { ls x with finalized := true }) xs = markFinal ls (x :: xs) := by
  funext y
  by_cases hyx : y = x
  · subst hyx; by_cases hy : y ∈ xs <;> simp [markFinal, hy]
  · by_cases hy : y ∈ xs <;> simp [markFinal, hy, hyx, upd_other]

theorem clearOn_cons (sl : Int → Slice) (x : Int) (xs : List Int) :
    clearOn (upd sl x {}) xs = clearOn sl (x :: xs) := by
  funext y
  by_cases hyx : y = x
  · subst hyx; by_cases hy : y ∈ xs <;> simp [clearOn, hy]
  · by_cases hy : y ∈ xs <;> simp [clearOn, hy, hyx, upd_other]

/-! ### push / freeSlot / freeUnusedSlot -/

/-- the fields other than the counters -/
structure FreeSlotPost (g : Geo) (pos : Int) (st : St) (s : Int) (st' : St) : Prop where
  le : st'.le = st.le
  an : st'.an = st.an
  sl : st'.sl = st.sl
  ec : st'.entryCount = st.entryCount
  ls : st'.ls = upd st.ls s { st.ls s with freed := true }
  free : st'.free = s :: st.free
  ok : slotOk g pos s = true

theorem push_sat (st : St) (s : Int) (hp : A.pushed = true ∨ s ∉ st.free) :
    Sat A (push st s) (fun st' => st' = { st with free := s :: st.free }) := by
  unfold push
  split
  · rename_i hin
    cases hp with
    | inl h => exact Sat.throw h
    | inr h => exact absurd hin h
  · exact Sat.pure rfl

theorem freeSlot_sat (g : Geo) (pos : Int) (st : St) (s : Int) (inv : Bool)
    (hok : slotOk g pos s = true) (hfr : (st.ls s).freed = false) (hp : A.pushed = true ∨ s ∉ st.free) :
    Sat A (freeSlot g pos st s inv) (FreeSlotPost g pos st s) := by
  unfold freeSlot
  refine Sat.check hok ?_
  refine Sat.check (by rw [hfr]; rfl) ?_
  refine Sat.mono (push_sat _ _ (by cases inv <;> exact hp)) ?_
  intro st' h
  subst h
  cases inv <;> exact ⟨rfl, rfl, rfl, rfl, rfl, rfl, hok⟩

theorem freeUnusedSlot_sat (g : Geo) (pos : Int) (st : St) (s : Int) (inv : Bool)
    (hok : slotOk g pos s = true) (hm : (st.ls s).mapped = false) (hfr : (st.ls s).freed = false)
    (hp : A.pushed = true ∨ s ∉ st.free) :
    Sat A (freeUnusedSlot g pos st s inv) (FreeSlotPost g pos st s) := by
  unfold freeUnusedSlot
  refine Sat.check hok ?_
  refine Sat.check (by rw [hm]; rfl) ?_
  exact freeSlot_sat g pos st s inv hok hfr hp

/-! ### the loop of freeBadEntry -/

structure FreeLoopPost (g : Geo) (pos : Int) (st : St) (L : List Int) (st' : St) : Prop where
  le : st'.le = st.le
  an : st'.an = st.an
  sl : st'.sl = st.sl
  ec : st'.entryCount = st.entryCount
  ls : st'.ls = markFreed st.ls L
  free : ∀ x, x ∈ st'.free ↔ x ∈ L ∨ x ∈ st.free
  ok : ∀ x ∈ L, slotOk g pos x = true

theorem freeBadLoop_sat (g : Geo) (pos : Int) : ∀ (L : List Int) (fuel : Nat) (s : Int) (st : St),
    Chain st.more s L → L.length < fuel → L.Nodup → (∀ x ∈ L, slotOk g pos x = true ∧ (st.ls x).freed = false) →
    (A.pushed = true ∨ ∀ x ∈ L, x ∉ st.free) →
    Sat A (freeBadLoop g pos fuel s st) (FreeLoopPost g pos st L) := by
  intro L
  induction L with
  | nil =>
    intro fuel s st hc hf _ _ _
    have hs := Chain.nil_iff.1 hc
    cases fuel with
    | zero => simp at hf
    | succ n =>
      simp only [freeBadLoop, hs, if_true]
      exact Sat.pure ⟨rfl, rfl, rfl, rfl, (markFreed_nil _).symm, by simp, by simp⟩
  | cons x xs ih =>
    intro fuel s st hc hf hnd hall hp
    obtain ⟨hsx, hx0, hrest⟩ := Chain.cons_iff.1 hc
    subst hsx
    obtain ⟨hsxs, hnd'⟩ := List.nodup_cons.1 hnd
    have hps : A.pushed = true ∨ s ∉ st.free := hp.imp id (fun h => h s (List.mem_cons_self ..))
    obtain ⟨hok, hfr⟩ := hall s (List.mem_cons_self ..)
    cases fuel with
    | zero => simp at hf
    | succ n =>
      have hneg : ¬ s < 0 := by omega
      simp only [freeBadLoop, hneg, if_false]
      refine Sat.check hok ?_
      refine Sat.bind (freeSlot_sat g pos st s true hok hfr hps) ?_
      intro st1 h1
      have hmore : st1.more = st.more := by
        funext y
        simp only [St.more, h1.ls]
        by_cases hy : y = s
        · subst hy; simp
        · simp [upd_other _ _ _ _ hy]
      have hc1 : Chain st1.more (st.ls s).more xs := by rw [hmore]; exact hrest
      have hall1 : ∀ y ∈ xs, slotOk g pos y = true ∧ (st1.ls y).freed = false := by
        intro y hy
        have hys : y ≠ s := fun e => hsxs (e ▸ hy)
        rw [h1.ls, upd_other _ _ _ _ hys]
        exact hall y (List.mem_cons_of_mem _ hy)
      have hp1 : A.pushed = true ∨ ∀ y ∈ xs, y ∉ st1.free := by
        refine hp.imp id (fun h y hy => ?_)
        rw [h1.free]
        intro hm
        cases hm with
        | head => exact hsxs hy
        | tail _ hm => exact h y (List.mem_cons_of_mem _ hy) hm
      refine Sat.mono (ih n (st.ls s).more st1 hc1 (by simpa using hf) hnd' hall1 hp1) ?_
      intro st' h'
      refine ⟨h'.le.trans h1.le, h'.an.trans h1.an, h'.sl.trans h1.sl, h'.ec.trans h1.ec, ?_, ?_, ?_⟩
      · rw [h'.ls, h1.ls, markFreed_cons]
      · intro y
        rw [h'.free y, h1.free]
        simp only [List.mem_cons]
        constructor
        · rintro (h | h | h)
          · exact Or.inl (Or.inr h)
          · exact Or.inl (Or.inl h)
          · exact Or.inr h
        · rintro ((h | h) | h)
          · exact Or.inr (Or.inl h)
          · exact Or.inl h
          · exact Or.inr (Or.inr h)
      · intro y hy
        cases hy with
        | head => exact hok
        | tail _ hy => exact h'.ok y hy

/-! ### freeBadEntry -/

structure FreeBadPost (g : Geo) (pos : Int) (st : St) (f : Nat) (L : List Int) (st' : St) : Prop where
  le : st'.le = upd st.le f { st.le f with state := .corrupted }
  an : st'.an = upd st.an f rewound
  sl : st'.sl = st.sl
  ls : st'.ls = markFreed st.ls L
  free : ∀ x, x ∈ st'.free ↔ x ∈ L ∨ x ∈ st.free
  ok : ∀ x ∈ L, slotOk g pos x = true

theorem freeBadEntry_sat (g : Geo) (pos : Int) (st : St) (f : Nat) (L : List Int)
    (hc : Chain st.more (st.an f).start L) (hlen : L.length ≤ g.slots)
    (hf : f < g.entries) (hw : (st.an f).writing = true) (hsz : (st.an f).start < 0 ∨ 0 < (st.le f).size)
    (hnd : L.Nodup) (hall : ∀ x ∈ L, slotOk g pos x = true ∧ (st.ls x).freed = false)
    (hp : A.pushed = true ∨ ∀ x ∈ L, x ∉ st.free) :
    Sat A (freeBadEntry g pos st f) (FreeBadPost g pos st f L) := by
  unfold freeBadEntry
  refine Sat.check (by simpa using hf) ?_
  refine Sat.check (by simpa using hw) ?_
  refine Sat.check (by
    simp only [upd_same, Bool.or_eq_true, decide_eq_true_eq]
    exact hsz) ?_
  refine Sat.bind (freeBadLoop_sat g pos L (g.slots + 1) _ _ (by exact hc) (by omega) hnd (by exact hall) (by exact hp)) ?_
  intro st2 h2
  refine Sat.check (by rw [h2.an]; simpa using hw) ?_
  refine Sat.pure ⟨?_, ?_, ?_, ?_, ?_, h2.ok⟩
  · simp [h2.le]
  · simp [h2.an]
  · simp [h2.sl]
  · simp [h2.ls]
  · intro x; simpa using h2.free x

/-! ### StoreMap::freeChainAt / freeChain / freeEntry -/

structure FreeChainPost (st : St) (C : List Int) (st' : St) : Prop where
  le : st'.le = st.le
  an : st'.an = st.an
  ls : st'.ls = st.ls
  sl : st'.sl = clearOn st.sl C
  free : ∀ x, x ∈ st'.free ↔ x ∈ C ∨ x ∈ st.free

theorem freeChainAt_sat (g : Geo) : ∀ (C : List Int) (fuel : Nat) (s : Int) (st : St),
    Chain st.next s C → C.Nodup → C.length < fuel → (∀ x ∈ C, x < (g.slots : Int)) →
    (A.pushed = true ∨ ∀ x ∈ C, x ∉ st.free) →
    Sat A (freeChainAt g fuel s st) (FreeChainPost st C) := by
  intro C
  induction C with
  | nil =>
    intro fuel s st hc _ hf _ _
    have hs := Chain.nil_iff.1 hc
    cases fuel with
    | zero => simp at hf
    | succ n =>
      simp only [freeChainAt, hs, if_true]
      exact Sat.pure ⟨rfl, rfl, rfl, (clearOn_nil _).symm, by simp⟩
  | cons x xs ih =>
    intro fuel s st hc hnd hf hr hp
    obtain ⟨hsx, hx0, hrest⟩ := Chain.cons_iff.1 hc
    subst hsx
    obtain ⟨hxn, hnd'⟩ := List.nodup_cons.1 hnd
    cases fuel with
    | zero => simp at hf
    | succ n =>
      have hneg : ¬ s < 0 := by omega
      simp only [freeChainAt, hneg, if_false]
      refine Sat.check (by simpa using hr s (List.mem_cons_self ..)) ?_
      refine Sat.bind (push_sat _ _ (hp.imp id (fun h => h s (List.mem_cons_self ..)))) ?_
      intro st2 h2
      subst h2
      have hc1 : Chain (St.next { st with sl := upd st.sl s {}, free := s :: st.free }) (st.sl s).next xs := by
        refine Chain.frame ?_ hrest
        intro y hy
        have : y ≠ s := fun h => hxn (h ▸ hy)
        simp [St.next, upd_other _ _ _ _ this]
      have hp1 : A.pushed = true ∨ ∀ y ∈ xs, y ∉ (s :: st.free) := by
        refine hp.imp id (fun h y hy hm => ?_)
        cases hm with
        | head => exact hxn hy
        | tail _ hm => exact h y (List.mem_cons_of_mem _ hy) hm
      refine Sat.mono (ih n _ _ hc1 hnd' (by simpa using hf) (fun y hy => hr y (List.mem_cons_of_mem _ hy)) hp1) ?_
      intro st' h'
      refine ⟨h'.le, h'.an, h'.ls, ?_, ?_⟩
      · rw [h'.sl]; exact clearOn_cons _ _ _
      · intro y
        rw [h'.free y]
        simp only [List.mem_cons]
        constructor
        · rintro (h | h | h)
          · exact Or.inl (Or.inr h)
          · exact Or.inl (Or.inl h)
          · exact Or.inr h
        · rintro ((h | h) | h)
          · exact Or.inr (Or.inl h)
          · exact Or.inl h
          · exact Or.inr (Or.inr h)

/-- `StoreMap::freeEntry` on an unlocked anchor whose chain is `C` -/
structure MapFreePost (st : St) (f : Nat) (C : List Int) (st' : St) : Prop where
  le : st'.le = st.le
  ls : st'.ls = st.ls
  an : st'.an = upd st.an f rewound
  sl : st'.sl = st.sl ∨ st'.sl = clearOn st.sl C
  free : ∀ x, x ∈ st'.free → x ∈ C ∨ x ∈ st.free

theorem mapFreeEntry_sat (g : Geo) (st : St) (f : Nat) (C : List Int)
    (hw : (st.an f).writing = false) (hc : Chain st.next (st.an f).start C) (hnd : C.Nodup) (hlen : C.length ≤ g.slots)
    (hr : ∀ x ∈ C, x < (g.slots : Int)) (hp : A.pushed = true ∨ ∀ x ∈ C, x ∉ st.free) :
    Sat A (mapFreeEntry g st f) (MapFreePost st f C) := by
  unfold mapFreeEntry
  simp only [hw, Bool.not_false, if_true]
  unfold freeChain
  by_cases hk : keyEmpty (st.an f).key = true
  · simp only [upd_same, hk, Bool.not_true, Bool.false_eq_true, if_false]
    refine Sat.pure ⟨rfl, rfl, ?_, Or.inl rfl, fun x h => Or.inr h⟩
    funext y
    by_cases hy : y = f
    · subst hy; simp [rewound]
    · simp [upd_other _ _ _ _ hy]
  · simp only [upd_same, hk, Bool.not_false, if_true]
    have hc' : Chain (St.next { st with an := upd st.an f { st.an f with writing := true } }) (st.an f).start C := hc
    refine Sat.bind (freeChainAt_sat g C (g.slots + 1) _ _ hc' hnd (by omega) hr (by exact hp)) ?_
    intro st1 h1
    refine Sat.pure ⟨?_, ?_, ?_, Or.inr ?_, ?_⟩
    · simp [h1.le]
    · simp [h1.ls]
    · simp only [h1.an]
      funext y
      by_cases hy : y = f
      · subst hy; simp [rewound]
      · simp [upd_other _ _ _ _ hy]
    · simp [h1.sl]
    · intro x hx
      have := (h1.free x).1 (by simpa using hx)
      simpa using this

/-! ### mapSlot -/

structure MapSlotPost (st : St) (s : Int) (h : Header) (st' : St) : Prop where
  le : st'.le = st.le
  an : st'.an = st.an
  free : st'.free = st.free
  ls : st'.ls = upd st.ls s { st.ls s with mapped := true }
  sl : st'.sl = upd st.sl s { size := h.payloadSize, next := h.nextSlot }

theorem mapSlot_sat (g : Geo) (pos : Int) (st : St) (s : Int) (h : Header)
    (hok : slotOk g pos s = true) (hm : (st.ls s).mapped = false) (hfr : (st.ls s).freed = false) :
    Sat A (mapSlot g pos st s h) (MapSlotPost st s h) := by
  unfold mapSlot
  refine Sat.check hok ?_
  refine Sat.check (by rw [hm]; rfl) ?_
  refine Sat.check (by rw [hfr]; rfl) ?_
  exact Sat.pure ⟨rfl, rfl, rfl, rfl, rfl⟩

end SquidModel.Rock
