/-
Lemmas about the per-position rebuild of `Rock.Crash`: what the fold over the cells of a position keeps invariant, what a
successful `finalize` walk looks like, and how a chain through the cells of one swap-out must run.
-/
import SquidModel.Rock.CrashModel

namespace SquidModel.Rock.Crash
open SquidModel.Rock

variable {τ : Type}

def payloadSum (cs : List (Cell τ)) : Nat := (cs.map (·.hdr.payloadSize)).sum

theorem payloadSum_nil : payloadSum ([] : List (Cell τ)) = 0 := rfl

theorem payloadSum_cons (c : Cell τ) (cs : List (Cell τ)) : payloadSum (c :: cs) = c.hdr.payloadSize + payloadSum cs := by
  simp [payloadSum]

theorem payloadSum_append (a b : List (Cell τ)) : payloadSum (a ++ b) = payloadSum a + payloadSum b := by
  simp [payloadSum, List.map_append, List.sum_append]

/-! ### cells are identified by their slots -/

theorem eq_of_slot_eq {L : List (Cell τ)} (hn : (L.map (·.slot)).Nodup) {a b : Cell τ} (ha : a ∈ L) (hb : b ∈ L)
    (h : a.slot = b.slot) : a = b := by
  induction L with
  | nil => cases ha
  | cons x xs ih =>
    rw [List.map_cons, List.nodup_cons] at hn
    rcases List.mem_cons.mp ha with rfl | ha'
    · rcases List.mem_cons.mp hb with rfl | hb'
      · rfl
      · exact absurd (List.mem_map.mpr ⟨b, hb', h.symm⟩) hn.1
    · rcases List.mem_cons.mp hb with rfl | hb'
      · exact absurd (List.mem_map.mpr ⟨a, ha', h⟩) hn.1
      · exact ih hn.2 ha' hb'

theorem findOwn_some {own : List (Cell τ)} {s : Int} {c : Cell τ} (h : findOwn own s = some c) : c ∈ own ∧ c.slot = s := by
  unfold findOwn at h
  refine ⟨List.mem_of_find?_eq_some h, ?_⟩
  have := List.find?_some h
  simpa using this

/-! ### sums over sub-collections -/

theorem split_sum {B : List (Cell τ)} {a : Cell τ} (ha : a ∈ B) :
    a.hdr.payloadSize + payloadSum (B.filter (fun x => !(x.slot == a.slot))) ≤ payloadSum B := by
  induction B with
  | nil => cases ha
  | cons x xs ih =>
    rw [payloadSum_cons]
    rcases List.mem_cons.mp ha with rfl | ha'
    · -- the head is `a` itself: it is filtered out, the rest can only shrink
      have hle : payloadSum (xs.filter (fun x => !(x.slot == a.slot))) ≤ payloadSum xs := by
        clear ih ha
        induction xs with
        | nil => simp [payloadSum]
        | cons y ys ihy =>
          rw [List.filter_cons]
          split
          · rw [payloadSum_cons, payloadSum_cons]; omega
          · rw [payloadSum_cons]; omega
      rw [List.filter_cons]
      simp only [beq_self_eq_true, Bool.not_true, Bool.false_eq_true, if_false]
      omega
    · have := ih ha'
      rw [List.filter_cons]
      split
      · rw [payloadSum_cons]; omega
      · omega

theorem sum_le_of_subset : ∀ {A B : List (Cell τ)}, (A.map (·.slot)).Nodup → (∀ a ∈ A, a ∈ B) → payloadSum A ≤ payloadSum B := by
  intro A
  induction A with
  | nil => intro B _ _; simp [payloadSum]
  | cons a as ih =>
    intro B hn hsub
    rw [List.map_cons, List.nodup_cons] at hn
    have haB : a ∈ B := hsub a (List.mem_cons_self ..)
    have hsub' : ∀ x ∈ as, x ∈ B.filter (fun x => !(x.slot == a.slot)) := by
      intro x hx
      rw [List.mem_filter]
      refine ⟨hsub x (List.mem_cons_of_mem _ hx), ?_⟩
      have : x.slot ≠ a.slot := by
        intro heq
        exact hn.1 (List.mem_map.mpr ⟨x, hx, heq⟩)
      simp [this]
    have := ih hn.2 hsub'
    have h2 := split_sum haB
    rw [payloadSum_cons]
    omega

/-- a duplicate-free sub-collection with the same total, all payloads positive, is everything -/
theorem all_mem_of_sum_eq {A B : List (Cell τ)} (hnA : (A.map (·.slot)).Nodup) (hnB : (B.map (·.slot)).Nodup)
    (hsub : ∀ a ∈ A, a ∈ B) (hsum : payloadSum A = payloadSum B) (hpos : ∀ b ∈ B, 0 < b.hdr.payloadSize) :
    ∀ b ∈ B, b ∈ A := by
  intro b hb
  apply Classical.byContradiction
  intro hnot
  have hsub' : ∀ a ∈ A, a ∈ B.filter (fun x => !(x.slot == b.slot)) := by
    intro a ha
    rw [List.mem_filter]
    refine ⟨hsub a ha, ?_⟩
    have : a.slot ≠ b.slot := by
      intro heq
      have : a = b := eq_of_slot_eq hnB (hsub a ha) hb heq
      exact hnot (this ▸ ha)
    simp [this]
  have h1 := sum_le_of_subset hnA hsub'
  have h2 := split_sum hb
  have h3 := hpos b hb
  omega

/-! ### the finalize walk without foreign slots -/

def NoForeign (cfg : Cfg) (foreign : Int → Option (Nat × Int)) : Prop :=
  cfg.v.finalizeChecksOwner = true ∨ ∀ s, foreign s = none

theorem lookup_noForeign {cfg : Cfg} {foreign : Int → Option (Nat × Int)} (h : NoForeign cfg foreign) (own : List (Cell τ)) (s : Int) :
    lookup cfg foreign own s = (findOwn own s).map (fun c => (c.hdr.payloadSize, c.hdr.nextSlot, Link.own c)) := by
  unfold lookup
  cases hf : findOwn own s with
  | some c => rfl
  | none =>
    simp only [Option.map_none]
    rcases h with h | h
    · simp [h]
    · simp [h s]

/-- `cs` is the sequence of own cells met from slot `s` on, each found under the slot its predecessor names; `e` is
    where the sequence stops -/
def Chained (own : List (Cell τ)) : Int → List (Cell τ) → Int → Prop
  | s, [], e => e = s
  | s, c :: rest, e => findOwn own s = some c ∧ 0 < c.hdr.payloadSize ∧ Chained own c.hdr.nextSlot rest e

theorem walk_spec {cfg : Cfg} {foreign : Int → Option (Nat × Int)} (hnf : NoForeign cfg foreign) (own : List (Cell τ)) (target : Nat) :
    ∀ (fuel : Nat) (s : Int) (seen : Nat) (visited : List Int) (e : Int) (total : Nat) (ls : List (Link τ)),
      walk cfg foreign own target fuel s seen visited = some (e, total, ls) →
      ∃ cs : List (Cell τ), ls = cs.map Link.own ∧ Chained own s cs e ∧ total = seen + payloadSum cs ∧
        (∀ c ∈ cs, c.slot ∉ visited) ∧ (cs.map (·.slot)).Nodup := by
  intro fuel
  induction fuel with
  | zero => intro s seen visited e total ls h; simp [walk] at h
  | succ fuel ih =>
    intro s seen visited e total ls h
    rw [walk] at h
    split at h
    · split at h
      · cases h
      · rename_i hvis
        rw [lookup_noForeign hnf] at h
        cases hf : findOwn own s with
        | none => simp [hf] at h
        | some c =>
          simp only [hf, Option.map_some] at h
          split at h
          · cases h
          · rename_i hsz
            cases hw : walk cfg foreign own target fuel c.hdr.nextSlot (seen + c.hdr.payloadSize) (s :: visited) with
            | none => simp [hw] at h
            | some r =>
              obtain ⟨e', total', ls'⟩ := r
              simp only [hw] at h
              cases h
              obtain ⟨cs, hls, hch, htot, hvis', hnd⟩ := ih _ _ _ _ _ _ hw
              have hslot := (findOwn_some hf).2
              refine ⟨c :: cs, by simp [hls], ⟨hf, by omega, hch⟩, ?_, ?_, ?_⟩
              · rw [payloadSum_cons]; omega
              · intro x hx
                rcases List.mem_cons.mp hx with rfl | hx'
                · rw [hslot]; exact hvis
                · intro hm
                  exact hvis' x hx' (List.mem_cons_of_mem _ hm)
              · rw [List.map_cons, List.nodup_cons]
                refine ⟨?_, hnd⟩
                intro hm
                obtain ⟨x, hx, hxs⟩ := List.mem_map.mp hm
                apply hvis' x hx
                rw [hxs, hslot]
                exact List.mem_cons_self ..
    · cases h
      refine ⟨[], rfl, ?_, by simp [payloadSum], ?_, by simp⟩
      · show s = s
        rfl
      · intro c hc; cases hc

theorem chained_mem {own : List (Cell τ)} : ∀ {cs : List (Cell τ)} {s e : Int}, Chained own s cs e → ∀ c ∈ cs, c ∈ own := by
  intro cs
  induction cs with
  | nil => intro s e _ c hc; cases hc
  | cons x xs ih =>
    intro s e h c hc
    obtain ⟨hf, _, hrest⟩ := h
    rcases List.mem_cons.mp hc with rfl | hc'
    · exact (findOwn_some hf).1
    · exact ih hrest c hc'

/-! ### finalize -/

theorem finalize_state (cfg : Cfg) (slots : Nat) (foreign : Int → Option (Nat × Int)) (st : PSt τ) :
    (finalize cfg slots foreign st).state = .corrupted ∨
    ((finalize cfg slots foreign st).state = .loaded ∧ st.size ≠ 0 ∧
      ∃ e total ls, walk cfg foreign st.mapped st.size (slots + 1) st.start 0 [] = some (e, total, ls) ∧ e < 0 ∧ total = st.size ∧
        (finalize cfg slots foreign st).chain = ls ∧ (finalize cfg slots foreign st).key = st.key) := by
  unfold finalize
  split
  · exact Or.inl rfl
  · rename_i hsz
    split
    · exact Or.inl rfl
    · rename_i e total ls hw
      split
      · exact Or.inl rfl
      · rename_i he
        split
        · exact Or.inl rfl
        · rename_i ht
          split
          · exact Or.inl rfl
          · refine Or.inr ⟨rfl, hsz, e, total, ls, hw, by omega, ?_, rfl, rfl⟩
            simpa using ht

/-! ### the fold over the cells of one position -/

/-- while an entry is loading, every cell seen so far is mapped and counted -/
structure LInv (st : PSt τ) (pre : List (Cell τ)) : Prop where
  mapped : st.mapped = pre.reverse
  size : st.size = payloadSum pre

def FInv (cfg : Cfg) (slots : Nat) (foreign : Int → Option (Nat × Int)) (st : PSt τ) (pre : List (Cell τ)) : Prop :=
  match st.state with
  | .empty => pre = []
  | .loading => LInv st pre
  | .loaded => ∃ st0 : PSt τ, st0.state = .loading ∧ LInv st0 pre ∧ st = finalize cfg slots foreign st0
  | .corrupted => True
  | .crashed _ => True

theorem finv_of_dead {cfg : Cfg} {slots : Nat} {foreign : Int → Option (Nat × Int)} {st : PSt τ} {pre : List (Cell τ)}
    (h : st.state = .corrupted ∨ ∃ w, st.state = .crashed w) : FInv cfg slots foreign st pre := by
  unfold FInv
  rcases h with h | ⟨w, h⟩ <;> rw [h] <;> trivial

theorem finv_loading_or_final {cfg : Cfg} {slots : Nat} {foreign : Int → Option (Nat × Int)} {x : PSt τ} {pre : List (Cell τ)}
    (hx : x.state = .loading) (hl : LInv x pre) (r : PSt τ) (hr : r = x ∨ r = finalize cfg slots foreign x) :
    FInv cfg slots foreign r pre := by
  rcases hr with rfl | rfl
  · unfold FInv; rw [hx]; exact hl
  · rcases finalize_state cfg slots foreign x with h | ⟨h, _⟩
    · exact finv_of_dead (Or.inl h)
    · unfold FInv; rw [h]; exact ⟨x, hx, hl, rfl⟩

theorem addTail_finv {cfg : Cfg} {slots : Nat} {foreign : Int → Option (Nat × Int)} {st : PSt τ} {pre : List (Cell τ)} (c : Cell τ)
    (hs : st.state = .loading) (hm : st.mapped = pre.reverse) (hz : st.size = payloadSum pre + c.hdr.payloadSize) :
    FInv cfg slots foreign (addTail cfg slots foreign st c) (pre ++ [c]) := by
  unfold addTail
  split
  · exact finv_of_dead (Or.inl rfl)
  · have hl : LInv ({ st with mapped := c :: st.mapped } : PSt τ) (pre ++ [c]) := by
      refine ⟨?_, ?_⟩
      · simp [hm]
      · simp only [payloadSum_append, payloadSum_cons, payloadSum_nil]; omega
    simp only
    split
    · exact finv_loading_or_final (x := { st with mapped := c :: st.mapped }) hs hl _ (Or.inr rfl)
    · exact finv_loading_or_final (x := { st with mapped := c :: st.mapped }) hs hl _ (Or.inl rfl)

theorem addSlot_finv {cfg : Cfg} {slots : Nat} {foreign : Int → Option (Nat × Int)} {st : PSt τ} {pre : List (Cell τ)} (c : Cell τ)
    (hs : st.state = .loading) (hl : LInv st pre) :
    FInv cfg slots foreign (addSlot cfg slots foreign st c) (pre ++ [c]) := by
  have hm := hl.mapped
  have hz := hl.size
  unfold addSlot
  simp only
  repeat' split
  all_goals first
    | exact finv_of_dead (Or.inl rfl)
    | exact finv_of_dead (Or.inr ⟨_, rfl⟩)
    | exact addTail_finv c (by simpa using hs) (by simpa using hm) (by simp [hz])

theorem step_finv {cfg : Cfg} {slots : Nat} {foreign : Int → Option (Nat × Int)} {st : PSt τ} {pre : List (Cell τ)} (c : Cell τ)
    (h : FInv cfg slots foreign st pre) : FInv cfg slots foreign (step cfg slots foreign st c) (pre ++ [c]) := by
  unfold step
  split
  · rename_i hst
    -- startNewEntry
    unfold FInv at h
    rw [hst] at h
    subst h
    unfold startNew
    simp only
    have hfresh : FInv cfg slots foreign (addSlot cfg slots foreign ({ state := .loading, key := c.hdr.key, start := -1, size := 0, sfs := 0, anchored := false } : PSt τ) c) ([] ++ [c]) :=
      addSlot_finv c rfl ⟨rfl, rfl⟩
    split
    · exact hfresh
    · split
      · exact finv_of_dead (Or.inr ⟨_, rfl⟩)
      · exact hfresh
  · rename_i hst
    unfold FInv at h
    rw [hst] at h
    split
    · exact addSlot_finv c hst h
    · exact finv_of_dead (Or.inl rfl)
  · exact finv_of_dead (Or.inl rfl)
  · rename_i hst; exact finv_of_dead (Or.inl hst)
  · rename_i w hst; exact finv_of_dead (Or.inr ⟨w, hst⟩)

theorem fold_finv {cfg : Cfg} {slots : Nat} {foreign : Int → Option (Nat × Int)} :
    ∀ (cs : List (Cell τ)) (st : PSt τ) (pre : List (Cell τ)), FInv cfg slots foreign st pre →
      FInv cfg slots foreign (cs.foldl (step cfg slots foreign) st) (pre ++ cs) := by
  intro cs
  induction cs with
  | nil => intro st pre h; simpa using h
  | cons c rest ih =>
    intro st pre h
    have := ih _ _ (step_finv c h)
    simpa using this

theorem validate_loaded {cfg : Cfg} {slots : Nat} {foreign : Int → Option (Nat × Int)} (st : PSt τ)
    (h : (validate cfg slots foreign st).state = .loaded) :
    (st.state = .loading ∧ validate cfg slots foreign st = finalize cfg slots foreign st) ∨
    (st.state = .loaded ∧ validate cfg slots foreign st = st) := by
  unfold validate at h ⊢
  cases hst : st.state with
  | loading => exact Or.inl ⟨rfl, by simp⟩
  | loaded => exact Or.inr ⟨rfl, by simp⟩
  | empty => rw [hst] at h; simp only at h; rw [hst] at h; cases h
  | corrupted => rw [hst] at h; simp only at h; rw [hst] at h; cases h
  | crashed w => rw [hst] at h; simp only at h; rw [hst] at h; cases h

/-- a position that ends up readable: all its cells were mapped and counted, and the finalize walk over them succeeded -/
theorem posRebuild_loaded {cfg : Cfg} {slots : Nat} {foreign : Int → Option (Nat × Int)} (cells : List (Cell τ))
    (h : (posRebuild cfg slots foreign cells).state = .loaded) :
    ∃ st0 : PSt τ, LInv st0 cells ∧ st0.size ≠ 0 ∧
      ∃ e total ls, walk cfg foreign st0.mapped st0.size (slots + 1) st0.start 0 [] = some (e, total, ls) ∧ e < 0 ∧ total = st0.size ∧
        (posRebuild cfg slots foreign cells).chain = ls ∧ (posRebuild cfg slots foreign cells).key = st0.key := by
  have hf : FInv cfg slots foreign (cells.foldl (step cfg slots foreign) {}) ([] ++ cells) := fold_finv cells {} [] (by unfold FInv; rfl)
  simp only [List.nil_append] at hf
  unfold posRebuild at h ⊢
  generalize cells.foldl (step cfg slots foreign) {} = stF at hf h ⊢
  rcases validate_loaded stF h with ⟨hst, hv⟩ | ⟨hst, hv⟩
  · rw [hv] at h ⊢
    unfold FInv at hf
    rw [hst] at hf
    rcases finalize_state cfg slots foreign stF with hc | ⟨_, hsz, e, total, ls, hw, he, ht, hch, hk⟩
    · rw [hc] at h; cases h
    · exact ⟨stF, hf, hsz, e, total, ls, hw, he, ht, hch, hk⟩
  · rw [hv]
    unfold FInv at hf
    rw [hst] at hf
    obtain ⟨st0, _, hl, heq⟩ := hf
    rcases finalize_state cfg slots foreign st0 with hc | ⟨_, hsz, e, total, ls, hw, he, ht, hch, hk⟩
    · rw [heq, hc] at hst; cases hst
    · rw [heq]
      exact ⟨st0, hl, hsz, e, total, ls, hw, he, ht, hch, hk⟩

end SquidModel.Rock.Crash
