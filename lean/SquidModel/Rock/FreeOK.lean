/-
Facts about the free-slot stack that exclude the double push (`IdSet::leafPush` assertion) when slot chains cannot leave
their entry (`Own`): everything on the stack has been processed; a slot owned by a Loading entry and not freed is not
on the stack; owners are entries that have been started.
-/
import SquidModel.Rock.Tight

namespace SquidModel.Rock

structure FreeOK (cfg : Cfg) (img : List RawSlot) (pL : Int) (st : St) : Prop where
  frange : ∀ x ∈ st.free, 0 ≤ x ∧ x < pL
  lfree : Own cfg img → ∀ (x : Int) (f : Nat), (st.ls x).owner = (f : Int) → (st.le f).state = .loading → (st.ls x).freed = false → x ∉ st.free
  owned : ∀ (x : Int) (f : Nat), (st.ls x).owner = (f : Int) → (st.le f).state ≠ .empty

theorem freeOK_init (cfg : Cfg) (img : List RawSlot) : FreeOK cfg img 0 St.init :=
  ⟨fun x hx => by simp [St.init] at hx, fun _ x f _ h => by simp [St.init] at h, fun x f h => by simp only [St.init] at h; have h' : (-1 : Int) = (f : Int) := h; omega⟩

theorem FreeOK.mono {cfg : Cfg} {img : List RawSlot} {pL pL' : Int} {st : St} (h : FreeOK cfg img pL st) (hp : pL ≤ pL') :
    FreeOK cfg img pL' st :=
  ⟨fun x hx => ⟨(h.frange x hx).1, by have := (h.frange x hx).2; omega⟩, h.lfree, h.owned⟩

/-- nothing relevant changed: same entry states, same owner/freed flags, same stack -/
theorem FreeOK.same {cfg : Cfg} {img : List RawSlot} {pL : Int} {st st' : St} (h : FreeOK cfg img pL st)
    (hst : ∀ f, (st'.le f).state = (st.le f).state)
    (hls : ∀ x, (st'.ls x).owner = (st.ls x).owner ∧ (st'.ls x).freed = (st.ls x).freed) (hfree : st'.free = st.free) :
    FreeOK cfg img pL st' := by
  refine ⟨by rw [hfree]; exact h.frange, ?_, ?_⟩
  · intro ho x f hx hf hfr
    rw [(hls x).1] at hx; rw [hst f] at hf; rw [(hls x).2] at hfr; rw [hfree]
    exact h.lfree ho x f hx hf hfr
  · intro x f hx
    rw [(hls x).1] at hx; rw [hst f]
    exact h.owned x f hx

/-- `freeSlot(s)` -/
theorem FreeOK.freeSlot {cfg : Cfg} {img : List RawSlot} {g : Geo} {pos pL pL' : Int} {st st' : St} {s : Int}
    (h : FreeOK cfg img pL st) (hp : FreeSlotPost g pos st s st') (hs : 0 ≤ s ∧ s < pL') (hpl : pL ≤ pL') : FreeOK cfg img pL' st' := by
  have hother : ∀ x, x ≠ s → st'.ls x = st.ls x := fun x hx => by rw [hp.ls, upd_other _ _ _ _ hx]
  have hown : ∀ x, (st'.ls x).owner = (st.ls x).owner := by
    intro x
    by_cases hx : x = s
    · subst hx; rw [hp.ls]; simp
    · rw [hother x hx]
  refine ⟨?_, ?_, ?_⟩
  · intro x hx
    rw [hp.free] at hx
    cases hx with
    | head => exact hs
    | tail _ hx => exact ⟨(h.frange x hx).1, by have := (h.frange x hx).2; omega⟩
  · intro ho x f hx hf hfr
    rw [hown x] at hx; rw [hp.le] at hf
    have hxs : x ≠ s := by
      intro e; subst e; rw [hp.ls] at hfr; simp at hfr
    rw [hother x hxs] at hfr
    rw [hp.free]
    intro hm
    cases hm with
    | head => exact hxs rfl
    | tail _ hm => exact h.lfree ho x f hx hf hfr hm
  · intro x f hx
    rw [hown x] at hx; rw [hp.le]
    exact h.owned x f hx

/-- `freeBadEntry(f)` of a Loading entry with list `L` -/
theorem FreeOK.freeBad {cfg : Cfg} {img : List RawSlot} {g : Geo} {pos pL : Int} {st st' : St} {f : Nat} {L : List Int}
    (h : FreeOK cfg img pL st) (hp : FreeBadPost g pos st f L st') (hL : InRange L pL) (hf : (st.le f).state ≠ .empty) :
    FreeOK cfg img pL st' := by
  have hflags : ∀ x, (st'.ls x).owner = (st.ls x).owner ∧ ((st'.ls x).freed = false → (st.ls x).freed = false ∧ x ∉ L) := by
    intro x
    rw [hp.ls]
    by_cases hx : x ∈ L <;> simp [markFreed, hx]
  have hstate : ∀ k, k ≠ f → st'.le k = st.le k := fun k hk => by rw [hp.le, upd_other _ _ _ _ hk]
  have hstf : (st'.le f).state = .corrupted := by rw [hp.le]; simp
  refine ⟨?_, ?_, ?_⟩
  · intro x hx
    cases (hp.free x).1 hx with
    | inl e => exact hL x e
    | inr e => exact h.frange x e
  · intro ho x k hx hk hfr
    have hkf : k ≠ f := by intro e; subst e; rw [hstf] at hk; cases hk
    rw [(hflags x).1] at hx; rw [hstate k hkf] at hk
    obtain ⟨hfr', hxL⟩ := (hflags x).2 hfr
    intro hm
    cases (hp.free x).1 hm with
    | inl e => exact hxL e
    | inr e => exact h.lfree ho x k hx hk hfr' e
  · intro x k hx
    rw [(hflags x).1] at hx
    by_cases hkf : k = f
    · subst hkf; rw [hstf]; decide
    · rw [hstate k hkf]; exact h.owned x k hx

/-- `StoreMap::freeEntry(f)` of a Loaded entry with chain `C` whose slots (under `Own`) all belong to `f` -/
theorem FreeOK.mapFree {cfg : Cfg} {img : List RawSlot} {pL : Int} {st st' : St} {f : Nat} {C : List Int}
    (h : FreeOK cfg img pL st) (hle : st'.le = upd st.le f { st.le f with state := .corrupted }) (hls : st'.ls = st.ls)
    (hfree : ∀ x, x ∈ st'.free → x ∈ C ∨ x ∈ st.free) (hC : InRange C pL)
    (hown : Own cfg img → ∀ x ∈ C, (st.ls x).owner = (f : Int)) (hf : (st.le f).state ≠ .empty) : FreeOK cfg img pL st' := by
  have hstate : ∀ k, k ≠ f → st'.le k = st.le k := fun k hk => by rw [hle, upd_other _ _ _ _ hk]
  have hstf : (st'.le f).state = .corrupted := by rw [hle]; simp
  refine ⟨?_, ?_, ?_⟩
  · intro x hx
    cases hfree x hx with
    | inl e => exact hC x e
    | inr e => exact h.frange x e
  · intro ho x k hx hk hfr
    have hkf : k ≠ f := by intro e; subst e; rw [hstf] at hk; cases hk
    rw [hls] at hx hfr; rw [hstate k hkf] at hk
    intro hm
    cases hfree x hm with
    | inl e =>
      have := hown ho x e
      rw [hx] at this
      exact ofNat_inj_of_ne hkf this
    | inr e => exact h.lfree ho x k hx hk hfr e
  · intro x k hx
    rw [hls] at hx
    by_cases hkf : k = f
    · subst hkf; rw [hstf]; decide
    · rw [hstate k hkf]; exact h.owned x k hx

/-- an entry keeps or changes its non-Empty state to a non-Loading one, or stays Loading; flags and stack unchanged
    except for `finalized`/`mapped`/`more` -/
theorem FreeOK.relabel {cfg : Cfg} {img : List RawSlot} {pL : Int} {st st' : St} {f : Nat} {e : LEntry}
    (h : FreeOK cfg img pL st) (hf : (st.le f).state ≠ .empty) (he : e.state ≠ .empty)
    (hel : e.state = .loading → (st.le f).state = .loading)
    (hle : st'.le = upd st.le f e)
    (hls : ∀ x, (st'.ls x).owner = (st.ls x).owner ∧ (st'.ls x).freed = (st.ls x).freed) (hfree : st'.free = st.free) :
    FreeOK cfg img pL st' := by
  have hstate : ∀ k, k ≠ f → st'.le k = st.le k := fun k hk => by rw [hle, upd_other _ _ _ _ hk]
  have hlf : st'.le f = e := by rw [hle]; simp
  refine ⟨by rw [hfree]; exact h.frange, ?_, ?_⟩
  · intro ho x k hx hk hfr
    rw [(hls x).1] at hx; rw [(hls x).2] at hfr; rw [hfree]
    by_cases hkf : k = f
    · subst hkf; rw [hlf] at hk; exact h.lfree ho x k hx (hel hk) hfr
    · rw [hstate k hkf] at hk; exact h.lfree ho x k hx hk hfr
  · intro x k hx
    rw [(hls x).1] at hx
    by_cases hkf : k = f
    · subst hkf; rw [hlf]; exact he
    · rw [hstate k hkf]; exact h.owned x k hx

/-- `chainSlots`: the fresh slot `p` gets owner `f` (a Loading entry); other owners and all freed flags unchanged -/
theorem FreeOK.chain {cfg : Cfg} {img : List RawSlot} {p : Int} {st st' : St} {f : Nat}
    (h : FreeOK cfg img p st) (hf : (st.le f).state = .loading) (hle : st'.le = st.le) (hfree : st'.free = st.free)
    (hp : (st'.ls p).owner = (f : Int)) (hother : ∀ x, x ≠ p → (st'.ls x).owner = (st.ls x).owner)
    (hfr : ∀ x, (st'.ls x).freed = (st.ls x).freed) : FreeOK cfg img (p + 1) st' := by
  refine ⟨?_, ?_, ?_⟩
  · intro x hx
    rw [hfree] at hx
    exact ⟨(h.frange x hx).1, by have := (h.frange x hx).2; omega⟩
  · intro ho x k hx hk hfr'
    rw [hfree]
    by_cases hxp : x = p
    · subst hxp; intro hm; have := (h.frange x hm).2; omega
    · rw [hother x hxp] at hx; rw [hle] at hk; rw [hfr x] at hfr'
      exact h.lfree ho x k hx hk hfr'
  · intro x k hx
    rw [hle]
    by_cases hxp : x = p
    · subst hxp
      rw [hp] at hx
      have : k = f := by omega
      subst this; rw [hf]; decide
    · rw [hother x hxp] at hx; exact h.owned x k hx

/-- an Empty position starts Loading: no slot is owned by it yet -/
theorem FreeOK.begin {cfg : Cfg} {img : List RawSlot} {pL : Int} {st st' : St} {f : Nat} {e : LEntry}
    (h : FreeOK cfg img pL st) (hf : (st.le f).state = .empty) (he : e.state ≠ .empty)
    (hle : st'.le = upd st.le f e) (hls : st'.ls = st.ls) (hfree : st'.free = st.free) : FreeOK cfg img pL st' := by
  have hstate : ∀ k, k ≠ f → st'.le k = st.le k := fun k hk => by rw [hle, upd_other _ _ _ _ hk]
  have hlf : st'.le f = e := by rw [hle]; simp
  refine ⟨by rw [hfree]; exact h.frange, ?_, ?_⟩
  · intro ho x k hx hk hfr
    rw [hls] at hx hfr; rw [hfree]
    by_cases hkf : k = f
    · subst hkf; exact absurd hf (h.owned x k hx)
    · rw [hstate k hkf] at hk; exact h.lfree ho x k hx hk hfr
  · intro x k hx
    rw [hls] at hx
    by_cases hkf : k = f
    · subst hkf; rw [hlf]; exact he
    · rw [hstate k hkf]; exact h.owned x k hx

end SquidModel.Rock
