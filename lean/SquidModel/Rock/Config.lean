/-
The instance of the Rock::Rebuild model that corresponds to the staged tree: constants and source-shape flags come
from the generated `SquidModel.Gen.RockRebuild`.
-/
import SquidModel.Rock.Model
import SquidModel.Gen.RockRebuild

namespace SquidModel.Rock

open SquidModel.Gen in
/-- the source shape of the staged tree -/
def currentVariant : Variant :=
  { finalizeChecksKnownSize := RockRebuild.finalizeChecksKnownSize,
    rejectsAllOnesSizes := RockRebuild.rejectsAllOnesSizes,
    finalizeChecksOwner := RockRebuild.finalizeChecksOwner }

/-- the pinned snapshot: none of the candidate repairs -/
def legacyVariant : Variant :=
  { finalizeChecksKnownSize := false, rejectsAllOnesSizes := false, finalizeChecksOwner := false }

/-- all three candidate repairs of notes/fixes/C57-*.diff -/
def fixedVariant : Variant :=
  { finalizeChecksKnownSize := true, rejectsAllOnesSizes := true, finalizeChecksOwner := true }

open SquidModel.Gen in
def currentConsts : Consts :=
  { cellHeaderSize := RockRebuild.cellHeaderSize,
    entryLimitAbsolute := RockRebuild.entryLimitAbsolute,
    keyPrivateBit := RockRebuild.keyPrivateBit }

def currentCfg (slotSize : Nat) (doubleCheck : Bool) : Cfg :=
  { v := currentVariant, k := currentConsts, slotSize := slotSize, doubleCheck := doubleCheck }

end SquidModel.Rock
