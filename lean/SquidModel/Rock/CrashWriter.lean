/-
C16 (rock half): the run-time side as a simulator of whole scenarios.

`Rock::SwapDir::createStoreIO` (`StoreMap::openForWriting`: whatever readable entry sits at the key's position is freed,
its slices go back to the free-slot set), `Rock::IoState::tryWrite/writeToDisk` (a slot is written when it is full and
more data follows; `sidNext` is reserved *before* `sidFirst`), `Rock::SwapDir::reserveSlotForWriting`
(`Ipc::Mem::PageStack::pop`: the IdSet hands out the lowest free id; when nothing is free `StoreMap::purgeOne` walks
`++victim % entryLimit` and frees the first idle entry, whose first slice goes straight to the writer),
`handleWriteCompletionSuccess`, PURGE (`StoreMap::freeEntry`), the kill at the N-th disk write with an optional torn
write (a byte prefix of the new slot image over the old one), the restart (`Rock.rebuild`, the C57 model, on the image)
and the lookups afterwards (`Rock.Crash.serve` per position and the whole-image map side by side).

Every completed swap-out is compared with `Rock.Crash.txnCells` of the slots it reserved (`sameAsTxn`, reported as `txn=ok`):
the theorems of Properties/C16 talk about exactly these writes.
-/
import SquidModel.Rock.CrashModel
import SquidModel.Rock.Final
import SquidModel.Gen.C16Consts
import SquidModel.Gen.C16Keys

namespace SquidModel.Rock.Crash
open SquidModel.Rock

/-! ### byte-level torn headers -/

def leBytes (n : Nat) : Nat → List Nat
  | 0 => []
  | w + 1 => n % 256 :: leBytes (n / 256) w

def ofLeBytes : List Nat → Nat
  | [] => 0
  | b :: rest => b + 256 * ofLeBytes rest

def i32ToNat (x : Int) : Nat := if x < 0 then (x + 4294967296).toNat else x.toNat
def natToI32 (n : Nat) : Int := if n ≥ 2147483648 then (n : Int) - 4294967296 else (n : Int)

/-- the 40 bytes of a `DbCellHeader` -/
def encodeHdr (h : Header) : List Nat :=
  leBytes h.key.1 8 ++ leBytes h.key.2 8 ++ leBytes h.entrySize 8 ++ leBytes h.payloadSize 4 ++ leBytes h.version 4 ++
  leBytes (i32ToNat h.firstSlot) 4 ++ leBytes (i32ToNat h.nextSlot) 4

def decodeHdr (b : List Nat) : Header :=
  { key := (ofLeBytes (b.take 8), ofLeBytes ((b.drop 8).take 8)), entrySize := ofLeBytes ((b.drop 16).take 8),
    payloadSize := ofLeBytes ((b.drop 24).take 4), version := ofLeBytes ((b.drop 28).take 4),
    firstSlot := natToI32 (ofLeBytes ((b.drop 32).take 4)), nextSlot := natToI32 (ofLeBytes ((b.drop 36).take 4)) }

def zeroHdr : Header := { key := (0, 0), entrySize := 0, payloadSize := 0, version := 0, firstSlot := 0, nextSlot := 0 }

/-- the first `b` bytes of the slot image of `new` over what the slot held -/
def tornCell (new : Cell String) (old : Option (Cell String)) (b : Nat) (hdrLen : Nat) : Cell String :=
  let oldHdr := match old with | some o => o.hdr | none => zeroHdr
  let oldMd := match old with | some o => o.md | none => Meta.zeroed
  if b < 40 then
    { slot := new.slot, hdr := decodeHdr ((encodeHdr new.hdr).take b ++ (encodeHdr oldHdr).drop b), md := oldMd,
      url := match old with | some o => o.url | none => none,
      data := match old with | some o => o.data | none => "z" }
  else
    { slot := new.slot, hdr := new.hdr, md := if b ≥ 40 + hdrLen then new.md else if b = 40 then oldMd else .unparsable,
      url := if b ≥ 40 + hdrLen then new.url else if b = 40 then (match old with | some o => o.url | none => none) else none,
      data := "x" }

/-! ### the simulator -/

/-- an entry of the StoreMap -/
structure MapEntry where
  fileno : Nat
  key : Key
  chain : List Int
deriving Repr

structure Sim where
  slotSize : Nat
  nslots : Nat
  /-- bytes squid adds to a body (swap metadata + reply header) -/
  h : Nat
  /-- swap_hdr_sz of this rig's objects -/
  metaHdr : Nat
  disk : List (Cell String) := []
  free : List Int := []
  map : List MapEntry := []
  victim : Nat := 0
  /-- version and body size of each key index -/
  vers : List (Nat × Nat × Nat) := []
  events : Nat := 0
  crashAt : Nat := 0
  torn : Nat := 0
  dead : Bool := false
  trace : List String := []
  /-- every completed swap-out left exactly the cells `txnCells` describes -/
  txnOk : Bool := true

def cfgOf (s : Sim) : Cfg := currentCfg s.slotSize false

def keyOf (ki : Nat) : Key := SquidModel.Gen.C16Keys.keys.getD ki (0, 1)

def keyName (ki : Nat) : String := if ki ≥ 100 then s!"x{ki - 100}" else s!"k{ki}"

def keyIndexOf (ki : Nat) : Nat := if ki ≥ 100 then 40 + (ki - 100) else ki

def verOf (s : Sim) (ki : Nat) : Nat × Nat := match s.vers.find? (fun v => v.1 == ki) with | some v => v.2 | none => (0, 0)

def setVer (s : Sim) (ki ver n : Nat) : Sim := { s with vers := (ki, ver, n) :: s.vers.filter (fun v => v.1 != ki) }

def insertSorted (x : Int) : List Int → List Int
  | [] => [x]
  | y :: ys => if x < y then x :: y :: ys else if x = y then y :: ys else y :: insertSorted x ys

def pushFree (s : Sim) (slots : List Int) : Sim := { s with free := slots.foldl (fun acc x => insertSorted x acc) s.free }

/-- `StoreMap::freeChain` of the entry at position `f` (if there is an idle one) -/
def freeAt (s : Sim) (f : Nat) : Sim :=
  match s.map.find? (fun e => e.fileno == f) with
  | none => s
  | some e => pushFree { s with map := s.map.filter (fun e => e.fileno != f) } e.chain

/-- `StoreMap::purgeOne`: the first idle entry after the victim cursor; -> (first slice, state) -/
def purgeOne (s : Sim) (locked : Nat) : Nat → Sim → Option (Int × Sim)
  | 0, _ => none
  | fuel + 1, s1 =>
    let v := s1.victim + 1
    let f := v % ((cfgOf s).geo s.nslots).entries
    let s2 := { s1 with victim := v }
    match s2.map.find? (fun e => e.fileno == f) with
    | some e =>
      if f = locked then purgeOne s locked fuel s2
      else match e.chain with
        | [] => purgeOne s locked fuel s2
        | first :: rest => some (first, pushFree { s2 with map := s2.map.filter (fun e => e.fileno != f) } rest)
    | none => purgeOne s locked fuel s2

/-- `reserveSlotForWriting` -/
def reserve (s : Sim) (locked : Nat) : Option (Int × Sim) :=
  match s.free with
  | x :: rest => some (x, { s with free := rest })
  | [] => purgeOne s locked (min 10000 ((cfgOf s).geo s.nslots).entries) s

def showCell (c : Cell String) (ki : Nat) (len : Nat) : String :=
  s!"{c.slot}:{keyName ki}:{c.hdr.firstSlot}:{c.hdr.nextSlot}:{c.hdr.payloadSize}:{c.hdr.entrySize}:{len}"

/-- one `pwrite` of a slot image: the crash point may strike -/
def diskWrite (s : Sim) (c : Cell String) (ki : Nat) : Sim :=
  if s.dead then s else
  let n := s.events + 1
  let len := 40 + c.hdr.payloadSize
  if s.crashAt ≠ 0 ∧ n = s.crashAt then
    if s.torn > 0 ∧ len > 1 then
      let b := min s.torn (len - 1)
      let old := s.disk.find? (fun d => d.slot == c.slot)
      { s with events := n, dead := true, disk := writeCell s.disk (tornCell c old b s.metaHdr), trace := s.trace ++ [s!"P:{c.slot}:{b}"] }
    else { s with events := n, dead := true, trace := s.trace ++ [s!"K:{c.slot}"] }
  else { s with events := n, disk := writeCell s.disk c, trace := s.trace ++ ["W:" ++ showCell c ki len] }

/-- payload sizes of the pieces of an object of `total` bytes -/
def pieceSizes (cap : Nat) : Nat → Nat → List Nat
  | 0, _ => []
  | fuel + 1, total => if total ≤ cap then [total] else cap :: pieceSizes cap fuel (total - cap)

/-- the cells of the slots `slots` on the simulated disk are the `txnCells` of the swap-out that reserved them -/
def sameAsTxn (s : Sim) (key : Key) (slots : List Int) (sizes : List Nat) : Bool :=
  let t : Txn := { id := 0, key := key, version := 1, parts := slots.zip sizes, metaSfs := 0, metaFlags := 1088, metaHdr := s.metaHdr }
  (txnCells t).all (fun c =>
    match s.disk.find? (fun d => d.slot == c.slot) with
    | some d => d.hdr == c.hdr && d.md == c.md && d.url == c.url
    | none => false)

/-- the writes of one swap-out, slot by slot (`tryWrite` + `writeToDisk` + `close(wroteAll)`); `first`/`cur` are the
    reserved slots, `done` the slots already written -/
def writePieces (ki ver : Nat) (f : Nat) (total : Nat) (sizes : List Nat) : Nat → Sim → Int → Int → List Int → Nat → List Nat → Sim
  | 0, s, _, _, _, _, _ => s
  | _, s, _, _, _, _, [] => s
  | fuel + 1, s, first, cur, done, idx, p :: rest =>
    if s.dead then s else
    -- an overflowing write reserves sidNext first; the very first writeToDisk then reserves sidFirst
    let (nxt, s1, ok) : Int × Sim × Bool :=
      if rest.isEmpty then (-1, s, true)
      else match reserve s f with
        | some (x, s') => (x, s', true)
        | none => (-1, s, false)
    if !ok then s1           -- "ran out of free db slots": the swap-out fails, nothing more is written
    else
    let (first', cur', s2, ok2) : Int × Int × Sim × Bool :=
      if first < 0 then
        match reserve s1 f with
        | some (x, s') => (x, x, s', true)
        | none => (first, cur, s1, false)
      else (first, cur, s1, true)
    if !ok2 then s2 else
    let tag := s!"{keyName ki}v{ver}p{idx}"
    let c : Cell String :=
      { slot := cur', data := tag, url := if idx = 0 then some (keyOf (keyIndexOf ki)) else none,
        md := if idx = 0 then .ok (some (keyOf (keyIndexOf ki))) 0 1088 s.metaHdr else .unparsable,
        hdr := { key := keyOf (keyIndexOf ki), entrySize := if rest.isEmpty then total else 0, payloadSize := p, version := 1,
                 firstSlot := first', nextSlot := nxt } }
    let s3 := diskWrite s2 c ki
    if s3.dead then s3
    else if rest.isEmpty then
      -- handleWriteCompletionSuccess with eof: the entry becomes readable
      { s3 with map := { fileno := f, key := keyOf (keyIndexOf ki), chain := done ++ [cur'] } :: s3.map.filter (fun e => e.fileno != f),
                txnOk := s3.txnOk && sameAsTxn s3 (keyOf (keyIndexOf ki)) (done ++ [cur']) sizes }
    else writePieces ki ver f total sizes fuel s3 first' nxt (done ++ [cur']) (idx + 1) rest

/-- a swap-out of version `ver` (body `n` bytes) of key index `ki` -/
def storeObj (s : Sim) (ki ver n : Nat) : Sim :=
  if s.dead then s else
  let g := (cfgOf s).geo s.nslots
  let f := fileNo g (keyOf (keyIndexOf ki))
  -- the previous response (or a colliding entry) is released when the new one arrives
  let s1 := freeAt s f
  let total := s.h + n
  let cap := s.slotSize - 40
  let sizes := pieceSizes cap (s.nslots + 2) total
  writePieces ki ver f total sizes (s.nslots + 2) s1 (-1) (-1) [] 0 sizes

def lookup1 (s : Sim) (ki : Nat) : Option (List Int) :=
  let g := (cfgOf s).geo s.nslots
  let k := keyOf (keyIndexOf ki)
  match s.map.find? (fun e => e.fileno == fileNo g k) with
  | some e => if e.key == k then some e.chain else none
  | none => none

/-- what a lookup returns: the tags along the chain, if the first slot starts with this key's swap metadata -/
def probe (s : Sim) (ki : Nat) : String :=
  match lookup1 s ki with
  | none => "M"
  | some chain =>
    match chain with
    | [] => "M"
    | s0 :: _ =>
      match s.disk.find? (fun c => c.slot == s0) with
      | some c0 =>
        match c0.md with
        | .ok (some mk) _ _ _ =>
          if mk == keyOf (keyIndexOf ki) && c0.url == some (keyOf (keyIndexOf ki)) then
            "H:" ++ "+".intercalate (chain.map (fun x => match s.disk.find? (fun c => c.slot == x) with | some c => c.data | none => s!"e{x}"))
          else "M"
        | _ => "M"
      | none => "M"

inductive Op where
  | store (ki n : Nat)
  | get (ki : Nat)
  | fetch (ki : Nat)
  | purge (ki : Nat)

def runOp (s : Sim) : Op → Sim × String
  | .store ki n =>
    if s.dead then (s, "") else
    let (v, _) := verOf s ki
    let s1 := setVer s ki (v + 1) n
    let s2 := storeObj s1 ki (v + 1) n
    (s2, if s2.dead then "S=fail" else "S=ok")
  | .get ki => if s.dead then (s, "") else (s, "G=" ++ probe s ki)
  | .fetch ki =>
    if s.dead then (s, "") else
    match probe s ki with
    | "M" =>
      let (v, n) := verOf s ki
      let (v, n) := if v = 0 then (1, 64) else (v, n)
      let s1 := setVer s ki v n
      let s2 := storeObj s1 ki v n
      (s2, if s2.dead then "F=fail" else s!"F=M:{keyName ki}v{v}")
    | r => (s, "F=" ++ r)
  | .purge ki =>
    if s.dead then (s, "") else
    match lookup1 s ki with
    | some _ => (freeAt s (fileNo ((cfgOf s).geo s.nslots) (keyOf (keyIndexOf ki))), "P=200")
    | none => (s, "P=404")

/-- the restart: `Rock.rebuild` on the image -/
def restart (s : Sim) : Sim × String :=
  let cfg := cfgOf s
  let img : List RawSlot := (List.range s.nslots).map (fun (i : Nat) =>
    match s.disk.find? (fun c => c.slot == (i : Int)) with
    | some c => .cell c.hdr c.md
    | none => .cell zeroHdr .zeroed)
  match rebuild cfg img with
  | .error e => ({ s with dead := true }, s!"crash:{repr e}")
  | .ok st =>
    let g := cfg.geo s.nslots
    let entries := (List.range g.entries).filterMap (fun f =>
      if decide (Readable st f) then some { fileno := f, key := (st.an f).key, chain := chainList st (s.nslots + 1) (st.an f).start : MapEntry } else none)
    ({ s with map := entries, free := st.free.foldl (fun acc x => insertSorted x acc) [], victim := 0, events := 0, dead := false, crashAt := 0, torn := 0, trace := [] }, "ok")

def parseOp (t : String) : Option Op :=
  match t.toList with
  | 'S' :: rest => match (String.ofList rest).splitOn "." with
    | [k, n, _] => match k.toNat?, n.toNat? with | some k, some n => some (.store k n) | _, _ => none
    | _ => none
  | 'G' :: rest => (String.ofList rest).toNat?.map .get
  | 'F' :: rest => (String.ofList rest).toNat?.map .fetch
  | 'P' :: rest => (String.ofList rest).toNat?.map .purge
  | _ => none

/-- crash token -> (event number, torn bytes); 0 = no crash point -/
def parseCrash (t : String) : Option (Nat × Nat) :=
  let t := if t.endsWith "q" then (t.dropEnd 1).toString else t
  if t == "e" || t == "" then some (0, 0)
  else match t.splitOn "t" with
    | [n] => n.toNat?.map (fun n => (n, 0))
    | [n, b] => match n.toNat?, b.toNat? with | some n, some b => some (n, b) | _, _ => none
    | _ => none

def runOps (s : Sim) (ops : List Op) : Sim × List String :=
  ops.foldl (fun (acc : Sim × List String) op => let (s', r) := runOp acc.1 op; (s', if r == "" then acc.2 else acc.2 ++ [r])) (s, [])

/-- a whole scenario line -> `<phase> | <phase> | final <first probes> ; <second probes> ; <extra keys>` -/
def scenario (slotSize h metaHdr nk : Nat) (phases : List String) : String :=
  let nslots := (1048576 - SquidModel.Gen.C16Consts.rockHeaderSize) / slotSize
  let s0 : Sim := { slotSize := slotSize, nslots := nslots, h := h, metaHdr := metaHdr, free := (List.range nslots).map (fun (i : Nat) => (i : Int)) }
  let rec go (s : Sim) (first : Bool) (acc : List String) : List String → Option (Sim × List String)
    | [] => some (s, acc)
    | p :: rest =>
      match p.splitOn "@" with
      | [o, c] =>
        match (if o == "-" then some [] else (o.splitOn ",").mapM parseOp), parseCrash c with
        | some ops, some (n, b) =>
          let (s1, st) := if first then ({ s with events := 0, trace := [] }, "ok") else restart s
          if st != "ok" then some (s1, acc ++ [s!"start={st}"])
          else
            let s2 := { s1 with crashAt := n, torn := b }
            let (s3, res) := runOps s2 ops
            go { s3 with dead := false } false (acc ++ [s!"start=ok ops={if res.isEmpty then "-" else ",".intercalate res} trace={if s3.trace.isEmpty then "-" else ";".intercalate s3.trace}"]) rest
        | _, _ => none
      | _ => none
  match go s0 true [] phases with
  | none => "bad-op"
  | some (s, acc) =>
    if acc.any (fun a => a.startsWith "start=crash") then " | ".intercalate acc
    else
      let (s1, st) := restart s
      if st != "ok" then " | ".intercalate (acc ++ [s!"final start={st}"])
      else
        let keys := List.range nk
        let p1 := keys.map (fun k => probe s1 k)
        let (s2, _) := runOps s1 [.store 100 9000, .store 101 13000]
        let p2 := keys.map (fun k => probe s2 k)
        let px := [probe s2 100, probe s2 101]
        " | ".intercalate (acc ++ [s!"final {" ".intercalate p1} ; {" ".intercalate p2} ; {" ".intercalate px} txn={if s2.txnOk then "ok" else "MISMATCH"}"])

end SquidModel.Rock.Crash
