/-
The disk writes of one swap-out (`txnCells`) as a linked list of cells, and the main lemma of C16 for rock: a readable
entry whose position holds only intact cells that never link across swap-outs is exactly one complete swap-out.
-/
import SquidModel.Rock.CrashLemmas

namespace SquidModel.Rock.Crash
open SquidModel.Rock

/-- a swap-out reserved distinct, valid slots -/
def Txn.Wf (t : Txn) : Prop := t.parts ≠ [] ∧ (t.parts.map (·.1)).Nodup ∧ ∀ p ∈ t.parts, 0 ≤ p.1

/-- every cell names the slot of its successor, the last one names -1 -/
def Linked {τ : Type} : List (Cell τ) → Prop
  | [] => True
  | [x] => x.hdr.nextSlot = -1
  | x :: y :: rest => x.hdr.nextSlot = y.slot ∧ Linked (y :: rest)

theorem txnCellsFrom_slots (t : Txn) : ∀ (parts : List (Int × Nat)) (i : Nat), (txnCellsFrom t i parts).map (·.slot) = parts.map (·.1) := by
  intro parts
  induction parts with
  | nil => intro i; simp [txnCellsFrom]
  | cons p rest ih =>
    intro i
    obtain ⟨s, pl⟩ := p
    cases rest with
    | nil => simp [txnCellsFrom]
    | cons q rest' =>
      obtain ⟨s', pl'⟩ := q
      rw [txnCellsFrom]
      simp only [List.map_cons]
      rw [ih (i + 1)]
      simp

theorem txnCellsFrom_linked (t : Txn) : ∀ (parts : List (Int × Nat)) (i : Nat), Linked (txnCellsFrom t i parts) := by
  intro parts
  induction parts with
  | nil => intro i; simp [txnCellsFrom, Linked]
  | cons p rest ih =>
    intro i
    obtain ⟨s, pl⟩ := p
    cases rest with
    | nil => simp [txnCellsFrom, Linked]
    | cons q rest' =>
      obtain ⟨s', pl'⟩ := q
      have hrec := ih (i + 1)
      have hsl := txnCellsFrom_slots t ((s', pl') :: rest') (i + 1)
      rw [txnCellsFrom]
      cases hT : txnCellsFrom t (i + 1) ((s', pl') :: rest') with
      | nil => rw [hT] at hsl; simp at hsl
      | cons y ys =>
        rw [hT] at hrec hsl
        simp only [List.map_cons, List.cons.injEq] at hsl
        exact ⟨hsl.1.symm, hrec⟩

/-- only the first piece starts with swap metadata -/
theorem txnCellsFrom_md (t : Txn) : ∀ (parts : List (Int × Nat)) (i : Nat), 0 < i → ∀ c ∈ txnCellsFrom t i parts, c.md = .unparsable := by
  intro parts
  induction parts with
  | nil => intro i _ c hc; simp [txnCellsFrom] at hc
  | cons p rest ih =>
    intro i hi c hc
    obtain ⟨s, pl⟩ := p
    have hne : i ≠ 0 := by omega
    cases rest with
    | nil =>
      simp only [txnCellsFrom, List.mem_singleton] at hc
      subst hc
      simp [hne]
    | cons q rest' =>
      obtain ⟨s', pl'⟩ := q
      rw [txnCellsFrom] at hc
      rcases List.mem_cons.mp hc with rfl | hc'
      · simp [hne]
      · exact ih (i + 1) (by omega) c hc'

/-- the first write of a swap-out: it sits in the first reserved slot and carries the key in its metadata; all later
    writes do not parse as metadata -/
theorem txnCells_head (t : Txn) (hw : t.Wf) :
    ∃ hd tl, txnCells t = hd :: tl ∧ hd.slot = t.first ∧ hd.md = .ok (some t.key) t.metaSfs t.metaFlags t.metaHdr ∧
      ∀ c ∈ tl, c.md = .unparsable := by
  obtain ⟨hne, _, _⟩ := hw
  unfold txnCells
  cases hp : t.parts with
  | nil => exact absurd hp hne
  | cons p rest =>
    obtain ⟨s, pl⟩ := p
    have hfirst : t.first = s := by simp [Txn.first, hp]
    cases rest with
    | nil =>
      rw [txnCellsFrom]
      refine ⟨_, [], rfl, hfirst.symm, ?_, ?_⟩
      · simp
      · intro c hc; cases hc
    | cons q rest' =>
      obtain ⟨s', pl'⟩ := q
      rw [txnCellsFrom]
      refine ⟨_, _, rfl, hfirst.symm, ?_, ?_⟩
      · simp
      · intro c hc
        exact txnCellsFrom_md t _ 1 (by omega) c hc

theorem txnCells_slots_nodup (t : Txn) (hw : t.Wf) : ((txnCells t).map (·.slot)).Nodup := by
  unfold txnCells
  rw [txnCellsFrom_slots]
  exact hw.2.1

theorem txnCells_slots_nonneg (t : Txn) (hw : t.Wf) : ∀ c ∈ txnCells t, 0 ≤ c.slot := by
  intro c hc
  have : c.slot ∈ (txnCells t).map (·.slot) := List.mem_map.mpr ⟨c, hc, rfl⟩
  unfold txnCells at this
  rw [txnCellsFrom_slots] at this
  obtain ⟨p, hp, hps⟩ := List.mem_map.mp this
  rw [← hps]
  exact hw.2.2 p hp

/-! ### following a linked list of cells -/

/-- A chain that starts at the head of a linked, duplicate-free list `T` of cells with valid slots, stays inside a
    collection `L ⊇ T` in which slots identify cells, and ends at a negative slot id, is `T` itself. -/
theorem follow_linked {τ : Type} {own L : List (Cell τ)} (hnL : (L.map (·.slot)).Nodup) (hposL : ∀ x ∈ L, 0 ≤ x.slot) :
    ∀ (T cs : List (Cell τ)) (s e : Int), (∀ x ∈ T, x ∈ L) → Linked T → (∀ hd ∈ T.head?, hd.slot = s) → T ≠ [] →
      Chained own s cs e → e < 0 → (∀ c ∈ cs, c ∈ L) → cs = T := by
  intro T
  induction T with
  | nil => intro cs s e _ _ _ hne; exact absurd rfl hne
  | cons x rest ih =>
    intro cs s e hTL hlink hhead _ hch he hcsL
    have hxs : x.slot = s := hhead x (by simp)
    have hxL : x ∈ L := hTL x (List.mem_cons_self ..)
    cases cs with
    | nil =>
      -- the chain stops at once: e = s = x.slot >= 0
      have : e = s := hch
      have := hposL x hxL
      omega
    | cons c cs' =>
      obtain ⟨hf, _, hrest⟩ := hch
      have hcs : c.slot = s := (findOwn_some hf).2
      have hcL : c ∈ L := hcsL c (List.mem_cons_self ..)
      have hcx : c = x := eq_of_slot_eq hnL hcL hxL (by rw [hcs, hxs])
      subst hcx
      cases rest with
      | nil =>
        -- last cell: next = -1, nothing can follow
        have hnx : c.hdr.nextSlot = -1 := hlink
        rw [hnx] at hrest
        cases cs' with
        | nil => rfl
        | cons d ds =>
          obtain ⟨hfd, _, _⟩ := hrest
          have hd : d.slot = -1 := (findOwn_some hfd).2
          have := hposL d (hcsL d (by simp))
          omega
      | cons y rest' =>
        obtain ⟨hnx, hlink'⟩ := hlink
        rw [hnx] at hrest
        have := ih cs' y.slot e (fun z hz => hTL z (List.mem_cons_of_mem _ hz)) hlink' (by intro hd hhd; simp at hhd; rw [← hhd])
          (by simp) hrest he (fun z hz => hcsL z (List.mem_cons_of_mem _ hz))
        rw [this]

/-- along a chain, membership in the cells of one swap-out propagates when links never cross swap-outs -/
theorem chained_same_txn {own : List (Cell Piece)} {P : Cell Piece → Prop}
    (hstep : ∀ c ∈ own, ∀ d ∈ own, c.hdr.nextSlot = d.slot → P c → P d) :
    ∀ (cs : List (Cell Piece)) (s e : Int), Chained own s cs e → (∀ hd ∈ cs.head?, P hd) → ∀ c ∈ cs, P c := by
  intro cs
  induction cs with
  | nil => intro s e _ _ c hc; cases hc
  | cons x rest ih =>
    intro s e hch hhead c hc
    obtain ⟨hf, _, hrest⟩ := hch
    have hPx : P x := hhead x (by simp)
    rcases List.mem_cons.mp hc with rfl | hc'
    · exact hPx
    · refine ih x.hdr.nextSlot e hrest ?_ c hc'
      intro hd hhd
      cases rest with
      | nil => simp at hhd
      | cons y ys =>
        simp at hhd
        subst hhd
        obtain ⟨hfy, _, _⟩ := hrest
        exact hstep x (findOwn_some hf).1 y (findOwn_some hfy).1 (findOwn_some hfy).2.symm hPx

theorem mem_cellsAt {τ : Type} {cfg : Cfg} {slots f : Nat} {img : List (Cell τ)} {c : Cell τ} (h : c ∈ cellsAt cfg slots f img) :
    c ∈ img ∧ 0 < c.hdr.payloadSize := by
  unfold cellsAt at h
  rw [List.mem_filter] at h
  refine ⟨h.1, ?_⟩
  have := h.2
  simp only [Bool.and_eq_true, Header.sane, decide_eq_true_eq] at this
  omega

theorem cellsAt_nodup {τ : Type} {cfg : Cfg} {slots f : Nat} {img : List (Cell τ)} (h : (img.map (·.slot)).Nodup) :
    ((cellsAt cfg slots f img).map (·.slot)).Nodup := by
  unfold cellsAt
  exact List.Nodup.sublist (List.Sublist.map _ List.filter_sublist) h

/-- **C16, rock**: what `serve` returns from a position that holds only intact cells of swap-outs, none of which links
    to a cell of another swap-out, is one complete swap-out of the requested key, all of whose writes are on the disk. -/
theorem serve_is_complete_txn {cfg : Cfg} {slots : Nat} {foreign : Int → Option (Nat × Int)} (hnf : NoForeign cfg foreign)
    (txns : List Txn) (hwf : ∀ t ∈ txns, t.Wf) (img : List (Cell Piece)) (k : Key)
    (hslots : (img.map (·.slot)).Nodup)
    (hprov : ∀ c ∈ cellsAt cfg slots (fileNo (cfg.geo slots) k) img, ∃ t ∈ txns, c ∈ txnCells t)
    (hlink : ∀ c ∈ cellsAt cfg slots (fileNo (cfg.geo slots) k) img, ∀ d ∈ cellsAt cfg slots (fileNo (cfg.geo slots) k) img,
      c.hdr.nextSlot = d.slot → ∀ t ∈ txns, c ∈ txnCells t → d ∈ txnCells t)
    (ls : List (Link Piece)) (hs : serve cfg slots foreign img k = some ls) :
    ∃ t ∈ txns, t.key = k ∧ ls = (txnCells t).map Link.own ∧ ∀ c ∈ txnCells t, c ∈ img := by
  unfold serve at hs
  simp only at hs
  generalize hcells : cellsAt cfg slots (fileNo (cfg.geo slots) k) img = cells at hs hprov hlink
  split at hs
  · rename_i hst
    obtain ⟨hloaded, _⟩ := hst
    obtain ⟨st0, hl, hsz, e, total, ls0, hw, he, ht, hch, _⟩ := posRebuild_loaded cells hloaded
    obtain ⟨cs, hls0, hchained, htot, _, hnd⟩ := walk_spec hnf st0.mapped st0.size _ _ _ _ _ _ _ hw
    rw [hch] at hs
    -- the chain runs through mapped cells = all cells of the position
    have hown : ∀ c, c ∈ st0.mapped ↔ c ∈ cells := by intro c; rw [hl.mapped]; simp
    have hcsCells : ∀ c ∈ cs, c ∈ cells := fun c hc => (hown c).1 (chained_mem hchained c hc)
    have hnCells : (cells.map (·.slot)).Nodup := by rw [← hcells]; exact cellsAt_nodup hslots
    have hposCells : ∀ b ∈ cells, 0 < b.hdr.payloadSize := by
      intro b hb; rw [← hcells] at hb; exact (mem_cellsAt hb).2
    have hsum : payloadSum cs = payloadSum cells := by
      have := hl.size
      simp only [Nat.zero_add] at htot
      omega
    have hall : ∀ b ∈ cells, b ∈ cs := all_mem_of_sum_eq hnd hnCells hcsCells hsum hposCells
    -- the first link is the inode of some swap-out t
    cases cs with
    | nil =>
      simp only [List.map_nil] at hls0
      rw [hls0] at hs
      simp at hs
    | cons c0 cs' =>
      rw [hls0] at hs
      simp only [List.map_cons] at hs
      obtain ⟨t, htm, hc0t⟩ := hprov c0 (hcsCells c0 (List.mem_cons_self ..))
      have hwt := hwf t htm
      obtain ⟨hd, tl, hT, hhdslot, hhdmd, htlmd⟩ := txnCells_head t hwt
      -- all chain cells belong to t
      have hchainT : ∀ c ∈ c0 :: cs', c ∈ txnCells t := by
        refine chained_same_txn (own := st0.mapped) (P := fun c => c ∈ txnCells t) ?_ (c0 :: cs') _ _ hchained ?_
        · intro c hc d hd' hnx hP
          exact hlink c ((hown c).1 hc) d ((hown d).1 hd') hnx t htm hP
        · intro x hx; simp at hx; subst hx; exact hc0t
      -- c0 carries parsable metadata, so it is the head of t's writes
      have hc0hd : c0 = hd := by
        rw [hT] at hc0t
        rcases List.mem_cons.mp hc0t with h | h
        · exact h
        · have := htlmd c0 h
          rw [this] at hs
          simp at hs
      have hkey : t.key = k := by
        rw [hc0hd, hhdmd] at hs
        simp only at hs
        split at hs
        · rename_i hc; exact hc.1
        · cases hs
      have hstart : c0.slot = st0.start := (findOwn_some hchained.1).2
      -- the chain is exactly the list of t's writes
      have hfollow : c0 :: cs' = txnCells t := by
        refine follow_linked (own := st0.mapped) (L := txnCells t) (txnCells_slots_nodup t hwt) (txnCells_slots_nonneg t hwt)
          (txnCells t) (c0 :: cs') st0.start e (fun x hx => hx) ?_ ?_ ?_ hchained he hchainT
        · unfold txnCells; exact txnCellsFrom_linked t _ 0
        · intro x hx
          rw [hT] at hx
          simp at hx
          rw [← hx, ← hc0hd, hstart]
        · rw [hT]; simp
      refine ⟨t, htm, hkey, ?_, ?_⟩
      · rw [hc0hd, hhdmd] at hs
        simp only at hs
        split at hs
        · cases hs
          rw [← hfollow, hc0hd]
          simp
        · cases hs
      · intro c hc
        rw [← hfollow] at hc
        have := hcsCells c hc
        rw [← hcells] at this
        exact (mem_cellsAt this).1
  · cases hs


/-! ### disk images made by completed writes -/

theorem mem_writeCell {τ : Type} {img : List (Cell τ)} {c x : Cell τ} (h : x ∈ writeCell img c) : x = c ∨ x ∈ img := by
  induction img with
  | nil => simp [writeCell] at h; exact Or.inl h
  | cons d rest ih =>
    rw [writeCell] at h
    split at h
    · rcases List.mem_cons.mp h with h | h
      · exact Or.inl h
      · exact Or.inr h
    · split at h
      · rcases List.mem_cons.mp h with h | h
        · exact Or.inl h
        · exact Or.inr (List.mem_cons_of_mem _ h)
      · rcases List.mem_cons.mp h with h | h
        · exact Or.inr (h ▸ List.mem_cons_self ..)
        · rcases ih h with h | h
          · exact Or.inl h
          · exact Or.inr (List.mem_cons_of_mem _ h)

theorem mem_applyWrites {τ : Type} : ∀ (ws : List (Cell τ)) (img : List (Cell τ)) (x : Cell τ), x ∈ applyWrites img ws → x ∈ ws ∨ x ∈ img := by
  intro ws
  induction ws with
  | nil => intro img x h; exact Or.inr h
  | cons w rest ih =>
    intro img x h
    simp only [applyWrites, List.foldl_cons] at h
    rcases ih (writeCell img w) x h with h | h
    · exact Or.inl (List.mem_cons_of_mem _ h)
    · rcases mem_writeCell h with h | h
      · exact Or.inl (h ▸ List.mem_cons_self ..)
      · exact Or.inr h

/-- slots strictly increase along the image -/
def SlotsSorted {τ : Type} (img : List (Cell τ)) : Prop := List.Pairwise (fun a b => a.slot < b.slot) img

theorem writeCell_sorted {τ : Type} {img : List (Cell τ)} (c : Cell τ) (h : SlotsSorted img) : SlotsSorted (writeCell img c) := by
  induction img with
  | nil => simp [writeCell, SlotsSorted]
  | cons d rest ih =>
    unfold SlotsSorted at h ⊢
    rw [List.pairwise_cons] at h
    rw [writeCell]
    split
    · rename_i hlt
      rw [List.pairwise_cons]
      refine ⟨?_, List.pairwise_cons.mpr h⟩
      intro x hx
      rcases List.mem_cons.mp hx with rfl | hx'
      · exact hlt
      · have := h.1 x hx'; omega
    · split
      · rename_i heq
        rw [List.pairwise_cons]
        refine ⟨?_, h.2⟩
        intro x hx
        have := h.1 x hx; omega
      · rename_i hnlt hne
        rw [List.pairwise_cons]
        refine ⟨?_, ih h.2⟩
        intro x hx
        rcases mem_writeCell hx with rfl | hx'
        · omega
        · exact h.1 x hx'

theorem applyWrites_sorted {τ : Type} : ∀ (ws : List (Cell τ)) (img : List (Cell τ)), SlotsSorted img → SlotsSorted (applyWrites img ws) := by
  intro ws
  induction ws with
  | nil => intro img h; exact h
  | cons w rest ih =>
    intro img h
    simp only [applyWrites, List.foldl_cons]
    exact ih _ (writeCell_sorted w h)

theorem sorted_nodup {τ : Type} {img : List (Cell τ)} (h : SlotsSorted img) : (img.map (·.slot)).Nodup := by
  unfold SlotsSorted at h
  induction img with
  | nil => simp
  | cons d rest ih =>
    rw [List.pairwise_cons] at h
    rw [List.map_cons, List.nodup_cons]
    refine ⟨?_, ih h.2⟩
    intro hm
    obtain ⟨x, hx, hxs⟩ := List.mem_map.mp hm
    have := h.1 x hx
    omega

end SquidModel.Rock.Crash
