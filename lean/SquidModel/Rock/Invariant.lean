/-
The inductive invariant of the slot-by-slot loading loop of Rock::Rebuild and its preservation by the primitives.

`InvCore cfg img pL pC ex st`:
* slots at positions >= pL are untouched;
* an entry position that is Empty or Corrupted has a rewound anchor, Ignored never occurs (the map starts empty);
* a Loading entry holds the exclusive lock and its `more` links spell a duplicate-free list of unfreed slots below pL
  that were all added to this entry;
* a Loaded entry is unlocked and its slice links spell a duplicate-free chain of finalized slots below pC that ends
  with -1 and whose sizes add up to the loaded size, which equals swap_file_sz (or is smaller, when finalizeOrThrow
  does not compare them);
* chains of different Loaded entries are disjoint.
-/
import SquidModel.Rock.Image

namespace SquidModel.Rock

/-- what the map slice of a chain slot must be: the payload size and link of the db cell at that position -/
def diskSlice (h : Header) : Slice := { size := h.payloadSize, next := h.nextSlot }

/-- the slice chain `C` of the Loaded entry `f` -/
structure LoadedWith (cfg : Cfg) (img : List RawSlot) (pC : Int) (st : St) (f : Nat) (C : List Int) : Prop where
  chain : Chain st.next (st.an f).start C
  nodup : C.Nodup
  range : InRange C pC
  fin : ∀ x ∈ C, (st.ls x).finalized = true
  sum : sumOn st.ssize C = (st.le f).size
  pos : 0 < (st.le f).size
  size : (st.an f).sfs = (st.le f).size ∨ (cfg.v.finalizeChecksKnownSize = false ∧ (st.le f).size < (st.an f).sfs)
  /-- every chain slot is a mapped slot whose slice is what the db cell at that position says -/
  cells : ∀ x ∈ C, (st.ls x).mapped = true ∧ ∃ h, usableAt cfg img x = some h ∧ st.sl x = diskSlice h
  /-- when chains cannot leave their entry: every chain slot was added to this entry, is not freed and not on the free stack -/
  own : Own cfg img → ∀ x ∈ C, (st.ls x).owner = (f : Int) ∧ (st.ls x).freed = false ∧ x ∉ st.free

/-- the `more` list `L` of the Loading entry `f` -/
structure LoadingWith (pL : Int) (st : St) (f : Nat) (L : List Int) : Prop where
  chain : Chain st.more (st.an f).start L
  nodup : L.Nodup
  range : InRange L pL
  slots : ∀ x ∈ L, (st.ls x).freed = false ∧ (st.ls x).owner = (f : Int)

structure InvCore (cfg : Cfg) (img : List RawSlot) (pL pC : Int) (ex : Option Nat) (st : St) : Prop where
  fresh : ∀ x, pL ≤ x → st.ls x = {} ∧ st.sl x = {}
  noIgn : ∀ f, (st.le f).state ≠ .ignored
  idle : ∀ f, (st.le f).state = .empty ∨ (st.le f).state = .corrupted → st.an f = {}
  loading : ∀ f, (st.le f).state = .loading → (st.an f).writing = true ∧ (∃ L, LoadingWith pL st f L) ∧
    (ex ≠ some f → (st.an f).sfs = 0 ∨ (st.le f).size < (st.an f).sfs)
  loaded : ∀ f, (st.le f).state = .loaded → (st.an f).writing = false ∧ ∃ C, LoadedWith cfg img pC st f C
  disj : ∀ f g, f ≠ g → (st.le f).state = .loaded → (st.le g).state = .loaded →
    ∀ Cf Cg, Chain st.next (st.an f).start Cf → Chain st.next (st.an g).start Cg → ∀ x ∈ Cf, x ∉ Cg
  /-- a slot on the free stack was freed by the rebuild or belonged to a finalised chain that the map freed -/
  fz : ∀ x ∈ st.free, (st.ls x).freed = true ∨ (st.ls x).finalized = true
  /-- a mapped slot is a usable db cell, was added to the entry its key hashes to, and (until a walk finalises it)
      its slice is what the cell says -/
  disk : ∀ x, (st.ls x).mapped = true → ∃ h, usableAt cfg img x = some h ∧ (st.ls x).owner = (fileOf cfg img h : Int) ∧
    ((st.ls x).finalized = false → st.sl x = diskSlice h)

/-- between two slots every Loading entry with a known total has not reached it yet (otherwise addSlotToEntry
    finalised or freed it); while a slot is being added to entry `f` that entry is exempt (`ex = some f`) -/
abbrev Inv (cfg : Cfg) (img : List RawSlot) (pos : Int) (st : St) : Prop := InvCore cfg img pos pos none st

theorem inv_init (cfg : Cfg) (img : List RawSlot) : Inv cfg img 0 St.init := by
  refine ⟨?_, ?_, ?_, ?_, ?_, ?_, ?_, ?_⟩
  · intro x _; exact ⟨rfl, rfl⟩
  · intro f; simp [St.init]
  · intro f _; rfl
  · intro f h; simp [St.init] at h
  · intro f h; simp [St.init] at h
  · intro f g _ h; simp [St.init] at h
  · intro x hx; simp [St.init] at hx
  · intro x hx; simp [St.init] at hx

/-! ### transfer lemmas -/

theorem LoadingWith.transfer {pL pL' : Int} {st st' : St} {f : Nat} {L : List Int} (h : LoadingWith pL st f L)
    (hstart : (st'.an f).start = (st.an f).start) (hp : pL ≤ pL')
    (hls : ∀ x ∈ L, (st'.ls x).more = (st.ls x).more ∧ (st'.ls x).freed = (st.ls x).freed ∧ (st'.ls x).owner = (st.ls x).owner) :
    LoadingWith pL' st' f L := by
  refine ⟨?_, h.nodup, h.range.mono hp, ?_⟩
  · rw [hstart]
    exact Chain.frame (fun x hx => (hls x hx).1) h.chain
  · intro x hx
    obtain ⟨_, b, c⟩ := hls x hx
    rw [b, c]
    exact h.slots x hx

theorem LoadedWith.transfer {cfg : Cfg} {pC pC' : Int} {st st' : St} {f : Nat} {C : List Int} (h : LoadedWith cfg img pC st f C)
    (han : st'.an f = st.an f) (hle : (st'.le f).size = (st.le f).size) (hp : pC ≤ pC')
    (hx : ∀ x ∈ C, st'.sl x = st.sl x ∧ (st'.ls x).finalized = true)
    (hm : ∀ x ∈ C, (st'.ls x).mapped = true)
    (hown : Own cfg img → ∀ x ∈ C, (st.ls x).owner = (f : Int) → (st.ls x).freed = false → x ∉ st.free →
      (st'.ls x).owner = (f : Int) ∧ (st'.ls x).freed = false ∧ x ∉ st'.free) :
    LoadedWith cfg img pC' st' f C := by
  refine ⟨?_, h.nodup, h.range.mono hp, fun x hxC => (hx x hxC).2, ?_, by rw [hle]; exact h.pos, ?_, ?_, ?_⟩
  · rw [han]
    refine Chain.frame (fun x hxC => ?_) h.chain
    simp only [St.next, (hx x hxC).1]
  · rw [hle, ← h.sum]
    refine sumOn_frame (fun x hxC => ?_)
    simp only [St.ssize, (hx x hxC).1]
  · rw [han, hle]; exact h.size
  · intro x hxC
    obtain ⟨_, hd, hu, hs⟩ := h.cells x hxC
    exact ⟨hm x hxC, hd, hu, by rw [(hx x hxC).1]; exact hs⟩
  · intro ho x hxC
    obtain ⟨a, b, c⟩ := h.own ho x hxC
    exact hown ho x hxC a b c

/-- disjointness of Loaded chains carries over when every entry that is Loaded afterwards was Loaded before with the
    same start and its old chain is still a chain -/
theorem disj_transfer {st st' : St}
    (hd : ∀ f g, f ≠ g → (st.le f).state = .loaded → (st.le g).state = .loaded →
      ∀ Cf Cg, Chain st.next (st.an f).start Cf → Chain st.next (st.an g).start Cg → ∀ x ∈ Cf, x ∉ Cg)
    (hk : ∀ f, (st'.le f).state = .loaded → (st.le f).state = .loaded ∧ (st'.an f).start = (st.an f).start ∧
      ∃ C, Chain st.next (st.an f).start C ∧ Chain st'.next (st.an f).start C) :
    ∀ f g, f ≠ g → (st'.le f).state = .loaded → (st'.le g).state = .loaded →
      ∀ Cf Cg, Chain st'.next (st'.an f).start Cf → Chain st'.next (st'.an g).start Cg → ∀ x ∈ Cf, x ∉ Cg := by
  intro f g hfg hf hg Cf Cg hcf hcg
  obtain ⟨hf0, hsf, C1, a1, b1⟩ := hk f hf
  obtain ⟨hg0, hsg, C2, a2, b2⟩ := hk g hg
  rw [hsf] at hcf
  rw [hsg] at hcg
  have e1 : Cf = C1 := Chain.unique hcf b1
  have e2 : Cg = C2 := Chain.unique hcg b2
  subst e1; subst e2
  exact hd f g hfg hf0 hg0 _ _ a1 a2

end SquidModel.Rock

namespace SquidModel.Rock

/-! ### preservation by the primitives -/

/-- only `LoadingSlot` flags changed, in a way no Loading list or Loaded chain can notice -/
theorem InvCore.of_ls_change {cfg : Cfg} {pL pC pL' pC' : Int} {st st' : St} (h : InvCore cfg img pL pC ex st)
    (hle : st'.le = st.le) (han : st'.an = st.an) (hsl : st'.sl = st.sl)
    (hkeep : ∀ x, (st'.ls x).more = (st.ls x).more ∧ (st'.ls x).owner = (st.ls x).owner ∧
      ((st.ls x).finalized = true → (st'.ls x).finalized = true) ∧ (st'.ls x).mapped = (st.ls x).mapped)
    (hfreed : ∀ x, 0 ≤ x → x < pL → (st'.ls x).freed = (st.ls x).freed)
    (hfmono : ∀ x, (st.ls x).freed = true → (st'.ls x).freed = true)
    (hfree : ∀ x, x ∈ st'.free → x ∈ st.free ∨ (pL ≤ x ∧ (st'.ls x).freed = true))
    (hfresh : ∀ x, pL' ≤ x → st'.ls x = {}) (hpL : pL ≤ pL') (hpC : pC ≤ pC') (hcl : pC ≤ pL) :
    InvCore cfg img pL' pC' ex st' := by
  have hnext : st'.next = st.next := by funext x; simp [St.next, hsl]
  refine ⟨?_, ?_, ?_, ?_, ?_, ?_, ?_, ?_⟩
  · intro x hx
    refine ⟨hfresh x hx, ?_⟩
    rw [hsl]; exact (h.fresh x (by omega)).2
  · intro f; rw [hle]; exact h.noIgn f
  · intro f hf; rw [hle] at hf; rw [han]; exact h.idle f hf
  · intro f hf
    rw [hle] at hf
    obtain ⟨hw, ⟨L, hL⟩, hs⟩ := h.loading f hf
    refine ⟨by rw [han]; exact hw, ⟨L, hL.transfer (by rw [han]) hpL ?_⟩, by rw [han, hle]; exact hs⟩
    intro x hx
    obtain ⟨a, b, _⟩ := hkeep x
    exact ⟨a, hfreed x (hL.range x hx).1 (hL.range x hx).2, b⟩
  · intro f hf
    rw [hle] at hf
    obtain ⟨hw, C, hC⟩ := h.loaded f hf
    refine ⟨by rw [han]; exact hw, C, hC.transfer (by rw [han]) (by rw [hle]) hpC ?_ ?_ ?_⟩
    · intro x hx
      exact ⟨by rw [hsl], (hkeep x).2.2.1 (hC.fin x hx)⟩
    · intro x hx
      rw [(hkeep x).2.2.2]; exact (hC.cells x hx).1
    · intro _ x hx a b c
      have hr := hC.range x hx
      refine ⟨by rw [(hkeep x).2.1]; exact a, by rw [hfreed x hr.1 (by omega)]; exact b, ?_⟩
      intro hx'
      cases hfree x hx' with
      | inl e => exact c e
      | inr e => omega
  · refine disj_transfer h.disj ?_
    intro f hf
    rw [hle] at hf
    obtain ⟨_, C, hC⟩ := h.loaded f hf
    refine ⟨hf, by rw [han], C, hC.chain, ?_⟩
    rw [hnext]; exact hC.chain
  · intro x hx
    cases hfree x hx with
    | inl e =>
      cases h.fz x e with
      | inl a => exact Or.inl (hfmono x a)
      | inr a => exact Or.inr ((hkeep x).2.2.1 a)
    | inr e => exact Or.inl e.2
  · intro x hx
    rw [(hkeep x).2.2.2] at hx
    obtain ⟨hd, hu, ho, hs⟩ := h.disk x hx
    refine ⟨hd, hu, by rw [(hkeep x).2.1]; exact ho, ?_⟩
    intro hf
    rw [hsl]
    refine hs ?_
    cases hfin : (st.ls x).finalized with
    | false => rfl
    | true => rw [(hkeep x).2.2.1 hfin] at hf; cases hf

/-- `freeUnusedSlot` of the slot being loaded -/
theorem InvCore.freeUnused {cfg : Cfg} {g : Geo} {p : Int} {st st' : St} (h : InvCore cfg img p p ex st)
    (hp : FreeSlotPost g p st p st') : InvCore cfg img (p + 1) (p + 1) ex st' := by
  refine h.of_ls_change hp.le hp.an hp.sl ?_ ?_ ?_ ?_ ?_ (by omega) (by omega) (Int.le_refl _)
  · intro x
    rw [hp.ls]
    by_cases hx : x = p
    · subst hx; simp
    · simp [upd_other _ _ _ _ hx]
  · intro x _ hx
    rw [hp.ls, upd_other _ _ _ _ (by omega)]
  · intro x hx
    rw [hp.ls]
    by_cases hxp : x = p
    · subst hxp; simp
    · rw [upd_other _ _ _ _ hxp]; exact hx
  · intro x hx
    rw [hp.free] at hx
    cases hx with
    | head => right; refine ⟨Int.le_refl _, ?_⟩; rw [hp.ls]; simp
    | tail _ hx => exact Or.inl hx
  · intro x hx
    rw [hp.ls, upd_other _ _ _ _ (by omega)]
    exact (h.fresh x (by omega)).1

/-- a walk that marked the slots `C` (all at or below `pos`) and changed nothing else -/
theorem InvCore.markFinal {cfg : Cfg} {pL pC : Int} {st st' : St} {C : List Int} (h : InvCore cfg img pL pC ex st)
    (hle : st'.le = st.le) (han : st'.an = st.an) (hsl : st'.sl = st.sl) (hls : st'.ls = markFinal st.ls C)
    (hfree : st'.free = st.free) (hC : ∀ x ∈ C, x < pL) (hcl : pC ≤ pL) : InvCore cfg img pL pC ex st' := by
  refine h.of_ls_change hle han hsl ?_ ?_ ?_ ?_ ?_ (by omega) (by omega) hcl
  · intro x
    rw [hls]
    by_cases hx : x ∈ C <;> simp [SquidModel.Rock.markFinal, hx]
  · intro x _ _
    rw [hls]
    by_cases hx : x ∈ C <;> simp [SquidModel.Rock.markFinal, hx]
  · intro x hx
    rw [hls]
    by_cases hxC : x ∈ C <;> simp [SquidModel.Rock.markFinal, hxC, hx]
  · intro x hx
    rw [hfree] at hx; exact Or.inl hx
  · intro x hx
    rw [hls]
    have : x ∉ C := fun hxC => by have := hC x hxC; omega
    simp only [SquidModel.Rock.markFinal, this, if_false]
    exact (h.fresh x hx).1

theorem ofNat_inj_of_ne {f g : Nat} (h : g ≠ f) : (g : Int) ≠ (f : Int) := by omega

/-- `freeBadEntry` of the Loading entry `f` whose list is `L` -/
theorem InvCore.freeBad {cfg : Cfg} {pL pC : Int} {st st' : St} {f : Nat} {L : List Int} (h : InvCore cfg img pL pC ex st)
    (hf : (st.le f).state = .loading) (hL : LoadingWith pL st f L)
    (hle : st'.le = upd st.le f { st.le f with state := .corrupted }) (han : st'.an = upd st.an f rewound)
    (hsl : st'.sl = st.sl) (hls : st'.ls = markFreed st.ls L) (hfree : ∀ x, x ∈ st'.free ↔ x ∈ L ∨ x ∈ st.free) :
    InvCore cfg img pL pC ex st' := by
  have hnext : st'.next = st.next := by funext x; simp [St.next, hsl]
  have hflags : ∀ x, (st'.ls x).more = (st.ls x).more ∧ (st'.ls x).owner = (st.ls x).owner ∧
      (st'.ls x).finalized = (st.ls x).finalized ∧ (st'.ls x).mapped = (st.ls x).mapped ∧
      ((st.ls x).freed = true → (st'.ls x).freed = true) := by
    intro x
    rw [hls]
    by_cases hxL : x ∈ L <;> simp [markFreed, hxL]
  have hstate : ∀ g, g ≠ f → st'.le g = st.le g := fun g hg => by rw [hle, upd_other _ _ _ _ hg]
  have hanch : ∀ g, g ≠ f → st'.an g = st.an g := fun g hg => by rw [han, upd_other _ _ _ _ hg]
  have hstf : (st'.le f).state = .corrupted := by rw [hle]; simp
  refine ⟨?_, ?_, ?_, ?_, ?_, ?_, ?_, ?_⟩
  · intro x hx
    have hxL : x ∉ L := fun hxL => by have := (hL.range x hxL).2; omega
    rw [hls, hsl]
    simp only [markFreed, hxL, if_false]
    exact h.fresh x hx
  · intro g
    by_cases hg : g = f
    · subst hg; rw [hstf]; decide
    · rw [hstate g hg]; exact h.noIgn g
  · intro g hg
    by_cases hgf : g = f
    · subst hgf; rw [han]; simp [rewound]
    · rw [hstate g hgf] at hg; rw [hanch g hgf]; exact h.idle g hg
  · intro g hg
    have hgf : g ≠ f := by
      intro e; subst e; rw [hstf] at hg; cases hg
    rw [hstate g hgf] at hg
    obtain ⟨hw, ⟨Lg, hLg⟩, hs⟩ := h.loading g hg
    refine ⟨by rw [hanch g hgf]; exact hw, ⟨Lg, hLg.transfer (by rw [hanch g hgf]) (by omega) ?_⟩,
      by rw [hanch g hgf, hstate g hgf]; exact hs⟩
    intro x hx
    have hxL : x ∉ L := by
      intro hxL
      have a := (hL.slots x hxL).2
      have b := (hLg.slots x hx).2
      rw [a] at b
      exact ofNat_inj_of_ne hgf b.symm
    rw [hls]
    simp [markFreed, hxL]
  · intro g hg
    have hgf : g ≠ f := by
      intro e; subst e; rw [hstf] at hg; cases hg
    rw [hstate g hgf] at hg
    obtain ⟨hw, C, hC⟩ := h.loaded g hg
    refine ⟨by rw [hanch g hgf]; exact hw, C, hC.transfer (hanch g hgf) (by rw [hstate g hgf]) (by omega) ?_ ?_ ?_⟩
    · intro x hx
      exact ⟨by rw [hsl], by rw [(hflags x).2.2.1]; exact hC.fin x hx⟩
    · intro x hx
      rw [(hflags x).2.2.2.1]; exact (hC.cells x hx).1
    · intro _ x hx a b c
      have hxL : x ∉ L := by
        intro hxL
        have a' := (hL.slots x hxL).2
        rw [a] at a'
        exact ofNat_inj_of_ne hgf a'
      refine ⟨by rw [(hflags x).2.1]; exact a, ?_, ?_⟩
      · rw [hls]; simp only [markFreed, hxL, if_false]; exact b
      · intro hx'
        cases (hfree x).1 hx' with
        | inl e => exact hxL e
        | inr e => exact c e
  · refine disj_transfer h.disj ?_
    intro g hg
    have hgf : g ≠ f := by
      intro e; subst e; rw [hstf] at hg; cases hg
    rw [hstate g hgf] at hg
    obtain ⟨_, C, hC⟩ := h.loaded g hg
    refine ⟨hg, by rw [hanch g hgf], C, hC.chain, ?_⟩
    rw [hnext]; exact hC.chain
  · intro x hx
    cases (hfree x).1 hx with
    | inl e => left; rw [hls]; simp [markFreed, e]
    | inr e =>
      cases h.fz x e with
      | inl a => exact Or.inl ((hflags x).2.2.2.2 a)
      | inr a => right; rw [(hflags x).2.2.1]; exact a
  · intro x hx
    rw [(hflags x).2.2.2.1] at hx
    obtain ⟨hd, hu, ho, hs⟩ := h.disk x hx
    refine ⟨hd, hu, by rw [(hflags x).2.1]; exact ho, ?_⟩
    intro hf'
    rw [(hflags x).2.2.1] at hf'
    rw [hsl]; exact hs hf'

/-- `StoreMap::freeEntry` of the Loaded entry `f` (whose LoadingEntry state became Corrupted) -/
theorem InvCore.mapFree {cfg : Cfg} {pL pC : Int} {st st' : St} {f : Nat} {C : List Int} (h : InvCore cfg img pL pC ex st)
    (hf : (st.le f).state = .loaded) (hC : LoadedWith cfg img pC st f C)
    (hle : st'.le = upd st.le f { st.le f with state := .corrupted }) (han : st'.an = upd st.an f rewound)
    (hls : st'.ls = st.ls) (hsl : st'.sl = st.sl ∨ st'.sl = clearOn st.sl C)
    (hfree : ∀ x, x ∈ st'.free → x ∈ C ∨ x ∈ st.free) : InvCore cfg img pL pC ex st' := by
  have hstate : ∀ g, g ≠ f → st'.le g = st.le g := fun g hg => by rw [hle, upd_other _ _ _ _ hg]
  have hanch : ∀ g, g ≠ f → st'.an g = st.an g := fun g hg => by rw [han, upd_other _ _ _ _ hg]
  have hstf : (st'.le f).state = .corrupted := by rw [hle]; simp
  have hslx : ∀ x, x ∉ C → st'.sl x = st.sl x := by
    intro x hx
    cases hsl with
    | inl e => rw [e]
    | inr e => rw [e]; simp [clearOn, hx]
  -- the chain of another Loaded entry is untouched
  have hother : ∀ g, g ≠ f → (st.le g).state = .loaded → ∀ Cg, LoadedWith cfg img pC st g Cg → ∀ x ∈ Cg, st'.sl x = st.sl x := by
    intro g hgf hg Cg hCg x hx
    exact hslx x (h.disj g f hgf hg hf Cg C hCg.chain hC.chain x hx)
  refine ⟨?_, ?_, ?_, ?_, ?_, ?_, ?_, ?_⟩
  · intro x hx
    refine ⟨by rw [hls]; exact (h.fresh x hx).1, ?_⟩
    cases hsl with
    | inl e => rw [e]; exact (h.fresh x hx).2
    | inr e =>
      rw [e]
      by_cases hxC : x ∈ C
      · simp [clearOn, hxC]
      · simp only [clearOn, hxC, if_false]; exact (h.fresh x hx).2
  · intro g
    by_cases hg : g = f
    · subst hg; rw [hstf]; decide
    · rw [hstate g hg]; exact h.noIgn g
  · intro g hg
    by_cases hgf : g = f
    · subst hgf; rw [han]; simp [rewound]
    · rw [hstate g hgf] at hg; rw [hanch g hgf]; exact h.idle g hg
  · intro g hg
    have hgf : g ≠ f := by
      intro e; subst e; rw [hstf] at hg; cases hg
    rw [hstate g hgf] at hg
    obtain ⟨hw, ⟨Lg, hLg⟩, hs⟩ := h.loading g hg
    refine ⟨by rw [hanch g hgf]; exact hw, ⟨Lg, hLg.transfer (by rw [hanch g hgf]) (by omega) ?_⟩,
      by rw [hanch g hgf, hstate g hgf]; exact hs⟩
    intro x _
    rw [hls]; exact ⟨rfl, rfl, rfl⟩
  · intro g hg
    have hgf : g ≠ f := by
      intro e; subst e; rw [hstf] at hg; cases hg
    rw [hstate g hgf] at hg
    obtain ⟨hw, Cg, hCg⟩ := h.loaded g hg
    refine ⟨by rw [hanch g hgf]; exact hw, Cg, hCg.transfer (hanch g hgf) (by rw [hstate g hgf]) (by omega) ?_ ?_ ?_⟩
    · intro x hx
      exact ⟨hother g hgf hg Cg hCg x hx, by rw [hls]; exact hCg.fin x hx⟩
    · intro x hx; rw [hls]; exact (hCg.cells x hx).1
    · intro _ x hx a b c
      refine ⟨by rw [hls]; exact a, by rw [hls]; exact b, ?_⟩
      intro hx'
      cases hfree x hx' with
      | inl e => exact h.disj g f hgf hg hf Cg C hCg.chain hC.chain x hx e
      | inr e => exact c e
  · refine disj_transfer h.disj ?_
    intro g hg
    have hgf : g ≠ f := by
      intro e; subst e; rw [hstf] at hg; cases hg
    rw [hstate g hgf] at hg
    obtain ⟨_, Cg, hCg⟩ := h.loaded g hg
    refine ⟨hg, by rw [hanch g hgf], Cg, hCg.chain, ?_⟩
    refine Chain.frame (fun x hx => ?_) hCg.chain
    simp only [St.next, hother g hgf hg Cg hCg x hx]
  · intro x hx
    rw [hls]
    cases hfree x hx with
    | inl e => exact Or.inr (hC.fin x e)
    | inr e => exact h.fz x e
  · intro x hx
    rw [hls] at hx
    obtain ⟨hd, hu, ho, hs⟩ := h.disk x hx
    refine ⟨hd, hu, by rw [hls]; exact ho, ?_⟩
    intro hf'
    rw [hls] at hf'
    have hxC : x ∉ C := fun e => by have := hC.fin x e; rw [hf'] at this; cases this
    rw [hslx x hxC]; exact hs hf'

end SquidModel.Rock

namespace SquidModel.Rock

/-- changes to the LoadingEntry / anchor of a Loading entry that keep it Loading, locked and with the same chain start -/
theorem InvCore.tweak {cfg : Cfg} {pL pC : Int} {st st' : St} {f : Nat} {e : LEntry} {a : Anchor} (h : InvCore cfg img pL pC ex st)
    (hf : (st.le f).state = .loading) (he : e.state = .loading) (ha : a.writing = true) (has : a.start = (st.an f).start)
    (hsz : ex ≠ some f → a.sfs = 0 ∨ e.size < a.sfs)
    (hle : st'.le = upd st.le f e) (han : st'.an = upd st.an f a) (hls : st'.ls = st.ls) (hsl : st'.sl = st.sl)
    (hfree : st'.free = st.free) :
    InvCore cfg img pL pC ex st' := by
  have hnext : st'.next = st.next := by funext x; simp [St.next, hsl]
  have hstate : ∀ g, g ≠ f → st'.le g = st.le g := fun g hg => by rw [hle, upd_other _ _ _ _ hg]
  have hanch : ∀ g, g ≠ f → st'.an g = st.an g := fun g hg => by rw [han, upd_other _ _ _ _ hg]
  have hstf : (st'.le f).state = .loading := by rw [hle]; simpa using he
  refine ⟨?_, ?_, ?_, ?_, ?_, ?_, by rw [hfree, hls]; exact h.fz, by rw [hls, hsl]; exact h.disk⟩
  · intro x hx; rw [hls, hsl]; exact h.fresh x hx
  · intro g
    by_cases hg : g = f
    · subst hg; rw [hstf]; decide
    · rw [hstate g hg]; exact h.noIgn g
  · intro g hg
    have hgf : g ≠ f := by
      intro e'; subst e'; rw [hstf] at hg; cases hg with
      | inl x => cases x
      | inr x => cases x
    rw [hstate g hgf] at hg; rw [hanch g hgf]; exact h.idle g hg
  · intro g hg
    by_cases hgf : g = f
    · subst hgf
      obtain ⟨_, ⟨L, hL⟩, _⟩ := h.loading g hf
      refine ⟨by rw [han]; simpa using ha, ⟨L, hL.transfer (by rw [han]; simpa using has) (by omega) ?_⟩,
        by rw [han, hle]; simpa using hsz⟩
      intro x _; rw [hls]; exact ⟨rfl, rfl, rfl⟩
    · rw [hstate g hgf] at hg
      obtain ⟨hw, ⟨L, hL⟩, hs⟩ := h.loading g hg
      refine ⟨by rw [hanch g hgf]; exact hw, ⟨L, hL.transfer (by rw [hanch g hgf]) (by omega) ?_⟩,
        by rw [hanch g hgf, hstate g hgf]; exact hs⟩
      intro x _; rw [hls]; exact ⟨rfl, rfl, rfl⟩
  · intro g hg
    have hgf : g ≠ f := by
      intro e'; subst e'; rw [hstf] at hg; cases hg
    rw [hstate g hgf] at hg
    obtain ⟨hw, C, hC⟩ := h.loaded g hg
    refine ⟨by rw [hanch g hgf]; exact hw, C, hC.transfer (hanch g hgf) (by rw [hstate g hgf]) (by omega) ?_ ?_ ?_⟩
    · intro x hx
      exact ⟨by rw [hsl], by rw [hls]; exact hC.fin x hx⟩
    · intro x hx; rw [hls]; exact (hC.cells x hx).1
    · intro _ x _ a b c
      exact ⟨by rw [hls]; exact a, by rw [hls]; exact b, by rw [hfree]; exact c⟩
  · refine disj_transfer h.disj ?_
    intro g hg
    have hgf : g ≠ f := by
      intro e'; subst e'; rw [hstf] at hg; cases hg
    rw [hstate g hgf] at hg
    obtain ⟨_, C, hC⟩ := h.loaded g hg
    refine ⟨hg, by rw [hanch g hgf], C, hC.chain, ?_⟩
    rw [hnext]; exact hC.chain

/-- `mapSlot` of the slot being loaded (already chained into its entry) -/
theorem InvCore.mapSlot {cfg : Cfg} {p : Int} {st st' : St} {hd : Header} (h : InvCore cfg img (p + 1) p ex st)
    (hp : MapSlotPost st p hd st') (hu : usableAt cfg img p = some hd) (hown : (st.ls p).owner = (fileOf cfg img hd : Int)) :
    InvCore cfg img (p + 1) p ex st' := by
  have hslx : ∀ x, x ≠ p → st'.sl x = st.sl x := fun x hx => by rw [hp.sl, upd_other _ _ _ _ hx]
  have hlsx : ∀ x, (st'.ls x).more = (st.ls x).more ∧ (st'.ls x).freed = (st.ls x).freed ∧ (st'.ls x).owner = (st.ls x).owner ∧
      (st'.ls x).finalized = (st.ls x).finalized := by
    intro x
    rw [hp.ls]
    by_cases hx : x = p
    · subst hx; simp
    · simp [upd_other _ _ _ _ hx]
  have hmapped : ∀ x, x ≠ p → (st'.ls x).mapped = (st.ls x).mapped := by
    intro x hx; rw [hp.ls, upd_other _ _ _ _ hx]
  refine ⟨?_, ?_, ?_, ?_, ?_, ?_, ?_, ?_⟩
  · intro x hx
    have hxp : x ≠ p := by omega
    rw [hp.ls, hp.sl, upd_other _ _ _ _ hxp, upd_other _ _ _ _ hxp]
    exact h.fresh x hx
  · intro f; rw [hp.le]; exact h.noIgn f
  · intro f hf; rw [hp.le] at hf; rw [hp.an]; exact h.idle f hf
  · intro f hf
    rw [hp.le] at hf
    obtain ⟨hw, ⟨L, hL⟩, hs⟩ := h.loading f hf
    refine ⟨by rw [hp.an]; exact hw, ⟨L, hL.transfer (by rw [hp.an]) (by omega) ?_⟩, by rw [hp.an, hp.le]; exact hs⟩
    intro x _
    obtain ⟨a, b, c, _⟩ := hlsx x
    exact ⟨a, b, c⟩
  · intro f hf
    rw [hp.le] at hf
    obtain ⟨hw, C, hC⟩ := h.loaded f hf
    refine ⟨by rw [hp.an]; exact hw, C, hC.transfer (by rw [hp.an]) (by rw [hp.le]) (by omega) ?_ ?_ ?_⟩
    · intro x hx
      have hxp : x ≠ p := by have := (hC.range x hx).2; omega
      exact ⟨hslx x hxp, by rw [(hlsx x).2.2.2]; exact hC.fin x hx⟩
    · intro x hx
      have hxp : x ≠ p := by have := (hC.range x hx).2; omega
      rw [hmapped x hxp]; exact (hC.cells x hx).1
    · intro _ x _ a b c
      exact ⟨by rw [(hlsx x).2.2.1]; exact a, by rw [(hlsx x).2.1]; exact b, by rw [hp.free]; exact c⟩
  · refine disj_transfer h.disj ?_
    intro f hf
    rw [hp.le] at hf
    obtain ⟨_, C, hC⟩ := h.loaded f hf
    refine ⟨hf, by rw [hp.an], C, hC.chain, ?_⟩
    refine Chain.frame (fun x hx => ?_) hC.chain
    have hxp : x ≠ p := by have := (hC.range x hx).2; omega
    simp only [St.next, hslx x hxp]
  · intro x hx
    rw [hp.free] at hx
    cases h.fz x hx with
    | inl a => left; rw [(hlsx x).2.1]; exact a
    | inr a => right; rw [(hlsx x).2.2.2]; exact a
  · intro x hx
    by_cases hxp : x = p
    · subst hxp
      refine ⟨hd, hu, by rw [(hlsx x).2.2.1]; exact hown, fun _ => ?_⟩
      rw [hp.sl]; simp [diskSlice]
    · rw [hmapped x hxp] at hx
      obtain ⟨hd', hu', ho, hs⟩ := h.disk x hx
      refine ⟨hd', hu', by rw [(hlsx x).2.2.1]; exact ho, ?_⟩
      intro hf'
      rw [(hlsx x).2.2.2] at hf'
      rw [hslx x hxp]; exact hs hf'

/-- when no link leaves its entry position, a chain of mapped, not yet finalised slots stays with the owner of its start -/
theorem seg_owner_of_links {cfg : Cfg} {img : List RawSlot} {st : St} (hl : LinksClosed cfg img)
    (hdisk : ∀ x, (st.ls x).mapped = true → ∃ h, usableAt cfg img x = some h ∧ (st.ls x).owner = (fileOf cfg img h : Int) ∧
      ((st.ls x).finalized = false → st.sl x = diskSlice h)) :
    ∀ (C : List Int) (s e : Int) (o : Int), Seg st.next s C e →
      (∀ x ∈ C, (st.ls x).mapped = true ∧ (st.ls x).finalized = false) → (st.ls s).owner = o → ∀ x ∈ C, (st.ls x).owner = o := by
  intro C
  induction C with
  | nil => intro s e o _ _ _ x hx; cases hx
  | cons y ys ih =>
    intro s e o hseg hall hs x hx
    obtain ⟨hsy, _, hrest⟩ := hseg
    subst hsy
    cases hx with
    | head => exact hs
    | tail _ hx =>
      -- the link from s leads to the head of ys, which hashes to the same entry position
      cases ys with
      | nil => cases hx
      | cons z zs =>
        obtain ⟨hz, hz0, hzs⟩ := hrest
        obtain ⟨hm, hf⟩ := hall s (List.mem_cons_self ..)
        obtain ⟨h1, hu1, ho1, hs1⟩ := hdisk s hm
        have hnx : st.next s = h1.nextSlot := by
          simp only [St.next, hs1 hf, diskSlice]
        obtain ⟨h2, hu2, hfile⟩ := hl s h1 hu1 (by rw [← hnx, hz]; exact hz0)
        obtain ⟨hmz, _⟩ := hall z (List.mem_cons_of_mem _ (List.mem_cons_self ..))
        obtain ⟨h3, hu3, ho3, _⟩ := hdisk z hmz
        have hzz : z = h1.nextSlot := by rw [← hnx, hz]
        rw [← hzz] at hu2
        rw [hu3] at hu2
        simp only [Option.some.injEq] at hu2
        have hoz : (st.ls (st.next s)).owner = o := by
          rw [hz, ho3, hu2, hfile, ← ho1]; exact hs
        exact ih (st.next s) e o ⟨hz, hz0, hzs⟩
          (fun w hw => hall w (List.mem_cons_of_mem _ hw)) hoz x hx

/-- a successful `finalizeOrThrow` of the Loading entry `f` -/
theorem InvCore.finalized {cfg : Cfg} {g : Geo} {pos pL pC pC' : Int} {st st' : St} {f : Nat} {C : List Int}
    (h : InvCore cfg img pL pC ex st) (hf : (st.le f).state = .loading) (hok : FinalizeOk cfg g pos st f C st')
    (hb : ∀ x, slotOk g pos x = true → x < pL ∧ x < pC') (hpc : pC ≤ pC')
    (hsz : (st.an f).sfs = 0 ∨ (st.le f).size ≤ (st.an f).sfs) : InvCore cfg img pL pC' ex st' := by
  have hnext : st'.next = st.next := by funext x; simp [St.next, hok.sl]
  have hssize : st'.ssize = st.ssize := by funext x; simp [St.ssize, hok.sl]
  have hstate : ∀ k, k ≠ f → st'.le k = st.le k := fun k hk => by rw [hok.le, upd_other _ _ _ _ hk]
  have hanch : ∀ k, k ≠ f → st'.an k = st.an k := fun k hk => by rw [hok.an, upd_other _ _ _ _ hk]
  have hstf : (st'.le f).state = .loaded := by rw [hok.le]; simp
  have hCr : ∀ x ∈ C, 0 ≤ x ∧ x < pL ∧ x < pC' := by
    intro x hx
    have hso := (hok.slots x hx).ok
    have := hb x hso
    simp only [slotOk, Bool.and_eq_true, decide_eq_true_eq] at hso
    omega
  have hfin : ∀ x, (st.ls x).finalized = true → (st'.ls x).finalized = true := by
    intro x hx
    rw [hok.ls]
    by_cases hxC : x ∈ C <;> simp [SquidModel.Rock.markFinal, hxC, hx]
  have hkeep : ∀ x, (st'.ls x).more = (st.ls x).more ∧ (st'.ls x).freed = (st.ls x).freed ∧ (st'.ls x).owner = (st.ls x).owner ∧
      (st'.ls x).mapped = (st.ls x).mapped := by
    intro x
    rw [hok.ls]
    by_cases hxC : x ∈ C <;> simp [SquidModel.Rock.markFinal, hxC]
  obtain ⟨_, ⟨L, hL⟩, _⟩ := h.loading f hf
  -- the new chain
  have hnew : LoadedWith cfg img pC' st' f C := by
    refine ⟨?_, hok.nodup, ?_, ?_, ?_, ?_, ?_, ?_, ?_⟩
    · rw [hnext, hok.an]; simp only [upd_same, finalAnchor]; exact hok.chain
    · intro x hx; have := hCr x hx; omega
    · intro x hx; rw [hok.ls]; simp [SquidModel.Rock.markFinal, hx]
    · rw [hssize, hok.le]; simp only [upd_same]; exact hok.sum
    · rw [hok.le]; simp only [upd_same]; exact hok.pos
    · rw [hok.an, hok.le]
      simp only [upd_same, finalAnchor]
      by_cases h0 : (st.an f).sfs = 0
      · simp [h0]
      · simp only [h0, if_false]
        cases hfl : cfg.v.finalizeChecksKnownSize with
        | true =>
          cases hok.known hfl with
          | inl e => exact absurd e h0
          | inr e => exact Or.inl e
        | false =>
          cases hsz with
          | inl e => exact absurd e h0
          | inr e =>
            by_cases heq : (st.an f).sfs = (st.le f).size
            · exact Or.inl heq
            · exact Or.inr ⟨rfl, by omega⟩
    · intro x hx
      have w := hok.slots x hx
      obtain ⟨hd, hu, _, hs⟩ := h.disk x w.mapped
      exact ⟨by rw [(hkeep x).2.2.2]; exact w.mapped, hd, hu, by rw [hok.sl]; exact hs w.fresh⟩
    · intro ho x hx
      have w := hok.slots x hx
      refine ⟨?_, by rw [(hkeep x).2.1]; exact w.unfreed, ?_⟩
      · rw [(hkeep x).2.2.1]
        cases ho with
        | inl hflag => exact w.owner hflag
        | inr hlinks =>
          obtain ⟨e, hseg, _⟩ := hok.chain
          have hne : C ≠ [] := by
            intro e'; subst e'
            have := hok.sum
            simp only [sumOn] at this
            have := hok.pos
            omega
          have hstart : (st.ls (st.an f).start).owner = (f : Int) := by
            cases C with
            | nil => exact absurd rfl hne
            | cons c cs =>
              obtain ⟨hc, hc0, _⟩ := hseg
              exact (hL.slots _ (hL.chain.start_mem (by rw [hc]; exact hc0))).2
          exact seg_owner_of_links hlinks h.disk C _ e _ hseg
            (fun y hy => ⟨(hok.slots y hy).mapped, (hok.slots y hy).fresh⟩) hstart x hx
      · rw [hok.free]
        intro hx'
        cases h.fz x hx' with
        | inl a => rw [w.unfreed] at a; cases a
        | inr a => rw [w.fresh] at a; cases a
  have hold : ∀ k, k ≠ f → (st.le k).state = .loaded → ∀ Ck, LoadedWith cfg img pC st k Ck → LoadedWith cfg img pC' st' k Ck := by
    intro k hk _ Ck hCk
    refine hCk.transfer (hanch k hk) (by rw [hstate k hk]) hpc ?_ ?_ ?_
    · intro x hx
      exact ⟨by rw [hok.sl], hfin x (hCk.fin x hx)⟩
    · intro x hx; rw [(hkeep x).2.2.2]; exact (hCk.cells x hx).1
    · intro _ x _ a b c
      exact ⟨by rw [(hkeep x).2.2.1]; exact a, by rw [(hkeep x).2.1]; exact b, by rw [hok.free]; exact c⟩
  refine ⟨?_, ?_, ?_, ?_, ?_, ?_, ?_, ?_⟩
  · intro x hx
    have hxC : x ∉ C := fun hxC => by have := hCr x hxC; omega
    rw [hok.ls, hok.sl]
    simp only [SquidModel.Rock.markFinal, hxC, if_false]
    exact h.fresh x hx
  · intro k
    by_cases hk : k = f
    · subst hk; rw [hstf]; decide
    · rw [hstate k hk]; exact h.noIgn k
  · intro k hk
    have hkf : k ≠ f := by
      intro e; subst e; rw [hstf] at hk
      cases hk with
      | inl x => cases x
      | inr x => cases x
    rw [hstate k hkf] at hk; rw [hanch k hkf]; exact h.idle k hk
  · intro k hk
    have hkf : k ≠ f := by
      intro e; subst e; rw [hstf] at hk; cases hk
    rw [hstate k hkf] at hk
    obtain ⟨hw, ⟨L, hL⟩, hs⟩ := h.loading k hk
    refine ⟨by rw [hanch k hkf]; exact hw, ⟨L, hL.transfer (by rw [hanch k hkf]) (by omega) ?_⟩,
      by rw [hanch k hkf, hstate k hkf]; exact hs⟩
    intro x _; exact ⟨(hkeep x).1, (hkeep x).2.1, (hkeep x).2.2.1⟩
  · intro k hk
    by_cases hkf : k = f
    · subst hkf
      refine ⟨by rw [hok.an]; simp [finalAnchor], C, hnew⟩
    · rw [hstate k hkf] at hk
      obtain ⟨hw, Ck, hCk⟩ := h.loaded k hk
      exact ⟨by rw [hanch k hkf]; exact hw, Ck, hold k hkf hk Ck hCk⟩
  · intro a b hab ha hb Ca Cb hca hcb x hxa hxb
    -- identify the chains
    have key : ∀ k Ck, (st'.le k).state = .loaded → Chain st'.next (st'.an k).start Ck →
        (k = f ∧ Ck = C) ∨ (k ≠ f ∧ (st.le k).state = .loaded ∧ Chain st.next (st.an k).start Ck ∧ ∀ y ∈ Ck, (st.ls y).finalized = true) := by
      intro k Ck hk hck
      by_cases hkf : k = f
      · subst hkf
        exact Or.inl ⟨rfl, Chain.unique hck hnew.chain⟩
      · rw [hstate k hkf] at hk
        obtain ⟨_, Ck', hCk'⟩ := h.loaded k hk
        have h' := hold k hkf hk Ck' hCk'
        have e : Ck = Ck' := Chain.unique hck h'.chain
        subst e
        exact Or.inr ⟨hkf, hk, hCk'.chain, hCk'.fin⟩
    cases key a Ca ha hca with
    | inl ha' =>
      obtain ⟨rfl, rfl⟩ := ha'
      cases key b Cb hb hcb with
      | inl hb' => exact hab hb'.1.symm
      | inr hb' =>
        have := (hok.slots x hxa).fresh
        rw [hb'.2.2.2 x hxb] at this
        cases this
    | inr ha' =>
      cases key b Cb hb hcb with
      | inl hb' =>
        obtain ⟨rfl, rfl⟩ := hb'
        have := (hok.slots x hxb).fresh
        rw [ha'.2.2.2 x hxa] at this
        cases this
      | inr hb' =>
        exact h.disj a b hab ha'.2.1 hb'.2.1 Ca Cb ha'.2.2.1 hb'.2.2.1 x hxa hxb
  · intro x hx
    rw [hok.free] at hx
    cases h.fz x hx with
    | inl a => left; rw [(hkeep x).2.1]; exact a
    | inr a => exact Or.inr (hfin x a)
  · intro x hx
    rw [(hkeep x).2.2.2] at hx
    obtain ⟨hd, hu, ho, hs⟩ := h.disk x hx
    refine ⟨hd, hu, by rw [(hkeep x).2.2.1]; exact ho, ?_⟩
    intro hf'
    rw [hok.sl]
    refine hs ?_
    cases hfx : (st.ls x).finalized with
    | false => rfl
    | true => rw [hfin x hfx] at hf'; cases hf'

end SquidModel.Rock
