/-
The inductive invariant of the slot-by-slot loading loop of Rock::Rebuild and its preservation by the primitives.

`InvCore cfg pL pC ex st`:
* slots at positions >= pL are untouched;
* an entry position that is Empty or Corrupted has a rewound anchor, Ignored never occurs (the map starts empty);
* a Loading entry holds the exclusive lock and its `more` links spell a duplicate-free list of unfreed slots below pL
  that were all added to this entry;
* a Loaded entry is unlocked and its slice links spell a duplicate-free chain of finalized slots below pC that ends
  with -1 and whose sizes add up to the loaded size, which equals swap_file_sz (or is smaller, when finalizeOrThrow
  does not compare them);
* chains of different Loaded entries are disjoint.
-/
import SquidModel.Rock.Finalize

namespace SquidModel.Rock

/-- the slice chain `C` of the Loaded entry `f` -/
structure LoadedWith (cfg : Cfg) (pC : Int) (st : St) (f : Nat) (C : List Int) : Prop where
  chain : Chain st.next (st.an f).start C
  nodup : C.Nodup
  range : InRange C pC
  fin : ∀ x ∈ C, (st.ls x).finalized = true
  sum : sumOn st.ssize C = (st.le f).size
  pos : 0 < (st.le f).size
  size : (st.an f).sfs = (st.le f).size ∨ (cfg.v.finalizeChecksKnownSize = false ∧ (st.le f).size < (st.an f).sfs)

/-- the `more` list `L` of the Loading entry `f` -/
structure LoadingWith (pL : Int) (st : St) (f : Nat) (L : List Int) : Prop where
  chain : Chain st.more (st.an f).start L
  nodup : L.Nodup
  range : InRange L pL
  slots : ∀ x ∈ L, (st.ls x).freed = false ∧ (st.ls x).owner = (f : Int)

structure InvCore (cfg : Cfg) (pL pC : Int) (ex : Option Nat) (st : St) : Prop where
  fresh : ∀ x, pL ≤ x → st.ls x = {} ∧ st.sl x = {}
  noIgn : ∀ f, (st.le f).state ≠ .ignored
  idle : ∀ f, (st.le f).state = .empty ∨ (st.le f).state = .corrupted → st.an f = {}
  loading : ∀ f, (st.le f).state = .loading → (st.an f).writing = true ∧ (∃ L, LoadingWith pL st f L) ∧
    (ex ≠ some f → (st.an f).sfs = 0 ∨ (st.le f).size < (st.an f).sfs)
  loaded : ∀ f, (st.le f).state = .loaded → (st.an f).writing = false ∧ ∃ C, LoadedWith cfg pC st f C
  disj : ∀ f g, f ≠ g → (st.le f).state = .loaded → (st.le g).state = .loaded →
    ∀ Cf Cg, Chain st.next (st.an f).start Cf → Chain st.next (st.an g).start Cg → ∀ x ∈ Cf, x ∉ Cg

/-- between two slots every Loading entry with a known total has not reached it yet (otherwise addSlotToEntry
    finalised or freed it); while a slot is being added to entry `f` that entry is exempt (`ex = some f`) -/
abbrev Inv (cfg : Cfg) (pos : Int) (st : St) : Prop := InvCore cfg pos pos none st

theorem inv_init (cfg : Cfg) : Inv cfg 0 St.init := by
  refine ⟨?_, ?_, ?_, ?_, ?_, ?_⟩
  · intro x _; exact ⟨rfl, rfl⟩
  · intro f; simp [St.init]
  · intro f _; rfl
  · intro f h; simp [St.init] at h
  · intro f h; simp [St.init] at h
  · intro f g _ h; simp [St.init] at h

/-! ### transfer lemmas -/

theorem LoadingWith.transfer {pL pL' : Int} {st st' : St} {f : Nat} {L : List Int} (h : LoadingWith pL st f L)
    (hstart : (st'.an f).start = (st.an f).start) (hp : pL ≤ pL')
    (hls : ∀ x ∈ L, (st'.ls x).more = (st.ls x).more ∧ (st'.ls x).freed = (st.ls x).freed ∧ (st'.ls x).owner = (st.ls x).owner) :
    LoadingWith pL' st' f L := by
  refine ⟨?_, h.nodup, h.range.mono hp, ?_⟩
  · rw [hstart]
    exact Chain.frame (fun x hx => (hls x hx).1) h.chain
  · intro x hx
    obtain ⟨_, b, c⟩ := hls x hx
    rw [b, c]
    exact h.slots x hx

theorem LoadedWith.transfer {cfg : Cfg} {pC pC' : Int} {st st' : St} {f : Nat} {C : List Int} (h : LoadedWith cfg pC st f C)
    (han : st'.an f = st.an f) (hle : (st'.le f).size = (st.le f).size) (hp : pC ≤ pC')
    (hx : ∀ x ∈ C, st'.sl x = st.sl x ∧ (st'.ls x).finalized = true) :
    LoadedWith cfg pC' st' f C := by
  refine ⟨?_, h.nodup, h.range.mono hp, fun x hxC => (hx x hxC).2, ?_, by rw [hle]; exact h.pos, ?_⟩
  · rw [han]
    refine Chain.frame (fun x hxC => ?_) h.chain
    simp only [St.next, (hx x hxC).1]
  · rw [hle, ← h.sum]
    refine sumOn_frame (fun x hxC => ?_)
    simp only [St.ssize, (hx x hxC).1]
  · rw [han, hle]; exact h.size

/-- disjointness of Loaded chains carries over when every entry that is Loaded afterwards was Loaded before with the
    same start and its old chain is still a chain -/
theorem disj_transfer {st st' : St}
    (hd : ∀ f g, f ≠ g → (st.le f).state = .loaded → (st.le g).state = .loaded →
      ∀ Cf Cg, Chain st.next (st.an f).start Cf → Chain st.next (st.an g).start Cg → ∀ x ∈ Cf, x ∉ Cg)
    (hk : ∀ f, (st'.le f).state = .loaded → (st.le f).state = .loaded ∧ (st'.an f).start = (st.an f).start ∧
      ∃ C, Chain st.next (st.an f).start C ∧ Chain st'.next (st.an f).start C) :
    ∀ f g, f ≠ g → (st'.le f).state = .loaded → (st'.le g).state = .loaded →
      ∀ Cf Cg, Chain st'.next (st'.an f).start Cf → Chain st'.next (st'.an g).start Cg → ∀ x ∈ Cf, x ∉ Cg := by
  intro f g hfg hf hg Cf Cg hcf hcg
  obtain ⟨hf0, hsf, C1, a1, b1⟩ := hk f hf
  obtain ⟨hg0, hsg, C2, a2, b2⟩ := hk g hg
  rw [hsf] at hcf
  rw [hsg] at hcg
  have e1 : Cf = C1 := Chain.unique hcf b1
  have e2 : Cg = C2 := Chain.unique hcg b2
  subst e1; subst e2
  exact hd f g hfg hf0 hg0 _ _ a1 a2

end SquidModel.Rock

namespace SquidModel.Rock

/-! ### preservation by the primitives -/

/-- only `LoadingSlot` flags changed, in a way no Loading list or Loaded chain can notice -/
theorem InvCore.of_ls_change {cfg : Cfg} {pL pC pL' pC' : Int} {st st' : St} (h : InvCore cfg pL pC ex st)
    (hle : st'.le = st.le) (han : st'.an = st.an) (hsl : st'.sl = st.sl)
    (hkeep : ∀ x, (st'.ls x).more = (st.ls x).more ∧ (st'.ls x).owner = (st.ls x).owner ∧
      ((st.ls x).finalized = true → (st'.ls x).finalized = true))
    (hfreed : ∀ x, 0 ≤ x → x < pL → (st'.ls x).freed = (st.ls x).freed)
    (hfresh : ∀ x, pL' ≤ x → st'.ls x = {}) (hpL : pL ≤ pL') (hpC : pC ≤ pC') :
    InvCore cfg pL' pC' ex st' := by
  have hnext : st'.next = st.next := by funext x; simp [St.next, hsl]
  refine ⟨?_, ?_, ?_, ?_, ?_, ?_⟩
  · intro x hx
    refine ⟨hfresh x hx, ?_⟩
    rw [hsl]; exact (h.fresh x (by omega)).2
  · intro f; rw [hle]; exact h.noIgn f
  · intro f hf; rw [hle] at hf; rw [han]; exact h.idle f hf
  · intro f hf
    rw [hle] at hf
    obtain ⟨hw, ⟨L, hL⟩, hs⟩ := h.loading f hf
    refine ⟨by rw [han]; exact hw, ⟨L, hL.transfer (by rw [han]) hpL ?_⟩, by rw [han, hle]; exact hs⟩
    intro x hx
    obtain ⟨a, b, _⟩ := hkeep x
    exact ⟨a, hfreed x (hL.range x hx).1 (hL.range x hx).2, b⟩
  · intro f hf
    rw [hle] at hf
    obtain ⟨hw, C, hC⟩ := h.loaded f hf
    refine ⟨by rw [han]; exact hw, C, hC.transfer (by rw [han]) (by rw [hle]) hpC ?_⟩
    intro x hx
    exact ⟨by rw [hsl], (hkeep x).2.2 (hC.fin x hx)⟩
  · refine disj_transfer h.disj ?_
    intro f hf
    rw [hle] at hf
    obtain ⟨_, C, hC⟩ := h.loaded f hf
    refine ⟨hf, by rw [han], C, hC.chain, ?_⟩
    rw [hnext]; exact hC.chain

/-- `freeUnusedSlot` of the slot being loaded -/
theorem InvCore.freeUnused {cfg : Cfg} {g : Geo} {p : Int} {st st' : St} (h : InvCore cfg p p ex st)
    (hp : FreeSlotPost g p st p st') : InvCore cfg (p + 1) (p + 1) ex st' := by
  refine h.of_ls_change hp.le hp.an hp.sl ?_ ?_ ?_ (by omega) (by omega)
  · intro x
    rw [hp.ls]
    by_cases hx : x = p
    · subst hx; simp
    · simp [upd_other _ _ _ _ hx]
  · intro x _ hx
    rw [hp.ls, upd_other _ _ _ _ (by omega)]
  · intro x hx
    rw [hp.ls, upd_other _ _ _ _ (by omega)]
    exact (h.fresh x (by omega)).1

/-- a walk that marked the slots `C` (all at or below `pos`) and changed nothing else -/
theorem InvCore.markFinal {cfg : Cfg} {pL pC : Int} {st st' : St} {C : List Int} (h : InvCore cfg pL pC ex st)
    (hle : st'.le = st.le) (han : st'.an = st.an) (hsl : st'.sl = st.sl) (hls : st'.ls = markFinal st.ls C)
    (hC : ∀ x ∈ C, x < pL) : InvCore cfg pL pC ex st' := by
  refine h.of_ls_change hle han hsl ?_ ?_ ?_ (by omega) (by omega)
  · intro x
    rw [hls]
    by_cases hx : x ∈ C <;> simp [SquidModel.Rock.markFinal, hx]
  · intro x _ _
    rw [hls]
    by_cases hx : x ∈ C <;> simp [SquidModel.Rock.markFinal, hx]
  · intro x hx
    rw [hls]
    have : x ∉ C := fun hxC => by have := hC x hxC; omega
    simp only [SquidModel.Rock.markFinal, this, if_false]
    exact (h.fresh x hx).1

theorem ofNat_inj_of_ne {f g : Nat} (h : g ≠ f) : (g : Int) ≠ (f : Int) := by omega

/-- `freeBadEntry` of the Loading entry `f` whose list is `L` -/
theorem InvCore.freeBad {cfg : Cfg} {pL pC : Int} {st st' : St} {f : Nat} {L : List Int} (h : InvCore cfg pL pC ex st)
    (hf : (st.le f).state = .loading) (hL : LoadingWith pL st f L)
    (hle : st'.le = upd st.le f { st.le f with state := .corrupted }) (han : st'.an = upd st.an f rewound)
    (hsl : st'.sl = st.sl) (hls : st'.ls = markFreed st.ls L) : InvCore cfg pL pC ex st' := by
  have hnext : st'.next = st.next := by funext x; simp [St.next, hsl]
  have hstate : ∀ g, g ≠ f → st'.le g = st.le g := fun g hg => by rw [hle, upd_other _ _ _ _ hg]
  have hanch : ∀ g, g ≠ f → st'.an g = st.an g := fun g hg => by rw [han, upd_other _ _ _ _ hg]
  have hstf : (st'.le f).state = .corrupted := by rw [hle]; simp
  refine ⟨?_, ?_, ?_, ?_, ?_, ?_⟩
  · intro x hx
    have hxL : x ∉ L := fun hxL => by have := (hL.range x hxL).2; omega
    rw [hls, hsl]
    simp only [markFreed, hxL, if_false]
    exact h.fresh x hx
  · intro g
    by_cases hg : g = f
    · subst hg; rw [hstf]; decide
    · rw [hstate g hg]; exact h.noIgn g
  · intro g hg
    by_cases hgf : g = f
    · subst hgf; rw [han]; simp [rewound]
    · rw [hstate g hgf] at hg; rw [hanch g hgf]; exact h.idle g hg
  · intro g hg
    have hgf : g ≠ f := by
      intro e; subst e; rw [hstf] at hg; cases hg
    rw [hstate g hgf] at hg
    obtain ⟨hw, ⟨Lg, hLg⟩, hs⟩ := h.loading g hg
    refine ⟨by rw [hanch g hgf]; exact hw, ⟨Lg, hLg.transfer (by rw [hanch g hgf]) (by omega) ?_⟩,
      by rw [hanch g hgf, hstate g hgf]; exact hs⟩
    intro x hx
    have hxL : x ∉ L := by
      intro hxL
      have a := (hL.slots x hxL).2
      have b := (hLg.slots x hx).2
      rw [a] at b
      exact ofNat_inj_of_ne hgf b.symm
    rw [hls]
    simp [markFreed, hxL]
  · intro g hg
    have hgf : g ≠ f := by
      intro e; subst e; rw [hstf] at hg; cases hg
    rw [hstate g hgf] at hg
    obtain ⟨hw, C, hC⟩ := h.loaded g hg
    refine ⟨by rw [hanch g hgf]; exact hw, C, hC.transfer (hanch g hgf) (by rw [hstate g hgf]) (by omega) ?_⟩
    intro x hx
    refine ⟨by rw [hsl], ?_⟩
    rw [hls]
    have := hC.fin x hx
    by_cases hxL : x ∈ L <;> simp [markFreed, hxL, this]
  · refine disj_transfer h.disj ?_
    intro g hg
    have hgf : g ≠ f := by
      intro e; subst e; rw [hstf] at hg; cases hg
    rw [hstate g hgf] at hg
    obtain ⟨_, C, hC⟩ := h.loaded g hg
    refine ⟨hg, by rw [hanch g hgf], C, hC.chain, ?_⟩
    rw [hnext]; exact hC.chain

/-- `StoreMap::freeEntry` of the Loaded entry `f` (whose LoadingEntry state became Corrupted) -/
theorem InvCore.mapFree {cfg : Cfg} {pL pC : Int} {st st' : St} {f : Nat} {C : List Int} (h : InvCore cfg pL pC ex st)
    (hf : (st.le f).state = .loaded) (hC : LoadedWith cfg pC st f C)
    (hle : st'.le = upd st.le f { st.le f with state := .corrupted }) (han : st'.an = upd st.an f rewound)
    (hls : st'.ls = st.ls) (hsl : st'.sl = st.sl ∨ st'.sl = clearOn st.sl C) : InvCore cfg pL pC ex st' := by
  have hstate : ∀ g, g ≠ f → st'.le g = st.le g := fun g hg => by rw [hle, upd_other _ _ _ _ hg]
  have hanch : ∀ g, g ≠ f → st'.an g = st.an g := fun g hg => by rw [han, upd_other _ _ _ _ hg]
  have hstf : (st'.le f).state = .corrupted := by rw [hle]; simp
  have hslx : ∀ x, x ∉ C → st'.sl x = st.sl x := by
    intro x hx
    cases hsl with
    | inl e => rw [e]
    | inr e => rw [e]; simp [clearOn, hx]
  -- the chain of another Loaded entry is untouched
  have hother : ∀ g, g ≠ f → (st.le g).state = .loaded → ∀ Cg, LoadedWith cfg pC st g Cg → ∀ x ∈ Cg, st'.sl x = st.sl x := by
    intro g hgf hg Cg hCg x hx
    exact hslx x (h.disj g f hgf hg hf Cg C hCg.chain hC.chain x hx)
  refine ⟨?_, ?_, ?_, ?_, ?_, ?_⟩
  · intro x hx
    refine ⟨by rw [hls]; exact (h.fresh x hx).1, ?_⟩
    cases hsl with
    | inl e => rw [e]; exact (h.fresh x hx).2
    | inr e =>
      rw [e]
      by_cases hxC : x ∈ C
      · simp [clearOn, hxC]
      · simp only [clearOn, hxC, if_false]; exact (h.fresh x hx).2
  · intro g
    by_cases hg : g = f
    · subst hg; rw [hstf]; decide
    · rw [hstate g hg]; exact h.noIgn g
  · intro g hg
    by_cases hgf : g = f
    · subst hgf; rw [han]; simp [rewound]
    · rw [hstate g hgf] at hg; rw [hanch g hgf]; exact h.idle g hg
  · intro g hg
    have hgf : g ≠ f := by
      intro e; subst e; rw [hstf] at hg; cases hg
    rw [hstate g hgf] at hg
    obtain ⟨hw, ⟨Lg, hLg⟩, hs⟩ := h.loading g hg
    refine ⟨by rw [hanch g hgf]; exact hw, ⟨Lg, hLg.transfer (by rw [hanch g hgf]) (by omega) ?_⟩,
      by rw [hanch g hgf, hstate g hgf]; exact hs⟩
    intro x _
    rw [hls]; exact ⟨rfl, rfl, rfl⟩
  · intro g hg
    have hgf : g ≠ f := by
      intro e; subst e; rw [hstf] at hg; cases hg
    rw [hstate g hgf] at hg
    obtain ⟨hw, Cg, hCg⟩ := h.loaded g hg
    refine ⟨by rw [hanch g hgf]; exact hw, Cg, hCg.transfer (hanch g hgf) (by rw [hstate g hgf]) (by omega) ?_⟩
    intro x hx
    exact ⟨hother g hgf hg Cg hCg x hx, by rw [hls]; exact hCg.fin x hx⟩
  · refine disj_transfer h.disj ?_
    intro g hg
    have hgf : g ≠ f := by
      intro e; subst e; rw [hstf] at hg; cases hg
    rw [hstate g hgf] at hg
    obtain ⟨_, Cg, hCg⟩ := h.loaded g hg
    refine ⟨hg, by rw [hanch g hgf], Cg, hCg.chain, ?_⟩
    refine Chain.frame (fun x hx => ?_) hCg.chain
    simp only [St.next, hother g hgf hg Cg hCg x hx]

end SquidModel.Rock

namespace SquidModel.Rock

/-- changes to the LoadingEntry / anchor of a Loading entry that keep it Loading, locked and with the same chain start -/
theorem InvCore.tweak {cfg : Cfg} {pL pC : Int} {st st' : St} {f : Nat} {e : LEntry} {a : Anchor} (h : InvCore cfg pL pC ex st)
    (hf : (st.le f).state = .loading) (he : e.state = .loading) (ha : a.writing = true) (has : a.start = (st.an f).start)
    (hsz : ex ≠ some f → a.sfs = 0 ∨ e.size < a.sfs)
    (hle : st'.le = upd st.le f e) (han : st'.an = upd st.an f a) (hls : st'.ls = st.ls) (hsl : st'.sl = st.sl) :
    InvCore cfg pL pC ex st' := by
  have hnext : st'.next = st.next := by funext x; simp [St.next, hsl]
  have hstate : ∀ g, g ≠ f → st'.le g = st.le g := fun g hg => by rw [hle, upd_other _ _ _ _ hg]
  have hanch : ∀ g, g ≠ f → st'.an g = st.an g := fun g hg => by rw [han, upd_other _ _ _ _ hg]
  have hstf : (st'.le f).state = .loading := by rw [hle]; simpa using he
  refine ⟨?_, ?_, ?_, ?_, ?_, ?_⟩
  · intro x hx; rw [hls, hsl]; exact h.fresh x hx
  · intro g
    by_cases hg : g = f
    · subst hg; rw [hstf]; decide
    · rw [hstate g hg]; exact h.noIgn g
  · intro g hg
    have hgf : g ≠ f := by
      intro e'; subst e'; rw [hstf] at hg; cases hg with
      | inl x => cases x
      | inr x => cases x
    rw [hstate g hgf] at hg; rw [hanch g hgf]; exact h.idle g hg
  · intro g hg
    by_cases hgf : g = f
    · subst hgf
      obtain ⟨_, ⟨L, hL⟩, _⟩ := h.loading g hf
      refine ⟨by rw [han]; simpa using ha, ⟨L, hL.transfer (by rw [han]; simpa using has) (by omega) ?_⟩,
        by rw [han, hle]; simpa using hsz⟩
      intro x _; rw [hls]; exact ⟨rfl, rfl, rfl⟩
    · rw [hstate g hgf] at hg
      obtain ⟨hw, ⟨L, hL⟩, hs⟩ := h.loading g hg
      refine ⟨by rw [hanch g hgf]; exact hw, ⟨L, hL.transfer (by rw [hanch g hgf]) (by omega) ?_⟩,
        by rw [hanch g hgf, hstate g hgf]; exact hs⟩
      intro x _; rw [hls]; exact ⟨rfl, rfl, rfl⟩
  · intro g hg
    have hgf : g ≠ f := by
      intro e'; subst e'; rw [hstf] at hg; cases hg
    rw [hstate g hgf] at hg
    obtain ⟨hw, C, hC⟩ := h.loaded g hg
    refine ⟨by rw [hanch g hgf]; exact hw, C, hC.transfer (hanch g hgf) (by rw [hstate g hgf]) (by omega) ?_⟩
    intro x hx
    exact ⟨by rw [hsl], by rw [hls]; exact hC.fin x hx⟩
  · refine disj_transfer h.disj ?_
    intro g hg
    have hgf : g ≠ f := by
      intro e'; subst e'; rw [hstf] at hg; cases hg
    rw [hstate g hgf] at hg
    obtain ⟨_, C, hC⟩ := h.loaded g hg
    refine ⟨hg, by rw [hanch g hgf], C, hC.chain, ?_⟩
    rw [hnext]; exact hC.chain

/-- `mapSlot` of the slot being loaded (already chained into its entry) -/
theorem InvCore.mapSlot {cfg : Cfg} {p : Int} {st st' : St} {hd : Header} (h : InvCore cfg (p + 1) p ex st)
    (hp : MapSlotPost st p hd st') : InvCore cfg (p + 1) p ex st' := by
  have hslx : ∀ x, x ≠ p → st'.sl x = st.sl x := fun x hx => by rw [hp.sl, upd_other _ _ _ _ hx]
  have hlsx : ∀ x, (st'.ls x).more = (st.ls x).more ∧ (st'.ls x).freed = (st.ls x).freed ∧ (st'.ls x).owner = (st.ls x).owner ∧
      (st'.ls x).finalized = (st.ls x).finalized := by
    intro x
    rw [hp.ls]
    by_cases hx : x = p
    · subst hx; simp
    · simp [upd_other _ _ _ _ hx]
  refine ⟨?_, ?_, ?_, ?_, ?_, ?_⟩
  · intro x hx
    have hxp : x ≠ p := by omega
    rw [hp.ls, hp.sl, upd_other _ _ _ _ hxp, upd_other _ _ _ _ hxp]
    exact h.fresh x hx
  · intro f; rw [hp.le]; exact h.noIgn f
  · intro f hf; rw [hp.le] at hf; rw [hp.an]; exact h.idle f hf
  · intro f hf
    rw [hp.le] at hf
    obtain ⟨hw, ⟨L, hL⟩, hs⟩ := h.loading f hf
    refine ⟨by rw [hp.an]; exact hw, ⟨L, hL.transfer (by rw [hp.an]) (by omega) ?_⟩, by rw [hp.an, hp.le]; exact hs⟩
    intro x _
    obtain ⟨a, b, c, _⟩ := hlsx x
    exact ⟨a, b, c⟩
  · intro f hf
    rw [hp.le] at hf
    obtain ⟨hw, C, hC⟩ := h.loaded f hf
    refine ⟨by rw [hp.an]; exact hw, C, hC.transfer (by rw [hp.an]) (by rw [hp.le]) (by omega) ?_⟩
    intro x hx
    have hxp : x ≠ p := by have := (hC.range x hx).2; omega
    exact ⟨hslx x hxp, by rw [(hlsx x).2.2.2]; exact hC.fin x hx⟩
  · refine disj_transfer h.disj ?_
    intro f hf
    rw [hp.le] at hf
    obtain ⟨_, C, hC⟩ := h.loaded f hf
    refine ⟨hf, by rw [hp.an], C, hC.chain, ?_⟩
    refine Chain.frame (fun x hx => ?_) hC.chain
    have hxp : x ≠ p := by have := (hC.range x hx).2; omega
    simp only [St.next, hslx x hxp]

/-- a successful `finalizeOrThrow` of the Loading entry `f` -/
theorem InvCore.finalized {cfg : Cfg} {g : Geo} {pos pL pC pC' : Int} {st st' : St} {f : Nat} {C : List Int}
    (h : InvCore cfg pL pC ex st) (hf : (st.le f).state = .loading) (hok : FinalizeOk cfg g pos st f C st')
    (hb : ∀ x, slotOk g pos x = true → x < pL ∧ x < pC') (hpc : pC ≤ pC')
    (hsz : (st.an f).sfs = 0 ∨ (st.le f).size ≤ (st.an f).sfs) : InvCore cfg pL pC' ex st' := by
  have hnext : st'.next = st.next := by funext x; simp [St.next, hok.sl]
  have hssize : st'.ssize = st.ssize := by funext x; simp [St.ssize, hok.sl]
  have hstate : ∀ k, k ≠ f → st'.le k = st.le k := fun k hk => by rw [hok.le, upd_other _ _ _ _ hk]
  have hanch : ∀ k, k ≠ f → st'.an k = st.an k := fun k hk => by rw [hok.an, upd_other _ _ _ _ hk]
  have hstf : (st'.le f).state = .loaded := by rw [hok.le]; simp
  have hCr : ∀ x ∈ C, 0 ≤ x ∧ x < pL ∧ x < pC' := by
    intro x hx
    have hso := (hok.slots x hx).ok
    have := hb x hso
    simp only [slotOk, Bool.and_eq_true, decide_eq_true_eq] at hso
    omega
  have hfin : ∀ x, (st.ls x).finalized = true → (st'.ls x).finalized = true := by
    intro x hx
    rw [hok.ls]
    by_cases hxC : x ∈ C <;> simp [SquidModel.Rock.markFinal, hxC, hx]
  have hkeep : ∀ x, (st'.ls x).more = (st.ls x).more ∧ (st'.ls x).freed = (st.ls x).freed ∧ (st'.ls x).owner = (st.ls x).owner := by
    intro x
    rw [hok.ls]
    by_cases hxC : x ∈ C <;> simp [SquidModel.Rock.markFinal, hxC]
  -- the new chain
  have hnew : LoadedWith cfg pC' st' f C := by
    refine ⟨?_, hok.nodup, ?_, ?_, ?_, ?_, ?_⟩
    · rw [hnext, hok.an]; simp only [upd_same, finalAnchor]; exact hok.chain
    · intro x hx; have := hCr x hx; omega
    · intro x hx; rw [hok.ls]; simp [SquidModel.Rock.markFinal, hx]
    · rw [hssize, hok.le]; simp only [upd_same]; exact hok.sum
    · rw [hok.le]; simp only [upd_same]; exact hok.pos
    · rw [hok.an, hok.le]
      simp only [upd_same, finalAnchor]
      by_cases h0 : (st.an f).sfs = 0
      · simp [h0]
      · simp only [h0, if_false]
        cases hfl : cfg.v.finalizeChecksKnownSize with
        | true =>
          cases hok.known hfl with
          | inl e => exact absurd e h0
          | inr e => exact Or.inl e
        | false =>
          cases hsz with
          | inl e => exact absurd e h0
          | inr e =>
            by_cases heq : (st.an f).sfs = (st.le f).size
            · exact Or.inl heq
            · exact Or.inr ⟨rfl, by omega⟩
  have hold : ∀ k, k ≠ f → (st.le k).state = .loaded → ∀ Ck, LoadedWith cfg pC st k Ck → LoadedWith cfg pC' st' k Ck := by
    intro k hk _ Ck hCk
    refine hCk.transfer (hanch k hk) (by rw [hstate k hk]) hpc ?_
    intro x hx
    exact ⟨by rw [hok.sl], hfin x (hCk.fin x hx)⟩
  refine ⟨?_, ?_, ?_, ?_, ?_, ?_⟩
  · intro x hx
    have hxC : x ∉ C := fun hxC => by have := hCr x hxC; omega
    rw [hok.ls, hok.sl]
    simp only [SquidModel.Rock.markFinal, hxC, if_false]
    exact h.fresh x hx
  · intro k
    by_cases hk : k = f
    · subst hk; rw [hstf]; decide
    · rw [hstate k hk]; exact h.noIgn k
  · intro k hk
    have hkf : k ≠ f := by
      intro e; subst e; rw [hstf] at hk
      cases hk with
      | inl x => cases x
      | inr x => cases x
    rw [hstate k hkf] at hk; rw [hanch k hkf]; exact h.idle k hk
  · intro k hk
    have hkf : k ≠ f := by
      intro e; subst e; rw [hstf] at hk; cases hk
    rw [hstate k hkf] at hk
    obtain ⟨hw, ⟨L, hL⟩, hs⟩ := h.loading k hk
    refine ⟨by rw [hanch k hkf]; exact hw, ⟨L, hL.transfer (by rw [hanch k hkf]) (by omega) ?_⟩,
      by rw [hanch k hkf, hstate k hkf]; exact hs⟩
    intro x _; exact hkeep x
  · intro k hk
    by_cases hkf : k = f
    · subst hkf
      refine ⟨by rw [hok.an]; simp [finalAnchor], C, hnew⟩
    · rw [hstate k hkf] at hk
      obtain ⟨hw, Ck, hCk⟩ := h.loaded k hk
      exact ⟨by rw [hanch k hkf]; exact hw, Ck, hold k hkf hk Ck hCk⟩
  · intro a b hab ha hb Ca Cb hca hcb x hxa hxb
    -- identify the chains
    have key : ∀ k Ck, (st'.le k).state = .loaded → Chain st'.next (st'.an k).start Ck →
        (k = f ∧ Ck = C) ∨ (k ≠ f ∧ (st.le k).state = .loaded ∧ Chain st.next (st.an k).start Ck ∧ ∀ y ∈ Ck, (st.ls y).finalized = true) := by
      intro k Ck hk hck
      by_cases hkf : k = f
      · subst hkf
        exact Or.inl ⟨rfl, Chain.unique hck hnew.chain⟩
      · rw [hstate k hkf] at hk
        obtain ⟨_, Ck', hCk'⟩ := h.loaded k hk
        have h' := hold k hkf hk Ck' hCk'
        have e : Ck = Ck' := Chain.unique hck h'.chain
        subst e
        exact Or.inr ⟨hkf, hk, hCk'.chain, hCk'.fin⟩
    cases key a Ca ha hca with
    | inl ha' =>
      obtain ⟨rfl, rfl⟩ := ha'
      cases key b Cb hb hcb with
      | inl hb' => exact hab hb'.1.symm
      | inr hb' =>
        have := (hok.slots x hxa).fresh
        rw [hb'.2.2.2 x hxb] at this
        cases this
    | inr ha' =>
      cases key b Cb hb hcb with
      | inl hb' =>
        obtain ⟨rfl, rfl⟩ := hb'
        have := (hok.slots x hxb).fresh
        rw [ha'.2.2.2 x hxa] at this
        cases this
      | inr hb' =>
        exact h.disj a b hab ha'.2.1 hb'.2.1 Ca Cb ha'.2.2.1 hb'.2.2.1 x hxa hxb

end SquidModel.Rock
