/-
Reading a db image the way `loadOneSlot` does, and the hypothesis under which slot chains cannot leave their entry.
-/
import SquidModel.Rock.Finalize

namespace SquidModel.Rock

/-- the cell header `useNewSlot` gets to see at slot position `x`: `none` for truncated, empty or insane cells and for
    positions outside the image -/
def usableAt (cfg : Cfg) (img : List RawSlot) (x : Int) : Option Header :=
  if 0 ≤ x then
    match img[x.toNat]? with
    | some (.cell h _) => if !h.empty && h.sane cfg.slotSize cfg.k.cellHeaderSize img.length then some h else none
    | _ => none
  else none

/-- entry position a cell hashes to in an image of this size -/
def fileOf (cfg : Cfg) (img : List RawSlot) (h : Header) : Nat := fileNo (cfg.geo img.length) h.key

/-- every `nextSlot` link of the image leads to a usable cell of the same entry position -/
def LinksClosed (cfg : Cfg) (img : List RawSlot) : Prop :=
  ∀ x h, usableAt cfg img x = some h → 0 ≤ h.nextSlot →
    ∃ h', usableAt cfg img h.nextSlot = some h' ∧ fileOf cfg img h' = fileOf cfg img h

/-- slot chains cannot leave their entry: either finalizeOrThrow checks the owner of every slot it walks over, or the
    image has no link that leaves its entry position -/
def Own (cfg : Cfg) (img : List RawSlot) : Prop :=
  cfg.v.finalizeChecksOwner = true ∨ LinksClosed cfg img

theorem usableAt_of_get {cfg : Cfg} {img : List RawSlot} {pos : Nat} {h : Header} {m : Meta}
    (hget : img[pos]? = some (.cell h m)) (he : h.empty = false)
    (hs : h.sane cfg.slotSize cfg.k.cellHeaderSize img.length = true) : usableAt cfg img (pos : Int) = some h := by
  unfold usableAt
  have : (0 : Int) ≤ (pos : Int) := by omega
  simp only [this, if_true, Int.toNat_natCast, hget, he, hs, Bool.not_false, Bool.and_self]

theorem usableAt_payload_pos {cfg : Cfg} {img : List RawSlot} {x : Int} {h : Header} (hu : usableAt cfg img x = some h) :
    0 < h.payloadSize := by
  unfold usableAt at hu
  split at hu
  · split at hu
    · split at hu
      · rename_i hc
        simp only [Option.some.injEq] at hu
        subst hu
        simp only [Header.sane, Bool.and_eq_true, decide_eq_true_eq] at hc
        exact hc.2.1.2
      · cases hu
    · cases hu
  · cases hu

end SquidModel.Rock

namespace SquidModel.Rock

/-- executable check of `LinksClosed` (for concrete images) -/
def linksClosedCheck (cfg : Cfg) (img : List RawSlot) : Bool :=
  (List.range img.length).all fun i =>
    match usableAt cfg img (i : Int) with
    | none => true
    | some h =>
      if 0 ≤ h.nextSlot then
        match usableAt cfg img h.nextSlot with
        | none => false
        | some h' => fileOf cfg img h' == fileOf cfg img h
      else true

theorem usableAt_range {cfg : Cfg} {img : List RawSlot} {x : Int} {h : Header} (hu : usableAt cfg img x = some h) :
    0 ≤ x ∧ x.toNat < img.length := by
  unfold usableAt at hu
  split at hu
  · rename_i hx
    refine ⟨hx, ?_⟩
    cases hg : img[x.toNat]? with
    | none => rw [hg] at hu; cases hu
    | some r =>
      have := List.getElem?_eq_some_iff.1 hg
      exact this.1
  · cases hu

theorem linksClosed_of_check {cfg : Cfg} {img : List RawSlot} (hc : linksClosedCheck cfg img = true) : LinksClosed cfg img := by
  intro x h hu hn
  obtain ⟨hx0, hxl⟩ := usableAt_range hu
  have hmem : x.toNat ∈ List.range img.length := List.mem_range.2 hxl
  have := List.all_eq_true.1 hc x.toNat hmem
  have hxx : ((x.toNat : Nat) : Int) = x := by omega
  rw [hxx, hu] at this
  simp only [hn, if_true] at this
  cases hu' : usableAt cfg img h.nextSlot with
  | none => rw [hu'] at this; cases this
  | some h' =>
    rw [hu'] at this
    exact ⟨h', rfl, by simpa using this⟩

end SquidModel.Rock
