/-
The facts about LoadingEntry / anchor fields that make the asserts of Rock::Rebuild other than the four `allowed`
crashes unreachable: a Loading entry whose inode has been seen has a non-negative chain start; a Loading entry with a
non-empty chain has a positive size; every touched entry position is below the entry limit; an untouched position
has never seen an inode.
-/
import SquidModel.Rock.Invariant

namespace SquidModel.Rock

structure Tight (ex : Option Nat) (entries : Nat) (st : St) : Prop where
  /-- `le.anchored()` implies that `anchor.start` is the inode slot -/
  inode : ∀ f, (st.le f).state = .loading → (st.le f).anchored = true → 0 ≤ (st.an f).start
  /-- `assert(anchor.start < 0 || le.size > 0)` of freeBadEntry -/
  sized : ∀ f, (st.le f).state = .loading → ex ≠ some f → (st.an f).start < 0 ∨ 0 < (st.le f).size
  bound : ∀ f, (st.le f).state ≠ .empty → f < entries
  virgin : ∀ f, (st.le f).state = .empty → (st.le f).anchored = false

theorem tight_init (n : Nat) : Tight none n St.init :=
  ⟨fun f h => by simp [St.init] at h, fun f h => by simp [St.init] at h, fun f h => by simp [St.init] at h, fun f _ => rfl⟩

theorem Tight.same {ex : Option Nat} {n : Nat} {st st' : St} (h : Tight ex n st) (hle : st'.le = st.le) (han : st'.an = st.an) :
    Tight ex n st' :=
  ⟨by rw [hle, han]; exact h.inode, by rw [hle, han]; exact h.sized, by rw [hle]; exact h.bound, by rw [hle]; exact h.virgin⟩

theorem Tight.exempt {ex : Option Nat} {n : Nat} {st : St} (h : Tight none n st) : Tight ex n st :=
  ⟨h.inode, fun f hf _ => h.sized f hf (by simp), h.bound, h.virgin⟩

theorem Tight.close {n : Nat} {f : Nat} {st : St} (h : Tight (some f) n st)
    (hs : (st.le f).state = .loading → (st.an f).start < 0 ∨ 0 < (st.le f).size) : Tight none n st := by
  refine ⟨h.inode, fun k hk _ => ?_, h.bound, h.virgin⟩
  by_cases hkf : k = f
  · subst hkf; exact hs hk
  · exact h.sized k hk (by simpa using fun e => hkf e.symm)

/-- the entry at `f` stops being Loading/Loaded (freeBadEntry, StoreMap::freeEntry) or becomes Loaded -/
theorem Tight.settle {ex : Option Nat} {n : Nat} {st st' : St} {f : Nat} {e : LEntry} {a : Anchor} (h : Tight ex n st)
    (hf : (st.le f).state ≠ .empty) (he : e.state = .corrupted ∨ e.state = .loaded)
    (hle : st'.le = upd st.le f e) (han : st'.an = upd st.an f a) : Tight ex n st' := by
  have hstate : ∀ k, k ≠ f → st'.le k = st.le k := fun k hk => by rw [hle, upd_other _ _ _ _ hk]
  have hanch : ∀ k, k ≠ f → st'.an k = st.an k := fun k hk => by rw [han, upd_other _ _ _ _ hk]
  have hstf : (st'.le f).state = e.state := by rw [hle]; simp
  have hnl : (st'.le f).state ≠ .loading := by
    rw [hstf]; cases he with
    | inl x => rw [x]; decide
    | inr x => rw [x]; decide
  have hne : (st'.le f).state ≠ .empty := by
    rw [hstf]; cases he with
    | inl x => rw [x]; decide
    | inr x => rw [x]; decide
  refine ⟨?_, ?_, ?_, ?_⟩
  · intro k hk
    by_cases hkf : k = f
    · subst hkf; exact absurd hk hnl
    · rw [hstate k hkf] at hk ⊢; rw [hanch k hkf]; exact h.inode k hk
  · intro k hk
    by_cases hkf : k = f
    · subst hkf; exact absurd hk hnl
    · rw [hstate k hkf] at hk ⊢; rw [hanch k hkf]; exact h.sized k hk
  · intro k hk
    by_cases hkf : k = f
    · subst hkf; exact h.bound k hf
    · rw [hstate k hkf] at hk; exact h.bound k hk
  · intro k hk
    by_cases hkf : k = f
    · subst hkf; exact absurd hk hne
    · rw [hstate k hkf] at hk ⊢; exact h.virgin k hk

/-- changes to a Loading entry that keep it Loading -/
theorem Tight.tweak {ex : Option Nat} {n : Nat} {st st' : St} {f : Nat} {e : LEntry} {a : Anchor} (h : Tight ex n st)
    (hf : (st.le f).state ≠ .empty) (he : e.state = .loading)
    (hin : e.anchored = true → 0 ≤ a.start) (hsz : ex ≠ some f → a.start < 0 ∨ 0 < e.size)
    (hle : st'.le = upd st.le f e) (han : st'.an = upd st.an f a) : Tight ex n st' := by
  have hstate : ∀ k, k ≠ f → st'.le k = st.le k := fun k hk => by rw [hle, upd_other _ _ _ _ hk]
  have hanch : ∀ k, k ≠ f → st'.an k = st.an k := fun k hk => by rw [han, upd_other _ _ _ _ hk]
  have hlf : st'.le f = e := by rw [hle]; simp
  have haf : st'.an f = a := by rw [han]; simp
  refine ⟨?_, ?_, ?_, ?_⟩
  · intro k hk
    by_cases hkf : k = f
    · subst hkf; rw [hlf, haf]; exact hin
    · rw [hstate k hkf] at hk ⊢; rw [hanch k hkf]; exact h.inode k hk
  · intro k hk
    by_cases hkf : k = f
    · subst hkf; rw [hlf, haf]; exact hsz
    · rw [hstate k hkf] at hk ⊢; rw [hanch k hkf]; exact h.sized k hk
  · intro k hk
    by_cases hkf : k = f
    · subst hkf; exact h.bound k hf
    · rw [hstate k hkf] at hk; exact h.bound k hk
  · intro k hk
    by_cases hkf : k = f
    · subst hkf; rw [hlf, he] at hk; cases hk
    · rw [hstate k hkf] at hk ⊢; exact h.virgin k hk

/-- an Empty position starts Loading -/
theorem Tight.begin {n : Nat} {st st' : St} {f : Nat} {e : LEntry} {a : Anchor} (h : Tight none n st)
    (hf : (st.le f).state = .empty) (hfn : f < n) (he : e.state = .loading) (hea : e.anchored = (st.le f).anchored)
    (has : a.start = -1) (hle : st'.le = upd st.le f e) (han : st'.an = upd st.an f a) : Tight none n st' := by
  have hstate : ∀ k, k ≠ f → st'.le k = st.le k := fun k hk => by rw [hle, upd_other _ _ _ _ hk]
  have hanch : ∀ k, k ≠ f → st'.an k = st.an k := fun k hk => by rw [han, upd_other _ _ _ _ hk]
  have hlf : st'.le f = e := by rw [hle]; simp
  have haf : st'.an f = a := by rw [han]; simp
  refine ⟨?_, ?_, ?_, ?_⟩
  · intro k hk
    by_cases hkf : k = f
    · subst hkf
      rw [hlf, hea, h.virgin k hf]
      intro x; cases x
    · rw [hstate k hkf] at hk ⊢; rw [hanch k hkf]; exact h.inode k hk
  · intro k hk hne
    by_cases hkf : k = f
    · subst hkf; rw [haf, has]; left; omega
    · rw [hstate k hkf] at hk ⊢; rw [hanch k hkf]; exact h.sized k hk hne
  · intro k hk
    by_cases hkf : k = f
    · subst hkf; exact hfn
    · rw [hstate k hkf] at hk; exact h.bound k hk
  · intro k hk
    by_cases hkf : k = f
    · subst hkf; rw [hlf, he] at hk; cases hk
    · rw [hstate k hkf] at hk ⊢; exact h.virgin k hk

end SquidModel.Rock
