/-
DNS message decoding: model of src/dns/rfc1035.cc
  rfc1035HeaderUnpack, rfc1035NameUnpack, rfc1035QueryUnpack, rfc1035RRUnpack, rfc1035MessageUnpack,
function by function and branch by branch.

The message buffer is `buf : Bytes` with `sz = buf.length`; `*off` and `no` are unbounded naturals (the C types are
`unsigned int`; every value they take is ≤ sz + 65545, see `ASSUMPTIONS` of props/C37.py: sz < 2^32 - 2^17).
Every memory access of the C code is an explicit step of the model:
  * a read of `buf[i]` outside `[0, sz)`, or a store into the destination name buffer outside `[0, ns)`, is the
    outcome `R.oob` — *in addition to* the checks the C code itself makes (which give `R.err` = "return 1");
  * a failing `assert` is `R.abort`;
  * the do-while loop / recursion of rfc1035NameUnpack runs on a budget (`fuel`); exhausting it is `R.fuel`.
The property theorems show that `oob`, `abort` and `fuel` never happen.
Core Lean only (linked into the driver).
-/
import SquidModel.Base.Bytes
import SquidModel.Gen.DnsLimits

namespace SquidModel.Dns
open SquidModel.Gen.DnsLimits

/-- outcome of one C function of the codec -/
inductive R (α : Type) where
  | ok (a : α)   -- returns 0 (or the value)
  | err          -- returns 1: the checks of the C code refuse the input
  | oob          -- an access outside the message buffer or outside the destination buffer
  | abort        -- an assert() of the C code fails
  | fuel         -- the model's iteration budget is exhausted
  deriving Repr, DecidableEq

/-- `memcpy(&s, buf + off, 2); ntohs(s)`: two reads -/
def rd16 (buf : Bytes) (off : Nat) : Option Nat :=
  match buf[off]?, buf[off + 1]? with
  | some a, some b => some (a.toNat * 256 + b.toNat)
  | _, _ => none

/-- `memcpy(&i, buf + off, 4); ntohl(i)`: four reads -/
def rd32 (buf : Bytes) (off : Nat) : Option Nat :=
  match rd16 buf off, rd16 buf (off + 2) with
  | some a, some b => some (a * 65536 + b)
  | _, _ => none

/-! ### rfc1035HeaderUnpack -/

structure Header where
  id : Nat
  qr : Nat
  opcode : Nat
  aa : Nat
  tc : Nat
  rd : Nat
  ra : Nat
  rcode : Nat
  qdcount : Nat
  ancount : Nat
  nscount : Nat
  arcount : Nat
  deriving Repr, DecidableEq

/-- the six 16-bit reads at offsets 0,2,..,10; `(t >> k) & m` written as `t / 2^k % (m+1)`; the reserved Z bits are ignored -/
def headerUnpack (buf : Bytes) : R Header :=
  if buf.length < headerSz then .err
  else
    match rd16 buf 0, rd16 buf 2, rd16 buf 4, rd16 buf 6, rd16 buf 8, rd16 buf 10 with
    | some id, some t, some qd, some an, some ns, some ar =>
      .ok { id := id, qr := t / 32768 % 2, opcode := t / 2048 % 16, aa := t / 1024 % 2, tc := t / 512 % 2,
            rd := t / 256 % 2, ra := t / 128 % 2, rcode := t % 16,
            qdcount := qd, ancount := an, nscount := ns, arcount := ar }
    | _, _, _, _, _, _ => .oob

/-! ### rfc1035NameUnpack -/

/-- what a successful rfc1035NameUnpack leaves behind -/
structure NameRes where
  /-- `*off` after the call -/
  off : Nat
  /-- `*rdlength` after the call (when the caller passes a counter) -/
  rdl : Nat
  /-- every byte stored into `name[0 ..]`, in order of position, including the terminating NUL -/
  out : Bytes
  deriving Repr, DecidableEq

/-- the code after the loop: `if (no) name[no-1] = 0; else *name = 0; assert(no <= ns); return 0`
(`acc` = the `no` bytes stored so far) -/
def nameFinish (ns : Nat) (acc : Bytes) (off rdl : Nat) : R NameRes :=
  if acc.length = 0 then
    if 0 < ns then .ok ⟨off, rdl, [0]⟩ else .oob
  else if acc.length - 1 < ns then
    if acc.length ≤ ns then .ok ⟨off, rdl, acc.dropLast ++ [0]⟩ else .abort
  else .oob

/-- One call of rfc1035NameUnpack entered at the head of its do-while loop with `no = acc.length` bytes stored
(`acc.length < ns` holds whenever the C code is there: `assert(ns > 0)` on entry, `no < ns` in the loop condition).
The recursive call for a compression pointer gets `name + no`, `ns - no`, `rdepth + 1`; its stores land behind `acc`.

`fix` selects the code of the compression branch:
* `true` — the code since /repo fd17dd6: the callee counts into a local `unsigned short sub = 0`; afterwards
  `if (rdlength) *rdlength += sub; if (no && !sub) name[no - 1] = 0;` — when the pointer led to the root label only,
  the '.' appended after the caller's last label is replaced by NUL;
* `false` — the code before: `return rfc1035NameUnpack(.., rdlength, name + no, ns - no, rdepth + 1)`, the caller's
  counter handed down, nothing stored afterwards.
`Gen.DnsLimits.ptrRootDropsDot` (read from the staged source) says which one the tree has. -/
def nameLoop (fix : Bool) (buf : Bytes) : Nat → Nat → Nat → Nat → Bytes → Nat → R NameRes
  | 0, _, _, _, _, _ => .fuel
  | fuel + 1, off, ns, rdepth, acc, rdl =>
    if off ≥ buf.length then .err
    else
      match buf[off]? with
      | none => .oob
      | some c =>
        if c.toNat > ptrThreshold then
          -- blasted compression
          if rdepth > maxRdepth then .err
          else if off + 2 > buf.length then .err
          else
            match rd16 buf off with
            | none => .oob
            | some s =>
              let ptr := s &&& ptrMask
              if ptr ≥ buf.length then .err
              else if ns - acc.length = 0 then .abort   -- assert(ns > 0) of the recursive call
              else
                match nameLoop fix buf fuel ptr (ns - acc.length) (rdepth + 1) [] (if fix then 0 else rdl) with
                | .ok r =>
                  if fix then
                    -- *rdlength += sub; if (no && !sub) *(name + no - 1) = '\0';   (`sub` is an unsigned short)
                    if acc.length ≠ 0 ∧ r.rdl % 65536 = 0 then .ok ⟨off + 2, rdl + r.rdl, acc.dropLast ++ [0] ++ r.out⟩
                    else .ok ⟨off + 2, rdl + r.rdl, acc ++ r.out⟩
                  else .ok ⟨off + 2, r.rdl, acc ++ r.out⟩
                | .err => .err
                | .oob => .oob
                | .abort => .abort
                | .fuel => .fuel
        else if c.toNat > maxLabelSz then .err      -- the 10 and 01 combinations are reserved
        else
          let off1 := off + 1
          let len := c.toNat
          if len = 0 then nameFinish ns acc off1 rdl       -- break
          else if len > ns - acc.length - 1 then .err      -- label won't fit
          else if off1 + len ≥ buf.length then .err        -- message is too short
          else if off1 + len > buf.length then .oob        -- memcpy source buf[off1, off1+len)
          else if acc.length + len + 1 > ns then .oob      -- memcpy destination name[no, no+len) and the '.' at name[no+len]
          else
            let acc' := acc ++ (buf.drop off1).take len ++ [46]
            -- while (c > 0 && no < ns)
            if acc'.length < ns then nameLoop fix buf fuel (off1 + len) ns rdepth acc' (rdl + len + 1)
            else nameFinish ns acc' (off1 + len) (rdl + len + 1)

/-- iteration budget that always suffices (theorem `nameUnpack_never_fuel`): every label stores at least two bytes,
every pointer increases `rdepth` -/
def nameFuel (ns : Nat) : Nat := ns + maxRdepth + 2

/-- `rfc1035NameUnpack(buf, sz, &off, &rdl, name, ns, 0)` with `rdl = 0`, for either version of the compression branch -/
def nameUnpackV (fix : Bool) (buf : Bytes) (off ns : Nat) : R NameRes :=
  if ns = 0 then .abort    -- assert(ns > 0)
  else nameLoop fix buf (nameFuel ns) off ns 0 [] 0

/-- the code of the staged tree -/
def nameUnpack (buf : Bytes) (off ns : Nat) : R NameRes := nameUnpackV ptrRootDropsDot buf off ns

/-- the C string a caller sees in a name buffer -/
def cstr (b : Bytes) : Bytes := b.takeWhile (· ≠ 0)

/-! ### rfc1035QueryUnpack -/

structure Query where
  /-- the C string left in `query->name` -/
  name : Bytes
  qtype : Nat
  qclass : Nat
  deriving Repr, DecidableEq

/-- returns the query and the new `*off` -/
def queryUnpack (buf : Bytes) (off : Nat) : R (Query × Nat) :=
  match nameUnpack buf off nameBufSz with
  | .ok r =>
    if r.off + qFixedSz > buf.length then .err
    else
      match rd16 buf r.off, rd16 buf (r.off + 2) with
      | some t, some c => .ok (⟨cstr r.out, t, c⟩, r.off + 4)
      | _, _ => .oob
  | .err => .err
  | .oob => .oob
  | .abort => .abort
  | .fuel => .fuel

/-! ### rfc1035RRUnpack -/

structure RR where
  /-- the C string left in `RR->name` -/
  name : Bytes
  type : Nat
  cls : Nat
  ttl : Nat
  rdlength : Nat
  /-- PTR: the C string left in the `RFC1035_MAXHOSTNAMESZ` rdata buffer; other types: the raw rdata -/
  rdata : Bytes
  deriving Repr, DecidableEq

def rrUnpack (buf : Bytes) (off : Nat) : R (RR × Nat) :=
  match nameUnpack buf off nameBufSz with
  | .ok r =>
    let o := r.off
    if o + rrFixedSz > buf.length then .err
    else
      match rd16 buf o, rd16 buf (o + 2), rd32 buf (o + 4), rd16 buf (o + 8) with
      | some ty, some cl, some ttl, some rdlength =>
        let o10 := o + 10
        if o10 + rdlength > buf.length then .err      -- truncated packet
        else if ty = typePTR then
          -- RR->rdlength = 0, filled in by rfc1035NameUnpack (an unsigned short counter)
          match nameUnpack buf o10 nameBufSz with
          | .ok p =>
            if p.off > o10 + rdlength then .err       -- the name goes beyond the RDATA area
            else if o10 + rdlength ≤ buf.length then .ok (⟨cstr r.out, ty, cl, ttl, p.rdl % 65536, cstr p.out⟩, o10 + rdlength)
            else .abort
          | .err => .err
          | .oob => .oob
          | .abort => .abort
          | .fuel => .fuel
        else
          -- memcpy(RR->rdata, buf + off, rdlength)
          if o10 + rdlength > buf.length then .oob
          else if o10 + rdlength ≤ buf.length then
            .ok (⟨cstr r.out, ty, cl, ttl, rdlength, (buf.drop o10).take rdlength⟩, o10 + rdlength)
          else .abort                                  -- assert((*off) <= sz)
      | _, _, _, _ => .oob
  | .err => .err
  | .oob => .oob
  | .abort => .abort
  | .fuel => .fuel

/-! ### rfc1035MessageUnpack -/

structure Msg where
  hdr : Header
  query : Query
  /-- the `nr` records unpacked (the caller may only look at that many) -/
  answers : List RR
  deriving Repr, DecidableEq

/-- result of rfc1035MessageUnpack: return value and `*answer` -/
inductive Out where
  | ret (code : Int) (msg : Option Msg)
  | oob
  | abort
  | fuel
  deriving Repr, DecidableEq

/-- the answer loop: `for (j = 0; j < ancount; j++) { if (off >= sz) break; if (rfc1035RRUnpack(..)) break; nr++; }` -/
def rrLoop (buf : Bytes) : Nat → Nat → R (List RR)
  | 0, _ => .ok []
  | n + 1, off =>
    if off ≥ buf.length then .ok []
    else
      match rrUnpack buf off with
      | .ok (rr, off') =>
        match rrLoop buf n off' with
        | .ok l => .ok (rr :: l)
        | .err => .err
        | .oob => .oob
        | .abort => .abort
        | .fuel => .fuel
      | .err => .ok []
      | .oob => .oob
      | .abort => .abort
      | .fuel => .fuel

def messageUnpack (buf : Bytes) : Out :=
  match headerUnpack buf with
  | .err => .ret (-(unpackError : Int)) none
  | .oob => .oob
  | .abort => .abort
  | .fuel => .fuel
  | .ok h =>
    if h.qdcount ≠ 1 then .ret (-(unpackError : Int)) none    -- this can not be an answer to our queries
    else
      match queryUnpack buf 12 with
      | .err => .ret (-(unpackError : Int)) none
      | .oob => .oob
      | .abort => .abort
      | .fuel => .fuel
      | .ok (q, off) =>
        if h.rcode ≠ 0 then .ret (-(h.rcode : Int)) (some ⟨h, q, []⟩)
        else if h.ancount = 0 then .ret 0 (some ⟨h, q, []⟩)
        else
          match rrLoop buf h.ancount off with
          | .ok [] => .ret (-(unpackError : Int)) none   -- expected some answers but got none
          | .ok l => .ret (l.length : Int) (some ⟨h, q, l⟩)
          | .err => .ret (-(unpackError : Int)) none
          | .oob => .oob
          | .abort => .abort
          | .fuel => .fuel

end SquidModel.Dns
