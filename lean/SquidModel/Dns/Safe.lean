/-
Memory safety and termination of the DNS decoder model: no outcome `oob`, `abort` or `fuel`, for every byte list.
-/
import SquidModel.Dns.Unpack

namespace SquidModel.Dns
open SquidModel.Gen.DnsLimits

theorem rd16_some {buf : Bytes} {off : Nat} (h : off + 2 ≤ buf.length) : ∃ s, rd16 buf off = some s := by
  have h0 : off < buf.length := by omega
  have h1 : off + 1 < buf.length := by omega
  simp [rd16, List.getElem?_eq_getElem h0, List.getElem?_eq_getElem h1]

theorem rd32_some {buf : Bytes} {off : Nat} (h : off + 4 ≤ buf.length) : ∃ s, rd32 buf off = some s := by
  obtain ⟨a, ha⟩ := rd16_some (buf := buf) (off := off) (by omega)
  obtain ⟨b, hb⟩ := rd16_some (buf := buf) (off := off + 2) (by omega)
  simp [rd32, ha, hb]

/-- What a call of rfc1035NameUnpack may do, entered with `accLen` bytes already stored and the counter at `rdl0`:
return 1, or return 0 with `*off` inside the message, all stores inside `name[0, ns)`, a NUL as the last stored byte,
and the counter advanced by no more than the bytes stored. Never an out-of-bounds access, a failed assert, or an
exhausted budget. -/
def NameSafe (buf : Bytes) (ns accLen rdl0 : Nat) : R NameRes → Prop
  | .ok r => r.off ≤ buf.length ∧ r.out.length ≤ ns ∧ 1 ≤ r.out.length ∧ accLen ≤ r.out.length ∧
             r.out.getLast? = some 0 ∧ rdl0 ≤ r.rdl ∧ r.rdl + accLen ≤ rdl0 + r.out.length
  | .err => True
  | .oob => False
  | .abort => False
  | .fuel => False

theorem nameFinish_safe (buf : Bytes) (ns : Nat) (acc : Bytes) (off rdl : Nat)
    (hacc : acc.length ≤ ns) (hns : 0 < ns) (hoff : off ≤ buf.length) :
    NameSafe buf ns acc.length rdl (nameFinish ns acc off rdl) := by
  unfold nameFinish
  by_cases h0 : acc.length = 0
  · simp [h0, hns, NameSafe, hoff]; omega
  · have h1 : acc.length - 1 < ns := by omega
    simp [h0, h1, hacc, NameSafe, hoff]
    omega

/-- the measure that pays for the budget: room left in the name buffer + recursion depth left -/
theorem nameLoop_safe (fix : Bool) (buf : Bytes) : ∀ (fuel off ns rdepth : Nat) (acc : Bytes) (rdl : Nat),
    acc.length < ns → (ns - acc.length) + (maxRdepth + 2 - rdepth) ≤ fuel →
    NameSafe buf ns acc.length rdl (nameLoop fix buf fuel off ns rdepth acc rdl) := by
  intro fuel
  induction fuel with
  | zero => intro off ns rdepth acc rdl hlt hf; omega
  | succ fuel ih =>
    intro off ns rdepth acc rdl hlt hf
    rw [nameLoop]
    by_cases hoff : off ≥ buf.length
    · simp [hoff, NameSafe]
    · have hoff' : off < buf.length := by omega
      simp only [hoff, ↓reduceIte, List.getElem?_eq_getElem hoff']
      by_cases hptr : (buf[off]).toNat > ptrThreshold
      · simp only [hptr, ↓reduceIte]
        by_cases hrd : rdepth > maxRdepth
        · simp [hrd, NameSafe]
        · simp only [hrd, ↓reduceIte]
          by_cases h2 : off + 2 > buf.length
          · simp [h2, NameSafe]
          · simp only [h2, ↓reduceIte]
            obtain ⟨s, hs⟩ := rd16_some (buf := buf) (off := off) (by omega)
            simp only [hs]
            by_cases hp : s &&& ptrMask ≥ buf.length
            · simp [hp, NameSafe]
            · simp only [hp, ↓reduceIte]
              have hroom : ¬ (ns - acc.length = 0) := by omega
              simp only [hroom, ↓reduceIte]
              have := ih (s &&& ptrMask) (ns - acc.length) (rdepth + 1) [] (if fix then 0 else rdl) (by simp; omega) (by simp; omega)
              revert this
              cases nameLoop fix buf fuel (s &&& ptrMask) (ns - acc.length) (rdepth + 1) [] (if fix then 0 else rdl) with
              | ok r =>
                simp only [NameSafe, List.length_nil]
                intro ⟨_, h2, h3, _, h5, h6, h7⟩
                cases fix with
                | false =>
                  simp only [Bool.false_eq_true, ↓reduceIte, NameSafe, List.length_append] at h6 h7 ⊢
                  refine ⟨by omega, by omega, by omega, by omega, ?_, h6, by omega⟩
                  rw [List.getLast?_append, h5]; rfl
                | true =>
                  simp only [↓reduceIte] at h6 h7 ⊢
                  by_cases hdrop : acc.length ≠ 0 ∧ r.rdl % 65536 = 0
                  · rw [if_pos hdrop]
                    simp only [NameSafe, List.length_append, List.length_dropLast, List.length_cons, List.length_nil]
                    refine ⟨by omega, by omega, by omega, by omega, ?_, by omega, by omega⟩
                    rw [List.getLast?_append, h5]; rfl
                  · rw [if_neg hdrop]
                    simp only [NameSafe, List.length_append]
                    refine ⟨by omega, by omega, by omega, by omega, ?_, by omega, by omega⟩
                    rw [List.getLast?_append, h5]; rfl
              | err => simp [NameSafe]
              | oob => simp [NameSafe]
              | abort => simp [NameSafe]
              | fuel => simp [NameSafe]
      · simp only [hptr, ↓reduceIte]
        by_cases hlab : (buf[off]).toNat > maxLabelSz
        · simp [hlab, NameSafe]
        · simp only [hlab, ↓reduceIte]
          by_cases hz : (buf[off]).toNat = 0
          · simp only [hz, ↓reduceIte]
            exact nameFinish_safe buf ns acc (off + 1) rdl (by omega) (by omega) (by omega)
          · simp only [hz, ↓reduceIte]
            by_cases hfit : (buf[off]).toNat > ns - acc.length - 1
            · simp [hfit, NameSafe]
            · simp only [hfit, ↓reduceIte]
              by_cases hshort : off + 1 + (buf[off]).toNat ≥ buf.length
              · simp [hshort, NameSafe]
              · simp only [hshort, ↓reduceIte]
                have hsrc : ¬ (off + 1 + (buf[off]).toNat > buf.length) := by omega
                have hdst : ¬ (acc.length + (buf[off]).toNat + 1 > ns) := by omega
                simp only [hsrc, hdst, ↓reduceIte]
                have hlen : (acc ++ List.take (buf[off]).toNat (List.drop (off + 1) buf) ++ [46]).length
                    = acc.length + (buf[off]).toNat + 1 := by
                  simp [List.length_take, List.length_drop]; omega
                by_cases hcont : (acc ++ List.take (buf[off]).toNat (List.drop (off + 1) buf) ++ [46]).length < ns
                · simp only [hcont, ↓reduceIte]
                  have := ih (off + 1 + (buf[off]).toNat) ns rdepth
                    (acc ++ List.take (buf[off]).toNat (List.drop (off + 1) buf) ++ [46]) (rdl + (buf[off]).toNat + 1)
                    hcont (by rw [hlen]; rw [hlen] at hcont; omega)
                  revert this
                  cases nameLoop fix buf fuel (off + 1 + (buf[off]).toNat) ns rdepth
                      (acc ++ List.take (buf[off]).toNat (List.drop (off + 1) buf) ++ [46]) (rdl + (buf[off]).toNat + 1) with
                  | ok r =>
                    simp only [NameSafe]
                    rw [hlen]
                    intro ⟨h1, h2, h3, h4, h5, h6, h7⟩
                    exact ⟨h1, h2, h3, by omega, h5, by omega, by omega⟩
                  | err => simp [NameSafe]
                  | oob => simp [NameSafe]
                  | abort => simp [NameSafe]
                  | fuel => simp [NameSafe]
                · simp only [hcont, ↓reduceIte]
                  have := nameFinish_safe buf ns
                    (acc ++ List.take (buf[off]).toNat (List.drop (off + 1) buf) ++ [46]) (off + 1 + (buf[off]).toNat)
                    (rdl + (buf[off]).toNat + 1) (by rw [hlen]; omega) (by omega) (by omega)
                  revert this
                  cases nameFinish ns (acc ++ List.take (buf[off]).toNat (List.drop (off + 1) buf) ++ [46])
                      (off + 1 + (buf[off]).toNat) (rdl + (buf[off]).toNat + 1) with
                  | ok r =>
                    simp only [NameSafe]
                    rw [hlen]
                    intro ⟨h1, h2, h3, h4, h5, h6, h7⟩
                    exact ⟨h1, h2, h3, by omega, h5, by omega, by omega⟩
                  | err => simp [NameSafe]
                  | oob => simp [NameSafe]
                  | abort => simp [NameSafe]
                  | fuel => simp [NameSafe]

theorem nameUnpackV_safe (fix : Bool) (buf : Bytes) (off ns : Nat) (hns : 0 < ns) :
    NameSafe buf ns 0 0 (nameUnpackV fix buf off ns) := by
  unfold nameUnpackV
  have : ¬ ns = 0 := by omega
  simp only [this, ↓reduceIte]
  exact nameLoop_safe fix buf (nameFuel ns) off ns 0 [] 0 (by simpa using hns) (by simp [nameFuel]; omega)

theorem nameUnpack_safe (buf : Bytes) (off ns : Nat) (hns : 0 < ns) :
    NameSafe buf ns 0 0 (nameUnpack buf off ns) :=
  nameUnpackV_safe _ buf off ns hns

/-- a NUL-terminated buffer holds a C string shorter than itself -/
theorem cstr_length_lt : ∀ (l : Bytes), l.getLast? = some 0 → (cstr l).length < l.length := by
  intro l
  induction l with
  | nil => intro h; simp at h
  | cons a t ih =>
    intro h
    unfold cstr at *
    by_cases ha : a = 0
    · simp [List.takeWhile_cons, ha]
    · cases t with
      | nil => simp at h; exact absurd h ha
      | cons b t' =>
        rw [List.getLast?_cons_cons] at h
        have := ih h
        simp only [List.takeWhile_cons, ne_eq, ha, not_false_eq_true, decide_true, ↓reduceIte, List.length_cons] at this ⊢
        omega

/-! ### the callers -/

theorem nameBufSz_pos : 0 < nameBufSz := by decide
theorem qFixedSz_eq : qFixedSz = 4 := by decide
theorem rrFixedSz_eq : rrFixedSz = 10 := by decide
theorem headerSz_eq : headerSz = 12 := by decide

/-- a name as the decoder leaves it: the C string, with its NUL, lies inside the `RFC1035_MAXHOSTNAMESZ` bytes of its buffer -/
def NameBufOk (b : Bytes) : Prop := b.length < nameBufSz

def QSafe (buf : Bytes) : R (Query × Nat) → Prop
  | .ok (q, off) => off ≤ buf.length ∧ NameBufOk q.name
  | .err => True
  | .oob => False
  | .abort => False
  | .fuel => False

theorem queryUnpack_safe (buf : Bytes) (off : Nat) : QSafe buf (queryUnpack buf off) := by
  unfold queryUnpack
  have := nameUnpack_safe buf off nameBufSz nameBufSz_pos
  revert this
  cases nameUnpack buf off nameBufSz with
  | ok r =>
    simp only [NameSafe]
    intro ⟨h1, h2, _, _, h5, _, _⟩
    by_cases hq : r.off + qFixedSz > buf.length
    · simp [hq, QSafe]
    · simp only [hq, ↓reduceIte]
      have e := qFixedSz_eq
      obtain ⟨a, ha⟩ := rd16_some (buf := buf) (off := r.off) (by omega)
      obtain ⟨b, hb⟩ := rd16_some (buf := buf) (off := r.off + 2) (by omega)
      simp only [ha, hb, QSafe, NameBufOk]
      have := cstr_length_lt r.out h5
      exact ⟨by omega, by omega⟩
  | err => simp [QSafe]
  | oob => simp [NameSafe]
  | abort => simp [NameSafe]
  | fuel => simp [NameSafe]

/-- a record as the decoder leaves it -/
def RRGood (rr : RR) : Prop :=
  NameBufOk rr.name ∧ rr.rdlength < 65536 ∧
  (rr.type = typePTR → NameBufOk rr.rdata ∧ rr.rdlength ≤ nameBufSz) ∧
  (rr.type ≠ typePTR → rr.rdata.length = rr.rdlength)

def RRSafe (buf : Bytes) : R (RR × Nat) → Prop
  | .ok (rr, off') => off' ≤ buf.length ∧ RRGood rr
  | .err => True
  | .oob => False
  | .abort => False
  | .fuel => False

theorem rd16_lt {buf : Bytes} {off s : Nat} (h : rd16 buf off = some s) : s < 65536 := by
  unfold rd16 at h
  split at h
  · rename_i a b _ _
    have := a.toNat_lt; have := b.toNat_lt
    simp at h; omega
  · simp at h

theorem rrUnpack_safe (buf : Bytes) (off : Nat) : RRSafe buf (rrUnpack buf off) := by
  unfold rrUnpack
  have := nameUnpack_safe buf off nameBufSz nameBufSz_pos
  revert this
  cases hn : nameUnpack buf off nameBufSz with
  | ok r =>
    simp only [NameSafe]
    intro ⟨h1, h2, _, _, h5, _, _⟩
    by_cases hq : r.off + rrFixedSz > buf.length
    · simp [hq, RRSafe]
    · simp only [hq, ↓reduceIte]
      have e := rrFixedSz_eq
      obtain ⟨ty, hty⟩ := rd16_some (buf := buf) (off := r.off) (by omega)
      obtain ⟨cl, hcl⟩ := rd16_some (buf := buf) (off := r.off + 2) (by omega)
      obtain ⟨ttl, httl⟩ := rd32_some (buf := buf) (off := r.off + 4) (by omega)
      obtain ⟨rdl, hrdl⟩ := rd16_some (buf := buf) (off := r.off + 8) (by omega)
      have hrdl16 := rd16_lt hrdl
      simp only [hty, hcl, httl, hrdl]
      by_cases htr : r.off + 10 + rdl > buf.length
      · simp [htr, RRSafe]
      · simp only [htr, ↓reduceIte]
        by_cases hp : ty = typePTR
        · simp only [hp, ↓reduceIte]
          have := nameUnpack_safe buf (r.off + 10) nameBufSz nameBufSz_pos
          revert this
          cases nameUnpack buf (r.off + 10) nameBufSz with
          | ok p =>
            simp only [NameSafe]
            intro ⟨_, g2, _, _, g5, _, g7⟩
            by_cases hb : p.off > r.off + 10 + rdl
            · simp [hb, RRSafe]
            · have hle : r.off + 10 + rdl ≤ buf.length := by omega
              simp only [hb, ↓reduceIte]
              rw [if_pos hle]
              simp only [RRSafe, RRGood, NameBufOk]
              have c1 := cstr_length_lt r.out h5
              have c2 := cstr_length_lt p.out g5
              refine ⟨hle, by omega, Nat.mod_lt _ (by decide), ?_, ?_⟩
              · intro _
                refine ⟨by omega, ?_⟩
                have : p.rdl % 65536 ≤ p.rdl := Nat.mod_le _ _
                omega
              · intro h; exact absurd rfl h
          | err => simp [RRSafe]
          | oob => simp [NameSafe]
          | abort => simp [NameSafe]
          | fuel => simp [NameSafe]
        · have hle : r.off + 10 + rdl ≤ buf.length := by omega
          simp only [hp, ↓reduceIte]
          rw [if_pos hle]
          simp only [RRSafe, RRGood, NameBufOk]
          have c1 := cstr_length_lt r.out h5
          refine ⟨hle, by omega, hrdl16, ?_, ?_⟩
          · intro h; exact absurd h hp
          · intro _; simp [List.length_take, List.length_drop]; omega
  | err => simp [RRSafe]
  | oob => simp [NameSafe]
  | abort => simp [NameSafe]
  | fuel => simp [NameSafe]

theorem rrLoop_safe (buf : Bytes) : ∀ (n off : Nat),
    ∃ l, rrLoop buf n off = .ok l ∧ l.length ≤ n ∧ ∀ rr ∈ l, RRGood rr := by
  intro n
  induction n with
  | zero => intro off; exact ⟨[], by simp [rrLoop]⟩
  | succ n ih =>
    intro off
    rw [rrLoop]
    by_cases hoff : off ≥ buf.length
    · exact ⟨[], by simp [hoff]⟩
    · simp only [hoff, ↓reduceIte]
      have := rrUnpack_safe buf off
      revert this
      cases rrUnpack buf off with
      | ok p =>
        obtain ⟨rr, off'⟩ := p
        simp only [RRSafe]
        intro ⟨_, hg⟩
        obtain ⟨l, hl, hlen, hall⟩ := ih off'
        refine ⟨rr :: l, by simp [hl], by simp; omega, ?_⟩
        intro x hx
        rcases List.mem_cons.mp hx with rfl | hx
        · exact hg
        · exact hall x hx
      | err => intro _; exact ⟨[], by simp⟩
      | oob => simp [RRSafe]
      | abort => simp [RRSafe]
      | fuel => simp [RRSafe]

/-- What rfc1035MessageUnpack may do: return `-rfc1035_unpack_error` and no message; or a message whose name buffers
are NUL-terminated inside their 256 bytes, with `-rcode` and no records, or with the number of records unpacked
(at most ANCOUNT; zero only when ANCOUNT is zero). Nothing else: no out-of-bounds access, no failed assert, no
exhausted budget. -/
def OutSafe : Out → Prop
  | .ret code none => code = -(unpackError : Int)
  | .ret code (some m) =>
    NameBufOk m.query.name ∧ (∀ rr ∈ m.answers, RRGood rr) ∧ m.answers.length ≤ m.hdr.ancount ∧ m.hdr.qdcount = 1 ∧
    ((m.hdr.rcode ≠ 0 ∧ code = -(m.hdr.rcode : Int) ∧ m.answers = []) ∨
     (m.hdr.rcode = 0 ∧ code = (m.answers.length : Int) ∧ (m.answers = [] → m.hdr.ancount = 0)))
  | .oob => False
  | .abort => False
  | .fuel => False

theorem headerUnpack_safe (buf : Bytes) :
    headerUnpack buf = .err ∨ ∃ h, headerUnpack buf = .ok h := by
  unfold headerUnpack
  by_cases hsz : buf.length < headerSz
  · simp [hsz]
  · have e := headerSz_eq
    obtain ⟨a, ha⟩ := rd16_some (buf := buf) (off := 0) (by omega)
    obtain ⟨b, hb⟩ := rd16_some (buf := buf) (off := 2) (by omega)
    obtain ⟨c, hc⟩ := rd16_some (buf := buf) (off := 4) (by omega)
    obtain ⟨d, hd⟩ := rd16_some (buf := buf) (off := 6) (by omega)
    obtain ⟨f, hf⟩ := rd16_some (buf := buf) (off := 8) (by omega)
    obtain ⟨g, hg⟩ := rd16_some (buf := buf) (off := 10) (by omega)
    simp [hsz, ha, hb, hc, hd, hf, hg]

theorem messageUnpack_safe (buf : Bytes) : OutSafe (messageUnpack buf) := by
  unfold messageUnpack
  rcases headerUnpack_safe buf with he | ⟨h, he⟩
  · simp [he, OutSafe]
  · simp only [he]
    by_cases hqd : h.qdcount ≠ 1
    · simp [hqd, OutSafe]
    · simp only [hqd, ↓reduceIte]
      have hqd1 : h.qdcount = 1 := by simpa using hqd
      have := queryUnpack_safe buf 12
      revert this
      cases queryUnpack buf 12 with
      | ok p =>
        obtain ⟨q, off⟩ := p
        simp only [QSafe]
        intro ⟨_, hq⟩
        by_cases hrc : h.rcode ≠ 0
        · rw [if_pos hrc]
          exact ⟨hq, by simp, by simp, hqd1, Or.inl ⟨hrc, rfl, rfl⟩⟩
        · rw [if_neg hrc]
          have hrc0 : h.rcode = 0 := by simpa using hrc
          by_cases han : h.ancount = 0
          · rw [if_pos han]
            exact ⟨hq, by simp, by simp, hqd1, Or.inr ⟨hrc0, rfl, fun _ => han⟩⟩
          · rw [if_neg han]
            obtain ⟨l, hl, hlen, hall⟩ := rrLoop_safe buf h.ancount off
            rw [hl]
            cases l with
            | nil => simp [OutSafe]
            | cons rr l =>
              exact ⟨hq, hall, hlen, hqd1, Or.inr ⟨hrc0, rfl, by simp⟩⟩
      | err => simp [OutSafe]
      | oob => simp [QSafe]
      | abort => simp [QSafe]
      | fuel => simp [QSafe]

end SquidModel.Dns
