/-
Where rfc1035NameUnpack departs from the encoding relation: witnesses.
-/
import SquidModel.Dns.Encode

namespace SquidModel.Dns
open SquidModel.Gen.DnsLimits

/-- bytes appended behind an encoded name do not change what is encoded -/
theorem EncName.append_right {buf : Bytes} {d off e : Nat} {labels : List Bytes} (h : EncName buf d off labels e)
    (x : Bytes) : EncName (buf ++ x) d off labels e := by
  induction h with
  | root hc hz =>
    exact EncName.root (by rw [List.getElem?_append_left (List.getElem?_eq_some_iff.mp hc).1]; exact hc) hz
  | @label d off e c l rest hc hlen h1 h63 htake hrest ih =>
    have hlt := (List.getElem?_eq_some_iff.mp hc).1
    have hnext := hrest.off_lt
    refine EncName.label (by rw [List.getElem?_append_left hlt]; exact hc) hlen h1 h63 ?_ ih
    rw [List.drop_append_of_le_length (by omega), List.take_append_of_le_length (by simp; omega)]
    exact htake
  | ptr hhi hlo hgt _ ih =>
    have h1 := (List.getElem?_eq_some_iff.mp hhi).1
    have h2 := (List.getElem?_eq_some_iff.mp hlo).1
    exact EncName.ptr (by rw [List.getElem?_append_left h1]; exact hhi) (by rw [List.getElem?_append_left h2]; exact hlo) hgt ih

/-! ### more than `maxRdepth + 1` pointer hops -/

/-- where the n-th name of the chain starts: name 0 is `01 'a' 00` at offset 0, name n+1 is a pointer at 3 + 2n -/
def chainStart : Nat → Nat
  | 0 => 0
  | n + 1 => 3 + 2 * n

/-- `01 'a' 00` followed by n pointers, each to the previous name: name n decodes through n pointer hops -/
def chainBuf : Nat → Bytes
  | 0 => [1, 97, 0]
  | n + 1 => chainBuf n ++ [192, UInt8.ofNat (chainStart n)]

theorem chainBuf_length (n : Nat) : (chainBuf n).length = 3 + 2 * n := by
  induction n with
  | zero => rfl
  | succ n ih => simp [chainBuf, ih]; omega

theorem chainStart_lt (n : Nat) : chainStart n < 3 + 2 * n := by
  cases n <;> simp [chainStart] <;> omega

theorem ptrMask_eq : ptrMask = 2 ^ 14 - 1 := by decide

/-- every name of the chain is an encoding of "a" in the sense of `EncName`, with n hops, pointers strictly backwards -/
theorem chain_enc : ∀ n, n ≤ 100 → EncName (chainBuf n) n (chainStart n) [[97]] (chainStart n + (if n = 0 then 3 else 2)) := by
  intro n
  induction n with
  | zero =>
    intro _
    refine EncName.label (c := 1) (by decide) (by decide) (by decide) (by decide) (by decide) ?_
    exact EncName.root (c := 0) (by decide) (by decide)
  | succ n ih =>
    intro hn
    have hlen := chainBuf_length n
    have hst := chainStart_lt n
    have key := (ih (by omega)).append_right [192, UInt8.ofNat (chainStart n)]
    have htgt : ((192 : UInt8).toNat * 256 + (UInt8.ofNat (chainStart n)).toNat) &&& ptrMask = chainStart n := by
      rw [ptrMask_eq, Nat.and_two_pow_sub_one_eq_mod, u8_toNat]
      have : (192 : UInt8).toNat = 192 := by decide
      omega
    have hoff : chainStart (n + 1) = (chainBuf n).length := by simp [chainStart, hlen]
    simp only [Nat.succ_ne_zero, ↓reduceIte, chainBuf]
    rw [hoff]
    refine EncName.ptr (e' := chainStart n + (if n = 0 then 3 else 2)) (hi := 192) (lo := UInt8.ofNat (chainStart n)) (by simp) (by simp) (by decide) ?_
    rw [htgt]
    exact key

/-- 65 hops are followed ... -/
theorem chain65_decodes : nameUnpack (chainBuf 65) (chainStart 65) nameBufSz = .ok ⟨133, 2, [97, 0]⟩ := by
  decide +kernel

/-- ... the 66th is refused although the name is encoded by the same rules -/
theorem chain66_rejected : nameUnpack (chainBuf 66) (chainStart 66) nameBufSz = .err := by decide +kernel

/-! ### a pointer that leads to the root label -/

/-- `03 'foo' C0 06 00`: label "foo", then a pointer to the root label at offset 6: the name "foo". The code since
fd17dd6 replaces the '.' it had appended by NUL: the buffer holds "foo" -/
theorem ptr_to_root_decodes : nameUnpack [3, 102, 111, 111, 192, 6, 0] 0 nameBufSz = .ok ⟨6, 4, [102, 111, 111, 0, 0]⟩ := by
  decide +kernel

/-- PRE-FIX code (`nameUnpackV false`, the compression branch before fd17dd6): the same input is stored as "foo." -/
theorem prefix_ptr_to_root_decodes_with_dot :
    nameUnpackV false [3, 102, 111, 111, 192, 6, 0] 0 nameBufSz = .ok ⟨6, 4, [102, 111, 111, 46, 0]⟩ := by decide +kernel

/-- the same name without the detour decodes to "foo" (either version) -/
theorem plain_decodes_without_dot :
    nameUnpack [3, 102, 111, 111, 0] 0 nameBufSz = .ok ⟨5, 4, [102, 111, 111, 0]⟩ := by decide +kernel

/-! ### a name that exactly fills the buffer -/

/-- When the dots and labels fill the name buffer exactly, the loop ends on `no < ns` without having read the end of
the name: success is returned and `*off` is left in the middle of the name (here: before the pointer). For the
256-byte buffers of the callers this needs a name of 257 octets on the wire, which is not a legal name. -/
theorem buffer_full_stops_early :
    nameUnpack [3, 102, 111, 111, 3, 98, 97, 114, 0] 0 4 = .ok ⟨4, 4, [102, 111, 111, 0]⟩ := by decide +kernel

end SquidModel.Dns
