/-
The reference encoding of DNS names and messages as relations over the datagram (RFC 1035 §3.1, §4.1), with
compression pointers (§4.1.4), and the proof that the decoder model returns what was encoded.
-/
import SquidModel.Dns.Safe
import SquidModel.Dns.Pack

namespace SquidModel.Dns
open SquidModel.Gen.DnsLimits

/-- `Σ (len + 1)` over the labels: the octets the labels take on the wire, and the characters (with the dots)
they take in the name buffer -/
def wireLen : List Bytes → Nat
  | [] => 0
  | l :: r => l.length + 1 + wireLen r

/-- the labels as the decoder stores them: each followed by '.' -/
def dotted : List Bytes → Bytes
  | [] => []
  | l :: r => l ++ [46] ++ dotted r

/-- the NUL-terminated text of a name in its buffer: labels joined by '.', then NUL (the last '.' is overwritten) -/
def nameOut (labels : List Bytes) : Bytes :=
  if dotted labels = [] then [0] else (dotted labels).dropLast ++ [0]

theorem dotted_length (labels : List Bytes) : (dotted labels).length = wireLen labels := by
  induction labels with
  | nil => rfl
  | cons l r ih => simp [dotted, wireLen, ih]; omega

theorem dotted_ne_nil {labels : List Bytes} (h : labels ≠ []) : dotted labels ≠ [] := by
  cases labels with
  | nil => exact absurd rfl h
  | cons l r => simp [dotted]

/-- `EncName buf d off labels e`: at offset `off` of the datagram starts an encoding of the name `labels` that uses `d`
compression pointers on the way and whose part in the linear stream ends at `e`.
Labels have 1..RFC1035_MAXLABELSZ octets; a pointer is two octets `11xxxxxx xxxxxxxx` whose low 14 bits are the offset
of an encoding of the rest of the name (any offset: backwards, forwards, overlapping), the root label included. -/
inductive EncName (buf : Bytes) : Nat → Nat → List Bytes → Nat → Prop
  | root {off : Nat} {c : UInt8} :
      buf[off]? = some c → c.toNat = 0 → EncName buf 0 off [] (off + 1)
  | label {d off e : Nat} {c : UInt8} {l : Bytes} {rest : List Bytes} :
      buf[off]? = some c → c.toNat = l.length → 1 ≤ l.length → l.length ≤ maxLabelSz →
      (buf.drop (off + 1)).take l.length = l →
      EncName buf d (off + 1 + l.length) rest e →
      EncName buf d off (l :: rest) e
  | ptr {d off e' : Nat} {hi lo : UInt8} {labels : List Bytes} :
      buf[off]? = some hi → buf[off + 1]? = some lo → hi.toNat > ptrThreshold →
      EncName buf d ((hi.toNat * 256 + lo.toNat) &&& ptrMask) labels e' →
      EncName buf (d + 1) off labels (off + 2)

theorem EncName.off_lt {buf : Bytes} {d off e : Nat} {labels : List Bytes} (h : EncName buf d off labels e) :
    off < buf.length := by
  cases h with
  | root h _ => exact (List.getElem?_eq_some_iff.mp h).1
  | label h _ _ _ _ _ => exact (List.getElem?_eq_some_iff.mp h).1
  | ptr h _ _ _ => exact (List.getElem?_eq_some_iff.mp h).1

theorem EncName.end_le {buf : Bytes} {d off e : Nat} {labels : List Bytes} (h : EncName buf d off labels e) :
    e ≤ buf.length := by
  induction h with
  | root h _ => have := (List.getElem?_eq_some_iff.mp h).1; omega
  | label _ _ _ _ _ _ ih => exact ih
  | ptr _ h _ _ _ => have := (List.getElem?_eq_some_iff.mp h).1; omega

theorem maxLabel_le_ptrThreshold : maxLabelSz ≤ ptrThreshold := by decide
theorem nameBufSz_lt : nameBufSz < 65536 := by decide

/-- the stores of a call entered with `acc`: `acc`, the dotted labels, the last '.' overwritten by NUL -/
def storesOf (acc : Bytes) (labels : List Bytes) : Bytes :=
  if acc ++ dotted labels = [] then [0] else (acc ++ dotted labels).dropLast ++ [0]

theorem wireLen_eq_zero {labels : List Bytes} : wireLen labels = 0 ↔ labels = [] := by
  cases labels with
  | nil => simp [wireLen]
  | cons l r => simp [wireLen]

/-- The decoder (code since fd17dd6), entered with `acc` stored, on an encoded name that fits the buffer with its NUL:
returns 0, `*off` at the end of the linear part, the counter advanced by the wire length, and `acc` + the dotted name +
NUL stored — followed by nothing but further NULs (one for every pointer that led to the root label only). -/
theorem nameLoop_enc (buf : Bytes) {d off e : Nat} {labels : List Bytes} (henc : EncName buf d off labels e) :
    ∀ (fuel ns rdepth : Nat) (acc : Bytes) (rdl : Nat),
      rdepth + d ≤ maxRdepth + 1 → acc.length + wireLen labels < ns → ns ≤ 65536 → labels.length + d + 1 ≤ fuel →
      ∃ k, nameLoop true buf fuel off ns rdepth acc rdl =
        .ok ⟨e, rdl + wireLen labels, storesOf acc labels ++ List.replicate k 0⟩ := by
  induction henc with
  | @root off c hc hz =>
    intro fuel ns rdepth acc rdl _ hfit _ hfuel
    obtain ⟨fuel, rfl⟩ : ∃ f, fuel = f + 1 := ⟨fuel - 1, by omega⟩
    have hlt := (List.getElem?_eq_some_iff.mp hc).1
    have hnot : ¬ off ≥ buf.length := by omega
    refine ⟨0, ?_⟩
    rw [nameLoop]
    simp only [hnot, ↓reduceIte, hc, hz]
    have h1 : ¬ (0 > ptrThreshold) := by omega
    have h2 : ¬ (0 > maxLabelSz) := by omega
    simp only [h1, h2, ↓reduceIte, storesOf, dotted, wireLen, List.append_nil, Nat.add_zero, List.replicate_zero]
    unfold nameFinish
    simp only [wireLen, Nat.add_zero] at hfit
    by_cases ha : acc.length = 0
    · have : acc = [] := List.length_eq_zero_iff.mp ha
      subst this
      simp; omega
    · have hne : acc ≠ [] := by intro h; simp [h] at ha
      have h3 : acc.length - 1 < ns := by omega
      have h4 : acc.length ≤ ns := by omega
      simp [ha, h3, h4, hne]
  | @label d off e c l rest hc hlen h1 h63 htake hrest ih =>
    intro fuel ns rdepth acc rdl hdepth hfit hns hfuel
    obtain ⟨fuel, rfl⟩ : ∃ f, fuel = f + 1 := ⟨fuel - 1, by simp at hfuel; omega⟩
    have hlt := (List.getElem?_eq_some_iff.mp hc).1
    have hnext := hrest.off_lt
    have hnot : ¬ off ≥ buf.length := by omega
    have hle := maxLabel_le_ptrThreshold
    simp only [wireLen] at hfit
    obtain ⟨k, hk⟩ := ih fuel ns rdepth (acc ++ l ++ [46]) (rdl + l.length + 1) hdepth (by simp; omega) hns
      (by simp at hfuel; omega)
    refine ⟨k, ?_⟩
    rw [nameLoop]
    simp only [hnot, ↓reduceIte, hc, hlen]
    have g1 : ¬ (l.length > ptrThreshold) := by omega
    have g2 : ¬ (l.length > maxLabelSz) := by omega
    have g3 : ¬ (l.length = 0) := by omega
    have g4 : ¬ (l.length > ns - acc.length - 1) := by omega
    have g5 : ¬ (off + 1 + l.length ≥ buf.length) := by omega
    have g6 : ¬ (off + 1 + l.length > buf.length) := by omega
    have g7 : ¬ (acc.length + l.length + 1 > ns) := by omega
    simp only [g1, g2, g3, g4, g5, g6, g7, ↓reduceIte, htake]
    have g8 : (acc ++ l ++ [46]).length < ns := by simp; omega
    simp only [g8, ↓reduceIte]
    rw [hk]
    simp only [wireLen, storesOf, dotted, List.append_assoc]
    congr 2
    omega
  | @ptr d off e' hi lo labels hhi hlo hgt htgt ih =>
    intro fuel ns rdepth acc rdl hdepth hfit hns hfuel
    obtain ⟨fuel, rfl⟩ : ∃ f, fuel = f + 1 := ⟨fuel - 1, by omega⟩
    have hlt := (List.getElem?_eq_some_iff.mp hlo).1
    have htl := htgt.off_lt
    have hnot : ¬ off ≥ buf.length := by omega
    obtain ⟨k', hk'⟩ := ih fuel (ns - acc.length) (rdepth + 1) [] 0 (by omega) (by simp; omega) (by omega) (by omega)
    have g1 : ¬ (rdepth > maxRdepth) := by omega
    have g2 : ¬ (off + 2 > buf.length) := by omega
    have hs : rd16 buf off = some (hi.toNat * 256 + lo.toNat) := by simp [rd16, hhi, hlo]
    have g3 : ¬ ((hi.toNat * 256 + lo.toNat) &&& ptrMask ≥ buf.length) := by omega
    have g4 : ¬ (ns - acc.length = 0) := by omega
    have hmod : (0 + wireLen labels) % 65536 = wireLen labels := by
      rw [Nat.zero_add]; exact Nat.mod_eq_of_lt (by omega)
    by_cases hl : labels = []
    · subst hl
      by_cases ha : acc = []
      · subst ha
        refine ⟨k', ?_⟩
        rw [nameLoop]
        simp only [hnot, ↓reduceIte, hhi, hgt, g1, g2, hs, g3, g4, hk']
        simp [storesOf, dotted, wireLen]
      · have hal : acc.length ≠ 0 := by intro h; exact ha (List.length_eq_zero_iff.mp h)
        refine ⟨k' + 1, ?_⟩
        rw [nameLoop]
        simp only [hnot, ↓reduceIte, hhi, hgt, g1, g2, hs, g3, g4, hk']
        simp [storesOf, dotted, wireLen, hal, ha, List.replicate_succ]
    · have hw : wireLen labels ≠ 0 := fun h => hl (wireLen_eq_zero.mp h)
      have hne := dotted_ne_nil hl
      refine ⟨k', ?_⟩
      rw [nameLoop]
      simp only [hnot, ↓reduceIte, hhi, hgt, g1, g2, hs, g3, g4, hk', hmod, hw, and_false]
      have h1 : acc ++ dotted labels ≠ [] := by simp [hne]
      simp only [storesOf, List.nil_append, hne, h1, ↓reduceIte, Nat.zero_add]
      rw [List.dropLast_append_of_ne_nil hne]
      simp [List.append_assoc]

/-- bytes behind the first NUL do not belong to the C string -/
theorem cstr_append_zero (x rest : Bytes) : cstr (x ++ [0] ++ rest) = cstr (x ++ [0]) := by
  unfold cstr
  induction x with
  | nil => simp [List.takeWhile_cons]
  | cons a t ih =>
    by_cases ha : a = 0
    · simp [List.takeWhile_cons, ha]
    · simp only [List.cons_append, List.takeWhile_cons, ne_eq, ha, not_false_eq_true, decide_true, ↓reduceIte,
        List.cons.injEq, true_and]
      simpa using ih

theorem storesOf_nil (labels : List Bytes) : storesOf [] labels = nameOut labels := by
  simp [storesOf, nameOut]

/-- the text of a name as a C string: the labels joined by '.' (cut at a NUL, should a label contain one) -/
def nameText (labels : List Bytes) : Bytes := cstr (nameOut labels)

theorem cstr_nameOut_pad (labels : List Bytes) (k : Nat) :
    cstr (nameOut labels ++ List.replicate k 0) = nameText labels := by
  unfold nameText nameOut
  split
  · exact cstr_append_zero [] _
  · exact cstr_append_zero _ _

theorem ptrRootDropsDot_eq : ptrRootDropsDot = true := by decide

/-! ### fixed-layout fields -/

/-- the octets `b` lie in the datagram at offset `off` -/
def IsAt (buf : Bytes) (off : Nat) (b : Bytes) : Prop := (buf.drop off).take b.length = b

instance (buf : Bytes) (off : Nat) (b : Bytes) : Decidable (IsAt buf off b) := by unfold IsAt; infer_instance

theorem IsAt.getElem? {buf b : Bytes} {off : Nat} (h : IsAt buf off b) (i : Nat) (hi : i < b.length) :
    buf[off + i]? = b[i]? := by
  unfold IsAt at h
  conv => rhs; rw [← h]
  rw [List.getElem?_take]
  simp [hi]

theorem IsAt.end_le {buf b : Bytes} {off : Nat} (h : IsAt buf off b) : b = [] ∨ off + b.length ≤ buf.length := by
  unfold IsAt at h
  by_cases hb : b = []
  · exact Or.inl hb
  · right
    have hb1 : b.length ≠ 0 := fun h0 => hb (List.length_eq_zero_iff.mp h0)
    have := congrArg List.length h
    simp [List.length_take, List.length_drop] at this
    omega

theorem IsAt.append {buf a b : Bytes} {off : Nat} (h : IsAt buf off (a ++ b)) :
    IsAt buf off a ∧ IsAt buf (off + a.length) b := by
  unfold IsAt at *
  rw [List.length_append] at h
  constructor
  · have h1 := congrArg (List.take a.length) h
    rw [List.take_take, Nat.min_eq_left (Nat.le_add_right _ _), List.take_left' rfl] at h1
    exact h1
  · have h2 := congrArg (List.drop a.length) h
    rw [List.drop_take, List.drop_drop, List.drop_left' rfl] at h2
    simpa [Nat.add_comm] using h2

theorem u8_toNat (k : Nat) : (UInt8.ofNat k).toNat = k % 256 := by simp

theorem rd16_of_isAt {buf : Bytes} {off n : Nat} (h : IsAt buf off (be16 n)) (hn : n < 65536) : rd16 buf off = some n := by
  have h0 := h.getElem? 0 (by simp [be16])
  have h1 := h.getElem? 1 (by simp [be16])
  simp only [be16, Nat.add_zero, List.getElem?_cons_zero, List.getElem?_cons_succ] at h0 h1
  simp only [rd16, h0, h1, u8_toNat]
  congr 1
  omega

theorem rd32_of_isAt {buf : Bytes} {off n : Nat} (h : IsAt buf off (be32 n)) (hn : n < 4294967296) : rd32 buf off = some n := by
  obtain ⟨ha, hb⟩ := h.append
  have e1 := rd16_of_isAt ha (by omega)
  have e2 := rd16_of_isAt (n := n % 65536) (by simpa [be16] using hb) (by omega)
  simp only [rd32, e1, e2]
  congr 1
  omega

theorem length_le_wireLen (labels : List Bytes) : labels.length ≤ wireLen labels := by
  induction labels with
  | nil => simp [wireLen]
  | cons l r ih => simp [wireLen]; omega

/-- rfc1035NameUnpack from the top on an encoded name that fits the 256-byte buffer: success, `*off` behind the
linear part, the counter = the wire length of the labels, and the C string left in the buffer is the dotted name -/
theorem nameUnpack_enc {buf : Bytes} {d off e : Nat} {labels : List Bytes} (henc : EncName buf d off labels e)
    (hd : d ≤ maxRdepth + 1) (hfit : wireLen labels < nameBufSz) :
    ∃ out, nameUnpack buf off nameBufSz = .ok ⟨e, wireLen labels, out⟩ ∧ cstr out = nameText labels := by
  unfold nameUnpack nameUnpackV
  rw [ptrRootDropsDot_eq]
  have hpos := nameBufSz_pos
  have h16 := nameBufSz_lt
  have : ¬ nameBufSz = 0 := by omega
  simp only [this, ↓reduceIte]
  have hl := length_le_wireLen labels
  obtain ⟨k, hk⟩ := nameLoop_enc buf henc (nameFuel nameBufSz) nameBufSz 0 [] 0 (by omega) (by simpa using hfit)
    (by omega) (by simp [nameFuel]; omega)
  refine ⟨_, by rw [hk, Nat.zero_add], ?_⟩
  rw [storesOf_nil]
  exact cstr_nameOut_pad labels k

/-! ### records -/

/-- `EncRR buf off rr off'`: at `off` lies a resource record — owner name (possibly compressed, at most
`maxRdepth + 1` pointer hops, shorter than the name buffer), TYPE, CLASS, TTL, RDLENGTH, RDATA — ending at `off'`,
and `rr` is what a faithful decoder reports for it: the dotted owner name; for PTR the dotted target name (which lies
inside the RDATA, possibly compressed) and its length; for every other type (A, AAAA, CNAME, ...) the RDATA octets. -/
inductive EncRR (buf : Bytes) : Nat → RR → Nat → Prop
  | raw {off d e : Nat} {labels : List Bytes} {ty cl ttl : Nat} {rdata : Bytes} :
      EncName buf d off labels e → d ≤ maxRdepth + 1 → wireLen labels < nameBufSz →
      ty ≠ typePTR → ty < 65536 → cl < 65536 → ttl < 4294967296 → rdata.length < 65536 →
      IsAt buf e (be16 ty ++ be16 cl ++ be32 ttl ++ be16 rdata.length ++ rdata) →
      EncRR buf off ⟨nameText labels, ty, cl, ttl, rdata.length, rdata⟩ (e + 10 + rdata.length)
  | ptr {off d e d' e' : Nat} {labels target : List Bytes} {cl ttl rdlen : Nat} :
      EncName buf d off labels e → d ≤ maxRdepth + 1 → wireLen labels < nameBufSz →
      cl < 65536 → ttl < 4294967296 → rdlen < 65536 →
      IsAt buf e (be16 typePTR ++ be16 cl ++ be32 ttl ++ be16 rdlen) →
      EncName buf d' (e + 10) target e' → d' ≤ maxRdepth + 1 → wireLen target < nameBufSz →
      e' ≤ e + 10 + rdlen → e + 10 + rdlen ≤ buf.length →
      EncRR buf off ⟨nameText labels, typePTR, cl, ttl, wireLen target, nameText target⟩ (e + 10 + rdlen)

theorem typePTR_lt : typePTR < 65536 := by decide

theorem rrUnpack_enc {buf : Bytes} {off off' : Nat} {rr : RR} (h : EncRR buf off rr off') :
    rrUnpack buf off = .ok (rr, off') := by
  have e10 := rrFixedSz_eq
  cases h with
  | @raw d e labels ty cl ttl rdata henc hd hfit hty hty16 hcl httl hlen hat =>
    obtain ⟨h1, hat⟩ := hat.append
    obtain ⟨h1, h4⟩ := h1.append
    obtain ⟨h1, h3⟩ := h1.append
    obtain ⟨h1, h2⟩ := h1.append
    simp only [be16, be32, List.length_cons, List.length_nil, List.length_append] at h2 h3 h4 hat
    have r1 := rd16_of_isAt h1 hty16
    have r2 := rd16_of_isAt (by simpa [be16] using h2) hcl
    have r3 := rd32_of_isAt (n := ttl) (by simpa [be16, be32] using h3) httl
    have r4 := rd16_of_isAt (by simpa [be16] using h4) hlen
    have hend : e + 10 + rdata.length ≤ buf.length := by
      rcases h4.end_le with hb | hb
      · simp at hb
      · rcases hat.end_le with hc | hc
        · simp at hb; simp [hc]; omega
        · omega
    obtain ⟨out, hn, hc⟩ := nameUnpack_enc henc hd hfit
    unfold rrUnpack
    rw [hn]
    have g1 : ¬ (e + rrFixedSz > buf.length) := by omega
    have g2 : ¬ (e + 10 + rdata.length > buf.length) := by omega
    simp only [g1, g2, hend, ↓reduceIte, r1, r2, r3, r4, hty, hc]
    have : List.take rdata.length (List.drop (e + 10) buf) = rdata := by
      have := hat
      unfold IsAt at this
      simpa [Nat.add_assoc] using this
    rw [this]
  | @ptr d e d' e' labels target cl ttl rdlen henc hd hfit hcl httl hlen hat htgt hd' hfit' he' hend =>
    obtain ⟨h1, h4⟩ := hat.append
    obtain ⟨h1, h3⟩ := h1.append
    obtain ⟨h1, h2⟩ := h1.append
    simp only [be16, be32, List.length_cons, List.length_nil, List.length_append] at h2 h3 h4
    have r1 := rd16_of_isAt h1 typePTR_lt
    have r2 := rd16_of_isAt (by simpa [be16] using h2) hcl
    have r3 := rd32_of_isAt (n := ttl) (by simpa [be16, be32] using h3) httl
    have r4 := rd16_of_isAt (by simpa [be16] using h4) hlen
    obtain ⟨out, hn, hc⟩ := nameUnpack_enc henc hd hfit
    obtain ⟨out', hn', hc'⟩ := nameUnpack_enc htgt hd' hfit'
    unfold rrUnpack
    rw [hn]
    have g1 : ¬ (e + rrFixedSz > buf.length) := by omega
    have g2 : ¬ (e + 10 + rdlen > buf.length) := by omega
    simp only [g1, g2, ↓reduceIte, r1, r2, r3, r4]
    rw [hn']
    have g3 : ¬ (e' > e + 10 + rdlen) := by omega
    simp only [g3, hend, ↓reduceIte, hc, hc']
    have := nameBufSz_lt
    rw [Nat.mod_eq_of_lt (by omega)]

/-- consecutive records -/
inductive EncRRs (buf : Bytes) : Nat → List RR → Prop
  | nil {off : Nat} : EncRRs buf off []
  | cons {off off' : Nat} {rr : RR} {rest : List RR} : EncRR buf off rr off' → EncRRs buf off' rest → EncRRs buf off (rr :: rest)

theorem EncRR.off_lt {buf : Bytes} {off off' : Nat} {rr : RR} (h : EncRR buf off rr off') : off < buf.length := by
  cases h with
  | raw h => exact h.off_lt
  | ptr h => exact h.off_lt

theorem rrLoop_enc {buf : Bytes} {off : Nat} {rrs : List RR} (h : EncRRs buf off rrs) :
    rrLoop buf rrs.length off = .ok rrs := by
  induction h with
  | nil => simp [rrLoop]
  | @cons off off' rr rest h1 _ ih =>
    have := h1.off_lt
    have hnot : ¬ off ≥ buf.length := by omega
    simp only [List.length_cons]
    rw [rrLoop]
    simp only [hnot, ↓reduceIte, rrUnpack_enc h1, ih]

/-! ### messages -/

/-- the twelve header octets -/
def headerBytes (h : Header) : Bytes :=
  be16 h.id ++ be16 (headerFlags h) ++ be16 h.qdcount ++ be16 h.ancount ++ be16 h.nscount ++ be16 h.arcount

theorem headerUnpack_enc {buf : Bytes} {h : Header} (hat : IsAt buf 0 (headerBytes h)) (hwf : h.wf) :
    headerUnpack buf = .ok h := by
  obtain ⟨w1, w2, w3, w4, w5, w6, w7, w8, w9, w10, w11, w12⟩ := hwf
  have hlen : 12 ≤ buf.length := by
    rcases hat.end_le with hb | hb
    · simp [headerBytes, be16] at hb
    · simp [headerBytes, be16] at hb; omega
  unfold headerBytes at hat
  obtain ⟨h1, h6⟩ := hat.append
  obtain ⟨h1, h5⟩ := h1.append
  obtain ⟨h1, h4⟩ := h1.append
  obtain ⟨h1, h3⟩ := h1.append
  obtain ⟨h1, h2⟩ := h1.append
  simp only [be16, List.length_cons, List.length_nil, List.length_append] at h2 h3 h4 h5 h6
  have hfl : headerFlags h < 65536 := by unfold headerFlags; omega
  have r1 := rd16_of_isAt h1 w1
  have r2 := rd16_of_isAt (by simpa [be16] using h2) hfl
  have r3 := rd16_of_isAt (by simpa [be16] using h3) w9
  have r4 := rd16_of_isAt (by simpa [be16] using h4) w10
  have r5 := rd16_of_isAt (by simpa [be16] using h5) w11
  have r6 := rd16_of_isAt (by simpa [be16] using h6) w12
  have e := headerSz_eq
  unfold headerUnpack
  have g : ¬ (buf.length < headerSz) := by omega
  simp only [g, ↓reduceIte, r1, r2, r3, r4, r5, r6]
  have f1 : headerFlags h / 32768 % 2 = h.qr := by unfold headerFlags; omega
  have f2 : headerFlags h / 2048 % 16 = h.opcode := by unfold headerFlags; omega
  have f3 : headerFlags h / 1024 % 2 = h.aa := by unfold headerFlags; omega
  have f4 : headerFlags h / 512 % 2 = h.tc := by unfold headerFlags; omega
  have f5 : headerFlags h / 256 % 2 = h.rd := by unfold headerFlags; omega
  have f6 : headerFlags h / 128 % 2 = h.ra := by unfold headerFlags; omega
  have f7 : headerFlags h % 16 = h.rcode := by unfold headerFlags; omega
  simp only [f1, f2, f3, f4, f5, f6, f7]

/-- `EncMsg buf m`: the datagram `buf` carries the message `m` — the header at 0, one question at 12 (name possibly
compressed, QTYPE, QCLASS), then `ANCOUNT = m.answers.length` answer records; whatever follows (authority and
additional sections) is not constrained. `m.query.name` and the names in the records are the dotted texts (`nameText`). -/
structure EncMsg (buf : Bytes) (m : Msg) : Prop where
  hwf : m.hdr.wf
  hdr : IsAt buf 0 (headerBytes m.hdr)
  qd : m.hdr.qdcount = 1
  an : m.hdr.ancount = m.answers.length
  question : ∃ d e labels, EncName buf d 12 labels e ∧ d ≤ maxRdepth + 1 ∧ wireLen labels < nameBufSz ∧
    m.query.name = nameText labels ∧ m.query.qtype < 65536 ∧ m.query.qclass < 65536 ∧
    IsAt buf e (be16 m.query.qtype ++ be16 m.query.qclass) ∧ EncRRs buf (e + 4) m.answers

theorem messageUnpack_enc {buf : Bytes} {m : Msg} (h : EncMsg buf m) :
    messageUnpack buf =
      if m.hdr.rcode ≠ 0 then .ret (-(m.hdr.rcode : Int)) (some { m with answers := [] })
      else .ret (m.answers.length : Int) (some m) := by
  obtain ⟨hwf, hhdr, hqd, han, d, e, labels, henc, hd, hfit, hname, hqt, hqc, hat, hrrs⟩ := h
  obtain ⟨a1, a2⟩ := hat.append
  simp only [be16, List.length_cons, List.length_nil] at a2
  have r1 := rd16_of_isAt a1 hqt
  have r2 := rd16_of_isAt (by simpa [be16] using a2) hqc
  have hend : e + 4 ≤ buf.length := by
    rcases a2.end_le with hb | hb
    · simp at hb
    · simp at hb; omega
  have e4 := qFixedSz_eq
  have hq : queryUnpack buf 12 = .ok (m.query, e + 4) := by
    obtain ⟨out, hn, hc⟩ := nameUnpack_enc henc hd hfit
    unfold queryUnpack
    rw [hn]
    have g : ¬ (e + qFixedSz > buf.length) := by omega
    simp only [g, ↓reduceIte, r1, r2, hc]
    rw [← hname]
  unfold messageUnpack
  rw [headerUnpack_enc hhdr hwf]
  have g1 : ¬ (m.hdr.qdcount ≠ 1) := by simp [hqd]
  simp only [g1, ↓reduceIte, hq]
  by_cases hrc : m.hdr.rcode ≠ 0
  · simp only [if_pos hrc]
  · simp only [if_neg hrc]
    by_cases han0 : m.hdr.ancount = 0
    · have hnil : m.answers = [] := List.length_eq_zero_iff.mp (by omega)
      simp only [if_pos han0, hnil, List.length_nil]
      cases m
      simp_all
    · simp only [if_neg han0]
      rw [han, rrLoop_enc hrrs]
      cases hm : m.answers with
      | nil => rw [hm] at han; simp at han; omega
      | cons rr rest =>
        simp only [List.length_cons]
        cases m
        simp_all

end SquidModel.Dns
