/-
The text a name buffer holds determines the labels: splitting the C string at the dots gives back the labels that
were encoded, provided no label contains '.' or NUL (host names never do).
-/
import SquidModel.Dns.Encode

namespace SquidModel.Dns

theorem splitDots_ne_nil (s : Bytes) : splitDots s ≠ [] := by
  induction s with
  | nil => simp [splitDots]
  | cons c r ih =>
    rw [splitDots]
    split
    · simp
    · split <;> simp

theorem splitDots_label (l : Bytes) (hl : ∀ c ∈ l, c ≠ 46) (rest : Bytes) :
    splitDots (l ++ 46 :: rest) = l :: splitDots rest := by
  induction l with
  | nil => simp [splitDots]
  | cons c l ih =>
    have hc : c ≠ 46 := hl c (by simp)
    have := ih (fun x hx => hl x (by simp [hx]))
    simp only [List.cons_append]
    rw [splitDots]
    simp only [hc, ↓reduceIte, this]

theorem splitDots_append_dot (x : Bytes) : splitDots (x ++ [46]) = splitDots x ++ [[]] := by
  induction x with
  | nil => simp [splitDots]
  | cons c r ih =>
    simp only [List.cons_append]
    rw [splitDots, splitDots]
    by_cases hc : c = 46
    · simp [hc, ih]
    · simp only [hc, ↓reduceIte, ih]
      cases hs : splitDots r with
      | nil => exact absurd hs (splitDots_ne_nil r)
      | cons h t => simp

theorem tokens_append_dot (x : Bytes) : tokens (x ++ [46]) = tokens x := by
  simp [tokens, splitDots_append_dot]

theorem tokens_dotted (labels : List Bytes) (h : ∀ l ∈ labels, l ≠ [] ∧ ∀ c ∈ l, c ≠ 46) :
    tokens (dotted labels) = labels := by
  induction labels with
  | nil => simp [dotted, tokens, splitDots]
  | cons l r ih =>
    obtain ⟨hne, hdot⟩ := h l (by simp)
    have := ih (fun x hx => h x (by simp [hx]))
    simp only [dotted, List.append_assoc, List.singleton_append]
    unfold tokens at *
    rw [splitDots_label l hdot, List.filter_cons]
    simp only [hne, ne_eq, not_false_eq_true, decide_true, ↓reduceIte, List.cons.injEq, true_and]
    simpa using this

theorem dotted_last (labels : List Bytes) (h : labels ≠ []) : ∃ x, dotted labels = x ++ [46] := by
  induction labels with
  | nil => exact absurd rfl h
  | cons l r ih =>
    by_cases hr : r = []
    · subst hr; exact ⟨l, by simp [dotted]⟩
    · obtain ⟨x, hx⟩ := ih hr
      exact ⟨l ++ [46] ++ x, by simp [dotted, hx]⟩

theorem dotted_no_nul (labels : List Bytes) (h : ∀ l ∈ labels, ∀ c ∈ l, c ≠ 0) : ∀ c ∈ dotted labels, c ≠ 0 := by
  induction labels with
  | nil => simp [dotted]
  | cons l r ih =>
    intro c hc
    simp only [dotted, List.mem_append, List.mem_singleton] at hc
    rcases hc with (hc | hc) | hc
    · exact h l (by simp) c hc
    · subst hc; decide
    · exact ih (fun x hx => h x (by simp [hx])) c hc

theorem takeWhile_until_nul (x : Bytes) (h : ∀ c ∈ x, c ≠ 0) : (x ++ [0]).takeWhile (· ≠ 0) = x := by
  induction x with
  | nil => simp
  | cons c r ih =>
    have hc : c ≠ 0 := h c (by simp)
    have := ih (fun y hy => h y (by simp [hy]))
    simp only [List.cons_append, List.takeWhile_cons, hc, ne_eq, not_false_eq_true, decide_true, ↓reduceIte,
      List.cons.injEq, true_and]
    simpa using this

/-- splitting the decoded C string at the dots gives the encoded labels back -/
theorem tokens_cstr_nameOut (labels : List Bytes)
    (h : ∀ l ∈ labels, l ≠ [] ∧ ∀ c ∈ l, c ≠ 46 ∧ c ≠ 0) :
    tokens (cstr (nameOut labels)) = labels := by
  by_cases hl : labels = []
  · subst hl; decide
  · obtain ⟨x, hx⟩ := dotted_last labels hl
    have hne := dotted_ne_nil hl
    have hnn := dotted_no_nul labels (fun l hl c hc => ((h l hl).2 c hc).2)
    have hxn : ∀ c ∈ x, c ≠ 0 := fun c hc => hnn c (by rw [hx]; simp [hc])
    unfold nameOut cstr
    simp only [hne, ↓reduceIte]
    rw [hx, List.dropLast_concat, takeWhile_until_nul x hxn, ← tokens_append_dot, ← hx]
    exact tokens_dotted labels (fun l hl => ⟨(h l hl).1, fun c hc => ((h l hl).2 c hc).1⟩)

/-- a host name as text: the labels joined by '.' (no trailing dot) -/
def hostText (labels : List Bytes) : Bytes := (dotted labels).dropLast

/-- strtok on the host text finds the labels -/
theorem tokens_hostText (labels : List Bytes) (h : ∀ l ∈ labels, l ≠ [] ∧ ∀ c ∈ l, c ≠ 46) :
    tokens (hostText labels) = labels := by
  by_cases hl : labels = []
  · subst hl; decide
  · obtain ⟨x, hx⟩ := dotted_last labels hl
    unfold hostText
    rw [hx, List.dropLast_concat, ← tokens_append_dot, ← hx]
    exact tokens_dotted labels h

/-- a trailing dot (fully qualified form) makes no difference -/
theorem tokens_hostText_dot (labels : List Bytes) (h : ∀ l ∈ labels, l ≠ [] ∧ ∀ c ∈ l, c ≠ 46) :
    tokens (hostText labels ++ [46]) = labels := by
  rw [tokens_append_dot]; exact tokens_hostText labels h

/-- for labels without NUL the decoded C string is the labels joined by '.' -/
theorem nameText_eq_hostText (labels : List Bytes) (h : ∀ l ∈ labels, ∀ c ∈ l, c ≠ 0) :
    nameText labels = hostText labels := by
  by_cases hl : labels = []
  · subst hl; decide
  · obtain ⟨x, hx⟩ := dotted_last labels hl
    have hne := dotted_ne_nil hl
    have hnn := dotted_no_nul labels h
    have hxn : ∀ c ∈ x, c ≠ 0 := fun c hc => hnn c (by rw [hx]; simp [hc])
    unfold nameText nameOut cstr hostText
    simp only [hne, ↓reduceIte]
    rw [hx, List.dropLast_concat, takeWhile_until_nul x hxn]

end SquidModel.Dns
