/-
DNS query packing: model of
  src/dns/rfc1035.cc  rfc1035HeaderPack, rfc1035LabelPack, rfc1035NamePack, rfc1035QuestionPack, rfc1035RRPack,
                      rfc1035BuildAQuery, rfc1035BuildPTRQuery
  src/dns/rfc2671.cc  rfc2671RROptPack
  src/dns/rfc3596.cc  rfc3596BuildHostQuery (+ the A/AAAA/PTR4/PTR6 wrappers)
The destination is a buffer of `sz` octets; the model returns the octets stored, `R.abort` when an assert() fails and
`R.oob` when a store would land outside the buffer (rfc1035QuestionPack stores the type/class before it asserts).
Core Lean only.
-/
import SquidModel.Dns.Unpack

namespace SquidModel.Dns
open SquidModel.Gen.DnsLimits

/-- `s = htons(v); memcpy(buf + off, &s, 2)` for an `unsigned short v` -/
def be16 (n : Nat) : Bytes := [UInt8.ofNat (n / 256 % 256), UInt8.ofNat (n % 256)]
/-- `i = htonl(v); memcpy(buf + off, &i, 4)` -/
def be32 (n : Nat) : Bytes := be16 (n / 65536) ++ be16 (n % 65536)

/-- the value ranges of the C members of rfc1035_message (`unsigned short`, bit-fields of width 1 and 4) -/
def Header.wf (h : Header) : Prop :=
  h.id < 65536 ∧ h.qr < 2 ∧ h.opcode < 16 ∧ h.aa < 2 ∧ h.tc < 2 ∧ h.rd < 2 ∧ h.ra < 2 ∧ h.rcode < 16 ∧
  h.qdcount < 65536 ∧ h.ancount < 65536 ∧ h.nscount < 65536 ∧ h.arcount < 65536

/-- `t |= qr << 15; t |= opcode << 11; ...; t |= rcode` — the fields occupy disjoint bits, so `|` is `+` -/
def headerFlags (h : Header) : Nat :=
  h.qr * 32768 + h.opcode * 2048 + h.aa * 1024 + h.tc * 512 + h.rd * 256 + h.ra * 128 + h.rcode

def headerPack (sz : Nat) (h : Header) : R Bytes :=
  if sz < 12 then .abort      -- assert(sz >= 12)
  else .ok (be16 h.id ++ be16 (headerFlags h) ++ be16 h.qdcount ++ be16 h.ancount ++ be16 h.nscount ++ be16 h.arcount)

/-- the pieces of a C string between '.' octets -/
def splitDots : Bytes → List Bytes
  | [] => [[]]
  | c :: r =>
    if c = 46 then [] :: splitDots r
    else
      match splitDots r with
      | h :: t => (c :: h) :: t
      | [] => [[c]]

/-- `for (t = strtok(copy, "."); t; t = strtok(nullptr, "."))`: the non-empty pieces -/
def tokens (name : Bytes) : List Bytes := (splitDots name).filter (· ≠ [])

/-- the loop of rfc1035NamePack over rfc1035LabelPack: `acc` = the `off` octets stored so far.
A label longer than RFC1035_MAXLABELSZ is silently cut; `assert(sz >= len + 1)` sees `sz - off`. -/
def packLabels (sz : Nat) : List Bytes → Bytes → R Bytes
  | [], acc => .ok acc
  | t :: ts, acc =>
    let len := if t.length > maxLabelPack then maxLabelPack else t.length
    if sz - acc.length < len + 1 then .abort
    else packLabels sz ts (acc ++ [UInt8.ofNat len] ++ t.take len)

def namePack (sz : Nat) (name : Bytes) : R Bytes :=
  match packLabels sz (tokens name) [] with
  | .ok b => if b.length < sz then .ok (b ++ [0]) else .abort     -- assert(off < sz); buf[off] = 0
  | .err => .err
  | .oob => .oob
  | .abort => .abort
  | .fuel => .fuel

def questionPack (sz : Nat) (name : Bytes) (type cls : Nat) : R Bytes :=
  match namePack sz name with
  | .ok b =>
    if b.length + 4 > sz then .oob      -- two 16-bit stores, then assert(off <= sz)
    else .ok (b ++ be16 type ++ be16 cls)
  | .err => .err
  | .oob => .oob
  | .abort => .abort
  | .fuel => .fuel

/-- rfc1035RRPack; `rdata = none` is a null `RR->rdata`. The flag of the result says that memcpy was called with a null
source pointer (undefined behaviour, even for a zero length). `.ok ([], _)` is "return 0" (the record does not fit).
`guard` selects the copy of the RDATA: `true` — `if (RR->rdlength) memcpy(..)` (the code since /repo 17d6e84);
`false` — the unconditional `memcpy(buf + off, RR->rdata, RR->rdlength)` before. -/
def rrPackV (guard : Bool) (sz : Nat) (name : Bytes) (type cls ttl rdlength : Nat) (rdata : Option Bytes) : R (Bytes × Bool) :=
  match namePack sz name with
  | .ok b =>
    if b.length + 10 + rdlength > sz then .ok ([], false)
    else .ok (b ++ be16 type ++ be16 cls ++ be32 ttl ++ be16 rdlength ++ ((rdata.getD []).take rdlength),
              rdata.isNone && (!guard || rdlength != 0))
  | .err => .err
  | .oob => .oob
  | .abort => .abort
  | .fuel => .fuel

/-- rfc2671RROptPack: name ".", type OPT, class = min(edns_sz, SQUID_UDP_SO_RCVBUF - 1), ttl 0, rdata = nullptr, rdlength 0 -/
def optPackV (guard : Bool) (sz : Nat) (edns : Nat) : R (Bytes × Bool) :=
  rrPackV guard sz [46] typeOPT ((if edns < udpRcvBuf - 1 then edns else udpRcvBuf - 1) % 65536) 0 0 none

/-- the code of the staged tree (`Gen.DnsLimits.rrPackGuardsNull`) -/
def optPack (sz : Nat) (edns : Nat) : R (Bytes × Bool) := optPackV rrPackGuardsNull sz edns

/-- what a query builder leaves behind -/
structure Built where
  pkt : Bytes
  /-- memcpy was called with a null pointer on the way -/
  ub : Bool
  /-- the `rfc1035_query` filled in for the caller: xstrncpy(query->name, hostname, sizeof(query->name)) -/
  qname : Bytes
  qtype : Nat
  qclass : Nat
  deriving Repr, DecidableEq

/-- the header every query builder fills in: `memset(&h, 0, ..); h.id = qid; h.rd = 1; h.qdcount = 1; h.arcount = (edns_sz > 0 ? 1 : 0)` -/
def queryHeader (qid ar : Nat) : Header :=
  { id := qid % 65536, qr := 0, opcode := 0, aa := 0, tc := 0, rd := 1, ra := 0, rcode := 0,
    qdcount := 1, ancount := 0, nscount := 0, arcount := ar }

/-- rfc1035BuildAQuery / rfc1035BuildPTRQuery / rfc3596BuildHostQuery: header (id, RD, one question, ARCOUNT = 1 with
EDNS), question, optional OPT record. `edns` = `edns_sz` resp. `Config.dns.packet_max`. -/
def buildQuery (sz : Nat) (host : Bytes) (qid qtype : Nat) (edns : Int) : R Built :=
  let qt := qtype % 65536
  match headerPack sz (queryHeader qid (if edns > 0 then 1 else 0)) with
  | .ok hb =>
    match questionPack (sz - hb.length) host qt classIN with
    | .ok qb =>
      if edns > 0 then
        match optPack (sz - hb.length - qb.length) edns.toNat with
        | .ok (ob, ub) =>
          if hb.length + qb.length + ob.length ≤ sz then .ok ⟨hb ++ qb ++ ob, ub, host.take (nameBufSz - 1), qt, classIN⟩
          else .abort
        | .err => .err
        | .oob => .oob
        | .abort => .abort
        | .fuel => .fuel
      else if hb.length + qb.length ≤ sz then .ok ⟨hb ++ qb, false, host.take (nameBufSz - 1), qt, classIN⟩
      else .abort
    | .err => .err
    | .oob => .oob
    | .abort => .abort
    | .fuel => .fuel
  | .err => .err
  | .oob => .oob
  | .abort => .abort
  | .fuel => .fuel

/-- decimal text of `%u` -/
def decText (n : Nat) : Bytes := (Nat.toDigits 10 n).map (fun c => UInt8.ofNat c.toNat)
/-- `%1x` of a nibble -/
def hexText (n : Nat) : Bytes := [UInt8.ofNat (Bytes.hexDigit (n % 16)).toNat]

/-- `snprintf(rev, .., "%u.%u.%u.%u.in-addr.arpa.", i & 255, (i >> 8) & 255, (i >> 16) & 255, (i >> 24) & 255)` with
`i = ntohl(addr.s_addr)`; `a b c d` are the address octets in network order -/
def rev4 (a b c d : Nat) : Bytes :=
  decText d ++ [46] ++ decText c ++ [46] ++ decText b ++ [46] ++ decText a ++
    [46, 105, 110, 45, 97, 100, 100, 114, 46, 97, 114, 112, 97, 46]

/-- the loop of rfc3596BuildPTRQuery6: for i = 15 .. 0: "%1x.%1x." of the low then the high nibble; then "ip6.arpa." -/
def rev6 (addr : Bytes) : Bytes :=
  (addr.reverse.flatMap fun x => hexText (x.toNat % 16) ++ [46] ++ hexText (x.toNat / 16) ++ [46]) ++
    [105, 112, 54, 46, 97, 114, 112, 97, 46]

end SquidModel.Dns
