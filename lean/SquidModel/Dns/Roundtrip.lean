/-
Packing then unpacking: the header, and a whole query built by rfc1035BuildAQuery / rfc3596BuildHostQuery.
-/
import SquidModel.Dns.Encode

namespace SquidModel.Dns
open SquidModel.Gen.DnsLimits

theorem isAt_self (b : Bytes) : IsAt b 0 b := by simp [IsAt]

theorem isAt_mid (a b c : Bytes) : IsAt (a ++ b ++ c) a.length b := by
  simp [IsAt, List.append_assoc]

theorem isAt_prefix (a c : Bytes) : IsAt (a ++ c) 0 a := by simp [IsAt]

/-- rfc1035HeaderUnpack undoes rfc1035HeaderPack for every header whose members are in their C ranges -/
theorem header_pack_unpack (h : Header) (hwf : h.wf) (sz : Nat) (hsz : 12 ≤ sz) :
    ∃ b, headerPack sz h = .ok b ∧ b.length = 12 ∧ headerUnpack b = .ok h := by
  have : ¬ sz < 12 := by omega
  refine ⟨headerBytes h, by simp [headerPack, this, headerBytes], by simp [headerBytes, be16], ?_⟩
  exact headerUnpack_enc (isAt_self _) hwf

/-- the labels on the wire, uncompressed, without the root label -/
def wire : List Bytes → Bytes
  | [] => []
  | l :: r => UInt8.ofNat l.length :: l ++ wire r

theorem wire_length (labels : List Bytes) : (wire labels).length = wireLen labels := by
  induction labels with
  | nil => rfl
  | cons l r ih => simp [wire, wireLen, ih]; omega

theorem packLabels_ok (sz : Nat) : ∀ (labels : List Bytes) (acc : Bytes),
    (∀ l ∈ labels, l.length ≤ maxLabelPack) → acc.length + wireLen labels ≤ sz →
    packLabels sz labels acc = .ok (acc ++ wire labels) := by
  intro labels
  induction labels with
  | nil => intro acc _ _; simp [packLabels, wire]
  | cons l r ih =>
    intro acc hall hsz
    have hl : l.length ≤ maxLabelPack := hall l (by simp)
    simp only [wireLen] at hsz
    rw [packLabels]
    have g1 : ¬ (l.length > maxLabelPack) := by omega
    simp only [g1, ↓reduceIte]
    have g2 : ¬ (sz - acc.length < l.length + 1) := by omega
    simp only [g2, ↓reduceIte, List.take_length]
    rw [ih _ (fun x hx => hall x (by simp [hx])) (by simp; omega)]
    simp [wire]

/-- an uncompressed name in the middle of a buffer is an encoding in the sense of `EncName` (no pointer) -/
theorem encName_wire : ∀ (labels : List Bytes) (pre post : Bytes),
    (∀ l ∈ labels, 1 ≤ l.length ∧ l.length ≤ maxLabelSz) →
    EncName (pre ++ (wire labels ++ [0]) ++ post) 0 pre.length labels (pre.length + wireLen labels + 1) := by
  intro labels
  induction labels with
  | nil =>
    intro pre post _
    simp only [wire, wireLen, List.nil_append, Nat.add_zero]
    exact EncName.root (c := 0) (by simp) rfl
  | cons l r ih =>
    intro pre post hall
    obtain ⟨h1, h63⟩ := hall l (by simp)
    have h256 : l.length < 256 := by have : maxLabelSz < 256 := by decide
                                     omega
    have key := ih (pre ++ (UInt8.ofNat l.length :: l)) post (fun x hx => hall x (by simp [hx]))
    have hbuf : pre ++ (wire (l :: r) ++ [0]) ++ post = pre ++ (UInt8.ofNat l.length :: l) ++ (wire r ++ [0]) ++ post := by
      simp [wire, List.append_assoc]
    rw [hbuf]
    have hoff : (pre ++ (UInt8.ofNat l.length :: l)).length = pre.length + 1 + l.length := by simp; omega
    rw [hoff] at key
    have hend : pre.length + 1 + l.length + wireLen r + 1 = pre.length + wireLen (l :: r) + 1 := by simp [wireLen]; omega
    rw [hend] at key
    refine EncName.label (c := UInt8.ofNat l.length) ?_ ?_ h1 h63 ?_ key
    · simp [List.append_assoc]
    · rw [u8_toNat]; omega
    · simp [List.append_assoc, List.drop_append, List.take_append]

theorem classIN_lt : classIN < 65536 := by decide

theorem queryHeader_length (qid ar : Nat) : (headerBytes (queryHeader qid ar)).length = 12 := by
  simp [headerBytes, be16]

/-- header + uncompressed question (+ anything behind it) decodes to that header and question, result 0 -/
theorem query_packet_decodes (labels : List Bytes) (qid ar qt : Nat) (tail : Bytes)
    (hlab : ∀ l ∈ labels, 1 ≤ l.length ∧ l.length ≤ maxLabelSz) (hfit : wireLen labels < nameBufSz)
    (har : ar < 65536) (hqt : qt < 65536) :
    messageUnpack (headerBytes (queryHeader qid ar) ++ (wire labels ++ [0]) ++ (be16 qt ++ be16 classIN) ++ tail) =
      .ret 0 (some ⟨queryHeader qid ar, ⟨nameText labels, qt, classIN⟩, []⟩) := by
  have hhl := queryHeader_length qid ar
  have henc := encName_wire labels (headerBytes (queryHeader qid ar)) ((be16 qt ++ be16 classIN) ++ tail) hlab
  rw [hhl] at henc
  have hm : EncMsg (headerBytes (queryHeader qid ar) ++ (wire labels ++ [0]) ++ (be16 qt ++ be16 classIN) ++ tail)
      ⟨queryHeader qid ar, ⟨nameText labels, qt, classIN⟩, []⟩ := by
    refine ⟨?_, ?_, rfl, rfl, 0, 12 + wireLen labels + 1, labels, ?_, by omega, hfit, rfl,
            hqt, classIN_lt, ?_, EncRRs.nil⟩
    · simp only [Header.wf, queryHeader]
      have := Nat.mod_lt qid (show 65536 > 0 by decide)
      omega
    · simp only [List.append_assoc]; exact isAt_prefix _ _
    · simpa [List.append_assoc] using henc
    · have := isAt_mid (headerBytes (queryHeader qid ar) ++ (wire labels ++ [0])) (be16 qt ++ be16 classIN) tail
      have hl : (headerBytes (queryHeader qid ar) ++ (wire labels ++ [0])).length = 12 + wireLen labels + 1 := by
        simp [hhl, wire_length]; omega
      rw [hl] at this
      exact this
  have := messageUnpack_enc hm
  simpa [queryHeader] using this

/-- what rfc2671RROptPack appends: root name, TYPE OPT, CLASS = advertised size, TTL 0, RDLENGTH 0 -/
def optBytes (edns : Nat) : Bytes :=
  [0] ++ be16 typeOPT ++ be16 ((if edns < udpRcvBuf - 1 then edns else udpRcvBuf - 1) % 65536) ++ be32 0 ++ be16 0

theorem rrPackGuardsNull_eq : rrPackGuardsNull = true := by decide

/-- the OPT record is packed; memcpy sees a null source exactly in the unguarded (pre-17d6e84) version -/
theorem optPackV_ok (guard : Bool) (sz edns : Nat) (hsz : 11 ≤ sz) :
    optPackV guard sz edns = .ok (optBytes edns, !guard) := by
  have ht : tokens [46] = [] := by decide
  unfold optPackV rrPackV namePack
  rw [ht]
  have g1 : ([] : Bytes).length < sz := by simp; omega
  have g2 : ¬ (([] ++ [0] : Bytes).length + 10 + 0 > sz) := by simp; omega
  simp only [packLabels, g1, g2, ↓reduceIte, optBytes]
  simp

theorem optPack_ok (sz edns : Nat) (hsz : 11 ≤ sz) : optPack sz edns = .ok (optBytes edns, false) := by
  unfold optPack
  rw [rrPackGuardsNull_eq, optPackV_ok true sz edns hsz]
  rfl

/-- **A packed query decodes back to itself.** For a host name whose pieces between dots are `labels` (each 1..63
octets), shorter than the name buffer, and a buffer with room for it, rfc1035BuildAQuery / rfc1035BuildPTRQuery /
rfc3596BuildHostQuery produce a packet that rfc1035MessageUnpack decodes to: result 0, id `qid`, RD set, one question
with the dotted name, the query type and class IN, no records, ARCOUNT 1 exactly when EDNS is on; memcpy is never handed a null pointer (`b.ub = false`). -/
theorem query_pack_unpack (sz : Nat) (host : Bytes) (labels : List Bytes) (qid qtype : Nat) (edns : Int)
    (htok : tokens host = labels)
    (hlab : ∀ l ∈ labels, 1 ≤ l.length ∧ l.length ≤ maxLabelSz)
    (hfit : wireLen labels < nameBufSz)
    (hsz : 12 + wireLen labels + 1 + 4 + (if edns > 0 then 11 else 0) ≤ sz) :
    ∃ b, buildQuery sz host qid qtype edns = .ok b ∧ b.ub = false ∧
      b.pkt.length = 12 + wireLen labels + 1 + 4 + (if edns > 0 then 11 else 0) ∧
      b.qname = host.take (nameBufSz - 1) ∧ b.qtype = qtype % 65536 ∧ b.qclass = classIN ∧
      messageUnpack b.pkt = .ret 0 (some
        ⟨queryHeader qid (if edns > 0 then 1 else 0), ⟨nameText labels, qtype % 65536, classIN⟩, []⟩) := by
  have hpack : maxLabelPack = maxLabelSz := by decide
  have hszmin : 12 + wireLen labels + 1 + 4 ≤ sz := by omega
  have hhb : ∀ ar, headerPack sz (queryHeader qid ar) = .ok (headerBytes (queryHeader qid ar)) := by
    intro ar
    have : ¬ sz < 12 := by omega
    simp [headerPack, this, headerBytes]
  have hpl := packLabels_ok (sz - 12) labels [] (fun l hl => by have := hlab l hl; omega) (by simp; omega)
  have hnp : namePack (sz - 12) host = .ok (wire labels ++ [0]) := by
    unfold namePack
    rw [htok, hpl]
    simp only [List.nil_append]
    have : (wire labels).length < sz - 12 := by simp [wire_length]; omega
    simp only [this, ↓reduceIte]
  have hqp : questionPack (sz - 12) host (qtype % 65536) classIN =
      .ok (wire labels ++ [0] ++ be16 (qtype % 65536) ++ be16 classIN) := by
    unfold questionPack
    rw [hnp]
    have : ¬ ((wire labels ++ [0]).length + 4 > sz - 12) := by simp [wire_length]; omega
    simp only [this, ↓reduceIte]
  have hql : (wire labels ++ [0] ++ be16 (qtype % 65536) ++ be16 classIN).length = wireLen labels + 1 + 4 := by
    simp [wire_length, be16]
  have hqt : qtype % 65536 < 65536 := Nat.mod_lt _ (by decide)
  by_cases he : edns > 0
  · have hsz' : 12 + wireLen labels + 1 + 4 + 11 ≤ sz := by simpa [he] using hsz
    have hopt := optPack_ok (sz - 12 - (wireLen labels + 1 + 4)) edns.toNat (by omega)
    have hol : (optBytes edns.toNat).length = 11 := by simp [optBytes, be16, be32]
    have hbuild : buildQuery sz host qid qtype edns =
        .ok ⟨headerBytes (queryHeader qid 1) ++ (wire labels ++ [0] ++ be16 (qtype % 65536) ++ be16 classIN) ++ optBytes edns.toNat,
             false, host.take (nameBufSz - 1), qtype % 65536, classIN⟩ := by
      have hb1 := hhb 1
      have : 12 + (wireLen labels + 1 + 4) + 11 ≤ sz := by omega
      unfold buildQuery
      simp only [he, ↓reduceIte, hb1, queryHeader_length, hqp, hql, hopt, hol, this]
    refine ⟨_, hbuild, rfl, ?_, rfl, rfl, rfl, ?_⟩
    · show (headerBytes (queryHeader qid 1) ++ (wire labels ++ [0] ++ be16 (qtype % 65536) ++ be16 classIN) ++
          optBytes edns.toNat).length = _
      rw [List.length_append, List.length_append, queryHeader_length, hql, hol]
      simp only [he, ↓reduceIte]
      omega
    · simp only [he, ↓reduceIte]
      have := query_packet_decodes labels qid 1 (qtype % 65536) (optBytes edns.toNat) hlab hfit (by decide) hqt
      simpa [List.append_assoc] using this
  · have hbuild : buildQuery sz host qid qtype edns =
        .ok ⟨headerBytes (queryHeader qid 0) ++ (wire labels ++ [0] ++ be16 (qtype % 65536) ++ be16 classIN),
             false, host.take (nameBufSz - 1), qtype % 65536, classIN⟩ := by
      have hb0 := hhb 0
      have : 12 + (wireLen labels + 1 + 4) ≤ sz := by omega
      unfold buildQuery
      simp only [he, ↓reduceIte, hb0, queryHeader_length, hqp, hql, this]
    refine ⟨_, hbuild, rfl, ?_, rfl, rfl, rfl, ?_⟩
    · show (headerBytes (queryHeader qid 0) ++ (wire labels ++ [0] ++ be16 (qtype % 65536) ++ be16 classIN)).length = _
      rw [List.length_append, queryHeader_length, hql]
      simp only [he, ↓reduceIte]
      omega
    · simp only [he, ↓reduceIte]
      have := query_packet_decodes labels qid 0 (qtype % 65536) [] hlab hfit (by decide) hqt
      simpa [List.append_assoc] using this

end SquidModel.Dns
