/-
Stored entries: what `HttpHeaderEntry::parse` guarantees about every entry, the registry facts behind the canonical
names (re-decided against the regenerated registry), and `packInto` followed by a second scan.
-/
import SquidModel.Header.WireScan

namespace SquidModel.Header
open SquidModel

/-! ### registry facts -/

def recordOk (r : Record) : Bool :=
  r.id == idOther || r.id == idBad ||
  (!r.name.isEmpty && r.name.all Gen.CharSets.TCHAR.mem && decide (r.name.length ≤ 65534) &&
    lookupName r.name == r.id && nameOf r.id == r.name)

theorem registry_ok : Gen.HeaderRegistry.records.all recordOk = true := by decide +kernel

theorem lookupName_record (name : Bytes) (h : lookupName name ≠ idBad) :
    ∃ r ∈ Gen.HeaderRegistry.records, r.id = lookupName name ∧ r.id ≠ idOther := by
  unfold lookupName at h ⊢
  cases hf : Gen.HeaderRegistry.records.find? (fun r => eqIgnoreCase r.name name) with
  | none => simp [hf] at h
  | some r =>
    simp only [hf] at h ⊢
    by_cases ho : (r.id == idOther) = true
    · simp [ho] at h
    · simp only [ho, Bool.false_eq_true, if_false]
      exact ⟨r, List.mem_of_find?_eq_some hf, rfl, by simpa using ho⟩

/-- the stored name of an entry made from a token `name0`, and its consistency with the lookup -/
theorem entryOfName_name (name0 value : Bytes) (hne : name0 ≠ []) (ht : name0.all Gen.CharSets.TCHAR.mem = true)
    (hl : name0.length ≤ 65534) :
    let e := entryOfName name0 value
    e.name ≠ [] ∧ e.name.all Gen.CharSets.TCHAR.mem = true ∧ e.name.length ≤ 65534 ∧ entryOfName e.name e.value = e := by
  simp only [entryOfName]
  by_cases ho : (idOfName name0 == idOther) = true
  · simp only [ho, if_true]
    exact ⟨hne, ht, hl, by simp [ho]⟩
  · simp only [ho, Bool.false_eq_true, if_false]
    have hnb : lookupName name0 ≠ idBad := by
      intro hb
      simp [idOfName, hb] at ho
    have hid : idOfName name0 = lookupName name0 := by
      unfold idOfName
      have : (lookupName name0 == idBad) = false := by simpa using hnb
      simp [this]
    obtain ⟨r, hr, hrid, hro⟩ := lookupName_record name0 hnb
    have hall := registry_ok
    simp only [List.all_eq_true] at hall
    have hrok := hall r hr
    have hrb : r.id ≠ idBad := by rw [hrid]; exact hnb
    unfold recordOk at hrok
    have h1 : (r.id == idOther) = false := by simpa using hro
    have h2 : (r.id == idBad) = false := by simpa using hrb
    simp only [h1, h2, Bool.false_or, Bool.and_eq_true, Bool.not_eq_true', decide_eq_true_eq, beq_iff_eq] at hrok
    obtain ⟨⟨⟨⟨hne', ht'⟩, hl'⟩, hlk⟩, hnm⟩ := hrok
    rw [hid, ← hrid, hnm]
    refine ⟨by intro h0; rw [h0] at hne'; simp at hne', ht', hl', ?_⟩
    have hid2 : idOfName r.name = r.id := by
      unfold idOfName
      rw [hlk]
      simp [h2]
    rw [hid2]
    simp [h1, hnm]

/-! ### what the entry parser guarantees -/

theorem strip_fix_ends (x : Bytes) (h : strip x = x) :
    (∀ c, x.head? = some c → isSpace c = false) ∧ (∀ c, x.getLast? = some c → isSpace c = false) := by
  constructor
  · intro c hc
    rw [← h] at hc
    unfold strip at hc
    obtain ⟨t, ht, _⟩ := rtrim_decomp (ltrim x)
    cases hr : rtrim (ltrim x) with
    | nil => rw [hr] at hc; simp at hc
    | cons a b =>
      rw [hr] at hc ht
      have : c = a := by simpa using hc.symm
      subst this
      exact ltrim_head x c (by rw [ht]; rfl)
  · intro c hc
    rw [← h] at hc
    exact rtrim_getLast _ c hc

theorem entryName_facts (cfg : Cfg) (raw name : Bytes) (h : entryName cfg raw = some name) :
    name ≠ [] ∧ name.length ≤ 65534 := by
  unfold entryName at h
  split at h
  · simp at h
  · rename_i hne
    split at h
    · simp at h
    · rename_i hlen
      split at h
      · split at h
        · simp at h
        · split at h
          · simp at h
          · simp only [] at h
            split at h
            · simp at h
            · rename_i hn
              simp only [Option.some.injEq] at h
              rw [← h]
              refine ⟨by intro h0; rw [h0] at hn; simp at hn, ?_⟩
              have := (rtrim_sublist raw).length_le
              omega
      · simp only [Option.some.injEq] at h
        rw [← h]
        exact ⟨by intro h0; rw [h0] at hne; simp at hne, by omega⟩

theorem parseEntry_stored (cfg : Cfg) (field : Bytes) (e : Entry) (h : parseEntry cfg field = some e)
    (h0 : (0 : UInt8) ∉ field) (hcr : (10 : UInt8) ∉ e.value ∧ (13 : UInt8) ∉ e.value) : Stored e := by
  obtain ⟨htrim, hsub⟩ := parseEntry_value cfg field e h
  unfold parseEntry at h
  split at h
  · simp at h
  · cases hn : entryName cfg (field.takeWhile (· != 58)) with
    | none => simp [hn] at h
    | some name =>
      simp only [hn] at h
      split at h
      · simp at h
      · rename_i htc
        split at h
        · simp at h
        · rename_i hvl
          simp only [Option.some.injEq] at h
          obtain ⟨hne, hlen⟩ := entryName_facts cfg _ name hn
          have htc' : name.all Gen.CharSets.TCHAR.mem = true := by simpa using htc
          have hfacts := entryOfName_name name (rtrim (ltrim ((field.dropWhile (· != 58)).drop 1))) hne htc' hlen
          have he : e = entryOfName name (rtrim (ltrim ((field.dropWhile (· != 58)).drop 1))) := by
            rw [← h]; rfl
          simp only [] at hfacts
          rw [← he] at hfacts
          obtain ⟨hends1, hends2⟩ := strip_fix_ends e.value htrim
          exact {
            name_ne := hfacts.1, name_tchar := hfacts.2.1, name_len := hfacts.2.2.1, self := hfacts.2.2.2,
            value_clean := fun c hc => ⟨fun e0 => h0 (hsub.subset (e0 ▸ hc)), fun e1 => hcr.1 (e1 ▸ hc), fun e2 => hcr.2 (e2 ▸ hc)⟩,
            value_head := hends1, value_last := hends2,
            value_len := by rw [he]; simp only [entryOfName]; omega }

/-! ### packing -/

theorem canon_wf (cfg : Cfg) (e : Entry) (h : Stored e) : WF cfg (canon e) ∧ entryOf (canon e) = e :=
  ⟨{ name_ne := h.name_ne, name_tchar := h.name_tchar, name_len := by simp [canon]; exact h.name_len,
     bws_ws := rfl, bws_ok := Or.inl rfl, lead_ws := rfl, trail_ws := rfl, value_clean := h.value_clean,
     value_head := h.value_head, value_last := h.value_last, value_len := h.value_len }, h.self⟩

theorem pack_eq_wire (es : List Entry) : pack es = (es.map canon).flatMap FieldSyn.wire := by
  induction es with
  | nil => rfl
  | cons e es ih =>
    simp only [pack, List.flatMap_cons, List.map_cons] at ih ⊢
    rw [ih]
    simp [packEntry, FieldSyn.wire, FieldSyn.line, canon]

/-- scanning what `packInto` wrote gives the same entries back -/
theorem rawEntries_pack (cfg : Cfg) (es : List Entry) (h : ∀ e ∈ es, Stored e) : rawEntries cfg (pack es) = some es := by
  have hw : ∀ f ∈ es.map canon, WF cfg f := by
    intro f hf
    obtain ⟨e, he, rfl⟩ := List.mem_map.mp hf
    exact (canon_wf cfg e (h e he)).1
  have := rawEntries_wellformed cfg (es.map canon) [] hw (Or.inl rfl)
  rw [List.append_nil, ← pack_eq_wire] at this
  rw [this]
  congr 1
  rw [List.map_map]
  conv => rhs; rw [← List.map_id es]
  apply List.map_congr_left
  intro e he
  exact (canon_wf cfg e (h e he)).2

end SquidModel.Header

namespace SquidModel.Header
open SquidModel

theorem procLine_term (cfg : Cfg) (first : Bool) (line : Bytes) (p : PLine) (h : procLine cfg first line = some p) :
    p.term = [13, 10] ∨ p.term = [10] := by
  unfold procLine at h
  simp only [] at h
  generalize (if (line.getLast? == some 13) = true then line.dropLast else line) = body at h
  generalize (line.getLast? == some 13) = hadCr at h
  generalize (if body.contains 13 = true then body.map (fun c => if c == 13 then 32 else c) else body) = body' at h
  split at h
  · simp at h
  · split at h
    · simp at h
    · split at h
      · simp at h
      · simp only [Option.some.injEq] at h
        rw [← h]
        cases hadCr <;> simp

theorem procLines_noNul (cfg : Cfg) : ∀ (ls : List Bytes) (first : Bool) (pls : List PLine),
    procLines cfg first ls = some pls → (∀ l ∈ ls, (0 : UInt8) ∉ l) → (0 : UInt8) ∉ assemble pls := by
  intro ls
  induction ls with
  | nil => intro first pls h _; simp [procLines] at h; rw [h]; simp [assemble]
  | cons l ls ih =>
    intro first pls h hl
    unfold procLines at h
    cases hp : procLine cfg first l with
    | none => simp [hp] at h
    | some p =>
      simp only [hp] at h
      cases hps : procLines cfg false ls with
      | none => simp [hps] at h
      | some ps =>
        simp only [hps, Option.some.injEq] at h
        rw [← h]
        have hb := procLine_body_notMem 0 (by decide) cfg first l p hp (hl l (by simp))
        have hrest := ih false ps hps (fun x hx => hl x (by simp [hx]))
        have hterm : (0 : UInt8) ∉ p.term := by
          rcases procLine_term cfg first l p hp with ht | ht <;> rw [ht] <;> decide
        cases ps with
        | nil => simpa [assemble] using hb
        | cons q qs =>
          simp only [assemble, List.mem_append, not_or]
          exact ⟨⟨hb, hterm⟩, hrest⟩

/-- every scanned entry is the result of `HttpHeaderEntry::parse` on a NUL-free field text -/
theorem scanLoop_fields (cfg : Cfg) : ∀ (f : Nat) (lines : List Bytes) (tail : Bytes) (raw : List Entry),
    (∀ l ∈ lines, (0 : UInt8) ∉ l) → scanLoop cfg f lines tail = some raw →
    ∀ e ∈ raw, ∃ field, parseEntry cfg field = some e ∧ (0 : UInt8) ∉ field := by
  intro f
  induction f with
  | zero => intro lines tail raw _ h; simp [scanLoop] at h
  | succ f ih =>
    intro lines tail raw hl h
    cases lines with
    | nil =>
      simp only [scanLoop] at h
      split at h
      · simp only [Option.some.injEq] at h; rw [← h]; intro e he; simp at he
      · simp at h
    | cons l ls =>
      simp only [scanLoop] at h
      split at h
      · simp at h
      · cases hp : procLines cfg true (l :: List.takeWhile startsWsp ls) with
        | none => simp [hp] at h
        | some pls =>
          simp only [hp] at h
          split at h
          · split at h
            · simp only [Option.some.injEq] at h; rw [← h]; intro e he; simp at he
            · simp at h
          · cases hpe : parseEntry cfg (assemble pls) with
            | none => simp [hpe] at h
            | some e0 =>
              simp only [hpe] at h
              split at h
              · simp at h
              · cases hs : scanLoop cfg f (List.dropWhile startsWsp ls) tail with
                | none => simp [hs] at h
                | some raw' =>
                  simp only [hs, Option.map_some, Option.some.injEq] at h
                  rw [← h]
                  have hrest := ih (List.dropWhile startsWsp ls) tail raw'
                    (fun x hx => hl x (by simp [(List.dropWhile_sublist _).subset hx])) hs
                  intro e he
                  rcases List.mem_cons.mp he with rfl | he'
                  · refine ⟨assemble pls, hpe, ?_⟩
                    apply procLines_noNul cfg _ true pls hp
                    intro x hx
                    rcases List.mem_cons.mp hx with rfl | hx'
                    · exact hl _ (by simp)
                    · exact hl x (by simp [(List.takeWhile_sublist _).subset hx'])
                  · exact hrest e he'

theorem splitLines_mem (b : Bytes) : (∀ l ∈ (splitLines b).1, ∀ c ∈ l, c ∈ b) := by
  induction b with
  | nil => intro l hl; simp [splitLines] at hl
  | cons c r ih =>
    intro l hl x hx
    unfold splitLines at hl
    by_cases hc : (c == 10) = true
    · simp only [hc, if_true, List.mem_cons] at hl
      rcases hl with rfl | hl
      · simp at hx
      · exact List.mem_cons_of_mem _ (ih l hl x hx)
    · simp only [hc, Bool.false_eq_true, if_false] at hl
      cases hs : (splitLines r).1 with
      | nil => rw [hs] at hl; simp at hl
      | cons y ys =>
        rw [hs] at hl ih
        simp only [List.mem_cons] at hl
        rcases hl with rfl | hl
        · rcases List.mem_cons.mp hx with rfl | hx'
          · simp
          · exact List.mem_cons_of_mem _ (ih y (by simp) x hx')
        · exact List.mem_cons_of_mem _ (ih l (by simp [hl]) x hx)

/-- every entry of an accepted block whose value does not span lines satisfies the stored-entry invariant -/
theorem rawEntries_stored (cfg : Cfg) (block : Bytes) (raw : List Entry) (h : rawEntries cfg block = some raw) :
    ∀ e ∈ raw, (10 : UInt8) ∉ e.value ∧ (13 : UInt8) ∉ e.value → Stored e := by
  unfold rawEntries at h
  split at h
  · simp at h
  · rename_i h0
    have h0' : (0 : UInt8) ∉ block := by simpa using h0
    intro e he hcr
    obtain ⟨field, hpe, hf0⟩ := scanLoop_fields cfg _ _ _ raw
      (fun l hl hm => h0' (splitLines_mem block l hl 0 hm)) h e he
    exact parseEntry_stored cfg field e hpe hf0 hcr

end SquidModel.Header
