/-
Model of `Http::HeaderLookupTable` (src/http/RegisteredHeaders.{h,cc}): lookup of a record by field
name (gperf perfect hash with `%ignore-case` and `%compare-lengths`, modelled as "the record whose
name has the same length and is equal after ASCII down-casing") and by id.
The records are regenerated from the running code into `Gen.HeaderRegistry`.
Core-only.
-/
import SquidModel.Gen.HeaderRegistry

namespace SquidModel.Header
open SquidModel

/-- `gperf_downcase[]`: maps `A`..`Z` to `a`..`z`, everything else to itself -/
def downcase (b : UInt8) : UInt8 := if 65 ≤ b && b ≤ 90 then b + 32 else b

/-- `gperf_case_strncmp(str, s, len) == 0` together with `%compare-lengths` -/
def eqIgnoreCase : Bytes → Bytes → Bool
  | [], [] => true
  | a :: as, b :: bs => downcase a == downcase b && eqIgnoreCase as bs
  | _, _ => false

def idOther : Nat := Gen.HeaderRegistry.Id.OTHER
def idBad : Nat := Gen.HeaderRegistry.Id.BAD_HDR
def idContentLength : Nat := Gen.HeaderRegistry.Id.CONTENT_LENGTH
def idTransferEncoding : Nat := Gen.HeaderRegistry.Id.TRANSFER_ENCODING

/-- `HeaderLookupTable_t::lookup(buf, len).id`: `BAD_HDR` when there is no record or the record is `Other:` -/
def lookupName (name : Bytes) : Nat :=
  match Gen.HeaderRegistry.records.find? (fun r => eqIgnoreCase r.name name) with
  | none => idBad
  | some r => if r.id == idOther then idBad else r.id

/-- `HeaderLookupTable_t::lookup(id).name` -/
def nameOf (id : Nat) : Bytes :=
  match Gen.HeaderRegistry.records[id]? with
  | some r => r.name
  | none => []

end SquidModel.Header
