/-
The Content-Length fold over the scanned entries and the decisions after the loop of `HttpHeader::parse`.
-/
import SquidModel.Header.ShapeLemmas
import SquidModel.Header.ParseLemmas

namespace SquidModel.Header
open SquidModel

def isCl (e : Entry) : Bool := e.id == idContentLength

theorem clValues_cons (e : Entry) (raw : List Entry) :
    clValues (e :: raw) = if e.id == idContentLength then e.value :: clValues raw else clValues raw := by
  unfold clValues
  by_cases h : (e.id == idContentLength) = true <;> simp [h]

/-! ### monotonicity of the two flags -/

theorem checkField_sawBad_mono (relaxed : Bool) (st : ClState) (v : Bytes) (h : st.sawBad = true) :
    (checkField relaxed st v).1.sawBad = true := by
  unfold checkField; simp [h]

theorem checkField_needsSan_mono (relaxed : Bool) (st : ClState) (v : Bytes) (h : st.needsSanitizing = true) :
    (checkField relaxed st v).1.needsSanitizing = true := by
  unfold checkField
  by_cases hb : st.sawBad = true
  · simp [hb, h]
  · simp only [hb, Bool.false_eq_true, if_false]
    by_cases hc : v.contains 44 = true
    · simp only [hc, if_true]
      unfold checkList
      cases relaxed with
      | false => simp [h]
      | true =>
        simp only [Bool.not_true, Bool.false_eq_true, if_false]
        have hns := loop_needsSan true (v.length + 1) { st with needsSanitizing := true } v rfl
        split <;> exact hns
    · simp only [hc, Bool.false_eq_true, if_false]; exact checkValue_needsSan relaxed st v [] h

theorem runFields_cons (relaxed : Bool) (st : ClState) (v : Bytes) (vs : List Bytes) :
    runFields relaxed st (v :: vs) = runFields relaxed (checkField relaxed st v).1 vs := rfl

theorem runFields_sawBad_mono (relaxed : Bool) : ∀ (vs : List Bytes) (st : ClState), st.sawBad = true →
    (runFields relaxed st vs).sawBad = true := by
  intro vs; induction vs with
  | nil => intro st h; exact h
  | cons v vs ih => intro st h; rw [runFields_cons]; exact ih _ (checkField_sawBad_mono relaxed st v h)

theorem runFields_needsSan_mono (relaxed : Bool) : ∀ (vs : List Bytes) (st : ClState), st.needsSanitizing = true →
    (runFields relaxed st vs).needsSanitizing = true := by
  intro vs; induction vs with
  | nil => intro st h; exact h
  | cons v vs ih => intro st h; rw [runFields_cons]; exact ih _ (checkField_needsSan_mono relaxed st v h)

/-! ### the fold -/

theorem clFold_spec (relaxed : Bool) : ∀ (raw es : List Entry) (cl : ClState) (seen : List Bytes) (es' : List Entry) (cl' : ClState),
    Shape relaxed cl seen → clFold relaxed es cl raw = some (es', cl') →
    cl' = runFields relaxed cl (clValues raw) ∧
    Shape relaxed cl' (seen ++ clValues raw) ∧
    es'.filter (fun e => !isCl e) = es.filter (fun e => !isCl e) ++ raw.filter (fun e => !isCl e) ∧
    (cl'.sawBad = false → cl'.needsSanitizing = false → es'.filter isCl = es.filter isCl ++ raw.filter isCl) ∧
    (relaxed = false → cl'.sawBad = cl.sawBad ∧ cl'.needsSanitizing = cl.needsSanitizing) := by
  intro raw
  induction raw with
  | nil =>
    intro es cl seen es' cl' hs h
    simp only [clFold, Option.some.injEq, Prod.mk.injEq] at h
    obtain ⟨rfl, rfl⟩ := h
    simp [clValues, runFields, hs]
  | cons e raw ih =>
    intro es cl seen es' cl' hs h
    rw [clFold_cons_eq] at h
    rw [clValues_cons]
    by_cases hid : (e.id == idContentLength) = true
    · simp only [hid, if_true] at h ⊢
      have hcl : isCl e = true := hid
      obtain ⟨hsh, hfalse, htrue⟩ := checkField_shape relaxed cl seen e.value hs
      by_cases hk : (checkField relaxed cl e.value).2 = true
      · simp only [hk, if_true] at h
        obtain ⟨h1, h2, h3, h4, h5⟩ := ih (es ++ [e]) (checkField relaxed cl e.value).1 (seen ++ [e.value]) es' cl' hsh h
        refine ⟨by rw [runFields_cons]; exact h1, by simpa using h2, ?_, ?_, ?_⟩
        · rw [h3]; simp [hcl]
        · intro hb hn; rw [h4 hb hn]; simp [hcl]
        · intro hr; rw [(h5 hr).1, (h5 hr).2, (htrue hk).1, (htrue hk).2.1]; exact ⟨rfl, rfl⟩
      · have hk' : (checkField relaxed cl e.value).2 = false := by simpa using hk
        simp only [hk', Bool.false_eq_true, if_false] at h
        cases relaxed with
        | false => simp at h
        | true =>
          simp only [if_true] at h
          obtain ⟨h1, h2, h3, h4, _⟩ := ih es (checkField true cl e.value).1 (seen ++ [e.value]) es' cl' hsh h
          refine ⟨by rw [runFields_cons]; exact h1, by simpa using h2, ?_, ?_, by simp⟩
          · rw [h3]; simp [hcl]
          · intro hb hn
            exfalso
            rcases hfalse hk' with hbad | hsan
            · have := runFields_sawBad_mono true (clValues raw) _ hbad
              rw [← h1, hb] at this; exact absurd this (by simp)
            · have := runFields_needsSan_mono true (clValues raw) _ hsan
              rw [← h1, hn] at this; exact absurd this (by simp)
    · simp only [hid, Bool.false_eq_true, if_false] at h ⊢
      have hcl : isCl e = false := by simpa [isCl] using hid
      obtain ⟨h1, h2, h3, h4, h5⟩ := ih (es ++ [e]) cl seen es' cl' hs h
      refine ⟨h1, h2, ?_, ?_, h5⟩
      · rw [h3]; simp [hcl]
      · intro hb hn; rw [h4 hb hn]; simp [hcl]

/-! ### reading the stored entry back (`getInt64`) -/

theorem parseOffset_of_valueOf (relaxed : Bool) (v : Bytes) (n : Int) (h : valueOf relaxed v [] = some n) :
    ∃ k, parseOffset v = some (n, k) := by
  obtain ⟨ws, ds, dl, hv, hws, hne, hds, hdl, hn, hfit⟩ := valueOf_some relaxed v [] n (by simp) h
  cases ds with
  | nil => exact absurd rfl hne
  | cons d ds =>
    simp only [List.all_cons, Bool.and_eq_true] at hds
    have hws' : ws.all isSpace = true := by
      simp only [List.all_eq_true] at hws ⊢; intro c hc; exact ws_isSpace relaxed c (hws c hc)
    have hr : ∀ c, dl.head? = some c → isDigit c = false := by
      intro c hc
      cases dl with
      | nil => simp at hc
      | cons x xs =>
        have hx : c = x := by simpa using hc.symm
        simp only [List.all_cons, Bool.and_eq_true] at hdl
        cases hdc : isDigit c with
        | false => rfl
        | true => have := digit_not_delim relaxed c hdc; rw [hx, hdl.1] at this; exact absurd this (by simp)
    obtain ⟨k, hk⟩ := parseOffset_ws_digits ws d ds dl hws' hds.1 hds.2 hr hfit
    refine ⟨k, ?_⟩
    rw [hv, hn, List.append_assoc]; exact hk

theorem parseOffset_natToDec (n : Nat) (hfit : n ≤ 9223372036854775807) : ∃ k, parseOffset (natToDec n) = some ((n : Int), k) := by
  obtain ⟨hne, hall, hval, _⟩ := natToDec_spec n
  cases hd : natToDec n with
  | nil => exact absurd hd hne
  | cons d ds =>
    rw [hd] at hall hval
    simp only [List.all_cons, Bool.and_eq_true] at hall
    have := parseOffset_ws_digits [] d ds [] (by simp) hall.1 hall.2 (by simp) (by rw [hval]; exact hfit)
    simpa [hval] using this

theorem find?_eq_head?_filter (p : Entry → Bool) (l : List Entry) : l.find? p = (l.filter p).head? := by
  induction l with
  | nil => rfl
  | cons a l ih =>
    by_cases h : p a = true
    · rw [List.find?_cons_of_pos h, List.filter_cons_of_pos h]; rfl
    · rw [List.find?_cons_of_neg h, List.filter_cons_of_neg h]; exact ih

theorem contentLength_eq (es : List Entry) :
    contentLength es =
      match (es.filter isCl).head? with
      | none => none
      | some e => match parseOffset e.value with
        | some (v, _) => some v
        | none => some (-1) := by
  unfold contentLength
  have : (fun e : Entry => e.id == idContentLength) = isCl := rfl
  rw [this, find?_eq_head?_filter isCl es]
  rfl

theorem filter_nonCl_delById (es : List Entry) :
    (delById es idContentLength).filter (fun e => !isCl e) = es.filter (fun e => !isCl e) := by
  unfold delById
  induction es with
  | nil => rfl
  | cons a l ih =>
    by_cases h : isCl a = true
    · have h1 : (a.id != idContentLength) = false := by unfold isCl at h; simp [bne, h]
      simp [h, h1, ih]
    · have h0 : isCl a = false := by simpa using h
      have h1 : (a.id != idContentLength) = true := by unfold isCl at h0; simp [bne, h0]
      simp [h0, h1, ih]

theorem contentLength_none_of_noCl (es : List Entry) (h : es.filter isCl = []) : contentLength es = none := by
  rw [contentLength_eq, h]; rfl

theorem filter_isCl_delById (es : List Entry) : (delById es idContentLength).filter isCl = [] := by
  unfold delById isCl
  rw [List.filter_filter]
  apply List.filter_eq_nil_iff.mpr
  intro a _; simp

theorem te_ne_cl : (idTransferEncoding == idContentLength) = false := by decide

theorem any_te_filter (es : List Entry) :
    es.any (fun e => e.id == idTransferEncoding) = (es.filter (fun e => !isCl e)).any (fun e => e.id == idTransferEncoding) := by
  induction es with
  | nil => rfl
  | cons a l ih =>
    by_cases h : isCl a = true
    · have : (a.id == idTransferEncoding) = false := by
        unfold isCl at h
        have h1 : a.id = idContentLength := by simpa using h
        rw [h1]; decide
      simp [h, this, ih]
    · simp [h, ih]

/-- `Content-Length` as the callers see it after `parse`, as a function of the interpreter state -/
def clDecision (cl : ClState) : Option Int := if cl.sawBad then none else if cl.sawGood then some cl.value else none

/-- the decisions after the loop, for a message without Transfer-Encoding to which Content-Length applies -/
theorem finish_plain (cfg : Cfg) (raw es : List Entry) (cl : ClState)
    (hfold : clFold cfg.relaxed [] {} raw = some (es, cl)) (hp : cfg.prohibited = false) (hte : hasTe raw = false) :
    ∃ r, finish cfg es cl = .ok r ∧ contentLength r.entries = clDecision cl ∧ r.conflictingContentLength = cl.sawBad ∧
      r.teUnsupported = false ∧ r.entries.filter (fun e => !isCl e) = raw.filter (fun e => !isCl e) ∧
      (r.entries.filter isCl).length ≤ 1 ∧
      (∀ e ∈ r.entries.filter isCl, ∃ n : Nat, clDecision cl = some (n : Int) ∧ decimalValue (strip e.value) = some n) := by
  obtain ⟨hrun, hshape, hnon, hkept, _⟩ := clFold_spec cfg.relaxed raw [] {} [] es cl (shape_init cfg.relaxed) hfold
  simp only [List.filter_nil, List.nil_append] at hnon hkept hshape
  have hte' : es.any (fun e => e.id == idTransferEncoding) = false := by
    rw [any_te_filter, hnon, ← any_te_filter]; exact hte
  unfold finish
  simp only [hp, Bool.false_eq_true, if_false, hte']
  by_cases hbad : cl.sawBad = true
  · simp only [hbad, if_true]
    refine ⟨_, rfl, ?_, rfl, rfl, ?_, ?_, ?_⟩
    · rw [contentLength_none_of_noCl _ (filter_isCl_delById es)]; simp [clDecision, hbad]
    · rw [filter_nonCl_delById]; exact hnon
    · rw [filter_isCl_delById]; simp
    · rw [filter_isCl_delById]; simp
  · have hbad' : cl.sawBad = false := by simpa using hbad
    simp only [hbad', Bool.false_eq_true, if_false]
    by_cases hsan : cl.needsSanitizing = true
    · simp only [hsan, if_true]
      by_cases hg : cl.sawGood = true
      · simp only [hg, if_true]
        refine ⟨_, rfl, ?_, by simp, rfl, ?_, ?_, ?_⟩
        · obtain ⟨hv0, hv1⟩ := hshape.1 hg
          obtain ⟨k, hk⟩ := parseOffset_natToDec cl.value.toNat (by omega)
          rw [contentLength_eq]
          simp only []
          rw [List.filter_append, filter_isCl_delById]
          simp only [List.nil_append, isCl, BEq.rfl, List.filter_cons_of_pos, List.filter_nil, List.head?_cons]
          rw [hk]
          simp only [clDecision, hbad', hg, Bool.false_eq_true, if_false, if_true, Option.some.injEq]
          omega
        · rw [List.filter_append, filter_nonCl_delById, hnon]
          simp [isCl]
        · rw [List.filter_append, filter_isCl_delById]; simp [isCl]
        · obtain ⟨hv0, hv1⟩ := hshape.1 hg
          obtain ⟨hne, hall, hval, _⟩ := natToDec_spec cl.value.toNat
          intro e he
          rw [List.filter_append, filter_isCl_delById] at he
          simp only [List.nil_append, isCl, BEq.rfl, List.filter_cons_of_pos, List.filter_nil, List.mem_singleton] at he
          refine ⟨cl.value.toNat, ?_, ?_⟩
          · simp only [clDecision, hbad', hg, Bool.false_eq_true, if_false, if_true, Option.some.injEq]; omega
          · rw [he]
            have hhl := all_digits_head_last _ hall
            have := strip_core [] (natToDec cl.value.toNat) [] (by simp) (by simp) hne hhl.1 hhl.2
            simp only [List.nil_append, List.append_nil] at this
            rw [this, decimalValue_digits _ hne hall (by rw [hval]; omega), hval]
      · have hg' : cl.sawGood = false := by simpa using hg
        simp only [hg', Bool.false_eq_true, if_false]
        refine ⟨_, rfl, ?_, by simp, rfl, ?_, ?_, ?_⟩
        · rw [contentLength_none_of_noCl _ (filter_isCl_delById es)]; simp [clDecision, hbad', hg']
        · rw [filter_nonCl_delById]; exact hnon
        · rw [filter_isCl_delById]; simp
        · rw [filter_isCl_delById]; simp
    · have hsan' : cl.needsSanitizing = false := by simpa using hsan
      simp only [hsan', Bool.false_eq_true, if_false]
      have hk := hkept hbad' hsan'
      have hsh := hshape.2 hbad' hsan'
      refine ⟨_, rfl, ?_, by simp, rfl, hnon, ?_, ?_⟩
      · by_cases hg : cl.sawGood = true
        · obtain ⟨v, hv, _, hval⟩ := hsh.2 hg
          obtain ⟨k, hpo⟩ := parseOffset_of_valueOf cfg.relaxed v cl.value hval
          have hraw : (raw.filter isCl).map (·.value) = [v] := hv
          rw [contentLength_eq, hk]
          cases hf : raw.filter isCl with
          | nil => rw [hf] at hraw; simp at hraw
          | cons e t =>
            rw [hf] at hraw
            simp only [List.map_cons, List.cons.injEq] at hraw
            simp only [List.head?_cons, hraw.1, hpo, clDecision, hbad', hg, Bool.false_eq_true, if_false, if_true]
        · have hg' : cl.sawGood = false := by simpa using hg
          have : (raw.filter isCl).map (·.value) = [] := hsh.1 hg'
          have hnil : raw.filter isCl = [] := by simpa using this
          rw [contentLength_none_of_noCl _ (by rw [hk, hnil])]
          simp [clDecision, hbad', hg']
      · rw [hk]
        by_cases hg : cl.sawGood = true
        · obtain ⟨v, hv, _, _⟩ := hsh.2 hg
          have hraw : (raw.filter isCl).map (·.value) = [v] := hv
          have := congrArg List.length hraw
          simp at this; omega
        · have hg' : cl.sawGood = false := by simpa using hg
          have : (raw.filter isCl).map (·.value) = [] := hsh.1 hg'
          have hnil : raw.filter isCl = [] := by simpa using this
          rw [hnil]; simp
      · simp only []
        rw [hk]
        intro e he
        by_cases hg : cl.sawGood = true
        · obtain ⟨v, hv, _, hval⟩ := hsh.2 hg
          have hraw : (raw.filter isCl).map (·.value) = [v] := hv
          cases hf : raw.filter isCl with
          | nil => rw [hf] at he; simp at he
          | cons e0 t =>
            rw [hf] at hraw he
            simp only [List.map_cons, List.cons.injEq, List.map_eq_nil_iff] at hraw
            rw [hraw.2] at he
            simp only [List.mem_singleton] at he
            obtain ⟨hn0, hdec⟩ := valueOf_decimal cfg.relaxed v [] cl.value (by simp) hval
            refine ⟨cl.value.toNat, ?_, by rw [he, hraw.1]; exact hdec⟩
            simp only [clDecision, hbad', hg, Bool.false_eq_true, if_false, if_true, Option.some.injEq]; omega
        · have hg' : cl.sawGood = false := by simpa using hg
          have : (raw.filter isCl).map (·.value) = [] := hsh.1 hg'
          have hnil : raw.filter isCl = [] := by simpa using this
          rw [hnil] at he; simp at he

/-- Transfer-Encoding present, or Content-Length prohibited for this kind of message: no Content-Length is left -/
theorem finish_ignored (cfg : Cfg) (es : List Entry) (cl : ClState) (r : HdrResult)
    (hc : cfg.prohibited = true ∨ es.any (fun e => e.id == idTransferEncoding) = true)
    (h : finish cfg es cl = .ok r) : r.entries.filter isCl = [] ∧ r.conflictingContentLength = false := by
  unfold finish at h
  by_cases hp : cfg.prohibited = true
  · simp only [hp, if_true, Outcome.ok.injEq] at h
    rw [← h]
    refine ⟨?_, rfl⟩
    apply List.filter_eq_nil_iff.mpr
    intro a ha
    simp only [delById, List.mem_filter] at ha
    simp only [isCl]
    simpa [bne] using ha.1.2
  · have hte : es.any (fun e => e.id == idTransferEncoding) = true := by
      rcases hc with h1 | h1
      · exact absurd h1 hp
      · exact h1
    simp only [hp, Bool.false_eq_true, if_false, hte, if_true] at h
    cases hj : getStrOrList es idTransferEncoding with
    | none => simp [hj] at h
    | some rawTe =>
      simp only [hj, Outcome.ok.injEq] at h
      rw [← h]
      exact ⟨filter_isCl_delById es, rfl⟩

end SquidModel.Header
