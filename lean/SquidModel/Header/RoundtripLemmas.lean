/-
`HttpHeader::parse` of what `packInto` wrote for the entries of a successful `HttpHeader::parse`.
-/
import SquidModel.Header.StoredLemmas

namespace SquidModel.Header
open SquidModel

theorem clFold_subset (relaxed : Bool) : ∀ (raw es : List Entry) (cl : ClState) (es' : List Entry) (cl' : ClState),
    clFold relaxed es cl raw = some (es', cl') → ∀ e ∈ es', e ∈ es ∨ e ∈ raw := by
  intro raw
  induction raw with
  | nil =>
    intro es cl es' cl' h e he
    simp only [clFold, Option.some.injEq, Prod.mk.injEq] at h
    rw [← h.1] at he; exact Or.inl he
  | cons x raw ih =>
    intro es cl es' cl' h e he
    rw [clFold_cons_eq] at h
    split at h
    · split at h
      · rcases ih _ _ _ _ h e he with h1 | h1
        · rcases List.mem_append.mp h1 with h2 | h2
          · exact Or.inl h2
          · simp only [List.mem_singleton] at h2; exact Or.inr (by simp [h2])
        · exact Or.inr (by simp [h1])
      · split at h
        · rcases ih _ _ _ _ h e he with h1 | h1
          · exact Or.inl h1
          · exact Or.inr (by simp [h1])
        · simp at h
    · rcases ih _ _ _ _ h e he with h1 | h1
      · rcases List.mem_append.mp h1 with h2 | h2
        · exact Or.inl h2
        · simp only [List.mem_singleton] at h2; exact Or.inr (by simp [h2])
      · exact Or.inr (by simp [h1])

def sanEntry (v : Int) : Entry := ⟨idContentLength, nameOf idContentLength, natToDec v.toNat⟩

theorem finish_subset (cfg : Cfg) (es : List Entry) (cl : ClState) (r : HdrResult) (h : finish cfg es cl = .ok r) :
    ∀ e ∈ r.entries, e ∈ es ∨ (e = sanEntry cl.value ∧ cl.sawGood = true) := by
  unfold finish at h
  have hsub : ∀ (l : List Entry) (id : Nat), ∀ e ∈ delById l id, e ∈ l := fun l id e he => (List.mem_filter.mp he).1
  split at h
  · simp only [Outcome.ok.injEq] at h; rw [← h]
    intro e he; exact Or.inl (hsub _ _ e (hsub _ _ e he))
  · split at h
    · split at h
      · simp at h
      · simp only [Outcome.ok.injEq] at h; rw [← h]
        intro e he; exact Or.inl (hsub _ _ e he)
    · split at h
      · simp only [Outcome.ok.injEq] at h; rw [← h]
        intro e he; exact Or.inl (hsub _ _ e he)
      · split at h
        · simp only [] at h
          split at h
          · rename_i hg
            simp only [Outcome.ok.injEq] at h; rw [← h]
            intro e he
            rcases List.mem_append.mp he with h1 | h1
            · exact Or.inl (hsub _ _ e h1)
            · simp only [List.mem_singleton] at h1; exact Or.inr ⟨h1, hg⟩
          · simp only [Outcome.ok.injEq] at h; rw [← h]
            intro e he; exact Or.inl (hsub _ _ e he)
        · simp only [Outcome.ok.injEq] at h; rw [← h]
          intro e he; exact Or.inl he

theorem digits_clean (ds : Bytes) (h : ds.all isDigit = true) :
    (∀ c ∈ ds, c ≠ 0 ∧ c ≠ 10 ∧ c ≠ 13) := by
  intro c hc
  simp only [List.all_eq_true] at h
  have hd := h c hc
  have := forall_octet (fun c => !(isDigit c) || (c != 0 && c != 10 && c != 13)) (by decide +kernel) c
  simp_all

theorem cl_name_self : ∀ v : Bytes, entryOfName (nameOf idContentLength) v = ⟨idContentLength, nameOf idContentLength, v⟩ := by
  intro v
  have h1 : idOfName (nameOf idContentLength) = idContentLength := by decide +kernel
  simp only [entryOfName, h1]
  have : (idContentLength == idOther) = false := by decide
  simp [this]

/-- the Content-Length entry written by the sanitiser is a proper stored entry -/
theorem sanEntry_stored (v : Int) (h0 : 0 ≤ v) (hmax : v ≤ 9223372036854775807) : Stored (sanEntry v) := by
  obtain ⟨hne, hall, _, _⟩ := natToDec_spec v.toNat
  have hlen := natToDec_length v.toNat (by omega)
  have hends := all_digits_head_last _ hall
  exact {
    name_ne := by show nameOf idContentLength ≠ []; decide,
    name_tchar := by show (nameOf idContentLength).all Gen.CharSets.TCHAR.mem = true; decide +kernel,
    name_len := by show (nameOf idContentLength).length ≤ 65534; decide,
    self := cl_name_self _, value_clean := digits_clean _ hall,
    value_head := hends.1, value_last := hends.2, value_len := by simp only [sanEntry]; omega }

/-- a single field whose whole value is a decimal, seen by a fresh interpreter -/
theorem checkField_single (relaxed : Bool) (st : ClState) (v : Bytes) (k : Nat) (hbad : st.sawBad = false)
    (hg : st.sawGood = false) (hk : decimalValue v = some k) :
    checkField relaxed st v = ({ st with sawGood := true, value := (k : Int) }, true) := by
  obtain ⟨hne, hd, hfit, hkv⟩ := decimalValue_some v k hk
  have hc : v.contains 44 = false := by
    cases hcc : v.contains 44 with
    | false => rfl
    | true =>
      simp only [List.all_eq_true] at hd
      have : (44 : UInt8) ∈ v := by simpa using hcc
      exact absurd (hd 44 this) (by decide)
  have hv := valueOf_of_shape relaxed [] v [] [] (by simp) hne hd (by simp) hfit (by simp)
  simp only [List.nil_append, List.append_nil] at hv
  unfold checkField
  simp only [hbad, Bool.false_eq_true, if_false, hc]
  unfold checkValue
  simp [hv, hg, hkv, hbad]

theorem clFold_noCl (relaxed : Bool) : ∀ (raw es : List Entry) (cl : ClState), (∀ e ∈ raw, isCl e = false) →
    clFold relaxed es cl raw = some (es ++ raw, cl) := by
  intro raw
  induction raw with
  | nil => intro es cl _; simp [clFold]
  | cons e raw ih =>
    intro es cl h
    rw [clFold_cons_eq]
    have : (e.id == idContentLength) = false := h e (by simp)
    simp only [this, Bool.false_eq_true, if_false]
    rw [ih (es ++ [e]) cl (fun x hx => h x (by simp [hx]))]
    simp

/-- folding over entries that contain at most one Content-Length, a plain decimal: nothing is dropped, nothing needs sanitising -/
theorem clFold_clean (relaxed : Bool) : ∀ (l es : List Entry) (cl : ClState),
    cl.sawBad = false → cl.needsSanitizing = false → (cl.sawGood = true → l.filter isCl = []) →
    (l.filter isCl).length ≤ 1 → (∀ e ∈ l, isCl e = true → ∃ k, decimalValue e.value = some k) →
    ∃ cl', clFold relaxed es cl l = some (es ++ l, cl') ∧ cl'.sawBad = false ∧ cl'.needsSanitizing = false := by
  intro l
  induction l with
  | nil => intro es cl hb hn _ _ _; exact ⟨cl, by simp [clFold], hb, hn⟩
  | cons e l ih =>
    intro es cl hb hn hg hlen hdec
    rw [clFold_cons_eq]
    by_cases hid : isCl e = true
    · have hid' : (e.id == idContentLength) = true := hid
      have hgf : cl.sawGood = false := by
        cases hgg : cl.sawGood with
        | false => rfl
        | true => have := hg hgg; simp [List.filter_cons, hid] at this
      obtain ⟨k, hk⟩ := hdec e (by simp) hid
      have hrest : l.filter isCl = [] := by
        simp only [List.filter_cons, hid, if_true, List.length_cons] at hlen
        exact List.length_eq_zero_iff.mp (by omega)
      simp only [hid', if_true, checkField_single relaxed cl e.value k hb hgf hk]
      have hall : ∀ x ∈ l, isCl x = false := by
        intro x hx
        cases hxc : isCl x with
        | false => rfl
        | true =>
          have : x ∈ l.filter isCl := List.mem_filter.mpr ⟨hx, hxc⟩
          rw [hrest] at this; simp at this
      rw [clFold_noCl relaxed l (es ++ [e]) _ hall]
      exact ⟨{ cl with sawGood := true, value := (k : Int) }, by simp, hb, hn⟩
    · have hid' : (e.id == idContentLength) = false := by simpa [isCl] using hid
      have hidf : isCl e = false := by simpa using hid
      simp only [hid', Bool.false_eq_true, if_false]
      obtain ⟨cl', h1, h2, h3⟩ := ih (es ++ [e]) cl hb hn
        (by intro hgg; have := hg hgg; simpa [List.filter_cons, hidf] using this)
        (by simpa [List.filter_cons, hidf] using hlen)
        (fun x hx => hdec x (by simp [hx]))
      exact ⟨cl', by rw [h1]; simp, h2, h3⟩

end SquidModel.Header

namespace SquidModel.Header
open SquidModel

theorem strip_of_ends (x : Bytes) (hh : ∀ c, x.head? = some c → isSpace c = false)
    (hl : ∀ c, x.getLast? = some c → isSpace c = false) : strip x = x := by
  by_cases hx : x = []
  · rw [hx]; rfl
  · have := strip_core [] x [] (by simp) (by simp) hx hh hl
    simpa using this

theorem delById_idem (es : List Entry) (id : Nat) : delById (delById es id) id = delById es id := by
  unfold delById; rw [List.filter_filter]; congr 1; funext e; simp

theorem delById_comm_filter (es : List Entry) (a b : Nat) : delById (delById (delById (delById es a) b) a) b = delById (delById es a) b := by
  unfold delById
  simp only [List.filter_filter]
  congr 1; funext e
  cases (e.id != a) <;> cases (e.id != b) <;> rfl

theorem getStrOrList_delById (es : List Entry) : getStrOrList (delById es idContentLength) idTransferEncoding = getStrOrList es idTransferEncoding := by
  unfold getStrOrList delById
  rw [List.filter_filter]
  have : (fun e : Entry => e.id == idTransferEncoding && e.id != idContentLength) = (fun e : Entry => e.id == idTransferEncoding) := by
    funext e
    by_cases h : (e.id == idTransferEncoding) = true
    · have h1 : e.id = idTransferEncoding := by simpa using h
      rw [h1]; decide
    · simp [h]
  rw [this]

theorem any_te_delById (es : List Entry) :
    (delById es idContentLength).any (fun e => e.id == idTransferEncoding) = es.any (fun e => e.id == idTransferEncoding) := by
  unfold delById
  induction es with
  | nil => rfl
  | cons a l ih =>
    by_cases h : (a.id == idTransferEncoding) = true
    · have h1 : a.id = idTransferEncoding := by simpa using h
      have : (a.id != idContentLength) = true := by rw [h1]; decide
      simp [List.filter_cons, this, h]
    · by_cases h2 : (a.id != idContentLength) = true
      · simp [List.filter_cons, h2, h, ih]
      · simp [List.filter_cons, h2, h, ih]

/-- **Packing and re-parsing, for `HttpHeader::parse` as a whole.** After a successful parse whose stored values do not span lines,
parsing what `packInto` writes succeeds again and stores the same entries (and reports the same `unsupportedTe()`). -/
theorem parse_pack_roundtrip (cfg : Cfg) (block : Bytes) (r : HdrResult) (h : parseHeader cfg block = .ok r)
    (hline : ∀ e ∈ r.entries, (10 : UInt8) ∉ e.value ∧ (13 : UInt8) ∉ e.value) :
    ∃ r', parseHeader cfg (pack r.entries) = .ok r' ∧ r'.entries = r.entries ∧ r'.teUnsupported = r.teUnsupported := by
  rw [parseHeader_eq] at h
  cases hraw : rawEntries cfg block with
  | none => simp [hraw] at h
  | some raw =>
    simp only [hraw] at h
    cases hfold : clFold cfg.relaxed [] {} raw with
    | none => simp [hfold] at h
    | some p =>
      obtain ⟨es, cl⟩ := p
      simp only [hfold] at h
      obtain ⟨_, hshape, hnon, _, _⟩ := clFold_spec cfg.relaxed raw [] {} [] es cl (shape_init cfg.relaxed) hfold
      simp only [List.filter_nil, List.nil_append] at hnon
      -- every stored entry satisfies the invariant
      have hstored : ∀ e ∈ r.entries, Stored e := by
        intro e he
        rcases finish_subset cfg es cl r h e he with h1 | ⟨h1, hg⟩
        · rcases clFold_subset cfg.relaxed raw [] {} es cl hfold e h1 with h2 | h2
          · simp at h2
          · exact rawEntries_stored cfg block raw hraw e h2 (hline e he)
        · rw [h1]
          obtain ⟨h0, hm⟩ := hshape.1 hg
          exact sanEntry_stored cl.value h0 hm
      have hpack := rawEntries_pack cfg r.entries hstored
      rw [parseHeader_eq, hpack]
      simp only []
      by_cases hc : cfg.prohibited = true ∨ es.any (fun e => e.id == idTransferEncoding) = true
      · -- Content-Length was ignored: none is left
        have hnil := (finish_ignored cfg es cl r hc h).1
        obtain ⟨cl2, hf2, hb2, hn2⟩ := clFold_clean cfg.relaxed r.entries [] {} rfl rfl (fun _ => hnil)
          (by rw [hnil]; simp) (fun e he hcl => by
            have : e ∈ r.entries.filter isCl := List.mem_filter.mpr ⟨he, hcl⟩
            rw [hnil] at this; simp at this)
        rw [hf2]
        simp only [List.nil_append]
        unfold finish at h ⊢
        by_cases hp : cfg.prohibited = true
        · simp only [hp, if_true, Outcome.ok.injEq] at h ⊢
          rw [← h]
          exact ⟨_, rfl, delById_comm_filter es _ _, rfl⟩
        · have hte : es.any (fun e => e.id == idTransferEncoding) = true := by
            rcases hc with h1 | h1
            · exact absurd h1 hp
            · exact h1
          simp only [hp, Bool.false_eq_true, if_false, hte, if_true] at h
          cases hj : getStrOrList es idTransferEncoding with
          | none => simp [hj] at h
          | some rawTe =>
            simp only [hj, Outcome.ok.injEq] at h
            rw [← h]
            simp only [hp, Bool.false_eq_true, if_false, any_te_delById, hte, if_true, getStrOrList_delById, hj]
            exact ⟨_, rfl, delById_idem es _, rfl⟩
      · have hp : cfg.prohibited = false := by
          cases hpp : cfg.prohibited with
          | false => rfl
          | true => exact absurd (Or.inl hpp) hc
        have htees : es.any (fun e => e.id == idTransferEncoding) = false := by
          cases ht : es.any (fun e => e.id == idTransferEncoding) with
          | false => rfl
          | true => exact absurd (Or.inr ht) hc
        have hte : hasTe raw = false := by
          unfold hasTe
          rw [any_te_filter raw, ← hnon, ← any_te_filter es]; exact htees
        obtain ⟨r0, hr0, _, _, hteu, hnon0, hlen, hents⟩ := finish_plain cfg raw es cl hfold hp hte
        rw [hr0] at h
        have hrr : r0 = r := by simpa using h
        subst hrr
        obtain ⟨cl2, hf2, hb2, hn2⟩ := clFold_clean cfg.relaxed r0.entries [] {} rfl rfl
          (by intro hg; simp at hg) hlen (fun e he hcl => by
            obtain ⟨n, _, hd⟩ := hents e (List.mem_filter.mpr ⟨he, hcl⟩)
            have hs := hstored e he
            rw [strip_of_ends e.value hs.value_head hs.value_last] at hd
            exact ⟨n, hd⟩)
        rw [hf2]
        simp only [List.nil_append]
        have hte0 : r0.entries.any (fun e => e.id == idTransferEncoding) = false := by
          rw [any_te_filter r0.entries, hnon0, ← any_te_filter raw]; exact hte
        refine ⟨⟨r0.entries, false, false⟩, ?_, rfl, by rw [hteu]⟩
        unfold finish
        simp [hp, hte0, hb2, hn2]

end SquidModel.Header
