/-
Model of the mime-block preparation of the HTTP/1 parsers: `headersEnd` (src/mime_header.cc) and
`Http::One::Parser::grabMimeBlock` / `cleanMimePrefix` / `unfoldMime` (src/http/one/Parser.cc), as far as they
decide which bytes `HttpHeader::parse` is given on the request/response path. Size limits are not modelled.
Core-only.
-/
import SquidModel.Header.Parse

namespace SquidModel.Header
open SquidModel

/-- `headersEnd(mime, l, containsObsFold)`: the state machine, started in state 1; `e` counts consumed bytes.
`none` = 0 (no terminator found) -/
def headersEndAux : Bytes → Nat → Nat → Bool → Option (Nat × Bool)
  | [], _, _, _ => none
  | c :: r, st, e, fold =>
    if st = 0 then headersEndAux r (if c == 10 then 1 else 0) (e + 1) fold
    else if st = 1 then
      if c == 13 then headersEndAux r 2 (e + 1) fold
      else if c == 10 then some (e + 1, fold)
      else if c == 32 || c == 9 then headersEndAux r 0 (e + 1) true
      else headersEndAux r 0 (e + 1) fold
    else
      if c == 10 then some (e + 1, fold) else headersEndAux r 0 (e + 1) fold

def headersEnd (s : Bytes) : Option (Nat × Bool) := headersEndAux s 1 0 false

/-- the loop of `cleanMimePrefix`: drop every leading line that starts with SP HT VT FF or CR -/
def cleanLoop : Nat → Bytes → Bytes
  | 0, s => s
  | _ + 1, [] => []
  | f + 1, c :: r =>
    if relaxedDelimiters.mem c then
      let r1 := r.dropWhile (· != 10)         -- skipAll(LineCharacters)
      let r2 := match r1 with                  -- skipOne(LF)
        | 10 :: t => t
        | _ => r1
      cleanLoop f r2
    else c :: r

/-- `cleanMimePrefix()` -/
def cleanMimePrefix (s : Bytes) : Bytes :=
  let t := cleanLoop (s.length + 1) s
  if t.isEmpty then [13, 10] else t

def isWsp (c : UInt8) : Bool := c == 32 || c == 9
def nonCrLf (c : UInt8) : Bool := c != 13 && c != 10

/-- the loop of `unfoldMime`: `blob CR* LF WSP+` becomes `blob SP`, everything else is copied -/
def unfoldLoop : Nat → Bytes → Bytes
  | 0, _ => []
  | _ + 1, [] => []
  | f + 1, s =>
    let blob := s.takeWhile nonCrLf
    let s1 := s.dropWhile nonCrLf
    let crs := s1.takeWhile (· == 13)
    let s2 := s1.dropWhile (· == 13)
    match s2 with
    | 10 :: s3 =>
      if !(s3.takeWhile isWsp).isEmpty then blob ++ [32] ++ unfoldLoop f (s3.dropWhile isWsp)
      else blob ++ crs ++ [10] ++ unfoldLoop f s3
    | _ => blob ++ crs ++ unfoldLoop f s2

/-- `unfoldMime()` -/
def unfoldMime (s : Bytes) : Bytes := unfoldLoop (s.length + 1) s

/-- what `grabMimeBlock` leaves in `mimeHeaderBlock_` for the bytes that follow the first line
(`none`: the end of the headers has not arrived yet) -/
def grabMime (buf : Bytes) : Option Bytes :=
  match headersEnd buf with
  | none => none
  | some (e, fold) =>
    let m := cleanMimePrefix (buf.take e)
    some (if fold then unfoldMime m else m)

end SquidModel.Header
