/-
Specification side of C25: the wire syntax of a header block (RFC 9112 §5: field-line = field-name ":" OWS field-value OWS,
lines ended by CRLF or bare LF), the field each line denotes, and the invariant of stored entries.
Core-only.
-/
import SquidModel.Header.ClSpec

namespace SquidModel.Header
open SquidModel

/-- horizontal white space that cannot end a line: SP HT VT FF (what `xisspace` trims, minus CR and LF) -/
def isHws (c : UInt8) : Bool := c == 32 || c == 9 || c == 11 || c == 12

/-- one field line as it appears on the wire -/
structure FieldSyn where
  name : Bytes
  /-- whitespace between the name and the colon (tolerated only in replies / by the relaxed parser for other messages) -/
  bws : Bytes
  /-- whitespace after the colon -/
  lead : Bytes
  value : Bytes
  /-- whitespace before the end of the line -/
  trail : Bytes
  /-- the line ends with CR LF (otherwise with a bare LF) -/
  crlf : Bool

/-- the text between the start of the line and its LF -/
def FieldSyn.line (f : FieldSyn) : Bytes :=
  f.name ++ f.bws ++ [58] ++ f.lead ++ f.value ++ f.trail ++ (if f.crlf then [13] else [])

def FieldSyn.wire (f : FieldSyn) : Bytes := f.line ++ [10]

structure WF (cfg : Cfg) (f : FieldSyn) : Prop where
  name_ne : f.name ≠ []
  name_tchar : f.name.all Gen.CharSets.TCHAR.mem = true
  name_len : f.name.length + f.bws.length ≤ 65534
  bws_ws : f.bws.all isHws = true
  bws_ok : f.bws = [] ∨ cfg.owner = Owner.reply ∨ (cfg.owner = Owner.other ∧ cfg.relaxed = true)
  lead_ws : f.lead.all isHws = true
  trail_ws : f.trail.all isHws = true
  value_clean : ∀ c ∈ f.value, c ≠ 0 ∧ c ≠ 10 ∧ c ≠ 13
  value_head : ∀ c, f.value.head? = some c → isSpace c = false
  value_last : ∀ c, f.value.getLast? = some c → isSpace c = false
  value_len : f.value.length ≤ 65534

/-- `HeaderLookupTable.lookup(name).id` with BAD_HDR mapped to OTHER, as `HttpHeaderEntry::parse` does -/
def idOfName (name : Bytes) : Nat := if lookupName name == idBad then idOther else lookupName name

/-- the entry a field line denotes: registered names are stored in their canonical spelling, others as written -/
def entryOfName (name value : Bytes) : Entry :=
  ⟨idOfName name, if idOfName name == idOther then name else nameOf (idOfName name), value⟩

def entryOf (f : FieldSyn) : Entry := entryOfName f.name f.value

/-- what holds of every entry `HttpHeaderEntry::parse` creates from a single line -/
structure Stored (e : Entry) : Prop where
  name_ne : e.name ≠ []
  name_tchar : e.name.all Gen.CharSets.TCHAR.mem = true
  name_len : e.name.length ≤ 65534
  self : entryOfName e.name e.value = e
  value_clean : ∀ c ∈ e.value, c ≠ 0 ∧ c ≠ 10 ∧ c ≠ 13
  value_head : ∀ c, e.value.head? = some c → isSpace c = false
  value_last : ∀ c, e.value.getLast? = some c → isSpace c = false
  value_len : e.value.length ≤ 65534

/-- the way `packInto` writes an entry -/
def canon (e : Entry) : FieldSyn := ⟨e.name, [], [32], e.value, [], true⟩

end SquidModel.Header
