/-
`HttpHeader::parse` (model `fieldLoop`) factors into the syntax scan and the Content-Length fold.
-/
import SquidModel.Header.ClSpec

namespace SquidModel.Header
open SquidModel

theorem clFold_cons_eq (relaxed : Bool) (es : List Entry) (cl : ClState) (e : Entry) (raw : List Entry) :
    clFold relaxed es cl (e :: raw) =
      if e.id == idContentLength then
        if (checkField relaxed cl e.value).2 then clFold relaxed (es ++ [e]) (checkField relaxed cl e.value).1 raw
        else if relaxed then clFold relaxed es (checkField relaxed cl e.value).1 raw
        else none
      else clFold relaxed (es ++ [e]) cl raw := by
  simp [clFold]

/-- the loop of `HttpHeader::parse` is the scan followed by the Content-Length fold -/
theorem fieldLoop_eq (cfg : Cfg) : ∀ (f : Nat) (lines : List Bytes) (tail : Bytes) (es : List Entry) (cl : ClState),
    fieldLoop cfg f lines tail es cl =
      match scanLoop cfg f lines tail with
      | none => none
      | some raw => clFold cfg.relaxed es cl raw := by
  intro f
  induction f with
  | zero => intro lines tail es cl; simp [fieldLoop, scanLoop]
  | succ f ih =>
    intro lines tail es cl
    cases lines with
    | nil =>
      simp only [fieldLoop, scanLoop]
      split <;> simp [clFold]
    | cons l ls =>
      simp only [fieldLoop, scanLoop]
      by_cases h1 : ((List.dropWhile startsWsp ls).isEmpty && startsWsp tail) = true
      · simp [h1]
      · simp only [h1, Bool.false_eq_true, if_false]
        cases hp : procLines cfg true (l :: List.takeWhile startsWsp ls) with
        | none => simp
        | some pls =>
          simp only []
          by_cases h2 : (assemble pls).isEmpty = true
          · simp only [h2, if_true]
            split <;> simp [clFold]
          · simp only [h2, Bool.false_eq_true, if_false]
            cases he : parseEntry cfg (assemble pls) with
            | none => simp
            | some e =>
              simp only []
              by_cases h3 : ((decide (pls.length > 1) || pls.any fun x => x.bare) && isFraming e.id) = true
              · simp [h3]
              · simp only [h3, Bool.false_eq_true, if_false]
                rw [ih, ih, ih]
                cases hs : scanLoop cfg f (List.dropWhile startsWsp ls) tail with
                | none => simp
                | some raw =>
                  simp only [Option.map_some]
                  rw [clFold_cons_eq]

theorem parseHeader_eq (cfg : Cfg) (block : Bytes) :
    parseHeader cfg block =
      match rawEntries cfg block with
      | none => .reject
      | some raw =>
        match clFold cfg.relaxed [] {} raw with
        | none => .reject
        | some (es, cl) => finish cfg es cl := by
  unfold parseHeader rawEntries
  cases h0 : block.contains 0 with
  | true => simp
  | false =>
    simp only [Bool.false_eq_true, if_false]
    rw [fieldLoop_eq]
    cases scanLoop cfg ((splitLines block).1.length + 1) (splitLines block).1 (splitLines block).2 with
    | none => rfl
    | some raw => rfl

end SquidModel.Header
