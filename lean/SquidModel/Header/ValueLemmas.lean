/-
`valueOf` (the validating half of `checkValue`) accepts exactly  ws* DIGIT+ delim*  with a value that fits int64.
-/
import SquidModel.Header.TrimLemmas

namespace SquidModel.Header
open SquidModel

theorem takeWhile_append_of_head {p : UInt8 → Bool} (ds r : Bytes) (hall : ds.all p = true)
    (hr : ∀ c, r.head? = some c → p c = false) :
    (ds ++ r).takeWhile p = ds ∧ (ds ++ r).dropWhile p = r := by
  induction ds with
  | nil =>
    cases r with
    | nil => simp
    | cons c r => have := hr c rfl; simp [this]
  | cons d ds ih =>
    simp only [List.all_cons, Bool.and_eq_true] at hall
    have := ih hall.2
    simp [hall.1, this.1, this.2]

theorem drop_takeWhile_length (p : UInt8 → Bool) (l : Bytes) : l.drop (l.takeWhile p).length = l.dropWhile p := by
  induction l with
  | nil => rfl
  | cons c cs ih =>
    by_cases h : p c = true
    · simp [h, ih]
    · simp [h]

theorem strtoll_digits (d : UInt8) (ds r : Bytes) (hd : isDigit d = true) (hall : ds.all isDigit = true)
    (hr : ∀ c, r.head? = some c → isDigit c = false) :
    strtoll (d :: ds ++ r) =
      if (digitsVal (d :: ds) 0 : Int) > INT64_MAX then ⟨INT64_MAX, true, ds.length + 1⟩
      else ⟨digitsVal (d :: ds) 0, false, ds.length + 1⟩ := by
  have hsp := digit_not_space d hd
  have hne := digit_ne d hd
  have htw := takeWhile_append_of_head (p := isDigit) (d :: ds) r (by simp [hd, hall]) hr
  have h45 : (some d == some (45 : UInt8)) = false := by simp [hne.1]
  have h43 : (some d == some (43 : UInt8)) = false := by simp [hne.2.1]
  have e1 : ((d :: ds) ++ r).takeWhile isSpace = [] := by simp [hsp]
  have e2 : ((d :: ds) ++ r).dropWhile isSpace = (d :: ds) ++ r := by simp [hsp]
  have e3 : ((d :: ds) ++ r).head? = some d := rfl
  unfold strtoll strtollClamp
  simp only [e1, e2, e3, h45, h43, Bool.or_self, Bool.false_eq_true, if_false, List.drop_zero, htw.1,
    List.isEmpty_cons, List.length_nil, List.length_cons, Nat.zero_add, Nat.add_zero]
  have hnn : (0 : Int) ≤ (digitsVal (d :: ds) 0 : Int) := Int.natCast_nonneg _
  split
  · rfl
  · have : ¬ ((digitsVal (d :: ds) 0 : Int) < INT64_MIN) := by unfold INT64_MIN; omega
    simp [this]

theorem parseOffset_digits (d : UInt8) (ds r : Bytes) (hd : isDigit d = true) (hall : ds.all isDigit = true)
    (hr : ∀ c, r.head? = some c → isDigit c = false) :
    parseOffset (d :: ds ++ r) =
      if digitsVal (d :: ds) 0 ≤ 9223372036854775807 then some ((digitsVal (d :: ds) 0 : Int), ds.length + 1) else none := by
  unfold parseOffset
  rw [strtoll_digits d ds r hd hall hr]
  by_cases hbig : (digitsVal (d :: ds) 0 : Int) > INT64_MAX
  · have : ¬ digitsVal (d :: ds) 0 ≤ 9223372036854775807 := by unfold INT64_MAX at hbig; omega
    rw [if_pos hbig, if_neg this]
    simp [INT64_MAX]
  · have h2 : digitsVal (d :: ds) 0 ≤ 9223372036854775807 := by unfold INT64_MAX at hbig; omega
    rw [if_neg hbig, if_pos h2]
    simp

/-- `findDigits` returns the length of a whitespace prefix that is followed by a digit -/
theorem findDigits_some (relaxed : Bool) : ∀ (item : Bytes) (off : Nat), findDigits relaxed item = some off →
    (item.take off).all (whitespaceChars relaxed).mem = true ∧ ∃ d rest, item.drop off = d :: rest ∧ isDigit d = true := by
  intro item
  induction item with
  | nil => intro off h; simp [findDigits] at h
  | cons c cs ih =>
    intro off h
    unfold findDigits at h
    by_cases hd : isDigit c = true
    · simp only [hd, if_true, Option.some.injEq] at h
      subst h
      exact ⟨by simp, c, cs, rfl, hd⟩
    · simp only [hd, Bool.false_eq_true, if_false] at h
      by_cases hw : (whitespaceChars relaxed).mem c = true
      · simp only [hw, Bool.not_true, Bool.false_eq_true, if_false, Option.map_eq_some_iff] at h
        obtain ⟨o, ho, rfl⟩ := h
        obtain ⟨h1, h2⟩ := ih o ho
        exact ⟨by simp [hw, h1], by simpa using h2⟩
      · simp [hw] at h

theorem findDigits_ws_digit (relaxed : Bool) (ws : Bytes) (d : UInt8) (rest : Bytes)
    (hws : ws.all (whitespaceChars relaxed).mem = true) (hnd : ws.all (fun c => !isDigit c) = true) (hd : isDigit d = true) :
    findDigits relaxed (ws ++ d :: rest) = some ws.length := by
  induction ws with
  | nil => simp [findDigits, hd]
  | cons c cs ih =>
    simp only [List.all_cons, Bool.and_eq_true, Bool.not_eq_true'] at hws hnd
    simp [findDigits, hnd.1, hws.1, ih hws.2 (by simpa using hnd.2)]

/-- soundness: what `valueOf` accepts -/
theorem valueOf_some (relaxed : Bool) (item after : Bytes) (n : Int)
    (hafter : ∀ c, after.head? = some c → isDigit c = false)
    (h : valueOf relaxed item after = some n) :
    ∃ ws ds dl, item = ws ++ ds ++ dl ∧ ws.all (whitespaceChars relaxed).mem = true ∧ ds ≠ [] ∧ ds.all isDigit = true ∧
      dl.all (delimiterChars relaxed).mem = true ∧ n = (digitsVal ds 0 : Int) ∧ digitsVal ds 0 ≤ 9223372036854775807 := by
  unfold valueOf at h
  cases hf : findDigits relaxed item with
  | none => simp [hf] at h
  | some off =>
    simp only [hf] at h
    obtain ⟨hws, d, rest, hdrop, hd⟩ := findDigits_some relaxed item off hf
    -- the digit run and what follows it
    have hsplit : rest = rest.takeWhile isDigit ++ rest.dropWhile isDigit := (List.takeWhile_append_dropWhile).symm
    have hhead : ∀ c, (rest.dropWhile isDigit ++ after).head? = some c → isDigit c = false := by
      intro c hc
      cases hdw : rest.dropWhile isDigit with
      | nil => rw [hdw] at hc; exact hafter c (by simpa using hc)
      | cons x xs =>
        rw [hdw] at hc
        have hx : c = x := by simpa using hc.symm
        have := List.head?_dropWhile_not isDigit rest
        rw [hdw] at this
        subst hx; simpa using this
    have hpo := parseOffset_digits d (rest.takeWhile isDigit) (rest.dropWhile isDigit ++ after) hd List.all_takeWhile hhead
    have heq : item.drop off ++ after = d :: rest.takeWhile isDigit ++ (rest.dropWhile isDigit ++ after) := by
      rw [hdrop, List.cons_append, List.cons_append, ← List.append_assoc, ← hsplit]
    rw [heq, hpo] at h
    by_cases hfit : digitsVal (d :: rest.takeWhile isDigit) 0 ≤ 9223372036854775807
    · simp only [hfit, if_true] at h
      have hnn : ¬ ((digitsVal (d :: rest.takeWhile isDigit) 0 : Int) < 0) := by omega
      simp only [hnn, if_false] at h
      have hdrop2 : item.drop (off + ((rest.takeWhile isDigit).length + 1)) = rest.dropWhile isDigit := by
        rw [← List.drop_drop, hdrop]
        simp only [List.drop_succ_cons]
        exact drop_takeWhile_length isDigit rest
      rw [hdrop2] at h
      by_cases hg : goodSuffix relaxed (rest.dropWhile isDigit) = true
      · simp only [hg, Bool.not_true, Bool.false_eq_true, if_false, Option.some.injEq] at h
        refine ⟨item.take off, d :: rest.takeWhile isDigit, rest.dropWhile isDigit, ?_, hws, by simp, ?_, hg, h.symm, hfit⟩
        · have := (List.take_append_drop off item).symm
          rw [hdrop] at this
          rw [List.append_assoc, List.cons_append, ← hsplit]; exact this
        · simp [hd]
      · simp [hg] at h
    · simp [hfit] at h

/-- completeness: `valueOf` accepts ws* DIGIT+ delim* -/
theorem valueOf_of_shape (relaxed : Bool) (ws ds dl after : Bytes)
    (hws : ws.all (whitespaceChars relaxed).mem = true) (hne : ds ≠ []) (hds : ds.all isDigit = true)
    (hdl : dl.all (delimiterChars relaxed).mem = true) (hfit : digitsVal ds 0 ≤ 9223372036854775807)
    (hafter : ∀ c, after.head? = some c → isDigit c = false) :
    valueOf relaxed (ws ++ ds ++ dl) after = some (digitsVal ds 0 : Int) := by
  cases ds with
  | nil => exact absurd rfl hne
  | cons d ds =>
    simp only [List.all_cons, Bool.and_eq_true] at hds
    have hnd : ws.all (fun c => !isDigit c) = true := by
      simp only [List.all_eq_true] at hws ⊢
      intro c hc
      cases hdc : isDigit c with
      | false => rfl
      | true => have := digit_not_ws relaxed c hdc; rw [hws c hc] at this; exact absurd this (by simp)
    have hf : findDigits relaxed (ws ++ (d :: ds) ++ dl) = some ws.length := by
      rw [List.append_assoc, List.cons_append]
      exact findDigits_ws_digit relaxed ws d (ds ++ dl) hws hnd hds.1
    have hhead : ∀ c, (dl ++ after).head? = some c → isDigit c = false := by
      intro c hc
      cases dl with
      | nil => exact hafter c (by simpa using hc)
      | cons x xs =>
        have hx : c = x := by simpa using hc.symm
        simp only [List.all_cons, Bool.and_eq_true] at hdl
        cases hdc : isDigit c with
        | false => rfl
        | true => have := digit_not_delim relaxed c hdc; rw [hx, hdl.1] at this; exact absurd this (by simp)
    have hpo := parseOffset_digits d ds (dl ++ after) hds.1 hds.2 hhead
    unfold valueOf
    rw [hf]
    simp only []
    have hdrop : (ws ++ (d :: ds) ++ dl).drop ws.length ++ after = d :: ds ++ (dl ++ after) := by
      rw [List.append_assoc, List.drop_left]; simp
    rw [hdrop, hpo]
    simp only [hfit, if_true]
    have hnn : ¬ ((digitsVal (d :: ds) 0 : Int) < 0) := by omega
    simp only [hnn, if_false]
    have hdrop2 : (ws ++ (d :: ds) ++ dl).drop (ws.length + (ds.length + 1)) = dl := by
      rw [← List.drop_drop, List.append_assoc, List.drop_left]
      have : (d :: ds ++ dl).drop (ds.length + 1) = dl := by
        have := List.drop_left (l₁ := d :: ds) (l₂ := dl)
        simp at this ⊢
      exact this
    rw [hdrop2]
    simp [goodSuffix, hdl]

theorem decimalValue_digits (ds : Bytes) (hne : ds ≠ []) (hds : ds.all isDigit = true) (hfit : digitsVal ds 0 ≤ 9223372036854775807) :
    decimalValue ds = some (digitsVal ds 0) := by
  unfold decimalValue
  have : ds.isEmpty = false := by cases ds <;> simp_all
  simp [this, hds, hfit]

theorem decimalValue_some (x : Bytes) (k : Nat) (h : decimalValue x = some k) :
    x ≠ [] ∧ x.all isDigit = true ∧ digitsVal x 0 ≤ 9223372036854775807 ∧ k = digitsVal x 0 := by
  unfold decimalValue at h
  split at h
  · rename_i hc
    simp only [Bool.and_eq_true, Bool.not_eq_true', decide_eq_true_eq] at hc
    refine ⟨?_, hc.1.2, hc.2, by simpa using h.symm⟩
    intro h0; rw [h0] at hc; simp at hc
  · simp at h

theorem all_digits_head_last (ds : Bytes) (hds : ds.all isDigit = true) :
    (∀ c, ds.head? = some c → isSpace c = false) ∧ (∀ c, ds.getLast? = some c → isSpace c = false) := by
  simp only [List.all_eq_true] at hds
  constructor
  · intro c hc; exact digit_not_space c (hds c (List.mem_of_mem_head? hc))
  · intro c hc; exact digit_not_space c (hds c (List.mem_of_getLast? hc))

/-- what `valueOf` accepts is, after trimming, a decimal that fits int64 and denotes the returned value -/
theorem valueOf_decimal (relaxed : Bool) (item after : Bytes) (n : Int)
    (hafter : ∀ c, after.head? = some c → isDigit c = false)
    (h : valueOf relaxed item after = some n) : 0 ≤ n ∧ decimalValue (strip item) = some n.toNat := by
  obtain ⟨ws, ds, dl, hitem, hws, hne, hds, hdl, hn, hfit⟩ := valueOf_some relaxed item after n hafter h
  have hws' : ws.all isSpace = true := by
    simp only [List.all_eq_true] at hws ⊢; intro c hc; exact ws_isSpace relaxed c (hws c hc)
  have hdl' : dl.all isSpace = true := by
    simp only [List.all_eq_true] at hdl ⊢; intro c hc; exact delim_isSpace relaxed c (hdl c hc)
  have hhl := all_digits_head_last ds hds
  have hstrip : strip item = ds := by rw [hitem]; exact strip_core ws ds dl hws' hdl' hne hhl.1 hhl.2
  rw [hstrip, hn]
  exact ⟨Int.natCast_nonneg _, by simpa using decimalValue_digits ds hne hds hfit⟩

/-- conversely, a value that is a fitting decimal after trimming is accepted: always by the relaxed parser (when it has no LF),
and by the strict parser when there is nothing to trim -/
theorem valueOf_of_decimal (relaxed : Bool) (item after : Bytes) (k : Nat)
    (hafter : ∀ c, after.head? = some c → isDigit c = false)
    (hk : decimalValue (strip item) = some k) (hlf : (10 : UInt8) ∉ item)
    (hmode : relaxed = true ∨ strip item = item) : valueOf relaxed item after = some (k : Int) := by
  obtain ⟨hne, hds, hfit, hkv⟩ := decimalValue_some _ _ hk
  rcases hmode with hr | hs
  · subst hr
    obtain ⟨ws, dl, hitem, hws, hdl⟩ := strip_decomp item
    have hws' : ws.all (whitespaceChars true).mem = true := by
      simp only [List.all_eq_true] at hws ⊢
      intro c hc
      exact isSpace_relaxed_ws c (hws c hc) (by intro h10; subst h10; exact hlf (by rw [hitem]; simp [hc]))
    have hdl' : dl.all (delimiterChars true).mem = true := by
      simp only [List.all_eq_true] at hdl ⊢
      intro c hc
      exact isSpace_relaxed_delim c (hdl c hc) (by intro h10; subst h10; exact hlf (by rw [hitem]; simp [hc]))
    have := valueOf_of_shape true ws (strip item) dl after hws' hne hds hdl' hfit hafter
    rw [← hitem] at this
    rw [this, hkv]
  · have := valueOf_of_shape relaxed [] (strip item) [] after (by simp) hne hds (by simp) hfit hafter
    simp only [List.nil_append, List.append_nil] at this
    rw [hs] at this hkv
    rw [this, hkv]

end SquidModel.Header
