/-
Facts about the octet classes (re-decided against the regenerated CharSets) and about trimming.
-/
import SquidModel.Header.ClSpec
import SquidModel.Base.Finite

namespace SquidModel.Header
open SquidModel

/-! ### octet classes -/

theorem ws_isSpace (relaxed : Bool) (b : UInt8) (h : (whitespaceChars relaxed).mem b = true) : isSpace b = true := by
  have := forall_octet (fun b => !(whitespaceChars true).mem b || isSpace b) (by decide +kernel) b
  have := forall_octet (fun b => !(whitespaceChars false).mem b || isSpace b) (by decide +kernel) b
  cases relaxed <;> simp_all

theorem delim_isSpace (relaxed : Bool) (b : UInt8) (h : (delimiterChars relaxed).mem b = true) : isSpace b = true := by
  have := forall_octet (fun b => !(delimiterChars true).mem b || isSpace b) (by decide +kernel) b
  have := forall_octet (fun b => !(delimiterChars false).mem b || isSpace b) (by decide +kernel) b
  cases relaxed <;> simp_all

theorem isSpace_relaxed_ws (b : UInt8) (h : isSpace b = true) (hlf : b ≠ 10) : (whitespaceChars true).mem b = true := by
  have := forall_octet (fun b => !(isSpace b) || b == 10 || (whitespaceChars true).mem b) (by decide +kernel) b
  simp_all

theorem isSpace_relaxed_delim (b : UInt8) (h : isSpace b = true) (hlf : b ≠ 10) : (delimiterChars true).mem b = true := by
  have := forall_octet (fun b => !(isSpace b) || b == 10 || (delimiterChars true).mem b) (by decide +kernel) b
  simp_all

theorem digit_not_space (b : UInt8) (h : isDigit b = true) : isSpace b = false := by
  have := forall_octet (fun b => !(isDigit b) || !(isSpace b)) (by decide +kernel) b
  simp_all

theorem digit_not_ws (relaxed : Bool) (b : UInt8) (h : isDigit b = true) : (whitespaceChars relaxed).mem b = false := by
  cases hw : (whitespaceChars relaxed).mem b with
  | false => rfl
  | true => have := ws_isSpace relaxed b hw; have := digit_not_space b h; simp_all

theorem digit_not_delim (relaxed : Bool) (b : UInt8) (h : isDigit b = true) : (delimiterChars relaxed).mem b = false := by
  cases hw : (delimiterChars relaxed).mem b with
  | false => rfl
  | true => have := delim_isSpace relaxed b hw; have := digit_not_space b h; simp_all

theorem digit_ne (b : UInt8) (h : isDigit b = true) : b ≠ 45 ∧ b ≠ 43 ∧ b ≠ 34 ∧ b ≠ 44 := by
  have := forall_octet (fun b => !(isDigit b) || (b != 45 && b != 43 && b != 34 && b != 44)) (by decide +kernel) b
  simp_all

theorem space_ne (b : UInt8) (h : isSpace b = true) : b ≠ 34 ∧ b ≠ 44 := by
  have := forall_octet (fun b => !(isSpace b) || (b != 34 && b != 44)) (by decide +kernel) b
  simp_all

theorem listLead_cases (b : UInt8) (h : isListLead b = true) : b = 44 ∨ isSpace b = true := by
  have := forall_octet (fun b => !(isListLead b) || (b == 44 || isSpace b)) (by decide +kernel) b
  simp_all

/-! ### trimming -/

theorem ltrim_cons_space (c : UInt8) (s : Bytes) (h : isSpace c = true) : ltrim (c :: s) = ltrim s := by
  simp [ltrim, List.dropWhile, h]

theorem ltrim_cons_nonspace (c : UInt8) (s : Bytes) (h : isSpace c = false) : ltrim (c :: s) = c :: s := by
  simp [ltrim, List.dropWhile, h]

theorem ltrim_spaces_append (t s : Bytes) (ht : t.all isSpace = true) : ltrim (t ++ s) = ltrim s := by
  induction t with
  | nil => rfl
  | cons c t ih =>
    simp only [List.all_cons, Bool.and_eq_true] at ht
    rw [List.cons_append, ltrim_cons_space _ _ ht.1, ih ht.2]

theorem ltrim_decomp (s : Bytes) : ∃ t, s = t ++ ltrim s ∧ t.all isSpace = true :=
  ⟨s.takeWhile isSpace, by simp [ltrim, List.takeWhile_append_dropWhile], List.all_takeWhile⟩

theorem ltrim_head (s : Bytes) (c : UInt8) (h : (ltrim s).head? = some c) : isSpace c = false := by
  unfold ltrim at h
  have := List.head?_dropWhile_not isSpace s
  rw [h] at this
  simpa using this

theorem rtrim_append_spaces (s t : Bytes) (ht : t.all isSpace = true) : rtrim (s ++ t) = rtrim s := by
  unfold rtrim
  rw [List.reverse_append]
  have : (t.reverse).all isSpace = true := by simpa using ht
  congr 1
  exact ltrim_spaces_append t.reverse s.reverse this

theorem rtrim_spaces (t : Bytes) (ht : t.all isSpace = true) : rtrim t = [] := by
  have := rtrim_append_spaces [] t ht
  simpa [rtrim] using this

theorem rtrim_append_nonspace (s : Bytes) (c : UInt8) (h : isSpace c = false) : rtrim (s ++ [c]) = s ++ [c] := by
  simp [rtrim, h]

theorem rtrim_decomp (s : Bytes) : ∃ t, s = rtrim s ++ t ∧ t.all isSpace = true := by
  obtain ⟨t, ht, hs⟩ := ltrim_decomp s.reverse
  refine ⟨t.reverse, ?_, by simpa using hs⟩
  have := congrArg List.reverse ht
  simpa [rtrim, ltrim] using this

theorem rtrim_getLast (s : Bytes) (c : UInt8) (h : (rtrim s).getLast? = some c) : isSpace c = false := by
  unfold rtrim at h
  rw [List.getLast?_reverse] at h
  exact ltrim_head s.reverse c h

theorem rtrim_nil : rtrim [] = [] := rfl

/-- a string whose last byte is not a space is its own rtrim -/
theorem rtrim_of_getLast (s : Bytes) (c : UInt8) (h : s.getLast? = some c) (hc : isSpace c = false) : rtrim s = s := by
  have hne : s ≠ [] := by intro h0; simp [h0] at h
  have hs : s = s.dropLast ++ [c] := by
    have h1 := List.dropLast_concat_getLast hne
    have h2 : s.getLast hne = c := by
      rw [List.getLast?_eq_some_getLast hne] at h; exact Option.some.inj h
    rw [h2] at h1; exact h1.symm
  rw [hs]; exact rtrim_append_nonspace _ _ hc

theorem strip_decomp (x : Bytes) : ∃ ws dl, x = ws ++ strip x ++ dl ∧ ws.all isSpace = true ∧ dl.all isSpace = true := by
  obtain ⟨ws, hx, hws⟩ := ltrim_decomp x
  obtain ⟨dl, hl, hdl⟩ := rtrim_decomp (ltrim x)
  refine ⟨ws, dl, ?_, hws, hdl⟩
  unfold strip
  rw [List.append_assoc, ← hl]; exact hx

/-- surrounding whitespace around a core that starts and ends with a non-space byte is removed exactly -/
theorem strip_core (ws core dl : Bytes) (hws : ws.all isSpace = true) (hdl : dl.all isSpace = true)
    (hne : core ≠ []) (hhead : ∀ c, core.head? = some c → isSpace c = false)
    (hlast : ∀ c, core.getLast? = some c → isSpace c = false) : strip (ws ++ core ++ dl) = core := by
  unfold strip
  rw [List.append_assoc, ltrim_spaces_append _ _ hws]
  cases core with
  | nil => exact absurd rfl hne
  | cons c cs =>
    have hc := hhead c rfl
    rw [List.cons_append, ltrim_cons_nonspace _ _ hc, ← List.cons_append, rtrim_append_spaces _ _ hdl]
    cases hl : (c :: cs).getLast? with
    | none => simp at hl
    | some d => exact rtrim_of_getLast _ d hl (hlast d hl)

theorem strip_spaces (t : Bytes) (ht : t.all isSpace = true) : strip t = [] := by
  unfold strip
  have := ltrim_spaces_append t [] ht
  simp only [List.append_nil] at this
  rw [this]; rfl

theorem strip_eq_nil_iff (x : Bytes) : strip x = [] ↔ x.all isSpace = true := by
  constructor
  · intro h
    obtain ⟨ws, dl, hx, hws, hdl⟩ := strip_decomp x
    rw [h] at hx
    rw [hx]; simp [hws, hdl]
  · exact strip_spaces x

end SquidModel.Header
