/-
Facts about what the field scan hands to the Content-Length interpreter: values are trimmed, and the value of a
framing field (Content-Length, Transfer-Encoding) comes from a single line, hence has no LF.
-/
import SquidModel.Header.CompleteLemmas

namespace SquidModel.Header
open SquidModel

theorem ltrim_ltrim (x : Bytes) : ltrim (ltrim x) = ltrim x := by
  cases h : ltrim x with
  | nil => rfl
  | cons c r =>
    have := ltrim_head x c (by rw [h]; rfl)
    exact ltrim_cons_nonspace c r this

theorem strip_trimmed (x : Bytes) : strip (rtrim (ltrim x)) = rtrim (ltrim x) := by
  rw [strip_rtrim]
  unfold strip
  rw [ltrim_ltrim]

theorem rtrim_sublist (x : Bytes) : (rtrim x).Sublist x := by
  obtain ⟨t, hx, _⟩ := rtrim_decomp x
  conv => rhs; rw [hx]
  exact List.sublist_append_left _ _

theorem ltrim_sublist (x : Bytes) : (ltrim x).Sublist x := List.dropWhile_sublist _

theorem splitLines_noLF : ∀ (b : Bytes), ∀ l ∈ (splitLines b).1, (10 : UInt8) ∉ l := by
  intro b
  induction b with
  | nil => intro l hl; simp [splitLines] at hl
  | cons c r ih =>
    intro l hl
    unfold splitLines at hl
    by_cases hc : (c == 10) = true
    · simp only [hc, if_true, List.mem_cons] at hl
      rcases hl with rfl | hl
      · simp
      · exact ih l hl
    · simp only [hc, Bool.false_eq_true, if_false] at hl
      cases hs : (splitLines r).1 with
      | nil => rw [hs] at hl; simp at hl
      | cons x xs =>
        rw [hs] at hl ih
        simp only [List.mem_cons] at hl
        rcases hl with rfl | hl
        · have := ih x (by simp)
          simp only [List.mem_cons, not_or]
          exact ⟨by intro h; rw [← h] at hc; simp at hc, this⟩
        · exact ih l (by simp [hl])

theorem procLine_body_notMem (x : UInt8) (hx : x ≠ 32) (cfg : Cfg) (first : Bool) (line : Bytes) (p : PLine) (h : procLine cfg first line = some p)
    (hl : x ∉ line) : x ∉ p.body := by
  unfold procLine at h
  simp only [] at h
  have hb : x ∉ (if (line.getLast? == some 13) = true then line.dropLast else line) := by
    split
    · intro hm; exact hl ((List.dropLast_sublist line).subset hm)
    · exact hl
  generalize (if (line.getLast? == some 13) = true then line.dropLast else line) = body at h hb
  generalize (line.getLast? == some 13) = hadCr at h
  have hb' : x ∉ (if body.contains 13 = true then body.map (fun c => if c == 13 then 32 else c) else body) := by
    split
    · intro hm
      simp only [List.mem_map] at hm
      obtain ⟨a, ha, hae⟩ := hm
      by_cases h13 : (a == 13) = true
      · simp only [h13, if_true] at hae; exact hx hae.symm
      · simp only [h13, Bool.false_eq_true, if_false] at hae
        rw [hae] at ha; exact hb ha
    · exact hb
  generalize (if body.contains 13 = true then body.map (fun c => if c == 13 then 32 else c) else body) = body' at h hb'
  split at h
  · simp at h
  · split at h
    · simp at h
    · split at h
      · simp at h
      · simp only [Option.some.injEq] at h
        rw [← h]
        exact hb'

theorem procLine_body_noLF (cfg : Cfg) (first : Bool) (line : Bytes) (p : PLine) (h : procLine cfg first line = some p)
    (hl : (10 : UInt8) ∉ line) : (10 : UInt8) ∉ p.body := procLine_body_notMem 10 (by decide) cfg first line p h hl

theorem procLines_length (cfg : Cfg) : ∀ (ls : List Bytes) (first : Bool) (pls : List PLine),
    procLines cfg first ls = some pls → pls.length = ls.length := by
  intro ls
  induction ls with
  | nil => intro first pls h; simp [procLines] at h; rw [h]; rfl
  | cons l ls ih =>
    intro first pls h
    unfold procLines at h
    cases hp : procLine cfg first l with
    | none => simp [hp] at h
    | some p =>
      simp only [hp] at h
      cases hps : procLines cfg false ls with
      | none => simp [hps] at h
      | some ps =>
        simp only [hps, Option.some.injEq] at h
        rw [← h]; simp [ih false ps hps]

theorem parseEntry_value (cfg : Cfg) (field : Bytes) (e : Entry) (h : parseEntry cfg field = some e) :
    strip e.value = e.value ∧ e.value.Sublist field := by
  unfold parseEntry at h
  split at h
  · simp at h
  · split at h
    · simp at h
    · split at h
      · simp at h
      · simp only [] at h
        split at h
        · simp at h
        · simp only [Option.some.injEq] at h
          rw [← h]
          simp only []
          refine ⟨strip_trimmed _, ?_⟩
          exact ((rtrim_sublist _).trans (ltrim_sublist _)).trans ((List.drop_sublist _ _).trans (List.dropWhile_sublist _))

/-- every scanned entry has a trimmed value; a framing field's value has no LF -/
theorem scanLoop_values (cfg : Cfg) : ∀ (f : Nat) (lines : List Bytes) (tail : Bytes) (raw : List Entry),
    (∀ l ∈ lines, (10 : UInt8) ∉ l) → scanLoop cfg f lines tail = some raw →
    ∀ e ∈ raw, strip e.value = e.value ∧ (isFraming e.id = true → (10 : UInt8) ∉ e.value) := by
  intro f
  induction f with
  | zero => intro lines tail raw _ h; simp [scanLoop] at h
  | succ f ih =>
    intro lines tail raw hl h
    cases lines with
    | nil =>
      simp only [scanLoop] at h
      split at h
      · simp only [Option.some.injEq] at h; rw [← h]; intro e he; simp at he
      · simp at h
    | cons l ls =>
      simp only [scanLoop] at h
      split at h
      · simp at h
      · cases hp : procLines cfg true (l :: List.takeWhile startsWsp ls) with
        | none => simp [hp] at h
        | some pls =>
          simp only [hp] at h
          split at h
          · split at h
            · simp only [Option.some.injEq] at h; rw [← h]; intro e he; simp at he
            · simp at h
          · cases hpe : parseEntry cfg (assemble pls) with
            | none => simp [hpe] at h
            | some e0 =>
              simp only [hpe] at h
              split at h
              · simp at h
              · rename_i hfr
                cases hs : scanLoop cfg f (List.dropWhile startsWsp ls) tail with
                | none => simp [hs] at h
                | some raw' =>
                  simp only [hs, Option.map_some, Option.some.injEq] at h
                  rw [← h]
                  have hrest := ih (List.dropWhile startsWsp ls) tail raw'
                    (fun x hx => hl x (by simp [(List.dropWhile_sublist _).subset hx])) hs
                  intro e he
                  rcases List.mem_cons.mp he with rfl | he'
                  · obtain ⟨htr, hsub⟩ := parseEntry_value cfg _ _ hpe
                    refine ⟨htr, ?_⟩
                    intro hframing
                    -- a framing field is a single line without bare CR
                    simp only [hframing, Bool.and_true, Bool.or_eq_true, decide_eq_true_eq, not_or] at hfr
                    have hlen := procLines_length cfg _ true pls hp
                    have h1 : pls.length = 1 := by
                      simp only [List.length_cons] at hlen; omega
                    have htw : List.takeWhile startsWsp ls = [] := by
                      simp only [List.length_cons] at hlen
                      have : (List.takeWhile startsWsp ls).length = 0 := by omega
                      exact List.length_eq_zero_iff.mp this
                    rw [htw] at hp
                    unfold procLines at hp
                    cases hpl : procLine cfg true l with
                    | none => simp [hpl] at hp
                    | some p =>
                      simp only [hpl, procLines, Option.some.injEq] at hp
                      rw [← hp] at hsub
                      simp only [assemble] at hsub
                      have := procLine_body_noLF cfg true l p hpl (hl l (by simp))
                      intro hm; exact this (hsub.subset hm)
                  · exact hrest e he'

theorem rawEntries_values (cfg : Cfg) (block : Bytes) (raw : List Entry) (h : rawEntries cfg block = some raw) :
    ∀ e ∈ raw, strip e.value = e.value ∧ (isFraming e.id = true → (10 : UInt8) ∉ e.value) := by
  unfold rawEntries at h
  split at h
  · simp at h
  · exact scanLoop_values cfg _ _ _ raw (splitLines_noLF block) h

/-- a field all of whose values are decimals has no blank-but-not-skipped list member -/
theorem blankOk_of_decimal (relaxed : Bool) (v : Bytes) (h : ∀ x ∈ fieldValues relaxed v, ∃ k, decimalValue x = some k) : BlankOk v := by
  intro e he hs
  cases hl : e.all isListLead with
  | true => rfl
  | false =>
    exfalso
    unfold fieldValues at h
    by_cases hc : (relaxed && v.contains 44) = true
    · simp only [hc, if_true] at h
      have hel : strip e ∈ elements v := by
        unfold elements
        exact List.mem_map.mpr ⟨e, List.mem_filter.mpr ⟨he, by simp [hl]⟩, rfl⟩
      obtain ⟨k, hk⟩ := h _ hel
      rw [hs] at hk
      have : decimalValue [] = none := by decide
      rw [this] at hk; exact absurd hk (by simp)
    · simp only [hc, Bool.false_eq_true, if_false, List.mem_singleton, forall_eq] at h
      obtain ⟨k, hk⟩ := h
      obtain ⟨hne, hd, _, _⟩ := decimalValue_some _ _ hk
      by_cases h44 : (44 : UInt8) ∈ v
      · have := mem_strip 44 v h44 (by decide)
        simp only [List.all_eq_true] at hd
        exact absurd (hd 44 this) (by decide)
      · rw [splitComma_nocomma v h44] at he
        simp only [List.mem_singleton] at he
        rw [he] at hs
        exact hne hs

/-- the interpreter run over all Content-Length values of the message -/
theorem run_facts (cfg : Cfg) (raw es : List Entry) (cl : ClState)
    (hfold : clFold cfg.relaxed [] {} raw = some (es, cl)) :
    cl = runFields cfg.relaxed {} (clValues raw) ∧ Shape cfg.relaxed cl (clValues raw) ∧
    (cfg.relaxed = false → cl.sawBad = false ∧ cl.needsSanitizing = false) ∧
    ((∀ v ∈ clValues raw, BlankOk v) → Good cl ((clValues raw).flatMap (fieldValues cfg.relaxed))) := by
  obtain ⟨hrun, hshape, _, _, hstrict⟩ := clFold_spec cfg.relaxed raw [] {} [] es cl (shape_init cfg.relaxed) hfold
  refine ⟨hrun, by simpa using hshape, fun hr => by simpa using hstrict hr, ?_⟩
  intro hb
  have hg0 : Good ({} : ClState) [] := by intro _; exact ⟨by intro h; simp at h, fun _ => rfl⟩
  have := runFields_good cfg.relaxed (clValues raw) {} [] hb hg0
  rw [hrun]; simpa using this


end SquidModel.Header
