/-
Soundness of `checkValue` / `checkList` / `checkField` / the run over all fields.
-/
import SquidModel.Header.LoopLemmas

namespace SquidModel.Header
open SquidModel

/-- the state is consistent with the values `vals` seen so far -/
def Good (st : ClState) (vals : List Bytes) : Prop :=
  st.sawBad = false →
    (st.sawGood = true → 0 ≤ st.value ∧ ∀ x ∈ vals, decimalValue x = some st.value.toNat) ∧
    (st.sawGood = false → vals = [])

theorem good_of_bad (st : ClState) (vals : List Bytes) (h : st.sawBad = true) : Good st vals := by
  intro hb; rw [h] at hb; exact absurd hb (by simp)

theorem valueOf_noquote (relaxed : Bool) (item after : Bytes) (n : Int)
    (hafter : ∀ c, after.head? = some c → isDigit c = false)
    (h : valueOf relaxed item after = some n) : (34 : UInt8) ∉ item := by
  obtain ⟨ws, ds, dl, hitem, hws, _, hds, hdl, _, _⟩ := valueOf_some relaxed item after n hafter h
  rw [hitem]
  simp only [List.mem_append, not_or, List.all_eq_true] at hws hds hdl ⊢
  refine ⟨⟨?_, ?_⟩, ?_⟩
  · intro hm; exact (space_ne 34 (ws_isSpace relaxed 34 (hws 34 hm))).1 rfl
  · intro hm; exact (digit_ne 34 (hds 34 hm)).2.2.1 rfl
  · intro hm; exact (space_ne 34 (delim_isSpace relaxed 34 (hdl 34 hm))).1 rfl

/-- `checkValue` keeps the state consistent -/
theorem checkValue_good (relaxed : Bool) (st : ClState) (item after : Bytes) (vals : List Bytes)
    (hafter : ∀ c, after.head? = some c → isDigit c = false)
    (hg : Good st vals) (hbad : st.sawBad = false) :
    Good (checkValue relaxed st item after).1 (vals ++ [strip item]) := by
  unfold checkValue
  cases hv : valueOf relaxed item after with
  | none => exact good_of_bad _ _ rfl
  | some n =>
    obtain ⟨hn0, hdec⟩ := valueOf_decimal relaxed item after n hafter hv
    have hgs := hg hbad
    simp only []
    by_cases hsg : st.sawGood = true
    · simp only [hsg, if_true]
      by_cases hconf : (st.value != n) = true
      · apply good_of_bad; simp [hconf]
      · have heq : st.value = n := by simpa using hconf
        intro hb
        simp only [hsg, true_implies] at hgs ⊢
        refine ⟨⟨hgs.1.1, ?_⟩, by simp⟩
        intro x hx
        rcases List.mem_append.mp hx with hx | hx
        · exact hgs.1.2 x hx
        · simp only [List.mem_singleton] at hx; rw [hx, heq]; exact hdec
    · have hsg' : st.sawGood = false := by simpa using hsg
      simp only [hsg', Bool.false_eq_true, if_false]
      intro _
      have hv0 : vals = [] := hgs.2 hsg'
      refine ⟨fun _ => ⟨hn0, ?_⟩, by simp⟩
      intro x hx
      rw [hv0] at hx
      simp only [List.nil_append, List.mem_singleton] at hx
      rw [hx]; exact hdec

theorem checkValue_sawBad_of_none (relaxed : Bool) (st : ClState) (item after : Bytes)
    (hv : valueOf relaxed item after = none) : (checkValue relaxed st item after).1.sawBad = true := by
  unfold checkValue; simp [hv]

/-- if `checkValue` leaves `sawBad` clear, the item was a valid value -/
theorem checkValue_valid_of_not_bad (relaxed : Bool) (st : ClState) (item after : Bytes)
    (h : (checkValue relaxed st item after).1.sawBad = false) : ∃ n, valueOf relaxed item after = some n := by
  cases hv : valueOf relaxed item after with
  | none => rw [checkValue_sawBad_of_none relaxed st item after hv] at h; exact absurd h (by simp)
  | some n => exact ⟨n, rfl⟩

/-- the `while (strListGetItem(…))` loop of `checkList` -/
theorem loop_good : ∀ (fuel : Nat) (st : ClState) (pos : Bytes) (vals : List Bytes),
    pos.length < fuel → BlankOk pos → st.sawBad = false → Good st vals →
    Good (checkListLoop true fuel st pos) (vals ++ elements pos) := by
  intro fuel
  induction fuel with
  | zero => intro st pos vals h; omega
  | succ fuel ih =>
    intro st pos vals hlen hb hbad hg
    unfold checkListLoop
    cases hgi : strListGetItem pos with
    | mk r rest =>
      cases r with
      | none =>
        simp only []
        rw [getItem_none pos rest hgi hb, List.append_nil]; exact hg
      | some it =>
        simp only []
        cases hcv : checkValue true st it.item it.after with
        | mk st' ok =>
          simp only []
          by_cases hstop : (!ok && st'.sawBad) = true
          · simp only [hstop, if_true]
            apply good_of_bad
            simp only [Bool.and_eq_true] at hstop; exact hstop.2
          · simp only [hstop, Bool.false_eq_true, if_false]
            -- the loop goes on: the item was valid and the state is not bad
            have hst' : st' = (checkValue true st it.item it.after).1 := by rw [hcv]
            have hok' : ok = (checkValue true st it.item it.after).2 := by rw [hcv]
            have hnb : st'.sawBad = false := by
              cases hsb : st'.sawBad with
              | false => rfl
              | true =>
                -- then ok must be true; a true result never sets sawBad
                have hokt : ok = true := by
                  cases ok with
                  | true => rfl
                  | false => simp [hsb] at hstop
                rw [hst'] at hsb; rw [hok'] at hokt
                unfold checkValue at hsb hokt
                cases hv : valueOf true it.item it.after with
                | none => simp [hv] at hokt
                | some n =>
                  simp only [hv] at hsb hokt
                  by_cases hsg : st.sawGood = true
                  · simp [hsg] at hokt
                  · simp [hsg, hbad] at hsb
            obtain ⟨n, hv⟩ := checkValue_valid_of_not_bad true st it.item it.after (by rw [← hst']; exact hnb)
            -- after-condition needs the item facts, which need "no quote", which needs the after-condition:
            -- get the after-condition first from the scan alone
            have hq : (34 : UInt8) ∉ it.item → _ := getItem_some pos it rest hgi
            have hafter : ∀ c, it.after.head? = some c → isDigit c = false := by
              -- independent of the quote question: repeat the argument on the raw scan
              unfold strListGetItem at hgi
              simp only [rtrimSplit] at hgi
              generalize hs1 : pos.dropWhile isListLead = s1 at hgi
              have hrest := scanItem_rest s1 false
              generalize hraw : (scanItem s1 false).1 = raw at hgi
              generalize hrst : (scanItem s1 false).2 = rst at hgi hrest
              by_cases hemp : (rtrim raw).isEmpty = true
              · simp [hemp] at hgi
              · simp only [hemp, Bool.false_eq_true, if_false, Prod.mk.injEq, Option.some.injEq] at hgi
                obtain ⟨t, hrawt, ht⟩ := rtrim_decomp raw
                have hdrop : raw.drop (rtrim raw).length = t := by
                  have := congrArg (List.drop (rtrim raw).length) hrawt
                  rw [List.drop_left] at this
                  exact this
                have haf : it.after = t ++ rst := by rw [← hgi.1, hdrop]
                intro c hc
                rw [haf] at hc
                cases t with
                | nil =>
                  rcases hrest with h0 | ⟨r, hr⟩
                  · rw [h0] at hc; simp at hc
                  · rw [hr] at hc
                    have : c = 44 := by simpa using hc.symm
                    subst this; decide
                | cons a b =>
                  have : c = a := by simpa using hc.symm
                  subst this
                  simp only [List.all_cons, Bool.and_eq_true] at ht
                  cases hd : isDigit c with
                  | false => rfl
                  | true => have := digit_not_space c hd; rw [ht.1] at this; exact absurd this (by simp)
            have hnq := valueOf_noquote true it.item it.after n hafter hv
            obtain ⟨hel, hbr, hlt, _, _, _⟩ := hq hnq
            have hg' : Good st' (vals ++ [strip it.item]) := by
              rw [hst']; exact checkValue_good true st it.item it.after vals hafter hg hbad
            have := ih st' rest (vals ++ [strip it.item]) (by omega) (hbr hb) hnb hg'
            rw [hel]
            simpa using this

/-- `checkField` keeps the state consistent with all values of the field -/
theorem checkField_good (relaxed : Bool) (st : ClState) (v : Bytes) (vals : List Bytes)
    (hb : BlankOk v) (hg : Good st vals) : Good (checkField relaxed st v).1 (vals ++ fieldValues relaxed v) := by
  unfold checkField
  by_cases hbad : st.sawBad = true
  · simp only [hbad, if_true]; exact good_of_bad _ _ hbad
  · have hbad' : st.sawBad = false := by simpa using hbad
    simp only [hbad', Bool.false_eq_true, if_false]
    by_cases hc : v.contains 44 = true
    · simp only [hc, if_true]
      unfold checkList
      cases relaxed with
      | false => exact good_of_bad _ _ rfl
      | true =>
        simp only [Bool.not_true, Bool.false_eq_true, if_false, fieldValues, hc, Bool.and_self, if_true]
        split
        · exact good_of_bad _ _ rfl
        · exact loop_good (v.length + 1) { st with needsSanitizing := true } v vals (by omega) hb hbad' hg
    · simp only [hc, Bool.false_eq_true, if_false, fieldValues, Bool.and_false]
      exact checkValue_good relaxed st v [] vals (by simp) hg hbad'

theorem runFields_good (relaxed : Bool) : ∀ (vs : List Bytes) (st : ClState) (vals : List Bytes),
    (∀ v ∈ vs, BlankOk v) → Good st vals → Good (runFields relaxed st vs) (vals ++ vs.flatMap (fieldValues relaxed)) := by
  intro vs
  induction vs with
  | nil => intro st vals _ hg; simpa [runFields] using hg
  | cons v vs ih =>
    intro st vals hb hg
    have h1 := checkField_good relaxed st v vals (hb v (by simp)) hg
    have := ih (checkField relaxed st v).1 (vals ++ fieldValues relaxed v) (fun w hw => hb w (by simp [hw])) h1
    simpa [runFields, List.flatMap_cons] using this

end SquidModel.Header
