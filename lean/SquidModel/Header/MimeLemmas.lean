/-
`unfoldMime`: an obs-fold (CR* LF followed by SP/HT) after a non-empty line text becomes one SP; other line ends are kept.
-/
import SquidModel.Header.Mime
import SquidModel.Header.ValueLemmas

namespace SquidModel.Header
open SquidModel

/-- one line end: `blob CR* LF` followed by `ws ++ rest` where `rest` does not start with SP/HT -/
theorem unfoldLoop_line (f : Nat) (blob crs ws rest : Bytes) (hb : blob.all nonCrLf = true) (hc : crs.all (· == 13) = true)
    (hw : ws.all isWsp = true) (hr : ∀ c, rest.head? = some c → isWsp c = false) :
    unfoldLoop (f + 1) (blob ++ crs ++ 10 :: (ws ++ rest)) =
      if ws.isEmpty then blob ++ crs ++ [10] ++ unfoldLoop f rest else blob ++ [32] ++ unfoldLoop f rest := by
  have h1 := takeWhile_append_of_head (p := nonCrLf) blob (crs ++ 10 :: (ws ++ rest)) hb (by
    intro c hc'
    cases crs with
    | nil => simp at hc'; rw [← hc']; decide
    | cons a b =>
      simp only [List.all_cons, Bool.and_eq_true, beq_iff_eq] at hc
      simp at hc'; rw [← hc', hc.1]; decide)
  have h2 := takeWhile_append_of_head (p := (· == 13)) crs (10 :: (ws ++ rest)) hc (by intro c hc'; simp at hc'; rw [← hc']; decide)
  have h3 := takeWhile_append_of_head (p := isWsp) ws rest hw hr
  have hs : blob ++ crs ++ 10 :: (ws ++ rest) = blob ++ (crs ++ 10 :: (ws ++ rest)) := by simp
  cases hsc : blob ++ (crs ++ 10 :: (ws ++ rest)) with
  | nil => simp at hsc
  | cons c r =>
    rw [hs, hsc, unfoldLoop, ← hsc]
    simp only [h1.1, h1.2, h2.1, h2.2, h3.1, h3.2]
    · cases ws with
      | nil => simp
      | cons a b => simp
    · intro h; cases h

/-- **obs-fold joined.** A field line continued by an obs-fold comes out of `unfoldMime` as one line with a single SP in place of the
fold (`text` = everything before the line end, `cont` = the continuation after its leading SP/HT). -/
theorem unfoldMime_joins (text crs ws cont : Bytes) (ht : text.all nonCrLf = true) (hcr : crs.all (· == 13) = true)
    (hws : ws ≠ []) (hw : ws.all isWsp = true) (hc : cont.all nonCrLf = true)
    (hch : ∀ c, cont.head? = some c → isWsp c = false) :
    unfoldMime (text ++ crs ++ 10 :: (ws ++ (cont ++ [13, 10]))) = text ++ [32] ++ cont ++ [13, 10] := by
  unfold unfoldMime
  have hlen : (text ++ crs ++ 10 :: (ws ++ (cont ++ [13, 10]))).length + 1 = (text.length + crs.length + ws.length + cont.length + 1) + 1 + 1 + 1 := by
    simp; omega
  rw [hlen]
  have hr1 : ∀ c, (cont ++ [13, 10]).head? = some c → isWsp c = false := by
    intro c h
    cases cont with
    | nil => simp at h; rw [← h]; decide
    | cons a b => exact hch c (by simpa using h)
  rw [unfoldLoop_line _ text crs ws (cont ++ [13, 10]) ht hcr hw hr1]
  have hwe : ws.isEmpty = false := by cases ws <;> simp_all
  simp only [hwe, Bool.false_eq_true, if_false]
  have e : cont ++ [13, 10] = cont ++ [13] ++ 10 :: ([] ++ []) := by simp
  rw [e, unfoldLoop_line _ cont [13] [] [] hc (by decide) (by simp) (by simp)]
  simp [unfoldLoop]

end SquidModel.Header
