/-
`strListGetItem` / `scanItem` versus the plain comma split of the specification.
-/
import SquidModel.Header.ValueLemmas

namespace SquidModel.Header
open SquidModel

/-! ### scanItem -/

theorem scanItem_append : ∀ (s : Bytes) (q : Bool), (scanItem s q).1 ++ (scanItem s q).2 = s := by
  intro s q
  fun_induction scanItem s q <;> simp_all <;> assumption

theorem scanItem_rest : ∀ (s : Bytes) (q : Bool), (scanItem s q).2 = [] ∨ ∃ r, (scanItem s q).2 = 44 :: r := by
  intro s q
  fun_induction scanItem s q <;> simp_all <;> assumption

/-- an item without a quote has no comma: it ends at the first comma -/
theorem scanItem_noquote (s : Bytes) (h : (34 : UInt8) ∉ (scanItem s false).1) : (44 : UInt8) ∉ (scanItem s false).1 := by
  induction s with
  | nil => simp [scanItem]
  | cons c r ih =>
    unfold scanItem at h ⊢
    by_cases h44 : (c == 44) = true
    · simp [h44]
    · by_cases h34 : (c == 34) = true
      · have : c = 34 := by simpa using h34
        simp [this] at h
      · simp only [h44, h34, Bool.false_eq_true, if_false, List.mem_cons, not_or] at h ⊢
        exact ⟨by intro e; rw [← e] at h44; simp at h44, ih h.2⟩

theorem scanItem_of_noquote (s : Bytes) (h : (34 : UInt8) ∉ s) :
    scanItem s false = (s.takeWhile (· != 44), s.dropWhile (· != 44)) := by
  induction s with
  | nil => simp [scanItem]
  | cons c r ih =>
    simp only [List.mem_cons, not_or] at h
    have h34 : (c == 34) = false := by simpa using fun e => h.1 e.symm
    unfold scanItem
    by_cases h44 : (c == 44) = true
    · have hc : c = 44 := by simpa using h44
      simp [hc]
    · have : (c != 44) = true := by simpa using h44
      simp [h44, h34, ih h.2, this]

/-! ### splitComma / elements -/

theorem splitComma_ne_nil (s : Bytes) : splitComma s ≠ [] := by
  cases s with
  | nil => simp [splitComma]
  | cons c r =>
    unfold splitComma
    by_cases h : (c == 44) = true
    · simp [h]
    · simp only [h, Bool.false_eq_true, if_false]
      split <;> simp

theorem splitComma_cons_other (c : UInt8) (r : Bytes) (hc : c ≠ 44) :
    ∃ h t, splitComma r = h :: t ∧ splitComma (c :: r) = (c :: h) :: t := by
  have hne := splitComma_ne_nil r
  cases hs : splitComma r with
  | nil => exact absurd hs hne
  | cons h t =>
    refine ⟨h, t, rfl, ?_⟩
    have : (c == 44) = false := by simpa using hc
    rw [splitComma, this]
    simp [hs]

theorem splitComma_nocomma (a : Bytes) (h : (44 : UInt8) ∉ a) : splitComma a = [a] := by
  induction a with
  | nil => rfl
  | cons c r ih =>
    simp only [List.mem_cons, not_or] at h
    obtain ⟨x, t, hx, hc⟩ := splitComma_cons_other c r (fun e => h.1 e.symm)
    rw [hc]
    rw [ih h.2] at hx
    simp only [List.cons.injEq] at hx
    rw [← hx.1, ← hx.2]

theorem splitComma_nocomma_append (a b : Bytes) (h : (44 : UInt8) ∉ a) : splitComma (a ++ 44 :: b) = a :: splitComma b := by
  induction a with
  | nil => simp [splitComma]
  | cons c r ih =>
    simp only [List.mem_cons, not_or] at h
    obtain ⟨x, t, hx, hc⟩ := splitComma_cons_other c (r ++ 44 :: b) (fun e => h.1 e.symm)
    rw [List.cons_append, hc]
    rw [ih h.2] at hx
    simp only [List.cons.injEq] at hx
    rw [← hx.1, ← hx.2]

def optElem (a : Bytes) : List Bytes := if a.all isListLead then [] else [strip a]

theorem elements_nil : elements [] = [] := by simp [elements, splitComma]

theorem elements_nocomma (a : Bytes) (h : (44 : UInt8) ∉ a) : elements a = optElem a := by
  unfold elements optElem
  rw [splitComma_nocomma a h]
  by_cases he : a.all isListLead = true <;> simp [he]

theorem elements_nocomma_append (a b : Bytes) (h : (44 : UInt8) ∉ a) :
    elements (a ++ 44 :: b) = optElem a ++ elements b := by
  unfold elements optElem
  rw [splitComma_nocomma_append a b h]
  by_cases he : a.all isListLead = true <;> simp [he]

theorem strip_cons_space (c : UInt8) (s : Bytes) (h : isSpace c = true) : strip (c :: s) = strip s := by
  unfold strip; rw [ltrim_cons_space c s h]

theorem elements_cons_lead (c : UInt8) (s : Bytes) (h : isListLead c = true) : elements (c :: s) = elements s := by
  rcases listLead_cases c h with h44 | hsp
  · subst h44
    unfold elements
    simp [splitComma]
  · have hc : c ≠ 44 := (space_ne c hsp).2
    obtain ⟨x, t, hx, hcs⟩ := splitComma_cons_other c s hc
    unfold elements
    rw [hcs, hx]
    by_cases hxl : x.all isListLead = true
    · simp [h, hxl]
    · simp [h, hxl, strip_cons_space c x hsp]

theorem elements_dropWhile_lead (s : Bytes) : elements (s.dropWhile isListLead) = elements s := by
  induction s with
  | nil => rfl
  | cons c r ih =>
    by_cases h : isListLead c = true
    · rw [List.dropWhile_cons_of_pos h, ih, elements_cons_lead c r h]
    · rw [List.dropWhile_cons_of_neg h]

/-! ### BlankOk -/

theorem blankOk_cons_lead (c : UInt8) (s : Bytes) (h : isListLead c = true) (hb : BlankOk (c :: s)) : BlankOk s := by
  rcases listLead_cases c h with h44 | hsp
  · subst h44
    intro e he hs
    exact hb e (by simp [splitComma, he]) hs
  · have hc : c ≠ 44 := (space_ne c hsp).2
    obtain ⟨x, t, hx, hcs⟩ := splitComma_cons_other c s hc
    intro e he hs
    rw [hx] at he
    rcases List.mem_cons.mp he with rfl | het
    · have := hb (c :: e) (by rw [hcs]; simp) (by rw [strip_cons_space c e hsp]; exact hs)
      simp only [List.all_cons, Bool.and_eq_true] at this
      exact this.2
    · exact hb e (by rw [hcs]; simp [het]) hs

theorem blankOk_dropWhile_lead (s : Bytes) (hb : BlankOk s) : BlankOk (s.dropWhile isListLead) := by
  induction s with
  | nil => exact hb
  | cons c r ih =>
    by_cases h : isListLead c = true
    · rw [List.dropWhile_cons_of_pos h]; exact ih (blankOk_cons_lead c r h hb)
    · rw [List.dropWhile_cons_of_neg h]; exact hb

theorem blankOk_nocomma (a : Bytes) (h : (44 : UInt8) ∉ a) (hb : BlankOk a) (hs : strip a = []) : a.all isListLead = true :=
  hb a (by rw [splitComma_nocomma a h]; simp) hs

theorem blankOk_nocomma_append (a b : Bytes) (h : (44 : UInt8) ∉ a) (hb : BlankOk (a ++ 44 :: b)) :
    (strip a = [] → a.all isListLead = true) ∧ BlankOk b := by
  constructor
  · intro hs; exact hb a (by rw [splitComma_nocomma_append a b h]; simp) hs
  · intro e he hs; exact hb e (by rw [splitComma_nocomma_append a b h]; simp [he]) hs

end SquidModel.Header
