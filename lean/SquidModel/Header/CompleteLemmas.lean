/-
Completeness of the Content-Length interpreter: unambiguous values are accepted.
-/
import SquidModel.Header.FoldLemmas

namespace SquidModel.Header
open SquidModel

theorem mem_splitComma (c : UInt8) (hc : c ≠ 44) : ∀ v : Bytes, c ∈ v → ∃ e ∈ splitComma v, c ∈ e := by
  intro v
  induction v with
  | nil => intro h; simp at h
  | cons a r ih =>
    intro h
    by_cases ha : a = 44
    · subst ha
      have hr : c ∈ r := by
        rcases List.mem_cons.mp h with h1 | h1
        · exact absurd h1 hc
        · exact h1
      obtain ⟨e, he, hce⟩ := ih hr
      exact ⟨e, by simp [splitComma, he], hce⟩
    · obtain ⟨x, t, hx, hcs⟩ := splitComma_cons_other a r ha
      rw [hcs]
      rcases List.mem_cons.mp h with h1 | h1
      · exact ⟨a :: x, by simp, by simp [h1]⟩
      · obtain ⟨e, he, hce⟩ := ih h1
        rw [hx] at he
        rcases List.mem_cons.mp he with rfl | het
        · exact ⟨a :: e, by simp, by simp [hce]⟩
        · exact ⟨e, by simp [het], hce⟩

theorem mem_strip (c : UInt8) (e : Bytes) (hc : c ∈ e) (hs : isSpace c = false) : c ∈ strip e := by
  obtain ⟨ws, dl, he, hws, hdl⟩ := strip_decomp e
  rw [he] at hc
  simp only [List.mem_append, List.all_eq_true] at hc hws hdl
  rcases hc with (h1 | h1) | h1
  · rw [hws c h1] at hs; exact absurd hs (by simp)
  · exact h1
  · rw [hdl c h1] at hs; exact absurd hs (by simp)

theorem noquote_of_elements_decimal (v : Bytes) (h : ∀ x ∈ elements v, ∃ k, decimalValue x = some k) : (34 : UInt8) ∉ v := by
  intro hq
  obtain ⟨e, he, hce⟩ := mem_splitComma 34 (by decide) v hq
  have hms := mem_strip 34 e hce (by decide)
  have hel : strip e ∈ elements v := by
    unfold elements
    refine List.mem_map.mpr ⟨e, List.mem_filter.mpr ⟨he, ?_⟩, rfl⟩
    cases hl : e.all isListLead with
    | false => rfl
    | true =>
      simp only [List.all_eq_true] at hl
      exact absurd (hl 34 hce) (by decide)
  obtain ⟨k, hk⟩ := h _ hel
  obtain ⟨_, hall, _, _⟩ := decimalValue_some _ _ hk
  simp only [List.all_eq_true] at hall
  exact absurd (hall 34 hms) (by decide)

theorem getItem_subset (pos : Bytes) (it : ListItem) (rest : Bytes) (h : strListGetItem pos = (some it, rest)) :
    ∀ c, (c ∈ it.item ∨ c ∈ rest) → c ∈ pos := by
  unfold strListGetItem at h
  simp only [rtrimSplit] at h
  generalize hs1 : pos.dropWhile isListLead = s1 at h
  have happ := scanItem_append s1 false
  generalize hraw : (scanItem s1 false).1 = raw at h happ
  generalize hrst : (scanItem s1 false).2 = rst at h happ
  by_cases hemp : (rtrim raw).isEmpty = true
  · simp [hemp] at h
  · simp only [hemp, Bool.false_eq_true, if_false, Prod.mk.injEq, Option.some.injEq] at h
    obtain ⟨hit, hrr⟩ := h
    subst hrr
    obtain ⟨t, hrawt, _⟩ := rtrim_decomp raw
    have hitem : it.item = rtrim raw := by rw [← hit]
    intro c hc
    have hs1mem : c ∈ s1 := by
      rw [← happ]
      rcases hc with h1 | h1
      · rw [hitem] at h1; rw [hrawt]; simp [h1]
      · simp [h1]
    rw [← hs1] at hs1mem
    exact (List.dropWhile_sublist _).subset hs1mem

/-- the loop of `checkList` over a list whose members all denote `n` -/
theorem loop_complete (n : Int) : ∀ (fuel : Nat) (st : ClState) (pos : Bytes),
    pos.length < fuel → BlankOk pos → (10 : UInt8) ∉ pos → (34 : UInt8) ∉ pos →
    (∀ x ∈ elements pos, decimalValue x = some n.toNat) → 0 ≤ n →
    st.sawBad = false → (st.sawGood = true → st.value = n) →
    (checkListLoop true fuel st pos).sawBad = false ∧
    (checkListLoop true fuel st pos).sawGood = (st.sawGood || !(elements pos).isEmpty) ∧
    ((checkListLoop true fuel st pos).sawGood = true → (checkListLoop true fuel st pos).value = n) := by
  intro fuel
  induction fuel with
  | zero => intro st pos h; omega
  | succ fuel ih =>
    intro st pos hlen hb hlf hq hall hn0 hbad hval
    unfold checkListLoop
    cases hgi : strListGetItem pos with
    | mk r rest =>
      cases r with
      | none =>
        simp only []
        rw [getItem_none pos rest hgi hb]
        exact ⟨hbad, by simp, hval⟩
      | some it =>
        simp only []
        have hsub := getItem_subset pos it rest hgi
        have hqi : (34 : UInt8) ∉ it.item := fun hm => hq (hsub 34 (Or.inl hm))
        obtain ⟨hel, hbr, hlt, _, hafter, hlf2⟩ := getItem_some pos it rest hgi hqi
        have hdec : decimalValue (strip it.item) = some n.toNat := hall _ (by rw [hel]; simp)
        have hv : valueOf true it.item it.after = some n := by
          have := valueOf_of_decimal true it.item it.after n.toNat hafter hdec (hlf2 hlf).2 (Or.inl rfl)
          rw [this]; congr 1; omega
        have hall' : ∀ x ∈ elements rest, decimalValue x = some n.toNat := fun x hx => hall x (by rw [hel]; simp [hx])
        have hq' : (34 : UInt8) ∉ rest := fun hm => hq (hsub 34 (Or.inr hm))
        unfold checkValue
        simp only [hv]
        by_cases hsg : st.sawGood = true
        · have hvn := hval hsg
          have hnc : (st.value != n) = false := by simp [hvn]
          simp only [hsg, if_true, hnc, Bool.not_true, Bool.or_self, Bool.false_eq_true, if_false, Bool.and_false]
          have := ih { st with needsSanitizing := true, headerWideProblem := (if st.headerWideProblem.isNone = true then some Problem.duplicate else st.headerWideProblem), sawBad := false } rest
            (by omega) (hbr hb) (hlf2 hlf).1 hq' hall' hn0 rfl (by intro _; exact hvn)
          simp only [hsg, Bool.true_or] at this ⊢
          exact this
        · have hsg' : st.sawGood = false := by simpa using hsg
          simp only [hsg', Bool.false_eq_true, if_false, Bool.not_true, Bool.false_and]
          have := ih { st with sawGood := true, value := n } rest (by omega) (hbr hb) (hlf2 hlf).1 hq' hall' hn0 hbad (by intro _; rfl)
          simp only [Bool.true_or] at this
          rw [hel]
          simpa using this

end SquidModel.Header

namespace SquidModel.Header
open SquidModel

/-- one field whose values all denote `n` -/
theorem checkField_complete (relaxed : Bool) (st : ClState) (v : Bytes) (n : Int)
    (hb : BlankOk v) (hlf : (10 : UInt8) ∉ v) (htrim : strip v = v)
    (hne : fieldValues relaxed v ≠ []) (hall : ∀ x ∈ fieldValues relaxed v, decimalValue x = some n.toNat) (hn0 : 0 ≤ n)
    (hbad : st.sawBad = false) (hval : st.sawGood = true → st.value = n)
    (hstrict : relaxed = false → st.sawGood = false) :
    (checkField relaxed st v).1.sawBad = false ∧ (checkField relaxed st v).1.sawGood = true ∧
    (checkField relaxed st v).1.value = n ∧
    (relaxed = false → (checkField relaxed st v).2 = true) := by
  unfold checkField
  simp only [hbad, Bool.false_eq_true, if_false]
  by_cases hc : v.contains 44 = true
  · cases relaxed with
    | false =>
      -- strict: the whole value must be a decimal, which has no comma
      exfalso
      simp only [fieldValues, Bool.false_and, Bool.false_eq_true, if_false, List.mem_singleton, forall_eq] at hall
      obtain ⟨_, hd, _, _⟩ := decimalValue_some _ _ hall
      rw [htrim] at hd
      simp only [List.all_eq_true] at hd
      have : (44 : UInt8) ∈ v := by simpa using hc
      exact absurd (hd 44 this) (by decide)
    | true =>
      simp only [hc, if_true]
      unfold checkList
      simp only [Bool.not_true, Bool.false_eq_true, if_false]
      simp only [fieldValues, hc, Bool.and_self, if_true] at hne hall
      have hq := noquote_of_elements_decimal v (fun x hx => ⟨_, hall x hx⟩)
      have := loop_complete n (v.length + 1) { st with needsSanitizing := true } v (by omega) hb hlf hq hall hn0 hbad hval
      have hne' : (elements v).isEmpty = false := by
        cases he : elements v with
        | nil => exact absurd he hne
        | cons a b => rfl
      simp only [hne', Bool.not_false, Bool.or_true] at this
      have hitems : (strListGetItem v).1.isNone = false := by
        cases hg : strListGetItem v with
        | mk r rest =>
          cases r with
          | some it => rfl
          | none => exact absurd (getItem_none v rest hg hb) hne
      simp only [hitems, loopEndsBlank_false, Bool.or_self, Bool.and_false, Bool.false_eq_true, if_false]
      exact ⟨this.1, this.2.1, this.2.2 this.2.1, by intro h; simp at h⟩
  · have hc' : v.contains 44 = false := by simpa using hc
    simp only [hc', Bool.false_eq_true, if_false]
    simp only [fieldValues, hc', Bool.and_false, Bool.false_eq_true, if_false, List.mem_singleton, forall_eq] at hall
    have hv : valueOf relaxed v [] = some n := by
      have := valueOf_of_decimal relaxed v [] n.toNat (by simp) hall hlf (Or.inr htrim)
      rw [this]; congr 1; omega
    unfold checkValue
    simp only [hv]
    by_cases hsg : st.sawGood = true
    · have hrel : relaxed = true := by
        cases hr : relaxed with
        | true => rfl
        | false => have := hstrict hr; rw [hsg] at this; exact absurd this (by simp)
      have hnc : (st.value != n) = false := by simp [hval hsg]
      simp [hsg, hrel, hval hsg]
    · simp [hsg, hbad]

/-- the fold over a message whose Content-Length values all denote `n` -/
theorem clFold_complete (relaxed : Bool) (n : Int) (hn0 : 0 ≤ n) : ∀ (raw es : List Entry) (cl : ClState),
    (∀ v ∈ clValues raw, BlankOk v ∧ (10 : UInt8) ∉ v ∧ strip v = v ∧ fieldValues relaxed v ≠ [] ∧
        ∀ x ∈ fieldValues relaxed v, decimalValue x = some n.toNat) →
    cl.sawBad = false → (cl.sawGood = true → cl.value = n) →
    (relaxed = false → clValues raw = [] ∨ (cl.sawGood = false ∧ (clValues raw).length ≤ 1)) →
    ∃ es' cl', clFold relaxed es cl raw = some (es', cl') ∧ cl'.sawBad = false ∧
      cl'.sawGood = (cl.sawGood || !(clValues raw).isEmpty) ∧ (cl'.sawGood = true → cl'.value = n) := by
  intro raw
  induction raw with
  | nil => intro es cl _ hbad hval _; exact ⟨es, cl, rfl, hbad, by simp [clValues], hval⟩
  | cons e raw ih =>
    intro es cl hvs hbad hval hstrict
    rw [clFold_cons_eq]
    rw [clValues_cons] at hvs hstrict ⊢
    by_cases hid : (e.id == idContentLength) = true
    · simp only [hid, if_true] at hvs hstrict ⊢
      obtain ⟨hb, hlf, htrim, hne, hall⟩ := hvs e.value (by simp)
      have hst : relaxed = false → cl.sawGood = false := by
        intro hr
        rcases hstrict hr with h1 | h1
        · simp at h1
        · exact h1.1
      obtain ⟨h1, h2, h3, h4⟩ := checkField_complete relaxed cl e.value n hb hlf htrim hne hall hn0 hbad hval hst
      have hrest : ∀ v ∈ clValues raw, BlankOk v ∧ (10 : UInt8) ∉ v ∧ strip v = v ∧ fieldValues relaxed v ≠ [] ∧
          ∀ x ∈ fieldValues relaxed v, decimalValue x = some n.toNat := fun v hv => hvs v (by simp [hv])
      have hstrict' : relaxed = false → clValues raw = [] ∨ ((checkField relaxed cl e.value).1.sawGood = false ∧ (clValues raw).length ≤ 1) := by
        intro hr
        rcases hstrict hr with h5 | h5
        · simp at h5
        · left
          have := h5.2
          simp only [List.length_cons] at this
          cases hcv : clValues raw with
          | nil => rfl
          | cons a b => rw [hcv] at this; simp at this
      by_cases hk : (checkField relaxed cl e.value).2 = true
      · simp only [hk, if_true]
        obtain ⟨es', cl', hf, hb', hg', hv'⟩ := ih (es ++ [e]) (checkField relaxed cl e.value).1 hrest h1 (fun _ => h3) hstrict'
        exact ⟨es', cl', hf, hb', by rw [hg', h2]; simp, hv'⟩
      · have hrel : relaxed = true := by
          cases hr : relaxed with
          | true => rfl
          | false => exact absurd (h4 hr) hk
        subst hrel
        have hk' : (checkField true cl e.value).2 = false := by simpa using hk
        simp only [hk', Bool.false_eq_true, if_false, if_true]
        obtain ⟨es', cl', hf, hb', hg', hv'⟩ := ih es (checkField true cl e.value).1 hrest h1 (fun _ => h3) (by simp)
        exact ⟨es', cl', hf, hb', by rw [hg', h2]; simp, hv'⟩
    · simp only [hid, Bool.false_eq_true, if_false] at hvs hstrict ⊢
      exact ih (es ++ [e]) cl hvs hbad hval hstrict

end SquidModel.Header
