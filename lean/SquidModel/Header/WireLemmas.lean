/-
A well-formed field line is scanned into exactly the entry it denotes.
-/
import SquidModel.Header.WireSpec
import SquidModel.Header.ScanLemmas

namespace SquidModel.Header
open SquidModel

/-! ### octet facts -/

theorem tchar_facts (c : UInt8) (h : Gen.CharSets.TCHAR.mem c = true) :
    isSpace c = false ∧ c ≠ 0 ∧ c ≠ 10 ∧ c ≠ 13 ∧ c ≠ 58 ∧ c ≠ 32 ∧ c ≠ 9 := by
  have := forall_octet (fun c => !(Gen.CharSets.TCHAR.mem c) || (!(isSpace c) && c != 0 && c != 10 && c != 13 && c != 58 && c != 32 && c != 9))
    (by decide +kernel) c
  simp_all

theorem hws_facts (c : UInt8) (h : isHws c = true) : isSpace c = true ∧ c ≠ 0 ∧ c ≠ 10 ∧ c ≠ 13 ∧ c ≠ 58 := by
  have := forall_octet (fun c => !(isHws c) || (isSpace c && c != 0 && c != 10 && c != 13 && c != 58)) (by decide +kernel) c
  simp_all

theorem all_hws_space (l : Bytes) (h : l.all isHws = true) : l.all isSpace = true := by
  simp only [List.all_eq_true] at h ⊢; intro c hc; exact (hws_facts c (h c hc)).1

/-! ### splitLines -/

theorem splitLines_line (l rest : Bytes) (h : (10 : UInt8) ∉ l) :
    splitLines (l ++ 10 :: rest) = (l :: (splitLines rest).1, (splitLines rest).2) := by
  induction l with
  | nil => simp [splitLines]
  | cons c cs ih =>
    simp only [List.mem_cons, not_or] at h
    have hc : (c == 10) = false := by simpa using fun e => h.1 e.symm
    rw [List.cons_append, splitLines, ih h.2]
    simp [hc]

/-! ### one well-formed line -/

/-- the line without its CR -/
def FieldSyn.body (f : FieldSyn) : Bytes := f.name ++ f.bws ++ [58] ++ f.lead ++ f.value ++ f.trail

theorem body_mem {cfg : Cfg} {f : FieldSyn} (w : WF cfg f) (c : UInt8) (hc : c ∈ f.body) : c ≠ 0 ∧ c ≠ 10 ∧ c ≠ 13 := by
  unfold FieldSyn.body at hc
  have hn := w.name_tchar; have hb := w.bws_ws; have hl := w.lead_ws; have ht := w.trail_ws
  simp only [List.all_eq_true] at hn hb hl ht
  simp only [List.mem_append, List.mem_singleton] at hc
  rcases hc with ((((h | h) | h) | h) | h) | h
  · have := tchar_facts c (hn c h); exact ⟨this.2.1, this.2.2.1, this.2.2.2.1⟩
  · have := hws_facts c (hb c h); exact ⟨this.2.1, this.2.2.1, this.2.2.2.1⟩
  · subst h; decide
  · have := hws_facts c (hl c h); exact ⟨this.2.1, this.2.2.1, this.2.2.2.1⟩
  · exact w.value_clean c h
  · have := hws_facts c (ht c h); exact ⟨this.2.1, this.2.2.1, this.2.2.2.1⟩

theorem line_eq (f : FieldSyn) : f.line = f.body ++ (if f.crlf then [13] else []) := rfl

theorem line_noLF {cfg : Cfg} {f : FieldSyn} (w : WF cfg f) : (10 : UInt8) ∉ f.line := by
  rw [line_eq]
  intro h
  rcases List.mem_append.mp h with h | h
  · exact (body_mem w 10 h).2.1 rfl
  · split at h <;> simp at h

theorem line_noNul {cfg : Cfg} {f : FieldSyn} (w : WF cfg f) : (0 : UInt8) ∉ f.line := by
  rw [line_eq]
  intro h
  rcases List.mem_append.mp h with h | h
  · exact (body_mem w 0 h).1 rfl
  · split at h <;> simp at h

theorem body_colon (f : FieldSyn) : (58 : UInt8) ∈ f.body := by simp [FieldSyn.body]

theorem line_head {cfg : Cfg} {f : FieldSyn} (w : WF cfg f) : startsWsp f.line = false := by
  have hne := w.name_ne
  have hn := w.name_tchar
  cases hnm : f.name with
  | nil => exact absurd hnm hne
  | cons a b =>
    rw [hnm] at hn
    simp only [List.all_cons, Bool.and_eq_true] at hn
    have := tchar_facts a hn.1
    simp [FieldSyn.line, hnm, startsWsp, this.2.2.2.2.2.1, this.2.2.2.2.2.2]

theorem procLine_wf {cfg cfg' : Cfg} {f : FieldSyn} (w : WF cfg' f) :
    procLine cfg true f.line = some ⟨f.body, if f.crlf then [13, 10] else [10], false⟩ := by
  have hb13 : (13 : UInt8) ∉ f.body := fun h => (body_mem w 13 h).2.2 rfl
  have hne : f.body ≠ [] := by intro h; have := body_colon f; rw [h] at this; simp at this
  have hlast : (f.line.getLast? == some 13) = f.crlf := by
    rw [line_eq]
    cases hc : f.crlf with
    | true => simp
    | false =>
      simp only [Bool.false_eq_true, if_false, List.append_nil]
      cases hl : f.body.getLast? with
      | none => rfl
      | some c =>
        have : c ∈ f.body := List.mem_of_getLast? hl
        have hc13 : c ≠ 13 := fun e => hb13 (e ▸ this)
        simp [hc13]
  have hbody : (if f.crlf = true then f.line.dropLast else f.line) = f.body := by
    rw [line_eq]
    cases hc : f.crlf with
    | true => simp
    | false => simp
  have hall : f.body.all (· == 13) = false := by
    have := body_colon f
    cases hx : f.body.all (· == 13) with
    | false => rfl
    | true =>
      simp only [List.all_eq_true] at hx
      have := hx 58 this
      simp at this
  have hcont : f.body.contains 13 = false := by simpa using hb13
  unfold procLine
  simp only [hlast]
  simp only [hbody, hall, Bool.and_false, Bool.false_eq_true, if_false, hcont, Bool.false_and]
  simp

theorem takeWhile_name (f : FieldSyn) {cfg : Cfg} (w : WF cfg f) :
    f.body.takeWhile (· != 58) = f.name ++ f.bws ∧
    (f.body.dropWhile (· != 58)).drop 1 = f.lead ++ f.value ++ f.trail := by
  have hn := w.name_tchar; have hb := w.bws_ws
  simp only [List.all_eq_true] at hn hb
  have hall : (f.name ++ f.bws).all (· != 58) = true := by
    simp only [List.all_eq_true, List.mem_append]
    intro c hc
    rcases hc with h | h
    · simpa using (tchar_facts c (hn c h)).2.2.2.2.1
    · simpa using (hws_facts c (hb c h)).2.2.2.2
  have := takeWhile_append_of_head (p := (· != 58)) (f.name ++ f.bws) ([58] ++ f.lead ++ f.value ++ f.trail) hall
    (by intro c hc; simp at hc; rw [← hc]; decide)
  have hbody : f.body = (f.name ++ f.bws) ++ ([58] ++ f.lead ++ f.value ++ f.trail) := by
    simp [FieldSyn.body]
  rw [hbody, this.1, this.2]
  exact ⟨rfl, by simp⟩

theorem name_last {cfg : Cfg} {f : FieldSyn} (w : WF cfg f) : ∀ c, f.name.getLast? = some c → isSpace c = false := by
  intro c hc
  have hn := w.name_tchar
  simp only [List.all_eq_true] at hn
  exact (tchar_facts c (hn c (List.mem_of_getLast? hc))).1

/-- the name decision of `HttpHeaderEntry::parse` on the text before the colon of a well-formed line -/
theorem entryName_wf {cfg : Cfg} {f : FieldSyn} (w : WF cfg f) : entryName cfg (f.name ++ f.bws) = some f.name := by
  have hnlast := name_last w
  have hbsp := all_hws_space _ w.bws_ws
  unfold entryName
  have hne : (f.name ++ f.bws).isEmpty = false := by
    cases hnm : f.name with
    | nil => exact absurd hnm w.name_ne
    | cons a b => rfl
  have hlen : ¬ (f.name ++ f.bws).length > 65534 := by have := w.name_len; simp; omega
  simp only [hne, Bool.false_eq_true, if_false, hlen]
  by_cases hb : f.bws = []
  · rw [hb, List.append_nil]
    have : endsWithSpace f.name = false := by
      unfold endsWithSpace
      cases hl : f.name.getLast? with
      | none => rfl
      | some c => exact hnlast c hl
    simp [this]
  · have hends : endsWithSpace (f.name ++ f.bws) = true := by
      unfold endsWithSpace
      rw [List.getLast?_append]
      cases hl : f.bws.getLast? with
      | none => simp [List.getLast?_eq_none_iff] at hl; exact absurd hl hb
      | some c =>
        simp only [List.all_eq_true] at hbsp
        simp only [Option.some_or]
        exact hbsp c (List.mem_of_getLast? hl)
    have hrt : rtrim (f.name ++ f.bws) = f.name := by
      rw [rtrim_append_spaces _ _ hbsp]
      cases hl : f.name.getLast? with
      | none => simp [List.getLast?_eq_none_iff] at hl; exact absurd hl w.name_ne
      | some c => exact rtrim_of_getLast _ c hl (hnlast c hl)
    have hnne : f.name.isEmpty = false := by
      cases hnm : f.name with
      | nil => exact absurd hnm w.name_ne
      | cons a b => rfl
    simp only [hends, if_true, hrt, hnne, Bool.false_eq_true, if_false]
    rcases w.bws_ok with h1 | h1 | h1
    · exact absurd h1 hb
    · simp [h1]
    · simp [h1.1, h1.2]

/-- whitespace before the colon in a request: the name is refused whatever else the line contains -/
theorem entryName_request_bws (cfg : Cfg) (name bws : Bytes) (ho : cfg.owner = Owner.request)
    (hb : bws ≠ []) (hsp : bws.all isSpace = true) : entryName cfg (name ++ bws) = none := by
  unfold entryName
  have hends : endsWithSpace (name ++ bws) = true := by
    unfold endsWithSpace
    rw [List.getLast?_append]
    cases hl : bws.getLast? with
    | none => simp [List.getLast?_eq_none_iff] at hl; exact absurd hl hb
    | some c =>
      simp only [List.all_eq_true] at hsp
      simp only [Option.some_or]
      exact hsp c (List.mem_of_getLast? hl)
  split
  · rfl
  · split
    · rfl
    · simp [hends, ho]

/-- the text before the first colon is not changed by what follows the line -/
theorem takeWhile_name_append (f : FieldSyn) {cfg : Cfg} (w : WF cfg f) (X : Bytes) :
    (f.body ++ X).takeWhile (· != 58) = f.name ++ f.bws ∧ (f.body ++ X).contains 58 = true := by
  have hn := w.name_tchar; have hb := w.bws_ws
  simp only [List.all_eq_true] at hn hb
  have hall : (f.name ++ f.bws).all (· != 58) = true := by
    simp only [List.all_eq_true, List.mem_append]
    intro c hc
    rcases hc with h | h
    · simpa using (tchar_facts c (hn c h)).2.2.2.2.1
    · simpa using (hws_facts c (hb c h)).2.2.2.2
  have := takeWhile_append_of_head (p := (· != 58)) (f.name ++ f.bws) ([58] ++ f.lead ++ f.value ++ f.trail ++ X) hall
    (by intro c hc; simp at hc; rw [← hc]; decide)
  have hbody : f.body ++ X = (f.name ++ f.bws) ++ ([58] ++ f.lead ++ f.value ++ f.trail ++ X) := by
    simp [FieldSyn.body]
  rw [hbody, this.1]
  exact ⟨rfl, by simp⟩

theorem parseEntry_wf {cfg : Cfg} {f : FieldSyn} (w : WF cfg f) : parseEntry cfg f.body = some (entryOf f) := by
  obtain ⟨htw, hdw⟩ := takeWhile_name f w
  have hcol : f.body.contains 58 = true := by simpa using body_colon f
  have hn := w.name_tchar
  have hnlast : ∀ c, f.name.getLast? = some c → isSpace c = false := by
    intro c hc
    simp only [List.all_eq_true] at hn
    exact (tchar_facts c (hn c (List.mem_of_getLast? hc))).1
  have hbsp := all_hws_space _ w.bws_ws
  have hname := entryName_wf w
  -- the value
  have hval : rtrim (ltrim (f.lead ++ f.value ++ f.trail)) = f.value := by
    have hl := all_hws_space _ w.lead_ws
    have ht := all_hws_space _ w.trail_ws
    by_cases hv : f.value = []
    · rw [hv, List.append_nil]
      have : strip (f.lead ++ f.trail) = [] := strip_spaces _ (by simp [hl, ht])
      exact this
    · exact strip_core f.lead f.value f.trail hl ht hv w.value_head w.value_last
  unfold parseEntry
  simp only [hcol, Bool.not_true, Bool.false_eq_true, if_false, htw, hname, hn, hdw, hval]
  have hvl : ¬ f.value.length > 65534 := by have := w.value_len; omega
  simp only [hvl, if_false]
  rfl

end SquidModel.Header
