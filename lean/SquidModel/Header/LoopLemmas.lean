/-
Soundness of the Content-Length interpreter: whenever it ends without `sawBad`, every value of every field it was
shown is a decimal denoting `value` (outside the region excluded by `BlankOk`).
-/
import SquidModel.Header.ListLemmas

namespace SquidModel.Header
open SquidModel

/-! ### one `strListGetItem` call -/

theorem ltrim_append_of_nonspace (a t : Bytes) (h : a.all isSpace = false) : ltrim (a ++ t) = ltrim a ++ t := by
  induction a with
  | nil => simp at h
  | cons c r ih =>
    by_cases hc : isSpace c = true
    · have hr : r.all isSpace = false := by simpa [hc] using h
      rw [List.cons_append, ltrim_cons_space _ _ hc, ltrim_cons_space _ _ hc, ih hr]
    · have hc' : isSpace c = false := by simpa using hc
      rw [List.cons_append, ltrim_cons_nonspace _ _ hc', ltrim_cons_nonspace _ _ hc']; rfl

theorem strip_rtrim (x : Bytes) : strip (rtrim x) = strip x := by
  obtain ⟨t, hx, ht⟩ := rtrim_decomp x
  by_cases hall : (rtrim x).all isSpace = true
  · have h1 : x.all isSpace = true := by rw [hx]; simp [hall, ht]
    rw [strip_spaces _ hall, strip_spaces _ h1]
  · have hall' : (rtrim x).all isSpace = false := by simpa using hall
    conv => rhs; rw [hx]
    unfold strip
    rw [ltrim_append_of_nonspace _ _ hall', rtrim_append_spaces _ _ ht]

theorem rtrim_ne_nil_strip (x : Bytes) (h : rtrim x ≠ []) : strip x ≠ [] := by
  intro hs
  rw [strip_eq_nil_iff] at hs
  exact h (rtrim_spaces x hs)

/-- everything the loop needs to know about one call that returns an item without a quote -/
theorem getItem_some (pos : Bytes) (it : ListItem) (rest : Bytes) (h : strListGetItem pos = (some it, rest))
    (hq : (34 : UInt8) ∉ it.item) :
    elements pos = strip it.item :: elements rest ∧ (BlankOk pos → BlankOk rest) ∧ rest.length < pos.length ∧
    it.rest = rest ∧ (∀ c, it.after.head? = some c → isDigit c = false) ∧ ((10 : UInt8) ∉ pos → (10 : UInt8) ∉ rest ∧ (10 : UInt8) ∉ it.item) := by
  unfold strListGetItem at h
  simp only [rtrimSplit] at h
  generalize hs1 : pos.dropWhile isListLead = s1 at h
  have happ := scanItem_append s1 false
  have hrest := scanItem_rest s1 false
  generalize hraw : (scanItem s1 false).1 = raw at h happ
  generalize hrst : (scanItem s1 false).2 = rst at h happ hrest
  by_cases hemp : (rtrim raw).isEmpty = true
  · simp [hemp] at h
  · simp only [hemp, Bool.false_eq_true, if_false, Prod.mk.injEq, Option.some.injEq] at h
    obtain ⟨hit, hrr⟩ := h
    subst hrr
    obtain ⟨t, hrawt, ht⟩ := rtrim_decomp raw
    have hitem : it.item = rtrim raw := by rw [← hit]
    have hafter : it.after = raw.drop (rtrim raw).length ++ rst := by rw [← hit]
    have hirest : it.rest = rst := by rw [← hit]
    have hdrop : raw.drop (rtrim raw).length = t := by
      have := congrArg (List.drop (rtrim raw).length) hrawt
      rw [List.drop_left] at this
      exact this
    -- no quote, hence no comma, in the raw item
    have hq' : (34 : UInt8) ∉ raw := by
      rw [hrawt]
      simp only [List.mem_append, not_or]
      refine ⟨by rw [← hitem]; exact hq, ?_⟩
      intro h34
      simp only [List.all_eq_true] at ht
      exact (space_ne 34 (ht 34 h34)).1 rfl
    have hnc : (44 : UInt8) ∉ raw := by rw [← hraw] at hq' ⊢; exact scanItem_noquote s1 hq'
    have hne : rtrim raw ≠ [] := by intro h0; simp [h0] at hemp
    have hhead := List.head?_dropWhile_not isListLead pos
    rw [hs1, ← happ] at hhead
    have hstrip : optElem raw = [strip it.item] := by
      rw [hitem, strip_rtrim]
      unfold optElem
      cases hraw0 : raw with
      | nil => exact absurd (by rw [hraw0]; rfl) hne
      | cons a b =>
        rw [hraw0] at hhead
        simp only [List.cons_append, List.head?_cons] at hhead
        simp [hhead]
    have hlen1 : s1.length ≤ pos.length := by
      rw [← hs1]
      exact (List.dropWhile_sublist _).length_le
    have hrawlen : 0 < raw.length := by
      cases raw with
      | nil => exact absurd rfl hne
      | cons a b => simp
    have hel : elements pos = strip it.item :: elements rst := by
      rw [← elements_dropWhile_lead pos, hs1, ← happ]
      rcases hrest with h0 | ⟨r, hr⟩
      · rw [h0, List.append_nil, elements_nocomma raw hnc, hstrip, elements_nil]
      · rw [hr, elements_nocomma_append raw r hnc, hstrip, elements_cons_lead 44 r (by decide)]; rfl
    refine ⟨hel, ?_, ?_, hirest, ?_, ?_⟩
    · intro hb
      have hb1 : BlankOk s1 := by rw [← hs1]; exact blankOk_dropWhile_lead pos hb
      rw [← happ] at hb1
      rcases hrest with h0 | ⟨r, hr⟩
      · rw [h0]; intro e he _; simp [splitComma] at he; subst he; rfl
      · rw [hr] at hb1 ⊢
        have hbr := (blankOk_nocomma_append raw r hnc hb1).2
        intro e he hs
        simp only [splitComma, beq_self_eq_true, if_true, List.mem_cons] at he
        rcases he with rfl | he
        · rfl
        · exact hbr e he hs
    · have : s1.length = raw.length + rst.length := by rw [← happ]; simp
      omega
    · intro c hc
      rw [hafter, hdrop] at hc
      cases t with
      | nil =>
        rcases hrest with h0 | ⟨r, hr⟩
        · rw [h0] at hc; simp at hc
        · rw [hr] at hc
          have : c = 44 := by simpa using hc.symm
          subst this; decide
      | cons a b =>
        have : c = a := by simpa using hc.symm
        subst this
        simp only [List.all_cons, Bool.and_eq_true] at ht
        cases hd : isDigit c with
        | false => rfl
        | true => have := digit_not_space c hd; rw [ht.1] at this; exact absurd this (by simp)
    · intro hlf
      have h1 : (10 : UInt8) ∉ s1 := by
        rw [← hs1]; intro hm; exact hlf ((List.dropWhile_sublist _).subset hm)
      rw [← happ] at h1
      simp only [List.mem_append, not_or] at h1
      refine ⟨h1.2, ?_⟩
      rw [hitem]; intro hm
      apply h1.1
      rw [hrawt]; simp [hm]

/-- a call that returns 0: nothing is left in the list (outside the excluded region) -/
theorem getItem_none (pos rest : Bytes) (h : strListGetItem pos = (none, rest)) (hb : BlankOk pos) : elements pos = [] := by
  unfold strListGetItem at h
  simp only [rtrimSplit] at h
  generalize hs1 : pos.dropWhile isListLead = s1 at h
  have happ := scanItem_append s1 false
  have hrest := scanItem_rest s1 false
  generalize hraw : (scanItem s1 false).1 = raw at h happ
  generalize hrst : (scanItem s1 false).2 = rst at h happ hrest
  by_cases hemp : (rtrim raw).isEmpty = true
  · obtain ⟨t, hrawt, ht⟩ := rtrim_decomp raw
    have h0 : rtrim raw = [] := by simpa using hemp
    rw [h0, List.nil_append] at hrawt
    have hsp : raw.all isSpace = true := by rw [hrawt]; exact ht
    have hq' : (34 : UInt8) ∉ raw := by
      intro h34; simp only [List.all_eq_true] at hsp; exact (space_ne 34 (hsp 34 h34)).1 rfl
    have hnc : (44 : UInt8) ∉ raw := by rw [← hraw] at hq' ⊢; exact scanItem_noquote s1 hq'
    have hstrip : strip raw = [] := strip_spaces raw hsp
    have hb1 : BlankOk s1 := by rw [← hs1]; exact blankOk_dropWhile_lead pos hb
    have hhead := List.head?_dropWhile_not isListLead pos
    rw [hs1] at hhead
    rw [← elements_dropWhile_lead pos, hs1, ← happ]
    rcases hrest with hr0 | ⟨r, hr⟩
    · have hall := blankOk_nocomma raw hnc (by rw [← happ, hr0, List.append_nil] at hb1; exact hb1) hstrip
      rw [hr0, List.append_nil, elements_nocomma raw hnc]
      simp [optElem, hall]
    · exfalso
      rw [← happ, hr] at hb1 hhead
      have hall := (blankOk_nocomma_append raw r hnc hb1).1 hstrip
      cases raw with
      | nil =>
        simp only [List.nil_append, List.head?_cons] at hhead
        exact absurd hhead (by decide)
      | cons a b =>
        simp only [List.all_cons, Bool.and_eq_true] at hall
        simp [hall.1] at hhead
  · simp [hemp] at h


/-! ### after the fixes 43aac5c / 95b4622: every `isspace` byte is skipped between items -/

theorem space_isListLead (b : UInt8) (h : isSpace b = true) : isListLead b = true := by
  have := forall_octet (fun b => !(isSpace b) || isListLead b) (by decide +kernel) b
  simp_all

/-- no list member is blank-but-not-skipped any more -/
theorem blankOk_all (v : Bytes) : BlankOk v := by
  intro e _ hs
  rw [strip_eq_nil_iff] at hs
  simp only [List.all_eq_true] at hs ⊢
  intro c hc; exact space_isListLead c (hs c hc)

/-- `strListGetItem` now returns 0 only at the very end of the string: the raw item is empty (`pos == item`) -/
theorem getItem_none_raw (pos rest : Bytes) (h : strListGetItem pos = (none, rest)) :
    (scanItem (pos.dropWhile isListLead) false).1 = [] := by
  unfold strListGetItem at h
  simp only [rtrimSplit] at h
  have hhead := List.head?_dropWhile_not isListLead pos
  generalize hs1 : pos.dropWhile isListLead = s1 at h hhead ⊢
  have happ := scanItem_append s1 false
  generalize hraw : (scanItem s1 false).1 = raw at h happ ⊢
  generalize hrst : (scanItem s1 false).2 = rst at h happ
  by_cases hemp : (rtrim raw).isEmpty = true
  · obtain ⟨t, hrawt, ht⟩ := rtrim_decomp raw
    have h0 : rtrim raw = [] := by simpa using hemp
    rw [h0, List.nil_append] at hrawt
    cases hr : raw with
    | nil => rfl
    | cons a b =>
      exfalso
      rw [← happ, hr] at hhead
      simp only [List.cons_append, List.head?_cons] at hhead
      have hsp : isSpace a = true := by
        rw [hr] at hrawt; rw [← hrawt] at ht
        simp only [List.all_cons, Bool.and_eq_true] at ht; exact ht.1
      rw [space_isListLead a hsp] at hhead
      exact absurd hhead (by simp)
  · simp [hemp] at h

theorem loopEndsBlank_false (relaxed : Bool) : ∀ (fuel : Nat) (st : ClState) (pos : Bytes),
    loopEndsBlank relaxed fuel st pos = false := by
  intro fuel
  induction fuel with
  | zero => intro st pos; rfl
  | succ fuel ih =>
    intro st pos
    unfold loopEndsBlank
    cases hgi : strListGetItem pos with
    | mk r rest =>
      cases r with
      | none => simp [getItem_none_raw pos rest hgi]
      | some it =>
        simp only []
        cases checkValue relaxed st it.item it.after with
        | mk st' ok =>
          simp only []
          split
          · rfl
          · exact ih st' rest

end SquidModel.Header
