/-
Bare CR: rejected by the strict parser in any field; rejected by the relaxed parser in a framing field.
-/
import SquidModel.Header.WireScan

namespace SquidModel.Header
open SquidModel

theorem dropLast_mid (a : Bytes) (x c : UInt8) (b : Bytes) : (a ++ x :: c :: b).dropLast = a ++ x :: (c :: b).dropLast := by
  induction a with
  | nil => simp [List.dropLast]
  | cons y ys ih =>
    cases hys : ys ++ x :: c :: b with
    | nil => simp at hys
    | cons z zs =>
      rw [List.cons_append, hys, List.dropLast_cons₂, ← hys, ih]
      rfl

/-- the body of a line that has a CR followed by at least one more byte still contains that CR -/
theorem bare_in_body (a : Bytes) (c : UInt8) (b : Bytes) :
    (13 : UInt8) ∈ (if ((a ++ 13 :: c :: b).getLast? == some 13) = true then (a ++ 13 :: c :: b).dropLast else a ++ 13 :: c :: b) := by
  split
  · rw [dropLast_mid]; simp
  · simp

/-- **Bare CR, strict parser.** A line with a CR that is not the one before the LF is never accepted by the strict parser. -/
theorem bare_cr_strict_rejected (cfg : Cfg) (hs : cfg.relaxed = false) (fs : List FieldSyn) (a : Bytes) (c : UInt8) (b rest : Bytes)
    (hw : ∀ f ∈ fs, WF cfg f) (h10 : (10 : UInt8) ∉ a ++ 13 :: c :: b) (hst : startsWsp (a ++ 13 :: c :: b) = false) :
    parseHeader cfg (fs.flatMap FieldSyn.wire ++ (a ++ 13 :: c :: b) ++ 10 :: rest) = .reject := by
  have hp : procLine cfg true (a ++ 13 :: c :: b) = none := by
    have hb := bare_in_body a c b
    unfold procLine
    simp only []
    generalize (if ((a ++ 13 :: c :: b).getLast? == some 13) = true then (a ++ 13 :: c :: b).dropLast else a ++ 13 :: c :: b) = body at hb
    have hc : body.contains 13 = true := by simpa using hb
    split
    · rfl
    · simp [hs]; exact hb
  rw [parseHeader_eq, rawEntries_bad_line cfg fs _ rest hw h10 hst (fun n more tail => scanLoop_procLine_none cfg n _ more tail hp)]

/-- a bare name followed by a colon, as a (degenerate) well-formed line -/
def nameOnly (name : Bytes) : FieldSyn := ⟨name, [], [], [], [], false⟩

theorem map_cr_name (name v : Bytes) (hn : name.all Gen.CharSets.TCHAR.mem = true) :
    (name ++ 58 :: v).map (fun c => if c == 13 then 32 else c) = name ++ 58 :: v.map (fun c => if c == 13 then 32 else c) := by
  simp only [List.map_append, List.map_cons]
  congr 1
  · conv => rhs; rw [← List.map_id name]
    apply List.map_congr_left
    intro x hx
    simp only [List.all_eq_true] at hn
    have := (tchar_facts x (hn x hx)).2.2.2.1
    simp [this]

/-- **Bare CR in a framing field, relaxed parser.** The relaxed parser rewrites a bare CR to SP in other fields, but a Content-Length
or Transfer-Encoding line with a bare CR (a CR followed by at least one more byte of the value) is never accepted. -/
theorem bare_cr_framing_rejected (cfg : Cfg) (fs : List FieldSyn) (name a : Bytes) (c : UInt8) (b rest : Bytes)
    (hw : ∀ f ∈ fs, WF cfg f) (wn : WF cfg (nameOnly name)) (hfr : isFraming (idOfName name) = true)
    (h10 : (10 : UInt8) ∉ a ++ 13 :: c :: b) :
    parseHeader cfg (fs.flatMap FieldSyn.wire ++ (name ++ 58 :: (a ++ 13 :: c :: b)) ++ 10 :: rest) = .reject := by
  have hnt := wn.name_tchar
  simp only [nameOnly] at hnt
  have hline10 : (10 : UInt8) ∉ name ++ 58 :: (a ++ 13 :: c :: b) := by
    intro hm
    rcases List.mem_append.mp hm with h | h
    · simp only [List.all_eq_true] at hnt
      exact (tchar_facts 10 (hnt 10 h)).2.2.1 rfl
    · rcases List.mem_cons.mp h with h | h
      · exact absurd h (by decide)
      · exact h10 h
  have hst : startsWsp (name ++ 58 :: (a ++ 13 :: c :: b)) = false := by
    have := line_head wn
    simp only [nameOnly, FieldSyn.line] at this
    cases hn : name with
    | nil => exact absurd hn wn.name_ne
    | cons x xs => rw [hn] at this; simpa [startsWsp] using this
  have hbad : ∀ n more tail, scanLoop cfg (n + 1) ((name ++ 58 :: (a ++ 13 :: c :: b)) :: more) tail = none := by
    intro n more tail
    -- the line as  (name ++ 58 :: a) ++ 13 :: c :: b
    have hl : name ++ 58 :: (a ++ 13 :: c :: b) = (name ++ 58 :: a) ++ 13 :: c :: b := by simp
    simp only [scanLoop]
    split
    · rfl
    · cases hp : procLines cfg true ((name ++ 58 :: (a ++ 13 :: c :: b)) :: List.takeWhile startsWsp more) with
      | none => rfl
      | some pls =>
        simp only []
        unfold procLines at hp
        cases hpl : procLine cfg true (name ++ 58 :: (a ++ 13 :: c :: b)) with
        | none => simp [hpl] at hp
        | some p =>
          simp only [hpl] at hp
          cases hps : procLines cfg false (List.takeWhile startsWsp more) with
          | none => simp [hps] at hp
          | some ps =>
            simp only [hps, Option.some.injEq] at hp
            -- what procLine made of the line: bare, and the body still starts with  name ':'
            have hfacts : p.bare = true ∧ ∃ Y, p.body = name ++ 58 :: Y := by
              rw [hl] at hpl
              have hb := bare_in_body (name ++ 58 :: a) c b
              unfold procLine at hpl
              simp only [] at hpl
              have hbody : ∃ Y, (if (((name ++ 58 :: a) ++ 13 :: c :: b).getLast? == some 13) = true then ((name ++ 58 :: a) ++ 13 :: c :: b).dropLast
                  else (name ++ 58 :: a) ++ 13 :: c :: b) = name ++ 58 :: Y := by
                split
                · rw [dropLast_mid]; exact ⟨a ++ 13 :: (c :: b).dropLast, by simp⟩
                · exact ⟨a ++ 13 :: c :: b, by simp⟩
              obtain ⟨Y, hY⟩ := hbody
              rw [hY] at hpl hb
              have hc : (name ++ 58 :: Y).contains 13 = true := by simpa using hb
              simp only [hc, Bool.true_and, if_true] at hpl
              split at hpl
              · simp at hpl
              · split at hpl
                · simp at hpl
                · split at hpl
                  · simp at hpl
                  · simp only [Option.some.injEq] at hpl
                    rw [← hpl]
                    exact ⟨rfl, _, map_cr_name name Y hnt⟩
            obtain ⟨hbare, Y, hY⟩ := hfacts
            have hasm : ∃ X, assemble pls = (nameOnly name).body ++ X := by
              rw [← hp]
              cases ps with
              | nil => exact ⟨Y, by simp [assemble, hY, nameOnly, FieldSyn.body]⟩
              | cons q qs => exact ⟨Y ++ (p.term ++ assemble (q :: qs)), by simp [assemble, hY, nameOnly, FieldSyn.body]⟩
            obtain ⟨X, hX⟩ := hasm
            have hne : (assemble pls).isEmpty = false := by
              rw [hX]
              have := body_colon (nameOnly name)
              cases hb' : (nameOnly name).body with
              | nil => rw [hb'] at this; simp at this
              | cons x xs => rfl
            simp only [hne, Bool.false_eq_true, if_false]
            cases hpe : parseEntry cfg (assemble pls) with
            | none => rfl
            | some e =>
              simp only []
              have hid : e.id = idOfName name := by
                rw [hX] at hpe
                exact parseEntry_id_prefix wn X e hpe
              have hany : pls.any (·.bare) = true := by rw [← hp]; simp [hbare]
              simp [hany, hid, hfr]
  rw [parseHeader_eq, rawEntries_bad_line cfg fs _ rest hw hline10 hst hbad]

end SquidModel.Header
