/-
Model of `Http::ContentLengthInterpreter` (src/http/ContentLengthInterpreter.cc), of
`httpHeaderParseOffset` (src/HttpHeaderTools.cc, with the `strtoll(…, 10)` it calls) and of
`strListGetItem` (src/StrList.cc) as used by `checkList`.

Strings are byte lists without NUL; "the rest of the C string after the item" is passed explicitly
where the C code can read past the item (`strtoll` stops at the first non-digit, not at `valueEnd`).
Core-only.
-/
import SquidModel.Base.CharSet
import SquidModel.Gen.CharSets

namespace SquidModel.Header
open SquidModel

/-- C `isspace` in the "C" locale (`xisspace`): HT LF VT FF CR SP -/
def isSpace (b : UInt8) : Bool := b == 32 || (9 ≤ b && b ≤ 13)

def isDigit (b : UInt8) : Bool := Gen.CharSets.DIGIT.mem b

/-- drop trailing `xisspace` bytes -/
def rtrim (s : Bytes) : Bytes := (s.reverse.dropWhile isSpace).reverse

/-- drop leading `xisspace` bytes -/
def ltrim (s : Bytes) : Bytes := s.dropWhile isSpace

/-- `RelaxedDelimiterCharacters()` (src/http/one/Parser.cc): SP + HTAB + VT,FF + CR -/
def relaxedDelimiters : CharSet :=
  Gen.CharSets.SP + Gen.CharSets.HTAB + CharSet.ofBytes [11, 12] + Gen.CharSets.CR

/-- `Http::One::Parser::WhitespaceCharacters()` -/
def whitespaceChars (relaxed : Bool) : CharSet := if relaxed then relaxedDelimiters else Gen.CharSets.WSP

/-- `Http::One::Parser::DelimiterCharacters()` -/
def delimiterChars (relaxed : Bool) : CharSet := if relaxed then relaxedDelimiters else Gen.CharSets.SP

def INT64_MAX : Int := 9223372036854775807
def INT64_MIN : Int := -9223372036854775808

/-! ### strtoll(start, &end, 10) -/

/-- value of a digit string, most significant first, continuing from `acc` -/
def digitsVal : Bytes → Nat → Nat
  | [], acc => acc
  | d :: ds, acc => digitsVal ds (acc * 10 + (d.toNat - 48))

structure Strtoll where
  /-- the returned value -/
  res : Int
  /-- `errno == ERANGE` afterwards (the only errno glibc sets for base 10) -/
  erange : Bool
  /-- `end - start` -/
  consumed : Nat
  deriving DecidableEq, Repr

/-- the out-of-range handling of `strtoll`: LLONG_MAX / LLONG_MIN with ERANGE -/
def strtollClamp (v : Int) (consumed : Nat) : Strtoll :=
  if v > INT64_MAX then ⟨INT64_MAX, true, consumed⟩
  else if v < INT64_MIN then ⟨INT64_MIN, true, consumed⟩
  else ⟨v, false, consumed⟩

/-- glibc `strtoll` with base 10: skip `isspace`, optional sign, digits; no digits ⇒ `end = start`, 0;
out of range ⇒ LLONG_MAX / LLONG_MIN with ERANGE (all digits are still consumed). -/
def strtoll (s : Bytes) : Strtoll :=
  let ws := s.takeWhile isSpace
  let s1 := s.dropWhile isSpace
  let neg := s1.head? == some 45
  let signLen := if s1.head? == some 45 || s1.head? == some 43 then 1 else 0
  let s2 := s1.drop signLen
  let ds := s2.takeWhile isDigit
  if ds.isEmpty then ⟨0, false, 0⟩
  else
    let n : Int := digitsVal ds 0
    strtollClamp (if neg then -n else n) (ws.length + signLen + ds.length)

/-- `httpHeaderParseOffset(start, &value, &endPtr)`: `some (value, end - start)` on success -/
def parseOffset (s : Bytes) : Option (Int × Nat) :=
  let r := strtoll s
  if r.erange && r.res == 0 then none                                         -- errno && !res
  else if r.erange && (r.res == INT64_MIN || r.res == INT64_MAX) then none    -- huge offset
  else if r.consumed == 0 then none                                           -- start == end
  else some (r.res, r.consumed)

/-! ### ContentLengthInterpreter -/

inductive Problem where
  | duplicate
  | conflicting
  deriving DecidableEq, Repr

structure ClState where
  value : Int := -1
  headerWideProblem : Option Problem := none
  sawBad : Bool := false
  needsSanitizing : Bool := false
  sawGood : Bool := false
  deriving DecidableEq, Repr

/-- `findDigits(prefix, valueEnd)`: offset of the first digit when only whitespace precedes it -/
def findDigits (relaxed : Bool) : Bytes → Option Nat
  | [] => none
  | ch :: rest =>
    if isDigit ch then some 0
    else if !(whitespaceChars relaxed).mem ch then none
    else (findDigits relaxed rest).map (· + 1)

/-- `goodSuffix(suffix, end)` on the bytes in `[suffix, end)` (empty when `suffix ≥ end`) -/
def goodSuffix (relaxed : Bool) (suffix : Bytes) : Bool :=
  suffix.all (delimiterChars relaxed).mem

/-- The first half of `checkValue(rawValue, valueSize)`: `item` = the `valueSize` bytes, `after` = the bytes that
follow them in the C string (up to its NUL). `some latestValue` when none of the four "sawBad = true; return false"
exits is taken. -/
def valueOf (relaxed : Bool) (item after : Bytes) : Option Int :=
  match findDigits relaxed item with
  | none => none                                                -- leading garbage or empty value
  | some off =>
    match parseOffset (item.drop off ++ after) with
    | none => none                                              -- malformed
    | some (latest, used) =>
      if latest < 0 then none                                   -- negative
      else if !goodSuffix relaxed (item.drop (off + used)) then none   -- trailing garbage
      else some latest

/-- `checkValue(rawValue, valueSize)`: returns the new state and the boolean result -/
def checkValue (relaxed : Bool) (st : ClState) (item after : Bytes) : ClState × Bool :=
  match valueOf relaxed item after with
  | none => ({ st with sawBad := true }, false)
  | some latest =>
    if st.sawGood then
      let conflicting := st.value != latest
      let problem :=
        if conflicting then some Problem.conflicting
        else if st.headerWideProblem.isNone then some Problem.duplicate
        else st.headerWideProblem
      ({ st with needsSanitizing := true, headerWideProblem := problem,
                 sawBad := !relaxed || conflicting }, false)
    else
      ({ st with sawGood := true, value := latest }, true)

/-! ### strListGetItem(&list, ',', &item, &ilen, &pos) -/

/-- `delim[2]` with `del = ','`: what is skipped before an item — `" ,\t\r\n\v\f"`, i.e. the comma and every `xisspace` byte -/
def isListLead (b : UInt8) : Bool := b == 32 || b == 44 || b == 9 || b == 13 || b == 10 || b == 11 || b == 12

/-- The "find next delimiter" loop: returns the bytes of the raw item and the rest starting at the
delimiter (`,` outside quotes) or empty at the NUL. `quoted` is the C variable of that name. -/
def scanItem : Bytes → Bool → Bytes × Bytes
  | [], _ => ([], [])
  | c :: r, false =>
    if c == 44 then ([], c :: r)
    else if c == 34 then let p := scanItem r true; (c :: p.1, p.2)
    else let p := scanItem r false; (c :: p.1, p.2)
  | c :: r, true =>
    if c == 34 then let p := scanItem r false; (c :: p.1, p.2)
    else if c == 92 then
      match r with
      | [] => ([c], [])
      | d :: r' => let p := scanItem r' true; (c :: d :: p.1, p.2)
    else let p := scanItem r true; (c :: p.1, p.2)

/-- rtrim by `xisspace`: (kept, trimmed-off whitespace) -/
def rtrimSplit (s : Bytes) : Bytes × Bytes :=
  (rtrim s, s.drop (rtrim s).length)

structure ListItem where
  /-- the `ilen` bytes at `item` -/
  item : Bytes
  /-- the bytes following the item in the C string (trimmed whitespace, then from the delimiter on) -/
  after : Bytes
  /-- the new `*pos` -/
  rest : Bytes
  deriving DecidableEq, Repr

/-- one call with `*pos` pointing at `s`; `none` when it returns 0 (`len == 0`); the new `*pos` is
reported in that case too, as `.2` -/
def strListGetItem (s : Bytes) : Option ListItem × Bytes :=
  let s1 := s.dropWhile isListLead
  let (raw, rest) := scanItem s1 false
  let (item, trimmed) := rtrimSplit raw
  if item.isEmpty then (none, rest) else (some ⟨item, trimmed ++ rest, rest⟩, rest)

/-- the `while (strListGetItem(…))` loop of `checkList`; `fuel` bounds the number of items -/
def checkListLoop (relaxed : Bool) : Nat → ClState → Bytes → ClState
  | 0, st, _ => st
  | fuel + 1, st, pos =>
    match strListGetItem pos with
    | (none, _) => st
    | (some it, rest) =>
      let (st', ok) := checkValue relaxed st it.item it.after
      if !ok && st'.sawBad then st'
      else checkListLoop relaxed fuel st' rest

/-- after the loop of `checkList`: does `pos != item` hold, i.e. did the last `strListGetItem` call return 0 on a member that
is not empty before trimming? Mirrors the control flow of `checkListLoop` (irrelevant when the loop left through `break`). -/
def loopEndsBlank (relaxed : Bool) : Nat → ClState → Bytes → Bool
  | 0, _, _ => false
  | fuel + 1, st, pos =>
    match strListGetItem pos with
    | (none, _) => !(scanItem (pos.dropWhile isListLead) false).1.isEmpty
    | (some it, rest) =>
      let (st', ok) := checkValue relaxed st it.item it.after
      if !ok && st'.sawBad then false
      else loopEndsBlank relaxed fuel st' rest

/-- `checkList(list)`; `items == 0` ⇔ the first `strListGetItem` call returned 0 -/
def checkList (relaxed : Bool) (st : ClState) (list : Bytes) : ClState × Bool :=
  if !relaxed then ({ st with sawBad := true }, false)
  else
    let st0 := { st with needsSanitizing := true }
    let st1 := checkListLoop relaxed (list.length + 1) st0 list
    let noItems := (strListGetItem list).1.isNone
    let blank := loopEndsBlank relaxed (list.length + 1) st0 list
    if !st1.sawBad && (noItems || blank) then ({ st1 with sawBad := true }, false)   -- malformed list
    else (st1, false)

/-- `checkField(rawValue)` -/
def checkField (relaxed : Bool) (st : ClState) (rawValue : Bytes) : ClState × Bool :=
  if st.sawBad then (st, false)
  else if rawValue.contains 44 then checkList relaxed st rawValue
  else checkValue relaxed st rawValue []

end SquidModel.Header
