/-
Model of `HttpHeader::parse(const char *header_start, size_t hdrLen, ContentLengthInterpreter &clen)`,
`HttpHeaderEntry::parse`, the `HttpHeaderEntry` constructor, `HttpHeader::getList`/`strListAdd` as used for
Transfer-Encoding, `HttpHeader::delById`, `putInt64`, and `HttpHeader::packInto` / `HttpHeaderEntry::packInto`
(src/HttpHeader.cc).

The C loop walks the buffer with `memchr('\n')`; here the block is first cut into its LF-terminated lines
(`splitLines`) and the loop runs over that list: the "next byte is SP or HT" test of the do-while becomes a test on
the first byte of the next line (or of the unterminated tail). Every `clean(); return 0;` is the outcome `reject`.
Core-only.
-/
import SquidModel.Header.ContentLength
import SquidModel.Header.Registry

namespace SquidModel.Header
open SquidModel

/-- `http_hdr_owner_type` as far as `parse` distinguishes it -/
inductive Owner where
  | request   -- hoRequest
  | reply     -- hoReply
  | other     -- hoHtcpReply, hoErrorDetail
  deriving DecidableEq, Repr

structure Cfg where
  /-- `Config.onoff.relaxed_header_parser` is non-zero -/
  relaxed : Bool
  owner : Owner
  /-- `clen.prohibitedAndIgnored()` is set (trailers, 1xx and 204 replies) -/
  prohibited : Bool
  deriving DecidableEq, Repr

/-- `HttpHeaderEntry` -/
structure Entry where
  id : Nat
  name : Bytes
  value : Bytes
  deriving DecidableEq, Repr

/-! ### HttpHeaderEntry::parse -/

def endsWithSpace (s : Bytes) : Bool :=
  match s.getLast? with
  | some c => isSpace c
  | none => false

/-- the part of `HttpHeaderEntry::parse` that decides the field name: `raw` is `[field_start, name_end)` -/
def entryName (cfg : Cfg) (raw : Bytes) : Option Bytes :=
  if raw.isEmpty then none                               -- !name_len
  else if raw.length > 65534 then none
  else if endsWithSpace raw then
    if cfg.owner == Owner.request then none
    else if !(cfg.owner == Owner.reply || cfg.relaxed) then none
    else
      let n := rtrim raw
      if n.isEmpty then none else some n
  else some raw

/-- `HttpHeaderEntry::parse(field_start, field_end, msgType)` on the bytes `[field_start, field_end)` -/
def parseEntry (cfg : Cfg) (field : Bytes) : Option Entry :=
  if !field.contains 58 then none                        -- no ':' ⇒ name_len = 0
  else
    match entryName cfg (field.takeWhile (· != 58)) with
    | none => none
    | some name =>
      if !name.all Gen.CharSets.TCHAR.mem then none
      else
        let id0 := lookupName name
        let id := if id0 == idBad then idOther else id0
        let theName := if id == idOther then name else nameOf id
        let value := rtrim (ltrim ((field.dropWhile (· != 58)).drop 1))
        if value.length > 65534 then none
        else some ⟨id, theName, value⟩

/-! ### the line / field loop of HttpHeader::parse -/

/-- the LF-terminated lines of the block (LF removed) and what follows the last LF -/
def splitLines : Bytes → List Bytes × Bytes
  | [] => ([], [])
  | b :: rest =>
    let r := splitLines rest
    if b == 10 then ([] :: r.1, r.2)
    else match r.1 with
      | [] => ([], b :: r.2)
      | l :: ls => ((b :: l) :: ls, r.2)

/-- what the do-while body leaves of one physical line -/
structure PLine where
  /-- `[this_line, field_end)` after the bare-CR rewrite -/
  body : Bytes
  /-- the terminator that stays in the buffer behind it: CR LF or LF -/
  term : Bytes
  /-- a stray CR was seen in this line -/
  bare : Bool
  deriving DecidableEq, Repr

/-- the body of the do-while for the line `[this_line, LF)`; `first` ⇔ `this_line == field_start` -/
def procLine (cfg : Cfg) (first : Bool) (line : Bytes) : Option PLine :=
  let hadCr := line.getLast? == some 13
  let body := if hadCr then line.dropLast else line
  if hadCr && cfg.owner == Owner.request && !body.isEmpty && body.all (· == 13) then none  -- CR+ line in a request
  else
    let bare := body.contains 13
    if bare && !cfg.relaxed then none
    else
      let body' := if bare then body.map (fun c => if c == 13 then 32 else c) else body
      if body'.length == 1 && !first then none           -- blank continuation line
      else some ⟨body', if hadCr then [13, 10] else [10], bare⟩

def procLines (cfg : Cfg) : Bool → List Bytes → Option (List PLine)
  | _, [] => some []
  | first, l :: ls =>
    match procLine cfg first l with
    | none => none
    | some p =>
      match procLines cfg false ls with
      | none => none
      | some ps => some (p :: ps)

/-- `[field_start, field_end)`: the lines with the terminators between them, without the last terminator -/
def assemble : List PLine → Bytes
  | [] => []
  | [p] => p.body
  | p :: ps => p.body ++ p.term ++ assemble ps

def startsWsp (l : Bytes) : Bool :=
  match l with
  | b :: _ => b == 32 || b == 9
  | [] => false

def isFraming (id : Nat) : Bool := id == idContentLength || id == idTransferEncoding

/-- the `while (field_ptr < header_end)` loop; `lines`/`tail` = what is left of the block, `es` = entries added so far.
`none` = `clean(); return 0`. The fuel bounds the number of fields (each takes at least one line). -/
def fieldLoop (cfg : Cfg) : Nat → List Bytes → Bytes → List Entry → ClState → Option (List Entry × ClState)
  | 0, _, _, _, _ => none
  | _ + 1, [], tail, es, cl => if tail.isEmpty then some (es, cl) else none   -- missing LF
  | f + 1, l :: ls, tail, es, cl =>
    let conts := ls.takeWhile startsWsp
    let rest := ls.dropWhile startsWsp
    if rest.isEmpty && startsWsp tail then none          -- continuation without LF
    else
      match procLines cfg true (l :: conts) with
      | none => none
      | some pls =>
        let field := assemble pls
        if field.isEmpty then
          if rest.isEmpty && tail.isEmpty then some (es, cl) else none   -- blank line: terminator or garbage
        else
          match parseEntry cfg field with
          | none => none
          | some e =>
            if (decide (pls.length > 1) || pls.any (·.bare)) && isFraming e.id then none
            else if e.id == idContentLength then
              let r := checkField cfg.relaxed cl e.value
              if r.2 then fieldLoop cfg f rest tail (es ++ [e]) r.1
              else if cfg.relaxed then fieldLoop cfg f rest tail es r.1
              else none
            else fieldLoop cfg f rest tail (es ++ [e]) cl

/-! ### after the loop -/

/-- `String::SizeMax_` -/
def stringSizeMax : Nat := 196607

/-- `strListAdd(&s, item, ',')` for every item; `none` = the `Must(canGrowBy)` exception -/
def strListJoin : Bytes → List Bytes → Option Bytes
  | s, [] => some s
  | s, item :: more =>
    let s1 := if s.isEmpty then some s
              else if s.length + 2 + 1 ≤ stringSizeMax then some (s ++ [44, 32]) else none
    match s1 with
    | none => none
    | some s1 =>
      if s1.length + item.length + 1 ≤ stringSizeMax then strListJoin (s1 ++ item) more else none

def isListHeader (id : Nat) : Bool :=
  match Gen.HeaderRegistry.records[id]? with
  | some r => r.list
  | none => false

/-- `getStrOrList(id)` for an id that is present; `none` = exception -/
def getStrOrList (es : List Entry) (id : Nat) : Option Bytes :=
  let vals := (es.filter (·.id == id)).map (·.value)
  if isListHeader id then strListJoin [] vals
  else some (vals.headD [])

def chunkedToken : Bytes := [99, 104, 117, 110, 107, 101, 100]

/-- decimal digits of `n`, most significant first (`xint64toa` for `n ≥ 0`) -/
def natToDecAux : Nat → Nat → Bytes → Bytes
  | 0, _, acc => acc
  | fuel + 1, n, acc =>
    let acc' := UInt8.ofNat (48 + n % 10) :: acc
    if n / 10 = 0 then acc' else natToDecAux fuel (n / 10) acc'

def natToDec (n : Nat) : Bytes := natToDecAux (n + 1) n []

def delById (es : List Entry) (id : Nat) : List Entry := es.filter (·.id != id)

structure HdrResult where
  entries : List Entry
  /-- `conflictingContentLength_` -/
  conflictingContentLength : Bool
  /-- `teUnsupported_` -/
  teUnsupported : Bool
  deriving DecidableEq, Repr

inductive Outcome where
  | reject                 -- parse() returned 0
  | throws                 -- a `Must()` threw (String capacity while joining Transfer-Encoding values)
  | ok (r : HdrResult)     -- parse() returned 1
  deriving DecidableEq, Repr

/-- the part of `HttpHeader::parse` after the loop -/
def finish (cfg : Cfg) (es : List Entry) (cl : ClState) : Outcome :=
  if cfg.prohibited then
    .ok ⟨delById (delById es idContentLength) idTransferEncoding, false, false⟩
  else if es.any (·.id == idTransferEncoding) then
    match getStrOrList es idTransferEncoding with
    | none => .throws
    | some rawTe =>
      .ok ⟨delById es idContentLength, false, !(eqIgnoreCase rawTe chunkedToken)⟩
  else if cl.sawBad then
    .ok ⟨delById es idContentLength, true, false⟩
  else if cl.needsSanitizing then
    let es' := delById es idContentLength
    if cl.sawGood then
      .ok ⟨es' ++ [⟨idContentLength, nameOf idContentLength, natToDec cl.value.toNat⟩], false, false⟩
    else .ok ⟨es', false, false⟩
  else .ok ⟨es, false, false⟩

/-- `HttpHeader::parse(header_start, hdrLen, clen)` on a fresh header and a fresh interpreter -/
def parseHeader (cfg : Cfg) (block : Bytes) : Outcome :=
  if block.contains 0 then .reject
  else
    let sl := splitLines block
    match fieldLoop cfg (sl.1.length + 1) sl.1 sl.2 [] {} with
    | none => .reject
    | some (es, cl) => finish cfg es cl

/-! ### packing and the observers the callers use -/

/-- `HttpHeaderEntry::packInto` -/
def packEntry (e : Entry) : Bytes := e.name ++ [58, 32] ++ e.value ++ [13, 10]

/-- `HttpHeader::packInto(p, false)` -/
def pack (es : List Entry) : Bytes := es.flatMap packEntry

/-- `HttpHeader::len` -/
def hdrLen (es : List Entry) : Nat := (es.map fun e => e.name.length + 2 + e.value.length + 2).sum

/-- `has(CONTENT_LENGTH)` then `getInt64(CONTENT_LENGTH)`: first entry with that id, `httpHeaderParseOffset` of its value, −1 on failure -/
def contentLength (es : List Entry) : Option Int :=
  match es.find? (·.id == idContentLength) with
  | none => none
  | some e =>
    match parseOffset e.value with
    | some (v, _) => some v
    | none => some (-1)

end SquidModel.Header
