/-
State-shape invariants of the Content-Length interpreter (independent of `BlankOk`), the decimal printer, and what
`getInt64` reads back from a stored Content-Length entry.
-/
import SquidModel.Header.SoundLemmas

namespace SquidModel.Header
open SquidModel

/-! ### strtoll with leading whitespace; the decimal printer -/

theorem parseOffset_ws_digits (ws : Bytes) (d : UInt8) (ds r : Bytes) (hws : ws.all isSpace = true) (hd : isDigit d = true)
    (hall : ds.all isDigit = true) (hr : ∀ c, r.head? = some c → isDigit c = false)
    (hfit : digitsVal (d :: ds) 0 ≤ 9223372036854775807) :
    ∃ k, parseOffset (ws ++ (d :: ds ++ r)) = some ((digitsVal (d :: ds) 0 : Int), k) := by
  have hsp := digit_not_space d hd
  have hne := digit_ne d hd
  have htw := takeWhile_append_of_head (p := isDigit) (d :: ds) r (by simp [hd, hall]) hr
  have h45 : (some d == some (45 : UInt8)) = false := by simp [hne.1]
  have h43 : (some d == some (43 : UInt8)) = false := by simp [hne.2.1]
  have hsw := takeWhile_append_of_head (p := isSpace) ws ((d :: ds) ++ r) hws (by intro c hc; simp at hc; rw [← hc]; exact hsp)
  have e3 : ((d :: ds) ++ r).head? = some d := rfl
  have hnn : (0 : Int) ≤ (digitsVal (d :: ds) 0 : Int) := Int.natCast_nonneg _
  have hbig : ¬ ((digitsVal (d :: ds) 0 : Int) > INT64_MAX) := by unfold INT64_MAX; omega
  have hsmall : ¬ ((digitsVal (d :: ds) 0 : Int) < INT64_MIN) := by unfold INT64_MIN; omega
  refine ⟨ws.length + 0 + (ds.length + 1), ?_⟩
  unfold parseOffset strtoll strtollClamp
  simp only [hsw.1, hsw.2, e3, h45, h43, Bool.or_self, Bool.false_eq_true, if_false, List.drop_zero, htw.1,
    List.isEmpty_cons, List.length_cons, hbig, hsmall, Bool.false_and]
  simp

theorem digitsVal_append (a b : Bytes) (acc : Nat) : digitsVal (a ++ b) acc = digitsVal b (digitsVal a acc) := by
  induction a generalizing acc with
  | nil => rfl
  | cons c r ih => simp [digitsVal, ih]

theorem digit_of_small (k : Nat) (hk : k < 10) : isDigit (UInt8.ofNat (48 + k)) = true ∧ (UInt8.ofNat (48 + k)).toNat - 48 = k := by
  have h := allBelow_spec (n := 10) (p := fun k => isDigit (UInt8.ofNat (48 + k)) && ((UInt8.ofNat (48 + k)).toNat - 48 == k))
    (by decide +kernel) k hk
  simpa using h

theorem natToDecAux_spec : ∀ (fuel n : Nat) (acc : Bytes), n < fuel →
    ∃ ds, natToDecAux fuel n acc = ds ++ acc ∧ ds ≠ [] ∧ ds.all isDigit = true ∧ (∀ a, digitsVal ds a = a * 10 ^ ds.length + n) ∧
      (ds.length = 1 ∨ 10 ^ (ds.length - 1) ≤ n) := by
  intro fuel
  induction fuel with
  | zero => intro n acc h; omega
  | succ fuel ih =>
    intro n acc hn
    have hd := digit_of_small (n % 10) (Nat.mod_lt _ (by decide))
    unfold natToDecAux
    by_cases h0 : n / 10 = 0
    · simp only [h0, if_true]
      refine ⟨[UInt8.ofNat (48 + n % 10)], rfl, by simp, by simp only [List.all_cons, List.all_nil, Bool.and_true]; exact hd.1, ?_, Or.inl rfl⟩
      intro a
      simp only [digitsVal, hd.2, List.length_cons, List.length_nil, Nat.zero_add, Nat.pow_one]
      omega
    · simp only [h0, if_false]
      obtain ⟨ds, hds, hne, hall, hval, hlen⟩ := ih (n / 10) (UInt8.ofNat (48 + n % 10) :: acc) (by omega)
      refine ⟨ds ++ [UInt8.ofNat (48 + n % 10)], by rw [hds]; simp, by simp, by
        rw [List.all_append, hall]; simp only [List.all_cons, List.all_nil, Bool.and_true, Bool.true_and]; exact hd.1, ?_, ?_⟩
      · intro a
        rw [digitsVal_append, hval a]
        simp only [digitsVal, hd.2, List.length_append, List.length_cons, List.length_nil, Nat.zero_add, Nat.pow_succ]
        have := Nat.div_add_mod n 10
        rw [Nat.add_mul, Nat.mul_assoc]
        omega
      · right
        simp only [List.length_append, List.length_cons, List.length_nil, Nat.zero_add, Nat.add_sub_cancel]
        rcases hlen with h1 | h1
        · rw [h1]; simp; omega
        · have hpos : 0 < ds.length := by cases ds with
            | nil => exact absurd rfl hne
            | cons a b => simp
          have e : ds.length = (ds.length - 1) + 1 := by omega
          rw [e, Nat.pow_succ]
          omega

theorem natToDec_spec (n : Nat) : natToDec n ≠ [] ∧ (natToDec n).all isDigit = true ∧ digitsVal (natToDec n) 0 = n ∧
    ((natToDec n).length = 1 ∨ 10 ^ ((natToDec n).length - 1) ≤ n) := by
  obtain ⟨ds, hds, hne, hall, hval, hlen⟩ := natToDecAux_spec (n + 1) n [] (by omega)
  unfold natToDec
  rw [hds, List.append_nil]
  exact ⟨hne, hall, by simpa using hval 0, hlen⟩

theorem natToDec_length (n : Nat) (h : n ≤ 9223372036854775807) : (natToDec n).length ≤ 19 := by
  obtain ⟨_, _, _, hlen⟩ := natToDec_spec n
  rcases hlen with h1 | h1
  · omega
  · by_cases hl : (natToDec n).length - 1 < 19
    · omega
    · exfalso
      have : 10 ^ 19 ≤ 10 ^ ((natToDec n).length - 1) := Nat.pow_le_pow_right (by decide) (by omega)
      have h19 : (10 : Nat) ^ 19 = 10000000000000000000 := by decide
      omega

/-! ### the value is always within int64 once a good value was seen -/

def ValueOk (st : ClState) : Prop := st.sawGood = true → 0 ≤ st.value ∧ st.value ≤ 9223372036854775807

theorem strtollClamp_res_le (v : Int) (k : Nat) : (strtollClamp v k).res ≤ INT64_MAX := by
  unfold strtollClamp
  split
  · simp
  · split
    · simp [INT64_MAX, INT64_MIN]
    · rename_i h1 _; simp only [gt_iff_lt, Int.not_lt] at h1; exact h1

theorem ite_pred {α : Type} (P : α → Prop) (c : Prop) [Decidable c] (a b : α) (ha : P a) (hb : P b) :
    P (if c then a else b) := by split <;> assumption

theorem strtoll_res_le (s : Bytes) : (strtoll s).res ≤ INT64_MAX := by
  unfold strtoll
  exact ite_pred (fun r : Strtoll => r.res ≤ INT64_MAX) _ _ _ (by simp [INT64_MAX]) (strtollClamp_res_le _ _)

/-- `valueOf` never returns a value outside `0 … INT64_MAX`, whatever follows the item -/
theorem valueOf_range (relaxed : Bool) (item after : Bytes) (n : Int) (h : valueOf relaxed item after = some n) :
    0 ≤ n ∧ n ≤ 9223372036854775807 := by
  unfold valueOf at h
  cases hf : findDigits relaxed item with
  | none => simp [hf] at h
  | some off =>
    simp only [hf] at h
    cases hp : parseOffset (item.drop off ++ after) with
    | none => simp [hp] at h
    | some p =>
      obtain ⟨latest, used⟩ := p
      simp only [hp] at h
      by_cases hneg : latest < 0
      · simp [hneg] at h
      · simp only [hneg, if_false] at h
        split at h
        · simp at h
        · simp only [Option.some.injEq] at h
          subst h
          refine ⟨by omega, ?_⟩
          -- parseOffset only returns strtoll's clamped result
          unfold parseOffset at hp
          generalize hst : strtoll (item.drop off ++ after) = r at hp
          have hres : r.res ≤ INT64_MAX := by rw [← hst]; exact strtoll_res_le _
          simp only [] at hp
          split at hp
          · simp at hp
          · split at hp
            · simp at hp
            · split at hp
              · simp at hp
              · simp only [Option.some.injEq, Prod.mk.injEq] at hp
                rw [← hp.1]; unfold INT64_MAX at hres; exact hres

theorem checkValue_valueOk (relaxed : Bool) (st : ClState) (item after : Bytes) (h : ValueOk st) :
    ValueOk (checkValue relaxed st item after).1 := by
  unfold checkValue
  cases hv : valueOf relaxed item after with
  | none => exact h
  | some n =>
    simp only []
    by_cases hsg : st.sawGood = true
    · simp only [hsg, if_true]; intro _; exact h hsg
    · simp only [hsg, Bool.false_eq_true, if_false]; intro _; exact valueOf_range relaxed item after n hv

theorem checkValue_needsSan (relaxed : Bool) (st : ClState) (item after : Bytes) (h : st.needsSanitizing = true) :
    (checkValue relaxed st item after).1.needsSanitizing = true := by
  unfold checkValue
  cases hv : valueOf relaxed item after with
  | none => exact h
  | some n =>
    simp only []
    by_cases hsg : st.sawGood = true
    · simp [hsg]
    · simp [hsg, h]

theorem loop_valueOk (relaxed : Bool) : ∀ (fuel : Nat) (st : ClState) (pos : Bytes), ValueOk st → ValueOk (checkListLoop relaxed fuel st pos) := by
  intro fuel
  induction fuel with
  | zero => intro st pos h; exact h
  | succ fuel ih =>
    intro st pos h
    unfold checkListLoop
    cases hgi : strListGetItem pos with
    | mk r rest =>
      cases r with
      | none => exact h
      | some it =>
        simp only []
        have h1 := checkValue_valueOk relaxed st it.item it.after h
        cases hcv : checkValue relaxed st it.item it.after with
        | mk st' ok =>
          rw [hcv] at h1
          simp only []
          split
          · exact h1
          · exact ih st' rest h1

theorem loop_needsSan (relaxed : Bool) : ∀ (fuel : Nat) (st : ClState) (pos : Bytes), st.needsSanitizing = true →
    (checkListLoop relaxed fuel st pos).needsSanitizing = true := by
  intro fuel
  induction fuel with
  | zero => intro st pos h; exact h
  | succ fuel ih =>
    intro st pos h
    unfold checkListLoop
    cases hgi : strListGetItem pos with
    | mk r rest =>
      cases r with
      | none => exact h
      | some it =>
        simp only []
        have h1 := checkValue_needsSan relaxed st it.item it.after h
        cases hcv : checkValue relaxed st it.item it.after with
        | mk st' ok =>
          rw [hcv] at h1
          simp only []
          split
          · exact h1
          · exact ih st' rest h1

/-- What is known when neither `sawBad` nor `needsSanitizing` is set: at most one field was seen, it had no comma and
it was a valid value; `seen` lists the Content-Length field values processed so far. -/
def Shape (relaxed : Bool) (st : ClState) (seen : List Bytes) : Prop :=
  ValueOk st ∧
  (st.sawBad = false → st.needsSanitizing = false →
    (st.sawGood = false → seen = []) ∧
    (st.sawGood = true → ∃ v, seen = [v] ∧ v.contains 44 = false ∧ valueOf relaxed v [] = some st.value))

theorem shape_init (relaxed : Bool) : Shape relaxed {} [] := by
  refine ⟨by intro h; simp at h, ?_⟩
  intro _ _; exact ⟨fun _ => rfl, by intro h; simp at h⟩

/-- one `checkField`: the shape is kept, and a `false` result means that the field must be sanitised away or is bad;
with the strict parser a `true` result leaves `sawBad` and `needsSanitizing` as they were -/
theorem checkField_shape (relaxed : Bool) (st : ClState) (seen : List Bytes) (v : Bytes) (h : Shape relaxed st seen) :
    Shape relaxed (checkField relaxed st v).1 (seen ++ [v]) ∧
    ((checkField relaxed st v).2 = false → (checkField relaxed st v).1.sawBad = true ∨ (checkField relaxed st v).1.needsSanitizing = true) ∧
    ((checkField relaxed st v).2 = true → (checkField relaxed st v).1.sawBad = st.sawBad ∧
        (checkField relaxed st v).1.needsSanitizing = st.needsSanitizing ∧ st.sawGood = false ∧ st.sawBad = false) := by
  unfold checkField
  by_cases hbad : st.sawBad = true
  · simp only [hbad, if_true]
    refine ⟨⟨h.1, ?_⟩, fun _ => Or.inl trivial, by simp⟩
    intro hb; rw [hbad] at hb; exact absurd hb (by simp)
  · have hbad' : st.sawBad = false := by simpa using hbad
    simp only [hbad', Bool.false_eq_true, if_false]
    by_cases hc : v.contains 44 = true
    · simp only [hc, if_true]
      unfold checkList
      cases relaxed with
      | false =>
        simp only [Bool.not_false, if_true]
        refine ⟨⟨h.1, ?_⟩, fun _ => Or.inl trivial, by simp⟩
        intro hb; simp at hb
      | true =>
        simp only [Bool.not_true, Bool.false_eq_true, if_false]
        have hns := loop_needsSan true (v.length + 1) { st with needsSanitizing := true } v rfl
        have hvo := loop_valueOk true (v.length + 1) { st with needsSanitizing := true } v h.1
        split
        · refine ⟨⟨hvo, ?_⟩, fun _ => Or.inl rfl, by simp⟩
          intro hb; simp at hb
        · refine ⟨⟨hvo, ?_⟩, fun _ => Or.inr hns, by simp⟩
          intro _ hn; rw [hns] at hn; exact absurd hn (by simp)
    · have hc' : v.contains 44 = false := by simpa using hc
      simp only [hc', Bool.false_eq_true, if_false]
      have hvo := checkValue_valueOk relaxed st v [] h.1
      refine ⟨⟨hvo, ?_⟩, ?_, ?_⟩
      · unfold checkValue
        cases hv : valueOf relaxed v [] with
        | none => intro hb; simp at hb
        | some n =>
          simp only []
          by_cases hsg : st.sawGood = true
          · simp only [hsg, if_true]; intro _ hn; simp at hn
          · have hsg' : st.sawGood = false := by simpa using hsg
            simp only [hsg', Bool.false_eq_true, if_false]
            intro hb hn
            have := (h.2 hb hn).1 hsg'
            refine ⟨by intro h0; simp at h0, fun _ => ⟨v, by rw [this]; rfl, hc', hv⟩⟩
      · unfold checkValue
        cases hv : valueOf relaxed v [] with
        | none => intro _; exact Or.inl rfl
        | some n =>
          simp only []
          by_cases hsg : st.sawGood = true
          · simp only [hsg, if_true]; intro _; exact Or.inr trivial
          · simp [hsg]
      · unfold checkValue
        cases hv : valueOf relaxed v [] with
        | none => simp
        | some n =>
          simp only []
          by_cases hsg : st.sawGood = true
          · simp [hsg]
          · simp [hsg, hbad']

end SquidModel.Header
