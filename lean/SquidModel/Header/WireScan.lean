/-
The field scan over a prefix of well-formed lines; acceptance of well-formed blocks; the rejections.
-/
import SquidModel.Header.WireLemmas

namespace SquidModel.Header
open SquidModel

theorem takeWhile_startsWsp_nil (L : List Bytes) (h : ∀ l, L.head? = some l → startsWsp l = false) :
    L.takeWhile startsWsp = [] ∧ L.dropWhile startsWsp = L := by
  cases L with
  | nil => simp
  | cons a b => have := h a rfl; simp [this]

/-- one well-formed line at the head of the scan -/
theorem scanLoop_wf_step {cfg : Cfg} {f : FieldSyn} (w : WF cfg f) (n : Nat) (L : List Bytes) (tail : Bytes)
    (hL : ∀ l, L.head? = some l → startsWsp l = false) (hT : L = [] → startsWsp tail = false) :
    scanLoop cfg (n + 1) (f.line :: L) tail = (scanLoop cfg n L tail).map (entryOf f :: ·) := by
  obtain ⟨htw, hdw⟩ := takeWhile_startsWsp_nil L hL
  have hne : f.body ≠ [] := by intro h; have := body_colon f; rw [h] at this; simp at this
  have hemp : f.body.isEmpty = false := by cases hb : f.body with
    | nil => exact absurd hb hne
    | cons a b => rfl
  have hfirst : (L.isEmpty && startsWsp tail) = false := by
    cases L with
    | nil => simp [hT rfl]
    | cons a b => rfl
  simp only [scanLoop, htw, hdw, hfirst, Bool.false_eq_true, if_false, procLines, procLine_wf w,
    assemble, hemp, parseEntry_wf w, List.length_cons, List.length_nil, List.any_cons, List.any_nil, Bool.or_false]
  simp

theorem scan_prefix {cfg : Cfg} : ∀ (fs : List FieldSyn) (k : Nat) (L : List Bytes) (tail : Bytes),
    (∀ f ∈ fs, WF cfg f) → (∀ l, L.head? = some l → startsWsp l = false) → (L = [] → startsWsp tail = false) →
    scanLoop cfg (fs.length + k) (fs.map FieldSyn.line ++ L) tail = (scanLoop cfg k L tail).map (fs.map entryOf ++ ·) := by
  intro fs
  induction fs with
  | nil => intro k L tail _ _ _; simp
  | cons f fs ih =>
    intro k L tail hw hL hT
    have w := hw f (by simp)
    have hL' : ∀ l, (fs.map FieldSyn.line ++ L).head? = some l → startsWsp l = false := by
      intro l hl
      cases fs with
      | nil => exact hL l (by simpa using hl)
      | cons g gs =>
        have : l = g.line := by simpa using hl.symm
        rw [this]; exact line_head (hw g (by simp))
    have hT' : fs.map FieldSyn.line ++ L = [] → startsWsp tail = false := by
      intro h
      simp only [List.append_eq_nil_iff] at h
      exact hT h.2
    have e1 : (f :: fs).length + k = (fs.length + k) + 1 := by simp; omega
    rw [e1, List.map_cons, List.cons_append, scanLoop_wf_step w _ _ _ hL' hT', ih k L tail (fun g hg => hw g (by simp [hg])) hL hT]
    cases scanLoop cfg k L tail <;> simp

theorem splitLines_wires {cfg : Cfg} : ∀ (fs : List FieldSyn) (rest : Bytes), (∀ f ∈ fs, WF cfg f) →
    splitLines (fs.flatMap FieldSyn.wire ++ rest) = (fs.map FieldSyn.line ++ (splitLines rest).1, (splitLines rest).2) := by
  intro fs
  induction fs with
  | nil => intro rest _; simp
  | cons f fs ih =>
    intro rest hw
    have w := hw f (by simp)
    rw [List.flatMap_cons, FieldSyn.wire, List.append_assoc, List.append_assoc]
    simp only [List.singleton_append]
    rw [splitLines_line _ _ (line_noLF w), ih rest (fun g hg => hw g (by simp [hg]))]
    simp

/-- the three ways a block may end: nothing, a bare LF line, a CR LF line -/
def isTerminator (t : Bytes) : Prop := t = [] ∨ t = [10] ∨ t = [13, 10]

theorem scan_terminator (cfg : Cfg) (t : Bytes) (ht : isTerminator t) :
    (∀ l, (splitLines t).1.head? = some l → startsWsp l = false) ∧ (splitLines t).2 = [] ∧
    scanLoop cfg ((splitLines t).1.length + 1) (splitLines t).1 [] = some [] ∧ (0 : UInt8) ∉ t := by
  obtain ⟨r, o, p⟩ := cfg
  rcases ht with h | h | h <;> subst h <;> cases r <;> cases o <;> cases p <;> decide

/-- **Acceptance.** A block made of well-formed field lines (any names, any permitted whitespace, CRLF or LF endings, with or
without the terminating empty line) is scanned into exactly the entries its lines denote, in order. -/
theorem rawEntries_wellformed (cfg : Cfg) (fs : List FieldSyn) (t : Bytes) (hw : ∀ f ∈ fs, WF cfg f) (ht : isTerminator t) :
    rawEntries cfg (fs.flatMap FieldSyn.wire ++ t) = some (fs.map entryOf) := by
  obtain ⟨hhead, htail, hscan, hnul⟩ := scan_terminator cfg t ht
  have h0 : (fs.flatMap FieldSyn.wire ++ t).contains 0 = false := by
    simp only [List.contains_eq_mem, List.mem_append, List.mem_flatMap, decide_eq_false_iff_not, not_or, not_exists, not_and]
    refine ⟨?_, hnul⟩
    intro f hf hm
    unfold FieldSyn.wire at hm
    rcases List.mem_append.mp hm with h | h
    · exact line_noNul (hw f hf) h
    · simp at h
  unfold rawEntries
  simp only [h0, Bool.false_eq_true, if_false]
  rw [splitLines_wires fs t hw, htail]
  simp only [List.length_append, List.length_map]
  rw [Nat.add_assoc, scan_prefix fs _ _ _ hw hhead (fun _ => rfl), hscan]
  simp

/-! ### rejections -/

theorem scanLoop_procLine_none (cfg : Cfg) (n : Nat) (l : Bytes) (more : List Bytes) (tail : Bytes)
    (h : procLine cfg true l = none) : scanLoop cfg (n + 1) (l :: more) tail = none := by
  simp only [scanLoop]
  split
  · rfl
  · simp [procLines, h]

/-- a block whose well-formed prefix is followed by a line on which the scan fails -/
theorem rawEntries_bad_line' (cfg : Cfg) (fs : List FieldSyn) (l rest : Bytes) (hw : ∀ f ∈ fs, WF cfg f)
    (hl : (10 : UInt8) ∉ l) (hs : startsWsp l = false)
    (hbad : ∀ n, scanLoop cfg (n + 1) (l :: (splitLines rest).1) (splitLines rest).2 = none) :
    rawEntries cfg (fs.flatMap FieldSyn.wire ++ l ++ 10 :: rest) = none := by
  unfold rawEntries
  split
  · rfl
  · rw [List.append_assoc, splitLines_wires fs _ hw, splitLines_line l rest hl]
    simp only [List.length_append, List.length_map, List.length_cons]
    rw [Nat.add_assoc, scan_prefix fs _ _ _ hw (by intro x hx; simp at hx; rw [← hx]; exact hs) (by intro h; simp at h),
      hbad]
    rfl

theorem rawEntries_bad_line (cfg : Cfg) (fs : List FieldSyn) (l rest : Bytes) (hw : ∀ f ∈ fs, WF cfg f)
    (hl : (10 : UInt8) ∉ l) (hs : startsWsp l = false)
    (hbad : ∀ n more tail, scanLoop cfg (n + 1) (l :: more) tail = none) :
    rawEntries cfg (fs.flatMap FieldSyn.wire ++ l ++ 10 :: rest) = none :=
  rawEntries_bad_line' cfg fs l rest hw hl hs (fun n => hbad n _ _)

/-- **CR-only line.** In a request, a line that consists of CRs only (two or more before the LF) is never accepted:
after any well-formed fields and before anything at all, the block is rejected. -/
theorem cr_only_line_rejected (cfg : Cfg) (ho : cfg.owner = Owner.request) (fs : List FieldSyn) (crs rest : Bytes)
    (hw : ∀ f ∈ fs, WF cfg f) (hne : crs ≠ []) (hcr : crs.all (· == 13) = true) :
    parseHeader cfg (fs.flatMap FieldSyn.wire ++ (crs ++ [13]) ++ 10 :: rest) = .reject := by
  have h10 : (10 : UInt8) ∉ crs ++ [13] := by
    simp only [List.mem_append, List.mem_singleton, not_or, List.all_eq_true] at hcr ⊢
    exact ⟨fun h => by have := hcr 10 h; simp at this, by decide⟩
  have hs : startsWsp (crs ++ [13]) = false := by
    cases crs with
    | nil => exact absurd rfl hne
    | cons a b =>
      simp only [List.all_cons, Bool.and_eq_true, beq_iff_eq] at hcr
      simp [startsWsp, hcr.1]
  have hp : procLine cfg true (crs ++ [13]) = none := by
    unfold procLine
    have e1 : ((crs ++ [13]).getLast? == some 13) = true := by simp
    have e2 : (crs ++ [13]).dropLast = crs := by simp
    have e3 : crs.isEmpty = false := by cases crs <;> simp_all
    simp [e2, e3, ho, hcr]
  rw [parseHeader_eq, rawEntries_bad_line cfg fs _ rest hw h10 hs (fun n more tail => scanLoop_procLine_none cfg n _ more tail hp)]

/-- **Whitespace before the colon.** In a request, a field line with whitespace between the name and the colon is never
accepted (`g` is a line that would be fine in a reply), whatever follows it — including continuation lines. -/
theorem ws_before_colon_request_rejected (cfg : Cfg) (ho : cfg.owner = Owner.request) (fs : List FieldSyn) (g : FieldSyn)
    (rest : Bytes) (hw : ∀ f ∈ fs, WF cfg f) (hg : WF ⟨cfg.relaxed, Owner.reply, cfg.prohibited⟩ g) (hb : g.bws ≠ []) :
    parseHeader cfg (fs.flatMap FieldSyn.wire ++ g.line ++ 10 :: rest) = .reject := by
  have hbad : ∀ n more tail, scanLoop cfg (n + 1) (g.line :: more) tail = none := by
    intro n more tail
    simp only [scanLoop]
    split
    · rfl
    · cases hp : procLines cfg true (g.line :: List.takeWhile startsWsp more) with
      | none => rfl
      | some pls =>
        simp only []
        -- the first processed line is the body of g; the field starts with it
        unfold procLines at hp
        rw [procLine_wf hg] at hp
        simp only [] at hp
        cases hps : procLines cfg false (List.takeWhile startsWsp more) with
        | none => simp [hps] at hp
        | some ps =>
          simp only [hps, Option.some.injEq] at hp
          have hasm : ∃ X, assemble pls = g.body ++ X := by
            rw [← hp]
            cases ps with
            | nil => exact ⟨[], by simp [assemble]⟩
            | cons q qs => exact ⟨(if g.crlf = true then [13, 10] else [10]) ++ assemble (q :: qs), by simp only [assemble, List.append_assoc]⟩
          obtain ⟨X, hX⟩ := hasm
          have hne : (assemble pls).isEmpty = false := by
            rw [hX]
            have := body_colon g
            cases hb' : g.body with
            | nil => rw [hb'] at this; simp at this
            | cons a b => rfl
          simp only [hne, Bool.false_eq_true, if_false]
          have hpe : parseEntry cfg (assemble pls) = none := by
            obtain ⟨htw, hcol⟩ := takeWhile_name_append g hg X
            unfold parseEntry
            rw [hX]
            simp only [hcol, Bool.not_true, Bool.false_eq_true, if_false, htw,
              entryName_request_bws cfg g.name g.bws ho hb (all_hws_space _ hg.bws_ws)]
          simp [hpe]
  rw [parseHeader_eq, rawEntries_bad_line cfg fs _ rest hw (line_noLF hg) (line_head hg) hbad]

/-- the id of a field is decided by its first line -/
theorem parseEntry_id_prefix {cfg : Cfg} {f : FieldSyn} (w : WF cfg f) (X : Bytes) (e : Entry)
    (h : parseEntry cfg (f.body ++ X) = some e) : e.id = (entryOf f).id := by
  obtain ⟨htw, hcol⟩ := takeWhile_name_append f w X
  unfold parseEntry at h
  simp only [hcol, Bool.not_true, Bool.false_eq_true, if_false, htw, entryName_wf w, w.name_tchar] at h
  split at h
  · simp at h
  · simp only [Option.some.injEq] at h
    rw [← h]; rfl

/-- **obs-fold in a framing field.** A Content-Length or Transfer-Encoding line that is continued on the next line is never
accepted by `HttpHeader::parse` (after any well-formed fields, whatever follows). -/
theorem framing_fold_rejected (cfg : Cfg) (fs : List FieldSyn) (f : FieldSyn) (cont rest : Bytes)
    (hw : ∀ g ∈ fs, WF cfg g) (wf : WF cfg f) (hfr : isFraming (entryOf f).id = true)
    (hc : startsWsp cont = true) (hc10 : (10 : UInt8) ∉ cont) :
    parseHeader cfg (fs.flatMap FieldSyn.wire ++ f.line ++ 10 :: (cont ++ 10 :: rest)) = .reject := by
  have hbad : ∀ n, scanLoop cfg (n + 1) (f.line :: (splitLines (cont ++ 10 :: rest)).1) (splitLines (cont ++ 10 :: rest)).2 = none := by
    intro n
    rw [splitLines_line cont rest hc10]
    simp only [scanLoop]
    split
    · rfl
    · cases hp : procLines cfg true (f.line :: List.takeWhile startsWsp (cont :: (splitLines rest).1)) with
      | none => rfl
      | some pls =>
        simp only []
        have hlen := procLines_length cfg _ true pls hp
        simp only [List.takeWhile_cons, hc, if_true, List.length_cons] at hlen
        unfold procLines at hp
        rw [procLine_wf wf] at hp
        simp only [] at hp
        cases hps : procLines cfg false (List.takeWhile startsWsp (cont :: (splitLines rest).1)) with
        | none => simp [hps] at hp
        | some ps =>
          simp only [hps, Option.some.injEq] at hp
          have hasm : ∃ X, assemble pls = f.body ++ X := by
            rw [← hp]
            cases ps with
            | nil => exact ⟨[], by simp [assemble]⟩
            | cons q qs => exact ⟨(if f.crlf = true then [13, 10] else [10]) ++ assemble (q :: qs), by simp only [assemble, List.append_assoc]⟩
          obtain ⟨X, hX⟩ := hasm
          have hne : (assemble pls).isEmpty = false := by
            rw [hX]
            have := body_colon f
            cases hb' : f.body with
            | nil => rw [hb'] at this; simp at this
            | cons a b => rfl
          simp only [hne, Bool.false_eq_true, if_false]
          cases hpe : parseEntry cfg (assemble pls) with
          | none => rfl
          | some e =>
            simp only []
            have hid : e.id = (entryOf f).id := by rw [hX] at hpe; exact parseEntry_id_prefix wf X e hpe
            have hgt : decide (pls.length > 1) = true := by simp; omega
            simp [hgt, hid, hfr]
  rw [parseHeader_eq, rawEntries_bad_line' cfg fs _ _ hw (line_noLF wf) (line_head wf) hbad]

/-- **NUL.** A block with a NUL byte is never accepted. -/
theorem nul_rejected (cfg : Cfg) (block : Bytes) (h : (0 : UInt8) ∈ block) : parseHeader cfg block = .reject := by
  unfold parseHeader
  have : block.contains 0 = true := by simpa using h
  rw [if_pos this]

end SquidModel.Header
