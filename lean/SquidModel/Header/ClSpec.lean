/-
Specification side of C26: what the Content-Length values of a field *are* (written from RFC 9110 §8.6 / §5.6.1,
independently of the interpreter's state machine), and the decomposition of `HttpHeader::parse` into
"scan the fields" and "decide about Content-Length" that the theorems are stated over.
Core-only.
-/
import SquidModel.Header.Parse

namespace SquidModel.Header
open SquidModel

/-- cut at every comma (no quoting rules) -/
def splitComma : Bytes → List Bytes
  | [] => [[]]
  | c :: r =>
    if c == 44 then [] :: splitComma r
    else match splitComma r with
      | [] => [[c]]
      | h :: t => (c :: h) :: t

/-- remove surrounding `isspace` bytes -/
def strip (x : Bytes) : Bytes := rtrim (ltrim x)

/-- The members of a comma list, trimmed; blank members (nothing but white space: RFC 9110 §5.6.1.2 empty elements, read with the
`isspace` notion of white space the parser uses everywhere) are ignored. `isListLead` is the comma plus exactly the `isspace` bytes;
`elements_spec` restates this as "non-blank members, trimmed". -/
def elements (v : Bytes) : List Bytes := ((splitComma v).filter (fun m => !m.all isListLead)).map strip

/-- `1*DIGIT` denoting a number that fits `int64_t` -/
def decimalValue (x : Bytes) : Option Nat :=
  if !x.isEmpty && x.all isDigit && decide (digitsVal x 0 ≤ 9223372036854775807) then some (digitsVal x 0) else none

/-- the values one Content-Length field carries: the list members when lists are allowed (relaxed parser) and the
value has a comma, the whole value otherwise -/
def fieldValues (relaxed : Bool) (v : Bytes) : List Bytes :=
  if relaxed && v.contains 44 then elements v else [strip v]

/-- Every list member that is blank after trimming consists only of the bytes `strListGetItem` skips between items. Since 43aac5c
this holds for every value (`blankOk_all`); before, a VT/FF-only member violated it (former finding C26-list-truncated). -/
def BlankOk (v : Bytes) : Prop := ∀ e ∈ splitComma v, strip e = [] → e.all isListLead = true

instance (v : Bytes) : Decidable (BlankOk v) := by unfold BlankOk; infer_instance

/-- all fields carry the value `n`, and each carries at least one value -/
def AllDenote (relaxed : Bool) (vs : List Bytes) (n : Nat) : Prop :=
  ∀ v ∈ vs, fieldValues relaxed v ≠ [] ∧ ∀ x ∈ fieldValues relaxed v, decimalValue x = some n

/-- the interpreter over the Content-Length field values of a message, in order -/
def runFields (relaxed : Bool) (st : ClState) (vs : List Bytes) : ClState :=
  vs.foldl (fun st v => (checkField relaxed st v).1) st

/-! ### HttpHeader::parse = scan the fields, then fold the Content-Length decision over them -/

/-- `fieldLoop` without the Content-Length interpreter: every entry the entry parser produces, in order -/
def scanLoop (cfg : Cfg) : Nat → List Bytes → Bytes → Option (List Entry)
  | 0, _, _ => none
  | _ + 1, [], tail => if tail.isEmpty then some [] else none
  | f + 1, l :: ls, tail =>
    let conts := ls.takeWhile startsWsp
    let rest := ls.dropWhile startsWsp
    if rest.isEmpty && startsWsp tail then none
    else
      match procLines cfg true (l :: conts) with
      | none => none
      | some pls =>
        let field := assemble pls
        if field.isEmpty then
          if rest.isEmpty && tail.isEmpty then some [] else none
        else
          match parseEntry cfg field with
          | none => none
          | some e =>
            if (decide (pls.length > 1) || pls.any (·.bare)) && isFraming e.id then none
            else (scanLoop cfg f rest tail).map (e :: ·)

/-- the fields of the block as the entry parser sees them (`none`: the block is rejected for its syntax) -/
def rawEntries (cfg : Cfg) (block : Bytes) : Option (List Entry) :=
  if block.contains 0 then none
  else
    let sl := splitLines block
    scanLoop cfg (sl.1.length + 1) sl.1 sl.2

/-- what the loop does with the scanned entries: Content-Length entries go through `checkField` -/
def clFold (relaxed : Bool) : List Entry → ClState → List Entry → Option (List Entry × ClState)
  | es, cl, [] => some (es, cl)
  | es, cl, e :: raw =>
    if e.id == idContentLength then
      let r := checkField relaxed cl e.value
      if r.2 then clFold relaxed (es ++ [e]) r.1 raw
      else if relaxed then clFold relaxed es r.1 raw
      else none
    else clFold relaxed (es ++ [e]) cl raw

/-- the Content-Length field values of a message, in order -/
def clValues (raw : List Entry) : List Bytes := (raw.filter (·.id == idContentLength)).map (·.value)

def hasTe (raw : List Entry) : Bool := raw.any (·.id == idTransferEncoding)

end SquidModel.Header
