/-
One row of `Http::HeaderLookupTable` (src/http/RegisteredHeaders.h `HeaderTableRecord`).
The rows themselves are regenerated into `SquidModel.Gen.HeaderRegistry` by translate/header_registry.py.
-/
import SquidModel.Base.Bytes
namespace SquidModel.Header

structure Record where
  /-- `Http::HdrType` enumerator value -/
  id : Nat
  /-- canonical field name, as bytes -/
  name : Bytes
  /-- `HdrKind::ListHeader` -/
  list : Bool
  /-- `HdrKind::RequestHeader` -/
  request : Bool
  /-- `HdrKind::ReplyHeader` -/
  reply : Bool
  /-- `HdrKind::HopByHopHeader` -/
  hopByHop : Bool
  /-- `HdrKind::Denied304Header` -/
  denied304 : Bool
  /-- `Http::HdrFieldType` enumerator value -/
  ftype : Nat
  deriving DecidableEq, Repr

end SquidModel.Header
