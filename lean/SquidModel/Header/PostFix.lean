/-
Consequences of the repaired `checkList` (95b4622) and `strListGetItem` (43aac5c): a list field that survives without
`sawBad` carries at least one value. Also the pre-fix definitions, kept only to state what the code did before.
-/
import SquidModel.Header.ScanLemmas

namespace SquidModel.Header
open SquidModel

theorem getItem_after (pos : Bytes) (it : ListItem) (rest : Bytes) (hgi : strListGetItem pos = (some it, rest)) :
    ∀ c, it.after.head? = some c → isDigit c = false := by
  unfold strListGetItem at hgi
  simp only [rtrimSplit] at hgi
  generalize hs1 : pos.dropWhile isListLead = s1 at hgi
  have hrest := scanItem_rest s1 false
  generalize hraw : (scanItem s1 false).1 = raw at hgi
  generalize hrst : (scanItem s1 false).2 = rst at hgi hrest
  by_cases hemp : (rtrim raw).isEmpty = true
  · simp [hemp] at hgi
  · simp only [hemp, Bool.false_eq_true, if_false, Prod.mk.injEq, Option.some.injEq] at hgi
    obtain ⟨t, hrawt, ht⟩ := rtrim_decomp raw
    have hdrop : raw.drop (rtrim raw).length = t := by
      have := congrArg (List.drop (rtrim raw).length) hrawt
      rw [List.drop_left] at this
      exact this
    have haf : it.after = t ++ rst := by rw [← hgi.1, hdrop]
    intro c hc
    rw [haf] at hc
    cases t with
    | nil =>
      rcases hrest with h0 | ⟨r, hr⟩
      · rw [h0] at hc; simp at hc
      · rw [hr] at hc
        have : c = 44 := by simpa using hc.symm
        subst this; decide
    | cons a b =>
      have : c = a := by simpa using hc.symm
      subst this
      simp only [List.all_cons, Bool.and_eq_true] at ht
      cases hd : isDigit c with
      | false => rfl
      | true => have := digit_not_space c hd; rw [ht.1] at this; exact absurd this (by simp)

/-- a field that leaves `sawBad` clear carries at least one value -/
theorem checkField_values_ne (relaxed : Bool) (st : ClState) (v : Bytes) (hst : st.sawBad = false)
    (h : (checkField relaxed st v).1.sawBad = false) : fieldValues relaxed v ≠ [] := by
  unfold fieldValues
  by_cases hc : (relaxed && v.contains 44) = true
  · simp only [hc, if_true]
    simp only [Bool.and_eq_true] at hc
    obtain ⟨hr, hcom⟩ := hc
    subst hr
    unfold checkField at h
    simp only [hst, Bool.false_eq_true, if_false, hcom, if_true] at h
    unfold checkList at h
    simp only [Bool.not_true, Bool.false_eq_true, if_false] at h
    split at h
    · simp at h
    · rename_i hcond
      have h1 : (checkListLoop true (v.length + 1) { st with needsSanitizing := true } v).sawBad = false := h
      cases hgi : strListGetItem v with
      | mk r rest =>
        cases r with
        | none =>
          exfalso; apply hcond
          simp [h1, hgi]
        | some it =>
          -- the first item must have been valid, otherwise the loop stops with sawBad
          have hloop := h
          rw [show v.length + 1 = v.length + 1 from rfl] at hloop
          unfold checkListLoop at hloop
          simp only [hgi] at hloop
          cases hv : valueOf true it.item it.after with
          | none =>
            exfalso
            have hcv : checkValue true { st with needsSanitizing := true } it.item it.after =
                ({ st with needsSanitizing := true, sawBad := true }, false) := by
              unfold checkValue; simp [hv]
            rw [hcv] at hloop
            simp at hloop
          | some n =>
            have hafter := getItem_after v it rest hgi
            have hq := valueOf_noquote true it.item it.after n hafter hv
            obtain ⟨hel, _⟩ := getItem_some v it rest hgi hq
            rw [hel]; simp
  · rw [if_neg hc]; simp

theorem runFields_values_ne (relaxed : Bool) : ∀ (vs : List Bytes) (st : ClState), st.sawBad = false →
    (runFields relaxed st vs).sawBad = false → ∀ v ∈ vs, fieldValues relaxed v ≠ [] := by
  intro vs
  induction vs with
  | nil => intro st _ _ v hv; simp at hv
  | cons w ws ih =>
    intro st hst h v hv
    rw [runFields_cons] at h
    have hmid : (checkField relaxed st w).1.sawBad = false := by
      cases hb : (checkField relaxed st w).1.sawBad with
      | false => rfl
      | true => rw [runFields_sawBad_mono relaxed ws _ hb] at h; exact absurd h (by simp)
    rcases List.mem_cons.mp hv with rfl | hv'
    · exact checkField_values_ne relaxed st v hst hmid
    · exact ih _ hmid h v hv'

/-! ### the code before 43aac5c / 95b4622 (for the record only) -/

/-- `delim[2]` before 43aac5c: VT and FF were not skipped between items -/
def isListLeadPreFix (b : UInt8) : Bool := b == 32 || b == 44 || b == 9 || b == 13 || b == 10

def strListGetItemPreFix (s : Bytes) : Option ListItem × Bytes :=
  let s1 := s.dropWhile isListLeadPreFix
  let (raw, rest) := scanItem s1 false
  let (item, trimmed) := rtrimSplit raw
  if item.isEmpty then (none, rest) else (some ⟨item, trimmed ++ rest, rest⟩, rest)

def checkListLoopPreFix (relaxed : Bool) : Nat → ClState → Bytes → ClState
  | 0, st, _ => st
  | fuel + 1, st, pos =>
    match strListGetItemPreFix pos with
    | (none, _) => st
    | (some it, rest) =>
      let (st', ok) := checkValue relaxed st it.item it.after
      if !ok && st'.sawBad then st'
      else checkListLoopPreFix relaxed fuel st' rest

/-- `checkList` of the relaxed parser before 95b4622 -/
def checkListPreFix (st : ClState) (list : Bytes) : ClState :=
  checkListLoopPreFix true (list.length + 1) { st with needsSanitizing := true } list

end SquidModel.Header

namespace SquidModel.Header
open SquidModel

theorem splitComma_mem_nocomma : ∀ (v : Bytes), ∀ e ∈ splitComma v, (44 : UInt8) ∉ e := by
  intro v
  induction v with
  | nil => intro e he; simp [splitComma] at he; subst he; simp
  | cons c r ih =>
    intro e he
    by_cases hc : c = 44
    · subst hc
      simp only [splitComma, beq_self_eq_true, if_true, List.mem_cons] at he
      rcases he with rfl | he
      · simp
      · exact ih e he
    · obtain ⟨x, t, hx, hcs⟩ := splitComma_cons_other c r hc
      rw [hcs] at he
      rcases List.mem_cons.mp he with rfl | he'
      · have := ih x (by rw [hx]; simp)
        simp only [List.mem_cons, not_or]
        exact ⟨fun h => hc h.symm, this⟩
      · exact ih e (by rw [hx]; simp [he'])

/-- the values of a list are its members that are not blank, trimmed — stated without reference to the code's separator set -/
theorem elements_spec (v : Bytes) : elements v = ((splitComma v).map strip).filter (fun x => !x.isEmpty) := by
  unfold elements
  have hmem := splitComma_mem_nocomma v
  generalize splitComma v = l at hmem
  induction l with
  | nil => rfl
  | cons m ms ih =>
    have ihm := ih (fun e he => hmem e (by simp [he]))
    have hnc := hmem m (by simp)
    have hiff : m.all isListLead = (strip m).isEmpty := by
      cases hs : (strip m).isEmpty with
      | true =>
        have h0 : strip m = [] := by simpa using hs
        rw [strip_eq_nil_iff] at h0
        simp only [List.all_eq_true] at h0 ⊢
        intro c hc; exact space_isListLead c (h0 c hc)
      | false =>
        cases hl : m.all isListLead with
        | false => rfl
        | true =>
          exfalso
          have hsp : m.all isSpace = true := by
            simp only [List.all_eq_true] at hl ⊢
            intro c hc
            rcases listLead_cases c (hl c hc) with h44 | h
            · exact absurd (h44 ▸ hc) hnc
            · exact h
          have := strip_spaces m hsp
          rw [this] at hs; simp at hs
    simp only [List.filter_cons, List.map_cons, hiff]
    cases hs : (strip m).isEmpty <;> simp [ihm]

end SquidModel.Header
