/-
C03, completeness on the head side: what the request parser makes of a request line it accepts, followed by a header block
of well-formed field lines and the empty line: it is done, with exactly that block as `mimeHeaderBlock_` and exactly the
bytes after the empty line as `remaining()`.
-/
import SquidModel.Smuggle.HeadShape
import SquidModel.Header.WireSpec
import SquidModel.Http1.LineLemmas
import SquidModel.Http1.SegLemmas

namespace SquidModel.Smuggle
open SquidModel SquidModel.Http1

/-- the scanner in the middle of a line, with the obs-fold flag: it runs to the LF and is at a line start afterwards -/
theorem headersEndFrom_s0_line (l tail : Bytes) (hl : ∀ c ∈ l, c ≠ 10) :
    headersEndFrom .s0 (l ++ 10 :: tail) = (headersEndFrom .s1 tail).map fun p => (p.1 + (l.length + 1), p.2) := by
  induction l with
  | nil =>
    simp only [List.nil_append, headersEndFrom, hsStep, if_true, List.length_nil, Nat.zero_add]
    cases headersEndFrom .s1 tail with
    | none => rfl
    | some p => simp
  | cons c r ih =>
    have hc : c ≠ 10 := hl c (by simp)
    have ih' := ih (fun x hx => hl x (by simp [hx]))
    simp only [List.cons_append, headersEndFrom, hsStep, hc, if_false, ih', List.length_cons]
    cases headersEndFrom .s1 tail with
    | none => rfl
    | some p => simp; omega

/-- a line that starts with an ordinary byte (not LF, CR, SP, HT), seen from a line start -/
theorem headersEndFrom_s1_line (c : UInt8) (l tail : Bytes) (h10 : c ≠ 10) (h13 : c ≠ 13) (h32 : c ≠ 32) (h9 : c ≠ 9)
    (hl : ∀ x ∈ l, x ≠ 10) :
    headersEndFrom .s1 (c :: l ++ 10 :: tail) = (headersEndFrom .s1 tail).map fun p => (p.1 + (l.length + 2), p.2) := by
  have hw : ¬ (c = 32 ∨ c = 9) := by intro h; rcases h with h | h; exact h32 h; exact h9 h
  simp only [List.cons_append, headersEndFrom, hsStep, h13, h10, hw, if_false, headersEndFrom_s0_line l tail hl]
  cases headersEndFrom .s1 tail with
  | none => rfl
  | some p => simp; omega

/-- a block of lines each starting with an ordinary byte, then the empty line: the scanner stops right after it, no obs-fold -/
theorem headersEnd_lines (ls : List Bytes) (rest : Bytes)
    (hls : ∀ l ∈ ls, ∃ c r, l = c :: r ∧ c ≠ 10 ∧ c ≠ 13 ∧ c ≠ 32 ∧ c ≠ 9 ∧ ∀ x ∈ r, x ≠ 10) :
    headersEndFrom .s1 (ls.flatMap (fun l => l ++ [10]) ++ ([13, 10] ++ rest)) =
      some ((ls.flatMap (fun l => l ++ [10])).length + 2, false) := by
  induction ls with
  | nil => simp [headersEndFrom, hsStep]
  | cons l ls ih =>
    obtain ⟨c, r, rfl, h10, h13, h32, h9, hr⟩ := hls l (by simp)
    have ih' := ih (fun x hx => hls x (by simp [hx]))
    have : (c :: r ++ [10]) ++ (ls.flatMap (fun l => l ++ [10]) ++ ([13, 10] ++ rest)) =
        c :: r ++ 10 :: (ls.flatMap (fun l => l ++ [10]) ++ ([13, 10] ++ rest)) := by simp
    simp only [List.flatMap_cons, List.append_assoc] at ih' ⊢
    rw [show (c :: r ++ ([10] ++ (List.flatMap (fun l => l ++ [10]) ls ++ ([13, 10] ++ rest)))) =
          c :: r ++ 10 :: (List.flatMap (fun l => l ++ [10]) ls ++ ([13, 10] ++ rest)) by simp]
    rw [headersEndFrom_s1_line c r _ h10 h13 h32 h9 hr, ih']
    simp only [Option.map_some, List.length_append, List.length_cons, List.length_nil, Option.some.injEq, Prod.mk.injEq, and_true]
    omega

/-- the request parser on: an accepted request line, its LF, a header block that `headersEnd` ends exactly, more bytes -/
theorem parse_strict_head (cfg : Http1.Cfg) (hrel : cfg.relaxed = false) (line block rest : Bytes) (f : ReqLine)
    (hne : line ≠ []) (hnolf : ∀ c ∈ line, c ≠ 10) (hlim : line.length < cfg.limit)
    (hpl : parseLine cfg line = .ok f) (hv : f.vmaj = 1)
    (hend : headersEnd (block ++ rest) = some (block.length, false))
    (hclean : cleanMimePrefix block = block)
    (hsize : f.method.length + f.uri.length + 12 + block.length < cfg.limit) :
    (Http1.parse cfg {} (line ++ 10 :: (block ++ rest))).stage = .done ∧
    (Http1.parse cfg {} (line ++ 10 :: (block ++ rest))).status = 200 ∧
    (Http1.parse cfg {} (line ++ 10 :: (block ++ rest))).buf = rest ∧
    (Http1.parse cfg {} (line ++ 10 :: (block ++ rest))).mime = block ∧
    (Http1.parse cfg {} (line ++ 10 :: (block ++ rest))).method = f.method ∧
    (Http1.parse cfg {} (line ++ 10 :: (block ++ rest))).uri = f.uri ∧
    (Http1.parse cfg {} (line ++ 10 :: (block ++ rest))).vmaj = 1 ∧
    (Http1.parse cfg {} (line ++ 10 :: (block ++ rest))).vmin = f.vmin := by
  have hbuf : line ++ 10 :: (block ++ rest) ≠ [] := by
    cases line with
    | nil => exact absurd rfl hne
    | cons _ _ => simp
  have hp : ∀ c ∈ line, notLF c = true := fun c hc => (notLF_iff c).2 (hnolf c hc)
  obtain ⟨t1, t2⟩ := takeWhile_stop (p := notLF) (m := line) (x := 10 :: (block ++ rest)) hp
    (by intro c hc; simp at hc; subst hc; exact notLF_ten)
  have hfirst : parseFirstLine cfg (line ++ 10 :: (block ++ rest)) = .ok f (block ++ rest) := by
    rw [parseFirstLine_complete cfg (by rw [t1]; exact hne) t2, t1, if_neg (by omega), hpl]
  have hgrab : grabMime cfg (f.method.length + f.uri.length + 12) (block ++ rest) = .block block rest := by
    unfold grabMime
    rw [hend]
    simp only []
    rw [if_neg (by omega)]
    simp [hclean]
  unfold Http1.parse
  have h0 : stageNone cfg { ({} : PState) with buf := line ++ 10 :: (block ++ rest) } =
      { ({} : PState) with buf := line ++ 10 :: (block ++ rest), stage := .first } := by
    unfold stageNone strip
    simp [hrel, hbuf]
  rw [h0]
  have h1 : stageFirst cfg { ({} : PState) with buf := line ++ 10 :: (block ++ rest), stage := .first } =
      { ({} : PState) with method := f.method, isGet := f.isGet, uri := f.uri, vmaj := f.vmaj, vmin := f.vmin, status := 200,
                           buf := block ++ rest, stage := .mime } := by
    unfold stageFirst
    simp [hfirst]
  rw [h1]
  unfold stageMime
  simp [hv, PState.firstLineSize, hgrab]

end SquidModel.Smuggle
