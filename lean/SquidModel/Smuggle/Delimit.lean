/-
C03, connection level: how the HTTP/1 client side cuts a client byte stream into requests.

  src/client_side.cc          ConnStateData::parseRequests (the loop: `while (!inBuf.isEmpty() && !bodyPipe && flags.readMore)`),
                              parseHttpRequest (`hp->parse(inBuf); inBuf = hp->remaining()`, needsMoreData, parse error,
                              PRI / METHOD_NONE), clientProcessRequest, quitAfterError (`flags.readMore = false`),
                              handleRequestBodyData (identity: `putMoreData` up to the declared size + `consumeInput`;
                              chunked: handleChunkedRequestBody = `bodyParser->parse(inBuf); inBuf = remaining()`),
                              abortChunkedRequestBody (reset-close, `readMore = false`)
  src/servers/Http1Server.cc  parseOneRequest (a fresh RequestParser per message), buildHttpRequest, processParsedRequest

composed from the existing function-level models: `Http1.parse` (C21/C22: request line, headersEnd/grabMimeBlock,
cleanMimePrefix, unfoldMime), `Header.parseHeader` (C25/C26: HttpHeader::parse + ContentLengthInterpreter),
`Chunked.parse` (C24: TeChunkedParser) and the decision level of `Smuggle/Framing.lean`.

`pipeline_prefetch` is 0 (the default): a request is parsed only when the previous one has been answered, so a request
that is not persistent (`clientSetKeepaliveFlag`) is the last one of its connection.
All bytes of the connection are in `inBuf` (what a client that pipelines everything in one write produces); the body pipe
is never full (the consumer keeps up). What the real loop additionally does when the bytes arrive in pieces is
covered by the segmentation theorems of C21 and C24 and by the end-to-end scenarios.
Core-only.
-/
import SquidModel.Smuggle.Framing
import SquidModel.Header.ClSpec
import SquidModel.Http1.Request
import SquidModel.Chunked.Feed

namespace SquidModel.Smuggle
open SquidModel SquidModel.Header

structure Cfg where
  /-- `Config.onoff.relaxed_header_parser`, `Config.maxRequestHeaderSize` and the repair switches of the request parser -/
  h1 : Http1.Cfg
  /-- source variants (candidate repairs of notes/fixes/, probed in the staged code by translate/smuggle_cfg.py) -/
  closeAfterTeCl : Bool := false
  rejectNonGet09 : Bool := false
  deriving DecidableEq, Repr

def Cfg.relaxed (c : Cfg) : Bool := c.h1.relaxed

/-- potential space of the body pipe buffer offered to the chunked decoder (the harness offers 2^30) -/
def pipeSpace : Nat := 1073741824

/-- where the client side gave up on the message (one tag per `quitAfterError` / `abortRequestParsing` site) -/
inductive Site where
  | parse      -- parseHttpRequest: the request parser failed
  | method     -- parseHttpRequest: PRI below HTTP/2, METHOD_NONE
  | url        -- buildHttpRequest: HttpRequest::FromUrlXXX returned nil
  | version    -- buildHttpRequest: HTTP/0.x (x ≠ 9) or major > 1
  | header     -- buildHttpRequest: HttpRequest::parseHeader failed
  | expect     -- processParsedRequest: unsupported Expect
  | unsup      -- clientProcessRequest: urlCheckRequest / OPTIONS with Max-Forwards: 0
  | framing    -- clientProcessRequest: checkEntityFraming
  | chunk      -- handleChunkedRequestBody threw / trailers too large: abortChunkedRequestBody
  deriving DecidableEq, Repr

inductive Kind where
  | none
  | cl
  | ch
  deriving DecidableEq, Repr

/-- what the harness prints about an accepted head -/
structure Desc where
  kind : Kind
  /-- `content_length` when the header has a Content-Length entry -/
  cl : Option Int
  /-- number of Content-Length entries in `request->header` -/
  ncl : Nat
  /-- `header.has(TRANSFER_ENCODING)` -/
  te : Bool
  vmaj : Nat
  vmin : Nat
  method : Bytes
  /-- the request target as the request parser extracted it -/
  uri : Bytes
  /-- `request->flags.proxyKeepalive` after `clientSetKeepaliveFlag` -/
  persistent : Bool
  /-- the body octets put into the body pipe (all of them for a complete message) -/
  body : Bytes
  deriving DecidableEq, Repr

/-- the verdict on the head of one message; `rest` is `inBuf` after the request parser -/
inductive Head where
  | more                                   -- needsMoreData()
  | rej (status : Nat) (site : Site)
  | throws                                 -- a Must() inside HttpHeader::parse (String capacity)
  | connect (rest : Bytes)
  | ok (rest : Bytes) (es : List Entry) (contentLength : Int) (vmaj vmin : Nat) (method uri : Bytes) (keepalive : Bool)
  deriving DecidableEq, Repr

/-- a Content-Length field was among the field lines `HttpHeader::parse` went through (`clen.sawGood || clen.sawBad`) -/
def clSeen (cfg : Cfg) (st : Http1.PState) : Bool :=
  if st.vmaj ≥ 1 ∧ !st.mime.isEmpty then
    match rawEntries ⟨cfg.relaxed, .request, false⟩ st.mime with
    | some raw => !(clValues raw).isEmpty
    | none => false
  else false

/-- `Http::Message::parseHeader`: `hp.headerBlockSize() && !header.parse(...)`; for HTTP/0.9 nothing is parsed -/
def headerOf (cfg : Cfg) (st : Http1.PState) : Header.Outcome :=
  if st.vmaj ≥ 1 ∧ !st.mime.isEmpty then parseHeader ⟨cfg.relaxed, .request, false⟩ st.mime
  else .ok ⟨[], false, false⟩

/-- parseOneRequest .. clientProcessRequest up to the body decision, on the buffer `buf` -/
def head (cfg : Cfg) (url : Bytes → Bytes → Option UrlView) (buf : Bytes) : Head :=
  let st := Http1.parse cfg.h1 {} buf
  if st.stage ≠ .done then .more
  else if st.status ≠ 200 then .rej st.status .parse
  else if st.method == mPRI ∧ st.vmaj < 2 then .rej 405 .method
  else if st.method.isEmpty then .rej 405 .method
  else
    match url st.method st.uri with
    | none => .rej 400 .url
    | some u =>
      if (st.vmaj = 0 ∧ st.vmin ≠ 9) ∨ st.vmaj > 1 then .rej 505 .version
      else
        match headerOf cfg st with
        | .reject => .rej 400 .header
        | .throws => .throws
        | .ok h =>
          -- hdrCacheInit() runs only inside parseHeader(); the member starts as 0
          let contentLength : Int := if st.vmaj ≥ 1 then getInt64 h.entries idContentLength else 0
          match (if hasId h.entries idExpect then expectSupported h.entries else some true) with
          | none => .throws
          | some false => .rej 417 .expect
          | some true =>
            let mf := getInt64 h.entries idMaxForwards
            if !urlCheckRequest st.method u mf || (st.method == mOPTIONS && mf == 0) then .rej 501 .unsup
            else
              let fs := checkEntityFraming cfg.rejectNonGet09 h st.vmaj st.vmin st.method contentLength
              if fs ≠ 0 then .rej fs .framing
              else if st.method == mCONNECT then .connect st.buf
              else .ok st.buf h.entries contentLength st.vmaj st.vmin st.method st.uri
                     (proxyKeepalive cfg.closeAfterTeCl h.entries st.vmaj st.vmin (clSeen cfg st))

/-- one message: head and body -/
inductive Step where
  | more
  | rej (status : Nat) (site : Site)
  | throws
  | connect (afterHead : Bytes)
  | body (afterHead : Bytes) (d : Desc)                 -- head accepted, body incomplete
  | msg (afterHead rest : Bytes) (d : Desc)             -- complete: `rest` is `inBuf` after the body
  deriving DecidableEq, Repr

def descOf (k : Kind) (es : List Entry) (contentLength : Int) (vmaj vmin : Nat) (m u : Bytes) (keep : Bool) (body : Bytes) : Desc :=
  { kind := k, cl := if hasId es idContentLength then some contentLength else none,
    ncl := (es.filter (·.id == idContentLength)).length, te := chunked es, vmaj := vmaj, vmin := vmin, method := m,
    uri := u, persistent := keep, body := body }

def step (cfg : Cfg) (url : Bytes → Bytes → Option UrlView) (buf : Bytes) : Step :=
  match head cfg url buf with
  | .more => .more
  | .rej s w => .rej s w
  | .throws => .throws
  | .connect r => .connect r
  | .ok rest es contentLength vmaj vmin m u keep =>
    match bodyKind es contentLength with
    | .none => .msg rest rest (descOf .none es contentLength vmaj vmin m u keep [])
    | .length n =>
      if rest.length < n then .body rest (descOf .cl es contentLength vmaj vmin m u keep rest)
      else .msg rest (rest.drop n) (descOf .cl es contentLength vmaj vmin m u keep (rest.take n))
    | .chunkedBody =>
      if rest.isEmpty then .body rest (descOf .ch es contentLength vmaj vmin m u keep [])
      else
        -- handleChunkedRequestBody: `bodyParser->parse(inBuf); inBuf = bodyParser->remaining()` (repeated while the parser
        -- asks for pipe space, which `pipeSpace` octets of space make unnecessary below 1 GB)
        let run := Chunked.feed cfg.relaxed (fun _ => pipeSpace) Chunked.Run.init rest
        match run.verdict with
        | .done => .msg rest run.inBuf (descOf .ch es contentLength vmaj vmin m u keep run.out)
        | .more => .body rest (descOf .ch es contentLength vmaj vmin m u keep run.out)
        | .tooLarge => .rej 0 .chunk
        | .reject _ => .rej 0 .chunk

/-- a request handed to `doCallouts()`: offsets into the client stream -/
structure Msg where
  start : Nat
  headEnd : Nat
  stop : Nat
  d : Desc
  deriving DecidableEq, Repr

/-- how the loop ended -/
inductive Fin where
  | done                                               -- `inBuf.isEmpty()`
  | more (start : Nat)
  | body (start headEnd : Nat) (d : Desc)
  | rej (start status : Nat) (site : Site)
  | connect (start headEnd : Nat)
  | throws (start : Nat)
  | closing (stop : Nat)                               -- the last message was not persistent: the connection closes after its response
  | fuel                                               -- model artefact (proved unreachable in `DelimitLemmas`)
  deriving DecidableEq, Repr

/-- `ConnStateData::parseRequests` over a buffer that holds the rest of the connection's bytes; `total` is the length of
the whole stream, offsets are `total - inBuf.length()` -/
def loop (cfg : Cfg) (url : Bytes → Bytes → Option UrlView) (total : Nat) : Nat → Bytes → List Msg × Fin
  | 0, _ => ([], .fuel)
  | f + 1, inBuf =>
    if inBuf.isEmpty then ([], .done)
    else
      let start := total - inBuf.length
      match step cfg url inBuf with
      | .more => ([], .more start)
      | .rej s w => ([], .rej start s w)
      | .throws => ([], .throws start)
      | .connect r => ([], .connect start (total - r.length))
      | .body r d => ([], .body start (total - r.length) d)
      | .msg r rest d =>
        -- pipeline_prefetch 0: the next request is parsed only after this one's response was written, and
        -- a request that is not persistent has the connection closed at that point
        if d.persistent then
          let p := loop cfg url total f rest
          (⟨start, total - r.length, total - rest.length, d⟩ :: p.1, p.2)
        else ([⟨start, total - r.length, total - rest.length, d⟩], .closing (total - rest.length))

def delimit (cfg : Cfg) (url : Bytes → Bytes → Option UrlView) (stream : Bytes) : List Msg × Fin :=
  loop cfg url stream.length (stream.length + 1) stream

end SquidModel.Smuggle
