/-
C03: what a parser hands back (`remaining()`) is a suffix of what it was given — the request parser (here) and the
chunked decoder (`ChunkSuffix.lean`). This is what makes `total - inBuf.length()` an offset into the client stream.
-/
import SquidModel.Smuggle.Delimit
import SquidModel.Http1.SegLemmas

namespace SquidModel.Smuggle
open SquidModel SquidModel.Http1

theorem skipGarbage_suffix (s : Bytes) : skipGarbage s <:+ s := by
  fun_induction skipGarbage s with
  | case1 r ih => exact ih.trans (List.suffix_cons _ _)
  | case2 r ih => exact ih.trans ((List.suffix_cons _ _).trans (List.suffix_cons _ _))
  | case3 s _ _ => exact List.suffix_refl _

theorem strip_suffix (cfg : Http1.Cfg) (s : Bytes) : strip cfg s <:+ s := by
  unfold strip
  split
  · exact skipGarbage_suffix s
  · exact List.suffix_refl _

theorem parseFirstLine_ok_suffix {cfg : Http1.Cfg} {buf rest : Bytes} {f : ReqLine}
    (h : parseFirstLine cfg buf = .ok f rest) : rest <:+ buf := by
  unfold parseFirstLine at h
  dsimp only at h
  split at h
  · rename_i r _ hd
    have hs : (10 :: r) <:+ buf := by rw [← hd]; exact List.dropWhile_suffix _
    split at h
    · unfold blame at h; split at h <;> simp at h
    · split at h
      · simp at h
      · simp only [LineRes.ok.injEq] at h
        obtain ⟨_, rfl⟩ := h
        exact (List.suffix_cons _ _).trans hs
  · split at h
    · unfold blame at h; split at h <;> simp at h
    · simp at h

theorem grabMime_suffix {cfg : Http1.Cfg} {fls : Nat} {buf : Bytes} :
    (∀ rest, grabMime cfg fls buf = .tooLarge rest → rest <:+ buf) ∧
    (∀ m rest, grabMime cfg fls buf = .block m rest → rest <:+ buf) := by
  unfold grabMime
  constructor
  · intro rest h
    split at h
    · split at h
      · simp only [MimeRes.tooLarge.injEq] at h; subst h; exact List.drop_suffix _ _
      · simp at h
    · split at h
      · simp only [MimeRes.tooLarge.injEq] at h; subst h; exact List.suffix_refl _
      · simp at h
  · intro m rest h
    split at h
    · split at h
      · simp at h
      · simp only [MimeRes.block.injEq] at h; obtain ⟨_, rfl⟩ := h; exact List.drop_suffix _ _
    · split at h <;> simp at h

/-- `hp->remaining()` after `hp->parse(inBuf)` on a fresh parser is a suffix of `inBuf` -/
theorem parse_buf_suffix (cfg : Http1.Cfg) (buf : Bytes) : (Http1.parse cfg {} buf).buf <:+ buf := by
  unfold Http1.parse
  have h0 : (stageNone cfg { ({} : PState) with buf := buf }).buf <:+ buf := by
    unfold stageNone
    simp only []
    split
    · split
      · exact strip_suffix cfg buf
      · split <;> exact strip_suffix cfg buf
    · exact List.suffix_refl _
  generalize stageNone cfg { ({} : PState) with buf := buf } = s0 at h0
  have h1 : (stageFirst cfg s0).buf <:+ buf := by
    unfold stageFirst
    split
    · split
      · exact h0
      · exact h0
      · rename_i f rest hf
        exact (parseFirstLine_ok_suffix hf).trans h0
    · exact h0
  generalize stageFirst cfg s0 = s1 at h1
  unfold stageMime
  split
  · split
    · split
      · exact h1
      · rename_i rest hg
        exact (grabMime_suffix.1 rest hg).trans h1
      · rename_i m rest hg
        exact (grabMime_suffix.2 m rest hg).trans h1
    · exact h1
  · exact h1

end SquidModel.Smuggle

namespace SquidModel.Smuggle
open SquidModel SquidModel.Http1

theorem parseFirstLine_ok_shorter {cfg : Http1.Cfg} {buf rest : Bytes} {f : ReqLine}
    (h : parseFirstLine cfg buf = .ok f rest) : rest.length < buf.length := by
  unfold parseFirstLine at h
  dsimp only at h
  split at h
  · rename_i r _ hd
    have hs : (10 :: r) <:+ buf := by rw [← hd]; exact List.dropWhile_suffix _
    have hl := hs.length_le
    split at h
    · unfold blame at h; split at h <;> simp at h
    · split at h
      · simp at h
      · simp only [LineRes.ok.injEq] at h
        obtain ⟨_, rfl⟩ := h
        simp only [List.length_cons] at hl
        omega
  · split at h
    · unfold blame at h; split at h <;> simp at h
    · simp at h

theorem parseMethodField_err {cfg : Http1.Cfg} {t : Bytes} {s : Nat} (h : parseMethodField cfg t = .error s) : s = 400 := by
  unfold parseMethodField at h
  split at h
  · simp at h; omega
  · dsimp only at h
    split at h
    · simp at h; omega
    · split at h
      · simp at h; omega
      · simp at h

theorem skipTrailingCrs_err {cfg : Http1.Cfg} {t : Bytes} {s : Nat} (h : skipTrailingCrs cfg t = .error s) : s = 400 := by
  unfold skipTrailingCrs at h
  split at h
  · simp at h
  · split at h
    · split at h
      · simp at h
      · simp at h; omega
    · simp at h; omega

theorem parseVersion_err {g : Bool} {t : Bytes} {s : Nat} (h : parseVersion g t = .error s) : s = 400 := by
  unfold parseVersion at h
  split at h
  · simp at h
  · split at h
    · simp at h
    · split at h
      · simp at h
      · split at h
        · simp at h
        · simp at h; omega

theorem parseUri_err {cfg : Http1.Cfg} {t : Bytes} {s : Nat} (h : parseUri cfg t = .error s) : s = 400 ∨ s = 414 := by
  unfold parseUri at h
  split at h
  · simp at h; omega
  · split at h
    · simp at h; omega
    · split at h
      · simp at h; omega
      · simp at h

theorem parseLine_err {cfg : Http1.Cfg} {line : Bytes} {s : Nat} (h : parseLine cfg line = .error s) : s = 400 ∨ s = 414 := by
  unfold parseLine at h
  split at h
  · rename_i s1 h1
    simp only [Except.error.injEq] at h; subst h
    exact Or.inl (parseMethodField_err h1)
  · dsimp only at h
    split at h
    · rename_i s2 h2
      simp only [Except.error.injEq] at h; subst h
      exact Or.inl (skipTrailingCrs_err h2)
    · split at h
      · rename_i s3 h3
        simp only [Except.error.injEq] at h; subst h
        exact Or.inl (parseVersion_err h3)
      · split at h
        · simp at h; omega
        · split at h
          · simp at h; omega
          · split at h
            · rename_i s4 h4
              simp only [Except.error.injEq] at h; subst h
              exact parseUri_err h4
            · simp at h

theorem blame_status {cfg : Http1.Cfg} {buf : Bytes} {x : Nat} (h : blame cfg buf = .bad x) : x = 400 ∨ x = 414 := by
  unfold blame at h
  split at h
  · rename_i sx hpm
    simp only [LineRes.bad.injEq] at h; subst h
    exact Or.inl (parseMethodField_err hpm)
  · simp only [LineRes.bad.injEq] at h; omega

theorem parseFirstLine_bad_status {cfg : Http1.Cfg} {buf : Bytes} {x : Nat} (h : parseFirstLine cfg buf = .bad x) :
    x = 400 ∨ x = 414 := by
  unfold parseFirstLine at h
  dsimp only at h
  split at h
  · split at h
    · exact blame_status h
    · split at h
      · rename_i s hs
        simp only [LineRes.bad.injEq] at h; subst h
        exact parseLine_err hs
      · simp at h
  · split at h
    · exact blame_status h
    · simp at h

/-- an accepted head consumed at least one byte -/
theorem parse_accepted_shorter (cfg : Http1.Cfg) (buf : Bytes) (h : (Http1.parse cfg {} buf).status = 200) :
    (Http1.parse cfg {} buf).buf.length < buf.length := by
  unfold Http1.parse at h ⊢
  have h0 : (stageNone cfg { ({} : PState) with buf := buf }).buf <:+ buf ∧
      (stageNone cfg { ({} : PState) with buf := buf }).status = 0 := by
    unfold stageNone
    simp only []
    split
    · split
      · exact ⟨strip_suffix cfg buf, rfl⟩
      · split <;> exact ⟨strip_suffix cfg buf, rfl⟩
    · exact ⟨List.suffix_refl _, rfl⟩
  generalize stageNone cfg { ({} : PState) with buf := buf } = s0 at h0 h ⊢
  have h1 : (stageFirst cfg s0).buf <:+ buf ∧
      ((stageFirst cfg s0).status = 200 → (stageFirst cfg s0).buf.length < buf.length) := by
    unfold stageFirst
    split
    · split
      · exact ⟨h0.1, fun hh => by rw [h0.2] at hh; simp at hh⟩
      · rename_i s hb
        refine ⟨h0.1, fun hh => ?_⟩
        dsimp only at hh
        subst hh
        have := parseFirstLine_bad_status hb
        omega
      · rename_i f rest hf
        have := parseFirstLine_ok_shorter hf
        have hl := h0.1.length_le
        exact ⟨(parseFirstLine_ok_suffix hf).trans h0.1, fun _ => by dsimp only; omega⟩
    · exact ⟨h0.1, fun hh => by rw [h0.2] at hh; simp at hh⟩
  generalize stageFirst cfg s0 = s1 at h1 h ⊢
  have hm : (stageMime cfg s1).buf.length ≤ s1.buf.length ∧ ((stageMime cfg s1).status = 200 → s1.status = 200) := by
    unfold stageMime
    split
    · split
      · split
        · exact ⟨Nat.le_refl _, id⟩
        · rename_i rest hg
          exact ⟨(grabMime_suffix.1 rest hg).length_le, fun hh => by simp at hh⟩
        · rename_i m rest hg
          exact ⟨(grabMime_suffix.2 m rest hg).length_le, id⟩
      · exact ⟨Nat.le_refl _, id⟩
    · exact ⟨Nat.le_refl _, id⟩
  have := h1.2 (hm.2 h)
  omega

end SquidModel.Smuggle
