/-
C03: a request body in the chunked grammar (C24, `Chunked/Grammar.lean`) is decoded exactly by the client side and the
next message starts right after it.
-/
import SquidModel.Chunked.Valid
import SquidModel.Smuggle.Delimit

namespace SquidModel.Smuggle
open SquidModel SquidModel.Chunked SquidModel.Chunked.Grammar

theorem feed_valid (relaxed : Bool) (capOf : Nat → Nat) (hpos : ∀ i, 0 < capOf i) {body enc : Bytes}
    (henc : Encodes relaxed body enc) (extra : Bytes) :
    (feed relaxed capOf Run.init (enc ++ extra)).verdict = .done ∧
    (feed relaxed capOf Run.init (enc ++ extra)).out = body ∧
    (feed relaxed capOf Run.init (enc ++ extra)).inBuf = extra := by
  have hO := feed_obs relaxed capOf hpos Run.init rfl (enc ++ extra)
  have e1 : Run.init.inBuf ++ (enc ++ extra) = enc ++ extra := rfl
  have e2 : Run.init.st = St.init := rfl
  have e3 : Run.init.out = [] := rfl
  rw [e1, e2, e3, parseU_valid relaxed henc extra] at hO
  obtain ⟨_, h2, h3, h4⟩ := obs_ret hO
  exact ⟨by simpa using h4, by simpa using h3, h2⟩

theorem encodes_ne_nil {relaxed : Bool} {body enc : Bytes} (h : Encodes relaxed body enc) : enc ≠ [] := by
  obtain ⟨ds, size, tail, hs, _, _, rfl⟩ := h
  obtain ⟨hne, _⟩ := hs
  cases ds with
  | nil => exact absurd rfl hne
  | cons a r => simp

end SquidModel.Smuggle
