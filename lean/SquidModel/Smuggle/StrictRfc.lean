/-
C03, completeness, last step: the request line of `strict_content_length_message` taken from the RFC 9112 grammar through
C22 `strict_rfc9112_accepted`.
-/
import SquidModel.Smuggle.StrictMessage
import SquidModel.Properties.C22

namespace SquidModel.Smuggle
open SquidModel SquidModel.Header SquidModel.Http1 SquidModel.Http1.Grammar

/-- the request-line parser looks at `relaxed` only -/
theorem parseLine_relaxed_only (cfg cfg' : Http1.Cfg) (h : cfg.relaxed = cfg'.relaxed) (line : Bytes) :
    parseLine cfg line = parseLine cfg' line := by
  obtain ⟨r, l, a, b⟩ := cfg
  obtain ⟨r', l', a', b'⟩ := cfg'
  simp only at h
  subst h
  rfl

theorem tchar_not_lf' : ∀ c : UInt8, (!(isTchar c) || c != 10) = true := forall_octet _ (by decide +kernel)
theorem urichar_not_lf : ∀ c : UInt8, (!(isUriChar c) || c != 10) = true := forall_octet _ (by decide +kernel)
theorem digit_not_lf : ∀ c : UInt8, (!(Grammar.isDigit c) || c != 10) = true := forall_octet _ (by decide +kernel)

/-- an RFC 9112 request-line has no LF before its final one, and is not empty -/
theorem rfc9112Line_shape (line : Bytes) (F : Fields) (h : C22.Rfc9112Line (line ++ [10]) F) :
    line ≠ [] ∧ ∀ c ∈ line, c ≠ 10 := by
  obtain ⟨m, t, a, b, hl, hm, ht, ha, hb, _⟩ := h
  have hline : line = m ++ [32] ++ t ++ [32] ++ httpSlash ++ [a, 46, b] ++ [13] := by
    have : line ++ [10] = (m ++ [32] ++ t ++ [32] ++ httpSlash ++ [a, 46, b] ++ [13]) ++ [10] := by rw [hl]; simp
    exact List.append_cancel_right this
  have f1 : ∀ x, isTchar x = true → x ≠ 10 := fun x hx => by have := tchar_not_lf' x; simpa [hx] using this
  have f2 : ∀ x, isUriChar x = true → x ≠ 10 := fun x hx => by have := urichar_not_lf x; simpa [hx] using this
  have f3 : ∀ x, Grammar.isDigit x = true → x ≠ 10 := fun x hx => by have := digit_not_lf x; simpa [hx] using this
  have h10 : (10 : UInt8) ∉ line := by
    rw [hline]
    simp only [List.mem_append, not_or]
    refine ⟨⟨⟨⟨⟨⟨?_, by decide⟩, ?_⟩, by decide⟩, by decide⟩, ?_⟩, by decide⟩
    · intro h; exact f1 10 (hm.2.1 10 h) rfl
    · intro h; exact f2 10 (by simpa [isTarget] using ht.2.1 10 h) rfl
    · intro h
      simp only [List.mem_cons, List.not_mem_nil, or_false] at h
      rcases h with h | h | h
      · exact f3 a ha h.symm
      · exact absurd h (by decide)
      · exact f3 b hb h.symm
  constructor
  · rw [hline]; simp
  · intro c hc hceq
    subst hceq
    exact h10 hc

end SquidModel.Smuggle
