/-
C03, decision level: what the client side does with one parsed request head, branch by branch.

  src/servers/Http1Server.cc   Http::One::Server::buildHttpRequest (version check), processParsedRequest (Expect)
  src/client_side.cc           ConnStateData::parseHttpRequest (PRI / METHOD_NONE), clientProcessRequest
                               (mustReplyToOptions, urlCheckRequest, checkEntityFraming, CONNECT, expectBody)
  src/HttpRequest.cc           HttpRequest::checkEntityFraming
  src/anyp/Uri.cc              urlCheckRequest
  src/http/Message.cc          Http::Message::hdrCacheInit (content_length = getInt64(CONTENT_LENGTH); the member is
                               initialised to 0 and stays 0 when no header block is parsed, i.e. for HTTP/0.9)
  src/http.cc                  HttpStateData::sendRequest (flags.chunked_request), httpBuildRequestHeader and
                               copyOneHeaderFromClientsideRequestToUpstreamRequest (framing fields only)

`AnyP::Uri::parse` is not re-modelled here (property C30 owns it): the request target enters as an `UrlView`
computed by a function parameter of the model (the driver plugs in the C30 model).
Core-only.
-/
import SquidModel.Header.Parse
import SquidModel.Hop.StrList

namespace SquidModel.Smuggle
open SquidModel SquidModel.Header

/-! ### methods (`HttpRequestMethod::id()` of the image the request parser produced) -/

def mGET : Bytes := [71, 69, 84]
def mHEAD : Bytes := [72, 69, 65, 68]
def mPOST : Bytes := [80, 79, 83, 84]
def mPUT : Bytes := [80, 85, 84]
def mDELETE : Bytes := [68, 69, 76, 69, 84, 69]
def mLINK : Bytes := [76, 73, 78, 75]
def mUNLINK : Bytes := [85, 78, 76, 73, 78, 75]
def mCONNECT : Bytes := [67, 79, 78, 78, 69, 67, 84]
def mOPTIONS : Bytes := [79, 80, 84, 73, 79, 78, 83]
def mTRACE : Bytes := [84, 82, 65, 67, 69]
def mPURGE : Bytes := [80, 85, 82, 71, 69]
def mPRI : Bytes := [80, 82, 73]

/-! ### the request target as the client side sees it after `HttpRequest::FromUrlXXX` -/

/-- `AnyP::ProtocolType` values that `urlCheckRequest` distinguishes -/
def protoHTTP : Nat := 1
def protoFTP : Nat := 2
def protoHTTPS : Nat := 3
def protoWAIS : Nat := 6
def protoURN : Nat := 9
def protoWHOIS : Nat := 10

structure UrlView where
  /-- `url.getScheme()` as `AnyP::ProtocolType` -/
  proto : Nat
  /-- `url.path() == AnyP::Uri::Asterisk()` -/
  star : Bool
  deriving DecidableEq, Repr

/-! ### header observers -/

def idExpect : Nat := Gen.HeaderRegistry.Id.EXPECT
def idMaxForwards : Nat := Gen.HeaderRegistry.Id.MAX_FORWARDS

/-- `header.has(id)` -/
def hasId (es : List Entry) (id : Nat) : Bool := es.any (·.id == id)

/-- `header.getInt64(id)`: −1 when absent or unparsable -/
def getInt64 (es : List Entry) (id : Nat) : Int :=
  match es.find? (·.id == id) with
  | none => -1
  | some e =>
    match parseOffset e.value with
    | some (v, _) => v
    | none => -1

/-- `header.chunked()` = `has(TRANSFER_ENCODING)` -/
def chunked (es : List Entry) : Bool := hasId es idTransferEncoding

def hundredContinue : Bytes := [49, 48, 48, 45, 99, 111, 110, 116, 105, 110, 117, 101]

/-- `header.getList(EXPECT).caseCmp("100-continue") == 0`; `none` = the String capacity exception -/
def expectSupported (es : List Entry) : Option Bool :=
  match strListJoin [] ((es.filter (·.id == idExpect)).map (·.value)) with
  | none => none
  | some s => some (eqIgnoreCase s hundredContinue)

/-! ### persistence (`clientSetKeepaliveFlag` = `Http::Message::persistent()`) -/

def idConnection : Nat := Gen.HeaderRegistry.Id.CONNECTION
def idProxyConnection : Nat := Gen.HeaderRegistry.Id.PROXY_CONNECTION

def dirClose : Bytes := [99, 108, 111, 115, 101]
def dirKeepAlive : Bytes := [107, 101, 101, 112, 45, 97, 108, 105, 118, 101]

/-- `httpHeaderHasConnDir(&header, directive)`: the joined Connection values (else, with USE_HTTP_VIOLATIONS, the joined
Proxy-Connection values) have the member -/
def hasConnDir (es : List Entry) (dir : Bytes) : Bool :=
  if hasId es idConnection then
    Hop.isMember (Hop.joinValues ((es.filter (·.id == idConnection)).map (·.value))) dir
  else if hasId es idProxyConnection then
    Hop.isMember (Hop.joinValues ((es.filter (·.id == idProxyConnection)).map (·.value))) dir
  else false

/-- `http_ver <= Http::ProtocolVersion(1,0)` -/
def verLe10' (vmaj vmin : Nat) : Bool := vmaj < 1 || (vmaj == 1 && vmin == 0)

/-- `http_ver > Http::ProtocolVersion(1,0)` -/
def verGt10 (vmaj vmin : Nat) : Bool := vmaj > 1 || (vmaj == 1 && vmin > 0)

/-- `Http::Message::persistent()` -/
def persistent (es : List Entry) (vmaj vmin : Nat) : Bool :=
  if verGt10 vmaj vmin then !hasConnDir es dirClose else hasConnDir es dirKeepAlive

/-- `clientSetKeepaliveFlag`: `request->flags.proxyKeepalive`. `closeAfterTeCl` is the source variant of
notes/fixes/C03-te-cl-connection-kept.diff (a chunked request that also carried Content-Length, or is HTTP/1.0, is not
persistent); `clSeen` = a Content-Length field was among the parsed field lines. -/
def proxyKeepalive (closeAfterTeCl : Bool) (es : List Entry) (vmaj vmin : Nat) (clSeen : Bool) : Bool :=
  if closeAfterTeCl && chunked es && (clSeen || verLe10' vmaj vmin) then false
  else persistent es vmaj vmin

/-! ### urlCheckRequest -/

def urlCheckRequest (m : Bytes) (u : UrlView) (maxForwards : Int) : Bool :=
  if m == mCONNECT then true
  else if m == mOPTIONS || m == mTRACE then maxForwards == 0 || !u.star
  else if m == mPURGE then true
  else if u.proto == protoURN || u.proto == protoHTTP then true
  else if u.proto == protoFTP then m == mPUT || m == mGET || m == mHEAD
  else if u.proto == protoWAIS || u.proto == protoWHOIS then m == mGET || m == mHEAD
  else if u.proto == protoHTTPS then true      -- HAVE_LIBGNUTLS in this build
  else false

/-! ### HttpRequest::checkEntityFraming -/

/-- `http_ver <= Http::ProtocolVersion(1,0)` -/
def verLe10 (vmaj vmin : Nat) : Bool := vmaj < 1 || (vmaj == 1 && vmin == 0)

/-- `HttpRequest::checkEntityFraming()`: 0 = `Http::scNone`.
`rejectNonGet09` is the source variant of notes/fixes/C03-http09-non-get.diff (HTTP/0.x with a method other than GET
is a 400); the translator probes the staged code for it. -/
def checkEntityFraming (rejectNonGet09 : Bool) (h : HdrResult) (vmaj vmin : Nat) (m : Bytes) (contentLength : Int) : Nat :=
  if h.teUnsupported then 501
  else if chunked h.entries then 0
  else if h.conflictingContentLength then 400
  else if verLe10 vmaj vmin then
    if rejectNonGet09 && decide (vmaj < 1) && !(m == mGET) then 400
    else if m == mPOST || m == mPUT then (if contentLength ≥ 0 then 0 else 411)
    else if m == mGET || m == mHEAD then (if contentLength < 0 then 0 else 400)
    else if m == mDELETE || m == mLINK || m == mUNLINK then (if contentLength < 0 then 0 else 400)
    else 0
  else 0

/-! ### the body expectation of clientProcessRequest -/

inductive BodyKind where
  | none
  | length (n : Nat)     -- `expectRequestBody(content_length)`
  | chunkedBody          -- `expectRequestBody(-1)` + `startDechunkingRequest`
  deriving DecidableEq, Repr

/-- `expectBody = chunked || content_length > 0` -/
def bodyKind (es : List Entry) (contentLength : Int) : BodyKind :=
  if chunked es then .chunkedBody
  else if contentLength > 0 then .length contentLength.toNat
  else .none

/-! ### what goes upstream (framing fields only) -/

/-- `HttpStateData::sendRequest`: `flags.chunked_request = request->body_pipe != nullptr && request->content_length < 0` -/
def chunkedRequest (k : BodyKind) (contentLength : Int) : Bool :=
  match k with
  | .none => false
  | _ => contentLength < 0

/-- `copyOneHeaderFromClientsideRequestToUpstreamRequest` for the two framing ids: Transfer-Encoding is never copied,
Content-Length is copied unless Squid chunks the request itself -/
def copyFraming (chunkedReq : Bool) (e : Entry) : Option Entry :=
  if e.id == idTransferEncoding then none
  else if e.id == idContentLength then (if chunkedReq then none else some e)
  else none

/-- the Content-Length / Transfer-Encoding entries of `hdr_out` after `httpBuildRequestHeader`
(every other entry of `hdr_out` has another id: the `default:` branch only clones entries, and the entries Squid adds
itself are Via, X-Forwarded-For, Host, Cache-Control, Connection, Front-End-Https, Authorization, If-… ) -/
def forwardedFraming (es : List Entry) (chunkedReq : Bool) : List Entry :=
  es.filterMap (copyFraming chunkedReq) ++
    (if chunkedReq then [⟨idTransferEncoding, nameOf idTransferEncoding, chunkedToken⟩] else [])

end SquidModel.Smuggle
