/-
C03: the shape of an accepted request head: (empty lines the relaxed parser skips) + the request line up to the first
LF + for HTTP/1.x the header block up to and including its first empty line.
-/
import SquidModel.Smuggle.HeadEnd
import SquidModel.Smuggle.SuffixLemmas
import SquidModel.Http1.Facts

namespace SquidModel.Smuggle
open SquidModel SquidModel.Http1

theorem grabMime_block {cfg : Http1.Cfg} {fls : Nat} {buf m rest : Bytes} (h : grabMime cfg fls buf = .block m rest) :
    ∃ n o, headersEnd buf = some (n, o) ∧ rest = buf.drop n := by
  unfold grabMime at h
  split at h
  · rename_i n o hh
    split at h
    · simp at h
    · simp only [MimeRes.block.injEq] at h
      exact ⟨n, o, hh, h.2.symm⟩
  · split at h <;> simp at h

/-- what a successfully finished request parser did -/
theorem parse_accept_shape (cfg : Http1.Cfg) (buf : Bytes)
    (hd : (Http1.parse cfg {} buf).stage = .done) (hs : (Http1.parse cfg {} buf).status = 200) :
    ∃ f rest1, parseFirstLine cfg (strip cfg buf) = .ok f rest1 ∧
      (Http1.parse cfg {} buf).vmaj = f.vmaj ∧ (Http1.parse cfg {} buf).vmin = f.vmin ∧
      ((f.vmaj = 1 ∧ ∃ n o, headersEnd rest1 = some (n, o) ∧ (Http1.parse cfg {} buf).buf = rest1.drop n) ∨
       (f.vmaj ≠ 1 ∧ (Http1.parse cfg {} buf).buf = rest1)) := by
  unfold Http1.parse at hd hs ⊢
  -- stage 1
  have h0 : ∀ s0, s0 = stageNone cfg { ({} : PState) with buf := buf } →
      (s0.stage = .none ∧ s0.status = 0) ∨ (s0.stage = .first ∧ s0.buf = strip cfg buf ∧ s0.status = 0) := by
    intro s0 hs0
    subst hs0
    unfold stageNone
    simp only []
    split
    · split
      · left; exact ⟨rfl, rfl⟩
      · split
        · left; exact ⟨rfl, rfl⟩
        · right; exact ⟨rfl, rfl, rfl⟩
    · rename_i hne; exact (hne trivial).elim
  generalize hs0 : stageNone cfg { ({} : PState) with buf := buf } = s0 at hd hs ⊢
  rcases h0 s0 hs0.symm with ⟨hst, hstat⟩ | ⟨hst, hbuf, hstat⟩
  · -- the parser never left stage NONE: it cannot be done
    exfalso
    have h1 : stageFirst cfg s0 = s0 := by simp [stageFirst, hst]
    have h2 : stageMime cfg s0 = s0 := by simp [stageMime, hst]
    rw [h1, h2, hst] at hd
    simp at hd
  · -- stage 2
    cases hpf : parseFirstLine cfg (strip cfg buf) with
    | more =>
      exfalso
      have h1 : stageFirst cfg s0 = s0 := by simp [stageFirst, hst, hbuf, hpf]
      have h2 : stageMime cfg s0 = s0 := by simp [stageMime, hst]
      rw [h1, h2, hst] at hd
      simp at hd
    | bad x =>
      exfalso
      have h1 : stageFirst cfg s0 = { s0 with status := x, stage := .done } := by simp [stageFirst, hst, hbuf, hpf]
      have h2 : stageMime cfg { s0 with status := x, stage := .done } = { s0 with status := x, stage := .done } := by
        simp [stageMime]
      rw [h1, h2] at hs
      have := parseFirstLine_bad_status hpf
      simp only at hs
      omega
    | ok f rest1 =>
      refine ⟨f, rest1, rfl, ?_⟩
      have h1 : (stageFirst cfg s0).stage = .mime ∧ (stageFirst cfg s0).buf = rest1 ∧ (stageFirst cfg s0).status = 200 ∧
          (stageFirst cfg s0).vmaj = f.vmaj ∧ (stageFirst cfg s0).vmin = f.vmin := by
        simp [stageFirst, hst, hbuf, hpf]
      generalize stageFirst cfg s0 = s1 at h1 hd hs ⊢
      obtain ⟨e1, e2, e3, e4, e5⟩ := h1
      by_cases hv : f.vmaj = 1
      · have hv1 : s1.vmaj = 1 := by rw [e4]; exact hv
        cases hg : grabMime cfg s1.firstLineSize s1.buf with
        | more =>
          exfalso
          have : (stageMime cfg s1).stage = .mime := by simp [stageMime, e1, hv1, hg]
          rw [this] at hd; simp at hd
        | tooLarge rest =>
          exfalso
          have : (stageMime cfg s1).status = 431 := by simp [stageMime, e1, hv1, hg]
          rw [this] at hs; simp at hs
        | block m rest =>
          have hp : (stageMime cfg s1).buf = rest ∧ (stageMime cfg s1).vmaj = s1.vmaj ∧ (stageMime cfg s1).vmin = s1.vmin := by
            simp [stageMime, e1, hv1, hg]
          rw [e2] at hg
          obtain ⟨n, o, hh, hr⟩ := grabMime_block hg
          exact ⟨by rw [hp.2.1, e4], by rw [hp.2.2, e5], Or.inl ⟨hv, n, o, hh, by rw [hp.1, hr]⟩⟩
      · have hv1 : ¬ s1.vmaj = 1 := by rw [e4]; exact hv
        have hp : (stageMime cfg s1).buf = s1.buf ∧ (stageMime cfg s1).vmaj = s1.vmaj ∧ (stageMime cfg s1).vmin = s1.vmin := by
          simp [stageMime, e1, hv1]
        exact ⟨by rw [hp.2.1, e4], by rw [hp.2.2, e5], Or.inr ⟨hv, by rw [hp.1, e2]⟩⟩

theorem mem_takeWhile_p {p : UInt8 → Bool} : ∀ {l : Bytes} {c : UInt8}, c ∈ l.takeWhile p → p c = true := by
  intro l
  induction l with
  | nil => intro c h; simp at h
  | cons a r ih =>
    intro c h
    simp only [List.takeWhile_cons] at h
    split at h
    · simp only [List.mem_cons] at h
      rcases h with rfl | h
      · assumption
      · exact ih h
    · simp at h

/-- the request line ends at the first LF of the buffer (after the skipped empty lines) -/
theorem parseFirstLine_ok_line {cfg : Http1.Cfg} {buf rest : Bytes} {f : ReqLine} (h : parseFirstLine cfg buf = .ok f rest) :
    buf = buf.takeWhile notLF ++ 10 :: rest ∧ (∀ c ∈ buf.takeWhile notLF, c ≠ 10) ∧ buf.takeWhile notLF ≠ [] := by
  unfold parseFirstLine at h
  dsimp only at h
  split at h
  · rename_i r hne hd
    split at h
    · unfold blame at h; split at h <;> simp at h
    · split at h
      · simp at h
      · simp only [LineRes.ok.injEq] at h
        obtain ⟨_, rfl⟩ := h
        refine ⟨?_, ?_, ?_⟩
        · have := List.takeWhile_append_dropWhile (p := notLF) (l := buf)
          rw [hd] at this
          exact this.symm
        · intro c hc
          exact (notLF_iff c).mp (mem_takeWhile_p hc)
        · intro hnil
          rw [hnil] at hne
          simp at hne
  · split at h
    · unfold blame at h; split at h <;> simp at h
    · simp at h

/-- a run of empty lines (`LF` or `CR LF`) -/
inductive EmptyLines : Bytes → Prop where
  | nil : EmptyLines []
  | lf (g : Bytes) : EmptyLines g → EmptyLines (10 :: g)
  | crlf (g : Bytes) : EmptyLines g → EmptyLines (13 :: 10 :: g)

/-- `skipGarbageLines` drops empty lines only -/
theorem skipGarbage_spec (s : Bytes) : ∃ g, s = g ++ skipGarbage s ∧ EmptyLines g := by
  fun_induction skipGarbage s with
  | case1 r ih =>
    obtain ⟨g, h1, h2⟩ := ih
    exact ⟨10 :: g, by simp [← h1], EmptyLines.lf g h2⟩
  | case2 r ih =>
    obtain ⟨g, h1, h2⟩ := ih
    exact ⟨13 :: 10 :: g, by simp [← h1], EmptyLines.crlf g h2⟩
  | case3 s _ _ => exact ⟨[], rfl, EmptyLines.nil⟩

theorem strip_spec (cfg : Http1.Cfg) (s : Bytes) :
    ∃ g, s = g ++ strip cfg s ∧ EmptyLines g ∧ (cfg.relaxed = false → g = []) := by
  unfold strip
  split
  · rename_i hr
    obtain ⟨g, h1, h2⟩ := skipGarbage_spec s
    exact ⟨g, h1, h2, fun hf => by rw [hr] at hf; simp at hf⟩
  · exact ⟨[], rfl, EmptyLines.nil, fun _ => rfl⟩

end SquidModel.Smuggle
