/-
C03, completeness: a strictly framed Content-Length request — a request line the strict parser accepts, well-formed field
lines, the empty line, `n` body bytes — is handed on as exactly that message, wherever it stands in the stream.
-/
import SquidModel.Smuggle.StrictHead
import SquidModel.Smuggle.Complete

namespace SquidModel.Smuggle
open SquidModel SquidModel.Header SquidModel.Http1

theorem tchar_ordinary : ∀ c : UInt8, (!(Gen.CharSets.TCHAR.mem c) ||
    (c != 10 && c != 13 && c != 32 && c != 9 && !(Gen.Http1Request.RelaxedDelims.mem c))) = true :=
  forall_octet _ (by decide +kernel)

theorem hws_not_lf : ∀ c : UInt8, (!(isHws c) || c != 10) = true := forall_octet _ (by decide +kernel)

/-- a well-formed request field line starts with an ordinary byte and has no LF inside -/
theorem wf_line_shape (relaxed : Bool) (f : FieldSyn) (hw : WF ⟨relaxed, .request, false⟩ f) :
    ∃ c r, f.line = c :: r ∧ c ≠ 10 ∧ c ≠ 13 ∧ c ≠ 32 ∧ c ≠ 9 ∧ Gen.Http1Request.RelaxedDelims.mem c = false ∧ ∀ x ∈ r, x ≠ 10 := by
  obtain ⟨hne, htc, _, hbws, hbok, hlead, htrail, hclean, _, _, _⟩ := hw
  have hb : f.bws = [] := by
    rcases hbok with h | h | h
    · exact h
    · simp at h
    · simp at h
  cases hn : f.name with
  | nil => exact absurd hn hne
  | cons c nr =>
    have hall : ∀ x ∈ f.name, Gen.CharSets.TCHAR.mem x = true := by simpa [List.all_eq_true] using htc
    have hc := hall c (by rw [hn]; simp)
    have ho := tchar_ordinary c
    simp only [hc, Bool.not_true, Bool.false_or, Bool.and_eq_true, bne_iff_ne, ne_eq, Bool.not_eq_true'] at ho
    refine ⟨c, nr ++ f.bws ++ [58] ++ f.lead ++ f.value ++ f.trail ++ (if f.crlf then [13] else []), ?_, ho.1.1.1.1, ho.1.1.1.2, ho.1.1.2, ho.1.2, ho.2, ?_⟩
    · simp [FieldSyn.line, hn]
    · intro x hx
      simp only [List.mem_append, List.mem_singleton] at hx
      have hwsl : ∀ (w : Bytes), w.all isHws = true → x ∈ w → x ≠ 10 := by
        intro w hwa hxw
        have := (List.all_eq_true.mp hwa) x hxw
        have h2 := hws_not_lf x
        simpa [this] using h2
      rcases hx with ((((((hx | hx) | hx) | hx) | hx) | hx) | hx)
      · have := hall x (by rw [hn]; simp [hx])
        have h2 := tchar_ordinary x
        simp only [this, Bool.not_true, Bool.false_or, Bool.and_eq_true, bne_iff_ne, ne_eq] at h2
        exact h2.1.1.1.1
      · rw [hb] at hx; simp at hx
      · subst hx; decide
      · exact hwsl _ hlead hx
      · exact (hclean x hx).2.1
      · exact hwsl _ htrail hx
      · split at hx
        · simp at hx; subst hx; decide
        · simp at hx

theorem cleanMimePrefix_ordinary (c : UInt8) (r : Bytes) (hc : Gen.Http1Request.RelaxedDelims.mem c = false) :
    Http1.cleanMimePrefix (c :: r) = c :: r := by
  unfold Http1.cleanMimePrefix
  simp [Http1.cleanLoop, hc]

theorem flatMap_wire (fs : List FieldSyn) : fs.flatMap FieldSyn.wire = (fs.map FieldSyn.line).flatMap (fun l => l ++ [10]) := by
  induction fs with
  | nil => rfl
  | cons f fs ih => simp [FieldSyn.wire, ih]

/-- **A strictly framed Content-Length request is handed on as exactly that message.** Strict parser. The buffer holds a
request line the request-line parser accepts (C22 `strict_rfc9112_accepted`: every RFC 9112 request-line of HTTP/1.x) with
version 1.1 or later, its LF, a header block of well-formed field lines (C25 `WF`) that end in CR LF or LF, the empty line
CR LF, `n` body bytes and then anything (`extra`: the next pipelined message). With exactly one Content-Length field whose
value denotes `n`, no Transfer-Encoding, no Expect, a plain method, an http URL, and the head below the size limit: the
message handed on has exactly the body `body` and the next message starts at `extra`. -/
theorem strict_content_length_message (cfg : Smuggle.Cfg) (url : Bytes → Bytes → Option UrlView)
    (hrel : cfg.h1.relaxed = false) (line : Bytes) (f : ReqLine) (fs : List FieldSyn) (body extra : Bytes) (u : UrlView)
    (hne : line ≠ []) (hnolf : ∀ c ∈ line, c ≠ 10) (hpl : parseLine cfg.h1 line = .ok f)
    (hv : f.vmaj = 1) (hvm : f.vmin ≥ 1)
    (hw : ∀ x ∈ fs, WF ⟨false, .request, false⟩ x)
    (hte : hasTe (fs.map entryOf) = false)
    (hexp : ∀ x ∈ fs, ((entryOf x).id == idExpect) = false)
    (hcl : ∃ v, clValues (fs.map entryOf) = [v] ∧ decimalValue (strip v) = some body.length ∧ v.contains 44 = false)
    (hmeth : plainMethod f.method) (hurl : url f.method f.uri = some u) (hproto : u.proto = protoHTTP)
    (hlim : line.length < cfg.h1.limit)
    (hsize : f.method.length + f.uri.length + 12 + ((fs.flatMap FieldSyn.wire).length + 2) < cfg.h1.limit) :
    ∃ d, step cfg url (line ++ 10 :: (fs.flatMap FieldSyn.wire ++ [13, 10] ++ (body ++ extra))) = .msg (body ++ extra) extra d ∧
      d.body = body ∧ d.method = f.method ∧ d.uri = f.uri := by
  have hrel' : cfg.relaxed = false := hrel
  -- the header block: ends where `headersEnd` says, is left alone by cleanMimePrefix
  have hshape : ∀ l ∈ fs.map FieldSyn.line, ∃ c r, l = c :: r ∧ c ≠ 10 ∧ c ≠ 13 ∧ c ≠ 32 ∧ c ≠ 9 ∧ ∀ x ∈ r, x ≠ 10 := by
    intro l hl
    obtain ⟨x, hx, rfl⟩ := List.mem_map.mp hl
    obtain ⟨c, r, h1, h2, h3, h4, h5, _, h7⟩ := wf_line_shape false x (hw x hx)
    exact ⟨c, r, h1, h2, h3, h4, h5, h7⟩
  have hend : Http1.headersEnd ((fs.flatMap FieldSyn.wire ++ [13, 10]) ++ (body ++ extra)) =
      some ((fs.flatMap FieldSyn.wire ++ [13, 10]).length, false) := by
    have := headersEnd_lines (fs.map FieldSyn.line) (body ++ extra) hshape
    unfold Http1.headersEnd
    rw [flatMap_wire]
    simpa [List.append_assoc] using this
  have hclean : Http1.cleanMimePrefix (fs.flatMap FieldSyn.wire ++ [13, 10]) = fs.flatMap FieldSyn.wire ++ [13, 10] := by
    cases fs with
    | nil => decide
    | cons x xs =>
      obtain ⟨c, r, h1, _, _, _, _, h6, _⟩ := wf_line_shape false x (hw x (by simp))
      simp only [List.flatMap_cons, FieldSyn.wire, h1, List.cons_append]
      exact cleanMimePrefix_ordinary c _ h6
  obtain ⟨p1, p2, p3, p4, p5, p6, p7, p8⟩ := parse_strict_head cfg.h1 hrel line (fs.flatMap FieldSyn.wire ++ [13, 10]) (body ++ extra) f
    hne hnolf hlim hpl hv hend hclean (by simp only [List.length_append, List.length_cons, List.length_nil]; omega)
  obtain ⟨v, hv1, hv2, hv3⟩ := hcl
  have hall : AllDenote cfg.relaxed (clValues (fs.map entryOf)) body.length := by
    intro w hwm
    rw [hv1] at hwm
    simp only [List.mem_singleton] at hwm
    subst hwm
    simp [fieldValues, hrel', hv2]
  obtain ⟨es, keep, hhead, hch, _⟩ := wellformed_header_accepted cfg url _ fs [13, 10] body.length u p1 p2 p7 (by rw [p8]; exact hvm)
    (by rw [p4]) (Or.inr (Or.inr rfl)) (by rw [p4]; simp) (by rw [hrel']; exact hw) hte hexp (by rw [hv1]; simp) hall
    (fun _ => by rw [hv1]; rfl) (by rw [p5]; exact hmeth) (by rw [p5, p6]; exact hurl) hproto
  rw [p3, p8, p5, p6] at hhead
  obtain ⟨d, hd1, hd2, hd3, hd4⟩ := wellformed_message_cut cfg url _ (body ++ extra) es body.length f.vmin f.method f.uri keep hhead hch (by simp)
  refine ⟨d, ?_, ?_, hd3, hd4⟩
  · rw [hd1]; simp
  · rw [hd2]; simp

end SquidModel.Smuggle
