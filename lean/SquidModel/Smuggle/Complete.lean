/-
C03, completeness on the header side: a header block of well-formed field lines (C25's wire syntax) whose Content-Length
values all denote one number — and that has no Transfer-Encoding and no Expect — is accepted by the client side with exactly
that length, whatever else it carries.
-/
import SquidModel.Smuggle.HeadLemmas
import SquidModel.Properties.C25

namespace SquidModel.Smuggle
open SquidModel SquidModel.Header

theorem finish_entries_sub (c : Header.Cfg) (es : List Entry) (cl : ClState) (hr : HdrResult) (h : finish c es cl = .ok hr) :
    (∀ e ∈ hr.entries, e ∈ es ∨ e.id = idContentLength) ∧
    (c.prohibited = false → es.any (fun x => x.id == idTransferEncoding) = false → hr.teUnsupported = false) := by
  unfold finish at h
  have hdel : ∀ (l : List Entry) (id : Nat) (e : Entry), e ∈ delById l id → e ∈ l := by
    intro l id e he
    exact (List.mem_filter.mp he).1
  split at h
  · simp only [Outcome.ok.injEq] at h; subst h
    exact ⟨fun e he => Or.inl (hdel _ _ _ (hdel _ _ _ he)), fun hp => by simp_all⟩
  · split at h
    · rename_i hany
      refine ⟨?_, fun _ hno => by rw [hno] at hany; simp at hany⟩
      split at h
      · simp at h
      · simp only [Outcome.ok.injEq] at h; subst h
        exact fun e he => Or.inl (hdel _ _ _ he)
    · split at h
      · simp only [Outcome.ok.injEq] at h; subst h
        exact ⟨fun e he => Or.inl (hdel _ _ _ he), fun _ _ => rfl⟩
      · split at h
        · dsimp only at h
          split at h
          · simp only [Outcome.ok.injEq] at h; subst h
            refine ⟨?_, fun _ _ => rfl⟩
            intro e he
            simp only [List.mem_append, List.mem_singleton] at he
            rcases he with he | he
            · exact Or.inl (hdel _ _ _ he)
            · subst he; exact Or.inr rfl
          · simp only [Outcome.ok.injEq] at h; subst h
            exact ⟨fun e he => Or.inl (hdel _ _ _ he), fun _ _ => rfl⟩
        · simp only [Outcome.ok.injEq] at h; subst h
          exact ⟨fun e he => Or.inl he, fun _ _ => rfl⟩

/-- the stored entries other than Content-Length are among the scanned ones; without a scanned Transfer-Encoding the
`teUnsupported_` flag stays clear -/
theorem parseHeader_entries_sub (cfg : Header.Cfg) (block : Bytes) (raw : List Entry) (hr : HdrResult)
    (hraw : rawEntries cfg block = some raw) (h : parseHeader cfg block = .ok hr) :
    (∀ e ∈ hr.entries, e ∈ raw ∨ e.id = idContentLength) ∧
    (cfg.prohibited = false → hasTe raw = false → hr.teUnsupported = false) := by
  rw [parseHeader_eq, hraw] at h
  dsimp only at h
  cases hfold : clFold cfg.relaxed [] {} raw with
  | none => simp [hfold] at h
  | some p =>
    obtain ⟨es, cl⟩ := p
    simp only [hfold] at h
    obtain ⟨_, _, hnon, _, _⟩ := clFold_spec cfg.relaxed raw [] {} [] es cl (shape_init cfg.relaxed) hfold
    obtain ⟨hsub, hte⟩ := finish_entries_sub cfg es cl hr h
    have hes : ∀ e ∈ es, e ∈ raw ∨ e.id = idContentLength := by
      intro e he
      by_cases hc : isCl e = true
      · exact Or.inr (by simpa [isCl] using hc)
      · left
        have : e ∈ es.filter (fun e => !isCl e) := List.mem_filter.mpr ⟨he, by simpa using hc⟩
        rw [hnon] at this
        simp only [List.filter_nil, List.nil_append] at this
        exact (List.mem_filter.mp this).1
    refine ⟨?_, ?_⟩
    · intro e he
      rcases hsub e he with h1 | h1
      · exact hes e h1
      · exact Or.inr h1
    · intro hp hno
      apply hte hp
      -- no Transfer-Encoding among `es` either
      cases hany : es.any (fun x => x.id == idTransferEncoding) with
      | false => rfl
      | true =>
        exfalso
        obtain ⟨e, he, hid⟩ := List.any_eq_true.mp hany
        rcases hes e he with h1 | h1
        · have : hasTe raw = true := List.any_eq_true.mpr ⟨e, h1, hid⟩
          rw [hno] at this; simp at this
        · have e2 : e.id = idTransferEncoding := by simpa using hid
          rw [e2] at h1
          exact absurd h1 (by decide)

/-- the methods for which `clientProcessRequest` has no special path -/
def plainMethod (m : Bytes) : Prop :=
  m ≠ [] ∧ (m == mPRI) = false ∧ (m == mCONNECT) = false ∧ (m == mOPTIONS) = false ∧ (m == mTRACE) = false

/-- **A well-formed header block with an unambiguous Content-Length is accepted with that length.** Whenever the request
parser delivered an HTTP/1.1+ head whose header block consists of well-formed field lines (C25 `WF`: token names, no
whitespace before the colon, optional whitespace around the value, CRLF or LF line ends, any number of other fields in any
order), without Transfer-Encoding and Expect, whose Content-Length values (≥ 1 field; list members with the relaxed parser;
exactly one field with the strict parser) all denote `n`, for a plain method and an http URL: the client side accepts the
head, `content_length = n`, the request is not chunked. -/
theorem wellformed_header_accepted (cfg : Smuggle.Cfg) (url : Bytes → Bytes → Option UrlView) (buf : Bytes)
    (fs : List FieldSyn) (t : Bytes) (n : Nat) (u : UrlView)
    (hd : (Http1.parse cfg.h1 {} buf).stage = .done) (hs : (Http1.parse cfg.h1 {} buf).status = 200)
    (hv : (Http1.parse cfg.h1 {} buf).vmaj = 1) (hvm : (Http1.parse cfg.h1 {} buf).vmin ≥ 1)
    (hm : (Http1.parse cfg.h1 {} buf).mime = fs.flatMap FieldSyn.wire ++ t) (ht : isTerminator t)
    (hne : (Http1.parse cfg.h1 {} buf).mime ≠ [])
    (hw : ∀ f ∈ fs, WF ⟨cfg.relaxed, .request, false⟩ f)
    (hte : hasTe (fs.map entryOf) = false)
    (hexp : ∀ f ∈ fs, ((entryOf f).id == idExpect) = false)
    (hcl : clValues (fs.map entryOf) ≠ [])
    (hall : AllDenote cfg.relaxed (clValues (fs.map entryOf)) n)
    (hstrict : cfg.relaxed = false → (clValues (fs.map entryOf)).length = 1)
    (hmeth : plainMethod (Http1.parse cfg.h1 {} buf).method)
    (hurl : url (Http1.parse cfg.h1 {} buf).method (Http1.parse cfg.h1 {} buf).uri = some u) (hproto : u.proto = protoHTTP) :
    ∃ es keep, head cfg url buf = .ok (Http1.parse cfg.h1 {} buf).buf es (n : Int) 1 (Http1.parse cfg.h1 {} buf).vmin
        (Http1.parse cfg.h1 {} buf).method (Http1.parse cfg.h1 {} buf).uri keep ∧
      chunked es = false ∧ (es.filter isCl).length = 1 := by
  have hraw := C25.accepted_fields_exact ⟨cfg.relaxed, .request, false⟩ fs t hw ht
  obtain ⟨r, hpar, hclr, hconf⟩ := C26.unambiguous_accepted ⟨cfg.relaxed, .request, false⟩ _ _ n hraw rfl hte hcl hall hstrict
  obtain ⟨hsub, hteu⟩ := parseHeader_entries_sub _ _ _ r hraw hpar
  have hteu' := hteu rfl hte
  -- no Transfer-Encoding and no Expect among the stored entries
  have hnote : chunked r.entries = false := by
    cases hc : chunked r.entries with
    | false => rfl
    | true =>
      exfalso
      obtain ⟨e, he, hid⟩ := List.any_eq_true.mp hc
      rcases hsub e he with h1 | h1
      · have : hasTe (fs.map entryOf) = true := List.any_eq_true.mpr ⟨e, h1, hid⟩
        rw [hte] at this; simp at this
      · have e2 : e.id = idTransferEncoding := by simpa using hid
        rw [e2] at h1; exact absurd h1 (by decide)
  have hnoexp : hasId r.entries idExpect = false := by
    cases hc : hasId r.entries idExpect with
    | false => rfl
    | true =>
      exfalso
      obtain ⟨e, he, hid⟩ := List.any_eq_true.mp hc
      rcases hsub e he with h1 | h1
      · obtain ⟨f, hf, rfl⟩ := List.mem_map.mp h1
        have := hexp f hf
        rw [this] at hid; simp at hid
      · have e2 : e.id = idExpect := by simpa using hid
        rw [e2] at h1; exact absurd h1 (by decide)
  have hgi : getInt64 r.entries idContentLength = (n : Int) := by rw [getInt64_cl_eq, hclr]; rfl
  have hone : (r.entries.filter isCl).length = 1 := by
    have hle := (C26.never_uses_other_value _ _ _ hpar).1
    have hpos : 0 < (r.entries.filter isCl).length := by
      unfold contentLength at hclr
      cases hf : r.entries.find? (fun e => e.id == idContentLength) with
      | none => rw [hf] at hclr; simp at hclr
      | some e =>
        have hmem := List.mem_of_find?_eq_some hf
        have hp := List.find?_some hf
        have : e ∈ r.entries.filter isCl := List.mem_filter.mpr ⟨hmem, hp⟩
        exact List.length_pos_of_mem this
    omega
  obtain ⟨hm1, hm2, hm3, hm4, hm5⟩ := hmeth
  refine ⟨r.entries, proxyKeepalive cfg.closeAfterTeCl r.entries 1 (Http1.parse cfg.h1 {} buf).vmin (clSeen cfg (Http1.parse cfg.h1 {} buf)), ?_, hnote, hone⟩
  unfold head
  generalize Http1.parse cfg.h1 {} buf = st at *
  have hho : headerOf cfg st = .ok r := by
    unfold headerOf
    have hne' : st.mime.isEmpty = false := by
      cases hmm : st.mime with
      | nil => exact absurd hmm hne
      | cons _ _ => rfl
    simp only [hv, hne', ge_iff_le, Nat.le_refl, Bool.not_false, and_self, if_true]
    rw [hm]; exact hpar
  have hm1' : st.method.isEmpty = false := by
    cases hmm : st.method with
    | nil => exact absurd hmm hm1
    | cons _ _ => rfl
  have hfr : checkEntityFraming cfg.rejectNonGet09 r 1 st.vmin st.method (n : Int) = 0 := by
    unfold checkEntityFraming
    have hv10 : verLe10 1 st.vmin = false := by
      unfold verLe10
      have : (st.vmin == 0) = false := by
        cases hq : st.vmin == 0 with
        | false => rfl
        | true => have : st.vmin = 0 := by simpa using hq
                  omega
      simp [this]
    simp [hteu', hnote, hconf, hv10]
  have hucr : urlCheckRequest st.method u (getInt64 r.entries idMaxForwards) = true := by
    unfold urlCheckRequest
    simp [hm3, hm4, hm5, hproto]
  simp only [hd, hs, hv, hm2, hm1', hurl, hho, hnoexp, hgi, hucr, hm4, hm3, hfr, ne_eq, not_true_eq_false, if_false,
    Bool.false_eq_true, false_and, ge_iff_le, Nat.le_refl, if_true, Bool.not_true, Bool.or_self,
    Nat.lt_irrefl, gt_iff_lt, or_self, Nat.one_ne_zero, Bool.false_and]
  all_goals simp_all

/-- … and the message is cut right after its `n` body bytes -/
theorem wellformed_message_cut (cfg : Smuggle.Cfg) (url : Bytes → Bytes → Option UrlView) (buf rest : Bytes) (es : List Entry)
    (n vmin : Nat) (m u : Bytes) (keep : Bool)
    (h : head cfg url buf = .ok rest es (n : Int) 1 vmin m u keep) (hch : chunked es = false) (hlen : n ≤ rest.length) :
    ∃ d, step cfg url buf = .msg rest (rest.drop n) d ∧ d.body = rest.take n ∧ d.method = m ∧ d.uri = u := by
  unfold step
  rw [h]
  dsimp only
  by_cases hn : n = 0
  · subst hn
    have : bodyKind es ((0 : Nat) : Int) = .none := by simp [bodyKind, hch]
    rw [this]
    exact ⟨descOf .none es ((0 : Nat) : Int) 1 vmin m u keep [], by simp, by simp [descOf], rfl, rfl⟩
  · have : bodyKind es (n : Int) = .length n := by
      unfold bodyKind
      simp only [hch, Bool.false_eq_true, if_false]
      simp
      exact hn
    rw [this]
    dsimp only
    have hnl : ¬ rest.length < n := by omega
    simp only [hnl, if_false]
    exact ⟨_, rfl, rfl, rfl, rfl⟩

end SquidModel.Smuggle
