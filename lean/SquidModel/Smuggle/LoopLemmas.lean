/-
C03: the structure of `ConnStateData::parseRequests` as modelled by `loop`: every message is cut out of the stream where
the previous one ended, by the one-message function applied to the rest of the stream; the loop ends with the first
message that is not handed on.
-/
import SquidModel.Smuggle.HeadLemmas
import SquidModel.Smuggle.SuffixLemmas
import SquidModel.Smuggle.ChunkSuffix

namespace SquidModel.Smuggle
open SquidModel SquidModel.Header

theorem pipeSpace_pos : ∀ i : Nat, 0 < (fun _ : Nat => pipeSpace) i := fun _ => by show 0 < pipeSpace; unfold pipeSpace; omega

/-- the rest `head` hands on is a proper suffix of the buffer -/
theorem head_rest {cfg : Cfg} {url : Bytes → Bytes → Option UrlView} {buf : Bytes} :
    (∀ rest es cl vmaj vmin m u keep, head cfg url buf = .ok rest es cl vmaj vmin m u keep → rest <:+ buf ∧ rest.length < buf.length) ∧
    (∀ rest, head cfg url buf = .connect rest → rest <:+ buf ∧ rest.length < buf.length) := by
  constructor
  · intro rest es cl vmaj vmin m u keep h
    obtain ⟨_, hs, hr, _⟩ := head_ok_inv h
    subst hr
    exact ⟨parse_buf_suffix cfg.h1 buf, parse_accepted_shorter cfg.h1 buf hs⟩
  · intro rest h
    unfold head at h
    generalize hst : Http1.parse cfg.h1 {} buf = st at h
    dsimp only at h
    repeat' (split at h)
    all_goals first
      | (simp at h; done)
      | (simp only [Head.connect.injEq] at h
         subst h
         have hs : st.status = 200 := by simp_all
         subst hst
         exact ⟨parse_buf_suffix cfg.h1 buf, parse_accepted_shorter cfg.h1 buf hs⟩)

/-- a positive `content_length` comes from a Content-Length entry -/
theorem head_ok_cl_pos {cfg : Cfg} {url : Bytes → Bytes → Option UrlView} {buf rest : Bytes} {es : List Entry} {cl : Int}
    {vmaj vmin : Nat} {m u : Bytes} {keep : Bool} (h : head cfg url buf = .ok rest es cl vmaj vmin m u keep) (hpos : cl > 0) :
    hasId es idContentLength = true := by
  obtain ⟨_, _, _, _, _, _, _, hr, _, rfl, hcl, _⟩ := head_ok_inv h
  cases hx : hasId hr.entries idContentLength with
  | true => rfl
  | false =>
    exfalso
    have : getInt64 hr.entries idContentLength = -1 := by
      unfold getInt64
      have : hr.entries.find? (fun e => e.id == idContentLength) = none := by
        rw [List.find?_eq_none]
        intro e he
        simp only [hasId, List.any_eq_false] at hx
        exact hx e he
      rw [this]
    rw [hcl] at hpos
    split at hpos
    · rw [this] at hpos; omega
    · omega

/-- what one message consumes -/
theorem step_msg {cfg : Cfg} {url : Bytes → Bytes → Option UrlView} {buf r rest : Bytes} {d : Desc}
    (h : step cfg url buf = .msg r rest d) :
    r <:+ buf ∧ rest <:+ r ∧ r.length < buf.length ∧
    (d.kind = .none → rest = r ∧ d.body = []) ∧
    (d.kind = .cl → ∃ n : Nat, d.cl = some (n : Int) ∧ 0 < n ∧ n ≤ r.length ∧ d.body = r.take n ∧ rest = r.drop n) := by
  unfold step at h
  split at h
  · simp at h
  · simp at h
  · simp at h
  · simp at h
  · rename_i rest0 es cl vmaj vmin m u keep hh
    obtain ⟨hsuf, hlt⟩ := head_rest.1 rest0 es cl vmaj vmin m u keep hh
    split at h
    · -- no body
      simp only [Step.msg.injEq] at h
      obtain ⟨rfl, rfl, rfl⟩ := h
      refine ⟨hsuf, List.suffix_refl _, hlt, fun _ => ⟨rfl, rfl⟩, fun hk => ?_⟩
      simp [descOf] at hk
    · -- Content-Length
      rename_i n hk
      split at h
      · simp at h
      · rename_i hlen
        simp only [Step.msg.injEq] at h
        obtain ⟨rfl, rfl, rfl⟩ := h
        refine ⟨hsuf, List.drop_suffix _ _, hlt, fun hk' => by simp [descOf] at hk', fun _ => ?_⟩
        -- bodyKind = .length n: content_length = n > 0, and the header has a Content-Length entry
        unfold bodyKind at hk
        split at hk
        · simp at hk
        · split at hk
          · rename_i hpos
            simp only [BodyKind.length.injEq] at hk
            have hcl : cl = (n : Int) := by omega
            have hhas : hasId es idContentLength = true := head_ok_cl_pos hh hpos
            subst hk
            refine ⟨cl.toNat, ?_, by omega, by omega, rfl, rfl⟩
            simp only [descOf, hhas, if_true, Option.some.injEq]
            omega
          · simp at hk
    · -- chunked
      split at h
      · simp at h
      · dsimp only at h
        split at h
        · rename_i hv
          simp only [Step.msg.injEq] at h
          obtain ⟨rfl, rfl, rfl⟩ := h
          refine ⟨hsuf, ?_, hlt, fun hk' => by simp [descOf] at hk', fun hk' => by simp [descOf] at hk'⟩
          exact Chunked.feed_init_suffix cfg.relaxed _ pipeSpace_pos _ (fun e he => by rw [hv] at he; simp at he)
        · simp at h
        · simp at h
        · simp at h

theorem step_body_connect {cfg : Cfg} {url : Bytes → Bytes → Option UrlView} {buf : Bytes} :
    (∀ r d, step cfg url buf = .body r d → r <:+ buf ∧ r.length < buf.length) ∧
    (∀ r, step cfg url buf = .connect r → r <:+ buf ∧ r.length < buf.length) := by
  constructor
  · intro r d h
    unfold step at h
    split at h
    · simp at h
    · simp at h
    · simp at h
    · simp at h
    · rename_i rest0 es cl vmaj vmin m u keep hh
      have hsuf := head_rest.1 rest0 es cl vmaj vmin m u keep hh
      split at h
      · simp at h
      · split at h
        · simp only [Step.body.injEq] at h; obtain ⟨rfl, _⟩ := h; exact hsuf
        · simp at h
      · split at h
        · simp only [Step.body.injEq] at h; obtain ⟨rfl, _⟩ := h; exact hsuf
        · dsimp only at h
          split at h
          · simp at h
          · simp only [Step.body.injEq] at h; obtain ⟨rfl, _⟩ := h; exact hsuf
          · simp at h
          · simp at h
  · intro r h
    unfold step at h
    split at h
    · simp at h
    · simp at h
    · simp at h
    · rename_i r0 hh
      simp only [Step.connect.injEq] at h
      subst h
      exact head_rest.2 r0 hh
    · split at h
      · simp at h
      · split at h <;> simp at h
      · split at h
        · simp at h
        · dsimp only at h
          split at h <;> simp at h

/-! ### the loop -/

theorem suffix_eq_drop {r s : Bytes} (h : r <:+ s) : r = s.drop (s.length - r.length) :=
  List.suffix_iff_eq_drop.mp h

/-- the messages are consecutive slices of the stream `s`, the first one starting at `off`: each is what the
one-message function makes of the stream from the message's own first byte on -/
inductive Chain (cfg : Cfg) (url : Bytes → Bytes → Option UrlView) (s : Bytes) : Nat → List Msg → Prop where
  | nil (off : Nat) : Chain cfg url s off []
  | cons (m : Msg) (ms : List Msg) :
      m.start < m.headEnd → m.headEnd ≤ m.stop → m.stop ≤ s.length →
      step cfg url (s.drop m.start) = .msg (s.drop m.headEnd) (s.drop m.stop) m.d →
      Chain cfg url s m.stop ms → Chain cfg url s m.start (m :: ms)

/-- where a chain that starts at `off` ends -/
def chainEnd (off : Nat) : List Msg → Nat
  | [] => off
  | m :: ms => chainEnd m.stop ms

/-- the final event happens at the end of the chain, on the rest of the stream -/
def FinAt (cfg : Cfg) (url : Bytes → Bytes → Option UrlView) (s : Bytes) (e : Nat) : Fin → Prop
  | .done => e = s.length
  | .more st => st = e ∧ e < s.length ∧ step cfg url (s.drop e) = .more
  | .body st h d => st = e ∧ e < h ∧ h ≤ s.length ∧ step cfg url (s.drop e) = .body (s.drop h) d
  | .rej st status site => st = e ∧ e < s.length ∧ step cfg url (s.drop e) = .rej status site
  | .connect st h => st = e ∧ e < h ∧ h ≤ s.length ∧ step cfg url (s.drop e) = .connect (s.drop h)
  | .throws st => st = e ∧ step cfg url (s.drop e) = .throws
  | .closing st => st = e
  | .fuel => False

theorem loop_spec (cfg : Cfg) (url : Bytes → Bytes → Option UrlView) (s : Bytes) :
    ∀ (f : Nat) (inBuf : Bytes), inBuf <:+ s → inBuf.length < f →
      Chain cfg url s (s.length - inBuf.length) (loop cfg url s.length f inBuf).1 ∧
      FinAt cfg url s (chainEnd (s.length - inBuf.length) (loop cfg url s.length f inBuf).1) (loop cfg url s.length f inBuf).2 := by
  intro f
  induction f with
  | zero => intro inBuf _ hf; omega
  | succ f ih =>
    intro inBuf hsuf hf
    have hdrop := suffix_eq_drop hsuf
    have hle := hsuf.length_le
    simp only [loop]
    split
    · rename_i hemp
      have : inBuf = [] := by simpa using hemp
      subst this
      exact ⟨Chain.nil _, by simp [chainEnd, FinAt]⟩
    · rename_i hne
      have hpos : 0 < inBuf.length := by
        cases inBuf with
        | nil => simp at hne
        | cons _ _ => simp
      split
      · rename_i hst
        refine ⟨Chain.nil _, ?_⟩
        simp only [chainEnd, FinAt]
        exact ⟨trivial, by omega, by rw [← hdrop]; exact hst⟩
      · rename_i st w hst
        refine ⟨Chain.nil _, ?_⟩
        simp only [chainEnd, FinAt]
        exact ⟨trivial, by omega, by rw [← hdrop]; exact hst⟩
      · rename_i hst
        refine ⟨Chain.nil _, ?_⟩
        simp only [chainEnd, FinAt]
        exact ⟨trivial, by rw [← hdrop]; exact hst⟩
      · rename_i r hst
        obtain ⟨hr, hrlt⟩ := step_body_connect.2 r hst
        have hr2 := hr.trans hsuf
        have hrl := hr.length_le
        refine ⟨Chain.nil _, ?_⟩
        simp only [chainEnd, FinAt]
        refine ⟨trivial, by omega, by omega, ?_⟩
        rw [← hdrop, ← suffix_eq_drop hr2]; exact hst
      · rename_i r d hst
        obtain ⟨hr, hrlt⟩ := step_body_connect.1 r d hst
        have hr2 := hr.trans hsuf
        have hrl := hr.length_le
        refine ⟨Chain.nil _, ?_⟩
        simp only [chainEnd, FinAt]
        refine ⟨trivial, by omega, by omega, ?_⟩
        rw [← hdrop, ← suffix_eq_drop hr2]; exact hst
      · rename_i r rest d hst
        obtain ⟨hr, hrest, hlt, _, _⟩ := step_msg hst
        have hr2 := hr.trans hsuf
        have hrest2 := hrest.trans hr2
        have hrl := hr.length_le
        have hrestl := hrest.length_le
        obtain ⟨ihc, ihf⟩ := ih rest hrest2 (by omega)
        have hstep : step cfg url (s.drop (s.length - inBuf.length)) =
            .msg (s.drop (s.length - r.length)) (s.drop (s.length - rest.length)) d := by
          rw [← hdrop, ← suffix_eq_drop hr2, ← suffix_eq_drop hrest2]
          exact hst
        split
        · dsimp only
          refine ⟨?_, ?_⟩
          · exact Chain.cons ⟨_, _, _, d⟩ _ (by dsimp only; omega) (by dsimp only; omega) (by dsimp only; omega) hstep ihc
          · simpa [chainEnd] using ihf
        · dsimp only
          refine ⟨?_, ?_⟩
          · exact Chain.cons ⟨_, _, _, d⟩ _ (by dsimp only; omega) (by dsimp only; omega) (by dsimp only; omega) hstep (Chain.nil _)
          · simp [chainEnd, FinAt]

end SquidModel.Smuggle
