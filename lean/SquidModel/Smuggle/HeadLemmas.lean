/-
C03: what an accepted request head went through (inversion of `head`), and the framing facts that follow from the
header-parser theorems of C26.
-/
import SquidModel.Smuggle.Delimit
import SquidModel.Properties.C26

namespace SquidModel.Smuggle
open SquidModel SquidModel.Header

/-- `head` returns `.ok` only along one path -/
theorem head_ok_inv {cfg : Cfg} {url : Bytes → Bytes → Option UrlView} {buf rest : Bytes} {es : List Entry} {cl : Int}
    {vmaj vmin : Nat} {m u : Bytes} (h : head cfg url buf = .ok rest es cl vmaj vmin m u) :
    (Http1.parse cfg.h1 {} buf).stage = .done ∧ (Http1.parse cfg.h1 {} buf).status = 200 ∧
    rest = (Http1.parse cfg.h1 {} buf).buf ∧ vmaj = (Http1.parse cfg.h1 {} buf).vmaj ∧
    vmin = (Http1.parse cfg.h1 {} buf).vmin ∧ m = (Http1.parse cfg.h1 {} buf).method ∧
    u = (Http1.parse cfg.h1 {} buf).uri ∧
    ∃ hr, headerOf cfg (Http1.parse cfg.h1 {} buf) = .ok hr ∧ es = hr.entries ∧
      cl = (if vmaj ≥ 1 then getInt64 hr.entries idContentLength else 0) ∧
      checkEntityFraming hr vmaj vmin m cl = 0 := by
  unfold head at h
  generalize Http1.parse cfg.h1 {} buf = st at h ⊢
  dsimp only at h
  repeat' (split at h)
  all_goals first
    | (simp at h; done)
    | (simp only [Head.ok.injEq] at h
       obtain ⟨rfl, rfl, rfl, rfl, rfl, rfl, rfl⟩ := h
       rename_i hr hhdr _ _ _ _ _ _
       refine ⟨by simp_all, by simp_all, rfl, rfl, rfl, rfl, rfl, hr, hhdr, rfl, by simp_all, by simp_all⟩)
