/-
C03: what an accepted request head went through (inversion of `head`), and the framing facts that follow from the
header-parser theorems of C26.
-/
import SquidModel.Smuggle.Delimit
import SquidModel.Properties.C26

namespace SquidModel.Smuggle
open SquidModel SquidModel.Header

/-- `head` returns `.ok` only along one path -/
theorem head_ok_inv {cfg : Cfg} {url : Bytes → Bytes → Option UrlView} {buf rest : Bytes} {es : List Entry} {cl : Int}
    {vmaj vmin : Nat} {m u : Bytes} (h : head cfg url buf = .ok rest es cl vmaj vmin m u) :
    (Http1.parse cfg.h1 {} buf).stage = .done ∧ (Http1.parse cfg.h1 {} buf).status = 200 ∧
    rest = (Http1.parse cfg.h1 {} buf).buf ∧ vmaj = (Http1.parse cfg.h1 {} buf).vmaj ∧
    vmin = (Http1.parse cfg.h1 {} buf).vmin ∧ m = (Http1.parse cfg.h1 {} buf).method ∧
    u = (Http1.parse cfg.h1 {} buf).uri ∧
    ∃ hr, headerOf cfg (Http1.parse cfg.h1 {} buf) = .ok hr ∧ es = hr.entries ∧
      cl = (if vmaj ≥ 1 then getInt64 hr.entries idContentLength else 0) ∧
      checkEntityFraming hr vmaj vmin m cl = 0 := by
  unfold head at h
  generalize Http1.parse cfg.h1 {} buf = st at h ⊢
  dsimp only at h
  repeat' (split at h)
  all_goals first
    | (simp at h; done)
    | (simp only [Head.ok.injEq] at h
       obtain ⟨rfl, rfl, rfl, rfl, rfl, rfl, rfl⟩ := h
       rename_i hr hhdr _ _ _ _ _ _
       refine ⟨by simp_all, by simp_all, rfl, rfl, rfl, rfl, rfl, hr, hhdr, rfl, by simp_all, by simp_all⟩)

/-! ### framing facts of an accepted header (from C26) -/

def isTe (e : Entry) : Bool := e.id == idTransferEncoding

theorem getInt64_cl_eq (es : List Entry) : getInt64 es idContentLength = (contentLength es).getD (-1) := by
  unfold getInt64 contentLength
  cases es.find? (fun e => e.id == idContentLength) with
  | none => rfl
  | some e =>
    dsimp only
    cases parseOffset e.value with
    | none => rfl
    | some p => rfl

theorem headerOf_cl (cfg : Cfg) (st : Http1.PState) (hr : HdrResult) (h : headerOf cfg st = .ok hr) :
    (hr.entries.filter isCl).length ≤ 1 ∧
    ∀ e ∈ hr.entries, e.id = idContentLength →
      ∃ n : Nat, contentLength hr.entries = some (n : Int) ∧ decimalValue (strip e.value) = some n := by
  unfold headerOf at h
  split at h
  · exact C26.never_uses_other_value _ _ _ h
  · simp only [Outcome.ok.injEq] at h
    subst h
    simp

theorem headerOf_te_no_cl (cfg : Cfg) (st : Http1.PState) (hr : HdrResult) (h : headerOf cfg st = .ok hr)
    (hte : chunked hr.entries = true) : contentLength hr.entries = none := by
  unfold headerOf at h
  split at h
  · -- the TE branch of `finish` deletes every Content-Length entry
    rw [parseHeader_eq] at h
    cases hraw : rawEntries ⟨cfg.relaxed, .request, false⟩ st.mime with
    | none => simp [hraw] at h
    | some raw =>
      have hc := C26.content_length_ignored ⟨cfg.relaxed, .request, false⟩ st.mime hr raw (by rw [parseHeader_eq]; exact h) hraw
      by_cases ht : hasTe raw = true
      · exact (hc (Or.inr ht)).1
      · -- no Transfer-Encoding among the scanned entries: then none among the stored ones either
        exfalso
        simp only [hraw] at h
        cases hfold : clFold cfg.relaxed [] {} raw with
        | none => simp [hfold] at h
        | some p =>
          obtain ⟨es, cl⟩ := p
          simp only [hfold] at h
          sorry
  · simp only [Outcome.ok.injEq] at h
    subst h
    simp [chunked, hasId] at hte
