/-
C03: what an accepted request head went through (inversion of `head`), and the framing facts that follow from the
header-parser theorems of C26.
-/
import SquidModel.Smuggle.Delimit
import SquidModel.Properties.C26

namespace SquidModel.Smuggle
open SquidModel SquidModel.Header

/-- `head` returns `.ok` only along one path -/
theorem head_ok_inv {cfg : Cfg} {url : Bytes → Bytes → Option UrlView} {buf rest : Bytes} {es : List Entry} {cl : Int}
    {vmaj vmin : Nat} {m u : Bytes} {keep : Bool} (h : head cfg url buf = .ok rest es cl vmaj vmin m u keep) :
    (Http1.parse cfg.h1 {} buf).stage = .done ∧ (Http1.parse cfg.h1 {} buf).status = 200 ∧
    rest = (Http1.parse cfg.h1 {} buf).buf ∧ vmaj = (Http1.parse cfg.h1 {} buf).vmaj ∧
    vmin = (Http1.parse cfg.h1 {} buf).vmin ∧ m = (Http1.parse cfg.h1 {} buf).method ∧
    u = (Http1.parse cfg.h1 {} buf).uri ∧
    ∃ hr, headerOf cfg (Http1.parse cfg.h1 {} buf) = .ok hr ∧ es = hr.entries ∧
      cl = (if vmaj ≥ 1 then getInt64 hr.entries idContentLength else 0) ∧
      checkEntityFraming cfg.rejectNonGet09 hr vmaj vmin m cl = 0 := by
  unfold head at h
  generalize Http1.parse cfg.h1 {} buf = st at h ⊢
  dsimp only at h
  repeat' (split at h)
  all_goals first
    | (simp at h; done)
    | (simp only [Head.ok.injEq] at h
       obtain ⟨rfl, rfl, rfl, rfl, rfl, rfl, rfl, rfl⟩ := h
       rename_i hr hhdr _ _ _ _ _ _
       refine ⟨by simp_all, by simp_all, rfl, rfl, rfl, rfl, rfl, hr, hhdr, rfl, by simp_all, by simp_all⟩)

/-- the versions that get past `buildHttpRequest`: HTTP/1.x and HTTP/0.9 -/
theorem head_ok_version {cfg : Cfg} {url : Bytes → Bytes → Option UrlView} {buf rest : Bytes} {es : List Entry} {cl : Int}
    {vmaj vmin : Nat} {m u : Bytes} {keep : Bool} (h : head cfg url buf = .ok rest es cl vmaj vmin m u keep) :
    vmaj = 1 ∨ (vmaj = 0 ∧ vmin = 9) := by
  unfold head at h
  generalize Http1.parse cfg.h1 {} buf = st at h ⊢
  dsimp only at h
  repeat' (split at h)
  all_goals first
    | (simp at h; done)
    | (simp only [Head.ok.injEq] at h
       obtain ⟨rfl, rfl, rfl, rfl, rfl, rfl, rfl, rfl⟩ := h
       rename_i hv _ _ _ _ _ _
       omega)

/-! ### framing facts of an accepted header (from C26) -/

def isTe (e : Entry) : Bool := e.id == idTransferEncoding

theorem getInt64_cl_eq (es : List Entry) : getInt64 es idContentLength = (contentLength es).getD (-1) := by
  unfold getInt64 contentLength
  cases es.find? (fun e => e.id == idContentLength) with
  | none => rfl
  | some e =>
    dsimp only
    cases parseOffset e.value with
    | none => rfl
    | some p => rfl

theorem headerOf_cl (cfg : Cfg) (st : Http1.PState) (hr : HdrResult) (h : headerOf cfg st = .ok hr) :
    (hr.entries.filter isCl).length ≤ 1 ∧
    ∀ e ∈ hr.entries, e.id = idContentLength →
      ∃ n : Nat, contentLength hr.entries = some (n : Int) ∧ decimalValue (strip e.value) = some n := by
  unfold headerOf at h
  split at h
  · exact C26.never_uses_other_value _ _ _ h
  · simp only [Outcome.ok.injEq] at h
    subst h
    simp

theorem te_ne_cl : (idTransferEncoding == idContentLength) = false := by decide

theorem any_te_filter (l : List Entry) : l.any isTe = (l.filter (fun e => !isCl e)).any isTe := by
  induction l with
  | nil => rfl
  | cons e r ih =>
    by_cases hc : isCl e = true
    · have : isTe e = false := by
        unfold isTe isCl at *
        have := te_ne_cl
        cases h1 : e.id == idTransferEncoding
        · rfl
        · exfalso
          have e1 : e.id = idTransferEncoding := by simpa using h1
          have e2 : e.id = idContentLength := by simpa using hc
          rw [e1] at e2
          simp [e2] at this
      simp [List.filter, hc, this, ih]
    · simp [List.filter, hc, ih]

theorem any_te_delById_cl (l : List Entry) : (delById l idContentLength).any isTe = l.any isTe := by
  rw [any_te_filter l]
  unfold delById
  congr 1

theorem finish_te (c : Header.Cfg) (es : List Entry) (cl : ClState) (hr : HdrResult) (h : finish c es cl = .ok hr)
    (hte : hr.entries.any isTe = true) : es.any isTe = true := by
  unfold finish at h
  split at h
  · simp only [Outcome.ok.injEq] at h; subst h
    exfalso
    simp only [delById, List.any_filter, isTe] at hte
    simp at hte
  · split at h
    · rename_i hany
      simpa [isTe] using hany
    · split at h
      · simp only [Outcome.ok.injEq] at h; subst h
        simpa [any_te_delById_cl] using hte
      · split at h
        · dsimp only at h
          split at h
          · simp only [Outcome.ok.injEq] at h; subst h
            simp only [List.any_append, any_te_delById_cl, Bool.or_eq_true] at hte
            rcases hte with hte | hte
            · exact hte
            · exfalso
              simp only [List.any_cons, List.any_nil, Bool.or_false, isTe] at hte
              have := te_ne_cl
              simp at hte
              rw [hte] at this
              simp at this
          · simp only [Outcome.ok.injEq] at h; subst h
            simpa [any_te_delById_cl] using hte
        · simp only [Outcome.ok.injEq] at h; subst h
          exact hte

theorem headerOf_te_no_cl (cfg : Cfg) (st : Http1.PState) (hr : HdrResult) (h : headerOf cfg st = .ok hr)
    (hte : chunked hr.entries = true) : contentLength hr.entries = none := by
  unfold headerOf at h
  split at h
  · -- the TE branch of `finish` deletes every Content-Length entry
    rw [parseHeader_eq] at h
    cases hraw : rawEntries ⟨cfg.relaxed, .request, false⟩ st.mime with
    | none => simp [hraw] at h
    | some raw =>
      have hc := C26.content_length_ignored ⟨cfg.relaxed, .request, false⟩ st.mime hr raw (by rw [parseHeader_eq]; exact h) hraw
      by_cases ht : hasTe raw = true
      · exact (hc (Or.inr ht)).1
      · -- no Transfer-Encoding among the scanned entries: then none among the stored ones either
        exfalso
        simp only [hraw] at h
        cases hfold : clFold cfg.relaxed [] {} raw with
        | none => simp [hfold] at h
        | some p =>
          obtain ⟨es, cl⟩ := p
          simp only [hfold] at h
          have hes := finish_te _ es cl hr h (by simpa [chunked, hasId, isTe] using hte)
          obtain ⟨_, _, hnon, _, _⟩ := clFold_spec cfg.relaxed raw [] {} [] es cl (shape_init cfg.relaxed) hfold
          rw [any_te_filter, hnon] at hes
          simp only [List.filter_nil, List.nil_append] at hes
          rw [← any_te_filter] at hes
          exact ht (by simpa [hasTe, isTe] using hes)
  · simp only [Outcome.ok.injEq] at h
    subst h
    simp [chunked, hasId] at hte

/-! ### what goes upstream -/

theorem filterMap_copy_true (es : List Entry) : es.filterMap (copyFraming true) = [] := by
  induction es with
  | nil => rfl
  | cons e r ih =>
    have : copyFraming true e = none := by
      unfold copyFraming
      by_cases h1 : (e.id == idTransferEncoding) = true
      · simp [h1]
      · by_cases h2 : (e.id == idContentLength) = true <;> simp [h1, h2]
    simp [this, ih]

theorem filterMap_copy_false (es : List Entry) : es.filterMap (copyFraming false) = es.filter isCl := by
  induction es with
  | nil => rfl
  | cons e r ih =>
    by_cases h2 : (e.id == idContentLength) = true
    · have h1 : (e.id == idTransferEncoding) = false := by
        have e2 : e.id = idContentLength := by simpa using h2
        rw [e2]
        have := te_ne_cl
        cases hx : idContentLength == idTransferEncoding
        · rfl
        · have e3 : idContentLength = idTransferEncoding := by simpa using hx
          rw [e3] at this
          simp at this
      have : copyFraming false e = some e := by simp [copyFraming, h1, h2]
      simp [this, ih, isCl, h2]
    · have : copyFraming false e = none := by
        unfold copyFraming
        by_cases h1 : (e.id == idTransferEncoding) = true <;> simp [h1, h2]
      simp [this, ih, isCl, h2]

/-- the framing fields written upstream for an accepted head -/
theorem forwarded_framing_of_head {cfg : Cfg} {url : Bytes → Bytes → Option UrlView} {buf rest : Bytes} {es : List Entry}
    {cl : Int} {vmaj vmin : Nat} {m u : Bytes} {keep : Bool} (h : head cfg url buf = .ok rest es cl vmaj vmin m u keep) :
    (chunked es = true →
      forwardedFraming es (chunkedRequest (bodyKind es cl) cl) = [⟨idTransferEncoding, nameOf idTransferEncoding, chunkedToken⟩]) ∧
    (chunked es = false →
      forwardedFraming es (chunkedRequest (bodyKind es cl) cl) = es.filter isCl ∧ (es.filter isCl).length ≤ 1 ∧
      ∀ e ∈ es.filter isCl, ∃ n : Nat, cl = (n : Int) ∧ decimalValue (strip e.value) = some n) := by
  obtain ⟨_, _, _, hv, _, _, _, hr, hhdr, rfl, hcl, _⟩ := head_ok_inv h
  constructor
  · intro hte
    -- Transfer-Encoding present: the parser deleted Content-Length, so content_length = -1 and Squid chunks upstream
    have hv1 : vmaj ≥ 1 := by
      by_cases hge : vmaj ≥ 1
      · exact hge
      · exfalso
        unfold headerOf at hhdr
        rw [← hv] at hhdr
        simp only [hge, false_and, if_false, Outcome.ok.injEq] at hhdr
        subst hhdr
        simp [chunked, hasId] at hte
    have hnone := headerOf_te_no_cl cfg _ hr hhdr hte
    have hneg : cl = -1 := by
      rw [hcl, if_pos hv1, getInt64_cl_eq, hnone]; rfl
    have hk : bodyKind hr.entries cl = .chunkedBody := by simp [bodyKind, hte]
    have hreq : chunkedRequest (bodyKind hr.entries cl) cl = true := by
      rw [hk, hneg]; rfl
    rw [hreq]
    simp [forwardedFraming, filterMap_copy_true]
  · intro hte
    have hreq : chunkedRequest (bodyKind hr.entries cl) cl = false := by
      unfold bodyKind
      simp only [hte, Bool.false_eq_true, if_false]
      split
      · rename_i hpos
        simp only [chunkedRequest]
        exact decide_eq_false (by omega)
      · rfl
    obtain ⟨hle, hall⟩ := headerOf_cl cfg _ hr hhdr
    refine ⟨by simp [forwardedFraming, hreq, filterMap_copy_false], hle, ?_⟩
    intro e he
    simp only [List.mem_filter] at he
    obtain ⟨n, hn, hd⟩ := hall e he.1 (by simpa [isCl] using he.2)
    refine ⟨n, ?_, hd⟩
    have hv1 : vmaj ≥ 1 := by
      by_cases hge : vmaj ≥ 1
      · exact hge
      · exfalso
        unfold headerOf at hhdr
        rw [← hv] at hhdr
        simp only [hge, false_and, if_false, Outcome.ok.injEq] at hhdr
        subst hhdr
        simp at he
    rw [hcl, if_pos hv1, getInt64_cl_eq, hn]; rfl
