/-
C03: what the chunked decoder hands back (`remaining()`) is a suffix of what it was given, for every input.
Function by function over the C24 model (`Chunked/Tok.lean`, `Chunked/Decoder.lean`, the unlimited-space loop of
`Chunked/LoopU.lean`/`LoopExt.lean`), then through `feed_obs` for the caller's side.
-/
import SquidModel.Chunked.FeedLemmas

namespace SquidModel.Chunked
open SquidModel SquidModel.Gen

theorem skipAll_suffix (cs : CharSet) (s : Bytes) : skipAll cs s <:+ s := List.dropWhile_suffix _

theorem bws_ok_suffix {cs : CharSet} {s r : Bytes} (h : bws cs s = .ok r) : r <:+ s := by
  unfold bws at h
  split at h
  · simp at h
  · simp only [Res.ok.injEq] at h; subst h; exact skipAll_suffix cs s

theorem prefixReq_ok_suffix {cs : CharSet} {rej : Rej} {s r : Bytes} (h : prefixReq cs rej s = .ok r) : r <:+ s := by
  unfold prefixReq at h
  split at h
  · simp at h
  · split at h
    · simp at h
    · split at h
      · simp at h
      · simp only [Res.ok.injEq] at h; subst h; exact skipAll_suffix cs _

theorem skipCrlf_ok_suffix {rej : Rej} {s r : Bytes} (h : skipCrlf rej s = .ok r) : r <:+ s := by
  rw [skipCrlf_ok_iff] at h
  subst h
  exact (List.suffix_cons _ _).trans (List.suffix_cons _ _)

theorem int64Loop_suffix : ∀ (s : Bytes) (any : Int) (acc : Nat), (int64Loop s any acc).2.2 <:+ s := by
  intro s
  induction s with
  | nil => intro any acc; simp [int64Loop]
  | cons b r ih =>
    intro any acc
    simp only [int64Loop]
    split
    · exact List.suffix_refl _
    · split
      · exact (ih _ _).trans (List.suffix_cons _ _)
      · exact (ih _ _).trans (List.suffix_cons _ _)

theorem int64_suffix {s rest : Bytes} {v : Nat} (h : int64 s = some (v, rest)) : rest <:+ s := by
  unfold int64 at h
  split at h
  · simp at h
  · simp at h
    obtain ⟨_, _, _, _, hr⟩ := h
    rw [← hr]
    refine (int64Loop_suffix _ 0 0).trans ?_
    split
    · split
      · exact (List.suffix_cons _ _).trans (List.suffix_cons _ _)
      · exact List.suffix_refl _
    · exact List.suffix_refl _

theorem parseChunkSize_ok_suffix {s rest : Bytes} {size : Nat} (h : parseChunkSize s = .ok size rest) : rest <:+ s := by
  unfold parseChunkSize at h
  split at h
  · simp at h
  · split at h
    · rename_i sz r hi
      split at h
      · simp only [SzRes.ok.injEq] at h
        obtain ⟨_, rfl⟩ := h
        exact int64_suffix hi
      · simp at h
    · split at h <;> simp at h

theorem quotedAux_ok_suffix : ∀ (s : Bytes) (esc : Bool) (r : Bytes), quotedAux esc s = .ok r → r <:+ s := by
  intro s
  induction s with
  | nil => intro esc r h; cases esc <;> simp [quotedAux] at h
  | cons b t ih =>
    intro esc r h
    cases esc with
    | true =>
      simp only [quotedAux] at h
      split at h
      · exact (ih _ _ h).trans (List.suffix_cons _ _)
      · simp at h
    | false =>
      simp only [quotedAux] at h
      split at h
      · exact (ih _ _ h).trans (List.suffix_cons _ _)
      · split at h
        · exact (ih _ _ h).trans (List.suffix_cons _ _)
        · split at h
          · simp only [Res.ok.injEq] at h; subst h; exact List.suffix_cons _ _
          · simp at h

theorem tokenOrQuoted_ok_suffix {s r : Bytes} (h : tokenOrQuoted s = .ok r) : r <:+ s := by
  unfold tokenOrQuoted at h
  split at h
  · simp at h
  · split at h
    · exact (quotedAux_ok_suffix _ _ _ h).trans (List.suffix_cons _ _)
    · split at h
      · simp at h
      · split at h
        · simp at h
        · simp only [Res.ok.injEq] at h; subst h; exact skipAll_suffix _ _

theorem oneExt_ok_suffix {relaxed : Bool} {s r : Bytes} (h : oneExt relaxed s = .ok r) : r <:+ s := by
  unfold oneExt at h
  split at h
  · simp at h
  · simp at h
  · rename_i s1 h1
    split at h
    · simp at h
    · simp at h
    · rename_i s2 h2
      have hs2 : s2 <:+ s := (prefixReq_ok_suffix h2).trans (bws_ok_suffix h1)
      split at h
      · simp at h
      · simp at h
      · rename_i s3 h3
        split at h
        · simp only [Res.ok.injEq] at h; subst h; exact hs2
        · rename_i b s4
          have hs4 : s4 <:+ s := ((List.suffix_cons _ _).trans (bws_ok_suffix h3)).trans hs2
          split at h
          · split at h
            · simp at h
            · simp at h
            · rename_i s5 h5
              exact (tokenOrQuoted_ok_suffix h).trans ((bws_ok_suffix h5).trans hs4)
          · simp only [Res.ok.injEq] at h; subst h; exact hs2

theorem chunkExts_suffix {relaxed : Bool} : ∀ (f : Nat) (s c : Bytes),
    (∀ t c', chunkExts relaxed f s c = .done t c' → t <:+ s ∧ (c' = c ∨ c' <:+ s)) ∧
    (∀ c', chunkExts relaxed f s c = .need c' → (c' = c ∨ c' <:+ s)) := by
  intro f
  induction f with
  | zero => intro s c; simp [chunkExts]
  | succ f ih =>
    intro s c
    simp only [chunkExts]
    cases h1 : bws (wsp relaxed) s with
    | need => simp
    | bad r => simp
    | ok s1 =>
      have hs1 := bws_ok_suffix h1
      cases s1 with
      | nil => simp
      | cons b s2 =>
        dsimp only
        by_cases hb : b = 59
        · simp only [hb, if_true]
          cases h2 : oneExt relaxed s2 with
          | need => simp
          | bad r => simp
          | ok s3 =>
            have hs3 : s3 <:+ s := (oneExt_ok_suffix h2).trans ((List.suffix_cons _ _).trans hs1)
            dsimp only
            obtain ⟨ihd, ihn⟩ := ih s3 (if ChunkedSets.extCommit then s3 else c)
            constructor
            · intro t c' hd
              obtain ⟨ht, hc⟩ := ihd t c' hd
              refine ⟨ht.trans hs3, ?_⟩
              rcases hc with hc | hc
              · rw [hc]; split
                · exact Or.inr hs3
                · exact Or.inl rfl
              · exact Or.inr (hc.trans hs3)
            · intro c' hn
              rcases ihn c' hn with hc | hc
              · rw [hc]; split
                · exact Or.inr hs3
                · exact Or.inl rfl
              · exact Or.inr (hc.trans hs3)
        · simp only [hb, if_false]
          constructor
          · intro t c' hd
            simp only [ExtRes.done.injEq] at hd
            obtain ⟨rfl, rfl⟩ := hd
            exact ⟨List.suffix_refl _, Or.inl rfl⟩
          · intro c' hn; simp at hn

theorem metaSuffix_suffix {relaxed : Bool} {s : Bytes} :
    (∀ r, metaSuffix relaxed s = .ok r → r <:+ s) ∧ (∀ c, metaSuffix relaxed s = .need c → c <:+ s) := by
  unfold metaSuffix
  cases h1 : bws ChunkedSets.bwsStrict s with
  | need => simp
  | bad r => simp
  | ok s1 =>
    have hs1 := bws_ok_suffix h1
    dsimp only
    obtain ⟨hd, hn⟩ := chunkExts_suffix (relaxed := relaxed) (s1.length + 1) s1 s
    cases hx : chunkExts relaxed (s1.length + 1) s1 s with
    | bad r => simp [metaPost]
    | need c =>
      simp only [metaPost]
      refine ⟨by simp, ?_⟩
      intro c' hc
      simp only [MetaRes.need.injEq] at hc
      subst hc
      rcases hn c hx with hc | hc
      · rw [hc]; exact List.suffix_refl _
      · exact hc.trans hs1
    | done t c =>
      obtain ⟨ht, hc⟩ := hd t c hx
      simp only [metaPost]
      cases h3 : skipCrlf .extCrlf t with
      | bad r => simp
      | need =>
        refine ⟨by simp, ?_⟩
        intro c' hc'
        simp only [MetaRes.need.injEq] at hc'
        subst hc'
        rcases hc with hc | hc
        · rw [hc]; exact List.suffix_refl _
        · exact hc.trans hs1
      | ok s3 =>
        refine ⟨?_, by simp⟩
        intro r hr
        simp only [MetaRes.ok.injEq] at hr
        subst hr
        exact (skipCrlf_ok_suffix h3).trans (ht.trans hs1)

/-- `c'` continues on a suffix of what `c` held -/
def Suf (c c' : Cfg) : Prop := c'.buf <:+ c.buf

theorem Suf.refl (c : Cfg) : Suf c c := List.suffix_refl _
theorem Suf.trans {a b c : Cfg} (h1 : Suf a b) (h2 : Suf b c) : Suf a c := List.IsSuffix.trans h2 h1

/-- the result of a conditional statement of the loop body continues on a suffix -/
def CtlSuf (c : Cfg) : Ctl → Prop
  | .next c' => Suf c c'
  | .retFalse c' => Suf c c'
  | .threw _ _ => True

def IterSuf (c : Cfg) : Iter → Prop
  | .again c' => Suf c c'
  | .ret _ c' => Suf c c'
  | .threw _ _ => True

theorem phaseExt_suf (relaxed : Bool) (c : Cfg) : CtlSuf c (phaseExt relaxed c) := by
  unfold phaseExt
  split
  · obtain ⟨hok, hneed⟩ := metaSuffix_suffix (relaxed := relaxed) (s := c.buf)
    cases h : metaSuffix relaxed c.buf with
    | ok rest => exact hok rest h
    | need cm => exact hneed cm h
    | bad r => trivial
  · exact Suf.refl c

theorem chunkEnd_suf (c : Cfg) : CtlSuf c (chunkEnd c) := by
  unfold chunkEnd
  cases h : skipCrlf .chunkCrlf c.buf with
  | ok rest => exact skipCrlf_ok_suffix h
  | need => exact Suf.refl c
  | bad r => trivial

theorem chunkCopy_suf (c : Cfg) (k : Nat) : Suf c (chunkCopy c k) := List.drop_suffix _ _

theorem CtlSuf.of_suf {a b : Cfg} {x : Ctl} (h : Suf a b) (hx : CtlSuf b x) : CtlSuf a x := by
  cases x with
  | next c' => exact Suf.trans h hx
  | retFalse c' => exact Suf.trans h hx
  | threw _ _ => trivial

theorem phaseChunkU_suf (c : Cfg) : CtlSuf c (phaseChunkU c) := by
  unfold phaseChunkU
  split
  · dsimp only
    split
    · split
      · exact CtlSuf.of_suf (chunkCopy_suf c _) (chunkEnd_suf _)
      · exact chunkCopy_suf c _
    · split
      · exact chunkEnd_suf c
      · exact Suf.refl c
  · exact Suf.refl c

theorem phaseMime_suf (c : Cfg) : CtlSuf c (phaseMime c) := by
  unfold phaseMime
  split
  · dsimp only
    split
    · split
      · exact List.drop_suffix _ _
      · exact List.drop_suffix _ _
    · split
      · exact Suf.refl c
      · exact Suf.refl c
  · exact Suf.refl c

theorem szCheck_suf (c : Cfg) : IterSuf c (szCheck c) := by
  unfold szCheck
  split
  · cases h : parseChunkSize c.buf with
    | ok size rest => exact parseChunkSize_ok_suffix h
    | needMore => exact Suf.refl c
    | bad r => trivial
  · exact Suf.refl c

theorem IterSuf.of_suf {a b : Cfg} {x : Iter} (h : Suf a b) (hx : IterSuf b x) : IterSuf a x := by
  cases x with
  | again c' => exact Suf.trans h hx
  | ret _ c' => exact Suf.trans h hx
  | threw _ _ => trivial

theorem andThen_suf {c : Cfg} {x : Ctl} {k : Cfg → Iter} (hx : CtlSuf c x) (hk : ∀ c', IterSuf c' (k c')) :
    IterSuf c (x.andThen k) := by
  cases x with
  | next c' => exact IterSuf.of_suf hx (hk c')
  | retFalse c' => exact hx
  | threw _ _ => trivial

theorem iterU_suf (relaxed : Bool) (c : Cfg) : IterSuf c (iterU relaxed c) :=
  andThen_suf (phaseExt_suf relaxed c) fun c1 =>
    andThen_suf (phaseChunkU_suf c1) fun c2 =>
      andThen_suf (phaseMime_suf c2) szCheck_suf

theorem parseLoopU_suf (relaxed : Bool) : ∀ (f : Nat) (c : Cfg) (d : Bool) (c' : Cfg),
    parseLoopU relaxed f c = .ret d c' → c'.buf <:+ c.buf := by
  intro f
  induction f with
  | zero => intro c d c' h; simp [parseLoopU] at h
  | succ f ih =>
    intro c d c' h
    simp only [parseLoopU] at h
    have hi := iterU_suf relaxed c
    cases hx : iterU relaxed c with
    | again c1 =>
      rw [hx] at h hi
      exact (ih c1 d c' h).trans hi
    | ret d1 c1 =>
      rw [hx] at h hi
      simp only [Outcome.ret.injEq] at h
      obtain ⟨_, rfl⟩ := h
      exact hi
    | threw r o => rw [hx] at h; simp at h

theorem parseU_suf {relaxed : Bool} {st : St} {buf : Bytes} {d : Bool} {c : Cfg}
    (h : parseU relaxed st buf = .ret d c) : c.buf <:+ buf := by
  unfold parseU at h
  split at h
  · simp only [Outcome.ret.injEq] at h
    obtain ⟨_, rfl⟩ := h
    exact List.suffix_refl _
  · exact parseLoopU_suf relaxed _ _ d c h

/-- the caller's side: after one segment on a fresh decoder, what is still unparsed is a suffix of the segment
(whenever the decoder did not reject) -/
theorem feed_init_suffix (relaxed : Bool) (capOf : Nat → Nat) (hpos : ∀ i, 0 < capOf i) (seg : Bytes)
    (hv : ∀ e, (feed relaxed capOf Run.init seg).verdict ≠ .reject e) :
    (feed relaxed capOf Run.init seg).inBuf <:+ seg := by
  have hO := feed_obs relaxed capOf hpos Run.init rfl seg
  simp only [Run.init, List.nil_append] at hO
  cases hp : parseU relaxed St.init seg with
  | ret d c =>
    have hO' : (feed relaxed capOf Run.init seg).obs = obsOf [] (.ret d c) := by
      rw [← hp]; exact hO
    obtain ⟨_, h2, _, _⟩ := obs_ret hO'
    rw [h2]
    exact parseU_suf hp
  | threw e o =>
    have hO' : (feed relaxed capOf Run.init seg).obs = obsOf [] (.threw e o) := by
      rw [← hp]; exact hO
    exact absurd (obs_threw hO').2 (hv e)

end SquidModel.Chunked
