/-
C03: where the header section ends. `headersEnd` (src/mime_header.cc, the three-state scanner the request parser and the
chunked decoder use) finds exactly the end of the *first empty line* of the block, lines being what precedes each LF and
an empty line being `LF` or `CR LF` at the start of a line — the reading of RFC 9112 2.2 (bare LF tolerated as a line
terminator). The specification `firstEmptyLine` below cuts lines; it shares nothing with the state machine.
-/
import SquidModel.Http1.Request

namespace SquidModel.Smuggle
open SquidModel SquidModel.Http1

/-- the first line of `s` including its LF, and what follows; `none` when `s` has no LF -/
def cutLine : Bytes → Option (Bytes × Bytes)
  | [] => none
  | c :: r =>
    if c = 10 then some ([10], r)
    else match cutLine r with
      | none => none
      | some (l, rest) => some (c :: l, rest)

/-- an empty line: nothing, or a lone CR, before the LF -/
def isEmptyLine (l : Bytes) : Bool := l == [10] || l == [13, 10]

/-- number of bytes up to and including the first empty line (fuel: one unit per line) -/
def firstEmptyLine : Nat → Bytes → Option Nat
  | 0, _ => none
  | f + 1, s =>
    match cutLine s with
    | none => none
    | some (l, rest) =>
      if isEmptyLine l then some l.length
      else (firstEmptyLine f rest).map (· + l.length)

theorem cutLine_length {s l rest : Bytes} (h : cutLine s = some (l, rest)) : l.length + rest.length = s.length ∧ 0 < l.length := by
  induction s generalizing l rest with
  | nil => simp [cutLine] at h
  | cons c r ih =>
    simp only [cutLine] at h
    split at h
    · simp only [Option.some.injEq, Prod.mk.injEq] at h
      obtain ⟨rfl, rfl⟩ := h
      simp only [List.length_cons, List.length_nil]
      omega
    · split at h
      · simp at h
      · rename_i l' rest' hc
        simp only [Option.some.injEq, Prod.mk.injEq] at h
        obtain ⟨rfl, rfl⟩ := h
        have := ih hc
        simp only [List.length_cons]
        omega

/-- the position component of `headersEndFrom`, as a recursion of its own -/
def hEnd : HS → Bytes → Option Nat
  | _, [] => none
  | .s0, c :: r => (hEnd (if c = 10 then .s1 else .s0) r).map (· + 1)
  | .s1, c :: r =>
    if c = 13 then (hEnd .s2 r).map (· + 1)
    else if c = 10 then some 1
    else (hEnd .s0 r).map (· + 1)
  | .s2, c :: r => if c = 10 then some 1 else (hEnd .s0 r).map (· + 1)

theorem headersEndFrom_pos (st : HS) (s : Bytes) : (headersEndFrom st s).map (·.1) = hEnd st s := by
  induction s generalizing st with
  | nil => cases st <;> rfl
  | cons c r ih =>
    cases st with
    | s0 =>
      simp only [headersEndFrom, hsStep, hEnd]
      rw [← ih]
      cases headersEndFrom (if c = 10 then HS.s1 else HS.s0) r <;> rfl
    | s1 =>
      simp only [headersEndFrom, hsStep, hEnd]
      by_cases h13 : c = 13
      · simp only [h13, if_true]
        rw [← ih]
        cases headersEndFrom HS.s2 r <;> rfl
      · simp only [h13, if_false]
        by_cases h10 : c = 10
        · simp [h10]
        · simp only [h10, if_false]
          rw [← ih]
          by_cases hw : c = 32 ∨ c = 9
          · simp only [hw, if_true]
            cases headersEndFrom HS.s0 r <;> rfl
          · simp only [hw, if_false]
            cases headersEndFrom HS.s0 r <;> rfl
    | s2 =>
      simp only [headersEndFrom, hsStep, hEnd]
      by_cases h10 : c = 10
      · simp [h10]
      · simp only [h10, if_false]
        rw [← ih]
        cases headersEndFrom HS.s0 r <;> rfl

theorem map_add_add (o : Option Nat) (a b : Nat) : (o.map (· + a)).map (· + b) = o.map (· + (a + b)) := by
  cases o with
  | none => rfl
  | some x => simp [Nat.add_assoc]

/-- the scanner in the middle of a line runs to the line's LF and is at a line start afterwards -/
theorem hEnd_s0 (s : Bytes) :
    hEnd .s0 s = match cutLine s with
      | none => none
      | some (l, rest) => (hEnd .s1 rest).map (· + l.length) := by
  induction s with
  | nil => simp [hEnd, cutLine]
  | cons c r ih =>
    simp only [hEnd, cutLine]
    by_cases hc : c = 10
    · simp [hc]
    · simp only [hc, if_false]
      rw [ih]
      cases hcut : cutLine r with
      | none => rfl
      | some p =>
        obtain ⟨l, rest⟩ := p
        simp only [List.length_cons]
        exact map_add_add _ _ _

/-- **`headersEnd` finds the first empty line** (for every block; `f` is any fuel above the length) -/
theorem hEnd_s1_eq_firstEmptyLine (f : Nat) : ∀ s : Bytes, s.length < f → hEnd .s1 s = firstEmptyLine f s := by
  induction f with
  | zero => intro s hf; omega
  | succ f ih =>
    intro s hf
    cases s with
    | nil => simp [hEnd, firstEmptyLine, cutLine]
    | cons c r =>
      simp only [firstEmptyLine]
      by_cases h10 : c = 10
      · subst h10
        simp [hEnd, cutLine, isEmptyLine]
      · by_cases h13 : c = 13
        · subst h13
          cases r with
          | nil => simp [hEnd, cutLine]
          | cons d r2 =>
            by_cases hd : d = 10
            · subst hd
              simp [hEnd, cutLine, isEmptyLine]
            · simp only [hEnd, cutLine, hd, if_false, h10, if_true]
              rw [hEnd_s0 r2]
              cases hcut : cutLine r2 with
              | none => rfl
              | some p =>
                obtain ⟨l, rest⟩ := p
                have hlen := cutLine_length hcut
                have hne : isEmptyLine (13 :: d :: l) = false := by
                  simp only [isEmptyLine, Bool.or_eq_false_iff]
                  refine ⟨by simp, ?_⟩
                  have : (13 :: d :: l) ≠ [13, 10] := by
                    intro hh
                    simp only [List.cons.injEq] at hh
                    exact hd hh.2.1
                  simpa using this
                simp only [hne, Bool.false_eq_true, if_false]
                rw [← ih rest (by simp only [List.length_cons] at hf; omega), map_add_add, map_add_add]
                simp only [List.length_cons]
        · simp only [hEnd, cutLine, h10, h13, if_false]
          rw [hEnd_s0 r]
          cases hcut : cutLine r with
          | none => rfl
          | some p =>
            obtain ⟨l, rest⟩ := p
            have hlen := cutLine_length hcut
            have hne : isEmptyLine (c :: l) = false := by
              simp only [isEmptyLine, Bool.or_eq_false_iff]
              constructor
              · have : (c :: l) ≠ [10] := by
                  intro hh
                  simp only [List.cons.injEq] at hh
                  exact h10 hh.1
                simpa using this
              · have : (c :: l) ≠ [13, 10] := by
                  intro hh
                  simp only [List.cons.injEq] at hh
                  exact h13 hh.1
                simpa using this
            simp only [hne, Bool.false_eq_true, if_false]
            rw [← ih rest (by simp only [List.length_cons] at hf; omega), map_add_add]
            simp only [List.length_cons]

theorem headersEnd_eq_firstEmptyLine (s : Bytes) :
    (headersEnd s).map (·.1) = firstEmptyLine (s.length + 1) s := by
  unfold headersEnd
  rw [headersEndFrom_pos]
  exact hEnd_s1_eq_firstEmptyLine _ s (by omega)

end SquidModel.Smuggle
