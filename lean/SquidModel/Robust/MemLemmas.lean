/-
C09, index level: no read outside the content and no unsigned wrap in the buffer primitives of Robust/Mem.lean, for every
input; and the primitives compute exactly the list functions that the parser models (Http1.Request, Http1.Tok) are written with.
-/
import SquidModel.Robust.Mem

namespace SquidModel.Robust
open SquidModel

/-- the computation ends without a fault -/
def Safe {α : Type} (m : M α) : Prop := ∃ v, m = .ok v

theorem usub_le {a b : Nat} (h : b ≤ a) : usub a b = .ok (a - b) := by simp [usub, h]

theorem takeWhile_length_le (p : UInt8 → Bool) (l : Bytes) : (l.takeWhile p).length ≤ l.length := by
  induction l with
  | nil => simp
  | cons a t ih => simp only [List.takeWhile_cons]; split <;> simp <;> omega

/-! ### headersEnd -/

theorem heLoop_safe (mime : Bytes) (l : Nat) (hl : l ≤ mime.length) :
    ∀ fuel e st f, Safe (heLoop mime l fuel e st f) := by
  intro fuel
  induction fuel with
  | zero => intro e st f; exact ⟨_, rfl⟩
  | succ n ih =>
    intro e st f
    cases st with
    | none => exact ⟨_, rfl⟩
    | some hs =>
      by_cases he : e < l
      · have : e < mime.length := by omega
        simp only [heLoop, he, if_true, rd_lt this]
        exact ih _ _ _
      · simp only [heLoop, he, if_false]; exact ⟨_, rfl⟩

theorem headersEndIdx_safe (mime : Bytes) (l : Nat) (hl : l ≤ mime.length) : Safe (headersEndIdx mime l) := by
  obtain ⟨⟨e, st, f⟩, h⟩ := heLoop_safe mime l hl l 0 (some .s1) false
  simp only [headersEndIdx, h]; exact ⟨_, rfl⟩

theorem hsStep_none_flag {hs : Http1.HS} {c : UInt8} {b : Bool} (h : Http1.hsStep hs c = (none, b)) : b = false := by
  cases hs <;> simp only [Http1.hsStep] at h <;> (repeat' split at h) <;> simp_all

theorem heLoop_none (mime : Bytes) (l fuel e : Nat) (f : Bool) : heLoop mime l fuel e none f = .ok (e, none, f) := by
  cases fuel <;> rfl

/-- the index loop against the list-level scanner of the C21 model -/
theorem heLoop_spec (mime : Bytes) : ∀ fuel e hs f, e + fuel = mime.length →
    ∀ r, heLoop mime mime.length fuel e (some hs) f = .ok r →
      match Http1.headersEndFrom hs (mime.drop e) with
      | some (n, o) => r = (e + n, none, f || o)
      | none => r.2.1 ≠ none := by
  intro fuel
  induction fuel with
  | zero =>
    intro e hs f he r hr
    have : mime.drop e = [] := by apply List.drop_eq_nil_of_le; omega
    simp only [this, Http1.headersEndFrom]
    simp only [heLoop] at hr
    cases hr; simp
  | succ n ih =>
    intro e hs f he r hr
    have hlt : e < mime.length := by omega
    have hd : mime.drop e = mime[e] :: mime.drop (e + 1) := List.drop_eq_getElem_cons hlt
    simp only [heLoop, hlt, if_true, rd_lt hlt] at hr
    rw [hd]
    simp only [Http1.headersEndFrom]
    cases hst : Http1.hsStep hs mime[e] with
    | mk st' b =>
      rw [hst] at hr
      cases st' with
      | none =>
        have hb := hsStep_none_flag hst
        subst hb
        simp only [heLoop_none] at hr
        cases hr
        simp
      | some hs' =>
        have := ih (e + 1) hs' (f || b) (by omega) r hr
        simp only
        cases hh : Http1.headersEndFrom hs' (mime.drop (e + 1)) with
        | none => simpa [hh] using this
        | some p =>
          obtain ⟨n', o⟩ := p
          simp only [hh] at this
          simp only [Option.map_some]
          subst this
          simp only [Prod.mk.injEq, true_and]
          constructor
          · omega
          · cases f <;> cases b <;> cases o <;> rfl

/-- `headersEnd(buf.rawContent(), buf.length(), fold)` = the list-level `Http1.headersEnd` (size, and the flag when found) -/
theorem headersEndIdx_eq (mime : Bytes) :
    ∃ n f, headersEndIdx mime mime.length = .ok (n, f) ∧
      match Http1.headersEnd mime with
      | some (n', o) => n = n' ∧ f = o
      | none => n = 0 := by
  obtain ⟨⟨e, st, f⟩, h⟩ := heLoop_safe mime mime.length (Nat.le_refl _) mime.length 0 (some .s1) false
  have hs := heLoop_spec mime mime.length 0 .s1 false (by omega) _ h
  refine ⟨if st = none then e else 0, f, by simp only [headersEndIdx, h], ?_⟩
  simp only [Http1.headersEnd]
  simp only [List.drop_zero] at hs
  cases hh : Http1.headersEndFrom .s1 mime with
  | none =>
    simp only [hh] at hs
    simp only
    simp at hs
    simp [hs]
  | some p =>
    obtain ⟨n', o⟩ := p
    simp only [hh] at hs
    cases hs
    simp

/-! ### searches -/

theorem ffnLoop_safe (set : CharSet) (s : Bytes) : ∀ fuel cur, Safe (ffnLoop set s fuel cur) := by
  intro fuel
  induction fuel with
  | zero => intro cur; exact ⟨_, rfl⟩
  | succ n ih =>
    intro cur
    by_cases h : cur < s.length
    · simp only [ffnLoop, h, if_true, rd_lt h]
      split
      · exact ⟨_, rfl⟩
      · exact ih _
    · simp only [ffnLoop, h, if_false]; exact ⟨_, rfl⟩

theorem findFirstNotOf_safe (set : CharSet) (s : Bytes) (p : Option Nat) : Safe (findFirstNotOf set s p) := by
  cases p with
  | none => exact ⟨_, rfl⟩
  | some p =>
    simp only [findFirstNotOf]
    split
    · exact ⟨_, rfl⟩
    · exact ffnLoop_safe _ _ _ _

/-- the forward scan finds the end of the longest run of members -/
theorem ffnLoop_spec (set : CharSet) (s : Bytes) : ∀ fuel cur, cur + fuel = s.length →
    ffnLoop set s fuel cur =
      .ok (if ((s.drop cur).takeWhile set.mem).length = fuel then none
           else some (cur + ((s.drop cur).takeWhile set.mem).length)) := by
  intro fuel
  induction fuel with
  | zero =>
    intro cur h
    have : s.drop cur = [] := by apply List.drop_eq_nil_of_le; omega
    simp [ffnLoop, this]
  | succ n ih =>
    intro cur h
    have hlt : cur < s.length := by omega
    have hd : s.drop cur = s[cur] :: s.drop (cur + 1) := List.drop_eq_getElem_cons hlt
    simp only [ffnLoop, hlt, if_true, rd_lt hlt, hd, List.takeWhile_cons]
    cases hm : set.mem s[cur] with
    | false => simp
    | true =>
      simp only [Bool.not_true, Bool.false_eq_true, if_false, if_true, List.length_cons]
      rw [ih (cur + 1) (by omega)]
      have hle : ((s.drop (cur + 1)).takeWhile set.mem).length ≤ n := by
        have := takeWhile_length_le set.mem (s.drop (cur + 1))
        simp only [List.length_drop] at this
        omega
      by_cases hq : ((s.drop (cur + 1)).takeWhile set.mem).length = n
      · simp [hq]
      · simp only [hq, if_false, Nat.add_right_cancel_iff]
        congr 1
        simp only [Option.some.injEq]
        omega

theorem findFirstNotOf_zero (set : CharSet) (s : Bytes) :
    findFirstNotOf set s (some 0) =
      .ok (if (s.takeWhile set.mem).length = s.length then none else some (s.takeWhile set.mem).length) := by
  simp only [findFirstNotOf]
  by_cases h : s.length = 0
  · have : s = [] := List.eq_nil_of_length_eq_zero h
    subst this; simp
  · have : ¬ (0 ≥ s.length) := by omega
    simp only [this, if_false, Nat.sub_zero]
    rw [ffnLoop_spec set s s.length 0 (by omega)]
    simp

theorem flnLoop_safe (set : CharSet) (s : Bytes) : ∀ k, k ≤ s.length → Safe (flnLoop set s k) := by
  intro k
  induction k with
  | zero => intro _; exact ⟨_, rfl⟩
  | succ n ih =>
    intro h
    have hlt : n < s.length := by omega
    simp only [flnLoop, rd_lt hlt]
    split
    · exact ⟨_, rfl⟩
    · exact ih (by omega)

theorem flnLoop_lt (set : CharSet) (s : Bytes) : ∀ k, k ≤ s.length → ∀ e, flnLoop set s k = .ok (some e) → e < k := by
  intro k
  induction k with
  | zero => intro _ e h; simp [flnLoop] at h
  | succ n ih =>
    intro h e he
    have hlt : n < s.length := by omega
    simp only [flnLoop, rd_lt hlt] at he
    split at he
    · cases he; omega
    · have := ih (by omega) e he; omega

theorem findLastNotOf_safe (set : CharSet) (s : Bytes) (p : Option Nat) : Safe (findLastNotOf set s p) := by
  simp only [findLastNotOf]
  split
  · exact ⟨_, rfl⟩
  · rename_i hne
    have hpos : 1 ≤ s.length := by
      cases s with
      | nil => simp at hne
      | cons a t => simp
    simp only [usub_le hpos]
    apply flnLoop_safe
    cases p with
    | none => simp only; omega
    | some p => simp only; split <;> omega

theorem findLastNotOf_lt (set : CharSet) (s : Bytes) (e : Nat) (h : findLastNotOf set s none = .ok (some e)) : e < s.length := by
  simp only [findLastNotOf] at h
  split at h
  · cases h
  · rename_i hne
    have hpos : 1 ≤ s.length := by
      cases s with
      | nil => simp at hne
      | cons a t => simp
    simp only [usub_le hpos] at h
    have := flnLoop_lt set s (s.length - 1 + 1) (by omega) e h
    omega

theorem memEq_safe (a b : Bytes) : ∀ n i, i + n ≤ a.length → i + n ≤ b.length → Safe (memEq a b n i) := by
  intro n
  induction n with
  | zero => intro i _ _; exact ⟨_, rfl⟩
  | succ k ih =>
    intro i ha hb
    have h1 : i < a.length := by omega
    have h2 : i < b.length := by omega
    simp only [memEq, rd_lt h1, rd_lt h2]
    split
    · exact ih (i + 1) (by omega) (by omega)
    · exact ⟨_, rfl⟩

theorem startsWith_safe (s t : Bytes) : Safe (startsWith s t) := by
  simp only [startsWith]
  split
  · exact ⟨_, rfl⟩
  · exact memEq_safe _ _ _ _ (by omega) (by omega)

/-! ### Tokenizer -/

theorem consumeTrailing_safe (s : Bytes) (k : Nat) (h : k ≤ s.length) : Safe (consumeTrailing s (some k)) := by
  simp only [consumeTrailing, usub_le h]; exact ⟨_, rfl⟩

theorem tokPrefix_safe (set : CharSet) (limit : Option Nat) (s : Bytes) : Safe (tokPrefix set limit s) := by
  simp only [tokPrefix]
  obtain ⟨v, hv⟩ := findFirstNotOf_safe set (window limit s) (some 0)
  rw [hv]
  split
  · rename_i h; cases h
  · exact ⟨_, rfl⟩
  · split <;> exact ⟨_, rfl⟩
  · exact ⟨_, rfl⟩

theorem tokSkipAll_safe (set : CharSet) (s : Bytes) : Safe (tokSkipAll set s) := by
  simp only [tokSkipAll]
  obtain ⟨v, hv⟩ := findFirstNotOf_safe set s (some 0)
  rw [hv]
  split
  · rename_i h; cases h
  · exact ⟨_, rfl⟩
  · exact ⟨_, rfl⟩

theorem tokSkipOne_safe (set : CharSet) (s : Bytes) : Safe (tokSkipOne set s) := by
  cases s with
  | nil => exact ⟨_, rfl⟩
  | cons a t =>
    simp only [tokSkipOne, List.isEmpty_cons, Bool.false_eq_true, if_false, rd, List.getElem?_cons_zero]
    split <;> exact ⟨_, rfl⟩

theorem tokSkipChar_safe (ch : UInt8) (s : Bytes) : Safe (tokSkipChar ch s) := by
  cases s with
  | nil => exact ⟨_, rfl⟩
  | cons a t =>
    simp only [tokSkipChar, List.isEmpty_cons, Bool.false_eq_true, if_false, rd, List.getElem?_cons_zero]
    split <;> exact ⟨_, rfl⟩

theorem tokSkip_safe (t s : Bytes) : Safe (tokSkip t s) := by
  simp only [tokSkip]
  obtain ⟨v, hv⟩ := startsWith_safe s t
  rw [hv]
  cases v <;> exact ⟨_, rfl⟩

theorem tokSkipOneTrailing_safe (set : CharSet) (s : Bytes) : Safe (tokSkipOneTrailing set s) := by
  simp only [tokSkipOneTrailing]
  split
  · exact ⟨_, rfl⟩
  · rename_i hne
    have hpos : 1 ≤ s.length := by
      cases s with
      | nil => simp at hne
      | cons a t => simp
    have hlt : s.length - 1 < s.length := by omega
    simp only [usub_le hpos, rd_lt hlt]
    split
    · obtain ⟨v, hv⟩ := consumeTrailing_safe s 1 hpos
      rw [hv]; exact ⟨_, rfl⟩
    · exact ⟨_, rfl⟩

theorem tokSkipAllTrailing_safe (set : CharSet) (s : Bytes) : Safe (tokSkipAllTrailing set s) := by
  simp only [tokSkipAllTrailing]
  obtain ⟨v, hv⟩ := findLastNotOf_safe set s none
  rw [hv]
  simp only
  have hle : prefixLenOf v ≤ s.length := by
    cases v with
    | none => simp [prefixLenOf]
    | some e => have := findLastNotOf_lt set s e hv; simp only [prefixLenOf]; omega
  rw [usub_le hle]
  simp only
  split
  · exact ⟨_, rfl⟩
  · obtain ⟨w, hw⟩ := consumeTrailing_safe s (s.length - prefixLenOf v) (by omega)
    rw [hw]; exact ⟨_, rfl⟩

theorem sufLoop_safe (set : CharSet) (span : Bytes) : ∀ k found, k ≤ span.length →
    ∃ r, sufLoop set span k found = .ok r ∧ r ≤ found + k := by
  intro k
  induction k with
  | zero => intro found _; exact ⟨found, rfl, by omega⟩
  | succ n ih =>
    intro found h
    have hlt : n < span.length := by omega
    simp only [sufLoop, rd_lt hlt]
    split
    · obtain ⟨r, hr, hle⟩ := ih (found + 1) (by omega)
      exact ⟨r, hr, by omega⟩
    · exact ⟨found, rfl, by omega⟩

theorem tokSuffix_safe (set : CharSet) (limit : Option Nat) (s : Bytes) : Safe (tokSuffix set limit s) := by
  simp only [tokSuffix]
  have hspan : ∃ span : Bytes, suffixSpan limit s = .ok span ∧ span.length ≤ s.length := by
    cases limit with
    | none => exact ⟨s, rfl, Nat.le_refl _⟩
    | some n =>
      by_cases hn : n < s.length
      · refine ⟨s.drop (s.length - n), ?_, by simp⟩
        simp only [suffixSpan, hn, if_true, usub_le (Nat.le_of_lt hn)]
      · exact ⟨s, by simp only [suffixSpan, hn, if_false], Nat.le_refl _⟩
  obtain ⟨span, hs, hlen⟩ := hspan
  rw [hs]
  simp only
  obtain ⟨r, hr, hle⟩ := sufLoop_safe set span span.length 0 (Nat.le_refl _)
  rw [hr]
  cases r with
  | zero => exact ⟨_, rfl⟩
  | succ m =>
    simp only
    obtain ⟨w, hw⟩ := consumeTrailing_safe s (m + 1) (by omega)
    rw [hw]; exact ⟨_, rfl⟩

theorem tokSkipSuffix_safe (t s : Bytes) : Safe (tokSkipSuffix t s) := by
  simp only [tokSkipSuffix]
  split
  · exact ⟨_, rfl⟩
  · rename_i hge
    have hoff : ∃ off, skipSuffixOffset t s = .ok off := by
      unfold skipSuffixOffset
      split
      · rename_i h; exact ⟨_, usub_le (Nat.le_of_lt h)⟩
      · exact ⟨0, rfl⟩
    obtain ⟨off, ho⟩ := hoff
    rw [ho]
    simp only
    obtain ⟨eq, he⟩ := memEq_safe (s.drop off) t (min (s.drop off).length t.length) 0 (by omega) (by omega)
    rw [he]
    simp only
    split
    · obtain ⟨w, hw⟩ := consumeTrailing_safe s t.length (by omega)
      rw [hw]; exact ⟨_, rfl⟩
    · exact ⟨_, rfl⟩

/-! ### the index-level operations compute the list functions of the parser models -/

theorem take_takeWhile_length (p : UInt8 → Bool) (s : Bytes) : s.take (s.takeWhile p).length = s.takeWhile p := by
  induction s with
  | nil => simp
  | cons a t ih => simp only [List.takeWhile_cons]; split <;> simp [ih]

theorem drop_takeWhile_length (p : UInt8 → Bool) (s : Bytes) : s.drop (s.takeWhile p).length = s.dropWhile p := by
  induction s with
  | nil => simp
  | cons a t ih =>
    simp only [List.takeWhile_cons, List.dropWhile_cons]
    split <;> simp [ih]

theorem takeWhile_full {p : UInt8 → Bool} {s : Bytes} (h : (s.takeWhile p).length = s.length) : s.takeWhile p = s := by
  have := take_takeWhile_length p s
  rw [h, List.take_length] at this
  exact this.symm

/-- `Tokenizer::skipAll` leaves `dropWhile` and reports the length of `takeWhile` -/
theorem tokSkipAll_eq (set : CharSet) (s : Bytes) :
    tokSkipAll set s = .ok ((s.takeWhile set.mem).length, s.dropWhile set.mem) := by
  simp only [tokSkipAll, findFirstNotOf_zero]
  by_cases h : (s.takeWhile set.mem).length = s.length
  · simp only [h, if_true, consume]
    have hd : s.dropWhile set.mem = [] := by
      rw [← drop_takeWhile_length, h]; simp
    simp [hd]
  · simp only [h, if_false]
    generalize hk : (s.takeWhile set.mem).length = k at *
    cases k with
    | zero =>
      have ht : s.takeWhile set.mem = [] := List.eq_nil_of_length_eq_zero hk
      have : s.dropWhile set.mem = s := by rw [← drop_takeWhile_length, hk]; simp
      simp [this]
    | succ k' =>
      simp only [consume]
      have h1 : s.take (k' + 1) = s.takeWhile set.mem := by rw [← hk]; exact take_takeWhile_length _ _
      have h2 : s.drop (k' + 1) = s.dropWhile set.mem := by rw [← hk]; exact drop_takeWhile_length _ _
      simp [h1, h2, hk]

theorem prefixTok_window (p : UInt8 → Bool) (limit : Option Nat) (s : Bytes) :
    Http1.prefixTok p limit s =
      (if ((window limit s).takeWhile p).isEmpty then none
       else some ((window limit s).takeWhile p, s.drop ((window limit s).takeWhile p).length)) := by
  cases limit <;> rfl

/-- `Tokenizer::prefix(token, set, limit)` is `Http1.prefixTok` of the C21/C22 model -/
theorem tokPrefix_eq (set : CharSet) (limit : Option Nat) (s : Bytes) :
    tokPrefix set limit s = .ok (Http1.prefixTok set.mem limit s) := by
  rw [prefixTok_window]
  simp only [tokPrefix, findFirstNotOf_zero]
  generalize hw : window limit s = w
  have hpre : w = s.take w.length := by
    cases limit with
    | none => subst hw; simp [window]
    | some n => subst hw; simp [window]
  by_cases h : (w.takeWhile set.mem).length = w.length
  · -- whole window matched
    simp only [h, if_true]
    rw [takeWhile_full h]
    by_cases hs : s = []
    · subst hs
      have : w = [] := by rw [hpre]; simp
      simp [this]
    · cases limit with
      | none =>
        subst hw
        simp [hs, consume, window]
      | some n =>
        subst hw
        simp only [window]
        by_cases hn : n = 0
        · subst hn; simp
        · have hne : s.take n ≠ [] := by
            cases s with
            | nil => exact absurd rfl hs
            | cons a t => cases n with
              | zero => exact absurd rfl hn
              | succ m => simp
          simp only [List.isEmpty_iff, hs, false_or, Option.some.injEq, hn, if_false, hne, consume]
          simp only [List.length_take]
          congr 2
          simp only [Prod.mk.injEq, true_and]
          by_cases hle : n ≤ s.length
          · rw [Nat.min_eq_left hle]
          · rw [Nat.min_eq_right (by omega)]
            rw [List.drop_of_length_le (by omega), List.drop_of_length_le (by omega)]
  · simp only [h, if_false]
    have htl := takeWhile_length_le set.mem w
    generalize hk : (w.takeWhile set.mem).length = k at *
    cases k with
    | zero =>
      have ht : w.takeWhile set.mem = [] := List.eq_nil_of_length_eq_zero hk
      simp [ht]
    | succ k' =>
      have hne : w.takeWhile set.mem ≠ [] := by
        intro hc; rw [hc] at hk; simp at hk
      simp only [consume, List.isEmpty_iff, hne, if_false]
      have h1 : s.take (k' + 1) = w.takeWhile set.mem := by
        have : w.take (k' + 1) = w.takeWhile set.mem := by rw [← hk]; exact take_takeWhile_length _ _
        have h3 : w.take (k' + 1) = s.take (k' + 1) := by
          conv => lhs; rw [hpre]
          rw [List.take_take]
          congr 1
          omega
        rw [← h3, this]
      simp [h1]

end SquidModel.Robust
