/-
C09, connection level (client side): what one client connection does with an arbitrary byte stream until its first request is
handed on, answered with an error, or the connection is closed — with the `assert`/`Must` statements of the modelled code as
explicit `aborted` outcomes.

  src/servers/Server.cc        Server::doClientRead (mayBufferMoreRequestBytes, `rd.size = maxRequestBufferSize - inBuf.length()`,
                               Comm::OK / ENDFILE / error), Server::readSomeData
  src/client_side.cc           ConnStateData::afterClientRead, parseRequests (`Must(inBuf.length() < Config.maxRequestHeaderSize)`,
                               the half-closed tail), parseHttpRequest (`hp->parse(inBuf); inBuf = hp->remaining()`, needsMoreData,
                               abortRequestParsing + `consumeInput(inBuf.length())`), shouldCloseOnEof, requestTimeout
  src/http/one/RequestParser.cc RequestParser::parse (`assert(aBuf.length() >= remaining().length())`)

The request parser itself is the C21/C22 model (`Http1.parse`), imported read-only. What happens to a request that was handed
on (`Fate.handed`: header parsing, access checks, forwarding, the reply) is outside this model; the end-to-end half of the
check observes that such a connection gets an HTTP response or is closed. Core-only.
-/
import SquidModel.Http1.Request

namespace SquidModel.Robust
open SquidModel SquidModel.Http1

inductive AssertId where
  | parserGrewBuffer     -- RequestParser::parse: assert(aBuf.length() >= remaining().length())
  | inBufBelowLimit      -- ConnStateData::parseRequests: Must(inBuf.length() < Config.maxRequestHeaderSize)
  deriving DecidableEq, Repr

inductive Fate where
  | reading                      -- waiting for more request bytes
  | replied (status : Nat)       -- abortRequestParsing: an error reply is generated, then the connection is closed
  | handed                       -- a parsed request went on to request processing
  | closed                       -- closed without any reply
  | aborted (a : AssertId)       -- a modelled assert/Must fired
  deriving DecidableEq, Repr

structure CCfg where
  p : Http1.Cfg                  -- relaxed_header_parser, request_header_max_size (+ the two source switches of C21)
  bufMax : Nat                   -- client_request_buffer_max_size
  halfClosed : Bool              -- half_closed_clients
  deriving DecidableEq, Repr

structure Conn where
  st : PState := {}              -- the Http1::RequestParser object kept until it is done
  inBuf : Bytes := []
  fate : Fate := .reading
  eofSeen : Bool := false        -- commIsHalfClosed
  deriving DecidableEq, Repr

inductive Ev where
  | data (seg : Bytes)           -- Comm::ReadNow returned OK with these bytes on offer
  | eof                          -- Comm::ENDFILE
  | timeout                      -- ConnStateData::requestTimeout
  | ioError                      -- Comm::COMM_ERROR
  deriving DecidableEq, Repr

/-- `parseHttpRequest` + the `else` branch of the loop body of `parseRequests`, for the request being parsed -/
def parseOne (cfg : CCfg) (c : Conn) : Conn :=
  let st' := Http1.parse cfg.p c.st c.inBuf
  if st'.buf.length > c.inBuf.length then { c with fate := .aborted .parserGrewBuffer }
  else if st'.stage ≠ .done then                                     -- needsMoreData(): return nullptr
    if st'.buf.length < cfg.p.limit then { c with st := st', inBuf := st'.buf }
    else { c with st := st', inBuf := st'.buf, fate := .aborted .inBufBelowLimit }
  else if st'.status = 200 then { c with st := st', inBuf := st'.buf, fate := .handed }
  else { c with st := st', inBuf := [], fate := .replied st'.status }   -- consumeInput(inBuf.length())

/-- `parseRequests`: the loop runs while `!inBuf.isEmpty()`; then the half-closed tail -/
def parseRequests (cfg : CCfg) (c : Conn) : Conn :=
  let c1 := if c.inBuf.isEmpty then c else parseOne cfg c
  if c1.fate = .reading ∧ c1.eofSeen then { c1 with fate := .closed }   -- half-closed and the pipeline is empty
  else c1

/-- one I/O event of the connection -/
def step (cfg : CCfg) (c : Conn) : Ev → Conn
  | .data seg =>
    if c.fate ≠ .reading then c
    else if c.inBuf.length ≥ cfg.bufMax then c                          -- !mayBufferMoreRequestBytes(): return
    else
      let got := seg.take (cfg.bufMax - c.inBuf.length)                 -- rd.size
      if got.isEmpty then c                                             -- Comm::INPROGRESS
      else parseRequests cfg { c with inBuf := c.inBuf ++ got }
  | .eof =>
    if c.fate ≠ .reading then c
    else if c.inBuf.isEmpty ∨ !cfg.halfClosed then { c with fate := .closed }     -- shouldCloseOnEof (pipeline is empty)
    else parseRequests cfg { c with eofSeen := true }
  | .timeout => if c.fate ≠ .reading then c else { c with fate := .closed }
  | .ioError => if c.fate ≠ .reading then c else { c with fate := .closed }

def run (cfg : CCfg) (evs : List Ev) : Conn := evs.foldl (step cfg) {}

/-- the events after which no more request bytes can arrive -/
def Ev.final : Ev → Bool
  | .data _ => false
  | _ => true

end SquidModel.Robust
