/-
C09, connection level: facts about `Http1.parse` (for an arbitrary parser object, i.e. incremental use) that discharge the two
modelled assertions, and the invariant of the client connection loop.
-/
import SquidModel.Robust.Client

namespace SquidModel.Robust
open SquidModel SquidModel.Http1

/-! ### `remaining()` never grows -/

theorem skipGarbage_suffix (s : Bytes) : skipGarbage s <:+ s := by
  fun_induction skipGarbage s with
  | case1 r ih => exact ih.trans (List.suffix_cons _ _)
  | case2 r ih => exact ih.trans ((List.suffix_cons _ _).trans (List.suffix_cons _ _))
  | case3 s _ _ => exact List.suffix_refl _

theorem strip_suffix (cfg : Http1.Cfg) (s : Bytes) : strip cfg s <:+ s := by
  unfold strip
  split
  · exact skipGarbage_suffix s
  · exact List.suffix_refl _

theorem parseFirstLine_ok_suffix {cfg : Http1.Cfg} {buf rest : Bytes} {f : ReqLine}
    (h : parseFirstLine cfg buf = .ok f rest) : rest <:+ buf := by
  unfold parseFirstLine at h
  dsimp only at h
  split at h
  · rename_i r _ hd
    have hs : (10 :: r) <:+ buf := by rw [← hd]; exact List.dropWhile_suffix _
    split at h
    · unfold blame at h; split at h <;> simp at h
    · split at h
      · simp at h
      · simp only [LineRes.ok.injEq] at h
        obtain ⟨_, rfl⟩ := h
        exact (List.suffix_cons _ _).trans hs
  · split at h
    · unfold blame at h; split at h <;> simp at h
    · simp at h

theorem grabMime_suffix {cfg : Http1.Cfg} {fls : Nat} {buf : Bytes} :
    (∀ rest, grabMime cfg fls buf = .tooLarge rest → rest <:+ buf) ∧
    (∀ m rest, grabMime cfg fls buf = .block m rest → rest <:+ buf) := by
  unfold grabMime
  constructor
  · intro rest h
    split at h
    · split at h
      · simp only [MimeRes.tooLarge.injEq] at h; subst h; exact List.drop_suffix _ _
      · simp at h
    · split at h
      · simp only [MimeRes.tooLarge.injEq] at h; subst h; exact List.suffix_refl _
      · simp at h
  · intro m rest h
    split at h
    · split at h
      · simp at h
      · simp only [MimeRes.block.injEq] at h; obtain ⟨_, rfl⟩ := h; exact List.drop_suffix _ _
    · split at h <;> simp at h

theorem stageNone_suffix (cfg : Http1.Cfg) (s : PState) : (stageNone cfg s).buf <:+ s.buf := by
  unfold stageNone
  split
  · split
    · exact strip_suffix cfg _
    · split <;> exact strip_suffix cfg _
  · exact List.suffix_refl _

theorem stageFirst_suffix (cfg : Http1.Cfg) (s : PState) : (stageFirst cfg s).buf <:+ s.buf := by
  unfold stageFirst
  split
  · split
    · exact List.suffix_refl _
    · exact List.suffix_refl _
    · rename_i f rest hf
      exact parseFirstLine_ok_suffix hf
  · exact List.suffix_refl _

theorem stageMime_suffix (cfg : Http1.Cfg) (s : PState) : (stageMime cfg s).buf <:+ s.buf := by
  unfold stageMime
  split
  · split
    · split
      · exact List.suffix_refl _
      · rename_i rest hg
        exact grabMime_suffix.1 rest hg
      · rename_i m rest hg
        exact grabMime_suffix.2 m rest hg
    · exact List.suffix_refl _
  · exact List.suffix_refl _

/-- `hp->remaining()` after `hp->parse(aBuf)` is a suffix of `aBuf`, whatever state the parser object was in -/
theorem parse_buf_suffix (cfg : Http1.Cfg) (st : PState) (aBuf : Bytes) : (Http1.parse cfg st aBuf).buf <:+ aBuf := by
  unfold Http1.parse
  exact (stageMime_suffix cfg _).trans ((stageFirst_suffix cfg _).trans (stageNone_suffix cfg _))

theorem parse_buf_le (cfg : Http1.Cfg) (st : PState) (aBuf : Bytes) : (Http1.parse cfg st aBuf).buf.length ≤ aBuf.length :=
  (parse_buf_suffix cfg st aBuf).length_le

/-! ### a parser that asks for more data holds fewer than `limit` bytes -/

theorem stageNone_none (cfg : Http1.Cfg) (hl : 2 ≤ cfg.limit) (s : PState) (h : (stageNone cfg s).stage = .none) :
    (stageNone cfg s).buf.length < cfg.limit := by
  unfold stageNone at h ⊢
  split
  · rename_i hs
    split
    · rename_i h0; simp only [h0, List.length_nil]; omega
    · split
      · rename_i h1; simp only [h1.2.2, List.length_cons, List.length_nil]; omega
      · rename_i h0 h1
        simp only [hs, if_true, h0, h1, if_false] at h
        cases h
  · rename_i hs
    simp only [hs, if_false] at h

theorem stageFirst_stage (cfg : Http1.Cfg) (s : PState) :
    ((stageFirst cfg s).stage = .none → stageFirst cfg s = s) ∧
    ((stageFirst cfg s).stage = .first → (stageFirst cfg s).buf.length < cfg.limit) := by
  unfold stageFirst
  split
  · rename_i hs
    split
    · rename_i hm
      refine ⟨fun _ => rfl, fun _ => ?_⟩
      unfold parseFirstLine at hm
      dsimp only at hm
      split at hm
      · split at hm
        · unfold blame at hm; split at hm <;> simp at hm
        · split at hm <;> simp at hm
      · split at hm
        · unfold blame at hm; split at hm <;> simp at hm
        · omega
    · exact ⟨fun h => by simp at h, fun h => by simp at h⟩
    · exact ⟨fun h => by simp at h, fun h => by simp at h⟩
  · rename_i hs
    exact ⟨fun _ => rfl, fun h => absurd h hs⟩

theorem stageMime_stage (cfg : Http1.Cfg) (s : PState) :
    ((stageMime cfg s).stage = .none → stageMime cfg s = s) ∧
    ((stageMime cfg s).stage = .first → stageMime cfg s = s) ∧
    ((stageMime cfg s).stage = .mime → (stageMime cfg s).buf.length < cfg.limit) := by
  unfold stageMime
  split
  · rename_i hs
    split
    · split
      · rename_i hg
        refine ⟨fun _ => rfl, fun _ => rfl, fun _ => ?_⟩
        unfold grabMime at hg
        split at hg
        · split at hg <;> simp at hg
        · split at hg
          · simp at hg
          · omega
      · exact ⟨fun h => by simp at h, fun h => by simp at h, fun h => by simp at h⟩
      · exact ⟨fun h => by simp at h, fun h => by simp at h, fun h => by simp at h⟩
    · exact ⟨fun h => by simp at h, fun h => by simp at h, fun h => by simp at h⟩
  · rename_i hs
    exact ⟨fun _ => rfl, fun _ => rfl, fun h => absurd h hs⟩

/-- `needsMoreData()` after `parse()` implies `remaining().length() < limit`: the `Must` in `parseRequests` cannot fire -/
theorem needMore_below_limit (cfg : Http1.Cfg) (hl : 2 ≤ cfg.limit) (st : PState) (aBuf : Bytes)
    (h : (Http1.parse cfg st aBuf).stage ≠ .done) : (Http1.parse cfg st aBuf).buf.length < cfg.limit := by
  unfold Http1.parse at h ⊢
  generalize hs0 : stageNone cfg { st with buf := aBuf } = s0 at h ⊢
  have h0 := stageNone_none cfg hl { st with buf := aBuf }
  rw [hs0] at h0
  have h1 := stageFirst_stage cfg s0
  have h2 := stageMime_stage cfg (stageFirst cfg s0)
  cases hst : (stageMime cfg (stageFirst cfg s0)).stage with
  | done => exact absurd hst h
  | mime => exact h2.2.2 hst
  | first =>
    have e := h2.2.1 hst
    rw [e] at hst ⊢
    exact h1.2 hst
  | none =>
    have e := h2.1 hst
    rw [e] at hst ⊢
    have e1 := h1.1 hst
    rw [e1] at hst ⊢
    exact h0 hst

/-! ### the connection loop -/

/-- what holds of a connection after any number of events -/
structure Inv (cfg : CCfg) (c : Conn) : Prop where
  noAbort : ∀ a, c.fate ≠ .aborted a
  below : c.fate = .reading → c.inBuf.length < cfg.p.limit
  halfDone : c.eofSeen = true → c.fate ≠ .reading
  notOk : ∀ s, c.fate = .replied s → s ≠ 200

theorem inv_init (cfg : CCfg) (hl : 2 ≤ cfg.p.limit) : Inv cfg {} where
  noAbort := by intro a h; cases h
  below := by intro _; simp only [List.length_nil]; omega
  halfDone := by intro h; cases h
  notOk := by intro s h; cases h

theorem inv_closed (cfg : CCfg) (c : Conn) (h : c.fate = .closed) : Inv cfg c where
  noAbort := by intro a h'; rw [h] at h'; cases h'
  below := by intro h'; rw [h] at h'; cases h'
  halfDone := by intro _ h'; rw [h] at h'; cases h'
  notOk := by intro s h'; rw [h] at h'; cases h'

theorem inv_of (cfg : CCfg) (c : Conn) (hne : c.fate ≠ .reading) (hna : ∀ a, c.fate ≠ .aborted a)
    (hno : ∀ s, c.fate = .replied s → s ≠ 200) : Inv cfg c where
  noAbort := hna
  below := fun h => absurd h hne
  halfDone := fun _ => hne
  notOk := hno

/-- the outcomes of `parseOne` on a reading connection -/
theorem parseOne_cases (cfg : CCfg) (hl : 2 ≤ cfg.p.limit) (c : Conn) :
    (parseOne cfg c).eofSeen = c.eofSeen ∧
    (((parseOne cfg c).fate = c.fate ∧ (parseOne cfg c).inBuf.length < cfg.p.limit) ∨
     (parseOne cfg c).fate = .handed ∨
     (∃ s, (parseOne cfg c).fate = .replied s ∧ s ≠ 200)) := by
  unfold parseOne
  have hle := parse_buf_le cfg.p c.st c.inBuf
  have hnm := needMore_below_limit cfg.p hl c.st c.inBuf
  simp only
  have h1 : ¬ (Http1.parse cfg.p c.st c.inBuf).buf.length > c.inBuf.length := by omega
  rw [if_neg h1]
  by_cases hst : (Http1.parse cfg.p c.st c.inBuf).stage ≠ .done
  · rw [if_pos hst, if_pos (hnm hst)]
    exact ⟨rfl, Or.inl ⟨rfl, hnm hst⟩⟩
  · rw [if_neg hst]
    by_cases hs : (Http1.parse cfg.p c.st c.inBuf).status = 200
    · rw [if_pos hs]; exact ⟨rfl, Or.inr (Or.inl rfl)⟩
    · rw [if_neg hs]; exact ⟨rfl, Or.inr (Or.inr ⟨_, rfl, hs⟩)⟩

theorem parseRequests_inv (cfg : CCfg) (hl : 2 ≤ cfg.p.limit) (c : Conn) (hf : c.fate = .reading)
    (hb : c.inBuf.isEmpty = true → c.inBuf.length < cfg.p.limit) : Inv cfg (parseRequests cfg c) := by
  unfold parseRequests
  generalize hc1 : (if c.inBuf.isEmpty = true then c else parseOne cfg c) = c1
  have key : c1.eofSeen = c.eofSeen ∧
      ((c1.fate = .reading ∧ c1.inBuf.length < cfg.p.limit) ∨ c1.fate = .handed ∨ (∃ s, c1.fate = .replied s ∧ s ≠ 200)) := by
    by_cases he : c.inBuf.isEmpty = true
    · rw [if_pos he] at hc1; subst hc1
      exact ⟨rfl, Or.inl ⟨hf, hb he⟩⟩
    · rw [if_neg he] at hc1; subst hc1
      obtain ⟨p1, p2⟩ := parseOne_cases cfg hl c
      refine ⟨p1, ?_⟩
      rcases p2 with ⟨q1, q2⟩ | q | q
      · exact Or.inl ⟨q1.trans hf, q2⟩
      · exact Or.inr (Or.inl q)
      · exact Or.inr (Or.inr q)
  simp only
  by_cases hh : c1.fate = .reading ∧ c1.eofSeen = true
  · rw [if_pos hh]; exact inv_closed cfg _ rfl
  · rw [if_neg hh]
    obtain ⟨_, k⟩ := key
    rcases k with ⟨q1, q2⟩ | q | ⟨s, q, qs⟩
    · exact ⟨(by intro a h; rw [q1] at h; cases h), fun _ => q2, fun h1 h2 => hh ⟨h2, h1⟩, (by intro s h; rw [q1] at h; cases h)⟩
    · exact inv_of cfg c1 (by rw [q]; intro h; cases h) (by intro a h; rw [q] at h; cases h) (by intro s h; rw [q] at h; cases h)
    · exact inv_of cfg c1 (by rw [q]; intro h; cases h) (by intro a h; rw [q] at h; cases h)
        (by intro s' h; rw [q] at h; cases h; exact qs)

theorem step_inv (cfg : CCfg) (hl : 2 ≤ cfg.p.limit) (c : Conn) (e : Ev) (h : Inv cfg c) : Inv cfg (step cfg c e) := by
  by_cases hf : c.fate = .reading
  · cases e with
    | data seg =>
      simp only [step, hf, ne_eq, not_true_eq_false, if_false]
      by_cases h1 : c.inBuf.length ≥ cfg.bufMax
      · rw [if_pos h1]; exact h
      · rw [if_neg h1]
        by_cases h2 : (seg.take (cfg.bufMax - c.inBuf.length)).isEmpty = true
        · rw [if_pos h2]; exact h
        · rw [if_neg h2]
          refine parseRequests_inv cfg hl { st := c.st, inBuf := c.inBuf ++ seg.take (cfg.bufMax - c.inBuf.length), eofSeen := c.eofSeen } rfl ?_
          intro hem
          simp only [List.isEmpty_iff, List.append_eq_nil_iff] at hem
          simp [hem.2] at h2
    | eof =>
      simp only [step, hf, ne_eq, not_true_eq_false, if_false]
      by_cases h1 : c.inBuf.isEmpty = true ∨ (!cfg.halfClosed) = true
      · rw [if_pos h1]; exact inv_closed cfg _ rfl
      · rw [if_neg h1]
        refine parseRequests_inv cfg hl { st := c.st, inBuf := c.inBuf, eofSeen := true } rfl ?_
        intro _
        exact h.below hf
    | timeout =>
      simp only [step, hf, ne_eq, not_true_eq_false, if_false]
      exact inv_closed cfg _ rfl
    | ioError =>
      simp only [step, hf, ne_eq, not_true_eq_false, if_false]
      exact inv_closed cfg _ rfl
  · have : step cfg c e = c := by cases e <;> simp [step, hf]
    rw [this]; exact h

theorem run_inv (cfg : CCfg) (hl : 2 ≤ cfg.p.limit) (evs : List Ev) : Inv cfg (run cfg evs) := by
  unfold run
  suffices ∀ c, Inv cfg c → Inv cfg (evs.foldl (step cfg) c) from this _ (inv_init cfg hl)
  induction evs with
  | nil => intro c h; exact h
  | cons e t ih => intro c h; exact ih _ (step_inv cfg hl c e h)

/-- once the connection stopped reading, later events change nothing -/
theorem step_settled (cfg : CCfg) (c : Conn) (e : Ev) (h : c.fate ≠ .reading) : step cfg c e = c := by
  cases e <;> simp [step, h]

theorem parseRequests_eof_not_reading (cfg : CCfg) (c : Conn) (he : c.eofSeen = true)
    (hp : (parseOne cfg c).eofSeen = c.eofSeen) : (parseRequests cfg c).fate ≠ .reading := by
  unfold parseRequests
  generalize hc1 : (if c.inBuf.isEmpty = true then c else parseOne cfg c) = c1
  have : c1.eofSeen = true := by
    by_cases h : c.inBuf.isEmpty = true
    · rw [if_pos h] at hc1; subst hc1; exact he
    · rw [if_neg h] at hc1; subst hc1; rw [hp]; exact he
  simp only
  by_cases hh : c1.fate = .reading ∧ c1.eofSeen = true
  · rw [if_pos hh]; intro h; cases h
  · rw [if_neg hh]; intro h; exact hh ⟨h, this⟩

theorem parseOne_eofSeen (cfg : CCfg) (c : Conn) : (parseOne cfg c).eofSeen = c.eofSeen := by
  unfold parseOne
  simp only
  split
  · rfl
  · split
    · split <;> rfl
    · split <;> rfl

/-- a final event (EOF, timeout, I/O error) never leaves the connection waiting -/
theorem step_final_not_reading (cfg : CCfg) (c : Conn) (e : Ev) (he : e.final = true) : (step cfg c e).fate ≠ .reading := by
  by_cases hf : c.fate = .reading
  · cases e with
    | data seg => cases he
    | eof =>
      simp only [step, hf, ne_eq, not_true_eq_false, if_false]
      by_cases h1 : c.inBuf.isEmpty = true ∨ (!cfg.halfClosed) = true
      · rw [if_pos h1]; intro h; cases h
      · rw [if_neg h1]
        exact parseRequests_eof_not_reading cfg { st := c.st, inBuf := c.inBuf, eofSeen := true } rfl (parseOne_eofSeen cfg _)
    | timeout => simp only [step, hf, ne_eq, not_true_eq_false, if_false]; intro h; cases h
    | ioError => simp only [step, hf, ne_eq, not_true_eq_false, if_false]; intro h; cases h
  · rw [step_settled cfg c e hf]; exact hf

end SquidModel.Robust

/-! ### the connection's parser state is C21's incremental parser -/

namespace SquidModel.Robust
open SquidModel SquidModel.Http1

/-- the relation between the connection and C21's `Http1.Conn` after the same reads -/
structure Sim (c : Conn) (F : Http1.Conn) : Prop where
  st : c.st = F.st
  rd : c.fate = .reading → c.inBuf = c.st.buf ∧ F.st.stage ≠ .done
  done : c.fate ≠ .reading → F.st.stage = .done
  len : c.inBuf.length ≤ F.fed
  noEof : c.eofSeen = false

theorem parseRequests_noEof (cfg : CCfg) (c : Conn) (hne : c.inBuf.isEmpty = false) (he : c.eofSeen = false) :
    parseRequests cfg c = parseOne cfg c := by
  unfold parseRequests
  simp only [hne, Bool.false_eq_true, if_false]
  have : (parseOne cfg c).eofSeen = false := by rw [parseOne_eofSeen]; exact he
  simp only [this, Bool.false_eq_true, and_false, if_false]

/-- `parseOne` without its two assertion branches (they cannot be taken) -/
theorem parseOne_eq (cfg : CCfg) (hl : 2 ≤ cfg.p.limit) (c : Conn) :
    parseOne cfg c =
      if (Http1.parse cfg.p c.st c.inBuf).stage ≠ .done then
        { c with st := Http1.parse cfg.p c.st c.inBuf, inBuf := (Http1.parse cfg.p c.st c.inBuf).buf }
      else if (Http1.parse cfg.p c.st c.inBuf).status = 200 then
        { c with st := Http1.parse cfg.p c.st c.inBuf, inBuf := (Http1.parse cfg.p c.st c.inBuf).buf, fate := .handed }
      else { c with st := Http1.parse cfg.p c.st c.inBuf, inBuf := [], fate := .replied (Http1.parse cfg.p c.st c.inBuf).status } := by
  unfold parseOne
  have hle := parse_buf_le cfg.p c.st c.inBuf
  have hgrow : ¬ (Http1.parse cfg.p c.st c.inBuf).buf.length > c.inBuf.length := by omega
  simp only [hgrow, if_false]
  by_cases hst : (Http1.parse cfg.p c.st c.inBuf).stage ≠ .done
  · rw [if_pos hst, if_pos hst, if_pos (needMore_below_limit cfg.p hl c.st c.inBuf hst)]
  · rw [if_neg hst, if_neg hst]

theorem sim_data (cfg : CCfg) (hl : 2 ≤ cfg.p.limit) (c : Conn) (F : Http1.Conn) (seg : Bytes) (h : Sim c F)
    (hne : seg ≠ []) (hfit : F.fed + seg.length ≤ cfg.bufMax) :
    Sim (step cfg c (.data seg)) (Http1.feed cfg.p F seg) := by
  by_cases hf : c.fate = .reading
  · obtain ⟨hbuf, hnd⟩ := h.rd hf
    have hlen := h.len
    have h1 : ¬ c.inBuf.length ≥ cfg.bufMax := by
      have : 0 < seg.length := List.length_pos_iff.mpr hne
      omega
    have htake : seg.take (cfg.bufMax - c.inBuf.length) = seg := List.take_of_length_le (by omega)
    have h2 : ¬ (seg.isEmpty = true) := by simpa using hne
    have hstep : step cfg c (.data seg) = parseOne cfg { c with inBuf := c.inBuf ++ seg } := by
      simp only [step, hf, ne_eq, not_true_eq_false, if_false, h1, htake, h2]
      exact parseRequests_noEof cfg _ (by simp [hne]) h.noEof
    rw [hstep, parseOne_eq cfg hl]
    simp only [Http1.feed, hnd, if_false]
    have hle := parse_buf_le cfg.p c.st (c.inBuf ++ seg)
    have hsame : Http1.parse cfg.p F.st (F.st.buf ++ seg) = Http1.parse cfg.p c.st (c.inBuf ++ seg) := by
      rw [← h.st, ← hbuf]
    rw [hsame]
    simp only [List.length_append] at hle
    by_cases hst : (Http1.parse cfg.p c.st (c.inBuf ++ seg)).stage ≠ .done
    · rw [if_pos hst]
      exact ⟨rfl, fun _ => ⟨rfl, hst⟩, fun hc => absurd hf hc, (by simp only [List.length_append]; omega), h.noEof⟩
    · rw [if_neg hst]
      have hdone : (Http1.parse cfg.p c.st (c.inBuf ++ seg)).stage = .done := by simpa using hst
      by_cases hs : (Http1.parse cfg.p c.st (c.inBuf ++ seg)).status = 200
      · rw [if_pos hs]
        exact ⟨rfl, (fun hc => by cases hc), fun _ => hdone, (by simp only [List.length_append]; omega), h.noEof⟩
      · rw [if_neg hs]
        exact ⟨rfl, (fun hc => by cases hc), fun _ => hdone, (by simp), h.noEof⟩
  · have hd := h.done hf
    rw [step_settled cfg c _ hf]
    simp only [Http1.feed, hd, if_true]
    exact h

/-- **the connection runs C21's parser**: after any sequence of non-empty reads that fits the connection buffer, the parser object
of the connection is exactly `Http1.feedAll` of the C21 model — so C21's segmentation-independence theorems speak about connections -/
theorem run_data_is_feedAll (cfg : CCfg) (hl : 2 ≤ cfg.p.limit) (segs : List Bytes) (hne : ∀ s ∈ segs, s ≠ [])
    (hfit : segs.flatten.length ≤ cfg.bufMax) :
    (run cfg (segs.map .data)).st = (Http1.feedAll cfg.p segs).st := by
  unfold run Http1.feedAll
  have key : ∀ (segs : List Bytes) (c : Conn) (F : Http1.Conn), Sim c F → (∀ s ∈ segs, s ≠ []) →
      F.fed + segs.flatten.length ≤ cfg.bufMax →
      Sim ((segs.map Ev.data).foldl (step cfg) c) (segs.foldl (Http1.feed cfg.p) F) := by
    intro segs
    induction segs with
    | nil => intro c F h _ _; exact h
    | cons s rest ih =>
      intro c F h hne hfit
      simp only [List.map_cons, List.foldl_cons]
      simp only [List.flatten_cons, List.length_append] at hfit
      have hs := sim_data cfg hl c F s h (hne s List.mem_cons_self) (by omega)
      apply ih _ _ hs (fun x hx => hne x (List.mem_cons_of_mem _ hx))
      have hfed : (Http1.feed cfg.p F s).fed ≤ F.fed + s.length := by
        unfold Http1.feed; split <;> simp
      omega
  have h0 : Sim ({} : Conn) ({} : Http1.Conn) :=
    ⟨rfl, fun _ => ⟨rfl, by decide⟩, fun hc => absurd rfl hc, by simp, rfl⟩
  exact (key segs {} {} h0 hne (by simpa using hfit)).st

end SquidModel.Robust
