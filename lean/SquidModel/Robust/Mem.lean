/-
C09, index level: the places where the HTTP/1 parsers touch raw buffer memory, written with explicit indices and
*faulting* reads, the way the C++ does it (pointer walks, `buf_[i]`, unsigned length arithmetic):

  src/mime_header.cc      headersEnd(const char *mime, size_t l, bool &)     -> `headersEndIdx`
  src/sbuf/SBuf.cc        SBuf::findFirstNotOf, SBuf::findLastNotOf, SBuf::startsWith   -> `findFirstNotOf`, `findLastNotOf`, `startsWith`
  src/parser/Tokenizer.cc Tokenizer::prefix, skipAll, skipOne, skip(char), skip(SBuf), skipOneTrailing, skipAllTrailing,
                          suffix, skipSuffix, consumeTrailing                -> `tokPrefix` … `consumeTrailing`

A buffer is its content (`Bytes`); `rd s i` is the read `s[i]` of the C++ (`*cur`, `mime[e]`, `buf_[i]`, `*i`): reading at
an index that is not below the content length is the explicit outcome `Fault.oob` (this is stricter than what a sanitizer sees:
a read behind the content but inside the MemBlob allocation is a fault here). An unsigned subtraction that would wrap is
`Fault.underflow`. `SBuf::consume/substr/chop` clamp their arguments (`List.take/drop` do the same).

Every loop runs on fuel equal to the number of bytes it can still visit. Core-only.
-/
import SquidModel.Base.CharSet
import SquidModel.Http1.Request

namespace SquidModel.Robust
open SquidModel

inductive Fault where
  | oob (index len : Nat)        -- read outside the content
  | underflow (a b : Nat)        -- unsigned `a - b` with `b > a`
  deriving DecidableEq, Repr

abbrev M := Except Fault

/-- `s[i]` as the C++ reads it -/
def rd (s : Bytes) (i : Nat) : M UInt8 :=
  match s[i]? with
  | some b => .ok b
  | none => .error (.oob i s.length)

/-- unsigned subtraction -/
def usub (a b : Nat) : M Nat := if b ≤ a then .ok (a - b) else .error (.underflow a b)

theorem rd_lt {s : Bytes} {i : Nat} (h : i < s.length) : rd s i = .ok s[i] := by
  simp [rd, List.getElem?_eq_getElem h]

/-! ### headersEnd -/

/-- the `while (e < l && state < 3)` loop of `headersEnd`; the state is `Http1.HS` (0,1,2) or `none` (3); `hsStep` is the
`switch` (modelled and corresponded by C21). Returns (e, state, containsObsFold). -/
def heLoop (mime : Bytes) (l : Nat) : Nat → Nat → Option Http1.HS → Bool → M (Nat × Option Http1.HS × Bool)
  | 0, e, st, f => .ok (e, st, f)
  | fuel + 1, e, st, f =>
    match st with
    | none => .ok (e, st, f)
    | some hs =>
      if e < l then
        match rd mime e with
        | .error x => .error x
        | .ok c => heLoop mime l fuel (e + 1) (Http1.hsStep hs c).1 (f || (Http1.hsStep hs c).2)
      else .ok (e, st, f)

/-- `headersEnd(mime, l, containsObsFold)`: the returned size (0 = not found) and the flag -/
def headersEndIdx (mime : Bytes) (l : Nat) : M (Nat × Bool) :=
  match heLoop mime l l 0 (some .s1) false with
  | .error x => .error x
  | .ok (e, st, f) => .ok (if st = none then e else 0, f)

/-! ### SBuf searches -/

/-- the `while (cur < bufend)` loop of `findFirstNotOf` -/
def ffnLoop (set : CharSet) (s : Bytes) : Nat → Nat → M (Option Nat)
  | 0, _ => .ok none
  | fuel + 1, cur =>
    if cur < s.length then
      match rd s cur with
      | .error x => .error x
      | .ok c => if !set.mem c then .ok (some cur) else ffnLoop set s fuel (cur + 1)
    else .ok none

/-- `SBuf::findFirstNotOf(set, startPos)`; `none` = npos (also as `startPos`) -/
def findFirstNotOf (set : CharSet) (s : Bytes) (startPos : Option Nat) : M (Option Nat) :=
  match startPos with
  | none => .ok none
  | some p => if p ≥ s.length then .ok none else ffnLoop set s (s.length - p) p

/-- the `for (cur = start + endPos; cur >= start; --cur)` loop of `findLastNotOf`; the argument is `cur - start + 1` -/
def flnLoop (set : CharSet) (s : Bytes) : Nat → M (Option Nat)
  | 0 => .ok none
  | k + 1 =>
    match rd s k with
    | .error x => .error x
    | .ok c => if !set.mem c then .ok (some k) else flnLoop set s k

/-- `SBuf::findLastNotOf(set, endPos)` -/
def findLastNotOf (set : CharSet) (s : Bytes) (endPos : Option Nat) : M (Option Nat) :=
  if s.isEmpty then .ok none
  else
    match usub s.length 1 with
    | .error x => .error x
    | .ok last =>
      let e := match endPos with
        | none => last
        | some p => if p ≥ s.length then last else p
      flnLoop set s (e + 1)

/-- `memcmp(a, b, n) == 0` over the first `n` bytes, reading both sides -/
def memEq (a b : Bytes) : Nat → Nat → M Bool
  | 0, _ => .ok true
  | n + 1, i =>
    match rd a i, rd b i with
    | .ok x, .ok y => if x = y then memEq a b n (i + 1) else .ok false
    | .error e, _ => .error e
    | _, .error e => .error e

/-- `SBuf::startsWith(S)`: `if (S.length() > length()) return false; return memcmp(buf(), S.buf(), S.length()) == 0` -/
def startsWith (s t : Bytes) : M Bool :=
  if t.length > s.length then .ok false else memEq s t t.length 0

/-! ### Tokenizer -/

/-- `Tokenizer::consume(n)` (= `buf_.consume(n)`, which clamps): (consumed, new `buf_`) -/
def consume (s : Bytes) (n : Option Nat) : Bytes × Bytes :=
  match n with
  | none => (s, [])
  | some k => (s.take k, s.drop k)

/-- `Tokenizer::consumeTrailing(n)`: `result = buf_; buf_ = result.consume(buf_.length() - parsed)`: (returned tail, new `buf_`) -/
def consumeTrailing (s : Bytes) (n : Option Nat) : M (Bytes × Bytes) :=
  let parsed := match n with
    | none => s.length
    | some k => k
  match usub s.length parsed with
  | .error x => .error x
  | .ok keep => .ok (s.drop keep, s.take keep)

/-- `Tokenizer::success(n)` / `successTrailing(n)` used as a `bool`: the *count* of consumed bytes converted to bool, so that
skipping an empty token reports false -/
def success (c : Bytes × Bytes) : Bool × Bytes := (c.1.length != 0, c.2)

/-- `buf_.substr(0, limit)` (npos = `none`) -/
def window (limit : Option Nat) (s : Bytes) : Bytes :=
  match limit with
  | none => s
  | some n => s.take n

/-- `Tokenizer::prefix(returnedToken, tokenChars, limit)`: `none` = false, else (token, new `buf_`) -/
def tokPrefix (set : CharSet) (limit : Option Nat) (s : Bytes) : M (Option (Bytes × Bytes)) :=
  match findFirstNotOf set (window limit s) (some 0) with
  | .error x => .error x
  | .ok (some 0) => .ok none
  | .ok none =>
    if s.isEmpty ∨ limit = some 0 then .ok none
    else .ok (some (consume s limit))                       -- "whole haystack matched": prefixLen = limit
  | .ok (some k) => .ok (some (consume s (some k)))

/-- `Tokenizer::skipAll(set)`: (count, new `buf_`) -/
def tokSkipAll (set : CharSet) (s : Bytes) : M (Nat × Bytes) :=
  match findFirstNotOf set s (some 0) with
  | .error x => .error x
  | .ok (some 0) => .ok (0, s)
  | .ok r => let c := consume s r; .ok (c.1.length, c.2)

/-- `Tokenizer::skipOne(set)`: `!buf_.isEmpty() && chars[buf_[0]]` -/
def tokSkipOne (set : CharSet) (s : Bytes) : M (Bool × Bytes) :=
  if s.isEmpty then .ok (false, s)
  else match rd s 0 with
    | .error x => .error x
    | .ok c => if set.mem c then .ok (success (consume s (some 1))) else .ok (false, s)

/-- `Tokenizer::skip(char)` -/
def tokSkipChar (ch : UInt8) (s : Bytes) : M (Bool × Bytes) :=
  if s.isEmpty then .ok (false, s)
  else match rd s 0 with
    | .error x => .error x
    | .ok c => if c = ch then .ok (success (consume s (some 1))) else .ok (false, s)

/-- `Tokenizer::skip(SBuf)` -/
def tokSkip (t : Bytes) (s : Bytes) : M (Bool × Bytes) :=
  match startsWith s t with
  | .error x => .error x
  | .ok true => .ok (success (consume s (some t.length)))
  | .ok false => .ok (false, s)

/-- `Tokenizer::skipOneTrailing(set)`: `!buf_.isEmpty() && skippable[buf_[buf_.length()-1]]` -/
def tokSkipOneTrailing (set : CharSet) (s : Bytes) : M (Bool × Bytes) :=
  if s.isEmpty then .ok (false, s)
  else match usub s.length 1 with
    | .error x => .error x
    | .ok i => match rd s i with
      | .error x => .error x
      | .ok c =>
        if set.mem c then
          match consumeTrailing s (some 1) with
          | .error x => .error x
          | .ok r => .ok (success r)
        else .ok (false, s)

/-- `prefixEnd == SBuf::npos ? 0 : (prefixEnd + 1)` -/
def prefixLenOf (prefixEnd : Option Nat) : Nat :=
  match prefixEnd with
  | none => 0
  | some e => e + 1

/-- `Tokenizer::skipAllTrailing(set)`: (count, new `buf_`) -/
def tokSkipAllTrailing (set : CharSet) (s : Bytes) : M (Nat × Bytes) :=
  match findLastNotOf set s none with
  | .error x => .error x
  | .ok prefixEnd =>
    match usub s.length (prefixLenOf prefixEnd) with
    | .error x => .error x
    | .ok suffixLen =>
      if suffixLen = 0 then .ok (0, s)
      else match consumeTrailing s (some suffixLen) with
        | .error x => .error x
        | .ok r => .ok (r.1.length, r.2)

/-- the reverse-iterator loop of `Tokenizer::suffix`: `while (i != span.rend() && tokenChars[*i])`; the argument is the number of
bytes of `span` not visited yet -/
def sufLoop (set : CharSet) (span : Bytes) : Nat → Nat → M Nat
  | 0, found => .ok found
  | k + 1, found =>
    match rd span k with
    | .error x => .error x
    | .ok c => if set.mem c then sufLoop set span k (found + 1) else .ok found

/-- `SBuf span = buf_; if (limit < buf_.length()) span.consume(buf_.length() - limit);` -/
def suffixSpan (limit : Option Nat) (s : Bytes) : M Bytes :=
  match limit with
  | none => .ok s
  | some n =>
    if n < s.length then
      match usub s.length n with
      | .error x => .error x
      | .ok d => .ok (s.drop d)
    else .ok s

/-- `Tokenizer::suffix(returnedToken, set, limit)`: `none` = false, else (token, new `buf_`) -/
def tokSuffix (set : CharSet) (limit : Option Nat) (s : Bytes) : M (Option (Bytes × Bytes)) :=
  match suffixSpan limit s with
  | .error x => .error x
  | .ok span =>
    match sufLoop set span span.length 0 with
    | .error x => .error x
    | .ok 0 => .ok none
    | .ok found => match consumeTrailing s (some found) with
      | .error x => .error x
      | .ok r => .ok (some r)

/-- `offset = 0; if (tokenToSkip.length() < buf_.length()) offset = buf_.length() - tokenToSkip.length();` -/
def skipSuffixOffset (t s : Bytes) : M Nat :=
  if t.length < s.length then usub s.length t.length else .ok 0

/-- `Tokenizer::skipSuffix(tokenToSkip)` -/
def tokSkipSuffix (t : Bytes) (s : Bytes) : M (Bool × Bytes) :=
  if s.length < t.length then .ok (false, s)
  else
    match skipSuffixOffset t s with
    | .error x => .error x
    | .ok off =>
      let tail := s.drop off          -- buf_.substr(offset, npos)
      -- SBuf::cmp: memcmp over the shorter length, then the length difference
      match memEq tail t (min tail.length t.length) 0 with
      | .error x => .error x
      | .ok eq =>
        if eq ∧ tail.length = t.length then
          match consumeTrailing s (some t.length) with
          | .error x => .error x
          | .ok r => .ok (success r)
        else .ok (false, s)

end SquidModel.Robust
