/-
Lemmas for C52: ranges of C++ integer types, conversions that preserve the value, and the exactness of the
helpers of src/SquidMath.h (model: SquidModel.Math.Safe). All widths are symbolic.
-/
import SquidModel.Math.Safe

namespace SquidModel.Math
open CType

/-! ### powers of two -/

theorem pow2_pos (n : Nat) : (0 : Int) < 2 ^ n := Int.pow_pos (by decide)

theorem pow2_mono {m n : Nat} (h : m ≤ n) : (2 : Int) ^ m ≤ 2 ^ n := by
  obtain ⟨k, rfl⟩ := Nat.exists_eq_add_of_le h
  rw [Int.pow_add]
  have h1 := pow2_pos m
  have h2 := pow2_pos k
  have : (2:Int) ^ m * 1 ≤ 2 ^ m * 2 ^ k := Int.mul_le_mul_of_nonneg_left (by omega) (by omega)
  omega

theorem pow2_succ (n : Nat) : (2 : Int) ^ (n + 1) = 2 * 2 ^ n := by
  rw [Int.pow_succ]; omega

namespace CType

theorem half_pos (t : CType) : 0 < t.half := pow2_pos _
theorem card_pos (t : CType) : 0 < t.card := pow2_pos _

theorem card_eq (t : CType) (h : 0 < t.bits) : t.card = 2 * t.half := by
  unfold card half
  obtain ⟨k, hk⟩ : ∃ k, t.bits = k + 1 := ⟨t.bits - 1, by omega⟩
  rw [hk, pow2_succ]; simp

theorem minVal_nonpos (t : CType) : t.minVal ≤ 0 := by
  unfold minVal; have := t.half_pos; split <;> omega

theorem maxVal_nonneg (t : CType) : 0 ≤ t.maxVal := by
  unfold maxVal; have := t.half_pos; have := t.card_pos; split <;> omega

theorem minVal_unsigned (t : CType) (h : t.signed = false) : t.minVal = 0 := by
  unfold minVal; simp [h]

theorem minVal_signed (t : CType) (h : t.signed = true) : t.minVal = -(t.maxVal + 1) := by
  unfold minVal maxVal; simp [h]

theorem maxVal_unsigned (t : CType) (h : t.signed = false) : t.maxVal = t.card - 1 := by
  unfold maxVal; simp [h]

theorem signed_of_neg (t : CType) (v : Int) (hv : t.inRange v) (hn : v < 0) : t.signed = true := by
  cases hs : t.signed with
  | true => rfl
  | false => have := t.minVal_unsigned hs; unfold inRange at hv; omega

/-- Converting a value of the type to the type does nothing. -/
theorem conv_of_inRange (t : CType) (h : 0 < t.bits) (v : Int) (hv : t.inRange v) : t.conv v = v := by
  have hc := t.card_eq h
  have hh := t.half_pos
  unfold inRange minVal maxVal at hv
  unfold conv
  cases hs : t.signed with
  | false =>
    simp only [hs, Bool.false_eq_true, ↓reduceIte] at hv
    simp only [Bool.false_eq_true, false_and, ↓reduceIte]
    exact Int.emod_eq_of_lt (by omega) (by omega)
  | true =>
    simp only [hs, ↓reduceIte] at hv
    simp only [true_and]
    by_cases hn : 0 ≤ v
    · have e : v % t.card = v := Int.emod_eq_of_lt hn (by omega)
      rw [e]
      have : ¬ t.half ≤ v := by omega
      simp [this]
    · have e : v % t.card = v + t.card := by
        rw [← Int.add_emod_right]
        exact Int.emod_eq_of_lt (by omega) (by omega)
      rw [e]
      have : t.half ≤ v + t.card := by omega
      simp [this]

/-- Unsigned wrap-around of a value in [2^bits, 2·2^bits). -/
theorem conv_unsigned_wrap (t : CType) (hs : t.signed = false) (x : Int) (h1 : t.maxVal < x) (h2 : x ≤ 2 * t.maxVal + 1) :
    t.conv x = x - (t.maxVal + 1) := by
  have hm := t.maxVal_unsigned hs
  unfold conv
  simp only [hs, Bool.false_eq_true, false_and, ↓reduceIte]
  have e : x % t.card = (x - t.card) % t.card := by
    rw [Int.sub_emod_right]
  rw [e]
  have := Int.emod_eq_of_lt (a := x - t.card) (b := t.card) (by omega) (by omega)
  omega

/-- `A.maxVal ≤ T.maxVal` from the widths. -/
theorem maxVal_le (A T : CType) (hA : 0 < A.bits)
    (h : (A.signed = T.signed ∧ A.bits ≤ T.bits) ∨ (T.signed = false ∧ A.bits ≤ T.bits) ∨ (A.bits < T.bits)) :
    A.maxVal ≤ T.maxVal := by
  have hT : 0 < T.bits := by omega
  have cA := A.card_eq hA
  have cT := T.card_eq hT
  have hA' := A.half_pos
  have hT' := T.half_pos
  unfold maxVal
  rcases h with ⟨hs, hb⟩ | ⟨hs, hb⟩ | hb
  · have m1 : A.half ≤ T.half := pow2_mono (by omega)
    rw [← hs]; split <;> omega
  · have m1 : A.half ≤ T.half := pow2_mono (by omega)
    simp only [hs, Bool.false_eq_true, ↓reduceIte]; split <;> omega
  · have m1 : A.card ≤ T.half := pow2_mono (by omega)
    split <;> split <;> omega

/-- `T.minVal ≤ A.minVal` from the widths when `T` is signed. -/
theorem minVal_le (A T : CType) (hA : 0 < A.bits) (hs : T.signed = true) (h : A.bits ≤ T.bits) :
    T.minVal ≤ A.minVal := by
  have m1 : A.half ≤ T.half := pow2_mono (by omega)
  have := A.half_pos
  unfold minVal
  simp only [hs, ↓reduceIte]
  split <;> omega

end CType

/-! ### promotion and the usual arithmetic conversions -/

theorem cInt_bits (ib : Nat) : (cInt ib).bits = ib := rfl
theorem cInt_signed (ib : Nat) : (cInt ib).signed = true := rfl

theorem promote_bits_pos (ib : Nat) (A : CType) (hA : 0 < A.bits) : 0 < (promote ib A).bits := by
  unfold promote; split
  · rw [cInt_bits]; omega
  · exact hA

theorem promote_bits_ge (ib : Nat) (A : CType) : ib ≤ (promote ib A).bits := by
  unfold promote; split
  · rw [cInt_bits]; omega
  · omega

theorem promote_idem (ib : Nat) (A : CType) : promote ib (promote ib A) = promote ib A := by
  have := promote_bits_ge ib A
  generalize promote ib A = P at *
  unfold promote; simp; omega

theorem promote_of_ge (ib : Nat) (A : CType) (h : ib ≤ A.bits) : promote ib A = A := by
  unfold promote; simp; omega

/-- Integral promotion preserves every value. -/
theorem promote_maxVal (ib : Nat) (A : CType) (hA : 0 < A.bits) : A.maxVal ≤ (promote ib A).maxVal := by
  unfold promote; split
  · exact maxVal_le A _ hA (Or.inr (Or.inr (by rw [cInt_bits]; assumption)))
  · omega

theorem promote_minVal (ib : Nat) (A : CType) (hA : 0 < A.bits) : (promote ib A).minVal ≤ A.minVal := by
  unfold promote; split
  · exact minVal_le A _ hA (cInt_signed ib) (by rw [cInt_bits]; omega)
  · omega

theorem promote_inRange (ib : Nat) (A : CType) (hA : 0 < A.bits) (a : Int) (ha : A.inRange a) :
    (promote ib A).inRange a := by
  have := promote_maxVal ib A hA
  have := promote_minVal ib A hA
  unfold inRange at *; omega

theorem promote_unsigned (ib : Nat) (A : CType) (h : (promote ib A).signed = false) : promote ib A = A := by
  unfold promote at *; split at h
  · simp [cInt_signed] at h
  · simp [*]

/-- The four shapes of the usual arithmetic conversions on promoted operands. -/
theorem uacP_cases (a b : CType) :
    (uacP a b = a ∧ b.bits ≤ a.bits ∧ (a.signed = b.signed ∨ a.signed = false)) ∨
    (uacP a b = b ∧ a.bits ≤ b.bits ∧ (a.signed = b.signed ∨ b.signed = false)) ∨
    (uacP a b = a ∧ b.bits < a.bits ∧ a.signed = true ∧ b.signed = false) ∨
    (uacP a b = b ∧ a.bits < b.bits ∧ b.signed = true ∧ a.signed = false) := by
  unfold uacP
  cases ha : a.signed <;> cases hb : b.signed <;>
    by_cases h : a.bits < b.bits <;> by_cases h' : b.bits ≤ a.bits <;> by_cases h'' : a.bits ≤ b.bits <;>
    simp [h, h', h''] <;> omega

theorem uacP_bits_pos (a b : CType) (ha : 0 < a.bits) (hb : 0 < b.bits) : 0 < (uacP a b).bits := by
  rcases uacP_cases a b with ⟨e, _⟩ | ⟨e, _⟩ | ⟨e, _⟩ | ⟨e, _⟩ <;> rw [e] <;> assumption

theorem uacP_maxVal_left (a b : CType) (ha : 0 < a.bits) (hb : 0 < b.bits) : a.maxVal ≤ (uacP a b).maxVal := by
  rcases uacP_cases a b with ⟨e, h1, h2⟩ | ⟨e, h1, h2⟩ | ⟨e, h1, h2, h3⟩ | ⟨e, h1, h2, h3⟩ <;> rw [e]
  · omega
  · exact maxVal_le a b ha (by rcases h2 with h2 | h2 <;> simp [h2, h1])
  · omega
  · exact maxVal_le a b ha (Or.inr (Or.inr h1))

theorem uacP_maxVal_right (a b : CType) (ha : 0 < a.bits) (hb : 0 < b.bits) : b.maxVal ≤ (uacP a b).maxVal := by
  rcases uacP_cases a b with ⟨e, h1, h2⟩ | ⟨e, h1, h2⟩ | ⟨e, h1, h2, h3⟩ | ⟨e, h1, h2, h3⟩ <;> rw [e]
  · exact maxVal_le b a hb (by rcases h2 with h2 | h2 <;> simp [h2, h1])
  · omega
  · exact maxVal_le b a hb (Or.inr (Or.inr h1))
  · omega

theorem uacP_minVal_left (a b : CType) (ha : 0 < a.bits) (hb : 0 < b.bits) (hs : (uacP a b).signed = true) :
    (uacP a b).minVal ≤ a.minVal := by
  apply minVal_le _ _ ha hs
  rcases uacP_cases a b with ⟨e, h1, h2⟩ | ⟨e, h1, h2⟩ | ⟨e, h1, h2, h3⟩ | ⟨e, h1, h2, h3⟩ <;> rw [e] <;> omega

theorem uacP_minVal_right (a b : CType) (ha : 0 < a.bits) (hb : 0 < b.bits) (hs : (uacP a b).signed = true) :
    (uacP a b).minVal ≤ b.minVal := by
  apply minVal_le _ _ hb hs
  rcases uacP_cases a b with ⟨e, h1, h2⟩ | ⟨e, h1, h2⟩ | ⟨e, h1, h2, h3⟩ | ⟨e, h1, h2, h3⟩ <;> rw [e] <;> omega

theorem uacP_signed (a b : CType) (ha : a.signed = true) (hb : b.signed = true) : (uacP a b).signed = true := by
  rcases uacP_cases a b with ⟨e, _⟩ | ⟨e, _⟩ | ⟨e, _⟩ | ⟨e, _⟩ <;> rw [e] <;> assumption

theorem uacP_unsigned (a b : CType) (ha : a.signed = false) (hb : b.signed = false) : (uacP a b).signed = false := by
  rcases uacP_cases a b with ⟨e, _⟩ | ⟨e, _⟩ | ⟨e, _⟩ | ⟨e, _⟩ <;> rw [e] <;> assumption

theorem uacP_self (a : CType) : uacP a a = a := by unfold uacP; simp

theorem promote_signed (ib : Nat) (A : CType) (hA : A.signed = true) : (promote ib A).signed = true := by
  unfold promote; split <;> simp [cInt_signed, hA]

theorem uac_bits_pos (ib : Nat) (A B : CType) (hA : 0 < A.bits) (hB : 0 < B.bits) : 0 < (uac ib A B).bits :=
  uacP_bits_pos _ _ (promote_bits_pos ib A hA) (promote_bits_pos ib B hB)

/-- The common type can hold every non-negative value of the left operand. -/
theorem uac_maxVal_left (ib : Nat) (A B : CType) (hA : 0 < A.bits) (hB : 0 < B.bits) :
    A.maxVal ≤ (uac ib A B).maxVal :=
  Int.le_trans (promote_maxVal ib A hA) (uacP_maxVal_left _ _ (promote_bits_pos ib A hA) (promote_bits_pos ib B hB))

/-- The common type can hold every non-negative value of the right operand. -/
theorem uac_maxVal_right (ib : Nat) (A B : CType) (hA : 0 < A.bits) (hB : 0 < B.bits) :
    B.maxVal ≤ (uac ib A B).maxVal :=
  Int.le_trans (promote_maxVal ib B hB) (uacP_maxVal_right _ _ (promote_bits_pos ib A hA) (promote_bits_pos ib B hB))

/-- A signed common type holds every value of both operands. -/
theorem uac_minVal_left (ib : Nat) (A B : CType) (hA : 0 < A.bits) (hB : 0 < B.bits)
    (hs : (uac ib A B).signed = true) : (uac ib A B).minVal ≤ A.minVal :=
  Int.le_trans (uacP_minVal_left _ _ (promote_bits_pos ib A hA) (promote_bits_pos ib B hB) hs) (promote_minVal ib A hA)

theorem uac_minVal_right (ib : Nat) (A B : CType) (hA : 0 < A.bits) (hB : 0 < B.bits)
    (hs : (uac ib A B).signed = true) : (uac ib A B).minVal ≤ B.minVal :=
  Int.le_trans (uacP_minVal_right _ _ (promote_bits_pos ib A hA) (promote_bits_pos ib B hB) hs) (promote_minVal ib B hB)

/-- Two signed operands have a signed common type. -/
theorem uac_signed (ib : Nat) (A B : CType) (hA : A.signed = true) (hB : B.signed = true) :
    (uac ib A B).signed = true :=
  uacP_signed _ _ (promote_signed ib A hA) (promote_signed ib B hB)

/-- Two unsigned promoted operands have an unsigned common type. -/
theorem uac_unsigned (ib : Nat) (A B : CType) (hA : (promote ib A).signed = false) (hB : (promote ib B).signed = false) :
    (uac ib A B).signed = false :=
  uacP_unsigned _ _ hA hB

end SquidModel.Math
