/-
C52: exactness of the model of `Less`, `IncreaseSumInternal` (both overloads), `IncreaseSum`, `NaturalSum`,
`SetToNaturalSumOrMax`, `NaturalCast` for all widths, signedness combinations and values; no evaluation of the
model reaches undefined behaviour.
-/
import SquidModel.Math.Lemmas

namespace SquidModel.Math
open CType

/-! ### conversions to the common type keep the value -/

theorem uac_conv_left (ib : Nat) (A B : CType) (hA : 0 < A.bits) (hB : 0 < B.bits) (a : Int)
    (ha : A.inRange a) (h : 0 ≤ a ∨ (uac ib A B).signed = true) : (uac ib A B).conv a = a := by
  apply conv_of_inRange _ (uac_bits_pos ib A B hA hB)
  have h1 := uac_maxVal_left ib A B hA hB
  have h0 := (uac ib A B).minVal_nonpos
  unfold inRange at *
  rcases h with h | h
  · omega
  · have := uac_minVal_left ib A B hA hB h; omega

theorem uac_conv_right (ib : Nat) (A B : CType) (hA : 0 < A.bits) (hB : 0 < B.bits) (b : Int)
    (hb : B.inRange b) (h : 0 ≤ b ∨ (uac ib A B).signed = true) : (uac ib A B).conv b = b := by
  apply conv_of_inRange _ (uac_bits_pos ib A B hA hB)
  have h1 := uac_maxVal_right ib A B hA hB
  have h0 := (uac ib A B).minVal_nonpos
  unfold inRange at *
  rcases h with h | h
  · omega
  · have := uac_minVal_right ib A B hA hB h; omega

/-- The operands of a built-in operator keep their values: both non-negative, or both types signed. -/
def Compat (A B : CType) (a b : Int) : Prop := (0 ≤ a ∧ 0 ≤ b) ∨ (A.signed = true ∧ B.signed = true)

theorem compat_conv (ib : Nat) (A B : CType) (hA : 0 < A.bits) (hB : 0 < B.bits) (a b : Int)
    (ha : A.inRange a) (hb : B.inRange b) (h : Compat A B a b) :
    (uac ib A B).conv a = a ∧ (uac ib A B).conv b = b := by
  rcases h with ⟨h1, h2⟩ | ⟨h1, h2⟩
  · exact ⟨uac_conv_left ib A B hA hB a ha (Or.inl h1), uac_conv_right ib A B hA hB b hb (Or.inl h2)⟩
  · have := uac_signed ib A B h1 h2
    exact ⟨uac_conv_left ib A B hA hB a ha (Or.inr this), uac_conv_right ib A B hA hB b hb (Or.inr this)⟩

theorem cmpLt_exact (ib : Nat) (A B : CType) (hA : 0 < A.bits) (hB : 0 < B.bits) (a b : Int)
    (ha : A.inRange a) (hb : B.inRange b) (h : Compat A B a b) : cmpLt ib A B a b = decide (a < b) := by
  obtain ⟨e1, e2⟩ := compat_conv ib A B hA hB a b ha hb h
  unfold cmpLt; simp only [e1, e2]

theorem cmpGe_exact (ib : Nat) (A B : CType) (hA : 0 < A.bits) (hB : 0 < B.bits) (a b : Int)
    (ha : A.inRange a) (hb : B.inRange b) (h : Compat A B a b) : cmpGe ib A B a b = decide (a ≥ b) := by
  obtain ⟨e1, e2⟩ := compat_conv ib A B hA hB a b ha hb h
  unfold cmpGe; simp only [e1, e2]

theorem cmpLe_exact (ib : Nat) (A B : CType) (hA : 0 < A.bits) (hB : 0 < B.bits) (a b : Int)
    (ha : A.inRange a) (hb : B.inRange b) (h : Compat A B a b) : cmpLe ib A B a b = decide (a ≤ b) := by
  obtain ⟨e1, e2⟩ := compat_conv ib A B hA hB a b ha hb h
  unfold cmpLe; simp only [e1, e2]

theorem cInt_inRange_zero (ib : Nat) : (cInt ib).inRange 0 :=
  ⟨(cInt ib).minVal_nonpos, (cInt ib).maxVal_nonneg⟩

theorem compat_zero (ib : Nat) (A : CType) (a : Int) (ha : A.inRange a) : Compat A (cInt ib) a 0 := by
  by_cases h : 0 ≤ a
  · exact Or.inl ⟨h, Int.le_refl 0⟩
  · exact Or.inr ⟨signed_of_neg A a ha (by omega), cInt_signed ib⟩

/-- `a < 0` (comparison with the `int` literal) is the mathematical comparison. -/
theorem cmpLt_zero (ib : Nat) (hib : 0 < ib) (A : CType) (hA : 0 < A.bits) (a : Int) (ha : A.inRange a) :
    cmpLt ib A (cInt ib) a 0 = decide (a < 0) :=
  cmpLt_exact ib A (cInt ib) hA hib a 0 ha (cInt_inRange_zero ib) (compat_zero ib A a ha)

/-- `a >= 0` (comparison with the `int` literal) is the mathematical comparison. -/
theorem cmpGe_zero (ib : Nat) (hib : 0 < ib) (A : CType) (hA : 0 < A.bits) (a : Int) (ha : A.inRange a) :
    cmpGe ib A (cInt ib) a 0 = decide (a ≥ 0) :=
  cmpGe_exact ib A (cInt ib) hA hib a 0 ha (cInt_inRange_zero ib) (compat_zero ib A a ha)

/-! ### `std::common_type` -/

theorem commonType_bits_pos (ib : Nat) (A B : CType) (hA : 0 < A.bits) (hB : 0 < B.bits) :
    0 < (commonType ib A B).bits := by
  unfold commonType; split
  · exact hA
  · exact uac_bits_pos ib A B hA hB

theorem commonType_signed (ib : Nat) (A B : CType) (hA : A.signed = true) (hB : B.signed = true) :
    (commonType ib A B).signed = true := by
  unfold commonType; split
  · exact hA
  · exact uac_signed ib A B hA hB

theorem commonType_inRange (ib : Nat) (A B : CType) (hA : 0 < A.bits) (hB : 0 < B.bits) (a b : Int)
    (ha : A.inRange a) (hb : B.inRange b) (h : Compat A B a b) :
    (commonType ib A B).inRange a ∧ (commonType ib A B).inRange b := by
  unfold commonType; split
  · next e => subst e; exact ⟨ha, hb⟩
  · have h1 := uac_maxVal_left ib A B hA hB
    have h2 := uac_maxVal_right ib A B hA hB
    have h0 := (uac ib A B).minVal_nonpos
    unfold inRange at *
    rcases h with ⟨p, q⟩ | ⟨p, q⟩
    · omega
    · have s := uac_signed ib A B p q
      have := uac_minVal_left ib A B hA hB s
      have := uac_minVal_right ib A B hA hB s
      omega

/-! ### `Less` -/

/-- `Less(a, b)` is the mathematical comparison for every pair of integer types and all their values. -/
theorem less_exact (ib : Nat) (hib : 0 < ib) (A B : CType) (hA : 0 < A.bits) (hB : 0 < B.bits) (a b : Int)
    (ha : A.inRange a) (hb : B.inRange b) : less ib A B a b = decide (a < b) := by
  unfold less
  simp only [cmpGe_zero ib hib A hA a ha, cmpLt_zero ib hib A hA a ha,
    cmpGe_zero ib hib B hB b hb, cmpLt_zero ib hib B hB b hb]
  by_cases h1 : 0 ≤ a <;> by_cases h2 : 0 ≤ b
  · -- same sign (non-negative): third branch
    have c : Compat A B a b := Or.inl ⟨h1, h2⟩
    obtain ⟨ra, rb⟩ := commonType_inRange ib A B hA hB a b ha hb c
    have hp := commonType_bits_pos ib A B hA hB
    have n1 : ¬ b < 0 := by omega
    have n2 : ¬ a < 0 := by omega
    simp only [ge_iff_le, h1, h2, n1, n2, decide_true, decide_false, Bool.and_false, Bool.false_and,
      Bool.false_eq_true, ↓reduceIte]
    rw [conv_of_inRange _ hp a ra, conv_of_inRange _ hp b rb]
    exact cmpLt_exact ib _ _ hp hp a b ra rb (Or.inl ⟨h1, h2⟩)
  · -- a >= 0, b < 0: false
    have n1 : b < 0 := by omega
    have n3 : ¬ a < b := by omega
    simp [h1, n1, n3]
  · -- a < 0, b >= 0: true
    have n1 : a < 0 := by omega
    have n2 : ¬ b < 0 := by omega
    have n3 : a < b := by omega
    simp [h1, h2, n1, n2, n3]
  · -- both negative: both types are signed
    have sa := signed_of_neg A a ha (by omega)
    have sb := signed_of_neg B b hb (by omega)
    have c : Compat A B a b := Or.inr ⟨sa, sb⟩
    obtain ⟨ra, rb⟩ := commonType_inRange ib A B hA hB a b ha hb c
    have hp := commonType_bits_pos ib A B hA hB
    have sab := commonType_signed ib A B sa sb
    have n1 : b < 0 := by omega
    have n2 : a < 0 := by omega
    simp only [ge_iff_le, h1, h2, n1, n2, decide_true, decide_false, Bool.and_false,
      Bool.and_true, Bool.false_eq_true, ↓reduceIte]
    rw [conv_of_inRange _ hp a ra, conv_of_inRange _ hp b rb]
    exact cmpLt_exact ib _ _ hp hp a b ra rb (Or.inr ⟨sab, sab⟩)

/-! ### built-in arithmetic -/

/-- Arithmetic whose operands keep their values and whose exact result fits the common type is exact
(and defined). -/
theorem arith_exact (ib : Nat) (op : Int → Int → Int) (A B : CType) (hA : 0 < A.bits) (hB : 0 < B.bits) (a b : Int)
    (ha : A.inRange a) (hb : B.inRange b) (h : Compat A B a b) (hr : (uac ib A B).inRange (op a b)) :
    arith ib op A B a b = .ok (uac ib A B, op a b) := by
  obtain ⟨e1, e2⟩ := compat_conv ib A B hA hB a b ha hb h
  unfold arith
  simp only [e1, e2]
  cases hs : (uac ib A B).signed with
  | true => simp only [↓reduceIte, hr]
  | false => simp only [Bool.false_eq_true, ↓reduceIte]; rw [conv_of_inRange _ (uac_bits_pos ib A B hA hB) _ hr]

/-- Unsigned addition: exact or wrapped by exactly 2^bits. -/
theorem arith_add_unsigned (ib : Nat) (A B : CType) (hA : 0 < A.bits) (hB : 0 < B.bits) (a b : Int)
    (ha : A.inRange a) (hb : B.inRange b) (h0 : 0 ≤ a) (h1 : 0 ≤ b) (hu : (uac ib A B).signed = false) :
    arith ib (· + ·) A B a b =
      .ok (uac ib A B, if a + b ≤ (uac ib A B).maxVal then a + b else a + b - ((uac ib A B).maxVal + 1)) := by
  obtain ⟨e1, e2⟩ := compat_conv ib A B hA hB a b ha hb (Or.inl ⟨h0, h1⟩)
  have m1 := uac_maxVal_left ib A B hA hB
  have m2 := uac_maxVal_right ib A B hA hB
  unfold arith
  simp only [e1, e2, hu, Bool.false_eq_true, ↓reduceIte]
  unfold inRange at ha hb
  split
  · next hle =>
    rw [conv_of_inRange _ (uac_bits_pos ib A B hA hB)]
    have := (uac ib A B).minVal_unsigned hu
    unfold inRange; omega
  · next hgt =>
    rw [conv_unsigned_wrap _ hu _ (by omega) (by omega)]

/-! ### `IncreaseSumInternal` -/

/-- The overload for mixed signedness (correct for any pair of types). -/
theorem incMixed_exact (ib : Nat) (hib : 0 < ib) (S B : CType) (hS : 0 < S.bits) (hB : 0 < B.bits) (a b : Int)
    (ha : S.inRange a) (hb : B.inRange b) :
    incMixed ib S (promote ib S) B a b =
      .ok (if 0 ≤ a ∧ 0 ≤ b ∧ a + b ≤ S.maxVal then some (a + b) else none) := by
  have hA := promote_bits_pos ib S hS
  have haA := promote_inRange ib S hS a ha
  unfold incMixed
  simp only [cmpLt_zero ib hib _ hA a haA, cmpLt_zero ib hib B hB b hb]
  by_cases h1 : 0 ≤ a
  case neg =>
    have : a < 0 := by omega
    simp [this, h1]
  by_cases h2 : 0 ≤ b
  case neg =>
    have : b < 0 := by omega
    simp [this, h2]
  have n1 : ¬ a < 0 := by omega
  have n2 : ¬ b < 0 := by omega
  simp only [n1, n2, decide_false, Bool.or_self, Bool.false_eq_true, ↓reduceIte, h1, h2, true_and]
  -- maxS - a
  have hmax : S.inRange S.maxVal := ⟨by have := S.minVal_nonpos; have := S.maxVal_nonneg; omega, Int.le_refl _⟩
  have mS := S.maxVal_nonneg
  have hd : (uac ib S (promote ib S)).inRange (S.maxVal - a) := by
    have m1 := uac_maxVal_left ib S (promote ib S) hS hA
    have m0 := (uac ib S (promote ib S)).minVal_nonpos
    unfold inRange at *; omega
  rw [arith_exact ib (· - ·) S (promote ib S) hS hA S.maxVal a hmax haA (Or.inl ⟨mS, h1⟩) hd]
  simp only
  rw [less_exact ib hib _ B (uac_bits_pos ib S _ hS hA) hB _ b hd hb]
  by_cases h3 : a + b ≤ S.maxVal
  case neg =>
    have : S.maxVal - a < b := by omega
    simp [this, h3]
  have n3 : ¬ S.maxVal - a < b := by omega
  simp only [n3, decide_false, Bool.false_eq_true, ↓reduceIte, h3]
  -- a + b
  have hsum : (uac ib (promote ib S) B).inRange (a + b) := by
    have m1 := uac_maxVal_left ib (promote ib S) B hA hB
    have m2 := promote_maxVal ib S hS
    have m0 := (uac ib (promote ib S) B).minVal_nonpos
    unfold inRange at *; omega
  rw [arith_exact ib (· + ·) (promote ib S) B hA hB a b haA hb (Or.inl ⟨h1, h2⟩) hsum]
  simp only
  rw [conv_of_inRange S hS (a + b) ⟨by have := S.minVal_nonpos; omega, h3⟩]

/-- For promoted types (no narrower than `int`) `std::common_type<A,B>` is the type of `a + b`: the
`static_assert(std::is_same<AB, decltype(a+b)>::value, "lossless assignment")` of the unsigned overload. -/
theorem commonType_eq_uac_of_promoted (ib : Nat) (A B : CType) (hA : ib ≤ A.bits) :
    commonType ib A B = uac ib A B := by
  unfold commonType; split
  · next e => subst e; unfold uac; rw [promote_of_ge ib A hA, uacP_self]
  · rfl

/-- The overload for two unsigned promoted types. -/
theorem incUnsigned_exact (ib : Nat) (S B : CType) (hS : 0 < S.bits) (hB : 0 < B.bits)
    (hSi : ib ≤ S.bits) (hBi : ib ≤ B.bits) (uS : S.signed = false) (uB : B.signed = false) (a b : Int)
    (ha : S.inRange a) (hb : B.inRange b) :
    incUnsigned ib S S B a b = .ok (if a + b ≤ S.maxVal then some (a + b) else none) := by
  have pS := promote_of_ge ib S hSi
  have pB := promote_of_ge ib B hBi
  have h0 : 0 ≤ a := by have := S.minVal_unsigned uS; unfold inRange at ha; omega
  have h1 : 0 ≤ b := by have := B.minVal_unsigned uB; unfold inRange at hb; omega
  have hu : (uac ib S B).signed = false := uac_unsigned ib S B (by rw [pS]; exact uS) (by rw [pB]; exact uB)
  -- the type of `sum` is the type of `a + b`
  have eAB : commonType ib S B = uac ib S B := commonType_eq_uac_of_promoted ib S B hSi
  have hT := uac_bits_pos ib S B hS hB
  have m1 := uac_maxVal_left ib S B hS hB
  have m2 := uac_maxVal_right ib S B hS hB
  have mn := (uac ib S B).minVal_unsigned hu
  unfold incUnsigned
  rw [arith_add_unsigned ib S B hS hB a b ha hb h0 h1 hu, eAB]
  simp only
  generalize hw : (if a + b ≤ (uac ib S B).maxVal then a + b else a + b - ((uac ib S B).maxVal + 1)) = w
  have hmax : S.inRange S.maxVal := ⟨by have := S.minVal_nonpos; have := S.maxVal_nonneg; omega, Int.le_refl _⟩
  have mS := S.maxVal_nonneg
  unfold inRange at ha hb
  have hwr : (uac ib S B).inRange w := by
    unfold inRange; subst hw; split <;> omega
  have hw0 : 0 ≤ w := by unfold inRange at hwr; omega
  rw [conv_of_inRange _ hT w hwr]
  rw [cmpGe_exact ib _ S hT hS w a hwr ⟨by omega, by omega⟩ (Or.inl ⟨hw0, h0⟩)]
  rw [cmpLe_exact ib _ S hT hS w S.maxVal hwr hmax (Or.inl ⟨hw0, mS⟩)]
  by_cases hov : a + b ≤ (uac ib S B).maxVal
  · have ew : w = a + b := by subst hw; simp [hov]
    subst ew
    have g : a + b ≥ a := by omega
    by_cases hfit : a + b ≤ S.maxVal
    · simp only [g, hfit, decide_true, Bool.and_self, ↓reduceIte]
      rw [conv_of_inRange S hS (a + b) ⟨by have := S.minVal_nonpos; omega, hfit⟩]
    · simp [hfit]
  · have ew : w = a + b - ((uac ib S B).maxVal + 1) := by subst hw; simp [hov]
    have g : ¬ w ≥ a := by omega
    have hfit : ¬ a + b ≤ S.maxVal := by omega
    simp [g, hfit]

/-! ### `IncreaseSum`, two arguments -/

/-- The specified result of a two-argument safe sum. -/
def sum2Spec (S : CType) (s t : Int) : Option Int :=
  if 0 ≤ s ∧ 0 ≤ t ∧ s + t ≤ S.maxVal then some (s + t) else none

theorem increaseSum2_exact (ib : Nat) (hib : 0 < ib) (S T : CType) (hS : 0 < S.bits) (hT : 0 < T.bits) (s t : Int)
    (hs : S.inRange s) (ht : T.inRange t) : increaseSum2 ib S T s t = .ok (sum2Spec S s t) := by
  have hA := promote_bits_pos ib S hS
  have hB := promote_bits_pos ib T hT
  have hsA := promote_inRange ib S hS s hs
  have htB := promote_inRange ib T hT t ht
  unfold increaseSum2 sum2Spec
  simp only
  rw [conv_of_inRange _ hA s hsA, conv_of_inRange _ hB t htB]
  split
  · next hu =>
    unfold allUnsigned at hu
    have uA : (promote ib S).signed = false := by
      cases h : (promote ib S).signed <;> simp_all
    have uB : (promote ib T).signed = false := by
      cases h : (promote ib T).signed <;> simp_all
    have eS := promote_unsigned ib S uA
    have eT := promote_unsigned ib T uB
    have gS := promote_bits_ge ib S
    have gT := promote_bits_ge ib T
    rw [eS] at uA gS
    rw [eT] at uB gT
    rw [eS, eT]
    rw [incUnsigned_exact ib S T hS hT gS gT uA uB s t hs ht]
    have h0 : 0 ≤ s := by have := S.minVal_unsigned uA; unfold inRange at hs; omega
    have h1 : 0 ≤ t := by have := T.minVal_unsigned uB; unfold inRange at ht; omega
    simp [h0, h1]
  · exact incMixed_exact ib hib S (promote ib T) hS hB s t hs htB

/-! ### the fold -/

/-- Mathematical sum of the argument values. -/
def argSum : List (CType × Int) → Int
  | [] => 0
  | (_, t) :: rest => t + argSum rest

/-- Every argument is a value of its type. -/
def WellTyped (args : List (CType × Int)) : Prop := ∀ x ∈ args, 0 < x.1.bits ∧ x.1.inRange x.2

/-- The specified result of a safe sum started at `s`. -/
def sumSpec (S : CType) (s : Int) (args : List (CType × Int)) : Option Int :=
  if 0 ≤ s ∧ (∀ x ∈ args, 0 ≤ x.2) ∧ s + argSum args ≤ S.maxVal then some (s + argSum args) else none

theorem argSum_nonneg (args : List (CType × Int)) (h : ∀ x ∈ args, 0 ≤ x.2) : 0 ≤ argSum args := by
  induction args with
  | nil => simp [argSum]
  | cons x rest ih =>
    obtain ⟨T, t⟩ := x
    have h1 : 0 ≤ t := h (T, t) (by simp)
    have h2 := ih (fun y hy => h y (by simp [hy]))
    simp only [argSum]; omega

theorem increaseSum_exact (ib : Nat) (hib : 0 < ib) (S : CType) (hS : 0 < S.bits) (args : List (CType × Int)) :
    ∀ (s : Int), S.inRange s → WellTyped args → (args ≠ [] ∨ 0 ≤ s) →
      increaseSum ib S s args = .ok (sumSpec S s args) := by
  induction args with
  | nil =>
    intro s hs _ h
    have h0 : 0 ≤ s := by rcases h with h | h; exact absurd rfl h; exact h
    unfold inRange at hs
    simp [increaseSum, sumSpec, argSum, h0, hs.2]
  | cons x rest ih =>
    intro s hs hw _
    obtain ⟨T, t⟩ := x
    obtain ⟨hT, ht⟩ := hw (T, t) (by simp)
    have hw' : WellTyped rest := fun y hy => hw y (by simp [hy])
    simp only [increaseSum]
    rw [increaseSum2_exact ib hib S T hS hT s t hs ht]
    unfold sum2Spec
    by_cases c : 0 ≤ s ∧ 0 ≤ t ∧ s + t ≤ S.maxVal
    · obtain ⟨c1, c2, c3⟩ := c
      have hr : S.inRange (s + t) := ⟨by have := S.minVal_nonpos; omega, c3⟩
      simp only [c1, c2, c3, and_self, ↓reduceIte]
      rw [ih (s + t) hr hw' (Or.inr (by omega))]
      unfold sumSpec
      have e : s + t + argSum rest = s + argSum ((T, t) :: rest) := by simp only [argSum]; omega
      rw [e]
      have hc : (0 ≤ s + t ∧ (∀ x ∈ rest, 0 ≤ x.2) ∧ s + argSum ((T, t) :: rest) ≤ S.maxVal) ↔
          (0 ≤ s ∧ (∀ x ∈ (T, t) :: rest, 0 ≤ x.2) ∧ s + argSum ((T, t) :: rest) ≤ S.maxVal) := by
        constructor
        · rintro ⟨_, q, r⟩
          refine ⟨c1, ?_, r⟩
          intro y hy
          rcases List.mem_cons.mp hy with rfl | hy
          · exact c2
          · exact q y hy
        · rintro ⟨_, q, r⟩
          exact ⟨by omega, fun y hy => q y (List.mem_cons_of_mem _ hy), r⟩
      simp only [hc]
    · simp only [c, ↓reduceIte]
      unfold sumSpec
      have : ¬ (0 ≤ s ∧ (∀ x ∈ (T, t) :: rest, 0 ≤ x.2) ∧ s + argSum ((T, t) :: rest) ≤ S.maxVal) := by
        rintro ⟨p, q, r⟩
        have q1 : 0 ≤ t := q (T, t) (by simp)
        have q2 := argSum_nonneg rest (fun y hy => q y (List.mem_cons_of_mem _ hy))
        simp only [argSum] at r
        exact c ⟨p, q1, by omega⟩
      simp only [this, ↓reduceIte]

end SquidModel.Math
