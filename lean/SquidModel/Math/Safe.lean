/-
Model of the overflow-safe helpers of src/SquidMath.h (property C52), expression by expression:
`Less`, both `IncreaseSumInternal` overloads, the `IncreaseSum` fold, `NaturalSum`, `SetToNaturalSumOrMax`,
`NaturalCast`. Every built-in operator goes through `arith`/`cmp*` (integral promotion + usual arithmetic
conversions, wrap for unsigned, UB for signed overflow); every `static_cast`/initialisation through `CType.conv`.
-/
import SquidModel.Math.Types

namespace SquidModel.Math

/-- `Less(a, b)` for `a : A`, `b : B`:
```
using AB = typename std::common_type<A, B>::type;
return (a >= 0 && b < 0) ? false :
       (a < 0 && b >= 0) ? true :
       static_cast<AB>(a) < static_cast<AB>(b);
```
The literal `0` has type `int`. -/
def less (ib : Nat) (A B : CType) (a b : Int) : Bool :=
  let I := cInt ib
  let AB := commonType ib A B
  if cmpGe ib A I a 0 && cmpLt ib B I b 0 then false
  else if cmpLt ib A I a 0 && cmpGe ib B I b 0 then true
  else cmpLt ib AB AB (AB.conv a) (AB.conv b)

/-- `AllUnsigned<A,B>` -/
def allUnsigned (A B : CType) : Bool := !A.signed && !B.signed

/-- `IncreaseSumInternal<S>(a, b)`, the overload for two unsigned (promoted) types:
```
using AB = typename std::common_type<A, B>::type;
const AB sum = a + b;
return (sum >= a && sum <= std::numeric_limits<S>::max()) ? std::optional<S>(sum) : std::optional<S>();
```
-/
def incUnsigned (ib : Nat) (S A B : CType) (a b : Int) : R (Option Int) :=
  let AB := commonType ib A B
  match arith ib (· + ·) A B a b with
  | .ub => .ub
  | .ok (_, v) =>
    let sum := AB.conv v
    if cmpGe ib AB A sum a && cmpLe ib AB S sum S.maxVal then .ok (some (S.conv sum)) else .ok none

/-- `IncreaseSumInternal<S>(a, b)`, the overload used when at least one (promoted) type is signed:
```
return (a < 0 || b < 0) ? std::optional<S>() :
       Less(std::numeric_limits<S>::max() - a, b) ? std::optional<S>() :
       std::optional<S>(a + b);
```
`std::numeric_limits<S>::max()` has type `S`; the difference has type `uac S A`. -/
def incMixed (ib : Nat) (S A B : CType) (a b : Int) : R (Option Int) :=
  let I := cInt ib
  if cmpLt ib A I a 0 || cmpLt ib B I b 0 then .ok none
  else
    match arith ib (· - ·) S A S.maxVal a with
    | .ub => .ub
    | .ok (D, d) =>
      if less ib D B d b then .ok none
      else
        match arith ib (· + ·) A B a b with
        | .ub => .ub
        | .ok (_, v) => .ok (some (S.conv v))

/-- Two-argument `IncreaseSum(s, t)`: `return IncreaseSumInternal<S>(+s, +t);` — unary plus promotes, overload
resolution picks the unsigned variant iff both promoted types are unsigned. -/
def increaseSum2 (ib : Nat) (S T : CType) (s t : Int) : R (Option Int) :=
  let A := promote ib S
  let B := promote ib T
  let a := A.conv s
  let b := B.conv t
  if allUnsigned A B then incUnsigned ib S A B a b else incMixed ib S A B a b

/-- Variadic `IncreaseSum(sum, t, args...)`:
```
if (const auto head = IncreaseSum(sum, t)) return IncreaseSum(head.value(), args...);
else return std::nullopt;
```
The empty list (no C++ counterpart: the templates need two arguments) returns the running sum, so that the
last step of the fold is the two-argument overload's result unchanged. -/
def increaseSum (ib : Nat) (S : CType) (s : Int) : List (CType × Int) → R (Option Int)
  | [] => .ok (some s)
  | (T, t) :: rest =>
    match increaseSum2 ib S T s t with
    | .ub => .ub
    | .ok none => .ok none
    | .ok (some head) => increaseSum ib S head rest

/-- `NaturalSum<S>(args...)`: `return IncreaseSum<S>(0, args...);` (the `int` literal 0 is converted to `S`). -/
def naturalSum (ib : Nat) (S : CType) (args : List (CType × Int)) : R (Option Int) :=
  increaseSum ib S (S.conv 0) args

/-- `SetToNaturalSumOrMax(var, args...)`: `var = NaturalSum<S>(args...).value_or(std::numeric_limits<S>::max());`
The result is the new value of `var` (also the return value). -/
def setToNaturalSumOrMax (ib : Nat) (S : CType) (args : List (CType × Int)) : R Int :=
  match naturalSum ib S args with
  | .ub => .ub
  | .ok o => .ok (o.getD S.maxVal)

/-- Outcome of `NaturalCast`. -/
inductive CastResult where
  | value : Int → CastResult
  | throws : CastResult      -- std::bad_optional_access
deriving DecidableEq, Repr

/-- `NaturalCast<Result>(s)`: `return NaturalSum<Result>(s).value();` -/
def naturalCast (ib : Nat) (Result Source : CType) (s : Int) : R CastResult :=
  match naturalSum ib Result [(Source, s)] with
  | .ub => .ub
  | .ok none => .ok .throws
  | .ok (some v) => .ok (.value v)

end SquidModel.Math
