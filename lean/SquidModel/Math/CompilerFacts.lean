/-
C52: the model's type rules (integral promotion, usual arithmetic conversions, std::common_type, the
AllUnsigned dispatch, numeric limits) reproduce what the compiler of the staged tree answers for every pair of its
16 canonical integer types (8 to 128 bits). Re-decided by the kernel on the regenerated dump at every run.
-/
import SquidModel.Math.Platform

namespace SquidModel.Math

theorem checkInt_ok : checkInt = true := by decide
theorem checkLimits_ok : checkLimits = true := by decide +kernel
theorem checkPromote_ok : checkPromote = true := by decide +kernel
theorem checkCommon_ok : checkCommon = true := by decide +kernel
theorem checkSumType_ok : checkSumType = true := by decide +kernel
theorem checkAllUnsigned_ok : checkAllUnsigned = true := by decide +kernel
theorem platformIntBits_pos : 0 < platformIntBits := by decide

end SquidModel.Math
