/-
C52: the platform of the staged tree (width of `int`, the named integer types) as dumped from its compiler
(SquidModel.Gen.MathTypes), and the compiler's own answers the model's type rules are checked against.
-/
import SquidModel.Math.Safe
import SquidModel.Gen.MathTypes

namespace SquidModel.Math
open SquidModel.Gen

/-- Width of `int` on the platform of the staged tree. -/
def platformIntBits : Nat := MathTypes.intBits

/-- The canonical type with index `i`: its tag is its index (index 0 is `int`). -/
def typeAt (i : Nat) : Option CType :=
  match MathTypes.types[i]? with
  | some (_, bits, sg, _) => some ⟨bits, sg, i⟩
  | none => none

/-- The type a harness line names (`i8`, `u64`, `ch`, `ll`, ...). -/
def typeNamed (name : String) : Option CType :=
  match MathTypes.aliases.find? (fun p => p.1 == name) with
  | some (_, i) => if i < 0 then none else typeAt i.toNat
  | none => none

/-- The (bits, signed) view of a type, as the compiler dump reports types. -/
def CType.shape (t : CType) : Nat × Bool := (t.bits, t.signed)

def indices : List Nat := List.range MathTypes.types.length

/-- every dumped `numeric_limits<T>::min()/max()` is the model's `minVal`/`maxVal` -/
def checkLimits : Bool :=
  indices.all fun i =>
    match typeAt i, MathTypes.types[i]? with
    | some t, some (_, _, _, some (lo, hi)) => t.minVal == lo && t.maxVal == hi
    | some _, some (_, _, _, none) => true
    | _, _ => false

/-- `decltype(+a)` agrees with `promote` -/
def checkPromote : Bool :=
  indices.all fun i =>
    match typeAt i, MathTypes.promoted[i]? with
    | some t, some p => (promote platformIntBits t).shape == p
    | _, _ => false

def checkMatrix {α : Type} [BEq α] (m : List (List α)) (f : CType → CType → α) : Bool :=
  indices.all fun i => indices.all fun j =>
    match typeAt i, typeAt j, (m[i]?.bind (·[j]?)) with
    | some a, some b, some x => f a b == x
    | _, _, _ => false

/-- `std::common_type<A,B>` agrees with `commonType` -/
def checkCommon : Bool := checkMatrix MathTypes.common fun a b => (commonType platformIntBits a b).shape
/-- `decltype(a+b)` agrees with `uac` -/
def checkSumType : Bool := checkMatrix MathTypes.sumType fun a b => (uac platformIntBits a b).shape
/-- the type is accepted by `AssertNaturalType` (std::numeric_limits is specialised: not so for the 128-bit
extension types under -std=c++17, for which the sum templates do not compile and `std::is_unsigned` is false) -/
def natural (t : CType) : Bool :=
  match MathTypes.types[t.tag]? with
  | some (_, _, _, some _) => true
  | _ => false

/-- `AllUnsigned<decltype(+a),decltype(+b)>` agrees with `allUnsigned` of the promoted types (for the types the sum
templates accept) -/
def checkAllUnsigned : Bool :=
  checkMatrix MathTypes.allUnsignedPromoted fun a b =>
    if natural a && natural b then allUnsigned (promote platformIntBits a) (promote platformIntBits b)
    else false

/-- index 0 is `int` -/
def checkInt : Bool := typeAt 0 == some (cInt platformIntBits)

end SquidModel.Math
