/-
C++ integer types for the model of src/SquidMath.h (property C52).

A C++ integer type is modelled by its width in bits, its signedness and an identity tag (distinct C++ types
with the same representation, e.g. `char`/`signed char` or `long`/`long long`, differ in the tag only).
Values are mathematical integers (`Int`) that lie in the range of their type; conversions wrap modulo 2^bits
(C++20 [conv.integral]; what GCC documents for earlier standards), signed arithmetic that leaves the range of its
type is undefined behaviour and is an explicit outcome (`R.ub`).

The width of `int` is a parameter `ib` of every function (the driver passes the value dumped from the compiler of
the staged tree, `Gen.MathTypes.intBits`); the theorems hold for every positive `ib`.
-/
namespace SquidModel.Math

/-- A C++ integer type. -/
structure CType where
  bits : Nat
  signed : Bool
  tag : Nat := 0
deriving DecidableEq, Repr

namespace CType

/-- 2^(bits-1) -/
def half (t : CType) : Int := 2 ^ (t.bits - 1)
/-- 2^bits -/
def card (t : CType) : Int := 2 ^ t.bits

/-- `std::numeric_limits<T>::max()` -/
def maxVal (t : CType) : Int := if t.signed then t.half - 1 else t.card - 1
/-- `std::numeric_limits<T>::min()` -/
def minVal (t : CType) : Int := if t.signed then - t.half else 0

/-- `v` is a value of type `t`. -/
def inRange (t : CType) (v : Int) : Prop := t.minVal ≤ v ∧ v ≤ t.maxVal

instance (t : CType) (v : Int) : Decidable (t.inRange v) := by unfold inRange; exact inferInstance

/-- Integral conversion of the mathematical value `v` to type `t`: the unique value of `t` congruent to `v`
modulo 2^bits. -/
def conv (t : CType) (v : Int) : Int :=
  let r := v % t.card
  if t.signed = true ∧ t.half ≤ r then r - t.card else r

end CType

/-- The type `int` of a platform whose `int` has `ib` bits. -/
def cInt (ib : Nat) : CType := ⟨ib, true, 0⟩

/-- Integral promotion ([conv.prom]): types narrower than `int` become `int`. (A type of the width of `int` with a
lower rank would become `int`/`unsigned int`: the same width and signedness.) -/
def promote (ib : Nat) (t : CType) : CType := if t.bits < ib then cInt ib else t

/-- Usual arithmetic conversions ([expr.arith.conv]) for two promoted integer operands: the type both are
converted to. Width stands for rank (a wider type never has a lower rank). At equal width and signedness the
standard picks the operand of higher rank, here the left one: the same set of values. -/
def uacP (a b : CType) : CType :=
  if a.signed = b.signed then (if a.bits < b.bits then b else a)
  else
    let u := if a.signed then b else a
    let s := if a.signed then a else b
    -- unsigned operand of greater or equal rank wins; at equal width the result is "the unsigned type
    -- corresponding to the signed operand": the same width, unsigned
    if s.bits ≤ u.bits then u else s

/-- Usual arithmetic conversions for two integer operands of any integer types: promotion first. -/
def uac (ib : Nat) (A B : CType) : CType := uacP (promote ib A) (promote ib B)

/-- `std::common_type<A,B>::type` for integer types: the type itself when both are the same type (no promotion),
otherwise the result of the usual arithmetic conversions. -/
def commonType (ib : Nat) (A B : CType) : CType := if A = B then A else uac ib A B

/-- Result of an evaluation that may have undefined behaviour. -/
inductive R (α : Type) where
  | ub : R α
  | ok : α → R α
deriving DecidableEq, Repr

/-- `a op b` for operands of types `A` and `B`: both are converted to `uac A B`; the result has that type.
Unsigned arithmetic wraps, signed arithmetic leaving the range is undefined. -/
def arith (ib : Nat) (op : Int → Int → Int) (A B : CType) (a b : Int) : R (CType × Int) :=
  let T := uac ib A B
  let r := op (T.conv a) (T.conv b)
  if T.signed then (if T.inRange r then .ok (T, r) else .ub) else .ok (T, T.conv r)

/-- `a < b` for operands of types `A` and `B` (built-in comparison after the usual arithmetic conversions). -/
def cmpLt (ib : Nat) (A B : CType) (a b : Int) : Bool :=
  let T := uac ib A B
  decide (T.conv a < T.conv b)
/-- `a >= b` -/
def cmpGe (ib : Nat) (A B : CType) (a b : Int) : Bool :=
  let T := uac ib A B
  decide (T.conv a ≥ T.conv b)
/-- `a <= b` -/
def cmpLe (ib : Nat) (A B : CType) (a b : Int) : Bool :=
  let T := uac ib A B
  decide (T.conv a ≤ T.conv b)

end SquidModel.Math
