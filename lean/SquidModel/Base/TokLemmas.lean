/-
Span lemmas for the `Parser::Tokenizer` model (`Base/Tok.lean`): every operation is given
* a closed form in terms of `List.takeWhile` / `List.dropWhile` over the set's membership test, and
* a span statement: `consumed ++ remaining = input` (or `remaining ++ consumed` for the trailing operations),
  every consumed byte is a member, the run is maximal or exactly limit-long, `parsed` grows by the consumed length,
  and the exact condition under which the operation fails.
The leading operations need no hypothesis; the trailing ones need `t.buf.length < npos` (SBuf keeps buffers ≤ maxSize < npos),
because `consumeTrailing` gives `npos` a special meaning. Core-only; meant to be reused by the parser models.
-/
import SquidModel.Base.Tok
set_option linter.unusedSimpArgs false
set_option linter.unusedVariables false
namespace SquidModel
namespace Tok

/-! ### generic list facts -/

theorem take_length_takeWhile {α} (p : α → Bool) (l : List α) : l.take (l.takeWhile p).length = l.takeWhile p := by
  induction l with
  | nil => rfl
  | cons a r ih => by_cases h : p a = true <;> simp [List.takeWhile_cons, h, ih]

theorem drop_length_takeWhile {α} (p : α → Bool) (l : List α) : l.drop (l.takeWhile p).length = l.dropWhile p := by
  induction l with
  | nil => rfl
  | cons a r ih => by_cases h : p a = true <;> simp [List.takeWhile_cons, List.dropWhile_cons, h, ih]

theorem length_takeWhile_le {α} (p : α → Bool) (l : List α) : (l.takeWhile p).length ≤ l.length := by
  induction l with
  | nil => simp
  | cons a r ih => by_cases h : p a = true <;> simp [List.takeWhile_cons, h]; omega

theorem mem_takeWhile {α} {p : α → Bool} {l : List α} {a : α} (h : a ∈ l.takeWhile p) : p a = true := by
  induction l with
  | nil => simp at h
  | cons b r ih =>
    by_cases hb : p b = true
    · simp only [List.takeWhile_cons, hb, if_true, List.mem_cons] at h
      rcases h with rfl | h
      · exact hb
      · exact ih h
    · simp [List.takeWhile_cons, hb] at h

theorem takeWhile_eq_self {α} {p : α → Bool} {l : List α} (h : (l.takeWhile p).length = l.length) : l.takeWhile p = l := by
  have := take_length_takeWhile p l
  rw [h, List.take_length] at this
  exact this.symm

/-- what stops a maximal run: nothing left, or a first element failing the test -/
theorem dropWhile_head {α} (p : α → Bool) (l : List α) :
    l.dropWhile p = [] ∨ ∃ b rest, l.dropWhile p = b :: rest ∧ p b = false := by
  induction l with
  | nil => exact Or.inl rfl
  | cons a r ih =>
    by_cases h : p a = true
    · simpa [List.dropWhile_cons, h] using ih
    · right; exact ⟨a, r, by simp [List.dropWhile_cons, h], by simpa using h⟩

theorem takeWhile_take_of_le {α} (p : α → Bool) (l : List α) (n : Nat) (h : (l.takeWhile p).length ≤ n) :
    (l.take n).takeWhile p = l.takeWhile p := by
  induction l generalizing n with
  | nil => simp
  | cons a r ih =>
    cases n with
    | zero =>
      by_cases ha : p a = true
      · simp [List.takeWhile_cons, ha] at h
      · simp [List.takeWhile_cons, ha]
    | succ n =>
      by_cases ha : p a = true
      · simp only [List.takeWhile_cons, ha, if_true, List.length_cons] at h
        simp [List.take_succ_cons, List.takeWhile_cons, ha, ih n (by omega)]
      · simp [List.take_succ_cons, List.takeWhile_cons, ha]

/-! ### the SBuf primitives -/

theorem takeLim_append_dropLim (n : Nat) (l : Bytes) : takeLim n l ++ dropLim n l = l := by
  unfold takeLim dropLim; split <;> simp

theorem takeLim_length (n : Nat) (l : Bytes) :
    (takeLim n l).length = if n = npos then l.length else min n l.length := by
  unfold takeLim; split <;> simp

theorem takeLim_length_le (n : Nat) (l : Bytes) : (takeLim n l).length ≤ l.length := by
  rw [takeLim_length]; split <;> omega

theorem dropLim_eq_drop (n : Nat) (l : Bytes) : dropLim n l = l.drop (takeLim n l).length := by
  unfold takeLim dropLim
  split
  · simp
  · rw [List.length_take]
    by_cases h : n ≤ l.length
    · rw [Nat.min_eq_left h]
    · rw [Nat.min_eq_right (by omega), List.drop_length, List.drop_eq_nil_of_le (by omega)]

theorem takeLim_isPrefix (n : Nat) (l : Bytes) : takeLim n l = l.take (takeLim n l).length := by
  unfold takeLim
  split
  · simp
  · rw [List.length_take]
    by_cases h : n ≤ l.length
    · rw [Nat.min_eq_left h]
    · rw [Nat.min_eq_right (by omega), List.take_length, List.take_of_length_le (by omega)]

theorem takeLim_zero (l : Bytes) : takeLim 0 l = [] := by simp [takeLim, npos]
theorem takeLim_npos (l : Bytes) : takeLim npos l = l := by simp [takeLim]
theorem takeLim_of_le {n : Nat} {l : Bytes} (h : l.length ≤ n) : takeLim n l = l := by
  unfold takeLim; split
  · rfl
  · exact List.take_of_length_le h

theorem findFirstNotOf_eq (cs : CharSet) (l : Bytes) :
    findFirstNotOf cs l =
      if (l.takeWhile cs.mem).length = l.length then none else some (l.takeWhile cs.mem).length := by
  induction l with
  | nil => rfl
  | cons b r ih =>
    by_cases h : cs.mem b = true
    · simp only [findFirstNotOf, h, if_true, ih, List.takeWhile_cons, List.length_cons]
      by_cases h2 : (r.takeWhile cs.mem).length = r.length
      · simp [h2]
      · have : ¬ (r.takeWhile cs.mem).length + 1 = r.length + 1 := by omega
        simp [h2, this]
    · simp [findFirstNotOf, h, List.takeWhile_cons]

theorem findFirstOf_eq (cs : CharSet) (l : Bytes) :
    findFirstOf cs l =
      if (l.takeWhile (fun b => !cs.mem b)).length = l.length then none
      else some (l.takeWhile (fun b => !cs.mem b)).length := by
  induction l with
  | nil => rfl
  | cons b r ih =>
    by_cases h : cs.mem b = true
    · simp [findFirstOf, h, List.takeWhile_cons]
    · have h' : cs.mem b = false := by simpa using h
      simp only [findFirstOf, h', ih, List.takeWhile_cons, Bool.not_false, if_true, List.length_cons, Bool.false_eq_true, if_false]
      by_cases h2 : (r.takeWhile (fun b => !cs.mem b)).length = r.length
      · simp [h2]
      · have : ¬ (r.takeWhile (fun b => !cs.mem b)).length + 1 = r.length + 1 := by omega
        simp [h2, this]

/-! ### consume -/

theorem consumeN_span (t : Tok) (n : Nat) : (consumeN t n).1 ++ (consumeN t n).2.buf = t.buf := by
  simp [consumeN]

theorem consume_span (t : Tok) (n : Nat) : (consume t n).1 ++ (consume t n).2.buf = t.buf := by
  simp [consume, takeLim_append_dropLim]

/-! ### skipAll -/

/-- closed form: `skipAll` removes exactly the maximal leading run of members -/
theorem skipAll_eq (t : Tok) (cs : CharSet) :
    skipAll t cs = ((t.buf.takeWhile cs.mem).length,
      ⟨t.buf.dropWhile cs.mem, t.parsed + (t.buf.takeWhile cs.mem).length⟩) := by
  unfold skipAll
  rw [findFirstNotOf_eq]
  by_cases h : (t.buf.takeWhile cs.mem).length = t.buf.length
  · -- everything is a member: `consume(npos)`
    have hall := takeWhile_eq_self h
    have hd : t.buf.dropWhile cs.mem = [] := by
      rw [← drop_length_takeWhile, h]; simp
    simp only [h, if_true, consume, takeLim_npos, dropLim, hd]
  · simp only [h, if_false]
    cases hk : (t.buf.takeWhile cs.mem).length with
    | zero =>
      have hnil : t.buf.takeWhile cs.mem = [] := List.eq_nil_of_length_eq_zero hk
      have hd : t.buf.dropWhile cs.mem = t.buf := by
        rw [← drop_length_takeWhile, hk]; rfl
      cases t; simp_all
    | succ k =>
      have hle := length_takeWhile_le cs.mem t.buf
      simp only [consumeN]
      rw [← hk, take_length_takeWhile, drop_length_takeWhile]

/-- span form of `skipAll` -/
theorem skipAll_span (t : Tok) (cs : CharSet) :
    ∃ skipped, skipped ++ (skipAll t cs).2.buf = t.buf ∧ (∀ b ∈ skipped, cs.mem b = true) ∧
      (skipAll t cs).1 = skipped.length ∧ (skipAll t cs).2.parsed = t.parsed + skipped.length ∧
      ((skipAll t cs).2.buf = [] ∨ ∃ b rest, (skipAll t cs).2.buf = b :: rest ∧ cs.mem b = false) := by
  refine ⟨t.buf.takeWhile cs.mem, ?_⟩
  rw [skipAll_eq]
  exact ⟨List.takeWhile_append_dropWhile, fun b hb => mem_takeWhile hb, rfl, rfl, dropWhile_head _ _⟩

/-! ### prefix -/

/-- closed form of `prefix(token, set, limit)` -/
theorem prefixOf_eq (t : Tok) (cs : CharSet) (limit : Nat) :
    prefixOf t cs limit =
      if (takeLim limit t.buf).takeWhile cs.mem = [] then none
      else some ((takeLim limit t.buf).takeWhile cs.mem,
        ⟨t.buf.drop ((takeLim limit t.buf).takeWhile cs.mem).length,
         t.parsed + ((takeLim limit t.buf).takeWhile cs.mem).length⟩) := by
  unfold prefixOf
  rw [findFirstNotOf_eq]
  have hR := takeLim_isPrefix limit t.buf
  have hRle := takeLim_length_le limit t.buf
  have hkle := length_takeWhile_le cs.mem (takeLim limit t.buf)
  by_cases h : ((takeLim limit t.buf).takeWhile cs.mem).length = (takeLim limit t.buf).length
  · simp only [h, if_true]
    have hall := takeWhile_eq_self h
    by_cases he : (t.atEnd || limit == 0) = true
    · have : takeLim limit t.buf = [] := by
        simp only [Bool.or_eq_true, atEnd, List.isEmpty_iff, beq_iff_eq] at he
        rcases he with he | he
        · simp [takeLim, he]
        · subst he; exact takeLim_zero _
      simp [he, this]
    · simp only [he, if_false]
      have hne : takeLim limit t.buf ≠ [] := by
        simp only [Bool.or_eq_true, atEnd, List.isEmpty_iff, beq_iff_eq, not_or] at he
        intro e
        have hl := takeLim_length limit t.buf
        rw [e] at hl
        simp only [List.length_nil] at hl
        split at hl
        · exact he.1 (List.eq_nil_of_length_eq_zero hl.symm)
        · have : t.buf.length ≠ 0 := fun e0 => he.1 (List.eq_nil_of_length_eq_zero e0)
          have : limit ≠ 0 := he.2
          omega
      rw [hall]
      simp [hne, consume, dropLim_eq_drop]
  · simp only [h, if_false]
    cases hk : ((takeLim limit t.buf).takeWhile cs.mem).length with
    | zero =>
      have hnil : (takeLim limit t.buf).takeWhile cs.mem = [] := List.eq_nil_of_length_eq_zero hk
      simp [hnil]
    | succ k =>
      have hne : (takeLim limit t.buf).takeWhile cs.mem ≠ [] := by
        intro e; rw [e] at hk; simp at hk
      simp only [hne, if_false, consumeN]
      rw [← hk]
      have htk : t.buf.take ((takeLim limit t.buf).takeWhile cs.mem).length = (takeLim limit t.buf).takeWhile cs.mem := by
        have e1 := take_length_takeWhile cs.mem (takeLim limit t.buf)
        have e2 : (takeLim limit t.buf).take ((takeLim limit t.buf).takeWhile cs.mem).length
            = t.buf.take ((takeLim limit t.buf).takeWhile cs.mem).length := by
          conv => lhs; arg 2; rw [hR]
          rw [List.take_take, Nat.min_eq_left hkle]
        rw [← e2, e1]
      rw [htk]

/-- span form of a successful `prefix`: the returned token is the maximal run of members inside the limit -/
theorem prefixOf_some {t : Tok} {cs : CharSet} {limit : Nat} {r : Bytes} {t' : Tok}
    (h : prefixOf t cs limit = some (r, t')) :
    r ++ t'.buf = t.buf ∧ r ≠ [] ∧ (∀ b ∈ r, cs.mem b = true) ∧ t'.parsed = t.parsed + r.length ∧
    r.length ≤ (takeLim limit t.buf).length ∧
    (r.length = (takeLim limit t.buf).length ∨ ∃ b rest, t'.buf = b :: rest ∧ cs.mem b = false) := by
  rw [prefixOf_eq] at h
  by_cases hn : (takeLim limit t.buf).takeWhile cs.mem = []
  · simp [hn] at h
  · simp only [hn, if_false, Option.some.injEq, Prod.mk.injEq] at h
    obtain ⟨rfl, rfl⟩ := h
    have hR := takeLim_isPrefix limit t.buf
    have hkle := length_takeWhile_le cs.mem (takeLim limit t.buf)
    have htk : t.buf.take ((takeLim limit t.buf).takeWhile cs.mem).length = (takeLim limit t.buf).takeWhile cs.mem := by
      have e1 := take_length_takeWhile cs.mem (takeLim limit t.buf)
      have e2 : (takeLim limit t.buf).take ((takeLim limit t.buf).takeWhile cs.mem).length
          = t.buf.take ((takeLim limit t.buf).takeWhile cs.mem).length := by
        conv => lhs; arg 2; rw [hR]
        rw [List.take_take, Nat.min_eq_left hkle]
      rw [← e2, e1]
    refine ⟨?_, hn, fun b hb => mem_takeWhile hb, rfl, hkle, ?_⟩
    · conv => lhs; arg 1; rw [← htk]
      exact List.take_append_drop _ _
    · by_cases he : ((takeLim limit t.buf).takeWhile cs.mem).length = (takeLim limit t.buf).length
      · exact Or.inl he
      · right
        -- the element of the limited region right after the run is not a member, and it is the head of the remainder
        rcases dropWhile_head cs.mem (takeLim limit t.buf) with hd | ⟨b, rest, hd, hb⟩
        · exfalso
          have := drop_length_takeWhile cs.mem (takeLim limit t.buf)
          rw [hd] at this
          have hl : (takeLim limit t.buf).length ≤ ((takeLim limit t.buf).takeWhile cs.mem).length := by
            have := congrArg List.length this
            simp only [List.length_drop, List.length_nil] at this
            omega
          omega
        · have e := drop_length_takeWhile cs.mem (takeLim limit t.buf)
          rw [hd] at e
          -- drop k (take m buf) = b :: rest  ⇒  drop k buf = b :: _
          conv at e => lhs; arg 2; rw [hR]
          rw [List.drop_take] at e
          have hne : t.buf.drop ((takeLim limit t.buf).takeWhile cs.mem).length ≠ [] := by
            intro e0; rw [e0] at e; simp at e
          cases hdr : t.buf.drop ((takeLim limit t.buf).takeWhile cs.mem).length with
          | nil => exact absurd hdr hne
          | cons b' rest' =>
            rw [hdr] at e
            have hpos : 0 < (takeLim limit t.buf).length - ((takeLim limit t.buf).takeWhile cs.mem).length := by omega
            cases hm : (takeLim limit t.buf).length - ((takeLim limit t.buf).takeWhile cs.mem).length with
            | zero => omega
            | succ m =>
              rw [hm, List.take_succ_cons] at e
              injection e with e1 e2
              exact ⟨b', rest', rfl, e1 ▸ hb⟩

/-- `prefix` fails exactly when the limited region is empty (empty buffer or limit 0) or starts with a non-member -/
theorem prefixOf_none_iff (t : Tok) (cs : CharSet) (limit : Nat) :
    prefixOf t cs limit = none ↔
      (takeLim limit t.buf = [] ∨ ∃ b rest, takeLim limit t.buf = b :: rest ∧ cs.mem b = false) := by
  rw [prefixOf_eq]
  cases hR : takeLim limit t.buf with
  | nil => simp
  | cons b rest =>
    by_cases hb : cs.mem b = true
    · simp [List.takeWhile_cons, hb]
    · simp [List.takeWhile_cons, hb]

/-- without a limit the token is simply the maximal leading run -/
theorem prefixOf_npos (t : Tok) (cs : CharSet) :
    prefixOf t cs npos =
      if t.buf.takeWhile cs.mem = [] then none
      else some (t.buf.takeWhile cs.mem, ⟨t.buf.dropWhile cs.mem, t.parsed + (t.buf.takeWhile cs.mem).length⟩) := by
  rw [prefixOf_eq, takeLim_npos, drop_length_takeWhile]

/-- a limit at least as long as the buffer behaves like no limit -/
theorem prefixOf_of_le {t : Tok} {limit : Nat} (cs : CharSet) (h : t.buf.length ≤ limit) :
    prefixOf t cs limit = prefixOf t cs npos := by
  rw [prefixOf_eq, prefixOf_eq, takeLim_of_le h, takeLim_npos]

/-! ### token -/

/-- closed form of `token(token, delimiters)` -/
theorem token_eq (t : Tok) (d : CharSet) :
    token t d =
      let l1 := t.buf.dropWhile d.mem
      let tok := l1.takeWhile (fun b => !d.mem b)
      let l2 := l1.dropWhile (fun b => !d.mem b)
      if l2 = [] then none
      else some (tok, ⟨l2.dropWhile d.mem,
        t.parsed + (t.buf.takeWhile d.mem).length + tok.length + (l2.takeWhile d.mem).length⟩) := by
  unfold token
  simp only [skipAll_eq]
  rw [findFirstOf_eq]
  by_cases h : ((t.buf.dropWhile d.mem).takeWhile (fun b => !d.mem b)).length = (t.buf.dropWhile d.mem).length
  · have : (t.buf.dropWhile d.mem).dropWhile (fun b => !d.mem b) = [] := by
      rw [← drop_length_takeWhile, h]; simp
    simp [h, this]
  · have hne : (t.buf.dropWhile d.mem).dropWhile (fun b => !d.mem b) ≠ [] := by
      intro e
      have := drop_length_takeWhile (fun b => !d.mem b) (t.buf.dropWhile d.mem)
      rw [e] at this
      have hl := congrArg List.length this
      simp only [List.length_drop, List.length_nil] at hl
      have := length_takeWhile_le (fun b => !d.mem b) (t.buf.dropWhile d.mem)
      omega
    simp only [h, if_false, hne, consumeN, skipAll_eq, take_length_takeWhile, drop_length_takeWhile]

/-- span form of a successful `token`: leading delimiters, a non-empty delimiter-free token, at least one trailing
delimiter, all trailing delimiters consumed -/
theorem token_some {t : Tok} {d : CharSet} {tok : Bytes} {t' : Tok} (h : token t d = some (tok, t')) :
    ∃ d1 d2, d1 ++ tok ++ d2 ++ t'.buf = t.buf ∧ (∀ b ∈ d1, d.mem b = true) ∧ tok ≠ [] ∧ (∀ b ∈ tok, d.mem b = false) ∧
      d2 ≠ [] ∧ (∀ b ∈ d2, d.mem b = true) ∧ (t'.buf = [] ∨ ∃ b rest, t'.buf = b :: rest ∧ d.mem b = false) ∧
      t'.parsed = t.parsed + d1.length + tok.length + d2.length := by
  rw [token_eq] at h
  simp only at h
  by_cases hn : (t.buf.dropWhile d.mem).dropWhile (fun b => !d.mem b) = []
  · simp [hn] at h
  · simp only [hn, if_false, Option.some.injEq, Prod.mk.injEq] at h
    obtain ⟨rfl, rfl⟩ := h
    refine ⟨t.buf.takeWhile d.mem, ((t.buf.dropWhile d.mem).dropWhile (fun b => !d.mem b)).takeWhile d.mem, ?_, ?_, ?_, ?_, ?_, ?_, ?_, rfl⟩
    · simp only [List.append_assoc, List.takeWhile_append_dropWhile]
    · exact fun b hb => mem_takeWhile hb
    · -- the token is non-empty: after the leading delimiters the next byte is not a delimiter (or nothing is left,
      -- but then there would be no trailing delimiter)
      intro e
      rcases dropWhile_head d.mem t.buf with h0 | ⟨b, rest, h0, hb⟩
      · rw [h0] at hn; simp at hn
      · rw [h0] at e; simp [List.takeWhile_cons, hb] at e
    · intro b hb
      have := mem_takeWhile hb
      simpa using this
    · intro e
      rcases dropWhile_head (fun b => !d.mem b) (t.buf.dropWhile d.mem) with h0 | ⟨b, rest, h0, hb⟩
      · exact hn h0
      · rw [h0] at e
        have hb' : d.mem b = true := by simpa using hb
        simp [List.takeWhile_cons, hb'] at e
    · exact fun b hb => mem_takeWhile hb
    · exact dropWhile_head _ _

/-- `token` fails exactly when, after the leading delimiters, no delimiter follows -/
theorem token_none_iff (t : Tok) (d : CharSet) :
    token t d = none ↔ ∀ b ∈ t.buf.dropWhile d.mem, d.mem b = false := by
  rw [token_eq]
  simp only
  constructor
  · intro h
    by_cases hn : (t.buf.dropWhile d.mem).dropWhile (fun b => !d.mem b) = []
    · intro b hb
      have e := drop_length_takeWhile (fun b => !d.mem b) (t.buf.dropWhile d.mem)
      rw [hn] at e
      have hl := congrArg List.length e
      simp only [List.length_drop, List.length_nil] at hl
      have hle := length_takeWhile_le (fun b => !d.mem b) (t.buf.dropWhile d.mem)
      have hall := takeWhile_eq_self (p := fun b => !d.mem b) (l := t.buf.dropWhile d.mem) (by omega)
      rw [← hall] at hb
      simpa using mem_takeWhile hb
    · simp [hn] at h
  · intro h
    have : (t.buf.dropWhile d.mem).dropWhile (fun b => !d.mem b) = [] := by
      rcases dropWhile_head (fun b => !d.mem b) (t.buf.dropWhile d.mem) with h0 | ⟨b, rest, h0, hb⟩
      · exact h0
      · exfalso
        have hmem : b ∈ t.buf.dropWhile d.mem := by
          have : b ∈ (t.buf.dropWhile d.mem).dropWhile (fun b => !d.mem b) := by rw [h0]; simp
          exact (List.dropWhile_sublist _).subset this
        have := h b hmem
        simp [this] at hb
    simp [this]

/-! ### single-element and literal skips -/

theorem skipOne_eq (t : Tok) (cs : CharSet) :
    skipOne t cs = match t.buf with
      | b :: rest => if cs.mem b then some ⟨rest, t.parsed + 1⟩ else none
      | [] => none := by
  unfold skipOne
  cases h : t.buf with
  | nil => rfl
  | cons b rest => simp [consumeN, h]

theorem skipChar_eq (t : Tok) (c : UInt8) :
    skipChar t c = match t.buf with
      | b :: rest => if b = c then some ⟨rest, t.parsed + 1⟩ else none
      | [] => none := by
  unfold skipChar
  cases h : t.buf with
  | nil => rfl
  | cons b rest => simp [consumeN, h]

/-- `skip(token)` succeeds exactly on a non-empty literal prefix and removes it -/
theorem skip_some_iff (t : Tok) (tok : Bytes) (t' : Tok) :
    skip t tok = some t' ↔ tok ≠ [] ∧ tok ++ t'.buf = t.buf ∧ t'.parsed = t.parsed + tok.length := by
  unfold skip
  by_cases hp : tok.isPrefixOf t.buf = true
  · have hpre := List.isPrefixOf_iff_prefix.mp hp
    obtain ⟨rest, hrest⟩ := hpre
    have htake : t.buf.take tok.length = tok := by rw [← hrest]; simp
    have hdrop : t.buf.drop tok.length = rest := by rw [← hrest]; simp
    simp only [hp, if_true, consumeN, htake, hdrop]
    by_cases he : tok = []
    · subst he; simp
    · have : tok.length ≠ 0 := fun e => he (List.eq_nil_of_length_eq_zero e)
      simp only [this, if_false, Option.some.injEq, he, ne_eq, not_false_eq_true, true_and]
      constructor
      · rintro rfl; exact ⟨hrest, rfl⟩
      · rintro ⟨h1, h2⟩
        cases t' with | mk b p =>
        simp only at h1 h2
        have : b = rest := by rw [← hrest] at h1; exact List.append_cancel_left h1
        subst this; subst h2; rfl
  · simp only [hp, Bool.false_eq_true, if_false]
    constructor
    · intro h; cases h
    · rintro ⟨_, h1, _⟩
      exfalso; apply hp
      exact List.isPrefixOf_iff_prefix.mpr ⟨t'.buf, h1⟩

theorem skip_none_iff (t : Tok) (tok : Bytes) : skip t tok = none ↔ (tok = [] ∨ ¬ tok <+: t.buf) := by
  unfold skip
  by_cases hp : tok.isPrefixOf t.buf = true
  · have hpre := List.isPrefixOf_iff_prefix.mp hp
    obtain ⟨rest, hrest⟩ := hpre
    have htake : t.buf.take tok.length = tok := by rw [← hrest]; simp
    simp only [hp, if_true, consumeN, htake]
    by_cases he : tok = []
    · simp [he]
    · have : tok.length ≠ 0 := fun e => he (List.eq_nil_of_length_eq_zero e)
      have hpre : tok <+: t.buf := ⟨rest, hrest⟩
      simp [this, he, hpre]
  · have : ¬ tok <+: t.buf := fun h => hp (List.isPrefixOf_iff_prefix.mpr h)
    simp [hp, this]

/-! ### trailing operations (need `t.buf.length < npos`) -/

theorem countWhile_eq (cs : CharSet) (l : Bytes) : countWhile cs l = (l.takeWhile cs.mem).length := by
  induction l with
  | nil => rfl
  | cons b r ih => by_cases h : cs.mem b = true <;> simp [countWhile, h, ih]

/-- `consumeTrailing(n)` for a count `n ≤ length` (what every caller passes) -/
theorem consumeTrailing_of_le {t : Tok} {n : Nat} (hlen : t.buf.length < npos) (hn : n ≤ t.buf.length) :
    consumeTrailing t n = (t.buf.drop (t.buf.length - n), ⟨t.buf.take (t.buf.length - n), t.parsed + n⟩) := by
  unfold consumeTrailing
  have : n ≠ npos := by omega
  simp [this]

/-- the region `suffix()` looks at, reversed: the first `limit` bytes of the reversed buffer -/
def revRegion (limit : Nat) (l : Bytes) : Bytes := if limit < l.length then l.reverse.take limit else l.reverse

theorem revRegion_length_le (limit : Nat) (l : Bytes) : (revRegion limit l).length ≤ l.length := by
  unfold revRegion; split <;> simp <;> omega

theorem revRegion_isPrefix (limit : Nat) (l : Bytes) : revRegion limit l = l.reverse.take (revRegion limit l).length := by
  unfold revRegion
  split
  · rename_i h
    rw [List.length_take, List.length_reverse, Nat.min_eq_left (by omega)]
  · exact (List.take_of_length_le (by simp)).symm

/-- closed form of `suffix(token, set, limit)`, stated on the reversed buffer -/
theorem suffixOf_eq (t : Tok) (cs : CharSet) (limit : Nat) (hlen : t.buf.length < npos) :
    suffixOf t cs limit =
      if ((revRegion limit t.buf).takeWhile cs.mem).length = 0 then none
      else some ((t.buf.reverse.take ((revRegion limit t.buf).takeWhile cs.mem).length).reverse,
        ⟨(t.buf.reverse.drop ((revRegion limit t.buf).takeWhile cs.mem).length).reverse,
         t.parsed + ((revRegion limit t.buf).takeWhile cs.mem).length⟩) := by
  unfold suffixOf
  have hspan : (if limit < t.buf.length then t.buf.drop (t.buf.length - limit) else t.buf).reverse = revRegion limit t.buf := by
    unfold revRegion
    split
    · rename_i h
      rw [List.reverse_drop]
      congr 1; omega
    · rfl
  simp only [countWhile_eq, hspan]
  have hk : ((revRegion limit t.buf).takeWhile cs.mem).length ≤ t.buf.length :=
    Nat.le_trans (length_takeWhile_le _ _) (revRegion_length_le _ _)
  by_cases h0 : ((revRegion limit t.buf).takeWhile cs.mem).length = 0
  · simp [h0]
  · simp only [h0, if_false, consumeTrailing_of_le hlen hk]
    rw [List.take_reverse, List.drop_reverse]
    simp

/-- span form of a successful `suffix`: the token is the maximal trailing run of members within the limit -/
theorem suffixOf_some {t : Tok} {cs : CharSet} {limit : Nat} {r : Bytes} {t' : Tok} (hlen : t.buf.length < npos)
    (h : suffixOf t cs limit = some (r, t')) :
    t'.buf ++ r = t.buf ∧ r ≠ [] ∧ (∀ b ∈ r, cs.mem b = true) ∧ t'.parsed = t.parsed + r.length ∧
    r.length ≤ min limit t.buf.length ∧
    (r.length = min limit t.buf.length ∨ ∃ pre b, t'.buf = pre ++ [b] ∧ cs.mem b = false) := by
  rw [suffixOf_eq t cs limit hlen] at h
  by_cases h0 : ((revRegion limit t.buf).takeWhile cs.mem).length = 0
  · simp [h0] at h
  · simp only [h0, if_false, Option.some.injEq, Prod.mk.injEq] at h
    obtain ⟨rfl, rfl⟩ := h
    have hRle := revRegion_length_le limit t.buf
    have hkle := length_takeWhile_le cs.mem (revRegion limit t.buf)
    have hRlen : (revRegion limit t.buf).length = min limit t.buf.length := by
      unfold revRegion; split <;> simp <;> omega
    have hrun : t.buf.reverse.take ((revRegion limit t.buf).takeWhile cs.mem).length = (revRegion limit t.buf).takeWhile cs.mem := by
      have e1 := take_length_takeWhile cs.mem (revRegion limit t.buf)
      have e2 : (revRegion limit t.buf).take ((revRegion limit t.buf).takeWhile cs.mem).length
          = t.buf.reverse.take ((revRegion limit t.buf).takeWhile cs.mem).length := by
        conv => lhs; arg 2; rw [revRegion_isPrefix]
        rw [List.take_take, Nat.min_eq_left hkle]
      rw [← e2, e1]
    refine ⟨?_, ?_, ?_, ?_, ?_, ?_⟩
    · rw [← List.reverse_append, List.take_append_drop, List.reverse_reverse]
    · intro e
      have := congrArg List.length e
      simp only [List.length_reverse, List.length_take, List.length_nil] at this
      omega
    · intro b hb
      rw [hrun] at hb
      exact mem_takeWhile (List.mem_reverse.mp hb)
    · simp only [List.length_reverse, List.length_take]
      congr 1; omega
    · simp only [List.length_reverse, List.length_take]; omega
    · by_cases he : ((revRegion limit t.buf).takeWhile cs.mem).length = (revRegion limit t.buf).length
      · left; simp only [List.length_reverse, List.length_take]; omega
      · right
        rcases dropWhile_head cs.mem (revRegion limit t.buf) with hd | ⟨b, rest, hd, hb⟩
        · exfalso
          have e := drop_length_takeWhile cs.mem (revRegion limit t.buf)
          rw [hd] at e
          have := congrArg List.length e
          simp only [List.length_drop, List.length_nil] at this
          omega
        · have e := drop_length_takeWhile cs.mem (revRegion limit t.buf)
          rw [hd] at e
          conv at e => lhs; arg 2; rw [revRegion_isPrefix]
          rw [List.drop_take] at e
          cases hdr : t.buf.reverse.drop ((revRegion limit t.buf).takeWhile cs.mem).length with
          | nil => rw [hdr] at e; simp at e
          | cons b' rest' =>
            rw [hdr] at e
            cases hm : (revRegion limit t.buf).length - ((revRegion limit t.buf).takeWhile cs.mem).length with
            | zero => omega
            | succ m =>
              rw [hm, List.take_succ_cons] at e
              injection e with e1 e2
              exact ⟨rest'.reverse, b', by simp, e1 ▸ hb⟩

/-- `suffix` fails exactly when the limited region is empty or ends with a non-member -/
theorem suffixOf_none_iff (t : Tok) (cs : CharSet) (limit : Nat) (hlen : t.buf.length < npos) :
    suffixOf t cs limit = none ↔
      (revRegion limit t.buf = [] ∨ ∃ b rest, revRegion limit t.buf = b :: rest ∧ cs.mem b = false) := by
  rw [suffixOf_eq t cs limit hlen]
  cases hR : revRegion limit t.buf with
  | nil => simp
  | cons b rest =>
    by_cases hb : cs.mem b = true
    · simp [List.takeWhile_cons, hb]
    · simp [List.takeWhile_cons, hb]

theorem findLastNotOf_eq (cs : CharSet) (l : Bytes) :
    findLastNotOf cs l =
      if (l.reverse.takeWhile cs.mem).length = l.length then none
      else some (l.length - (l.reverse.takeWhile cs.mem).length - 1) := by
  induction l with
  | nil => rfl
  | cons b r ih =>
    have hle := length_takeWhile_le cs.mem r.reverse
    simp only [List.length_reverse] at hle
    simp only [findLastNotOf, ih, List.reverse_cons, List.takeWhile_append, List.length_reverse, List.length_cons]
    by_cases h : (r.reverse.takeWhile cs.mem).length = r.length
    · simp only [h, if_true]
      by_cases hb : cs.mem b = true
      · simp [List.takeWhile_cons, hb]
      · simp [List.takeWhile_cons, hb]
    · have h2 : ¬ (r.reverse.takeWhile cs.mem).length = r.length + 1 := by omega
      simp only [h, if_false, h2]
      congr 1; omega

/-- closed form of `skipAllTrailing`: removes exactly the maximal trailing run of members -/
theorem skipAllTrailing_eq (t : Tok) (cs : CharSet) (hlen : t.buf.length < npos) :
    skipAllTrailing t cs = ((t.buf.reverse.takeWhile cs.mem).length,
      ⟨(t.buf.reverse.dropWhile cs.mem).reverse, t.parsed + (t.buf.reverse.takeWhile cs.mem).length⟩) := by
  unfold skipAllTrailing
  rw [findLastNotOf_eq]
  have hle := length_takeWhile_le cs.mem t.buf.reverse
  simp only [List.length_reverse] at hle
  have e : t.buf.take (t.buf.length - (t.buf.reverse.takeWhile cs.mem).length) = (t.buf.reverse.dropWhile cs.mem).reverse := by
    rw [← drop_length_takeWhile, List.drop_reverse, List.reverse_reverse]
  by_cases hall : (t.buf.reverse.takeWhile cs.mem).length = t.buf.length
  · -- everything is a member
    simp only [hall, if_true, Nat.sub_zero]
    by_cases h0 : t.buf.length = 0
    · have hb : t.buf = [] := List.eq_nil_of_length_eq_zero h0
      cases t with | mk b p =>
      simp only at hb; subst hb; simp
    · simp only [h0, if_false, consumeTrailing_of_le hlen (Nat.le_refl _)]
      rw [hall] at e
      simp only [Nat.sub_self] at e ⊢
      simp [← e]
  · simp only [hall, if_false]
    have hsl : t.buf.length - (t.buf.length - (t.buf.reverse.takeWhile cs.mem).length - 1 + 1) = (t.buf.reverse.takeWhile cs.mem).length := by
      omega
    rw [hsl]
    by_cases h0 : (t.buf.reverse.takeWhile cs.mem).length = 0
    · have hd : t.buf.reverse.dropWhile cs.mem = t.buf.reverse := by
        rw [← drop_length_takeWhile, h0]; rfl
      cases t; simp_all
    · simp only [h0, if_false, consumeTrailing_of_le hlen hle, e]
      simp
      omega

/-- span form of `skipAllTrailing` -/
theorem skipAllTrailing_span (t : Tok) (cs : CharSet) (hlen : t.buf.length < npos) :
    ∃ removed, (skipAllTrailing t cs).2.buf ++ removed = t.buf ∧ (∀ b ∈ removed, cs.mem b = true) ∧
      (skipAllTrailing t cs).1 = removed.length ∧ (skipAllTrailing t cs).2.parsed = t.parsed + removed.length ∧
      ((skipAllTrailing t cs).2.buf = [] ∨ ∃ pre b, (skipAllTrailing t cs).2.buf = pre ++ [b] ∧ cs.mem b = false) := by
  refine ⟨(t.buf.reverse.takeWhile cs.mem).reverse, ?_⟩
  rw [skipAllTrailing_eq t cs hlen]
  refine ⟨?_, ?_, by simp, by simp, ?_⟩
  · simp only
    rw [← List.reverse_append, List.takeWhile_append_dropWhile, List.reverse_reverse]
  · intro b hb; exact mem_takeWhile (List.mem_reverse.mp hb)
  · simp only
    rcases dropWhile_head cs.mem t.buf.reverse with h | ⟨b, rest, h, hb⟩
    · left; rw [h]; rfl
    · right; exact ⟨rest.reverse, b, by rw [h]; simp, hb⟩

theorem skipOneTrailing_eq (t : Tok) (cs : CharSet) (hlen : t.buf.length < npos) :
    skipOneTrailing t cs = match t.buf.getLast? with
      | some b => if cs.mem b then some ⟨t.buf.dropLast, t.parsed + 1⟩ else none
      | none => none := by
  unfold skipOneTrailing
  cases h : t.buf.getLast? with
  | none => rfl
  | some b =>
    have hne : t.buf ≠ [] := by intro e; rw [e] at h; simp at h
    have h1 : 1 ≤ t.buf.length := by
      cases hb : t.buf with
      | nil => exact absurd hb hne
      | cons _ _ => simp
    simp only [consumeTrailing_of_le hlen h1, List.dropLast_eq_take]

/-- `skipSuffix(token)` succeeds exactly on a non-empty literal suffix and removes it -/
theorem skipSuffix_some_iff (t : Tok) (tok : Bytes) (t' : Tok) (hlen : t.buf.length < npos) :
    skipSuffix t tok = some t' ↔ tok ≠ [] ∧ t'.buf ++ tok = t.buf ∧ t'.parsed = t.parsed + tok.length := by
  unfold skipSuffix
  by_cases hl : t.buf.length < tok.length
  · simp only [hl, if_true]
    constructor
    · intro h; cases h
    · rintro ⟨_, h1, _⟩
      have := congrArg List.length h1
      simp only [List.length_append] at this
      omega
  · have hle : tok.length ≤ t.buf.length := by omega
    have hoff : (if tok.length < t.buf.length then t.buf.length - tok.length else 0) = t.buf.length - tok.length := by
      split <;> omega
    simp only [hl, if_false, hoff, consumeTrailing_of_le hlen hle]
    by_cases he : t.buf.drop (t.buf.length - tok.length) = tok
    · simp only [he, if_true]
      by_cases hz : tok = []
      · subst hz; simp
      · have : tok.length ≠ 0 := fun e => hz (List.eq_nil_of_length_eq_zero e)
        simp only [this, if_false, Option.some.injEq, ne_eq, hz, not_false_eq_true, true_and]
        have hsplit : t.buf.take (t.buf.length - tok.length) ++ tok = t.buf := by
          conv => lhs; arg 2; rw [← he]
          exact List.take_append_drop _ _
        constructor
        · rintro rfl; exact ⟨hsplit, rfl⟩
        · rintro ⟨h1, h2⟩
          cases t' with | mk b p =>
          simp only at h1 h2
          have : b = t.buf.take (t.buf.length - tok.length) := by
            rw [← hsplit] at h1; exact List.append_cancel_right h1
          subst this; subst h2; rfl
    · simp only [he, if_false]
      constructor
      · intro h; cases h
      · rintro ⟨_, h1, _⟩
        exfalso; apply he
        rw [← h1]
        simp

/-! ### throwing wrappers -/

theorem skipRequired_ok_iff (t : Tok) (tok : Bytes) (t' : Tok) :
    skipRequired t tok = .ok t' ↔ tok ++ t'.buf = t.buf ∧ t'.parsed = t.parsed + tok.length := by
  unfold skipRequired
  cases hs : skip t tok with
  | some t1 =>
    have := (skip_some_iff t tok t1).mp hs
    simp only [Except.ok.injEq]
    constructor
    · rintro rfl; exact ⟨this.2.1, this.2.2⟩
    · rintro ⟨h1, h2⟩
      cases t' with | mk b p =>
      cases t1 with | mk b1 p1 =>
      simp only at h1 h2 this
      have : b = b1 := by
        have e := this.2.1; rw [← h1] at e; exact (List.append_cancel_left e).symm
      subst this
      have : p = p1 := by rw [h2, this.2.2]
      subst this; rfl
  | none =>
    have hn := (skip_none_iff t tok).mp hs
    simp only
    by_cases he : tok = []
    · subst he
      simp only [List.isEmpty_nil, if_true, Except.ok.injEq, List.nil_append, List.length_nil, Nat.add_zero]
      constructor
      · rintro rfl; exact ⟨rfl, rfl⟩
      · rintro ⟨h1, h2⟩; cases t'; cases t; simp_all
    · have hnp : ¬ tok <+: t.buf := by rcases hn with h | h; exact absurd h he; exact h
      have : tok.isEmpty = false := by cases tok with | nil => exact absurd rfl he | cons _ _ => rfl
      simp only [this, Bool.false_eq_true, if_false]
      constructor
      · intro h; split at h <;> cases h
      · rintro ⟨h1, _⟩; exact absurd ⟨t'.buf, h1⟩ hnp

theorem skipRequired_insufficient_iff (t : Tok) (tok : Bytes) :
    skipRequired t tok = .error .insufficient ↔ (tok ≠ [] ∧ ¬ tok <+: t.buf ∧ t.buf <+: tok) := by
  unfold skipRequired
  cases hs : skip t tok with
  | some t1 =>
    have := (skip_some_iff t tok t1).mp hs
    simp only
    constructor
    · intro h; cases h
    · rintro ⟨_, h, _⟩; exact absurd ⟨t1.buf, this.2.1⟩ h
  | none =>
    have hn := (skip_none_iff t tok).mp hs
    simp only
    by_cases he : tok = []
    · subst he; simp
    · have hnp : ¬ tok <+: t.buf := by rcases hn with h | h; exact absurd h he; exact h
      have : tok.isEmpty = false := by cases tok with | nil => exact absurd rfl he | cons _ _ => rfl
      simp only [this, Bool.false_eq_true, if_false, ne_eq, he, not_false_eq_true, hnp, true_and]
      by_cases hp : t.buf.isPrefixOf tok = true
      · simp [hp, List.isPrefixOf_iff_prefix.mp hp]
      · have : ¬ t.buf <+: tok := fun h => hp (List.isPrefixOf_iff_prefix.mpr h)
        simp [hp, this]

theorem prefixThrow_ok_iff (t : Tok) (cs : CharSet) (limit : Nat) (r : Bytes) (t' : Tok) :
    prefixThrow t cs limit = .ok (r, t') ↔ prefixOf t cs limit = some (r, t') ∧ t'.buf ≠ [] := by
  unfold prefixThrow
  by_cases he : t.atEnd = true
  · have hb : t.buf = [] := by simpa [atEnd] using he
    have : prefixOf t cs limit = none := by
      rw [prefixOf_none_iff]; left; simp [takeLim, hb]
    simp [he, this]
  · simp only [he, Bool.false_eq_true, if_false]
    cases hp : prefixOf t cs limit with
    | none => simp
    | some p =>
      obtain ⟨r1, t1⟩ := p
      simp only
      by_cases h1 : t1.atEnd = true
      · have : t1.buf = [] := by simpa [atEnd] using h1
        simp only [h1, if_true]
        constructor
        · intro h; cases h
        · rintro ⟨h2, h3⟩; injection h2 with h2; injection h2 with _ h4; subst h4; exact absurd this h3
      · have : t1.buf ≠ [] := by simpa [atEnd] using h1
        simp only [h1, Bool.false_eq_true, if_false, Except.ok.injEq, Prod.mk.injEq, Option.some.injEq]
        constructor
        · rintro ⟨rfl, rfl⟩; exact ⟨⟨rfl, rfl⟩, this⟩
        · rintro ⟨⟨rfl, rfl⟩, _⟩; exact ⟨rfl, rfl⟩

end Tok
end SquidModel
