/-
Arbitrary-precision specification of `Parser::Tokenizer::int64`: what the parser must return, written without the
cutoff/cutlim machinery and without machine integers. The lexical steps (sign, `0x`, base 0) reuse the three
non-recursive functions of the model (`lexSign`, `lexPrefix`, `resolveBase`); the digit run, its value and the range
test are independent: maximal run of valid digits, Horner value in unbounded `Nat`, comparison with the int64 limits.
`inUbZone` is the set of inputs on which a signed accumulator overflows: a '-' numeral one of whose digit-run prefixes
denotes exactly 2^63. Core-only.
-/
import SquidModel.Base.TokInt
namespace SquidModel
namespace Tok

/-- `c` is a digit of base `b` -/
def validDigit (b : Int) (c : UInt8) : Bool :=
  match digitVal c with
  | some d => decide ((d : Int) < b)
  | none => false

def digitOf (c : UInt8) : Nat := (digitVal c).getD 0

/-- value of the digit string `ds` in base `b`, continuing from `a` (Horner, unbounded) -/
def hornerFrom (b : Nat) (a : Nat) (ds : Bytes) : Nat := ds.foldl (fun a c => a * b + digitOf c) a

/-- the value of the digit string -/
def digitsValue (b : Nat) (ds : Bytes) : Nat := hornerFrom b 0 ds

/-- some non-empty prefix of `ds`, continuing from `a`, denotes exactly `bound` -/
def hitsFrom (b bound : Nat) : Nat → Bytes → Bool
  | _, [] => false
  | a, c :: r => (a * b + digitOf c == bound) || hitsFrom b bound (a * b + digitOf c) r

/-- the digits part of the specification: maximal digit run, exact value, range test -/
def specDigits (neg : Bool) (base : Int) (s : Bytes) (off : Nat) : IntOutcome :=
  let ds := s.takeWhile (validDigit base)
  if ds.isEmpty then .fail else
  let mag : Int := (digitsValue base.toNat ds : Nat)
  let v : Int := if neg then -mag else mag
  if i64Min ≤ v ∧ v ≤ i64Max then .ok v (off + ds.length) else .fail

def ubDigits (neg : Bool) (base : Int) (s : Bytes) : Bool :=
  neg && hitsFrom base.toNat two63 0 (s.takeWhile (validDigit base))

/-- what `int64` must return -/
def specInt64 (buf : Bytes) (base : Int) (allowSign : Bool) (limit : Nat) : IntOutcome :=
  if buf.isEmpty || limit == 0 then .fail else
  let sg := lexSign allowSign (takeLim limit buf)
  if allowSign && sg.2.1.isEmpty then .fail else
  let px := lexPrefix base sg.2.1 sg.2.2
  if px.2.1.isEmpty then .fail else
  specDigits sg.1 (resolveBase px.1 px.2.1) px.2.1 px.2.2

/-- the inputs on which an `int64_t` accumulator overflows -/
def inUbZone (buf : Bytes) (base : Int) (allowSign : Bool) (limit : Nat) : Bool :=
  if buf.isEmpty || limit == 0 then false else
  let sg := lexSign allowSign (takeLim limit buf)
  if allowSign && sg.2.1.isEmpty then false else
  let px := lexPrefix base sg.2.1 sg.2.2
  if px.2.1.isEmpty then false else
  ubDigits sg.1 (resolveBase px.1 px.2.1) px.2.1

end Tok
end SquidModel
