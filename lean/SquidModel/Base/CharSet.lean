/-
Model of `CharacterSet` (src/base/CharacterSet.{h,cc}): a set of octets, represented as a 256-bit mask
(bit b set ⇔ octet b is a member). Core-only.
-/
import SquidModel.Base.Bytes
namespace SquidModel

structure CharSet where
  mask : Nat
  deriving DecidableEq, Repr

namespace CharSet

def full : Nat := 2 ^ 256 - 1

/-- `CharacterSet::operator[]` -/
def mem (c : CharSet) (b : UInt8) : Bool := c.mask.testBit b.toNat

def empty : CharSet := ⟨0⟩

/-- `CharacterSet::operator+` (union) -/
def union (a b : CharSet) : CharSet := ⟨a.mask ||| b.mask⟩

/-- `CharacterSet::complement` -/
def complement (a : CharSet) : CharSet := ⟨a.mask ^^^ full⟩

/-- `CharacterSet::operator-` (remove the members of `b`) -/
def diff (a b : CharSet) : CharSet := ⟨a.mask &&& (b.mask ^^^ full)⟩

/-- `CharacterSet(label, lo, hi)` -/
def ofRange (lo hi : Nat) : CharSet := ⟨(List.range 256).foldl (fun m i => if lo ≤ i ∧ i ≤ hi then m ||| (1 <<< i) else m) 0⟩

/-- `CharacterSet(label, "chars")` / `add` -/
def ofBytes (l : Bytes) : CharSet := ⟨l.foldl (fun m b => m ||| (1 <<< b.toNat)) 0⟩

instance : Add CharSet := ⟨union⟩
instance : Sub CharSet := ⟨diff⟩

theorem mem_union (a b : CharSet) (x : UInt8) : (a.union b).mem x = (a.mem x || b.mem x) := by
  simp [mem, union, Nat.testBit_or]

theorem testBit_full {i : Nat} (h : i < 256) : full.testBit i = true := by
  unfold full
  rw [Nat.testBit_two_pow_sub_one]
  simpa using h

theorem mem_complement (a : CharSet) (x : UInt8) : a.complement.mem x = !a.mem x := by
  simp [mem, complement, Nat.testBit_xor, testBit_full x.toNat_lt]

theorem mem_diff (a b : CharSet) (x : UInt8) : (a.diff b).mem x = (a.mem x && !b.mem x) := by
  simp [mem, diff, Nat.testBit_and, Nat.testBit_xor, testBit_full x.toNat_lt]

end CharSet
end SquidModel
