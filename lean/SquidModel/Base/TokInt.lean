/-
Model of `Parser::Tokenizer::int64` and `udec64` (src/parser/Tokenizer.cc), branch by branch, with the C++ integer
types explicit: `acc` is an `int64_t` (signed overflow = undefined behaviour = outcome `ub`) or, after the candidate
fix, a `uint64_t` (wraps, no UB); which of the two is read from the staged source (`Gen.TokConsts.accSigned`).
`base` is a C `int` (any value), `cutoff` a `uint64_t`, `cutlim` an `int`. Core-only.
-/
import SquidModel.Base.Tok
import SquidModel.Gen.TokConsts
namespace SquidModel
namespace Tok

inductive IntOutcome where
  /-- returned true: `result = v`, `success(consumed)` -/
  | ok (v : Int) (consumed : Nat)
  /-- returned false; `result` and the tokenizer untouched -/
  | fail
  /-- the execution performs a signed 64-bit overflow (`acc *= base`, `acc += c` or `-acc`) -/
  | ub
  deriving DecidableEq, Repr

def two63 : Nat := 9223372036854775808
def two64 : Nat := 18446744073709551616
def i64Max : Int := 9223372036854775807
def i64Min : Int := -9223372036854775808

def inI64 (x : Int) : Bool := decide (i64Min ≤ x) && decide (x ≤ i64Max)

/-- `static_cast<uint64_t>(x)` -/
def toU64 (x : Int) : Nat := (x % (two64 : Int)).toNat

/-- `static_cast<int64_t>(n)` of an unsigned 64-bit value (two's complement) -/
def toI64 (n : Nat) : Int := if n % two64 < two63 then ((n % two64 : Nat) : Int) else ((n % two64 : Nat) : Int) - (two64 : Int)

/-- conversion of a `uint64_t` to `int` (`const int cutlim = …`; modular) -/
def toI32 (n : Nat) : Int := if n % 4294967296 < 2147483648 then ((n % 4294967296 : Nat) : Int) else ((n % 4294967296 : Nat) : Int) - 4294967296

/-- `xisdigit(c) ? c - '0' : xisalpha(c) ? c - (xisupper(c) ? 'A' - 10 : 'a' - 10) : break` in the C locale -/
def digitVal (c : UInt8) : Option Nat :=
  if 48 ≤ c ∧ c ≤ 57 then some (c.toNat - 48)
  else if 65 ≤ c ∧ c ≤ 90 then some (c.toNat - 55)
  else if 97 ≤ c ∧ c ≤ 122 then some (c.toNat - 87)
  else none

inductive LoopOut where
  | done (any : Int) (acc : Int) (n : Nat)
  | ub
  deriving DecidableEq, Repr

/-- the `do { … } while (++s < end)` loop; `n` counts how far `s` advanced. The caller has checked `s < end`,
so the first iteration of the do-while is the first step here. -/
def int64Loop (signed : Bool) (base : Int) (cutoff : Nat) (cutlim : Int) : Bytes → Int → Int → Nat → LoopOut
  | [], any, acc, n => .done any acc n
  | c :: r, any, acc, n =>
    match digitVal c with
    | none => .done any acc n                       -- break
    | some d =>
      if (d : Int) ≥ base then .done any acc n      -- `if (c >= base) break;`
      else if any < 0 ∨ toU64 acc > cutoff ∨ (toU64 acc = cutoff ∧ (d : Int) > cutlim) then
        int64Loop signed base cutoff cutlim r (-1) acc (n + 1)
      else if signed then
        let m := acc * base                          -- `acc *= base` on int64_t
        if !inI64 m then .ub else
        let a := m + (d : Int)                       -- `acc += c`
        if !inI64 a then .ub else
        int64Loop signed base cutoff cutlim r 1 a (n + 1)
      else
        let m := (acc * (toU64 base : Int)) % (two64 : Int)      -- uint64_t arithmetic wraps
        let a := (m + (d : Int)) % (two64 : Int)
        int64Loop signed base cutoff cutlim r 1 a (n + 1)

/-- `if (allowSign) { if (*s == '-') { neg = true; ++s; } else if (*s == '+') ++s; … }` → (neg, s, s - start) -/
def lexSign (allowSign : Bool) (range : Bytes) : Bool × Bytes × Nat :=
  if allowSign then
    match range with
    | c :: r => if c = 45 then (true, r, 1) else if c = 43 then (false, r, 1) else (false, range, 0)
    | [] => (false, range, 0)
  else (false, range, 0)

/-- `if ((base == 0 || base == 16) && *s == '0' && (s+1 < end) && tolower(*(s+1)) == 'x') { s += 2; base = 16; }` -/
def lexPrefix (base : Int) (s : Bytes) (off : Nat) : Int × Bytes × Nat :=
  if base = 0 ∨ base = 16 then
    match s with
    | c :: x :: r => if c = 48 ∧ (x = 120 ∨ x = 88) then (16, r, off + 2) else (base, s, off)
    | _ => (base, s, off)
  else (base, s, off)

/-- `if (base == 0) base = (*s == '0') ? 8 : 10;` -/
def resolveBase (base : Int) (s : Bytes) : Int :=
  if base = 0 then (match s with | c :: _ => if c = 48 then 8 else 10 | [] => 10) else base

/-- from `uint64_t cutoff;` to the end of `int64`: `s` points at the first digit candidate, `off = s - start` -/
def int64Digits (signed neg : Bool) (base : Int) (s : Bytes) (off : Nat) : IntOutcome :=
  let cutoff0 : Nat := if neg then two63 else two63 - 1     -- `neg ? -static_cast<uint64_t>(INT64_MIN) : INT64_MAX`
  let cutlim := toI32 (cutoff0 % toU64 base)                -- `cutoff % static_cast<int64_t>(base)` (unsigned %), to int
  let cutoff := cutoff0 / toU64 base
  match int64Loop signed base cutoff cutlim s 0 0 0 with
  | .ub => .ub
  | .done any acc n =>
    if any = 0 then .fail            -- nothing was parsed
    else if any < 0 then .fail       -- ERANGE
    else if signed then
      if neg then (if acc = i64Min then .ub else .ok (-acc) (off + n))   -- `acc = -acc`
      else .ok acc (off + n)
    else
      -- uint64_t accumulator: `result = neg ? (acc > INT64_MAX ? INT64_MIN : -int64_t(acc)) : int64_t(acc)`
      if neg then .ok (if toU64 acc > two63 - 1 then i64Min else -toI64 (toU64 acc)) (off + n)
      else .ok (toI64 (toU64 acc)) (off + n)

/-- `Tokenizer::int64` on the buffer `buf`; `signed` = the accumulator is an `int64_t`. -/
def int64Core (signed : Bool) (buf : Bytes) (base : Int) (allowSign : Bool) (limit : Nat) : IntOutcome :=
  if buf.isEmpty || limit == 0 then .fail else        -- `if (atEnd() || limit == 0) return false;`
  let range := takeLim limit buf                       -- `buf_.substr(0, limit)`
  let sg := lexSign allowSign range
  if allowSign && sg.2.1.isEmpty then .fail else       -- `if (s >= end) return false;` inside `if (allowSign)`
  let px := lexPrefix base sg.2.1 sg.2.2
  let b := resolveBase px.1 px.2.1
  if px.2.1.isEmpty then .fail else                    -- `if (s >= end) return false;`
  int64Digits signed sg.1 b px.2.1 px.2.2

/-- the code as it stands in the staged tree -/
def int64Raw (buf : Bytes) (base : Int) (allowSign : Bool) (limit : Nat) : IntOutcome :=
  int64Core Gen.TokConsts.accSigned buf base allowSign limit

inductive IntResult where
  | ok (v : Int) (t : Tok)
  | fail
  | ub
  deriving DecidableEq, Repr

/-- `Tokenizer::int64(result, base, allowSign, limit)`: `success(s - range.rawContent())` consumes the parsed characters -/
def int64 (t : Tok) (base : Int := 0) (allowSign : Bool := true) (limit : Nat := npos) : IntResult :=
  match int64Raw t.buf base allowSign limit with
  | .ok v k => .ok v (consumeN t k).2
  | .fail => .fail
  | .ub => .ub

inductive UdecResult where
  | ok (v : Int) (t : Tok)
  | insufficient
  | parse
  | ub
  deriving DecidableEq, Repr

/-- `Tokenizer::udec64(description, limit)` -/
def udec64 (t : Tok) (limit : Nat := npos) : UdecResult :=
  if t.atEnd then .insufficient else
  match int64 t 10 false limit with
  | .fail => .parse
  | .ub => .ub
  | .ok v t' => if t'.atEnd then .insufficient else .ok v t'

end Tok
end SquidModel
